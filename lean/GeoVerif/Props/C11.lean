import GeoVerif.Model.Conic
import GeoVerif.Model.ConicKernels
import GeoVerif.Spec.RealInst
import GeoVerif.Proofs.Conic
import GeoVerif.Proofs.ConicDD
import GeoVerif.Proofs.ConicInit
import GeoVerif.Proofs.ConicSeries
import GeoVerif.Proofs.ConicLimits
import Mathlib.Tactic.Ring
import Mathlib.Tactic.LinearCombination
import Mathlib.Tactic.FieldSimp
import Mathlib.Tactic.Positivity
import Mathlib.Tactic.NormNum
import Mathlib.Tactic.Linarith
/-!
# C11 — polar stereographic, Lambert conformal conic, Albers: exact-real theorems about the formula models

The definitions are those of `Model/Conic.lean` — the same terms the driver evaluates in binary64 against the
implementation — read at type `ℝ`.
-/
namespace GeoVerif.Props.C11
open GeoVerif GeoVerif.Conic GeoVerif.Proofs.Conic

/-! ## Hemisphere bookkeeping of the conic classes (for every cone kernel) -/

/-- **Mirror law.**  The hemisphere sign multiplies the latitude once on the way in and `y`, `γ` once on the way
    out; hence, for *any* northern-cone kernel, the southern cone at the mirrored latitude is the mirror image. -/
theorem conic_sign_once (core : ℝ → ℝ → ConeOut ℝ) (s lat lam : ℝ) :
    conicForward core (-s) (-lat) lam = mirror (conicForward core s lat lam) := by
  simp only [conicForward, mirror, mul_neg, neg_mul, neg_neg]

/-- the same for `Reverse`: `Reverse(−cone)(x, −y)` is `Reverse(cone)(x, y)` with latitude and convergence negated -/
theorem conic_reverse_mirror (core : ℝ → ℝ → ConeRev ℝ) (s x y : ℝ) :
    conicReverse core (-s) x (-y) =
      ⟨-(conicReverse core s x y).lat, (conicReverse core s x y).lon, -(conicReverse core s x y).gamma, (conicReverse core s x y).k⟩ := by
  simp only [conicReverse, mul_neg, neg_mul, neg_neg]

/-- **The wrapper inverts.**  If the northern kernels are mutually inverse then so are `Forward` and `Reverse` of the
    class, in either hemisphere (`s = ±1`), with the same convergence and scale. -/
theorem conic_reverse_forward (coreF : ℝ → ℝ → ConeOut ℝ) (coreR : ℝ → ℝ → ConeRev ℝ) (s lat lam : ℝ) (hs : s * s = 1)
    (hinv : ∀ p l, coreR (coreF p l).x (coreF p l).y = ⟨p, l, (coreF p l).gamma, (coreF p l).k⟩) :
    conicReverse coreR s (conicForward coreF s lat lam).x (conicForward coreF s lat lam).y =
      ⟨lat, lam, (conicForward coreF s lat lam).gamma, (conicForward coreF s lat lam).k⟩ := by
  simp only [conicForward, conicReverse]
  have h1 : (coreF (lat * s) lam).y * s * s = (coreF (lat * s) lam).y := by rw [mul_assoc, hs, mul_one]
  rw [h1, hinv]
  have h2 : s * (lat * s) = lat := by rw [mul_comm, mul_assoc, hs, mul_one]
  simp only [h2]

example : ((-1 : ℝ)) * (-1) = 1 := by norm_num   -- the southern sign satisfies the hypothesis

/-- the defect repaired by cf4303d (sign applied twice on the way in) projects the mirror-image latitude for a
    southern cone: the counter-model is `Forward` at `−lat` -/
theorem conic_sign_twice_is_mirror_latitude (core : ℝ → ℝ → ConeOut ℝ) (lat lam : ℝ) :
    conicForwardTwice core (-1) lat lam = conicForward core (-1) (-lat) lam := by
  simp only [conicForwardTwice, conicForward]
  norm_num

/-- `Init` sees the same canonical (northern, ordered) parallels for a cone and its mirror image, with opposite
    signs (parallels not symmetric about the equator; for symmetric ones both signs are `+1` and the cone is a cylinder) -/
theorem cone_canon_mirror (s1 c1 s2 c2 : ℝ) (h : s1 + s2 ≠ 0) :
    coneSign (-s1) (-s2) = -coneSign s1 s2 ∧ coneCanon (-s1) c1 (-s2) c2 = coneCanon s1 c1 s2 c2 := by
  by_cases hp : 0 ≤ s1 + s2
  · have hn : ¬ (0 ≤ -s1 + -s2) := by
      intro h'
      exact h (by linarith)
    simp [coneCanon, coneSign, leb_real, ltb_real, hp, hn, zero_real, one_real]
  · have hn : 0 ≤ -s1 + -s2 := by linarith [not_le.mp hp]
    simp [coneCanon, coneSign, leb_real, ltb_real, hp, hn, zero_real, one_real]

example : (1 / 2 : ℝ) + (3 / 4) ≠ 0 := by norm_num

/-! ## Constructor domains -/

/-- what `sincosd` guarantees on `[-90, 90]` (C16): a valid sine/cosine pair with non-negative cosine -/
def SincosdRange (sc : ℝ → ℝ × ℝ) : Prop := ∀ l, latOk l = true → sincosOk (sc l).1 (sc l).2 = true

/-- **`ctor_domain_conic` (two-parallel ⇔ sin/cos).**  The degree constructor accepts exactly the parameter sets
    whose latitudes are in range and whose sines and cosines the sin/cos constructor accepts — for both classes. -/
theorem ctor_domain_two_vs_sincos (cls : ℕ) (sc : ℝ → ℝ × ℝ) (hsc : SincosdRange sc) (a f l1 l2 k : ℝ) :
    accept2 cls sc a f l1 l2 k =
      (latOk l1 && latOk l2 && accept3 cls a f (sc l1).1 (sc l1).2 (sc l2).1 (sc l2).2 k) := by
  unfold accept2 accept3
  cases h1 : latOk l1 <;> cases h2 : latOk l2 <;> simp
  rw [hsc l1 h1, hsc l2 h2]
  simp

/-- a pair accepted by `sincosOk` never fails the pole rule against itself -/
theorem polesOk_self (cls : ℕ) (s c : ℝ) (h : sincosOk s c = true) : polesOk cls s c s c = true := by
  unfold polesOk lccPolesOk albPolesOk
  by_cases hc : c = 0
  · have hs : s ≠ 0 := by
      intro hs
      simp [sincosOk, hc, hs, zero_real] at h
    have hss : ¬ (s * s ≤ 0) := by
      have : 0 < s * s := mul_self_pos.mpr hs
      linarith
    simp [hc, hss, zero_real]
  · simp [hc, zero_real]

/-- **`ctor_domain_conic` (one-parallel ⇔ two equal parallels).** -/
theorem ctor_domain_one_vs_two (cls : ℕ) (sc : ℝ → ℝ × ℝ) (hsc : SincosdRange sc) (a f l k : ℝ) :
    accept1 a f l k = accept2 cls sc a f l l k := by
  unfold accept1 accept2
  cases h1 : latOk l <;> simp
  rw [polesOk_self cls _ _ (hsc l h1)]
  simp

/-- non-vacuity: a `sincosd` that is exact at the pole and at the equator satisfies the range contract -/
example : SincosdRange (fun l : ℝ => if l = 90 then (1, 0) else (0, 1)) := by
  intro l _
  by_cases h1 : l = 90
  · simp [h1, sincosOk, signbit, zero_real, one_real]
  · simp [h1, sincosOk, signbit, zero_real, one_real]

/-- LCC rejects a pole paired with a different parallel, Albers rejects opposite poles (the checks 77a6c78 restored) -/
theorem lcc_rejects_pole_with_other (s2 c2 : ℝ) (h : c2 ≠ 0) : lccPolesOk 1 0 s2 c2 = false := by
  simp [lccPolesOk, zero_real, h, Ne.symm h]
theorem albers_rejects_opposite_poles : albPolesOk (1 : ℝ) 0 (-1) 0 = false := by
  simp [albPolesOk, zero_real]

/-! ## Polar stereographic -/

theorem psRho1_pos (tp : ℝ) : 0 < psRho1 false tp := by
  have hp := hyp_pos tp
  have hlt := abs_lt_hyp tp
  have habs := abs_nonneg tp
  unfold psRho1
  simp only [leb_real, zero_real, one_real, abs_real, Bool.false_eq_true, if_false]
  by_cases h : 0 ≤ tp
  · simp only [h, decide_true, if_true]
    positivity
  · simp only [h, decide_false, Bool.false_eq_true, if_false]
    positivity

/-- **Key identity** of `Reverse`: with `t = 1/(√(1+τ′²) + τ′)` (`τ′ ≥ 0`) or `t = √(1+τ′²) − τ′` (`τ′ < 0`),
    `(1/t − t)/2 = τ′` — for every real `τ′`. -/
theorem ps_key_identity (tp : ℝ) : (1 / psRho1 false tp - psRho1 false tp) / 2 = tp := by
  have hh := hyp_sq tp
  have hp := hyp_pos tp
  have hlt := abs_lt_hyp tp
  unfold psRho1
  simp only [leb_real, zero_real, one_real, abs_real, Bool.false_eq_true, if_false]
  by_cases h : 0 ≤ tp
  · simp only [h, decide_true, if_true]
    rw [abs_of_nonneg h]
    have hne : hyp tp + tp ≠ 0 := by linarith
    field_simp
    linear_combination hh
  · simp only [h, decide_false, Bool.false_eq_true, if_false]
    have hneg : tp < 0 := not_le.mp h
    rw [abs_of_neg hneg]
    have hne : hyp tp + -tp ≠ 0 := by linarith
    field_simp
    linear_combination -hh

theorem psReverse_of_rho (P : PS ℝ) (tauf : ℝ → ℝ → ℝ) (np : Bool) (x y ρ : ℝ) (h : RealLike.hypot x y = ρ) (hne : ρ ≠ 0) :
    psReverse tauf P np x y =
      ⟨tauf ((1 / (ρ / P.r) - ρ / P.r) / 2) P.es, x, if np then -y else y, psScale P ρ (tauf ((1 / (ρ / P.r) - ρ / P.r) / 2) P.es)⟩ := by
  unfold psReverse
  simp only [h, eqb_real, zero_real, hne, decide_false, Bool.not_false, if_true, one_real, two_real]

/-- **`ps_inverse`.**  `Reverse ∘ Forward = id` for the polar stereographic model, away from the pole that maps to the
    centre, for every ellipsoid and scale (`2 k0 a / c > 0`), both hemispheres, every latitude (`τ = tan φ` any real)
    and longitude direction `(s, c)`, for any inversion `tauf` of `taupf`: `Reverse` recovers `τ` exactly, returns the
    same scale, and the arguments it passes to `atan2d` are `ρ·(sin λ, cos λ)` with `ρ > 0`. -/
theorem ps_inverse (P : PS ℝ) (tauf : ℝ → ℝ → ℝ) (htauf : ∀ τ, tauf (taupf τ P.es) P.es = τ)
    (hr : 0 < P.r) (np : Bool) (τ s c : ℝ) (hsc : s ^ 2 + c ^ 2 = 1) :
    let o := psForward P np false τ s c
    let r := psReverse tauf P np o.x o.y
    let ρ := psRho1 false (taupf τ P.es) * P.r
    0 < ρ ∧ r.tau = τ ∧ r.k = o.k ∧ r.lonx = s * ρ ∧ r.lony = c * ρ := by
  intro o r ρ
  have h1 := psRho1_pos (taupf τ P.es)
  have hρ : 0 < ρ := mul_pos h1 hr
  have hrho : RealLike.hypot o.x o.y = ρ := by
    show RealLike.hypot (s * ρ) (c * (if np then -ρ else ρ)) = ρ
    rw [hypot_real]
    have : (s * ρ) ^ 2 + (c * (if np then -ρ else ρ)) ^ 2 = ρ ^ 2 := by
      cases np <;> simp <;> linear_combination (ρ ^ 2) * hsc
    rw [this]
    exact Real.sqrt_sq hρ.le
  have hne : ρ ≠ 0 := hρ.ne'
  have ht : ρ / P.r = psRho1 false (taupf τ P.es) := by
    show psRho1 false (taupf τ P.es) * P.r / P.r = _
    field_simp
  have hr' : r = ⟨tauf ((1 / (ρ / P.r) - ρ / P.r) / 2) P.es, o.x, if np then -o.y else o.y,
      psScale P ρ (tauf ((1 / (ρ / P.r) - ρ / P.r) / 2) P.es)⟩ := psReverse_of_rho P tauf np o.x o.y ρ hrho hne
  have hτ' : tauf ((1 / (ρ / P.r) - ρ / P.r) / 2) P.es = τ := by
    rw [ht, ps_key_identity]; exact htauf τ
  rw [hr']
  refine ⟨hρ, hτ', ?_, rfl, ?_⟩
  · show psScale P ρ (tauf ((1 / (ρ / P.r) - ρ / P.r) / 2) P.es) = psScale P ρ τ
    rw [hτ']
  · show (if np then -(c * (if np then -ρ else ρ)) else c * (if np then -ρ else ρ)) = c * ρ
    cases np <;> simp

/-- at the pole that maps to the centre, `Forward` returns the centre and the central scale, and `Reverse` of the centre
    returns the central scale -/
theorem ps_pole (P : PS ℝ) (tauf : ℝ → ℝ → ℝ) (np : Bool) (τ s c : ℝ) (hτ : 0 ≤ taupf τ P.es) :
    let o := psForward P np true τ s c
    o.x = 0 ∧ o.y = 0 ∧ o.k = P.k0 ∧ (psReverse tauf P np 0 0).k = P.k0 := by
  intro o
  refine ⟨?_, ?_, rfl, ?_⟩
  · show s * (psRho1 true (taupf τ P.es) * P.r) = 0
    simp [psRho1, leb_real, zero_real, hτ]
  · show c * (if np then -(psRho1 true (taupf τ P.es) * P.r) else psRho1 true (taupf τ P.es) * P.r) = 0
    cases np <;> simp [psRho1, leb_real, zero_real, hτ]
  · simp [psReverse, hypot_real, eqb_real, zero_real]

/-- **`ps_gamma_k` (scale).**  The returned scale is `ρ / (a m(φ))`, `m = cos φ / √(1 − e² sin² φ)` the radius of the
    parallel over `a` (with `sin φ = τ/√(1+τ²)`, `cos φ = 1/√(1+τ²)`). -/
theorem ps_scale_formula (P : PS ℝ) (ρ τ : ℝ) (ha : P.a ≠ 0) (hW : 0 < 1 + P.e2m * τ ^ 2) :
    psScale P ρ τ * (P.a * ((1 / hyp τ) / Real.sqrt (1 - P.e2 * (τ / hyp τ) ^ 2))) = ρ := by
  have hh := hyp_sq τ
  have hp := hyp_pos τ
  have hne : hyp τ ≠ 0 := hp.ne'
  have hW1 : P.e2m + P.e2 / hyp τ ^ 2 = (1 + P.e2m * τ ^ 2) / hyp τ ^ 2 := by
    unfold PS.e2m at *
    simp only [one_real] at *
    field_simp
    rw [hh]; ring
  have hW2 : 1 - P.e2 * (τ / hyp τ) ^ 2 = (1 + P.e2m * τ ^ 2) / hyp τ ^ 2 := by
    unfold PS.e2m at *
    simp only [one_real] at *
    field_simp
    rw [hh]; ring
  have hpos : 0 < (1 + P.e2m * τ ^ 2) / hyp τ ^ 2 := div_pos hW (by positivity)
  unfold psScale
  simp only [sq_real, sqrt_real]
  rw [hW1, hW2]
  have hs : Real.sqrt ((1 + P.e2m * τ ^ 2) / hyp τ ^ 2) ≠ 0 := (Real.sqrt_pos.mpr hpos).ne'
  field_simp

example : (0 : ℝ) < 1 + (1 - (1/298 : ℝ) * (2 - 1/298)) * 3 ^ 2 := by norm_num

/-- **`ps_gamma_k` (convergence)** is by definition `±lon` in the model's caller (`AngNormalize(northp ? lon : −lon)`);
    the direction statement of `ps_inverse` is the corresponding fact for `Reverse`. -/
theorem ps_forward_direction (P : PS ℝ) (np : Bool) (τ s c : ℝ) :
    let o := psForward P np false τ s c
    let ρ := psRho1 false (taupf τ P.es) * P.r
    o.x = ρ * s ∧ o.y = (if np then -1 else 1) * (ρ * c) := by
  intro o ρ
  refine ⟨?_, ?_⟩
  · show s * ρ = ρ * s
    ring
  · show c * (if np then -ρ else ρ) = (if np then -1 else 1) * (ρ * c)
    cases np <;> simp <;> ring

/-- away from the pole the scale is linear in `k0` -/
theorem ps_scale_linear (P : PS ℝ) (np : Bool) (τ s c k0 : ℝ) :
    (psForward { P with k0 := k0 } np false τ s c).k = k0 * (psForward { P with k0 := 1 } true false τ 0 1).k := by
  simp only [psForward, psScale, PS.r, PS.c, PS.es, PS.e2, PS.e2m, Bool.false_eq_true, if_false, one_real, two_real,
    sq_real, sqrt_real]
  ring

/-- **`ps_setscale`.**  After `SetScale(lat, k)` the scale at `lat` is `k` (whenever the old scale there is non-zero). -/
theorem ps_setscale (P : PS ℝ) (np pole : Bool) (τ s c k : ℝ)
    (hk : (psForward { P with k0 := 1 } true pole τ 0 1).k ≠ 0) :
    (psForward { P with k0 := psSetScale P pole τ k } np pole τ s c).k = k := by
  cases pole
  · rw [ps_scale_linear]
    simp only [psSetScale, one_real, zero_real]
    field_simp
  · simp [psForward, psSetScale, one_real]

example : (psForward { (⟨1, 0, 1⟩ : PS ℝ) with k0 := 1 } true true 0 0 1).k ≠ 0 := by
  simp [psForward]

/-! ## The Newton inversion `tauf` -/

/-- an exact solution is a fixed point of the Newton loop of `Math::tauf`, for any tolerance and iteration count -/
theorem tauf_loop_fixed (taup es e2m stol τ : ℝ) (h : taupf τ es = taup) (n : ℕ) :
    taufLoop taup es e2m stol n τ = τ := by
  induction n with
  | zero => rfl
  | succ n ih =>
    have hd : taufDelta taup es e2m τ = 0 := by
      simp [taufDelta, h]
    simp only [taufLoop, hd, add_zero, ih, ite_self]

/-! ## Divided differences: each helper is `(g x − g y)/(x − y)` for `x ≠ y` -/

/-- `Dhyp` is the divided difference of `hyp x = √(1+x²)` -/
theorem Dhyp_dd (x y : ℝ) (hxy : x ≠ y) : Dhyp x y (hyp x) (hyp y) = (hyp x - hyp y) / (x - y) :=
  Proofs.ConicDD.Dhyp_dd x y hxy

/-- at `x = y` it is the derivative `x/hyp x` -/
theorem Dhyp_diag (x : ℝ) : Dhyp x x (hyp x) (hyp x) = x / hyp x :=
  Proofs.ConicDD.Dhyp_diag x

/-- `Dsn` is the divided difference of `sn x = x/√(1+x²)` (both headers) -/
theorem Dsn_dd (x y : ℝ) (hxy : x ≠ y) : Dsn x y (x / hyp x) (y / hyp y) = (x / hyp x - y / hyp y) / (x - y) :=
  Proofs.ConicDD.Dsn_dd x y hxy

/-- over the reals `Dlog1p` is the divided difference of `log(1 + ·)` on `(−1, ∞)` -/
theorem Dlog1p_dd (x y : ℝ) (hx : -1 < x) (hy : -1 < y) (hxy : x ≠ y) :
    Dlog1p x y = (Real.log (1 + x) - Real.log (1 + y)) / (x - y) :=
  Proofs.ConicDD.Dlog1p_dd x y hx hy hxy

/-- `Dexp` is the divided difference of `exp` -/
theorem Dexp_dd (x y : ℝ) (hxy : x ≠ y) : Dexp x y = (Real.exp x - Real.exp y) / (x - y) :=
  Proofs.ConicDD.Dexp_dd x y hxy

/-- `Dsinh` is the divided difference of `sinh` (given `sinh` and `cosh` of both arguments) -/
theorem Dsinh_dd (x y : ℝ) (hxy : x ≠ y) :
    Dsinh x y (Real.sinh x) (Real.sinh y) (Real.cosh x) (Real.cosh y) = (Real.sinh x - Real.sinh y) / (x - y) :=
  Proofs.ConicDD.Dsinh_dd x y hxy

/-- the hyperbolic cosine the code passes is `hyp (sinh x)` -/
theorem hyp_sinh (x : ℝ) : hyp (Real.sinh x) = Real.cosh x :=
  Proofs.ConicDD.hyp_sinh x

/-- `arsinh x − arsinh y = arsinh (x hyp y − y hyp x)` -/
theorem arsinh_sub (x y : ℝ) : Real.arsinh x - Real.arsinh y = Real.arsinh (x * hyp y - y * hyp x) :=
  Proofs.ConicDD.arsinh_sub x y

/-- `Dasinh` is the divided difference of `arsinh` -/
theorem Dasinh_dd (x y : ℝ) (hxy : x ≠ y) :
    Dasinh x y (hyp x) (hyp y) = (Real.arsinh x - Real.arsinh y) / (x - y) :=
  Proofs.ConicDD.Dasinh_dd x y hxy

/-- at `x = y`: the derivative `1/hyp x` -/
theorem Dasinh_diag (x : ℝ) : Dasinh x x (hyp x) (hyp x) = 1 / hyp x :=
  Proofs.ConicDD.Dasinh_diag x

/-- subtraction formula of `atanh u = ½ log((1+u)/(1−u))` on `(−1, 1)` -/
theorem atanh_sub (a b : ℝ) (ha : |a| < 1) (hb : |b| < 1) :
    Real.log ((1 + (a - b) / (1 - a * b)) / (1 - (a - b) / (1 - a * b))) =
      Real.log ((1 + a) / (1 - a)) - Real.log ((1 + b) / (1 - b)) :=
  Proofs.ConicDD.atanh_sub a b ha hb

/-- `Deatanhe` (oblate, `es = e > 0`, `_e2 = e²`) is the divided difference of `x ↦ e·atanh(e x)` where `|e x| < 1` -/
theorem Deatanhe_dd_oblate (es x y : ℝ) (hes : 0 < es) (hx : |es * x| < 1) (hy : |es * y| < 1) (hxy : x ≠ y) :
    Deatanhe (es ^ 2) es x y = (eatanhe x es - eatanhe y es) / (x - y) :=
  Proofs.ConicDD.Deatanhe_dd_oblate es x y hes hx hy hxy

example : (0 : ℝ) < 0.0818 ∧ |(0.0818 : ℝ) * 1| < 1 ∧ |(0.0818 : ℝ) * (1 / 2)| < 1 := by
  refine ⟨by norm_num, ?_, ?_⟩ <;> rw [abs_lt] <;> constructor <;> norm_num

/-- `Deatanhe` (prolate or spherical, `es = −√(−e²) ≤ 0`, `_e2 = −es²`) is the divided difference of `x ↦ −es·atan(es x)` for **every**
    pair `x ≠ y` (since 36a144d the code takes the straight difference when `x·y < 0`; before, finding F84, the identity failed for
    `(es x)(es y) ≤ −1`) -/
theorem Deatanhe_dd_prolate (es x y : ℝ) (hes : es ≤ 0) (hxy : x ≠ y) :
    Deatanhe (-(es ^ 2)) es x y = (eatanhe x es - eatanhe y es) / (x - y) :=
  Proofs.ConicDD.Deatanhe_dd_prolate es x y hes hxy

/-- non-vacuity, inside the former F84 class: `e² = −3`, `x = 9/10`, `y = −9/10` (`e² x y = 2.43 > 1`) -/
example : (-Real.sqrt 3 : ℝ) ≤ 0 ∧ (9 / 10 : ℝ) ≠ -9 / 10 := ⟨by have := Real.sqrt_nonneg 3; linarith, by norm_num⟩

/-! ## The cone kernels (`Model/ConicKernels.lean`): the coded expressions are the textbook closed forms -/

/-- **Cone geometry.**  With `nrho0 = n ρ0` and `drho = ρ − ρ0` the coded `x`, `y` are Snyder's `ρ sin θ`, `ρ0 − ρ cos θ`
    (both branches of the cancellation-free `1 − cos θ`). -/
theorem cone_xy_closed (n ρ0 drho s c lam : ℝ) (hn : n ≠ 0) (hsc : s ^ 2 + c ^ 2 = 1) :
    coneX (n * ρ0) n drho s lam = (ρ0 + drho) * s ∧ coneY (n * ρ0) n drho s c = ρ0 - (ρ0 + drho) * c := by
  constructor
  · simp only [coneX, eqb_real, zero_real, hn, decide_false, Bool.not_false, if_true]
    field_simp
  · simp only [coneY, eqb_real, ltb_real, zero_real, one_real, sq_real, hn, decide_false, Bool.not_false, if_true]
    by_cases hc : c < 0
    · simp only [hc, decide_true, if_true]
      field_simp
      ring
    · simp only [hc, decide_false, Bool.false_eq_true, if_false]
      have h1 : 1 + c ≠ 0 := by
        have := not_lt.mp hc
        linarith
      have hs : s ^ 2 = (1 - c) * (1 + c) := by linear_combination hsc
      rw [hs]
      field_simp
      ring

/-- **LCC `Forward`: `drho = ρ − ρ0`.**  For a cone with `n² + nc² = 1`, `n ≠ 0`, the coded `drho` (either branch: the
    direct form with `exp((1−n)ψ)·e^{−ψ}` or the divided difference `Dexp`) is `(scale/n)(e^{−nψ} − e^{−nψ0})`, i.e.
    `ρ(φ) − ρ(φ0)` for Snyder's `ρ = a F tⁿ` with `t = e^{−ψ}`, `a F = scale/n`. -/
theorem lcc_drho_closed (scale n nc psi0 tchi : ℝ) (hn : n ≠ 0) (h1n : 1 + n ≠ 0) (hnc : nc ^ 2 = (1 - n) * (1 + n)) :
    lccDrho scale n nc (expm1 (-n * psi0)) psi0 tchi (hyp tchi) (Real.arsinh tchi) (Real.arsinh tchi - psi0) =
      scale / n * (Real.exp (-n * Real.arsinh tchi) - Real.exp (-n * psi0)) := by
  set psi := Real.arsinh tchi with hpsi
  unfold lccDrho
  simp only [expm1_real, emPsi_real, sq_real, eqb_real, ltb_real, zero_real, one_real, two_real, exp_real]
  have hfrac : nc ^ 2 / (1 + n) = 1 - n := by rw [hnc]; field_simp
  by_cases hb : (2 * nc < 1 ∧ ¬ (psi - psi0 = 0))
  · obtain ⟨h1, h2⟩ := hb
    simp only [h1, h2, decide_true, decide_false, Bool.not_false, Bool.and_self, if_true]
    rw [hfrac, ← hpsi, ← Real.exp_add]
    have e1 : (1 - n) * psi + -psi = -n * psi := by ring
    rw [e1]
    field_simp
    ring
  · have hcond : (decide (2 * nc < 1) && !decide (psi - psi0 = 0)) = false := by
      by_cases h1 : 2 * nc < 1
      · have h2 : psi - psi0 = 0 := by
          by_contra h2
          exact hb ⟨h1, h2⟩
        simp [h1, h2]
      · simp [h1]
    simp only [hcond, Bool.false_eq_true, if_false]
    by_cases hd : psi - psi0 = 0
    · have : psi = psi0 := by linarith
      rw [this]; simp
    · have hne : -n * psi ≠ -n * psi0 := by
        intro h
        apply hd
        have : n * (psi - psi0) = 0 := by linarith
        rcases mul_eq_zero.mp this with h' | h'
        · exact absurd h' hn
        · exact h'
      rw [Dexp_dd _ _ hne]
      have hxy : -n * psi - -n * psi0 = -n * (psi - psi0) := by ring
      rw [hxy]
      generalize Real.exp (-n * psi) = A
      generalize Real.exp (-n * psi0) = B
      have hd' : psi - psi0 ≠ 0 := hd
      field_simp

/-- **LCC `Forward`: the scale.**  `k = k0 (scβ e^{−nψ}) / (scβ0 e^{−nψ0})`, i.e. `k/k0 = (ρ/m)/(ρ0/m0)` with `m = 1/scβ`. -/
theorem lcc_k_closed (k0 scbet0 n nc scbet tchi tchi0 : ℝ) (h1n : 1 + n ≠ 0) (hnc : nc ^ 2 = (1 - n) * (1 + n)) (hs0 : scbet0 ≠ 0) :
    lccK k0 scbet0 tchi0 (hyp tchi0) n nc scbet tchi (hyp tchi) (Real.arsinh tchi - Real.arsinh tchi0) =
      k0 * (scbet * Real.exp (-n * Real.arsinh tchi)) / (scbet0 * Real.exp (-n * Real.arsinh tchi0)) := by
  unfold lccK
  simp only [epPsi_real, sq_real, one_real, exp_real]
  have hfrac : nc ^ 2 / (1 + n) = 1 - n := by rw [hnc]; field_simp
  rw [hfrac, add_comm (hyp tchi0) tchi0, ← exp_arsinh_hyp]
  set p := Real.arsinh tchi
  set p0 := Real.arsinh tchi0
  have e : Real.exp (-(1 - n) * (p - p0)) * Real.exp p / Real.exp p0 = Real.exp (-n * p0) / Real.exp (-n * p) := by
    rw [div_eq_div_iff (Real.exp_pos _).ne' (Real.exp_pos _).ne', ← Real.exp_add, ← Real.exp_add, ← Real.exp_add]
    congr 1; ring
  rw [e]
  have h1 := (Real.exp_pos (-n * p)).ne'
  have h2 := (Real.exp_pos (-n * p0)).ne'
  field_simp

/-- **Prescribed scale on the first standard parallel**: with the `_k0` that `Init` computes from `k1`, the scale
    `Forward` returns on that parallel is `k1` — for every cone constant (an identity of the two coded expressions). -/
theorem lcc_scale_on_parallel1 (k1 scbet0 tchi0 scchi0 n nc scbet1 tchi1 scchi1 : ℝ)
    (hb0 : scbet0 ≠ 0) (hb1 : scbet1 ≠ 0) (he : epPsi tchi1 scchi1 ≠ 0) (h0 : scchi0 + tchi0 ≠ 0) :
    lccK (lccK0 k1 scbet0 tchi0 scchi0 n nc scbet1 tchi1 scchi1) scbet0 tchi0 scchi0 n nc scbet1 tchi1 scchi1
      (Dasinh tchi1 tchi0 scchi1 scchi0 * (tchi1 - tchi0)) = k1 := by
  unfold lccK lccK0
  simp only [exp_real]
  have e : ∀ c D d : ℝ, c * (D * d) = c * D * d := fun c D d => by ring
  rw [e]
  field_simp

/-- the coded `dpsi` of `Forward` is `ψ − ψ0` -/
theorem lcc_dpsi (tchi tchi0 : ℝ) :
    Dasinh tchi tchi0 (hyp tchi) (hyp tchi0) * (tchi - tchi0) = Real.arsinh tchi - Real.arsinh tchi0 :=
  Proofs.ConicDD.lcc_dpsi tchi tchi0

/-- **`Reverse` recovers `drho`** (both conic classes): from `x = ρ sin θ`, `y = ρ0 − ρ cos θ` the coded expression
    `(x·nx + y·(ny − 2 nρ0)) / (hypot(nx, nρ0 − ny) + nρ0)` is `ρ − ρ0` (`n > 0`, `ρ > 0`, `ρ0 ≥ 0`). -/
theorem cone_reverse_drho (n ρ ρ0 s c : ℝ) (hn : 0 < n) (hρ : 0 < ρ) (hρ0 : 0 ≤ ρ0) (hsc : s ^ 2 + c ^ 2 = 1) :
    let x := ρ * s
    let y := ρ0 - ρ * c
    coneDrhoRev (n * ρ0) (n * x) (n * y) x y (RealLike.hypot (n * x) (n * ρ0 - n * y) + n * ρ0) = ρ - ρ0 := by
  intro x y
  have hh : RealLike.hypot (n * x) (n * ρ0 - n * y) = n * ρ := by
    rw [hypot_real]
    have : (n * x) ^ 2 + (n * ρ0 - n * y) ^ 2 = (n * ρ) ^ 2 := by
      simp only [x, y]
      linear_combination (n ^ 2 * ρ ^ 2) * hsc
    rw [this]
    exact Real.sqrt_sq (by positivity)
  unfold coneDrhoRev
  rw [hh]
  simp only [two_real, x, y]
  have hden : n * ρ + n * ρ0 ≠ 0 := by positivity
  rw [div_eq_iff hden]
  linear_combination (n * ρ ^ 2) * hsc

/-- **LCC `Reverse` recovers `dpsi`**: with `t0nm1 = e^{−nψ0} − 1`, `drho = (scale/n)(e^{−nψ} − e^{−nψ0})`, the coded
    `tnm1 = t0nm1 + n drho/scale` is `e^{−nψ} − 1` and `−Dlog1p(tnm1, t0nm1)·drho/scale = ψ − ψ0`. -/
theorem lcc_reverse_dpsi (scale n psi psi0 : ℝ) (hn : n ≠ 0) (hs : scale ≠ 0) (hne : psi ≠ psi0) :
    let drho := scale / n * (Real.exp (-n * psi) - Real.exp (-n * psi0))
    let t0nm1 := expm1 (-n * psi0)
    let tnm1 := t0nm1 + n * drho / scale
    tnm1 = Real.exp (-n * psi) - 1 ∧ lccDpsiRev t0nm1 scale tnm1 drho = psi - psi0 := by
  intro drho t0nm1 tnm1
  have ht : tnm1 = Real.exp (-n * psi) - 1 := by
    simp only [tnm1, t0nm1, drho, expm1_real]
    field_simp
    ring
  refine ⟨ht, ?_⟩
  unfold lccDpsiRev
  have h0 : t0nm1 = Real.exp (-n * psi0) - 1 := by simp only [t0nm1, expm1_real]
  have hx : -1 < tnm1 := by rw [ht]; linarith [Real.exp_pos (-n * psi)]
  have hy : -1 < t0nm1 := by rw [h0]; linarith [Real.exp_pos (-n * psi0)]
  have hexp : Real.exp (-n * psi) ≠ Real.exp (-n * psi0) := by
    intro h
    have := Real.exp_injective h
    apply hne
    have h' : n * (psi - psi0) = 0 := by linarith
    rcases mul_eq_zero.mp h' with h'' | h''
    · exact absurd h'' hn
    · linarith
  have hxy : tnm1 ≠ t0nm1 := by
    rw [ht, h0]
    intro h
    apply hexp
    linarith
  rw [Dlog1p_dd _ _ hx hy hxy, ht, h0]
  have e1 : (1 : ℝ) + (Real.exp (-n * psi) - 1) = Real.exp (-n * psi) := by ring
  have e2 : (1 : ℝ) + (Real.exp (-n * psi0) - 1) = Real.exp (-n * psi0) := by ring
  rw [e1, e2, Real.log_exp, Real.log_exp]
  have hd : Real.exp (-n * psi) - 1 - (Real.exp (-n * psi0) - 1) ≠ 0 := by
    intro h
    apply hexp
    linarith
  simp only [drho]
  have hd' : Real.exp (-n * psi) - Real.exp (-n * psi0) ≠ 0 := sub_ne_zero.mpr hexp
  generalize Real.exp (-n * psi) = A at hd' ⊢
  generalize Real.exp (-n * psi0) = B at hd' ⊢
  have e3 : A - 1 - (B - 1) = A - B := by ring
  rw [e3]
  field_simp
  ring

/-- **LCC `Reverse`, `2n ≤ 1`**: `tchi0 + Dsinh(…)·dpsi = sinh ψ` -/
theorem lcc_reverse_tchiA (psi psi0 : ℝ) :
    lccTchiA psi0 (Real.sinh psi0) (Real.cosh psi0) (psi - psi0) = Real.sinh psi := by
  unfold lccTchiA
  simp only [sinh_real]
  have e : psi0 + (psi - psi0) = psi := by ring
  rw [e, hyp_sinh]
  by_cases h : psi = psi0
  · rw [h]; simp
  · rw [Dsinh_dd _ _ h]
    have : psi - psi0 ≠ 0 := sub_ne_zero.mpr h
    field_simp
    ring

/-- **LCC `Reverse`, `2n > 1`**: from `tn = e^{−nψ}` the coded combination of `sinh((1−n)ψ)` and `tn ± 1/tn` is `sinh ψ` -/
theorem lcc_reverse_tchiB (n nc psi : ℝ) (hn : n ≠ 0) (h1n : 1 + n ≠ 0) (hnc : nc ^ 2 = (1 - n) * (1 + n)) :
    lccTchiB n nc (Real.exp (-n * psi) - 1) (Real.exp (-n * psi)) = Real.sinh psi := by
  unfold lccTchiB
  have hlog : (if RealLike.ltb (1 : ℝ) (2 * Real.exp (-n * psi)) then log1p (Real.exp (-n * psi) - 1) else RealLike.log (Real.exp (-n * psi))) = -n * psi := by
    split
    · rw [log1p_real]
      have : (1 : ℝ) + (Real.exp (-n * psi) - 1) = Real.exp (-n * psi) := by ring
      rw [this, Real.log_exp]
    · rw [log_real, Real.log_exp]
  simp only [one_real, two_real] at hlog ⊢
  rw [hlog]
  simp only [sq_real, sinh_real]
  have harg : -(nc ^ 2) / (n * (1 + n)) * (-n * psi) = (1 - n) * psi := by
    rw [hnc]; field_simp
  rw [harg, hyp_sinh]
  have hE := Real.exp_pos (-n * psi)
  have hs : Real.sinh (n * psi) = (1 / Real.exp (-n * psi) - Real.exp (-n * psi)) / 2 := by
    rw [Real.sinh_eq, one_div, ← Real.exp_neg]; congr 2 <;> ring_nf
  have hc : Real.cosh (n * psi) = (Real.exp (-n * psi) + 1 / Real.exp (-n * psi)) / 2 := by
    rw [Real.cosh_eq, one_div, ← Real.exp_neg]
    have : -(-n * psi) = n * psi := by ring
    rw [this, show -(n * psi) = -n * psi by ring]; ring
  have hsum : Real.sinh psi = Real.sinh ((1 - n) * psi) * Real.cosh (n * psi) + Real.cosh ((1 - n) * psi) * Real.sinh (n * psi) := by
    rw [← Real.sinh_add]; congr 1; ring
  rw [hsum, hs, hc]
  have hne := hE.ne'
  field_simp
  ring

/-! ### Albers -/

/-- the coded `dq` of `Forward` is `qZ (sin ξ − sin ξ0)` (`= q − q0`) -/
theorem alb_dq (qZ txi txi0 : ℝ) :
    albDq qZ txi (txi / hyp txi) txi0 (txi0 / hyp txi0) = qZ * (txi / hyp txi - txi0 / hyp txi0) := by
  unfold albDq
  by_cases h : txi = txi0
  · rw [h]; simp
  · rw [Dsn_dd _ _ h]
    have : txi - txi0 ≠ 0 := sub_ne_zero.mpr h
    field_simp

/-- **Albers `Forward`: `drho = ρ − ρ0`.**  With `nrho0 = a √m0²`, the coded `−a dq/(√(m0² − n0 dq) + nrho0/a)` satisfies
    `n0·drho = a(√(m0² − n0 dq) − √m0²)`: Snyder's `ρ = a √(C − n q)/n` with `C − n q0 = m0²`, so `drho = ρ − ρ0`. -/
theorem alb_drho_closed (a m02 n0 dq : ℝ) (ha : a ≠ 0) (hm : 0 < m02) (hW : 0 ≤ m02 - n0 * dq) :
    n0 * albDrho a m02 n0 (a * Real.sqrt m02) dq = a * (Real.sqrt (m02 - n0 * dq) - Real.sqrt m02) := by
  unfold albDrho
  simp only [fmax_real, zero_real, sqrt_real, max_eq_right hW]
  have e : a * Real.sqrt m02 / a = Real.sqrt m02 := by field_simp
  rw [e]
  have hsW := Real.sq_sqrt hW
  have hsm := Real.sq_sqrt hm.le
  have hpm : 0 < Real.sqrt m02 := Real.sqrt_pos.mpr hm
  have hpW : 0 ≤ Real.sqrt (m02 - n0 * dq) := Real.sqrt_nonneg _
  have hden : Real.sqrt (m02 - n0 * dq) + Real.sqrt m02 ≠ 0 := by positivity
  set w := Real.sqrt (m02 - n0 * dq)
  set m := Real.sqrt m02
  field_simp
  linear_combination hsm - hsW

/-- **Albers `Reverse`: `dsxia = scxi0 (sin ξ − sin ξ0)`** from the `drho` of `Forward` -/
theorem alb_reverse_dsxia (a qZ scxi0 m02 n0 dq : ℝ) (ha : a ≠ 0) (hq : qZ ≠ 0) (hm : 0 < m02) (hW : 0 ≤ m02 - n0 * dq) :
    albDsxia a qZ scxi0 (a * Real.sqrt m02) n0 (albDrho a m02 n0 (a * Real.sqrt m02) dq) = scxi0 * dq / qZ := by
  have h1 := alb_drho_closed a m02 n0 dq ha hm hW
  have hsW := Real.sq_sqrt hW
  have hsm := Real.sq_sqrt hm.le
  have hpm : 0 < Real.sqrt m02 := Real.sqrt_pos.mpr hm
  have hpW : 0 ≤ Real.sqrt (m02 - n0 * dq) := Real.sqrt_nonneg _
  have hden : Real.sqrt (m02 - n0 * dq) + Real.sqrt m02 ≠ 0 := by positivity
  have h2 : albDrho a m02 n0 (a * Real.sqrt m02) dq = -(a * dq) / (Real.sqrt (m02 - n0 * dq) + Real.sqrt m02) := by
    unfold albDrho
    simp only [fmax_real, zero_real, sqrt_real, max_eq_right hW]
    have e : a * Real.sqrt m02 / a = Real.sqrt m02 := by field_simp
    rw [e]
  unfold albDsxia
  simp only [two_real, sq_real]
  rw [h1, h2]
  field_simp
  ring

/-- **Albers `Reverse` recovers `tan ξ`**: from `dsxia = scxi0 (sin ξ − sin ξ0)` the coded quotient is `tan ξ`
    (as long as `cos² ξ / cos² ξ0` is above the `epsx²` guard) -/
theorem alb_reverse_txi (txi txi0 : ℝ) (hε : RealLike.sq (epsx : ℝ) ≤ hyp txi0 ^ 2 / hyp txi ^ 2) :
    albTxiRev txi0 (hyp txi0 * (txi / hyp txi - txi0 / hyp txi0)) = txi := by
  have h := hyp_sq txi; have h0 := hyp_sq txi0
  have p := hyp_pos txi; have p0 := hyp_pos txi0
  unfold albTxiRev
  simp only [fmax_real, one_real, two_real, sqrt_real]
  have e1 : txi0 + hyp txi0 * (txi / hyp txi - txi0 / hyp txi0) = hyp txi0 * txi / hyp txi := by field_simp; ring
  have e2 : 1 - hyp txi0 * (txi / hyp txi - txi0 / hyp txi0) * (2 * txi0 + hyp txi0 * (txi / hyp txi - txi0 / hyp txi0)) =
      hyp txi0 ^ 2 / hyp txi ^ 2 := by
    field_simp
    ring_nf
    rw [h, h0]
    ring
  rw [e1, e2, max_eq_right hε]
  have e3 : Real.sqrt (hyp txi0 ^ 2 / hyp txi ^ 2) = hyp txi0 / hyp txi := by
    rw [← div_pow, Real.sqrt_sq (by positivity)]
  rw [e3]
  field_simp

example : RealLike.sq (epsx : ℝ) ≤ hyp 0 ^ 2 / hyp 1 ^ 2 := by
  rw [hyp_sq, hyp_sq]
  simp only [epsx, eps, sq_real, one_real, ofNat_real]
  norm_num

/-- **Equal-area bookkeeping (the invariant the seeded change C11B breaks)**: `SetScale` keeps `_k2 = _k0²` -/
theorem alb_setscale_k2 (A : ALB ℝ) (kold k : ℝ) : (albSetScale A kold k).k2 = (albSetScale A kold k).k0 ^ 2 := by
  simp [albSetScale]

/-- with `_k2 = _k0²` the east-west factor `(k2 n0)/k0` of `θ = k2 n0 λ`, `x = ρ sin θ / k0` times the north-south factor
    `1/k0` is the unscaled cone constant `n0`: rescaling by `k0` preserves area -/
theorem alb_area_factor (k0 n0 : ℝ) (hk : k0 ≠ 0) : (RealLike.sq k0 * n0 / k0) * (1 / k0) = n0 := by
  simp only [sq_real]
  field_simp

/-- after `SetScale(lat, k)` the scale `Forward` returns at `lat` is `k` (the scale is linear in `_k0`) -/
theorem alb_setscale_scale (A : ALB ℝ) (kold k t scbet a : ℝ) (hkold : kold = A.k0 * (t * scbet / a)) (hk : kold ≠ 0) :
    (albSetScale A kold k).k0 * (t * scbet / a) = k := by
  simp only [albSetScale]
  have h0 : A.k0 ≠ 0 := by
    intro h; apply hk; rw [hkold, h]; ring
  have h1 : t * scbet / a ≠ 0 := by
    intro h; apply hk; rw [hkold, h]; ring
  have ha : a ≠ 0 := by intro h; apply h1; rw [h]; simp
  have ht : t ≠ 0 := by intro h; apply h1; rw [h]; simp
  have hb : scbet ≠ 0 := by intro h; apply h1; rw [h]; simp
  rw [hkold]
  field_simp

/-- the coded numerator of `Reverse` in the Albers form `k0 x nx − 2 k0 y nρ0 + k0 y ny` is the shared one in `X = k0 x`, `Y = k0 y` -/
theorem alb_reverse_drho (k0 n ρ ρ0 s c : ℝ) (hk : k0 ≠ 0) (hn : 0 < n) (hρ : 0 < ρ) (hρ0 : 0 ≤ ρ0) (hsc : s ^ 2 + c ^ 2 = 1) :
    let x := ρ * s / k0
    let y := (ρ0 - ρ * c) / k0
    (k0 * x * (k0 * n * x) - 2 * k0 * y * (n * ρ0) + k0 * y * (k0 * n * y)) /
      (RealLike.hypot (k0 * n * x) (n * ρ0 - k0 * n * y) + n * ρ0) = ρ - ρ0 := by
  intro x y
  have h := cone_reverse_drho n ρ ρ0 s c hn hρ hρ0 hsc
  simp only [coneDrhoRev, two_real] at h
  have ex : k0 * n * x = n * (ρ * s) := by simp only [x]; field_simp
  have ey : k0 * n * y = n * (ρ0 - ρ * c) := by simp only [y]; field_simp
  have e1 : k0 * x = ρ * s := by simp only [x]; field_simp
  have e2 : k0 * y = ρ0 - ρ * c := by simp only [y]; field_simp
  rw [ex, ey, ← h]
  congr 1
  rw [e1, mul_assoc 2 k0 y, e2]
  ring

/-- **Albers `Reverse ∘ Forward = id` on the kernel level**, for any inversion `tphif` of `txif`: for a consistent member
    set (`nrho0 = a √m0²`, `scxi0 = hyp txi0`, `sxi0 = txi0/scxi0`, `n0 > 0`, `k0 ≠ 0`) and a point whose radius
    `ρ = (nrho0 + n0 drho)/n0` is positive, `Reverse` applied to the `(x, y)` of `Forward` recovers `drho`, `tan ξ` and
    `tan φ` exactly.  (The longitude comes back through `atan2(ρ sin θ, ρ cos θ)`, which is not unfolded here.) -/
theorem alb_reverse_forward_kernel (tphif : ℝ → ℝ) (E : Ell ℝ) (A : ALB ℝ) (sphi cphi lam : ℝ)
    (hc : (epsx : ℝ) ≤ cphi) (htphif : tphif (txif E (sphi / cphi)) = sphi / cphi)
    (ha : E.a ≠ 0) (hq : E.qZ ≠ 0) (hk : A.k0 ≠ 0) (hn : 0 < A.n0) (hm : 0 < A.m02)
    (hnr : A.nrho0 = E.a * Real.sqrt A.m02) (hs0 : A.scxi0 = hyp A.txi0) (hx0 : A.sxi0 = A.txi0 / hyp A.txi0)
    (hW : 0 ≤ A.m02 - A.n0 * albDq E.qZ (txif E (sphi / cphi)) (txif E (sphi / cphi) / hyp (txif E (sphi / cphi))) A.txi0 A.sxi0)
    (hρ : 0 < A.nrho0 + A.n0 * albDrho E.a A.m02 A.n0 A.nrho0
            (albDq E.qZ (txif E (sphi / cphi)) (txif E (sphi / cphi) / hyp (txif E (sphi / cphi))) A.txi0 A.sxi0))
    (hr0 : 0 ≤ A.nrho0)
    (hε : RealLike.sq (epsx : ℝ) ≤ hyp A.txi0 ^ 2 / hyp (txif E (sphi / cphi)) ^ 2) :
    let o := albForward E A sphi cphi lam
    let r := albReverse tphif E A o.x o.y
    r.drho = albDrho E.a A.m02 A.n0 A.nrho0
        (albDq E.qZ (txif E (sphi / cphi)) (txif E (sphi / cphi) / hyp (txif E (sphi / cphi))) A.txi0 A.sxi0)
      ∧ r.txi = txif E (sphi / cphi) ∧ r.tphi = sphi / cphi := by
  intro o r
  have hcmax : fmax (epsx : ℝ) cphi = cphi := by rw [fmax_real]; exact max_eq_right hc
  have hn0 : A.n0 ≠ 0 := hn.ne'
  generalize htxi : txif E (sphi / cphi) = txi at *
  generalize hdq : albDq E.qZ txi (txi / hyp txi) A.txi0 A.sxi0 = dq at *
  generalize hdrho : albDrho E.a A.m02 A.n0 A.nrho0 dq = drho at *
  generalize hθ : A.k2 * A.n0 * lam = θ at *
  have hsc : Real.sin θ ^ 2 + Real.cos θ ^ 2 = 1 := Real.sin_sq_add_cos_sq θ
  obtain ⟨ρ0, hρ0⟩ : ∃ ρ0, ρ0 = A.nrho0 / A.n0 := ⟨_, rfl⟩
  have hnr0 : A.nrho0 = A.n0 * ρ0 := by rw [hρ0]; field_simp
  have hρ0nn : 0 ≤ ρ0 := by rw [hρ0]; exact div_nonneg hr0 hn.le
  have hρpos : 0 < ρ0 + drho := by
    have : ρ0 + drho = (A.nrho0 + A.n0 * drho) / A.n0 := by rw [hρ0]; field_simp
    rw [this]; exact div_pos hρ hn
  have hxy := cone_xy_closed A.n0 ρ0 drho (Real.sin θ) (Real.cos θ) lam hn0 hsc
  -- the outputs of Forward
  have hox : o.x = (ρ0 + drho) * Real.sin θ / A.k0 := by
    simp only [o, albForward, hcmax, eqb_real, zero_real, hn0, decide_false, Bool.not_false, if_true, sin_real, htxi, hdq, hdrho, hθ]
    rw [hnr0]
    field_simp
  have hoy : o.y = (ρ0 - (ρ0 + drho) * Real.cos θ) / A.k0 := by
    simp only [o, albForward, hcmax, sin_real, cos_real, htxi, hdq, hdrho, hθ]
    rw [hnr0, hxy.2]
  -- Reverse
  have ex : A.k0 * A.n0 * o.x = A.n0 * ((ρ0 + drho) * Real.sin θ) := by rw [hox]; field_simp
  have ey : A.k0 * A.n0 * o.y = A.n0 * (ρ0 - (ρ0 + drho) * Real.cos θ) := by rw [hoy]; field_simp
  have hh : RealLike.hypot (A.k0 * A.n0 * o.x) (A.nrho0 - A.k0 * A.n0 * o.y) = A.n0 * (ρ0 + drho) := by
    rw [ex, ey, hnr0, hypot_real]
    have e : (A.n0 * ((ρ0 + drho) * Real.sin θ)) ^ 2 + (A.n0 * ρ0 - A.n0 * (ρ0 - (ρ0 + drho) * Real.cos θ)) ^ 2
        = (A.n0 * (ρ0 + drho)) ^ 2 := by
      linear_combination (A.n0 ^ 2 * (ρ0 + drho) ^ 2) * hsc
    rw [e, Real.sqrt_sq (by positivity)]
  have hden : RealLike.hypot (A.k0 * A.n0 * o.x) (A.nrho0 - A.k0 * A.n0 * o.y) + A.nrho0 ≠ 0 := by
    rw [hh, hnr0]; positivity
  have hrd : r.drho = drho := by
    simp only [r, albReverse, eqb_real, zero_real, two_real, hden, decide_false, Bool.not_false, if_true]
    rw [hh, ex, ey, hnr0]
    have e1 : A.k0 * o.x = (ρ0 + drho) * Real.sin θ := by rw [hox]; field_simp
    have e2 : A.k0 * o.y = ρ0 - (ρ0 + drho) * Real.cos θ := by rw [hoy]; field_simp
    rw [e1, mul_assoc 2 A.k0 o.y, e2]
    have hd : A.n0 * (ρ0 + drho) + A.n0 * ρ0 ≠ 0 := by positivity
    rw [div_eq_iff hd]
    linear_combination (A.n0 * (ρ0 + drho) ^ 2) * hsc
  have hdq' : dq = E.qZ * (txi / hyp txi - A.txi0 / hyp A.txi0) := by
    rw [← hdq, hx0]; exact alb_dq E.qZ txi A.txi0
  have hrt : r.txi = txi := by
    have hrt0 : r.txi = albTxiRev A.txi0 (albDsxia E.a E.qZ A.scxi0 A.nrho0 A.n0 r.drho) := by
      simp only [r, albReverse]
    rw [hrt0, hrd, ← hdrho, hnr, alb_reverse_dsxia E.a E.qZ A.scxi0 A.m02 A.n0 dq ha hq hm hW, hs0, hdq']
    have e : hyp A.txi0 * (E.qZ * (txi / hyp txi - A.txi0 / hyp A.txi0)) / E.qZ = hyp A.txi0 * (txi / hyp txi - A.txi0 / hyp A.txi0) := by
      field_simp
    rw [e]
    exact alb_reverse_txi txi A.txi0 hε
  refine ⟨hrd, hrt, ?_⟩
  have hrp : r.tphi = tphif r.txi := by simp only [r, albReverse]
  rw [hrp, hrt]
  exact htphif

/-- **LCC `Reverse ∘ Forward = id` on the kernel level**, for any inversion `tauf` of the conformal-tangent map: for a
    consistent member set (`n > 0`, `n² + nc² = 1`, `t0nm1 = e^{−nψ0} − 1`, `tchi0 = sinh ψ0`, `scchi0 = cosh ψ0`) and a point
    with `ψ ≠ ψ0`, positive radius and `drho` below the `_drhomax` clamp, `Reverse` applied to the `(x, y)` of `Forward`
    recovers `drho`, `dpsi = ψ − ψ0`, `tan χ` (either branch `2n ≤ 1` / `2n > 1`) and `tan φ` exactly.  (The longitude
    comes back through `atan2(ρ sin θ, ρ cos θ)/n`, not unfolded here; `ψ = ψ0` is the origin parallel.) -/
theorem lcc_reverse_forward_kernel (tauf : ℝ → ℝ → ℝ) (E : Ell ℝ) (L : LCC ℝ) (sphi cphi lam psi0 : ℝ)
    (hc : (epsx : ℝ) ≤ cphi)
    (htauf : tauf (tchiOf E.es sphi (sphi / cphi) (1 / cphi)) E.es = sphi / cphi)
    (hn : 0 < L.n) (hnc : L.nc ^ 2 = (1 - L.n) * (1 + L.n)) (hs : L.scale ≠ 0)
    (ht0 : L.t0nm1 = expm1 (-L.n * psi0)) (hp0 : L.psi0 = psi0) (htc0 : L.tchi0 = Real.sinh psi0)
    (hsc0 : L.scchi0 = Real.cosh psi0) (hr0 : 0 ≤ L.nrho0)
    (hne : Real.arsinh (tchiOf E.es sphi (sphi / cphi) (1 / cphi)) ≠ psi0)
    (hρ : 0 < L.nrho0 + L.n * (L.scale / L.n *
        (Real.exp (-L.n * Real.arsinh (tchiOf E.es sphi (sphi / cphi) (1 / cphi))) - Real.exp (-L.n * psi0))))
    (hmax : L.scale / L.n * (Real.exp (-L.n * Real.arsinh (tchiOf E.es sphi (sphi / cphi) (1 / cphi))) - Real.exp (-L.n * psi0)) ≤ L.drhomax) :
    let o := lccForward E L sphi cphi lam
    let r := lccReverse tauf E L o.x o.y
    r.drho = L.scale / L.n * (Real.exp (-L.n * Real.arsinh (tchiOf E.es sphi (sphi / cphi) (1 / cphi))) - Real.exp (-L.n * psi0))
      ∧ r.dpsi = Real.arsinh (tchiOf E.es sphi (sphi / cphi) (1 / cphi)) - psi0
      ∧ r.tchi = tchiOf E.es sphi (sphi / cphi) (1 / cphi) ∧ r.tphi = sphi / cphi := by
  intro o r
  have hcmax : fmax (epsx : ℝ) cphi = cphi := by rw [fmax_real]; exact max_eq_right hc
  have hn0 : L.n ≠ 0 := hn.ne'
  have h1n : 1 + L.n ≠ 0 := by linarith
  generalize htchi : tchiOf E.es sphi (sphi / cphi) (1 / cphi) = tchi at *
  obtain ⟨psi, hpsi⟩ : ∃ psi, psi = Real.arsinh tchi := ⟨_, rfl⟩
  rw [← hpsi] at hne hρ hmax ⊢
  obtain ⟨drho, hdrho⟩ : ∃ d, d = L.scale / L.n * (Real.exp (-L.n * psi) - Real.exp (-L.n * psi0)) := ⟨_, rfl⟩
  rw [← hdrho] at hρ hmax ⊢
  generalize hθ : L.n * lam = θ at *
  have hsc : Real.sin θ ^ 2 + Real.cos θ ^ 2 = 1 := Real.sin_sq_add_cos_sq θ
  obtain ⟨ρ0, hρ0⟩ : ∃ ρ0, ρ0 = L.nrho0 / L.n := ⟨_, rfl⟩
  have hnr0 : L.nrho0 = L.n * ρ0 := by rw [hρ0]; field_simp
  have hρ0nn : 0 ≤ ρ0 := by rw [hρ0]; exact div_nonneg hr0 hn.le
  have hρpos : 0 < ρ0 + drho := by
    have : ρ0 + drho = (L.nrho0 + L.n * drho) / L.n := by rw [hρ0]; field_simp
    rw [this]; exact div_pos hρ hn
  -- Forward: dpsi and drho in closed form
  have hsc0' : L.scchi0 = hyp L.tchi0 := by rw [hsc0, htc0, hyp_sinh]
  have hdpsiF : Dasinh tchi L.tchi0 (hyp tchi) L.scchi0 * (tchi - L.tchi0) = psi - psi0 := by
    rw [hsc0', lcc_dpsi, htc0, Real.arsinh_sinh, hpsi]
  have hdrhoF : lccDrho L.scale L.n L.nc L.t0nm1 L.psi0 tchi (hyp tchi) (Real.arsinh tchi) (psi - psi0) = drho := by
    rw [ht0, hp0, hpsi, lcc_drho_closed L.scale L.n L.nc psi0 tchi hn0 h1n hnc, hdrho, hpsi]
  have hxy := cone_xy_closed L.n ρ0 drho (Real.sin θ) (Real.cos θ) lam hn0 hsc
  have hox : o.x = (ρ0 + drho) * Real.sin θ := by
    simp only [o, lccForward, hcmax, sin_real, asinh_real, one_real, htchi, hdpsiF, hdrhoF, hθ]
    rw [hnr0, hxy.1]
  have hoy : o.y = ρ0 - (ρ0 + drho) * Real.cos θ := by
    simp only [o, lccForward, hcmax, sin_real, cos_real, asinh_real, one_real, htchi, hdpsiF, hdrhoF, hθ]
    rw [hnr0, hxy.2]
  -- Reverse
  have hdr := cone_reverse_drho L.n (ρ0 + drho) ρ0 (Real.sin θ) (Real.cos θ) hn hρpos hρ0nn hsc
  try simp only at hdr
  have hh : RealLike.hypot (L.n * o.x) (L.nrho0 - L.n * o.y) = L.n * (ρ0 + drho) := by
    rw [hox, hoy, hnr0, hypot_real]
    have e : (L.n * ((ρ0 + drho) * Real.sin θ)) ^ 2 + (L.n * ρ0 - L.n * (ρ0 - (ρ0 + drho) * Real.cos θ)) ^ 2
        = (L.n * (ρ0 + drho)) ^ 2 := by
      linear_combination (L.n ^ 2 * (ρ0 + drho) ^ 2) * hsc
    rw [e, Real.sqrt_sq (by positivity)]
  have hden : RealLike.hypot (L.n * o.x) (L.nrho0 - L.n * o.y) + L.nrho0 ≠ 0 := by
    rw [hh, hnr0]; positivity
  have hclamp : ¬ (L.drhomax < drho) := not_lt.mpr hmax
  have hrd : r.drho = drho := by
    simp only [r, lccReverse, eqb_real, ltb_real, zero_real, hn0, hden, isfin_real, decide_false, Bool.not_false, Bool.and_self,
      if_true, Bool.false_eq_true, if_false]
    rw [← hox, ← hoy, ← hnr0] at hdr
    rw [hdr]
    have e : ρ0 + drho - ρ0 = drho := by ring
    rw [e]
    simp only [hclamp, decide_false, Bool.false_eq_true, if_false]
  obtain ⟨htn, hdp⟩ := lcc_reverse_dpsi L.scale L.n psi psi0 hn0 hs hne
  try simp only at htn hdp
  rw [← hdrho, ← ht0] at htn hdp
  have hpos : ¬ (L.t0nm1 + L.n * drho / L.scale + 1 ≤ 0) := by
    rw [htn]; have := Real.exp_pos (-L.n * psi); linarith
  have hrdp : r.dpsi = psi - psi0 := by
    have h0 : r.dpsi = (if RealLike.eqb (RealLike.hypot (L.n * o.x) (L.nrho0 - L.n * o.y) + L.nrho0) 0 then 0
        else if !(RealLike.leb (L.t0nm1 + L.n * r.drho / L.scale + 1) 0) then lccDpsiRev L.t0nm1 L.scale (L.t0nm1 + L.n * r.drho / L.scale) r.drho
        else ahypover) := by
      simp only [r, lccReverse, eqb_real, hn0, decide_false, Bool.not_false, if_true, zero_real, one_real]
    rw [h0, hrd]
    simp only [eqb_real, leb_real, zero_real, one_real, hden, hpos, decide_false, Bool.not_false, if_true, Bool.false_eq_true, if_false]
    exact hdp
  have hrt : r.tchi = tchi := by
    have h0 : r.tchi = (if RealLike.leb (2 * L.n) 1 then lccTchiA L.psi0 L.tchi0 L.scchi0 r.dpsi
        else lccTchiB L.n L.nc (L.t0nm1 + L.n * r.drho / L.scale)
          (if RealLike.leb (L.t0nm1 + L.n * r.drho / L.scale + 1) 0 then epsx else L.t0nm1 + L.n * r.drho / L.scale + 1)) := by
      simp only [r, lccReverse, two_real, one_real, zero_real]
    rw [h0, hrdp, hrd]
    have hsinh : Real.sinh psi = tchi := by rw [hpsi, Real.sinh_arsinh]
    by_cases hb : 2 * L.n ≤ 1
    · simp only [leb_real, hb, decide_true, if_true]
      rw [hp0, htc0, hsc0, lcc_reverse_tchiA, hsinh]
    · simp only [leb_real, zero_real, hb, hpos, decide_false, Bool.false_eq_true, if_false]
      rw [htn]
      have e : Real.exp (-L.n * psi) - 1 + 1 = Real.exp (-L.n * psi) := by ring
      rw [e, lcc_reverse_tchiB L.n L.nc psi hn0 h1n hnc, hsinh]
  refine ⟨hrd, hrdp, hrt, ?_⟩
  have hrp : r.tphi = tauf r.tchi E.es := by simp only [r, lccReverse]
  rw [hrp, hrt]
  exact htauf

/-- `sn x = x/hyp x` is injective -/
theorem sn_injective (x y : ℝ) (h : x / hyp x = y / hyp y) : x = y :=
  Proofs.ConicDD.sn_injective x y h

/-- `tbet²/(1 + scbet) = scbet − 1` -/
theorem sq_over_one_add_hyp (t : ℝ) : RealLike.sq t / (1 + hyp t) = hyp t - 1 :=
  Proofs.ConicDD.sq_over_one_add_hyp t

/-- **The cone constant of the two-parallel `Init` is Snyder's (15-8)** (oblate ellipsoid): the divided-difference
    quotient `num/den` equals `(ln sec β2 − ln sec β1)/(ψ2 − ψ1)` with `ψ = arsinh(tan φ) − e atanh(e sin φ)` the isometric
    latitude, i.e. `(ln m1 − ln m2)/(ln t1 − ln t2)`. -/
theorem lcc_n_snyder (E : Ell ℝ) (tphi1 tphi2 : ℝ) (h12 : tphi1 ≠ tphi2) (hes : 0 < E.es) (hes1 : E.es < 1)
    (he2 : E.e2 = E.es ^ 2) (hfm : E.fm ≠ 0) :
    (lccNraw E (tphi1 / hyp tphi1) tphi1 (hyp tphi1) (E.fm * tphi1) (hyp (E.fm * tphi1))
        (tphi2 / hyp tphi2) tphi2 (hyp tphi2) (E.fm * tphi2) (hyp (E.fm * tphi2))).1 =
      (Real.log (hyp (E.fm * tphi2)) - Real.log (hyp (E.fm * tphi1))) /
        ((Real.arsinh tphi2 - eatanhe (tphi2 / hyp tphi2) E.es) - (Real.arsinh tphi1 - eatanhe (tphi1 / hyp tphi1) E.es)) := by
  have hΔ : tphi2 - tphi1 ≠ 0 := sub_ne_zero.mpr (Ne.symm h12)
  have h21 : tphi2 ≠ tphi1 := Ne.symm h12
  set b1 := E.fm * tphi1 with hb1
  set b2 := E.fm * tphi2 with hb2
  have p1 := hyp_pos b1; have p2 := hyp_pos b2
  have hb21 : b2 ≠ b1 := by
    intro h; apply h21
    have : E.fm * (tphi2 - tphi1) = 0 := by rw [hb1, hb2] at h; linarith
    rcases mul_eq_zero.mp this with h' | h'
    · exact absurd h' hfm
    · linarith
  -- numerator
  have hnum : Dlog1p (RealLike.sq b2 / (1 + hyp b2)) (RealLike.sq b1 / (1 + hyp b1)) * Dhyp b2 b1 (hyp b2) (hyp b1) * E.fm =
      (Real.log (hyp b2) - Real.log (hyp b1)) / (tphi2 - tphi1) := by
    rw [sq_over_one_add_hyp, sq_over_one_add_hyp, Dhyp_dd _ _ hb21]
    have hbb : b2 - b1 = E.fm * (tphi2 - tphi1) := by rw [hb1, hb2]; ring
    by_cases hh : hyp b2 = hyp b1
    · rw [hh]; simp
    · have hx : (-1 : ℝ) < hyp b2 - 1 := by linarith
      have hy : (-1 : ℝ) < hyp b1 - 1 := by linarith
      have hne : hyp b2 - 1 ≠ hyp b1 - 1 := by intro h; apply hh; linarith
      rw [Dlog1p_dd _ _ hx hy hne]
      have e1 : (1 : ℝ) + (hyp b2 - 1) = hyp b2 := by ring
      have e2 : (1 : ℝ) + (hyp b1 - 1) = hyp b1 := by ring
      rw [e1, e2, hbb]
      have hd : hyp b2 - 1 - (hyp b1 - 1) ≠ 0 := by intro h; apply hh; linarith
      have hd2 : hyp b2 - hyp b1 ≠ 0 := sub_ne_zero.mpr hh
      have e3 : hyp b2 - 1 - (hyp b1 - 1) = hyp b2 - hyp b1 := by ring
      rw [e3]
      field_simp
  -- denominator
  have hs21 : tphi2 / hyp tphi2 ≠ tphi1 / hyp tphi1 := fun h => h21 (sn_injective _ _ h)
  have habs : ∀ t : ℝ, |E.es * (t / hyp t)| < 1 := by
    intro t
    have ht := abs_lt_hyp t
    have hp := hyp_pos t
    rw [abs_mul, abs_of_pos hes, abs_div, abs_of_pos hp]
    have : |t| / hyp t < 1 := (div_lt_one hp).mpr ht
    have h0 : 0 ≤ |t| / hyp t := by positivity
    nlinarith
  have hden : Dasinh tphi2 tphi1 (hyp tphi2) (hyp tphi1) - Deatanhe E.e2 E.es (tphi2 / hyp tphi2) (tphi1 / hyp tphi1) *
        Dsn tphi2 tphi1 (tphi2 / hyp tphi2) (tphi1 / hyp tphi1) =
      ((Real.arsinh tphi2 - eatanhe (tphi2 / hyp tphi2) E.es) - (Real.arsinh tphi1 - eatanhe (tphi1 / hyp tphi1) E.es)) / (tphi2 - tphi1) := by
    rw [Dasinh_dd _ _ h21, he2, Deatanhe_dd_oblate E.es _ _ hes (habs tphi2) (habs tphi1) hs21, Dsn_dd _ _ h21]
    have hsd : tphi2 / hyp tphi2 - tphi1 / hyp tphi1 ≠ 0 := sub_ne_zero.mpr hs21
    field_simp
    ring
  unfold lccNraw
  simp only [one_real] at hnum ⊢
  rw [hnum, hden]
  rw [div_div_div_cancel_right₀ hΔ]

example : (0 : ℝ) < (⟨1, 1 / 2⟩ : Ell ℝ).fm ∧ (⟨1, 1 / 2⟩ : Ell ℝ).e2 = 3 / 4 := by
  simp only [Ell.fm, Ell.e2, one_real, two_real]
  norm_num

/-- `atanh` (as `½ log((1+u)/(1−u))`) is odd on `(−1, 1)` -/
theorem atanh_odd (u : ℝ) (hu : |u| < 1) : Real.log ((1 + -u) / (1 - -u)) / 2 = -(Real.log ((1 + u) / (1 - u)) / 2) :=
  Proofs.ConicDD.atanh_odd u hu

/-- `Datanhee` (oblate) is the divided difference of `atanhee x = atanh(e x)/e` -/
theorem Datanhee_dd_oblate (f e x y : ℝ) (hf : 0 < f) (he : 0 < e) (hx : |e * x| < 1) (hy : |e * y| < 1) (hxy : x ≠ y) :
    Datanhee f (e ^ 2) e x y = (atanhee f e x - atanhee f e y) / (x - y) :=
  Proofs.ConicDD.Datanhee_dd_oblate f e x y hf he hx hy hxy

/-- **`txif` is the authalic tangent** (oblate ellipsoid): with `Q(s) = s/(1 − e² s²) + atanh(e s)/e` (so `q = (1−e²) Q`) and
    `QZ = Q(1)`, the coded expression is `Q/√(QZ² − Q²)`, i.e. `tan ξ` for `sin ξ = q/qZ`. -/
theorem txif_closed (E : Ell ℝ) (tphi : ℝ) (hf : 0 < E.f) (he2 : 0 < E.e2) (he21 : E.e2 < 1)
    (hQ : (tphi / hyp tphi / (1 - E.e2 * (tphi / hyp tphi) ^ 2) + E.atanhee (tphi / hyp tphi)) ^ 2 <
          (1 / E.e2m + E.atanhee 1) ^ 2) :
    txif E tphi =
      (tphi / hyp tphi / (1 - E.e2 * (tphi / hyp tphi) ^ 2) + E.atanhee (tphi / hyp tphi)) /
        Real.sqrt ((1 / E.e2m + E.atanhee 1) ^ 2 -
          (tphi / hyp tphi / (1 - E.e2 * (tphi / hyp tphi) ^ 2) + E.atanhee (tphi / hyp tphi)) ^ 2) := by
  have hh := hyp_sq tphi; have hp := hyp_pos tphi; have hlt := abs_lt_hyp tphi
  -- the eccentricity
  have hepos : 0 < E.e := by
    unfold Ell.e; simp only [sqrt_real, abs_real]
    exact Real.sqrt_pos.mpr (abs_pos.mpr he2.ne')
  have hesq : E.e ^ 2 = E.e2 := by
    unfold Ell.e; simp only [sqrt_real, abs_real]
    rw [Real.sq_sqrt (abs_nonneg _), abs_of_pos he2]
  have he1 : E.e < 1 := by
    by_contra h
    have : 1 ≤ E.e := not_lt.mp h
    have : 1 ≤ E.e ^ 2 := by nlinarith
    rw [hesq] at this; linarith
  have hem : 0 < E.e2m := by unfold Ell.e2m; simp only [one_real]; linarith
  set s := tphi / hyp tphi with hs
  clear_value s
  have hem' : E.e2m = 1 - E.e2 := by unfold Ell.e2m; simp only [one_real]
  have hemne : E.e2m ≠ 0 := hem.ne'
  have hsabs : |s| < 1 := by
    rw [hs, abs_div, abs_of_pos hp]; exact (div_lt_one hp).mpr hlt
  obtain ⟨hs1, hs2⟩ := abs_lt.mp hsabs
  have hes : |E.e * s| < 1 := by
    rw [abs_mul, abs_of_pos hepos]
    have := abs_nonneg s
    nlinarith
  have hens : |E.e * -s| < 1 := by rw [mul_neg, abs_neg]; exact hes
  have he1' : |E.e * 1| < 1 := by rw [mul_one, abs_of_pos hepos]; exact he1
  have hw : 0 < 1 - E.e2 * s ^ 2 := by
    have : s ^ 2 < 1 := by nlinarith
    nlinarith
  -- cphi, sphi of the code
  have hc : (1 : ℝ) / Real.sqrt (1 + tphi ^ 2) = 1 / hyp tphi := by rw [hyp_real]
  have hcs : s ^ 2 + (1 / hyp tphi) ^ 2 = 1 := by
    rw [hs]; field_simp; linarith
  -- the two divided differences
  have hD1 : E.Datanhee 1 s = (E.atanhee 1 - E.atanhee s) / (1 - s) := by
    unfold Ell.Datanhee Ell.atanhee
    rw [← hesq]
    exact Datanhee_dd_oblate E.f E.e 1 s hf hepos he1' hes (by linarith)
  have hodd : E.atanhee (-s) = -E.atanhee s := by
    unfold Ell.atanhee atanhee
    simp only [ltb_real, zero_real, hf, decide_true, if_true, atanh_real]
    rw [mul_neg, atanh_odd _ hes]; ring
  have hD2 : E.Datanhee 1 (-s) = (E.atanhee 1 + E.atanhee s) / (1 + s) := by
    have : E.Datanhee 1 (-s) = (E.atanhee 1 - E.atanhee (-s)) / (1 - -s) := by
      unfold Ell.Datanhee Ell.atanhee
      rw [← hesq]
      exact Datanhee_dd_oblate E.f E.e 1 (-s) hf hepos he1' hens (by linarith)
    rw [this, hodd]; congr 1 <;> ring
  set Q := s / (1 - E.e2 * s ^ 2) + E.atanhee s with hQdef
  set QZ := 1 / E.e2m + E.atanhee 1 with hQZdef
  clear_value Q QZ
  have hpos : 0 < QZ ^ 2 - Q ^ 2 := by linarith
  unfold txif
  simp only [one_real, sq_real, sqrt_real]
  rw [hc]
  have hsp : tphi * (1 / hyp tphi) = s := by rw [hs]; ring
  rw [hsp, hD1, hD2]
  have hA : (1 + E.e2 * s) / (E.e2m * (1 - E.e2 * s * s)) + (E.atanhee 1 - E.atanhee s) / (1 - s) = (QZ - Q) / (1 - s) := by
    rw [hQdef, hQZdef]
    have h1s : (1 : ℝ) - s ≠ 0 := by linarith
    have hw' : 1 - E.e2 * s * s ≠ 0 := by have : 1 - E.e2 * s * s = 1 - E.e2 * s ^ 2 := by ring
                                          rw [this]; exact hw.ne'
    have hw'' : 1 - E.e2 * s ^ 2 ≠ 0 := hw.ne'
    field_simp
    rw [hem']
    ring
  have hB : (1 - E.e2 * s) / (E.e2m * (1 - E.e2 * s * s)) + (E.atanhee 1 + E.atanhee s) / (1 + s) = (QZ + Q) / (1 + s) := by
    rw [hQdef, hQZdef]
    have h1s : (1 : ℝ) + s ≠ 0 := by linarith
    have hw' : 1 - E.e2 * s * s ≠ 0 := by have : 1 - E.e2 * s * s = 1 - E.e2 * s ^ 2 := by ring
                                          rw [this]; exact hw.ne'
    have hw'' : 1 - E.e2 * s ^ 2 ≠ 0 := hw.ne'
    field_simp
    rw [hem']
    ring
  rw [hA, hB]
  have hN : tphi / (1 - E.e2 * s * s) + E.atanhee s / (1 / hyp tphi) = Q * hyp tphi := by
    rw [hQdef]
    have hw' : 1 - E.e2 * s * s ≠ 0 := by have : 1 - E.e2 * s * s = 1 - E.e2 * s ^ 2 := by ring
                                          rw [this]; exact hw.ne'
    have hw'' : 1 - E.e2 * s ^ 2 ≠ 0 := hw.ne'
    rw [hs]
    field_simp
  rw [hN]
  have hprod : (QZ - Q) / (1 - s) * ((QZ + Q) / (1 + s)) = (QZ ^ 2 - Q ^ 2) * hyp tphi ^ 2 := by
    have h1 : (1 : ℝ) - s ≠ 0 := by linarith
    have h2 : (1 : ℝ) + s ≠ 0 := by linarith
    have hc2 : (1 - s) * (1 + s) = (1 / hyp tphi) ^ 2 := by linear_combination -hcs
    rw [div_mul_div_comm, hc2]
    field_simp
    ring
  rw [hprod, Real.sqrt_mul hpos.le, Real.sqrt_sq hp.le]
  have hsq : Real.sqrt (QZ ^ 2 - Q ^ 2) ≠ 0 := (Real.sqrt_pos.mpr hpos).ne'
  field_simp

/-! ### Non-vacuity of the kernel theorems' hypotheses -/

example : ((4 / 5 : ℝ)) ^ 2 = (1 - 3 / 5) * (1 + 3 / 5) := by norm_num   -- `n² + nc² = 1`

/-- sphere: `tchi = tphi` -/
theorem tchiOf_sphere (s t c : ℝ) : tchiOf (⟨1, 0⟩ : Ell ℝ).es s t c = t := by
  have hes : (⟨1, 0⟩ : Ell ℝ).es = 0 := by
    simp [Ell.es, Ell.e2, ltb_real, zero_real, one_real, two_real]
  rw [hes]
  simp [tchiOf, eatanhe, ltb_real, zero_real, hyp_real]

/-- `lcc_reverse_forward_kernel`: sphere, cone constant 3/5, point at latitude `atan(3/4)` -/
example : ∃ (tauf : ℝ → ℝ → ℝ) (E : Ell ℝ) (L : LCC ℝ) (sphi cphi psi0 : ℝ),
    (epsx : ℝ) ≤ cphi ∧ tauf (tchiOf E.es sphi (sphi / cphi) (1 / cphi)) E.es = sphi / cphi ∧ 0 < L.n ∧
    L.nc ^ 2 = (1 - L.n) * (1 + L.n) ∧ L.scale ≠ 0 ∧ L.t0nm1 = expm1 (-L.n * psi0) ∧ L.psi0 = psi0 ∧ L.tchi0 = Real.sinh psi0 ∧
    L.scchi0 = Real.cosh psi0 ∧ 0 ≤ L.nrho0 ∧ Real.arsinh (tchiOf E.es sphi (sphi / cphi) (1 / cphi)) ≠ psi0 ∧
    0 < L.nrho0 + L.n * (L.scale / L.n * (Real.exp (-L.n * Real.arsinh (tchiOf E.es sphi (sphi / cphi) (1 / cphi))) - Real.exp (-L.n * psi0))) ∧
    L.scale / L.n * (Real.exp (-L.n * Real.arsinh (tchiOf E.es sphi (sphi / cphi) (1 / cphi))) - Real.exp (-L.n * psi0)) ≤ L.drhomax := by
  refine ⟨fun t _ => t, ⟨1, 0⟩, ⟨1, 3 / 5, 4 / 5, 0, 1, 0, 1, 1, 0, 1, 0, 1, 10⟩, 3 / 5, 4 / 5, 0, ?_, ?_, ?_, ?_, ?_, ?_, ?_, ?_, ?_, ?_, ?_, ?_, ?_⟩
  · simp only [epsx, eps, sq_real, one_real, ofNat_real]; norm_num
  · simp only [tchiOf_sphere]
  · norm_num
  · norm_num
  · norm_num
  · simp [expm1_real]
  · rfl
  · simp
  · simp
  · norm_num
  · rw [tchiOf_sphere]
    intro h
    have := Real.arsinh_eq_zero_iff.mp h
    norm_num at this
  · rw [tchiOf_sphere]
    have h := Real.exp_pos (-(3 / 5 : ℝ) * Real.arsinh (3 / 5 / (4 / 5)))
    simp only [mul_zero, Real.exp_zero]
    have e : (1 : ℝ) + 3 / 5 * (1 / (3 / 5) * (Real.exp (-(3 / 5) * Real.arsinh (3 / 5 / (4 / 5))) - 1)) = Real.exp (-(3 / 5) * Real.arsinh (3 / 5 / (4 / 5))) := by
      field_simp; ring
    rw [e]; exact h
  · rw [tchiOf_sphere]
    simp only [mul_zero, Real.exp_zero]
    have hpos : 0 < Real.arsinh ((3 / 5 : ℝ) / (4 / 5)) := Real.arsinh_pos_iff.mpr (by norm_num)
    have hlt : Real.exp (-(3 / 5 : ℝ) * Real.arsinh (3 / 5 / (4 / 5))) < 1 := by
      rw [Real.exp_lt_one_iff]; nlinarith
    nlinarith


/-- `alb_reverse_forward_kernel`: sphere, a cone whose origin is the point itself -/
example : ∃ (tphif : ℝ → ℝ) (E : Ell ℝ) (A : ALB ℝ) (sphi cphi : ℝ),
    (epsx : ℝ) ≤ cphi ∧ tphif (txif E (sphi / cphi)) = sphi / cphi ∧ E.a ≠ 0 ∧ E.qZ ≠ 0 ∧ A.k0 ≠ 0 ∧ 0 < A.n0 ∧ 0 < A.m02 ∧
    A.nrho0 = E.a * Real.sqrt A.m02 ∧ A.scxi0 = hyp A.txi0 ∧ A.sxi0 = A.txi0 / hyp A.txi0 ∧
    0 ≤ A.m02 - A.n0 * albDq E.qZ (txif E (sphi / cphi)) (txif E (sphi / cphi) / hyp (txif E (sphi / cphi))) A.txi0 A.sxi0 ∧
    0 < A.nrho0 + A.n0 * albDrho E.a A.m02 A.n0 A.nrho0
            (albDq E.qZ (txif E (sphi / cphi)) (txif E (sphi / cphi) / hyp (txif E (sphi / cphi))) A.txi0 A.sxi0) ∧
    0 ≤ A.nrho0 ∧ RealLike.sq (epsx : ℝ) ≤ hyp A.txi0 ^ 2 / hyp (txif E (sphi / cphi)) ^ 2 := by
  have hq : (⟨1, 0⟩ : Ell ℝ).qZ = 2 := by
    simp [Ell.qZ, Ell.e2m, Ell.e2, Ell.atanhee, atanhee, ltb_real, zero_real, one_real, two_real]
    norm_num
  set t := txif (⟨1, 0⟩ : Ell ℝ) ((3 / 5 : ℝ) / (4 / 5)) with ht
  have hdq : albDq (⟨1, 0⟩ : Ell ℝ).qZ t (t / hyp t) t (t / hyp t) = 0 := by simp [albDq]
  refine ⟨fun _ => (3 / 5 : ℝ) / (4 / 5), ⟨1, 0⟩, ⟨1, 0, 1, 1 / 2, 1, 1, 1, t, hyp t, t / hyp t⟩, 3 / 5, 4 / 5,
    ?_, rfl, ?_, ?_, ?_, ?_, ?_, ?_, rfl, rfl, ?_, ?_, ?_, ?_⟩
  · simp only [epsx, eps, sq_real, one_real, ofNat_real]; norm_num
  · norm_num
  · rw [hq]; norm_num
  · norm_num
  · norm_num
  · norm_num
  · simp
  · simp only [← ht, hdq]; norm_num
  · simp only [← ht, hdq]; simp [albDrho]
  · norm_num
  · simp only [← ht]
    have hp := hyp_pos t
    rw [div_self (by positivity)]
    simp only [epsx, eps, sq_real, one_real, ofNat_real]; norm_num


/-- `txif_closed`: `f = 1/2` at the equator -/
example : ∃ (E : Ell ℝ) (tphi : ℝ), 0 < E.f ∧ 0 < E.e2 ∧ E.e2 < 1 ∧
    (tphi / hyp tphi / (1 - E.e2 * (tphi / hyp tphi) ^ 2) + E.atanhee (tphi / hyp tphi)) ^ 2 < (1 / E.e2m + E.atanhee 1) ^ 2 := by
  refine ⟨⟨1, 1 / 2⟩, 0, by norm_num, ?_, ?_, ?_⟩
  · simp only [Ell.e2, two_real]; norm_num
  · simp only [Ell.e2, two_real]; norm_num
  · have he2 : (⟨1, 1 / 2⟩ : Ell ℝ).e2 = 3 / 4 := by simp only [Ell.e2, two_real]; norm_num
    have hem : (⟨1, 1 / 2⟩ : Ell ℝ).e2m = 1 / 4 := by simp only [Ell.e2m, he2, one_real]; norm_num
    have hepos : 0 < (⟨1, 1 / 2⟩ : Ell ℝ).e := by
      simp only [Ell.e, he2, sqrt_real, abs_real]; positivity
    have he1 : (⟨1, 1 / 2⟩ : Ell ℝ).e < 1 := by
      simp only [Ell.e, he2, sqrt_real, abs_real]
      rw [abs_of_pos (by norm_num : (0 : ℝ) < 3 / 4)]
      calc Real.sqrt (3 / 4) < Real.sqrt 1 := Real.sqrt_lt_sqrt (by norm_num) (by norm_num)
        _ = 1 := Real.sqrt_one
    have hz : (⟨1, 1 / 2⟩ : Ell ℝ).atanhee 0 = 0 := by
      simp [Ell.atanhee, atanhee, ltb_real, zero_real]
    have h1 : 0 ≤ (⟨1, 1 / 2⟩ : Ell ℝ).atanhee 1 := by
      simp only [Ell.atanhee, atanhee, ltb_real, zero_real, atanh_real, mul_one]
      have : (0 : ℝ) < 1 / 2 := by norm_num
      simp only [this, decide_true, if_true]
      set e := (⟨1, 1 / 2⟩ : Ell ℝ).e
      have : 1 ≤ (1 + e) / (1 - e) := by
        rw [le_div_iff₀ (by linarith)]; linarith
      have := Real.log_nonneg this
      positivity
    simp only [zero_div, hz, hem]
    nlinarith

/-! ## `Init` of both conic classes, every kind of ellipsoid, and the series of `AlbersEqualArea` (deepening round; the proofs are in
`Proofs/ConicInit.lean`, `Proofs/ConicSeries.lean`, `Proofs/ConicLimits.lean`) -/

section Deepening
open GeoVerif.Proofs.ConicInit (tchiR)
open GeoVerif.Proofs.ConicSeries (axPoly axCoef hsym dd1C dd1Sum dd1State Psum Rsum dd2ee dd2Term dd2Sum dd2State dd2Negl dd2A)

/-! ### (a) `LambertConformalConic::Init`: the careful evaluation of `1 − n` -/

/-- **The careful `1 − n` is `1 − n`.**  `t1 ≠ t2` are the tangents of the ordered parallels, `x1, x2` their `ξ = eatanhe(sin φ)`,
    `tchiR t x = cosh x · t − sinh x · sec φ` the conformal tangent; `den` and `n` are any numbers with `den·Δ = ψ2 − ψ1 ≠ 0`,
    `n·den·Δ = ln sec β2 − ln sec β1` (`ψ = arsinh tan χ`), and `Deatanhe` is the divided difference of `eatanhe` on the three pairs
    `(1, sphi1)`, `(1, sphi2)`, `(sphi1, sphi2)` (true on oblate, spherical and — since the repair of finding F84 — all prolate ellipsoids).  Then the value the code multiplies into `nc² = (1 − n)(1 + n)` is exactly `1 − n`. -/
theorem lcc_one_minus_n (E : Ell ℝ) (t1 t2 x1 x2 den n : ℝ) (hfm : 0 < E.fm) (h12 : t1 ≠ t2)
    (hDe1 : Deatanhe E.e2 E.es 1 (t1 / hyp t1) * (1 - t1 / hyp t1) = eatanhe 1 E.es - x1)
    (hDe2 : Deatanhe E.e2 E.es 1 (t2 / hyp t2) * (1 - t2 / hyp t2) = eatanhe 1 E.es - x2)
    (hDe12 : Deatanhe E.e2 E.es (t1 / hyp t1) (t2 / hyp t2) * (t1 / hyp t1 - t2 / hyp t2) = x1 - x2)
    (hden : den * (t2 - t1) = Real.arsinh (tchiR t2 x2) - Real.arsinh (tchiR t1 x1)) (hden0 : den ≠ 0)
    (hn : n * den * (t2 - t1) = Real.log (hyp (E.fm * t2)) - Real.log (hyp (E.fm * t1))) :
    lccOneMinusN E den
        (t1 / hyp t1) t1 (hyp t1) (Real.sinh x1) (hyp (Real.sinh x1)) x1 (tchiR t1 x1) (hyp (tchiR t1 x1)) (E.fm * t1) (hyp (E.fm * t1))
        (t2 / hyp t2) t2 (hyp t2) (Real.sinh x2) (hyp (Real.sinh x2)) x2 (tchiR t2 x2) (hyp (tchiR t2 x2)) (E.fm * t2) (hyp (E.fm * t2))
      = 1 - n :=
  Proofs.ConicInit.lccOneMinusN_eq E t1 t2 x1 x2 den n hfm h12 hDe1 hDe2 hDe12 hden hden0 hn

/-- the isometric latitude `arsinh tan χ = arsinh tan φ − ξ` -/
theorem arsinh_tchi (t x : ℝ) : Real.arsinh (tchiR t x) = Real.arsinh t - x := Proofs.ConicInit.arsinh_tchiR t x

/-- **`n = num/den` of the two-parallel `Init` for any ellipsoid**: `den·Δ = ψ2 − ψ1` and `n·den·Δ = ln sec β2 − ln sec β1` whenever
    `Deatanhe(sphi2, sphi1)` is the divided difference of `ξ` — Snyder's (15-8) without a restriction on the sign of `e²` -/
theorem lcc_n_closed (E : Ell ℝ) (t1 t2 x1 x2 : ℝ) (h12 : t1 ≠ t2)
    (hDe : Deatanhe E.e2 E.es (t2 / hyp t2) (t1 / hyp t1) * (t2 / hyp t2 - t1 / hyp t1) = x2 - x1) :
    let nd := lccNraw E (t1 / hyp t1) t1 (hyp t1) (E.fm * t1) (hyp (E.fm * t1)) (t2 / hyp t2) t2 (hyp t2) (E.fm * t2) (hyp (E.fm * t2))
    nd.2 * (t2 - t1) = (Real.arsinh t2 - x2) - (Real.arsinh t1 - x1) ∧
    (nd.2 ≠ 0 → nd.1 * nd.2 * (t2 - t1) = Real.log (hyp (E.fm * t2)) - Real.log (hyp (E.fm * t1))) :=
  Proofs.ConicInit.lccNraw_closed E t1 t2 x1 x2 h12 hDe

/-- **`nc` of the branch `n ≥ 1/4` on an oblate ellipsoid**: `lccNcCareful = √(max 0 (1 − n)·(1 + n))` for the `n`, `den` that `Init` computes -/
theorem lcc_nc_careful_oblate (E : Ell ℝ) (t1 t2 : ℝ) (hfm : 0 < E.fm) (h12 : t1 ≠ t2) (hes : 0 < E.es) (hes1 : E.es < 1) (he2 : E.e2 = E.es ^ 2)
    (hψ : Real.arsinh t2 - eatanhe (t2 / hyp t2) E.es ≠ Real.arsinh t1 - eatanhe (t1 / hyp t1) E.es) :
    let x1 := eatanhe (t1 / hyp t1) E.es
    let x2 := eatanhe (t2 / hyp t2) E.es
    let nd := lccNraw E (t1 / hyp t1) t1 (hyp t1) (E.fm * t1) (hyp (E.fm * t1)) (t2 / hyp t2) t2 (hyp t2) (E.fm * t2) (hyp (E.fm * t2))
    lccNcCareful E nd.1 nd.2
        (t1 / hyp t1) t1 (hyp t1) (Real.sinh x1) (hyp (Real.sinh x1)) x1 (tchiR t1 x1) (hyp (tchiR t1 x1)) (E.fm * t1) (hyp (E.fm * t1))
        (t2 / hyp t2) t2 (hyp t2) (Real.sinh x2) (hyp (Real.sinh x2)) x2 (tchiR t2 x2) (hyp (tchiR t2 x2)) (E.fm * t2) (hyp (E.fm * t2))
      = Real.sqrt (max 0 (1 - nd.1) * (1 + nd.1)) :=
  Proofs.ConicInit.lccNcCareful_oblate E t1 t2 hfm h12 hes hes1 he2 hψ

/-- non-vacuity of `lcc_nc_careful_oblate`: `f = 1/5` (`e = 3/5`), parallels at the equator and at `tan φ = 3/4` (`sin φ = 3/5`):
    `ψ2 = ln 2 − (3/10) ln(17/8) ≠ 0 = ψ1` -/
example : ∃ (E : Ell ℝ) (t1 t2 : ℝ), 0 < E.fm ∧ t1 ≠ t2 ∧ 0 < E.es ∧ E.es < 1 ∧ E.e2 = E.es ^ 2 ∧
    Real.arsinh t2 - eatanhe (t2 / hyp t2) E.es ≠ Real.arsinh t1 - eatanhe (t1 / hyp t1) E.es := by
  have he2 : (⟨1, 1 / 5⟩ : Ell ℝ).e2 = 9 / 25 := by simp only [Ell.e2, two_real]; norm_num
  have hes : (⟨1, 1 / 5⟩ : Ell ℝ).es = 3 / 5 := by
    simp only [Ell.es, he2, ltb_real, zero_real, one_real, sqrt_real, abs_real]
    have : ¬ ((1 / 5 : ℝ) < 0) := by norm_num
    simp only [this, decide_false, Bool.false_eq_true, if_false, one_mul]
    rw [abs_of_pos (by norm_num), show (9 / 25 : ℝ) = (3 / 5) ^ 2 by norm_num]
    exact Real.sqrt_sq (by norm_num)
  have hh : hyp (3 / 4 : ℝ) = 5 / 4 := by
    rw [hyp_real]; rw [show (1 : ℝ) + (3 / 4) ^ 2 = (5 / 4) ^ 2 by norm_num]; exact Real.sqrt_sq (by norm_num)
  have hh0 : hyp (0 : ℝ) = 1 := by rw [hyp_real]; norm_num
  refine ⟨⟨1, 1 / 5⟩, 0, 3 / 4, by simp only [Ell.fm, one_real]; norm_num, by norm_num, by rw [hes]; norm_num, by rw [hes]; norm_num,
    by rw [he2, hes]; norm_num, ?_⟩
  rw [hes, hh, hh0]
  have hat : eatanhe ((3 / 4 : ℝ) / (5 / 4)) (3 / 5) = 3 / 5 * (Real.log (17 / 8) / 2) := by
    simp only [eatanhe, ltb_real, zero_real, atanh_real]
    have : (0 : ℝ) < 3 / 5 := by norm_num
    simp only [this, decide_true, if_true]
    norm_num
  have hat0 : eatanhe ((0 : ℝ) / 1) (3 / 5) = 0 := by
    simp only [eatanhe, ltb_real, zero_real, atanh_real]
    have : (0 : ℝ) < 3 / 5 := by norm_num
    simp only [this, decide_true, if_true]
    norm_num
  have has : Real.arsinh (3 / 4) = Real.log 2 := by
    rw [Real.arsinh]
    have : Real.sqrt (1 + (3 / 4 : ℝ) ^ 2) = 5 / 4 := by
      rw [show (1 : ℝ) + (3 / 4) ^ 2 = (5 / 4) ^ 2 by norm_num]; exact Real.sqrt_sq (by norm_num)
    rw [this]; norm_num
  rw [hat, hat0, has, Real.arsinh_zero]
  -- ln 2 > (3/10) ln(17/8)  ⇐  2^10 > (17/8)^3
  have h1 : Real.log ((17 / 8 : ℝ) ^ 3) < Real.log ((2 : ℝ) ^ 10) := Real.log_lt_log (by norm_num) (by norm_num)
  rw [Real.log_pow, Real.log_pow] at h1
  intro h
  push_cast at h1
  linarith

/-- **the same on a prolate or spherical ellipsoid** (`es ≤ 0`, `e² = −es²`), for every pair of distinct parallels — the restriction on the
    products `e²·x·y` that excluded the class of finding F84 is gone with the repair 36a144d -/
theorem lcc_nc_careful_prolate (E : Ell ℝ) (t1 t2 : ℝ) (hfm : 0 < E.fm) (h12 : t1 ≠ t2) (hes : E.es ≤ 0) (he2 : E.e2 = -(E.es ^ 2))
    (hψ : Real.arsinh t2 - eatanhe (t2 / hyp t2) E.es ≠ Real.arsinh t1 - eatanhe (t1 / hyp t1) E.es) :
    let x1 := eatanhe (t1 / hyp t1) E.es
    let x2 := eatanhe (t2 / hyp t2) E.es
    let nd := lccNraw E (t1 / hyp t1) t1 (hyp t1) (E.fm * t1) (hyp (E.fm * t1)) (t2 / hyp t2) t2 (hyp t2) (E.fm * t2) (hyp (E.fm * t2))
    lccNcCareful E nd.1 nd.2
        (t1 / hyp t1) t1 (hyp t1) (Real.sinh x1) (hyp (Real.sinh x1)) x1 (tchiR t1 x1) (hyp (tchiR t1 x1)) (E.fm * t1) (hyp (E.fm * t1))
        (t2 / hyp t2) t2 (hyp t2) (Real.sinh x2) (hyp (Real.sinh x2)) x2 (tchiR t2 x2) (hyp (tchiR t2 x2)) (E.fm * t2) (hyp (E.fm * t2))
      = Real.sqrt (max 0 (1 - nd.1) * (1 + nd.1)) :=
  Proofs.ConicInit.lccNcCareful_prolate E t1 t2 hfm h12 hes he2 hψ

/-- non-vacuity (sphere, parallels at the equator and at 45°): every hypothesis of `lcc_nc_careful_prolate` holds -/
example : ∃ (E : Ell ℝ) (t1 t2 : ℝ), 0 < E.fm ∧ t1 ≠ t2 ∧ E.es ≤ 0 ∧ E.e2 = -(E.es ^ 2) ∧
    Real.arsinh t2 - eatanhe (t2 / hyp t2) E.es ≠ Real.arsinh t1 - eatanhe (t1 / hyp t1) E.es := by
  have hes : (⟨1, 0⟩ : Ell ℝ).es = 0 := by simp [Ell.es, Ell.e2, ltb_real, zero_real, one_real, two_real]
  have he2 : (⟨1, 0⟩ : Ell ℝ).e2 = 0 := by simp [Ell.e2]
  refine ⟨⟨1, 0⟩, 0, 1, by simp [Ell.fm, one_real], by norm_num, by rw [hes], by rw [hes, he2]; norm_num, ?_⟩
  rw [hes]
  simp only [eatanhe, ltb_real, zero_real, lt_irrefl, decide_false, Bool.false_eq_true, if_false, neg_zero, zero_mul, sub_zero]
  intro h
  have := Real.arsinh_injective h
  norm_num at this

/-! ### (b) `AlbersEqualArea::Init`: `s`, `1 − s`, `C` and the Newton iteration -/

/-- **`s = n qZ/C`, `sm1 = 1 − s` and `C` as coded are the closed forms in the comments of the code** (two distinct parallels given by
    sine/cosine pairs, `tan φ = s/c`).  `A1, A2, AZ` are `atanhee` at the two sines and at 1; `Datanhee(sphi2, sphi1)` is their divided
    difference, `dd` the second divided difference on the nodes `1, sphi1, sphi2`, and the authalic sines `txi/hyp txi` are `Q/QZ`
    (`txif_closed`, `txif_closed_prolate`).  With `scbet² = 1 + (fm tan φ)² = 1/m²`:
    `s = (tbet2² − tbet1²)/(scbet2² sxi2 − scbet1² sxi1)`, `sm1 = 1 − s`, `C = (scbet2² sxi2 − scbet1² sxi1)/(scbet2² scbet1² (sxi2 − sxi1))`. -/
theorem alb_s_sm1_C_closed (E : Ell ℝ) (s1 c1 s2 c2 txi1 txi2 dd A1 A2 AZ : ℝ)
    (he2m : E.e2m ≠ 0) (hc1 : 0 < c1) (hc2 : 0 < c2) (hsc1 : s1 ^ 2 + c1 ^ 2 = 1) (hsc2 : s2 ^ 2 + c2 ^ 2 = 1)
    (h12 : s1 / c1 ≠ s2 / c2) (hAZ : E.atanhee 1 = AZ) (hDA : E.Datanhee s2 s1 * (s2 - s1) = A2 - A1)
    (hQZ : 1 / E.e2m + AZ ≠ 0) (hw1 : 1 - E.e2 * s1 ^ 2 ≠ 0) (hw2 : 1 - E.e2 * s2 ^ 2 ≠ 0)
    (hx1 : txi1 / hyp txi1 * (1 / E.e2m + AZ) = s1 / (1 - E.e2 * s1 ^ 2) + A1)
    (hx2 : txi2 / hyp txi2 * (1 / E.e2m + AZ) = s2 / (1 - E.e2 * s2 ^ 2) + A2)
    (hdd : dd * (s2 - s1) = (AZ - A2) / (1 - s2) - (AZ - A1) / (1 - s1)) :
    let r := albSC E s1 c1 (s1 / c1) s2 c2 (s2 / c2) txi1 txi2 dd
    let scb12 := 1 + (E.fm * (s1 / c1)) ^ 2
    let scb22 := 1 + (E.fm * (s2 / c2)) ^ 2
    let sx1 := txi1 / hyp txi1
    let sx2 := txi2 / hyp txi2
    scb22 * sx2 - scb12 * sx1 ≠ 0 →
      r.s = ((E.fm * (s2 / c2)) ^ 2 - (E.fm * (s1 / c1)) ^ 2) / (scb22 * sx2 - scb12 * sx1) ∧ r.sm1 = 1 - r.s ∧
      (sx2 ≠ sx1 → r.C = (scb22 * sx2 - scb12 * sx1) / (scb22 * scb12 * (sx2 - sx1))) :=
  Proofs.ConicInit.albSC_closed E s1 c1 s2 c2 txi1 txi2 dd A1 A2 AZ he2m hc1 hc2 hsc1 hsc2 h12 hAZ hDA hQZ hw1 hw2 hx1 hx2 hdd

/-- non-vacuity of `alb_s_sm1_C_closed`: the sphere (`atanhee = id`, `Q(s) = 2s`, `QZ = 2`, authalic = geographic latitude), parallels at
    the equator and at `sin φ = 3/5` -/
example : ∃ (E : Ell ℝ) (s1 c1 s2 c2 txi1 txi2 dd A1 A2 AZ : ℝ),
    E.e2m ≠ 0 ∧ 0 < c1 ∧ 0 < c2 ∧ s1 ^ 2 + c1 ^ 2 = 1 ∧ s2 ^ 2 + c2 ^ 2 = 1 ∧ s1 / c1 ≠ s2 / c2 ∧ E.atanhee 1 = AZ ∧
    E.Datanhee s2 s1 * (s2 - s1) = A2 - A1 ∧ 1 / E.e2m + AZ ≠ 0 ∧ 1 - E.e2 * s1 ^ 2 ≠ 0 ∧ 1 - E.e2 * s2 ^ 2 ≠ 0 ∧
    txi1 / hyp txi1 * (1 / E.e2m + AZ) = s1 / (1 - E.e2 * s1 ^ 2) + A1 ∧ txi2 / hyp txi2 * (1 / E.e2m + AZ) = s2 / (1 - E.e2 * s2 ^ 2) + A2 ∧
    dd * (s2 - s1) = (AZ - A2) / (1 - s2) - (AZ - A1) / (1 - s1) ∧
    (1 + (E.fm * (s2 / c2)) ^ 2) * (txi2 / hyp txi2) - (1 + (E.fm * (s1 / c1)) ^ 2) * (txi1 / hyp txi1) ≠ 0 := by
  have he2 : (⟨1, 0⟩ : Ell ℝ).e2 = 0 := by simp [Ell.e2]
  have hem : (⟨1, 0⟩ : Ell ℝ).e2m = 1 := by simp [Ell.e2m, he2, one_real]
  have hfm : (⟨1, 0⟩ : Ell ℝ).fm = 1 := by simp [Ell.fm, one_real]
  have hat : ∀ x : ℝ, (⟨1, 0⟩ : Ell ℝ).atanhee x = x := by
    intro x; simp [Ell.atanhee, atanhee, ltb_real, zero_real]
  have hh : hyp (3 / 4 : ℝ) = 5 / 4 := by
    rw [hyp_real]; rw [show (1 : ℝ) + (3 / 4) ^ 2 = (5 / 4) ^ 2 by norm_num]; exact Real.sqrt_sq (by norm_num)
  have hh0 : hyp (0 : ℝ) = 1 := by rw [hyp_real]; norm_num
  refine ⟨⟨1, 0⟩, 0, 1, 3 / 5, 4 / 5, 0, 3 / 4, 0, 0, 3 / 5, 1, ?_, by norm_num, by norm_num, by norm_num, by norm_num, by norm_num, hat 1, ?_, ?_,
    ?_, ?_, ?_, ?_, ?_, ?_⟩
  · rw [hem]; norm_num
  · simp [Ell.Datanhee, Datanhee, atanhee, he2, eqb_real, ltb_real, zero_real, one_real]
  · rw [hem]; norm_num
  · rw [he2]; norm_num
  · rw [he2]; norm_num
  · rw [hem, he2, hh0]; norm_num
  · rw [hem, he2, hh]; norm_num
  · norm_num
  · rw [hfm, hh, hh0]; norm_num

/-- **The function whose zero the Newton iteration of `Init` seeks, in closed form**: with `sphi0 = tan φ0/sec φ0`,
    `x = (1 − sphi0)/(1 − e² sphi0)`, `axm1` the exact `atanhee(x)/x − 1` and `atanhee(1) − atanhee(sphi0) = atanhee(x)`, the coded
    `u = sm1·g − s/qZ·(D − g(A + B))` is `sm1·g − (s/qZ)(1 − g (qZ − q0))`, `g = scbet0² sphi0`, `q0 = (1 − e²)(sphi0/(1 − e² sphi0²) + atanhee(sphi0))` -/
theorem alb_newton_u_closed (E : Ell ℝ) (s sm1 t0 axm1 A0 AZ : ℝ) (he2m : E.e2m ≠ 0)
    (hw : 1 - E.e2 * (t0 / hyp t0) ^ 2 ≠ 0) (hv : 1 - E.e2 * (t0 / hyp t0) ≠ 0) (hAZ : E.atanhee 1 = AZ)
    (hax : (1 + axm1) * ((1 - t0 / hyp t0) / (1 - E.e2 * (t0 / hyp t0))) = AZ - A0) :
    (albNewtonU E s sm1 t0 axm1).1 =
      sm1 * ((1 + (E.fm * t0) ^ 2) * (t0 / hyp t0)) -
        s / E.qZ * (1 - (1 + (E.fm * t0) ^ 2) * (t0 / hyp t0) *
          (E.qZ - E.e2m * (t0 / hyp t0 / (1 - E.e2 * (t0 / hyp t0) ^ 2) + A0))) :=
  Proofs.ConicInit.albNewtonU_closed E s sm1 t0 axm1 A0 AZ he2m hw hv hAZ hax

example : ∃ (E : Ell ℝ) (t0 axm1 A0 AZ : ℝ), E.e2m ≠ 0 ∧ 1 - E.e2 * (t0 / hyp t0) ^ 2 ≠ 0 ∧ 1 - E.e2 * (t0 / hyp t0) ≠ 0 ∧ E.atanhee 1 = AZ ∧
    (1 + axm1) * ((1 - t0 / hyp t0) / (1 - E.e2 * (t0 / hyp t0))) = AZ - A0 := by
  have he2 : (⟨1, 0⟩ : Ell ℝ).e2 = 0 := by simp [Ell.e2]
  have hem : (⟨1, 0⟩ : Ell ℝ).e2m = 1 := by simp [Ell.e2m, he2, one_real]
  have hh0 : hyp (0 : ℝ) = 1 := by rw [hyp_real]; norm_num
  refine ⟨⟨1, 0⟩, 0, 0, 0, 1, by rw [hem]; norm_num, by rw [he2]; norm_num, by rw [he2]; norm_num,
    by simp [Ell.atanhee, atanhee, ltb_real, zero_real], by rw [he2, hh0]; norm_num⟩

/-- **A fixed point of the Newton map is a zero of `u`** (the derivative `du` being finite and non-zero), and the loop stays there -/
theorem alb_newton_fixed_point (E : Ell ℝ) (s sm1 t0 stol : ℝ)
    (hdu : (albNewtonU E s sm1 t0 (atanhxm1 (albNewtonArg E t0))).2.1 ≠ 0) :
    (albNewtonStep E s sm1 t0 = 0 ↔ (albNewtonU E s sm1 t0 (atanhxm1 (albNewtonArg E t0))).1 = 0) ∧
      (albNewtonStep E s sm1 t0 = 0 → ∀ n, albNewtonLoop E s sm1 stol n false t0 0 0 t0 = t0) :=
  ⟨Proofs.ConicInit.albNewtonStep_zero_iff E s sm1 t0 hdu, fun h n => Proofs.ConicInit.albNewtonLoop_fixed E s sm1 stol t0 h n⟩

/-- **…and a zero of `u` (with `sm1 = 1 − s`) is the solution of the defining equation of `tan φ0`**:
    `s = sphi0 qZ/(m0² + sphi0 q0)`, written without denominators as `g qZ = s (1 + g q0)`, `g = scbet0² sphi0 = sphi0/m0²` -/
theorem alb_defining_equation (s g qZ q0 : ℝ) (hq : qZ ≠ 0) :
    (1 - s) * g - s / qZ * (1 - g * (qZ - q0)) = 0 ↔ g * qZ = s * (1 + g * q0) :=
  Proofs.ConicInit.alb_u_zero_iff s g qZ q0 hq

/-! ### (c) prolate and spherical ellipsoids -/

/-- `Datanhee` on a prolate ellipsoid is the divided difference of `atan(e x)/e` for *every* pair (the guard `x·y < 0` of the code selects
    the branch of the arctangent — the guard `LambertConformalConic::Deatanhe` lacks, finding F84) -/
theorem Datanhee_dd_prolate (f e x y : ℝ) (hf : f < 0) (he : 0 < e) (hxy : x ≠ y) :
    Datanhee f (-(e ^ 2)) e x y = (atanhee f e x - atanhee f e y) / (x - y) :=
  Proofs.ConicInit.Datanhee_dd_prolate f e x y hf he hxy

example : (-1 : ℝ) < 0 ∧ (0 : ℝ) < Real.sqrt 3 ∧ (1 / 2 : ℝ) ≠ -1 / 2 := ⟨by norm_num, Real.sqrt_pos.mpr (by norm_num), by norm_num⟩

/-- on a sphere `atanhee` is the identity and `Datanhee` its divided difference 1 -/
theorem Datanhee_dd_sphere (e x y : ℝ) (hxy : x ≠ y) : Datanhee 0 0 e x y = (atanhee 0 e x - atanhee 0 e y) / (x - y) :=
  Proofs.ConicInit.Datanhee_dd_sphere e x y hxy

/-- **`txif` is the authalic tangent for any ellipsoid** on which `Datanhee(1, ±sin φ)` are divided differences of an odd `atanhee`:
    `tan ξ = Q/√(QZ² − Q²)` -/
theorem txif_closed_gen (E : Ell ℝ) (tphi : ℝ) (hem : E.e2m ≠ 0) (hw : 1 - E.e2 * (tphi / hyp tphi) ^ 2 ≠ 0)
    (hD1 : E.Datanhee 1 (tphi / hyp tphi) = (E.atanhee 1 - E.atanhee (tphi / hyp tphi)) / (1 - tphi / hyp tphi))
    (hD2 : E.Datanhee 1 (-(tphi / hyp tphi)) = (E.atanhee 1 + E.atanhee (tphi / hyp tphi)) / (1 + tphi / hyp tphi))
    (hQ : (tphi / hyp tphi / (1 - E.e2 * (tphi / hyp tphi) ^ 2) + E.atanhee (tphi / hyp tphi)) ^ 2 < (1 / E.e2m + E.atanhee 1) ^ 2) :
    txif E tphi =
      (tphi / hyp tphi / (1 - E.e2 * (tphi / hyp tphi) ^ 2) + E.atanhee (tphi / hyp tphi)) /
        Real.sqrt ((1 / E.e2m + E.atanhee 1) ^ 2 -
          (tphi / hyp tphi / (1 - E.e2 * (tphi / hyp tphi) ^ 2) + E.atanhee (tphi / hyp tphi)) ^ 2) :=
  Proofs.ConicInit.txif_of_dd E tphi hem hw hD1 hD2 hQ

/-- **`txif` is the authalic tangent on a prolate ellipsoid** -/
theorem txif_closed_prolate (E : Ell ℝ) (tphi : ℝ) (hf : E.f < 0) (he2 : E.e2 < 0)
    (hQ : (tphi / hyp tphi / (1 - E.e2 * (tphi / hyp tphi) ^ 2) + E.atanhee (tphi / hyp tphi)) ^ 2 < (1 / E.e2m + E.atanhee 1) ^ 2) :
    txif E tphi =
      (tphi / hyp tphi / (1 - E.e2 * (tphi / hyp tphi) ^ 2) + E.atanhee (tphi / hyp tphi)) /
        Real.sqrt ((1 / E.e2m + E.atanhee 1) ^ 2 -
          (tphi / hyp tphi / (1 - E.e2 * (tphi / hyp tphi) ^ 2) + E.atanhee (tphi / hyp tphi)) ^ 2) :=
  Proofs.ConicInit.txif_prolate E tphi hf he2 hQ

/-- non-vacuity: `f = −1` (`e² = −3`) at the equator -/
example : ∃ (E : Ell ℝ) (tphi : ℝ), E.f < 0 ∧ E.e2 < 0 ∧
    (tphi / hyp tphi / (1 - E.e2 * (tphi / hyp tphi) ^ 2) + E.atanhee (tphi / hyp tphi)) ^ 2 < (1 / E.e2m + E.atanhee 1) ^ 2 := by
  have he2 : (⟨1, -1⟩ : Ell ℝ).e2 = -3 := by simp only [Ell.e2, two_real]; norm_num
  have hem : (⟨1, -1⟩ : Ell ℝ).e2m = 4 := by simp only [Ell.e2m, he2, one_real]; norm_num
  refine ⟨⟨1, -1⟩, 0, by norm_num, by rw [he2]; norm_num, ?_⟩
  have hz : (⟨1, -1⟩ : Ell ℝ).atanhee 0 = 0 := by simp [Ell.atanhee, atanhee, ltb_real, zero_real]
  have h1 : 0 ≤ (⟨1, -1⟩ : Ell ℝ).atanhee 1 := by
    have hepos : 0 < (⟨1, -1⟩ : Ell ℝ).e := (Proofs.ConicInit.ell_e_sq_prolate _ (by rw [he2]; norm_num)).1
    simp only [Ell.atanhee, atanhee, ltb_real, zero_real, atan_real, mul_one]
    have hn : ¬ ((0 : ℝ) < -1) := by norm_num
    simp only [hn, decide_false, Bool.false_eq_true, if_false, show ((-1 : ℝ) < 0) from by norm_num, decide_true, if_true]
    have : 0 ≤ Real.arctan (⟨1, -1⟩ : Ell ℝ).e := by rw [← Real.arctan_zero]; exact Real.arctan_strictMono.monotone hepos.le
    positivity
  simp only [zero_div, hz, hem]
  nlinarith

/-- on a sphere the authalic latitude is the geographic latitude -/
theorem txif_closed_sphere (a tphi : ℝ) : txif (⟨a, 0⟩ : Ell ℝ) tphi = tphi := Proofs.ConicInit.txif_sphere a tphi

/-- **Snyder's (15-8) on a prolate or spherical ellipsoid** (`es ≤ 0`, `e² = −es²`, any two distinct parallels): the cone constant of the
    two-parallel `Init` is `(ln m1 − ln m2)/(ln t1 − ln t2)` -/
theorem lcc_n_snyder_prolate (E : Ell ℝ) (tphi1 tphi2 : ℝ) (h12 : tphi1 ≠ tphi2) (hes : E.es ≤ 0) (he2 : E.e2 = -(E.es ^ 2))
    (hψ : Real.arsinh tphi2 - eatanhe (tphi2 / hyp tphi2) E.es ≠ Real.arsinh tphi1 - eatanhe (tphi1 / hyp tphi1) E.es) :
    (lccNraw E (tphi1 / hyp tphi1) tphi1 (hyp tphi1) (E.fm * tphi1) (hyp (E.fm * tphi1))
        (tphi2 / hyp tphi2) tphi2 (hyp tphi2) (E.fm * tphi2) (hyp (E.fm * tphi2))).1 =
      (Real.log (hyp (E.fm * tphi2)) - Real.log (hyp (E.fm * tphi1))) /
        ((Real.arsinh tphi2 - eatanhe (tphi2 / hyp tphi2) E.es) - (Real.arsinh tphi1 - eatanhe (tphi1 / hyp tphi1) E.es)) :=
  Proofs.ConicInit.lcc_n_snyder_gen E tphi1 tphi2 _ _ h12
    (by rw [he2]; exact Proofs.ConicInit.Deatanhe_mul_prolate E.es _ _ hes) hψ

example : ∃ (E : Ell ℝ) (t1 t2 : ℝ), t1 ≠ t2 ∧ E.es ≤ 0 ∧ E.e2 = -(E.es ^ 2) ∧
    Real.arsinh t2 - eatanhe (t2 / hyp t2) E.es ≠ Real.arsinh t1 - eatanhe (t1 / hyp t1) E.es := by
  have hes : (⟨1, 0⟩ : Ell ℝ).es = 0 := by simp [Ell.es, Ell.e2, ltb_real, zero_real, one_real, two_real]
  have he2 : (⟨1, 0⟩ : Ell ℝ).e2 = 0 := by simp [Ell.e2]
  refine ⟨⟨1, 0⟩, 0, 1, by norm_num, by rw [hes], by rw [hes, he2]; norm_num, ?_⟩
  rw [hes]
  simp only [eatanhe, ltb_real, zero_real, lt_irrefl, decide_false, Bool.false_eq_true, if_false, neg_zero, zero_mul, sub_zero]
  intro h
  have := Real.arsinh_injective h
  norm_num at this

/-! ### (d) the series of `AlbersEqualArea`: the coded recurrences generate the Taylor coefficients of the limits -/

/-- **`atanhxm1` (series branch) is Horner's rule for `Σ_{1 ≤ k < n} xᵏ/(2k+1)`**, the Taylor polynomial of `atanh(√x)/√x − 1` -/
theorem atanhxm1_horner (x : ℝ) (n : ℕ) : atanhxm1Loop x n 0 = axPoly x n := Proofs.ConicSeries.atanhxm1Loop_zero x n

/-- **…and that series converges to the closed form of the other branch**: `Σ_{k ≥ 1} xᵏ/(2k+1) = atanh(√x)/√x − 1` for `0 < x < 1` -/
theorem atanhxm1_limit (x : ℝ) (hx0 : 0 < x) (hx1 : x < 1) :
    HasSum (fun k : ℕ => axCoef (k + 1) * x ^ (k + 1)) (Real.log ((1 + Real.sqrt x) / (1 - Real.sqrt x)) / 2 / Real.sqrt x - 1) :=
  Proofs.ConicSeries.atanhxm1_hasSum x hx0 hx1

example : (0 : ℝ) < 1 / 4 ∧ (1 / 4 : ℝ) < 1 := by norm_num

/-- **`DDatanhee1`: the coefficient the `t`/`c`/`z` recurrences build is the documented `c[l]`** —
    `(x−y)(1−y)(1−x)·c[l] = (x−y) − (1−y)x^(2l+1) + (1−x)y^(2l+1)` — which is the second divided difference of `s^(2l+1)` on the nodes `1, x, y`,
    i.e. the coefficient of `e2^l/(2l+1)` in `DDatanhee` (`atanhee(s) = Σ e2^l s^(2l+1)/(2l+1)`) -/
theorem dd1_coefficient (x y : ℝ) (l : ℕ) :
    (x - y) * (1 - y) * (1 - x) * dd1C x y l = (x - y) - (1 - y) * x ^ (2 * l + 1) + (1 - x) * y ^ (2 * l + 1) ∧
      (x ≠ y → x ≠ 1 → y ≠ 1 → dd1C x y l = ((1 - y ^ (2 * l + 1)) / (1 - y) - (1 - x ^ (2 * l + 1)) / (1 - x)) / (y - x)) :=
  ⟨Proofs.ConicSeries.dd1C_closed x y l, fun h1 h2 h3 => Proofs.ConicSeries.dd1C_is_dd x y l h1 h2 h3⟩

/-- **the value `DDatanhee1` returns is a partial sum `Σ_{l=1}^{L} e2^l c[l]/(2l+1)` of that Taylor series** (`1 ≤ L ≤ 400`) -/
theorem dd1_partial_sum (E : Ell ℝ) (x y : ℝ) : ∃ L, 1 ≤ L ∧ L ≤ 400 ∧ DDatanhee1 E x y = dd1Sum E.e2 x y L := by
  rw [Proofs.ConicSeries.DDatanhee1_eq]
  -- the first iteration is always executed
  obtain ⟨L, h1, h2, h3⟩ := Proofs.ConicSeries.dd1_loop_partial E x y 399 1
  rw [show (400 : ℕ) = 399 + 1 by norm_num, Proofs.ConicSeries.dd1_step]
  split
  · exact ⟨1, le_refl _, by norm_num, rfl⟩
  · exact ⟨L, h1, by omega, h3⟩

/-- **…and the series converges to the second divided difference of `atanhee`** (oblate ellipsoid, `e < 1`, distinct nodes in `[−1, 1]`) -/
theorem dd1_limit (f e x y : ℝ) (hf : 0 < f) (he : 0 < e) (he1 : e < 1) (hx : |x| ≤ 1) (hy : |y| ≤ 1) (hxy : x ≠ y) (hx1 : x ≠ 1) (hy1 : y ≠ 1) :
    HasSum (fun l : ℕ => (e ^ 2) ^ l * dd1C x y l / ((2 * l + 1 : ℕ) : ℝ))
      (((atanhee f e 1 - atanhee f e y) / (1 - y) - (atanhee f e 1 - atanhee f e x) / (1 - x)) / (y - x)) :=
  Proofs.ConicSeries.dd1_hasSum f e x y hf he he1 hx hy hxy hx1 hy1

example : (0 : ℝ) < 1 / 300 ∧ (0 : ℝ) < 2 / 25 ∧ (2 / 25 : ℝ) < 1 ∧ |(1 / 2 : ℝ)| ≤ 1 ∧ |(3 / 4 : ℝ)| ≤ 1 ∧ (1 / 2 : ℝ) ≠ 3 / 4 ∧ (1 / 2 : ℝ) ≠ 1 ∧ (3 / 4 : ℝ) ≠ 1 := by
  refine ⟨by norm_num, by norm_num, by norm_num, ?_, ?_, by norm_num, by norm_num, by norm_num⟩ <;> rw [abs_of_pos (by norm_num)] <;> norm_num

/-- **`DDatanhee2`: the `c` recurrence of the inner loop generates the binomial coefficients `C(m+2, 2j+1)` for every `m`**; the coefficient
    polynomial `t` of the `m`-th term is the odd part `R_{m+2}(e²)` (even `m`) or the even part `P_{m+2}(e²)` (odd `m`) of
    `(1 + e)^(m+2) = P + e·R` — the numbers of the documented `C_m` -/
theorem dd2_coefficient (q : ℝ) (K : ℕ) : dd2Coef q (2 * K) = Rsum q (2 * K + 2) ∧ dd2Coef q (2 * K + 1) = Psum q (2 * K + 3) :=
  ⟨Proofs.ConicSeries.dd2Coef_even q K, Proofs.ConicSeries.dd2Coef_odd q K⟩

/-- `(P, R)` obey Pascal's rule `(1 + e)^(n+1) = (1 + e)(P_n + e R_n)` and the norm identity `P² − e² R² = (1 − e²)ⁿ` -/
theorem dd2_PR_recurrence (q : ℝ) (n : ℕ) :
    Psum q (n + 1) = Psum q n + q * Rsum q n ∧ Rsum q (n + 1) = Psum q n + Rsum q n ∧ Psum q n ^ 2 - q * Rsum q n ^ 2 = (1 - q) ^ n :=
  ⟨Proofs.ConicSeries.Psum_succ q n, Proofs.ConicSeries.Rsum_succ q n, Proofs.ConicSeries.PR_norm q n⟩

/-- **the coefficients `a_0 = 1/(1−e²)`, `a_{m+1} = −t_m·ee_m` generated by the code are the Taylor coefficients of `d ↦ 1/(1 − e²(1 − d)²)`**
    (the derivative of `atanhee` at `1 − d`): `(Σ_j a_j dʲ)·((1 − q) + 2q d − q d²) = 1` coefficient by coefficient, for every `m`;
    `C_m = −a_{m+1}/(m + 2)` is its termwise integral and `(dx^(m+1) − dy^(m+1))/(dx − dy)` (the `xy` recurrence, `hsym`) the divided difference -/
theorem dd2_taylor (q : ℝ) (hq : q ≠ 1) :
    (1 - q) * dd2A q 0 = 1 ∧ (1 - q) * dd2A q 1 + 2 * q * dd2A q 0 = 0 ∧
      ∀ j, (1 - q) * dd2A q (j + 2) + 2 * q * dd2A q (j + 1) - q * dd2A q j = 0 :=
  Proofs.ConicSeries.dd2A_taylor q hq

example : (-3 : ℝ) ≠ 1 := by norm_num

/-- the `xy` recurrence `xy ← dx·xy + dy^m` is `(dy^(m+1) − dx^(m+1))/(dy − dx)` -/
theorem dd2_xy (dx dy : ℝ) (m : ℕ) : (dy - dx) * hsym dy dx m = dy ^ (m + 1) - dx ^ (m + 1) := Proofs.ConicSeries.hsym_mul dy dx m

/-- **for which `e²` a term vanishes identically**: term `m` does iff `R_{m+2}(e²) = 0` / `P_{m+2}(e²) = 0` (above); for `f = −1` (`e² = −3`) this
    happens for `m = 4, 10, 16, …` (finding F61: `(1 + i√3)³ = −8` is real), and **two successive terms never vanish together** when `e² ≠ 1` -/
theorem dd2_vanishing_terms (q : ℝ) (hq : q ≠ 1) (m k : ℕ) :
    dd2Coef (-3 : ℝ) (6 * k + 4) = 0 ∧ ¬ (dd2Coef q m = 0 ∧ dd2Coef q (m + 1) = 0) :=
  ⟨Proofs.ConicSeries.dd2Coef_minus_three k, Proofs.ConicSeries.dd2Coef_no_two_zero q hq m⟩

/-! ### (e) the termination rule of `DDatanhee2` -/

/-- **`DDatanhee2` stops only after two successive negligible terms** (or after 400 terms): the value returned is the partial sum
    `dd2Sum … M = Σ_{j ≤ M} t_j ee_j xy_j/(j + 2)` for an `M` such that terms `M` and `M − 1` are both negligible (`¬ |s| ε/2 < |ds|`) -/
theorem dd2_stops_after_two (E : Ell ℝ) (x y : ℝ) (he : E.e2m ≠ 0) :
    ∃ M, M ≤ 400 ∧ DDatanhee2 E x y = dd2Sum E.e2 E.e2m (1 - x) (1 - y) M ∧
      (M = 400 ∨ (2 ≤ M ∧ dd2Negl E.e2 E.e2m (1 - x) (1 - y) M ∧ dd2Negl E.e2 E.e2m (1 - x) (1 - y) (M - 1))) := by
  rw [Proofs.ConicSeries.DDatanhee2_eq]
  obtain ⟨M, _, h2, h3, h4⟩ := Proofs.ConicSeries.dd2_loop_spec E (1 - x) (1 - y) he 400 0 0 (by omega)
  refine ⟨M, by omega, h3, ?_⟩
  rcases h4 with h4 | ⟨h5, h6, h7⟩
  · left; omega
  · right
    by_cases hM : M = 0 + 1
    · rw [if_pos hM] at h7; omega
    · rw [if_neg hM] at h7; exact ⟨by omega, h6, h7⟩

example : (⟨1, -1⟩ : Ell ℝ).e2m ≠ 0 := by rw [(Proofs.ConicSeries.ell_minus_one).2]; norm_num

/-- **the rule before 9562c37 stopped at the identically vanishing term**: for `f = −1`, `x = y = 3/4` the old loop (`DDatanhee2LoopOld`) returns the sum of
    the terms `m ≤ 3` although term 5 is not negligible, whereas the repaired loop runs at least to term 6 -/
theorem dd2_old_rule_refuted :
    DDatanhee2LoopOld (⟨1, -1⟩ : Ell ℝ) (1 / 4) (1 / 4) 400 (dd2State (-3) 4 (1 / 4) (1 / 4) 0 0) = dd2Sum (-3 : ℝ) 4 (1 / 4) (1 / 4) 3 ∧
      ¬ dd2Negl (-3 : ℝ) 4 (1 / 4) (1 / 4) 5 ∧
      ∃ M, 6 ≤ M ∧ DDatanhee2Loop (⟨1, -1⟩ : Ell ℝ) (1 / 4) (1 / 4) 400 (dd2State (-3) 4 (1 / 4) (1 / 4) 0 0) = dd2Sum (-3 : ℝ) 4 (1 / 4) (1 / 4) M :=
  ⟨Proofs.ConicSeries.dd2_old_rule_stops_early.1, Proofs.ConicSeries.dd2_old_rule_stops_early.2, Proofs.ConicSeries.dd2_new_rule_continues⟩

end Deepening

end GeoVerif.Props.C11
