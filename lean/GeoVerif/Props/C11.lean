import GeoVerif.Model.Conic
import GeoVerif.Spec.RealInst
import GeoVerif.Proofs.Conic
import Mathlib.Tactic.Ring
import Mathlib.Tactic.LinearCombination
import Mathlib.Tactic.FieldSimp
import Mathlib.Tactic.Positivity
import Mathlib.Tactic.NormNum
import Mathlib.Tactic.Linarith
/-!
# C11 — polar stereographic, Lambert conformal conic, Albers: exact-real theorems about the formula models

The definitions are those of `Model/Conic.lean` — the same terms the driver evaluates in binary64 against the
implementation — read at type `ℝ`.
-/
namespace GeoVerif.Props.C11
open GeoVerif GeoVerif.Conic GeoVerif.Proofs.Conic

/-! ## Hemisphere bookkeeping of the conic classes (for every cone kernel) -/

/-- **Mirror law.**  The hemisphere sign multiplies the latitude once on the way in and `y`, `γ` once on the way
    out; hence, for *any* northern-cone kernel, the southern cone at the mirrored latitude is the mirror image. -/
theorem conic_sign_once (core : ℝ → ℝ → ConeOut ℝ) (s lat lam : ℝ) :
    conicForward core (-s) (-lat) lam = mirror (conicForward core s lat lam) := by
  simp only [conicForward, mirror, mul_neg, neg_mul, neg_neg]

/-- the same for `Reverse`: `Reverse(−cone)(x, −y)` is `Reverse(cone)(x, y)` with latitude and convergence negated -/
theorem conic_reverse_mirror (core : ℝ → ℝ → ConeRev ℝ) (s x y : ℝ) :
    conicReverse core (-s) x (-y) =
      ⟨-(conicReverse core s x y).lat, (conicReverse core s x y).lon, -(conicReverse core s x y).gamma, (conicReverse core s x y).k⟩ := by
  simp only [conicReverse, mul_neg, neg_mul, neg_neg]

/-- **The wrapper inverts.**  If the northern kernels are mutually inverse then so are `Forward` and `Reverse` of the
    class, in either hemisphere (`s = ±1`), with the same convergence and scale. -/
theorem conic_reverse_forward (coreF : ℝ → ℝ → ConeOut ℝ) (coreR : ℝ → ℝ → ConeRev ℝ) (s lat lam : ℝ) (hs : s * s = 1)
    (hinv : ∀ p l, coreR (coreF p l).x (coreF p l).y = ⟨p, l, (coreF p l).gamma, (coreF p l).k⟩) :
    conicReverse coreR s (conicForward coreF s lat lam).x (conicForward coreF s lat lam).y =
      ⟨lat, lam, (conicForward coreF s lat lam).gamma, (conicForward coreF s lat lam).k⟩ := by
  simp only [conicForward, conicReverse]
  have h1 : (coreF (lat * s) lam).y * s * s = (coreF (lat * s) lam).y := by rw [mul_assoc, hs, mul_one]
  rw [h1, hinv]
  have h2 : s * (lat * s) = lat := by rw [mul_comm, mul_assoc, hs, mul_one]
  simp only [h2]

example : ((-1 : ℝ)) * (-1) = 1 := by norm_num   -- the southern sign satisfies the hypothesis

/-- the defect repaired by cf4303d (sign applied twice on the way in) projects the mirror-image latitude for a
    southern cone: the counter-model is `Forward` at `−lat` -/
theorem conic_sign_twice_is_mirror_latitude (core : ℝ → ℝ → ConeOut ℝ) (lat lam : ℝ) :
    conicForwardTwice core (-1) lat lam = conicForward core (-1) (-lat) lam := by
  simp only [conicForwardTwice, conicForward]
  norm_num

/-- `Init` sees the same canonical (northern, ordered) parallels for a cone and its mirror image, with opposite
    signs (parallels not symmetric about the equator; for symmetric ones both signs are `+1` and the cone is a cylinder) -/
theorem cone_canon_mirror (s1 c1 s2 c2 : ℝ) (h : s1 + s2 ≠ 0) :
    coneSign (-s1) (-s2) = -coneSign s1 s2 ∧ coneCanon (-s1) c1 (-s2) c2 = coneCanon s1 c1 s2 c2 := by
  by_cases hp : 0 ≤ s1 + s2
  · have hn : ¬ (0 ≤ -s1 + -s2) := by
      intro h'
      exact h (by linarith)
    simp [coneCanon, coneSign, leb_real, ltb_real, hp, hn, zero_real, one_real]
  · have hn : 0 ≤ -s1 + -s2 := by linarith [not_le.mp hp]
    simp [coneCanon, coneSign, leb_real, ltb_real, hp, hn, zero_real, one_real]

example : (1 / 2 : ℝ) + (3 / 4) ≠ 0 := by norm_num

/-! ## Constructor domains -/

/-- what `sincosd` guarantees on `[-90, 90]` (C16): a valid sine/cosine pair with non-negative cosine -/
def SincosdRange (sc : ℝ → ℝ × ℝ) : Prop := ∀ l, latOk l = true → sincosOk (sc l).1 (sc l).2 = true

/-- **`ctor_domain_conic` (two-parallel ⇔ sin/cos).**  The degree constructor accepts exactly the parameter sets
    whose latitudes are in range and whose sines and cosines the sin/cos constructor accepts — for both classes. -/
theorem ctor_domain_two_vs_sincos (cls : ℕ) (sc : ℝ → ℝ × ℝ) (hsc : SincosdRange sc) (a f l1 l2 k : ℝ) :
    accept2 cls sc a f l1 l2 k =
      (latOk l1 && latOk l2 && accept3 cls a f (sc l1).1 (sc l1).2 (sc l2).1 (sc l2).2 k) := by
  unfold accept2 accept3
  cases h1 : latOk l1 <;> cases h2 : latOk l2 <;> simp
  rw [hsc l1 h1, hsc l2 h2]
  simp

/-- a pair accepted by `sincosOk` never fails the pole rule against itself -/
theorem polesOk_self (cls : ℕ) (s c : ℝ) (h : sincosOk s c = true) : polesOk cls s c s c = true := by
  unfold polesOk lccPolesOk albPolesOk
  by_cases hc : c = 0
  · have hs : s ≠ 0 := by
      intro hs
      simp [sincosOk, hc, hs, zero_real] at h
    have hss : ¬ (s * s ≤ 0) := by
      have : 0 < s * s := mul_self_pos.mpr hs
      linarith
    simp [hc, hss, zero_real]
  · simp [hc, zero_real]

/-- **`ctor_domain_conic` (one-parallel ⇔ two equal parallels).** -/
theorem ctor_domain_one_vs_two (cls : ℕ) (sc : ℝ → ℝ × ℝ) (hsc : SincosdRange sc) (a f l k : ℝ) :
    accept1 a f l k = accept2 cls sc a f l l k := by
  unfold accept1 accept2
  cases h1 : latOk l <;> simp
  rw [polesOk_self cls _ _ (hsc l h1)]
  simp

/-- non-vacuity: a `sincosd` that is exact at the pole and at the equator satisfies the range contract -/
example : SincosdRange (fun l : ℝ => if l = 90 then (1, 0) else (0, 1)) := by
  intro l _
  by_cases h1 : l = 90
  · simp [h1, sincosOk, signbit, zero_real, one_real]
  · simp [h1, sincosOk, signbit, zero_real, one_real]

/-- LCC rejects a pole paired with a different parallel, Albers rejects opposite poles (the checks 77a6c78 restored) -/
theorem lcc_rejects_pole_with_other (s2 c2 : ℝ) (h : c2 ≠ 0) : lccPolesOk 1 0 s2 c2 = false := by
  simp [lccPolesOk, zero_real, h, Ne.symm h]
theorem albers_rejects_opposite_poles : albPolesOk (1 : ℝ) 0 (-1) 0 = false := by
  simp [albPolesOk, zero_real]

end GeoVerif.Props.C11
