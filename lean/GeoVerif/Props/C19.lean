import GeoVerif.Model.Harmonic
import GeoVerif.Spec.RealInst
import Mathlib.Tactic.Ring
import Mathlib.Tactic.Linarith
import Mathlib.Tactic.LinearCombination
import Mathlib.Tactic.FieldSimp
import Mathlib.Tactic.NormNum
import Mathlib.Algebra.Group.Int.Even
import Mathlib.Analysis.Real.Pi.Bounds
/-!
# C19 — harmonic sums, packed coefficient storage, magnetic time interpolation, normal gravity

All statements are about the definitions of `Model/Harmonic.lean`, the same terms the driver executes against
`SphericalEngine::coeff`, `SphericalHarmonic`(1, 2), `MagneticModel::FieldGeocentric` and `NormalGravity`.
-/
namespace GeoVerif.Props.C19
open GeoVerif GeoVerif.Harmonic

/-! ## Clenshaw summation for an arbitrary three-term recurrence -/

section Clenshaw
variable {R : Type} [CommRing R]

/-- the defining sum `Σ_j cs[j]·F(k + j)` -/
def dsum (F : ℕ → R) : ℕ → List R → R
  | _, [] => 0
  | k, c :: cs => c * F k + dsum F (k + 1) cs

/-- partial sums started at an index `k + 1 ≥ 1`:
    `Σ_j cs[j]·F(k+1+j) = y_{k+1}·F(k+1) + β_{k+1}·F(k)·y_{k+2}` -/
theorem clenshaw_tail (al be F : ℕ → R) (hF : ∀ k, F (k + 2) = al (k + 1) * F (k + 1) + be (k + 1) * F k)
    (cs : List R) (k : ℕ) :
    dsum F (k + 1) cs = (clenG 0 al be (k + 1) cs).1 * F (k + 1) + be (k + 1) * F k * (clenG 0 al be (k + 1) cs).2 := by
  induction cs generalizing k with
  | nil => simp [dsum, clenG]
  | cons c cs ih =>
    have h := ih (k + 1)
    simp only [dsum, clenG]
    rw [h, hF k]
    ring

/-- **Clenshaw**: for every three-term recurrence `F(k+2) = α_{k+1}·F(k+1) + β_{k+1}·F(k)` started with
    `F(1) = α_0·F(0)` over a commutative ring, the backward recurrence
    `y_k = α_k·y_{k+1} + β_{k+1}·y_{k+2} + c_k` returns the defining sum: `Σ_k c_k·F(k) = y_0·F(0)`.
    This is the mathematical core of the inner (degree) and outer (order) loops of `SphericalEngine::Value`. -/
theorem clenshaw_general (al be F : ℕ → R) (hF : ∀ k, F (k + 2) = al (k + 1) * F (k + 1) + be (k + 1) * F k)
    (hF1 : F 1 = al 0 * F 0) (cs : List R) :
    dsum F 0 cs = (clenG 0 al be 0 cs).1 * F 0 := by
  cases cs with
  | nil => simp [dsum, clenG]
  | cons c cs =>
    have h := clenshaw_tail al be F hF cs 0
    simp only [dsum, clenG]
    simp only [Nat.zero_add] at h ⊢
    rw [h, hF1]
    ring

/-- non-vacuity: `F(k) = k + 1` satisfies `F(k+2) = 2·F(k+1) − F(k)`, `F(1) = 2·F(0)` -/
example : ∃ al be F : ℕ → ℤ, (∀ k, F (k + 2) = al (k + 1) * F (k + 1) + be (k + 1) * F k) ∧ F 1 = al 0 * F 0 ∧ F 0 ≠ 0 :=
  ⟨fun _ => 2, fun _ => -1, fun k => (k : ℤ) + 1, fun k => by push_cast; ring, by norm_num, by norm_num⟩

/-- the outer loop sums two families (cosine and sine) that share `α, β` but start with `F^c(0) = 1`, `F^c(1) = cl·A₀`
    and `F^s(0) = 0`, `F^s(1) = sl·A₀`: the last step of `Value` is
    `Σ_m (wc_m·F^c(m) + ws_m·F^s(m)) = wc₀ + A₀·(cl·vc + sl·vs) + B₀·vc2` -/
theorem clenshaw_outer (al be Fc Fs : ℕ → R)
    (hFc : ∀ k, Fc (k + 2) = al (k + 1) * Fc (k + 1) + be (k + 1) * Fc k)
    (hFs : ∀ k, Fs (k + 2) = al (k + 1) * Fs (k + 1) + be (k + 1) * Fs k)
    (A0 cl sl : R) (hc0 : Fc 0 = 1) (hs0 : Fs 0 = 0) (hc1 : Fc 1 = cl * A0) (hs1 : Fs 1 = sl * A0)
    (wc0 : R) (wcs wss : List R) :
    wc0 * Fc 0 + dsum Fc 1 wcs + dsum Fs 1 wss =
      wc0 + A0 * (cl * (clenG 0 al be 1 wcs).1 + sl * (clenG 0 al be 1 wss).1) + be 1 * (clenG 0 al be 1 wcs).2 := by
  have h1 := clenshaw_tail al be Fc hFc wcs 0
  have h2 := clenshaw_tail al be Fs hFs wss 0
  simp only [Nat.zero_add] at h1 h2
  rw [h1, h2, hc0, hs0, hc1, hs1]
  ring

end Clenshaw

/-! ## packed triangular storage -/

theorem two_tri (m : Int) : m * (m - 1) / 2 * 2 = m * (m - 1) :=
  Int.ediv_mul_cancel (even_iff_two_dvd.mp (Int.even_mul_pred_self m))

theorem two_index (N n m : Int) : 2 * index N n m = 2 * m * N - m * (m - 1) + 2 * n := by
  have := two_tri m
  unfold index
  linarith

theorem two_csize (N M : Int) : 2 * csize N M = (M + 1) * (2 * N - M + 2) := by
  have h : (2 : Int) ∣ (M + 1) * (2 * N - M + 2) := by
    have e : (M + 1) * (2 * N - M + 2) = 2 * ((M + 1) * (N + 1)) - M * (M + 1) := by ring
    rw [e]
    exact Int.dvd_sub (Dvd.intro _ rfl) (even_iff_two_dvd.mp (Int.even_mul_succ_self M))
  unfold csize
  have := Int.ediv_mul_cancel h
  omega

/-- the (n, m) pairs stored for layout degree `N` and highest order `M ≤ N` -/
def inTri (N M n m : Int) : Prop := 0 ≤ m ∧ m ≤ M ∧ m ≤ n ∧ n ≤ N

/-- **`index` is injective on the stored triangle** -/
theorem index_injective (N M : Int) (hM : M ≤ N) {n m n' m' : Int} (h : inTri N M n m) (h' : inTri N M n' m')
    (e : index N n m = index N n' m') : n = n' ∧ m = m' := by
  obtain ⟨h0, h1, h2, h3⟩ := h
  obtain ⟨h0', h1', h2', h3'⟩ := h'
  have e2 : 2 * m * N - m * (m - 1) + 2 * n = 2 * m' * N - m' * (m' - 1) + 2 * n' := by
    rw [← two_index, ← two_index, e]
  have key : ∀ (a b na nb : Int), 0 ≤ a → a < b → b ≤ N → a ≤ na → na ≤ N → b ≤ nb → nb ≤ N →
      2 * a * N - a * (a - 1) + 2 * na < 2 * b * N - b * (b - 1) + 2 * nb := by
    intro a b na nb ha hab hbN _ hnaN hbnb _
    -- difference ≥ (b−a)(2N − a − b + 1) + 2(b − N) = 2(N−b)(b−a−1) + (b−a)(b−a+1) > 0
    have hd : 0 < b - a := by omega
    nlinarith [mul_nonneg (by omega : (0:Int) ≤ N - b) (by omega : (0:Int) ≤ b - a - 1), mul_pos hd (by omega : (0:Int) < b - a + 1)]
  rcases lt_trichotomy m m' with hlt | heq | hgt
  · have := key m m' n n' h0 hlt (by omega) h2 h3 h2' h3'
    omega
  · subst heq
    constructor
    · omega
    · rfl
  · have := key m' m n' n h0' hgt (by omega) h2' h3' h2 h3
    omega

/-- **range**: stored indices lie in `[0, Csize(N, M))` -/
theorem index_range (N M : Int) (hM : M ≤ N) {n m : Int} (h : inTri N M n m) :
    0 ≤ index N n m ∧ index N n m < csize N M := by
  obtain ⟨h0, h1, h2, h3⟩ := h
  have hi := two_index N n m
  have hc := two_csize N M
  constructor
  · have : 0 ≤ 2 * m * N - m * (m - 1) + 2 * n := by nlinarith [mul_nonneg h0 (by omega : (0:Int) ≤ N - m)]
    omega
  · -- 2·index ≤ 2mN − m(m−1) + 2N  and  2·csize − that = (M−m)(2N − M − m + 1) + 2 > 0
    have : 2 * m * N - m * (m - 1) + 2 * n < (M + 1) * (2 * N - M + 2) := by
      nlinarith [mul_nonneg (by omega : (0:Int) ≤ M - m) (by omega : (0:Int) ≤ 2 * N - M - m + 1)]
    omega

/-- columns are contiguous: the first and last stored entries are `0` and `Csize − 1`, consecutive degrees are adjacent
    and column `m + 1` starts right after column `m` ends (so with injectivity `index` is a bijection onto `[0, Csize)`) -/
theorem index_contiguous (N M n m : Int) :
    index N 0 0 = 0 ∧ index N N M = csize N M - 1 ∧ index N (n + 1) m = index N n m + 1 ∧
    index N (m + 1) (m + 1) = index N N m + 1 := by
  have h1 := two_index N 0 0
  have h2 := two_index N N M
  have h3 := two_csize N M
  have h4 := two_index N (n + 1) m
  have h5 := two_index N n m
  have h6 := two_index N (m + 1) (m + 1)
  have h7 := two_index N N m
  refine ⟨by omega, ?_, by omega, ?_⟩
  · have : 2 * M * N - M * (M - 1) + 2 * N = (M + 1) * (2 * N - M + 2) - 2 := by ring
    omega
  · have : 2 * (m + 1) * N - (m + 1) * (m + 1 - 1) + 2 * (m + 1) = 2 * m * N - m * (m - 1) + 2 * N + 2 := by ring
    omega

/-- **`index` is onto `[0, Csize(N, M))`** -/
theorem index_surjective (N : Int) (M : ℕ) (hM : (M : Int) ≤ N) (k : Int) (hk : 0 ≤ k ∧ k < csize N M) :
    ∃ n m, inTri N M n m ∧ index N n m = k := by
  induction M with
  | zero =>
    refine ⟨k, 0, ⟨le_refl _, le_refl _, hk.1, ?_⟩, ?_⟩
    · have := two_csize N 0
      simp at this
      have hk2 := hk.2
      simp at hk2
      omega
    · simp [index]
  | succ M ih =>
    have hc := two_csize N M
    have hc' := two_csize N (M + 1 : ℕ)
    push_cast at hM hc' hk
    by_cases hlt : k < csize N M
    · obtain ⟨n, m, ⟨a, b, c, d⟩, e⟩ := ih (by omega) ⟨hk.1, hlt⟩
      exact ⟨n, m, ⟨a, by push_cast; omega, c, d⟩, e⟩
    · have hcol := (index_contiguous N M 0 M).2.1
      refine ⟨(M : Int) + 1 + (k - csize N M), (M : Int) + 1, ⟨by omega, by push_cast; omega, by omega, ?_⟩, ?_⟩
      · -- k < csize N (M+1) = csize N M + (N − M)
        have : (↑M + 1 + 1) * (2 * N - (↑M + 1) + 2) = (↑M + 1) * (2 * N - ↑M + 2) + 2 * (N - ↑M) := by ring
        omega
      · have h1 := two_index N ((M : Int) + 1 + (k - csize N M)) ((M : Int) + 1)
        have : 2 * ((M : Int) + 1) * N - ((M : Int) + 1) * ((M : Int) + 1 - 1) = (↑M + 1) * (2 * N - ↑M + 2) - 2 * (↑M + 1) := by ring
        omega

/-- **`Csize` is the number of stored pairs**: `Csize(N, M) = Σ_{m=0}^{M} (N + 1 − m)` -/
theorem csize_count (N : Int) (M : ℕ) : csize N M = ((List.range (M + 1)).map fun m : ℕ => N + 1 - (m : Int)).sum := by
  induction M with
  | zero => simp [csize]; omega
  | succ M ih =>
    rw [List.range_succ, List.map_append, List.sum_append, ← ih]
    have h1 := two_csize N M
    have h2 := two_csize N (M + 1 : ℕ)
    push_cast at h2 ⊢
    simp only [List.map_cons, List.map_nil, List.sum_cons, List.sum_nil]
    have : (↑M + 1 + 1) * (2 * N - (↑M + 1) + 2) = (↑M + 1) * (2 * N - ↑M + 2) + 2 * (N - ↑M) := by ring
    omega

/-- `Ssize`: the same count without the `m = 0` column -/
theorem ssize_eq (N M : Int) : ssize N M = csize N M - (N + 1) := rfl

example : inTri 6 4 5 3 ∧ index 6 5 3 = 20 ∧ csize 6 4 = 25 := by unfold inTri index csize; norm_num

/-! ## truncated reading through the range-checked accessors -/

/-- **`Cv(k, n, m, f)`/`Sv(k, n, m, f)` select exactly the sub-triangle `n ≤ nmx ∧ m ≤ mmx`** of whatever layout
    the set is stored in: inside it the stored coefficient (times `f`) is returned, outside `0` — in particular for
    `nmx < n ≤ N` (coefficients present in storage but excluded from the sum). -/
theorem truncation_selects (c : Coeff ℝ) (n m : Int) (f : ℝ) :
    c.cv 0 (index c.N n m) n m f = (if n ≤ c.nmx ∧ m ≤ c.mmx then c.cv0 0 (index c.N n m) * f else 0) ∧
    c.sv 0 (index c.N n m) n m f = (if n ≤ c.nmx ∧ m ≤ c.mmx then c.sv0 0 (index c.N n m) * f else 0) := by
  unfold Coeff.cv Coeff.sv Coeff.cv0 Coeff.sv0
  by_cases h1 : m > c.mmx <;> by_cases h2 : n > c.nmx <;> simp [h1, h2]

/-- the statement also holds at the layout boundary: a stored, non-zero coefficient of degree `nmx < n ≤ N` is *not* read -/
example : let c : Coeff ℝ := ⟨2, 1, 1, [1, 2, 3, 4, 5, 6], [7, 8, 9]⟩
    c.cv0 0 (index 2 2 0) = 3 ∧ c.cv 0 (index 2 2 0) 2 0 1 = 0 ∧ c.cv 0 (index 2 1 1) 1 1 1 = 4 := by
  simp [Coeff.cv0, Coeff.cv, index, getI]

/-- the combined coefficient of `Value` (first set unchecked inside its own truncation, further sets checked) is the
    `f`-weighted sum of the truncated sets -/
theorem combC_two (c0 c1 : Coeff ℝ) (f0 f1 sc : ℝ) (n m : ℕ) :
    combC 0 [(c0, f0), (c1, f1)] sc n m =
      (c0.cv0 0 (index c0.N n m) + (if (n : Int) ≤ c1.nmx ∧ (m : Int) ≤ c1.mmx then c1.cv0 0 (index c1.N n m) * f1 else 0)) * sc := by
  simp only [combC, List.foldl_cons, List.foldl_nil]
  rw [(truncation_selects c1 n m f1).1]

/-! ## magnetic model: epoch selection, interpolation within an epoch, continuity across epochs, extrapolation -/

theorem epochIndex_spec (k : Int) (nM : ℕ) (h : 1 ≤ nM) :
    (epochIndex k nM : Int) = if k < 0 then 0 else if k ≤ (nM : Int) - 1 then k else (nM : Int) - 1 := by
  unfold epochIndex
  split_ifs <;> omega

/-- **linear in time within an epoch**: with the epoch fixed, the field is `B_n + (t − t₀ − n·Δ)·rate + Bc`, the rate
    being the difference quotient of the neighbouring models (interpolation) or the secular-variation model
    (extrapolation, last epoch) -/
theorem time_interp (B : ℕ → ℝ) (Bc t t0 dt0 : ℝ) (k : Int) (nM : ℕ) :
    let n := epochIndex k nM
    let rate := if n + 1 < nM then (B (n + 1) - B n) / dt0 else B (n + 1)
    fieldAt B Bc t t0 dt0 k nM = (B n + (t - t0 - (n : ℝ) * dt0) * rate + Bc, rate) := by
  simp only [fieldAt, ofNat_real]
  split_ifs <;> (ext <;> simp; ring)

/-- the field is affine in `t` while the epoch does not change -/
theorem time_linear (B : ℕ → ℝ) (Bc t t' t0 dt0 : ℝ) (k : Int) (nM : ℕ) :
    (fieldAt B Bc t t0 dt0 k nM).1 - (fieldAt B Bc t' t0 dt0 k nM).1 = (t - t') * (fieldAt B Bc t t0 dt0 k nM).2 := by
  simp only [fieldAt, ofNat_real]
  split_ifs <;> ring

/-- **continuity across epochs**: at the epoch boundary `t = t₀ + (k+1)·Δ` (with `0 ≤ k`, `k + 1 ≤ nM − 1`) the value
    computed in epoch `k` equals the value computed in epoch `k + 1` (whether or not that one interpolates) -/
theorem time_continuous (B : ℕ → ℝ) (Bc t0 dt0 : ℝ) (k nM : ℕ) (hk : k + 1 ≤ nM - 1) (hd : dt0 ≠ 0) :
    (fieldAt B Bc (t0 + ((k : ℝ) + 1) * dt0) t0 dt0 k nM).1 = (fieldAt B Bc (t0 + ((k : ℝ) + 1) * dt0) t0 dt0 (k + 1 : ℕ) nM).1 := by
  have e1 : epochIndex (k : Int) nM = k := by unfold epochIndex; omega
  have e2 : epochIndex ((k + 1 : ℕ) : Int) nM = k + 1 := by unfold epochIndex; omega
  simp only [fieldAt, ofNat_real, e1, e2]
  have hlt : k + 1 < nM := by omega
  simp only [hlt, if_true]
  push_cast
  split_ifs <;> field_simp <;> ring

/-- **extrapolation** before the first epoch uses epoch 0 and after the last one the last model with its secular variation -/
theorem time_extrapolation (nM : ℕ) (h : 1 ≤ nM) (k : Int) :
    (k < 0 → epochIndex k nM = 0) ∧ ((nM : Int) - 1 ≤ k → epochIndex k nM = nM - 1 ∧ ¬ (epochIndex k nM + 1 < nM)) := by
  unfold epochIndex
  constructor
  · intro hk; omega
  · intro hk; omega

example : ∃ nM k : ℕ, k + 1 ≤ nM - 1 := ⟨3, 1, by norm_num⟩

/-! ## normal gravity -/

/-- **the normal potential is constant on the reference ellipsoid** `u = b`: for every reduced latitude `β`
    `U(b, β) = GM/E·atan(E/b) + ω²a²/3` (H+M 2-61) -/
theorem normal_U_const (GM omega a b E sbet cbet : ℝ) (h : sbet ^ 2 + cbet ^ 2 = 1) (hE : a ^ 2 = b ^ 2 + E ^ 2)
    (hq : qfun E b ≠ 0) :
    normalU GM omega a b E b sbet cbet = GM / E * Real.arctan (E / b) + omega ^ 2 * a ^ 2 / 3 := by
  unfold normalU
  rw [div_self hq]
  simp only [sq_real, lit_real, RealLike.atan]
  push_cast
  have hc : cbet ^ 2 = 1 - sbet ^ 2 := by linear_combination h
  rw [← hE, hc]
  ring

/-- non-vacuity of `qfun E b ≠ 0`: `q(1, 1) = (π − 3)/2 > 0` -/
example : qfun (1 : ℝ) 1 ≠ 0 := by
  have h : qfun (1 : ℝ) 1 = (Real.pi - 3) / 2 := by
    unfold qfun
    simp only [sq_real, lit_real, RealLike.atan]
    push_cast
    rw [div_one, Real.arctan_one]
    ring
  rw [h]
  have := Real.pi_gt_three
  intro h0
  linarith

/-- **`FlatteningToJ2` is H+M eq. 2-90**: with `e′ = √(e²/(1−f)²)`, `m = ω²a²b/GM`, `q₀ = ½[(1 + 3/e′²)·atan e′ − 3/e′]`
    the coded expression `(e² − K(1−f)³/Q(e′))/3`, `K = 2a³ω²/(15 GM)`, equals `e²/3·(1 − (2/15)·m·e′/q₀)` -/
theorem flatteningToJ2_is_HM (a GM omega f : ℝ) (hf0 : 0 < f) (hf1 : f < 1) (hGM : GM ≠ 0)
    (hq : ((1 + 3 / (Real.sqrt (f * (2 - f) / (1 - f) ^ 2)) ^ 2) * Real.arctan (Real.sqrt (f * (2 - f) / (1 - f) ^ 2))
            - 3 / Real.sqrt (f * (2 - f) / (1 - f) ^ 2)) / 2 ≠ 0) :
    let e2 := f * (2 - f)
    let ep := Real.sqrt (e2 / (1 - f) ^ 2)
    let m := omega ^ 2 * a ^ 2 * (a * (1 - f)) / GM
    let q0 := ((1 + 3 / ep ^ 2) * Real.arctan ep - 3 / ep) / 2
    flatteningToJ2 a GM omega f = e2 / 3 * (1 - 2 / 15 * m * ep / q0) := by
  intro e2 ep m q0
  have h1f : (1 - f) ≠ 0 := by linarith
  have he2 : 0 < e2 := by simp only [e2]; nlinarith
  have hx : 0 < e2 / (1 - f) ^ 2 := div_pos he2 (by positivity)
  have hep : 0 < ep := Real.sqrt_pos.mpr hx
  have hep2 : ep ^ 2 * (1 - f) ^ 2 = e2 := by
    simp only [ep]
    rw [Real.sq_sqrt hx.le]
    field_simp
  have hq0 : q0 ≠ 0 := hq
  unfold flatteningToJ2 Qz
  simp only [sq_real, lit_real, RealLike.atan, sqrt_real]
  push_cast
  change (e2 - 2 * (a * omega) ^ 2 * a / (15 * GM) * (1 - f) * (1 - f) ^ 2 / (q0 / (ep * ep ^ 2))) / 3 = _
  have hepne : ep ≠ 0 := hep.ne'
  simp only [m]
  field_simp
  linear_combination (-(2 * a ^ 3 * omega ^ 2 * ep * (1 - f))) * hep2

end GeoVerif.Props.C19
