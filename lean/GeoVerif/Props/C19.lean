import GeoVerif.Model.Harmonic
namespace GeoVerif.Props.C19
theorem draft : True := trivial
end GeoVerif.Props.C19
