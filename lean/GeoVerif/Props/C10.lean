import GeoVerif.Proofs.DMSClosure
import GeoVerif.Proofs.DMSNul
import GeoVerif.Proofs.DMSStrVal
import GeoVerif.Proofs.DMSRoundTrip
import GeoVerif.Proofs.Calendar
import GeoVerif.Model.ParseLine
/-!
# C10 — text formatting and parsing of angles and positions: property theorems

All statements are about the definitions the driver executes (`Model/DMS.lean`) and the tables re-extracted from
`DMS.cpp` / `DMS.hpp` / `Math.hpp` on every run (`Gen/DMSC.lean`, `Gen/MathC.lean`); a change of a table, of `Math::dm`,
of an enum value or of the model makes them fail.  Byte strings are `List Nat`, all theorems hold for every `Nat`
(so in particular for every byte, NUL and high-bit bytes included).

Closure of the formatter into the parser (`encode_in_grammar`, `grammar_all`, `decode_encode`), the full NUL statement
(`decode_nul_rejected`), sums of signed pieces (`decode_sum`) and the round-trip bounds (`encode_value_bound`,
`roundtrip_bound`, `str_val_roundtrip`) are theorems about the same executable definitions; the helper lemmas live in
`Proofs/DMSDigits.lean`, `DMSGrammar.lean`, `DMSEncode.lean`, `DMSPlain.lean`, `DMSClosure.lean`, `DMSNul.lean`,
`DMSStrVal.lean`, `DMSRound.lean`.  What is not proved is listed in `tools/props.d/C10.py`.
-/
namespace GeoVerif.Props.C10
open GeoVerif GeoVerif.DMS GeoVerif.DMSProofs GeoVerif.Gen GeoVerif.Decimal

/-! ## `Utility::lookup` and the extracted tables -/

/-- **NUL never matches** (finding F6, fix 50029a3): for every table. -/
theorem lookup_nul (tbl : Bytes) : lookup tbl 0 = -1 := by
  simp [lookup]

/-- the digit table is `0123456789`: `digitVal` is the ASCII digit value for every `Nat` -/
theorem digit_table (c : Nat) : digitVal c = if 48 ≤ c ∧ c ≤ 57 then some (c - 48) else none := digitVal_spec c

/-- hemisphere letters (either case): S, N → latitude (S negative), W, E → longitude (W negative); nothing else -/
theorem hemisphere_table : ∀ c, c < 256 →
    lookup DMSC.hemispheres c =
      (if c = 83 ∨ c = 115 then 0 else if c = 78 ∨ c = 110 then 1 else if c = 87 ∨ c = 119 then 2
       else if c = 69 ∨ c = 101 then 3 else -1) := by decide +kernel

theorem hemisphere_meaning :
    (hemiFlag 0, hemiNeg 0) = (Flag.lat, true) ∧ (hemiFlag 1, hemiNeg 1) = (Flag.lat, false) ∧
    (hemiFlag 2, hemiNeg 2) = (Flag.lon, true) ∧ (hemiFlag 3, hemiNeg 3) = (Flag.lon, false) := by decide

/-- signs: `-` ↦ 0 (negative), `+` ↦ 1 -/
theorem sign_table : ∀ c, c < 256 → lookup DMSC.signs c = (if c = 45 then 0 else if c = 43 then 1 else -1) := by
  decide +kernel

/-- component indicators: `d`/`D` ↦ 0, `'` ↦ 1, `"` ↦ 2, `:` ↦ 3 -/
theorem indicator_table : ∀ c, c < 256 →
    lookup DMSC.dmsindicators c =
      (if c = 68 ∨ c = 100 then 0 else if c = 39 then 1 else if c = 34 then 2 else if c = 58 then 3 else -1) := by
  decide +kernel

/-- The alternative symbols documented in `DMS.hpp` (UTF-8 and bare single-byte forms) with the ASCII character they
    stand for (0 = ignored space). -/
def docSymbols : List (Bytes × Nat) := [
  -- degrees
  ([0xc2, 0xb0], 100), ([0xc2, 0xba], 100), ([0xe2, 0x81, 0xb0], 100), ([0xcb, 0x9a], 100), ([0xe2, 0x88, 0x98], 100),
  ([42], 100), ([0xb0], 100), ([0xba], 100),
  -- minutes
  ([96], 39), ([0xe2, 0x80, 0xb2], 39), ([0xe2, 0x80, 0xb5], 39), ([0xc2, 0xb4], 39), ([0xe2, 0x80, 0x98], 39),
  ([0xe2, 0x80, 0x99], 39), ([0xe2, 0x80, 0x9b], 39), ([0xca, 0xb9], 39), ([0xcb, 0x8a], 39), ([0xcb, 0x8b], 39), ([0xb4], 39),
  -- seconds
  ([0xe2, 0x80, 0xb3], 34), ([0xe2, 0x80, 0xb6], 34), ([0xcb, 0x9d], 34), ([0xe2, 0x80, 0x9c], 34), ([0xe2, 0x80, 0x9d], 34),
  ([0xe2, 0x80, 0x9f], 34), ([0xca, 0xba], 34), ([39, 39], 34), ([96, 0xc2, 0xb4], 34), ([0xe2, 0x80, 0xb2, 0xe2, 0x80, 0xb2], 34),
  -- plus, minus
  ([0xe2, 0x9e, 0x95], 43), ([0xe2, 0x81, 0xa4], 43),
  ([0xe2, 0x80, 0x90], 45), ([0xe2, 0x80, 0x91], 45), ([0xe2, 0x80, 0x93], 45), ([0xe2, 0x80, 0x94], 45), ([0xe2, 0x88, 0x92], 45),
  ([0xe2, 0x9e, 0x96], 45),
  -- ignored
  ([0xc2, 0xa0], 0), ([0xe2, 0x80, 0x87], 0), ([0xe2, 0x80, 0x89], 0), ([0xe2, 0x80, 0x8a], 0), ([0xe2, 0x80, 0x8b], 0),
  ([0xe2, 0x80, 0xaf], 0), ([0xe2, 0x81, 0xa3], 0), ([0xa0], 0)]

/-- **every documented alternative symbol is rewritten to its ASCII meaning** by the substitution table extracted from
    `DMS::Decode` (table certificate, re-checked against the source on every run) -/
theorem documented_symbols :
    ∀ pc ∈ docSymbols, replaceAll pc.1 = (if pc.2 = 0 then [] else [pc.2]) := by decide +kernel

/-- … also between digits (the replacement does not disturb its neighbours) -/
theorem documented_symbols_in_context :
    ∀ pc ∈ docSymbols, replaceAll ([49, 50] ++ pc.1 ++ [51, 52]) = [49, 50] ++ (if pc.2 = 0 then [] else [pc.2]) ++ [51, 52] := by
  decide +kernel

/-- plain ASCII other than `*` and the grave accent is left alone -/
theorem plain_ascii_untouched : ∀ c, c < 128 → c ≠ 42 → c ≠ 96 → replaceAll [c] = [c] := by decide +kernel

/-! ## Encode: carry logic (integer level) -/

/-- **normalised minutes** (trailing MINUTE): for every count `i` of whole minutes, the minutes field is `< 60` and the
    carry goes to the degrees. -/
theorem encode_normalised_minute (i : Nat) :
    (splitFields DMSC.compMINUTE i).2.1 < 60 ∧ (splitFields DMSC.compMINUTE i).2.2 = 0 ∧
    (splitFields DMSC.compMINUTE i).1 * 60 + (splitFields DMSC.compMINUTE i).2.1 = i := by
  simp only [splitFields, DMSC.compMINUTE, MathC.dm]
  simp
  omega

/-- **normalised minutes and seconds** (trailing SECOND): for every count `i` of whole seconds, both fields are `< 60`
    and the carries propagate (`i % 60`, `i / 60 % 60`, `i / 3600`): the fields re-assemble to `i`.
    (Seeded change C10A — carry into the degrees dropped — contradicts this via the correspondence.) -/
theorem encode_normalised_second (i : Nat) :
    (splitFields DMSC.compSECOND i).2.2 < 60 ∧ (splitFields DMSC.compSECOND i).2.1 < 60 ∧
    ((splitFields DMSC.compSECOND i).1 * 60 + (splitFields DMSC.compSECOND i).2.1) * 60 + (splitFields DMSC.compSECOND i).2.2 = i := by
  simp only [splitFields, DMSC.compMINUTE, DMSC.compSECOND, MathC.dm, MathC.ms]
  simp
  omega

theorem encode_degree_only (i : Nat) : splitFields DMSC.compDEGREE i = (i, 0, 0) := by
  simp [splitFields, DMSC.compDEGREE, DMSC.compMINUTE, DMSC.compSECOND]

/-- **azimuth range on the printed fields** (closed interval, observation F7): if the whole degrees `D` and the rounded
    count `i` of seconds stay within 360°, the degrees field is ≤ 360 and at 360 the other fields are zero. -/
theorem azimuth_fields_second (D i : Nat) (h : D * 3600 + i ≤ 360 * 3600) :
    D + (splitFields DMSC.compSECOND i).1 ≤ 360 ∧
    (D + (splitFields DMSC.compSECOND i).1 = 360 → (splitFields DMSC.compSECOND i).2.1 = 0 ∧ (splitFields DMSC.compSECOND i).2.2 = 0) := by
  simp only [splitFields, DMSC.compMINUTE, DMSC.compSECOND, MathC.dm, MathC.ms]
  simp
  omega

theorem azimuth_fields_minute (D i : Nat) (h : D * 60 + i ≤ 360 * 60) :
    D + (splitFields DMSC.compMINUTE i).1 ≤ 360 ∧
    (D + (splitFields DMSC.compMINUTE i).1 = 360 → (splitFields DMSC.compMINUTE i).2.1 = 0) := by
  simp only [splitFields, DMSC.compMINUTE, MathC.dm]
  simp
  omega

example : splitFields DMSC.compSECOND 3600 = (1, 0, 0) := by decide
example : splitFields DMSC.compSECOND 3599 = (0, 59, 59) := by decide

/-- the effective precision never exceeds what was asked and is what binary64 resolves -/
theorem clampPrec_le (t p : Nat) : clampPrec t p ≤ p ∧ clampPrec t p ≤ 15 - 2 * t := by
  unfold clampPrec; omega

/-! ## Decode: component-indicator bookkeeping of `InternalDecode` (discrete stage, all strings) -/

/-- a final number without indicator goes to the **next expected** slot -/
theorem comps_trailing (f npiece : Nat) (sl : Slots) (s : Bytes) (n : Num)
    (hn : number s = (n, [])) (hp : npiece < 3) (hne : n.nint + n.nfrac ≠ 0) :
    comps (f + 1) npiece sl s = .ok (sl.set npiece n) := by
  simp only [comps, hn]
  simp [Nat.not_le.mpr hp]
  intro h1 h2; omega

/-- … and a fourth component is an error ("Extra text following seconds") -/
theorem comps_trailing_fourth (f npiece : Nat) (sl : Slots) (s : Bytes) (n : Num)
    (hn : number s = (n, [])) (hp : 3 ≤ npiece) : ∃ e, comps (f + 1) npiece sl s = .error e := by
  simp only [comps, hn]
  simp [hp]

/-- **a number followed by `d`, `'` or `"` goes to the slot the indicator names** (`k` = 0, 1, 2), whatever the next
    expected slot is, as long as the order is respected (`npiece ≤ k`) — in particular when components are skipped
    (`4d9"`: seconds directly after degrees; `34.5'`: minutes only).  Seeded change C10B (store at `npiece`) contradicts
    this via the correspondence. -/
theorem comps_indicator (f npiece k : Nat) (sl : Slots) (s rest : Bytes) (n : Num) (c : Nat)
    (hn : number s = (n, c :: rest)) (hc : c ≠ 46) (hk : lookup DMSC.dmsindicators c = (k : Int)) (hk3 : k < 3)
    (hord : npiece ≤ k) (hne : n.nint + n.nfrac ≠ 0) :
    comps (f + 1) npiece sl s =
      if rest.isEmpty then .ok (sl.set k n)
      else if n.point then .error "Decimal point in non-terminal component"
      else comps f (k + 1) (sl.set k n) rest := by
  have h0 : ¬ ((k : Int) < 0) := by omega
  have h3 : ¬ ((k : Int) ≥ 3) := by omega
  have h4 : ¬ (3 ≤ k) := by omega
  have h5 : ¬ (k + 1 = npiece) := by omega
  have h6 : ¬ (k < npiece) := by omega
  simp only [comps, hn, hc, hk]
  simp [h0, h3, h4, h5, h6]
  intro h1 h2; omega

/-- `:` names the next expected slot -/
theorem comps_colon (f npiece : Nat) (sl : Slots) (s rest : Bytes) (n : Num) (c : Nat)
    (hn : number s = (n, c :: rest)) (hc : c ≠ 46) (hk : lookup DMSC.dmsindicators c = 3) (hrest : rest ≠ [])
    (hp : npiece < 3) (hne : n.nint + n.nfrac ≠ 0) :
    comps (f + 1) npiece sl s =
      if n.point then .error "Decimal point in non-terminal component"
      else comps f (npiece + 1) (sl.set npiece n) rest := by
  have h4 : ¬ (3 ≤ npiece) := by omega
  have hr : rest.isEmpty = false := by cases rest <;> simp_all
  simp only [comps, hn, hc, hk]
  simp [h4, hr]
  intro h1 h2; omega

/-- components out of order (`4d5"4'`) or repeated (`4d5d`) are rejected -/
theorem comps_out_of_order (f npiece k : Nat) (sl : Slots) (s rest : Bytes) (n : Num) (c : Nat)
    (hn : number s = (n, c :: rest)) (hc : c ≠ 46) (hk : lookup DMSC.dmsindicators c = (k : Int)) (hk3 : k < 3)
    (hord : k < npiece) : ∃ e, comps (f + 1) npiece sl s = .error e := by
  have h0 : ¬ ((k : Int) < 0) := by omega
  have h3 : ¬ ((k : Int) ≥ 3) := by omega
  have h4 : ¬ (3 ≤ k) := by omega
  simp only [comps, hn, hc, hk]
  by_cases h5 : k + 1 = npiece
  · simp [h0, h3, h4, h5]
  · simp [h0, h3, h4, h5, hord]

/-- `:` at the end (`4:5:`) is rejected -/
theorem comps_colon_at_end (f npiece : Nat) (sl : Slots) (s : Bytes) (n : Num) (c : Nat)
    (hn : number s = (n, [c])) (hk : lookup DMSC.dmsindicators c = 3) : ∃ e, comps (f + 1) npiece sl s = .error e := by
  simp only [comps, hn, hk]
  by_cases hc : c = 46 <;> simp [hc]

/-- **a fourth `:` component is an error** (finding F14, fix 820a592: no slot 3 exists) -/
theorem comps_fourth_component (f npiece : Nat) (sl : Slots) (s rest : Bytes) (n : Num) (c : Nat)
    (hn : number s = (n, c :: rest)) (hk : lookup DMSC.dmsindicators c = 3) (hp : 3 ≤ npiece) :
    ∃ e, comps (f + 1) npiece sl s = .error e := by
  simp only [comps, hn, hk]
  by_cases hc : c = 46
  · simp [hc]
  · by_cases hr : rest.isEmpty <;> simp [hc, hr, hp]

/-- **any character that is not a digit, point or indicator is rejected** — NUL, high-bit bytes, letters, internal signs -/
theorem comps_illegal_character (f npiece : Nat) (sl : Slots) (s rest : Bytes) (n : Num) (c : Nat)
    (hn : number s = (n, c :: rest)) (hk : lookup DMSC.dmsindicators c < 0) : ∃ e, comps (f + 1) npiece sl s = .error e := by
  simp only [comps, hn]
  by_cases hc : c = 46
  · simp [hc]
  · by_cases hs : isSign c <;> simp [hc, hk, hs]

/-- an indicator without a number (`d5`, `4d'`, `4::5`) is rejected -/
theorem comps_missing_number (f npiece : Nat) (sl : Slots) (s rest : Bytes) (n : Num) (c : Nat)
    (hn : number s = (n, c :: rest)) (hne : n.nint + n.nfrac = 0) : ∃ e, comps (f + 1) npiece sl s = .error e := by
  simp only [comps, hn, hne]
  repeat' split
  all_goals first | exact ⟨_, rfl⟩ | (exfalso; simp_all)

/-! ### the encoder's field layouts are parsed into exactly their numbers (closure of formatter into parser, field level) -/

-- `numOf ds`, `numFracOf ds fs` (`Proofs/DMSGrammar.lean`): the `Num` records of the texts `ds` and `ds.fs`

/-- `D d M ' S . F "` (every digit string `D M S F`, `D M S` non-empty): degrees, minutes and seconds-with-fraction -/
theorem grammar_dms (D M S F : Bytes) (hD : AllDigits D) (hM : AllDigits M) (hS : AllDigits S) (hF : AllDigits F)
    (nD : D ≠ []) (nM : M ≠ []) (nS : S ≠ []) :
    comps 4 0 {} (D ++ 100 :: (M ++ 39 :: (S ++ 46 :: (F ++ [34])))) =
      .ok { d := numOf D, m := numOf M, s := numFracOf S F } := by
  have lD : D.length ≠ 0 := by cases D <;> simp_all
  have lM : M.length ≠ 0 := by cases M <;> simp_all
  have lS : S.length ≠ 0 := by cases S <;> simp_all
  rw [comps_indicator 3 0 0 {} _ _ (numOf D) 100
        (number_int D _ hD (by intro c t h; cases h; exact nd 100 (by simp))) (by decide) ind_d (by decide) (by decide)
        (by simp [numOf, lD])]
  rw [if_neg (by simp), if_neg (by simp [numOf])]
  rw [comps_indicator 2 1 1 _ _ _ (numOf M) 39
        (number_int M _ hM (by intro c t h; cases h; exact nd 39 (by simp))) (by decide) ind_m (by decide) (by decide)
        (by simp [numOf, lM])]
  rw [if_neg (by simp), if_neg (by simp [numOf])]
  rw [comps_indicator 1 2 2 _ _ _ (numFracOf S F) 34
        (number_frac S F [34] hS hF (by intro c t h; cases h; unfold IsDigit; omega)) (by decide) ind_s (by decide) (by decide)
        (by simp [numFracOf, lS])]
  simp [Slots.set, numFracOf, numOf]

/-- the `:` form `D : M : S . F` gives the same three numbers -/
theorem grammar_colon (D M S F : Bytes) (hD : AllDigits D) (hM : AllDigits M) (hS : AllDigits S) (hF : AllDigits F)
    (nD : D ≠ []) (nM : M ≠ []) (nS : S ≠ []) :
    comps 4 0 {} (D ++ 58 :: (M ++ 58 :: (S ++ 46 :: F))) =
      .ok { d := numOf D, m := numOf M, s := numFracOf S F } := by
  have lD : D.length ≠ 0 := by cases D <;> simp_all
  have lM : M.length ≠ 0 := by cases M <;> simp_all
  have lS : S.length ≠ 0 := by cases S <;> simp_all
  rw [comps_colon 3 0 {} _ _ (numOf D) 58
        (number_int D _ hD (by intro c t h; cases h; exact nd 58 (by simp))) (by decide) ind_c (by simp) (by decide)
        (by simp [numOf, lD])]
  rw [if_neg (by simp [numOf])]
  rw [comps_colon 2 1 _ _ _ (numOf M) 58
        (number_int M _ hM (by intro c t h; cases h; exact nd 58 (by simp))) (by decide) ind_c (by simp) (by decide)
        (by simp [numOf, lM])]
  rw [if_neg (by simp [numOf])]
  have hnum : number (S ++ 46 :: F) = (numFracOf S F, []) := by
    have := number_frac S F [] hS hF (by intro c t h; cases h)
    simpa [numFracOf] using this
  rw [comps_trailing 1 2 _ _ (numFracOf S F) hnum (by decide) (by simp [numFracOf, lS])]
  simp [Slots.set, numFracOf, numOf]

/-- **skipped component**: `D d S "` — the number before `"` is the *seconds*, minutes stay empty (`4d9"` = 4.0025) -/
theorem grammar_skip_minutes (D S : Bytes) (hD : AllDigits D) (hS : AllDigits S) (nD : D ≠ []) (nS : S ≠ []) :
    comps 4 0 {} (D ++ 100 :: (S ++ [34])) = .ok { d := numOf D, s := numOf S } := by
  have lD : D.length ≠ 0 := by cases D <;> simp_all
  have lS : S.length ≠ 0 := by cases S <;> simp_all
  rw [comps_indicator 3 0 0 {} _ _ (numOf D) 100
        (number_int D _ hD (by intro c t h; cases h; exact nd 100 (by simp))) (by decide) ind_d (by decide) (by decide)
        (by simp [numOf, lD])]
  rw [if_neg (by simp), if_neg (by simp [numOf])]
  rw [comps_indicator 2 1 2 _ _ _ (numOf S) 34
        (number_int S _ hS (by intro c t h; cases h; exact nd 34 (by simp))) (by decide) ind_s (by decide) (by decide)
        (by simp [numOf, lS])]
  simp [Slots.set, numOf]

/-- minutes only (`34'`) and seconds only (`56"`): the lone number is *not* taken as degrees -/
theorem grammar_minutes_only (M : Bytes) (hM : AllDigits M) (nM : M ≠ []) :
    comps 4 0 {} (M ++ [39]) = .ok { m := numOf M } := by
  have lM : M.length ≠ 0 := by cases M <;> simp_all
  rw [comps_indicator 3 0 1 {} _ _ (numOf M) 39
        (number_int M _ hM (by intro c t h; cases h; exact nd 39 (by simp))) (by decide) ind_m (by decide) (by decide)
        (by simp [numOf, lM])]
  simp [Slots.set, numOf]

theorem grammar_seconds_only (S : Bytes) (hS : AllDigits S) (nS : S ≠ []) :
    comps 4 0 {} (S ++ [34]) = .ok { s := numOf S } := by
  have lS : S.length ≠ 0 := by cases S <;> simp_all
  rw [comps_indicator 3 0 2 {} _ _ (numOf S) 34
        (number_int S _ hS (by intro c t h; cases h; exact nd 34 (by simp))) (by decide) ind_s (by decide) (by decide)
        (by simp [numOf, lS])]
  simp [Slots.set, numOf]

-- non-vacuity: the hypotheses are satisfiable and the statements say what the documentation says
example : comps 4 0 {} (strBytes "4d9\"") = .ok { d := { int := 4, nint := 1 }, s := { int := 9, nint := 1 } } := by decide
example : comps 4 0 {} (strBytes "20d30'40.5\"") =
    .ok { d := { int := 20, nint := 2 }, m := { int := 30, nint := 2 }, s := { int := 40, nint := 2, point := true, frac := 5, nfrac := 1 } } := by
  decide
example : comps 4 0 {} (strBytes "1:2:3:4:5") = .error "More than 3 DMS components" := by decide
example : comps 4 0 {} [49, 0, 50] = .error "Illegal character" := by decide


/-! ## closure of the formatter into the parser (all finite angles, all precisions, all flags) -/

/-- **`encode_in_grammar`: every output of `Encode` for a finite angle is a text of the grammar that the parser accepts.**
    For every finite binary64 `±m·2^e`, trailing component `t ∈ {DEGREE, MINUTE, SECOND}`, every requested precision `p`
    (clamped to `clampPrec t p`), every flag `NONE / LATITUDE / LONGITUDE / AZIMUTH` and every separator byte `sep`
    (0 = indicators `d ' "`): the output is `[-] D [d M [' S]] [.F] [' | "] [S|N|W|E]` — `dmsText` — with non-empty
    digit strings `D M S` (only the bytes `0…9`; leading zeros from the zero fill included), exactly `clampPrec t p`
    fraction digits `F` and a point iff that number is positive, the sign only without a flag, the hemisphere letter only
    for LATITUDE / LONGITUDE and chosen by the sign; the digit strings denote the numbers `encFields` (degrees including the
    carry, minutes, seconds, fraction units).  For the two separators `Decode` understands (none, `:`) the component loop
    parses that text into exactly those three numbers (`slotsOf`). -/
theorem encode_in_grammar (s : Bool) (m : Nat) (e : Int) (t p : Nat) (ind : Flag) (sep : Nat) (ht : t ≤ 2) :
    let h := encodeHead (.fin s m e) t p ind
    ∃ D M S F : Bytes, AllDigits D ∧ AllDigits M ∧ AllDigits S ∧ AllDigits F ∧ D ≠ [] ∧ M ≠ [] ∧ S ≠ [] ∧
      F.length = clampPrec t p ∧
      digitsVal 0 D = (encFields h t).1 ∧ digitsVal 0 M = (encFields h t).2.1 ∧ digitsVal 0 S = (encFields h t).2.2.1 ∧
      digitsVal 0 F = (encFields h t).2.2.2 ∧
      encode (.fin s m e) t p ind sep = sgnText ind h.neg ++ dmsText t sep D M S F ++ hemiText ind h.neg ∧
      (sep = 0 ∨ sep = 58 → comps 4 0 {} (dmsText t sep D M S F) = .ok (slotsOf t D M S F)) := by
  intro h
  obtain ⟨D, M, S, F, hD, hM, hS, hF, nD, nM, nS, hl, v1, v2, v3, v4, henc⟩ := encode_shape s m e t p ind sep ht
  exact ⟨D, M, S, F, hD, hM, hS, hF, nD, nM, nS, hl, v1, v2, v3, v4, henc,
    fun hsep => grammar_text t sep D M S F ht hsep hD hM hS hF nD nM nS⟩

/-- the general grammar theorem behind it: every `dmsText` (indicator or `:` style, with or without fraction, trailing
    degrees / minutes / seconds) is parsed into exactly its numbers -/
theorem grammar_all (t sep : Nat) (D M S F : Bytes) (ht : t ≤ 2) (hsep : sep = 0 ∨ sep = 58)
    (hD : AllDigits D) (hM : AllDigits M) (hS : AllDigits S) (hF : AllDigits F) (nD : D ≠ []) (nM : M ≠ []) (nS : S ≠ []) :
    comps 4 0 {} (dmsText t sep D M S F) = .ok (slotsOf t D M S F) :=
  grammar_text t sep D M S F ht hsep hD hM hS hF nD nM nS

/-- `%.*f` (`Utility::str` on a finite number) writes only digits, at most one point, exactly `p` decimals -/
theorem fmtFixed_shape (x : F64) (p : Nat) :
    ∃ I F : Bytes, fmtFixed x p = (if x.signbit then [45] else []) ++ I ++ (if p = 0 then [] else 46 :: F) ∧
      AllDigits I ∧ I ≠ [] ∧ AllDigits F ∧ F.length = p ∧
      digitsVal 0 I = fixedUnits x p / 10 ^ p ∧ digitsVal 0 F = fixedUnits x p % 10 ^ p := by
  obtain ⟨I, F, h, r⟩ := unitsToFixed_shape (fixedUnits x p) p
  exact ⟨I, F, by simp only [fmtFixed, h, List.append_assoc], r⟩

/-- **`decode_encode` (discrete part, all finite angles)**: `Decode (Encode x …)` — through the whole byte pipeline
    `replaceAll`, `trim`, `pieces`, `strip`, `comps` — is the numeric stage `evalSlots` applied to the printed fields
    (`D M S F` of `encode_in_grammar`, values `encFields`), added to `-0`, with the sign the encoder wrote (`readNeg`:
    the sign of the angle, none for AZIMUTH) and the flag of the hemisphere class (`readFlag`: LATITUDE for `N/S`,
    LONGITUDE for `E/W`, NONE otherwise).  The numeric stage is total on these fields for `|x| < 2^40`
    (`decode_encode_value` below). -/
theorem decode_encode (s : Bool) (m : Nat) (e : Int) (t p : Nat) (ind : Flag) (sep : Nat) (ht : t ≤ 2)
    (hsep : sep = 0 ∨ sep = 58) (hind : ind ≠ Flag.num) :
    let h := encodeHead (.fin s m e) t p ind
    ∃ D M S F : Bytes, AllDigits D ∧ AllDigits M ∧ AllDigits S ∧ AllDigits F ∧ D ≠ [] ∧ M ≠ [] ∧ S ≠ [] ∧
      F.length = clampPrec t p ∧
      digitsVal 0 D = (encFields h t).1 ∧ digitsVal 0 M = (encFields h t).2.1 ∧ digitsVal 0 S = (encFields h t).2.2.1 ∧
      digitsVal 0 F = (encFields h t).2.2.2 ∧
      ∀ v, evalSlots (readNeg ind h.neg) (slotsOf t D M S F) = .ok v →
        decode (encode (.fin s m e) t p ind sep) = .ok (F64.add F64.nzero v, readFlag ind) := by
  intro h
  obtain ⟨D, M, S, F, hD, hM, hS, hF, nD, nM, nS, hl, v1, v2, v3, v4, henc⟩ := encode_shape s m e t p ind sep ht
  refine ⟨D, M, S, F, hD, hM, hS, hF, nD, nM, nS, hl, v1, v2, v3, v4, fun v hv => ?_⟩
  rw [henc]
  exact decode_layout t sep D M S F ind h.neg v ht hsep hind hD hM hS hF nD nM nS hv

/-- the same for any text of the grammar with the encoder's sign / letter layout (not only encoder outputs) -/
theorem grammar_decodes (t sep : Nat) (D M S F : Bytes) (ind : Flag) (neg : Bool) (v : F64) (ht : t ≤ 2)
    (hsep : sep = 0 ∨ sep = 58) (hind : ind ≠ Flag.num)
    (hD : AllDigits D) (hM : AllDigits M) (hS : AllDigits S) (hF : AllDigits F) (nD : D ≠ []) (nM : M ≠ []) (nS : S ≠ [])
    (hv : evalSlots (readNeg ind neg) (slotsOf t D M S F) = .ok v) :
    decode (sgnText ind neg ++ dmsText t sep D M S F ++ hemiText ind neg) = .ok (F64.add F64.nzero v, readFlag ind) :=
  decode_layout t sep D M S F ind neg v ht hsep hind hD hM hS hF nD nM nS hv

-- non-vacuity: concrete encoder outputs and their decoding (the model is executable)
example : encode (F64.fin true 81 (-2)) 2 1 Flag.lat 0 = strBytes "20d15'00.0\"S" := by decide +kernel
example : (decode (strBytes "20d15'00.0\"S")).toOption.map (·.2) = some Flag.lat := by decide +kernel

/-! ## hemisphere and sign rules -/

/-- flag bookkeeping of `DecodeLatLon`, complete case table: without letters the order is decided by `longfirst`; one
    letter fixes the other coordinate; two latitudes or two longitudes are an error -/
theorem latlon_assignment (ia ib : Flag) (lf : Bool) (ha : ia = .none ∨ ia = .lat ∨ ia = .lon) (hb : ib = .none ∨ ib = .lat ∨ ib = .lon) :
    assignLatLon ia ib lf =
      (if ia = .none ∧ ib = .none then .ok (!lf)
       else if ia = .lat ∧ ib = .lat ∨ ia = .lon ∧ ib = .lon then .error "Both interpreted as latitudes / longitudes"
       else .ok (ia = .lat ∨ ib = .lon)) := by
  rcases ha with rfl | rfl | rfl <;> rcases hb with rfl | rfl | rfl <;> cases lf <;> decide

/-- **`|lat| > 90` is rejected**: whatever `DecodeLatLon` returns has a latitude that is not above 90° in magnitude -/
theorem latlon_latitude_range (sa sb : Bytes) (lf : Bool) (lat lon : F64)
    (h : decodeLatLon sa sb lf = .ok (lat, lon)) : F64.gt (F64.abs lat) MathF.qd = false := by
  unfold decodeLatLon at h
  split at h; · cases h
  split at h; · cases h
  split at h; · cases h
  rename_i firstLat _
  cases firstLat
  all_goals
    simp only [if_true, if_false, Bool.false_eq_true] at h
    split at h
    · cases h
    · rename_i hgt
      cases h
      simpa using hgt

/-- hemisphere letters of the pieces of a sum must agree -/
theorem flags_combine (a b : Flag) :
    combineFlags a b = (if a = .none then .ok b else if b = .none ∨ a = b then .ok a else .error "Incompatible hemisphere specifier") := by
  unfold combineFlags; rfl

/-- `DecodeAngle` refuses any hemisphere letter, `DecodeAzimuth` refuses N/S -/
theorem angle_no_hemisphere (s : Bytes) (v : F64) (h : decodeAngle s = .ok v) : ∃ w, decode s = .ok (w, Flag.none) := by
  unfold decodeAngle at h
  split at h
  · cases h
  · rename_i w ind heq
    split at h
    · cases h
    · rename_i hi
      have : ind = Flag.none := by simpa using hi
      subst this; exact ⟨w, heq⟩

theorem azimuth_no_latitude (s : Bytes) (v : F64) (h : decodeAzimuth s = .ok v) :
    ∃ w f, decode s = .ok (w, f) ∧ f ≠ Flag.lat ∧ v = MathF.angNormalize w := by
  unfold decodeAzimuth at h
  split at h
  · cases h
  · rename_i w ind heq
    split at h
    · cases h
    · rename_i hi
      cases h
      exact ⟨w, ind, heq, hi, rfl⟩


/-! ## malformed input: NUL bytes, and the splitting of sums -/

/-- **NUL is rejected** (component loop, all strings, any position, any fuel): a component text containing a NUL byte
    is never accepted.  (Kept under its first-round name; the full statement "`decode s` is an error whenever `0 ∈ s`"
    is `decode_nul_rejected` below.) -/
theorem nul_rejected_partial (f np : Nat) (sl : Slots) (s : Bytes) (h : 0 ∈ s) : ∃ e, comps f np sl s = .error e :=
  comps_nul f np sl s h

/-- **`decode_nul_rejected`: `Decode` rejects every string that contains a NUL byte** (finding F6, the full statement):
    the substitution table (no pattern contains a NUL), trimming, the splitting at signs and the hemisphere / sign
    stripping all keep the NUL inside some piece, the component loop rejects it (`nul_rejected_partial`) and the
    `nan` / `inf` spellings of `Utility::nummatch` do not contain it. -/
theorem decode_nul_rejected (s : Bytes) (h : 0 ∈ s) : ∃ e, decode s = .error e := decode_nul s h

/-- the steps: each stage keeps a NUL byte -/
theorem nul_survives_stages (s : Bytes) (h : 0 ∈ s) :
    0 ∈ replaceAll s ∧ 0 ∈ trim s ∧ (∃ p ∈ pieces (s.length + 1) true s, 0 ∈ p) ∧ nummatch s = none ∧
    (∀ st, strip s = .ok st → 0 ∈ st.body) :=
  ⟨replaceAll_keeps_nul s h, trim_keeps_nul s h, pieces_keep_nul s h, nummatch_nul s h, fun _ hs => strip_keeps_nul hs h⟩

example : (decode [49, 0, 50]).toOption.isNone = true := by decide +kernel

/-! ## sums of signed pieces -/

/-- **splitting at signs**: a first piece `[letter][sign]text` and later pieces `sign text` (texts free of `+ -`) are
    exactly what `Decode` hands to `InternalDecode` -/
theorem pieces_at_signs (p1 : Bytes) (rest : List Bytes) (h1 : FirstPiece p1) (hr : ∀ p ∈ rest, LaterPiece p)
    (fuel : Nat) (hf : (p1 :: rest).flatten.length ≤ fuel) : pieces fuel true (p1 :: rest).flatten = p1 :: rest :=
  pieces_split p1 rest h1 hr fuel hf

/-- **`decode_sum`: a string of signed pieces decodes to the left-to-right binary64 sum `((-0 + x₁) + x₂) + …` of the
    values of its pieces** (each addition correctly rounded: `F64.add`), with the hemisphere flags combined
    (`foldFlags`: equal or absent, otherwise an error); an error in any piece is an error of the whole.  Stated for plain
    text (`replaceAll` and `trim` are the identity on it; for texts over the plain alphabet see `replaceAll_noop`). -/
theorem decode_sum (p1 : Bytes) (rest : List Bytes) (h1 : FirstPiece p1) (hr : ∀ p ∈ rest, LaterPiece p)
    (hrep : replaceAll (p1 :: rest).flatten = (p1 :: rest).flatten)
    (htrim : trim (p1 :: rest).flatten = (p1 :: rest).flatten)
    (xs : List (F64 × Flag)) (hx : (p1 :: rest).map internalDecode = xs.map Except.ok) :
    decode (p1 :: rest).flatten =
      match foldFlags (xs.map (·.2)) Flag.none with
      | .error e => .error e
      | .ok f => .ok ((xs.map (·.1)).foldl F64.add F64.nzero, f) :=
  decode_sum_value p1 rest h1 hr hrep htrim xs hx

/-- … and before evaluating the pieces: `Decode` is `sumPieces` over exactly those pieces -/
theorem decode_sum_pieces (p1 : Bytes) (rest : List Bytes) (h1 : FirstPiece p1) (hr : ∀ p ∈ rest, LaterPiece p)
    (hrep : replaceAll (p1 :: rest).flatten = (p1 :: rest).flatten)
    (htrim : trim (p1 :: rest).flatten = (p1 :: rest).flatten) :
    decode (p1 :: rest).flatten = sumPieces (p1 :: rest) F64.nzero Flag.none :=
  DMSProofs.decode_sum p1 rest h1 hr hrep htrim

/-- an error in any piece is an error of the sum -/
theorem sum_error (ps : List Bytes) (h : ∃ p ∈ ps, ∃ e, internalDecode p = .error e) (v : F64) (ind : Flag) :
    ∃ e, sumPieces ps v ind = .error e := sumPieces_error_of_mem ps h v ind

-- non-vacuity: `S3-2.5+4.1N` satisfies the hypotheses
example : FirstPiece (strBytes "S3") ∧ ∀ p ∈ [strBytes "-2.5", strBytes "+4.1N"], LaterPiece p := ⟨example_first, example_later⟩

/-- the substitution table and trimming leave plain text alone (no `*`, grave accent, high-bit byte; at most one `'`;
    no white space) -/
theorem plain_text_untouched (s : Bytes) (hA : ∀ c ∈ s, c < 128 ∧ c ≠ 42 ∧ c ≠ 96 ∧ isspace c = false) (h39 : s.count 39 ≤ 1) :
    replaceAll s = s ∧ trim s = s :=
  ⟨replaceAll_noop s (fun c hc => ⟨(hA c hc).1, (hA c hc).2.1, (hA c hc).2.2.1⟩) h39, trim_noop s (fun c hc => (hA c hc).2.2.2)⟩

/-! ## hemisphere letter and sign rules of `InternalDecode` (all strings) -/

/-- a hemisphere letter at both ends is an error ("Repeated or contradictory hemisphere indicators") -/
theorem hemisphere_repeated (a b : Nat) (mid : Bytes) (ha : isHemi a = true) (hb : isHemi b = true) :
    ∃ e, strip (a :: (mid ++ [b])) = .error e := strip_two_hemispheres a b mid ha hb

/-- a sign directly after a leading hemisphere letter is accepted and multiplies the letter's sign -/
theorem sign_after_hemisphere (hemi sg : Nat) (body : Bytes) (hh : isHemi hemi = true) (hs : isSign sg = true)
    (hne : body ≠ []) (hlast : ∀ c ∈ body.getLast?, isHemi c = false) :
    strip (hemi :: sg :: body) =
      .ok ⟨(if lookup DMSC.signs sg = 0 then !hemiNeg (lookup DMSC.hemispheres hemi) else hemiNeg (lookup DMSC.hemispheres hemi)),
           hemiFlag (lookup DMSC.hemispheres hemi), body⟩ :=
  strip_sign_after_leading_hemi hemi sg body hh hs hne hlast

/-- … likewise a leading sign with a trailing letter -/
theorem sign_with_trailing_hemisphere (sg hemi : Nat) (body : Bytes) (hs : isSign sg = true) (hh : isHemi hemi = true)
    (hne : body ≠ []) :
    strip (sg :: (body ++ [hemi])) =
      .ok ⟨(if lookup DMSC.signs sg = 0 then !hemiNeg (lookup DMSC.hemispheres hemi) else hemiNeg (lookup DMSC.hemispheres hemi)),
           hemiFlag (lookup DMSC.hemispheres hemi), body⟩ :=
  strip_sign_with_trailing_hemi sg hemi body hs hh hne

/-- only one sign is removed: a second one is an "Internal sign" error of the piece -/
theorem internal_sign_rejected (body : Bytes) (hne : body ≠ []) (hlast : ∀ c ∈ body.getLast?, isHemi c = false) :
    internalDecode (45 :: 45 :: body) = .error "Internal sign" := internalDecode_double_sign body hne hlast

/-! ## `Utility::val (Utility::str x p)` -/

/-- non-finite values round-trip through their spellings, at every precision -/
theorem str_val_nonfinite (p : Nat) :
    (match utilVal (utilStr .nan p) with | .ok .nan => true | _ => false) = true ∧
    (match utilVal (utilStr (.inf false) p) with | .ok (.inf false) => true | _ => false) = true ∧
    (match utilVal (utilStr (.inf true) p) with | .ok (.inf true) => true | _ => false) = true := by
  have h1 : utilStr .nan p = strBytes "nan" := rfl
  have h2 : utilStr (.inf false) p = strBytes "inf" := rfl
  have h3 : utilStr (.inf true) p = strBytes "-inf" := rfl
  rw [h1, h2, h3]
  decide +kernel

/-- **`val` reads back exactly what `str` printed** (finite `x`, every precision `p`): the text is `[-]I[.F]` with
    `p` decimals (`fmtFixed_shape`), has no white space, and the stream-extraction model returns the correctly rounded
    (`ofDecExp` = strtod) value of `N / 10^p`, `N = fixedUnits x p` = `|x|·10^p` rounded half-even to an integer, with the
    sign of `x`.  So `val (str x p)` differs from `x` by the half unit of `fixedUnits` plus one rounding
    (`str_val_roundtrip` below for the bound). -/
theorem str_val_reads_units (s : Bool) (m : Nat) (e : Int) (p : Nat) :
    trim (utilStr (.fin s m e) p) = utilStr (.fin s m e) p ∧
    valPlain (utilStr (.fin s m e) p) =
      (match ofDecExp (fixedUnits (.fin s m e) p) (0 - (p : Int)) with
       | .inf _ => none
       | v => some (if s then F64.neg v else v)) :=
  ⟨trim_noop _ (fmtFixed_nospace _ p), valPlain_fmtFixed s m e p⟩

/-! ## the round-trip bounds (rational error bounds over the exact binary64 model, `IsRN` rounding theory) -/

/-- **the one rounding of `%.*f`**: the printed count of units `fixedUnits x p` is within half a unit of `|x|·10^p` -/
theorem fixedUnits_half_unit (s : Bool) (m : ℕ) (e : ℤ) (p : ℕ) :
    |((fixedUnits (F64.fin s m e) p : ℕ) : ℚ) - |(F64.fin s m e).val| * 10 ^ p| ≤ 1 / 2 := fixedUnits_half s m e p

/-- **`encode_value_bound`: what `encodeHead` does, with constants.**  For every binary64 value `x` (finite,
    representable, below the overflow threshold), trailing unit `t` (scale `sc` = 1, 60, 3600), requested precision
    `prec` (effective `P = clampPrec t prec`) and flag other than AZIMUTH: the sign is the sign bit of `x`; the whole
    degrees `⌊|x|⌋` are split off exactly (0 for DEGREE) and the fractional part `|x| − ⌊|x|⌋` is computed exactly; it is
    multiplied by `sc` with ONE binary64 rounding and printed with ONE decimal rounding (`fixedUnits`, half-even) to
    `units` counts of `10^-P` trailing units.  Hence the printed value `idegree + units/(sc·10^P)` is within
    `½·10^-P/sc + 2^-53` of `|x|` (for DEGREE without the `2^-53`: `encodeHead_bound_deg`). -/
theorem encode_value_bound (s : Bool) (m : ℕ) (e : ℤ) (hx : F64.IsRep (F64.fin s m e))
    (hb : |(F64.fin s m e).val| < (2:ℚ) ^ (1024:ℤ))
    (trailing prec : ℕ) (ht : trailing = 0 ∨ trailing = 1 ∨ trailing = 2) (ind : Flag) (hind : ind ≠ Flag.azi) :
    let x := F64.fin s m e
    let h := encodeHead x trailing prec ind
    let P := clampPrec trailing prec
    let sc : ℚ := scaleOf trailing
    h.neg = s ∧ h.prec = P ∧
    h.idegree.isFinite = true ∧ h.idegree.signbit = false ∧
    h.idegree.val = (if trailing = 0 then 0 else ((⌊|x.val|⌋ : ℤ) : ℚ)) ∧
    |(h.idegree.val + (h.units : ℚ) / (sc * 10 ^ P) - |x.val|)| ≤ (1 / 2) / (sc * 10 ^ P) + (2:ℚ) ^ (-(53:ℤ)) :=
  encodeHead_bound s m e hx hb trailing prec ht ind hind

/-- the rounded count can reach but not exceed one whole degree (so the carry into the degrees is 0 or 1 and minutes,
    seconds < 60 after the carry, `encode_normalised_*`) -/
theorem encode_units_le_degree (s : Bool) (m : ℕ) (e : ℤ) (hx : F64.IsRep (F64.fin s m e))
    (trailing prec : ℕ) (ht : trailing = 1 ∨ trailing = 2) (ind : Flag) (hind : ind ≠ Flag.azi) :
    ((encodeHead (F64.fin s m e) trailing prec ind).units : ℚ) ≤ (scaleOf trailing : ℚ) * 10 ^ clampPrec trailing prec :=
  (encodeHead_bound_ms s m e hx trailing prec ht ind hind).2.2.2.2.2.2

/-- **the decoder side**: for slots with degrees `< 2^41`, minutes and seconds `< 60`, at most 15 fraction digits and a
    point only in the last non-zero component, the numeric stage of `Decode` succeeds and returns a binary64 within
    `4·2^-53·V` of `±V`, `V = d + m/60 + s/3600` the exact rational value of the fields (integer parts are accumulated
    exactly, `strtod` is one correct rounding, the sum and the division one each) -/
theorem decode_value_bound (neg : Bool) (sl : Slots)
    (hD : sl.d.int < 2 ^ 41) (hM : sl.m.int < 60) (hS : sl.s.int < 60)
    (hd : NumOK sl.d) (hm : NumOK sl.m) (hs : NumOK sl.s)
    (hlast_s : numVal sl.s ≠ 0 → sl.d.point = false ∧ sl.m.point = false)
    (hlast_m : numVal sl.m ≠ 0 → sl.d.point = false) :
    let V : ℚ := numVal sl.d + numVal sl.m / 60 + numVal sl.s / 3600
    ∃ v : F64, evalSlots neg sl = .ok v ∧ F64.IsRep v ∧ |v.val| ≤ 2 ^ 53 ∧
      |v.val - (if neg then -V else V)| ≤ 4 * (2:ℚ) ^ (-(53:ℤ)) * V :=
  evalSlots_bound neg sl hD hM hS hd hm hs hlast_s hlast_m

/-- **`roundtrip_bound`**: for every binary64 value `x` with `|x| < 2^40`, trailing DEGREE / MINUTE / SECOND, every
    precision, flag NONE / LATITUDE / LONGITUDE and separator none or `:`:
    `Decode (Encode x …)` succeeds with the flag of the hemisphere class and a finite value `y` with

      `|y − x| ≤ B + 4·2^-53·(|x| + B)`,   `B = ½·10^-P/sc + 2^-53`,  `P = clampPrec t p`, `sc = 1, 60, 3600`

    (`rtBound`): half a unit of the last printed digit, the one binary rounding of the scaling in `Encode`, and the
    three roundings of `Decode`.  AZIMUTH: `roundtrip_bound_azimuth` (all `x`, with respect to the reduced angle).  The
    degrees are limited to `2^40` (beyond `2^53` the statement is false for the code as it is: finding F33, digit-by-digit
    accumulation of the integer part). -/
theorem roundtrip_bound (s : Bool) (m : ℕ) (e : ℤ) (hx : F64.IsRep (F64.fin s m e)) (hb : |(F64.fin s m e).val| < 2 ^ 40)
    (t p : ℕ) (ht : t ≤ 2) (ind : Flag) (hind : ind = Flag.none ∨ ind = Flag.lat ∨ ind = Flag.lon) (sep : ℕ)
    (hsep : sep = 0 ∨ sep = 58) :
    ∃ y : F64, decode (encode (F64.fin s m e) t p ind sep) = .ok (y, readFlag ind) ∧ y.isFinite = true ∧
      |(y.val - (F64.fin s m e).val)| ≤
        ((1 / 2) / ((scaleOf t : ℚ) * 10 ^ clampPrec t p) + (2:ℚ) ^ (-(53:ℤ))) +
          4 * (2:ℚ) ^ (-(53:ℤ)) * (|(F64.fin s m e).val| + ((1 / 2) / ((scaleOf t : ℚ) * 10 ^ clampPrec t p) + (2:ℚ) ^ (-(53:ℤ)))) :=
  roundtrip_all s m e hx hb t p ht ind hind sep hsep

/-- **`roundtrip_bound_azimuth`**: with the AZIMUTH flag `Encode` prints the reduced angle
    `x′ = aziReduce x` — `a = AngNormalize x` (exact, `≡ x mod 360`, `|a| ≤ 180`: C16 `angNormalize_spec`), then `a + 360`
    (one binary64 rounding) if `a < 0`, else `0 + a = a`; `x′` is a binary64 value in `[0, 512]` (in fact `[0, 360]`) —
    and `Decode (Encode x … AZIMUTH)` succeeds with flag NONE and a value within the same bound `rtBound` of `x′`,
    for EVERY binary64 `x`. -/
theorem roundtrip_bound_azimuth (s : Bool) (m : ℕ) (e : ℤ) (hx : F64.IsRep (F64.fin s m e)) (t p : ℕ) (ht : t ≤ 2) (sep : ℕ)
    (hsep : sep = 0 ∨ sep = 58) :
    (F64.IsRep (aziReduce (F64.fin s m e)) ∧ 0 ≤ (aziReduce (F64.fin s m e)).val ∧ (aziReduce (F64.fin s m e)).val ≤ 512 ∧
      ((MathF.angNormalize (F64.fin s m e)).val < 0 →
        RN ((MathF.angNormalize (F64.fin s m e)).val + 360) (aziReduce (F64.fin s m e)).val) ∧
      (0 ≤ (MathF.angNormalize (F64.fin s m e)).val →
        (aziReduce (F64.fin s m e)).val = (MathF.angNormalize (F64.fin s m e)).val)) ∧
    ∃ y : F64, decode (encode (F64.fin s m e) t p Flag.azi sep) = .ok (y, Flag.none) ∧ y.isFinite = true ∧
      |(y.val - (aziReduce (F64.fin s m e)).val)| ≤
        ((1 / 2) / ((scaleOf t : ℚ) * 10 ^ clampPrec t p) + (2:ℚ) ^ (-(53:ℤ))) +
          4 * (2:ℚ) ^ (-(53:ℤ)) * ((aziReduce (F64.fin s m e)).val + ((1 / 2) / ((scaleOf t : ℚ) * 10 ^ clampPrec t p) + (2:ℚ) ^ (-(53:ℤ)))) :=
  ⟨aziReduce_spec s m e hx, roundtrip_azimuth s m e hx t p ht sep hsep⟩

/-- the head of `Encode` for AZIMUTH is the head for NONE on the reduced angle -/
theorem encode_azimuth_head (x : F64) (t p : ℕ) : encodeHead x t p Flag.azi = encodeHead (aziReduce x) t p Flag.none :=
  encodeHead_azi x t p

-- non-vacuity: 10.5 is a binary64 value below 2^40
example : F64.IsRep (F64.fin false 21 (-1)) ∧ |(F64.fin false 21 (-1)).val| < 2 ^ 40 := by
  refine ⟨⟨rfl, 21, -1, by norm_num, by norm_num, by rw [F64.val_fin]; simp⟩, ?_⟩
  rw [F64.val_fin]; norm_num

/-- **`str_val_roundtrip`** (finite values): for `|x| ≤ 2^52` and precision `p ≤ 30`, `Utility::val (Utility::str x p)`
    succeeds with a finite `y`, `|y − x| ≤ ½·10^-p + 2^-53·(|x| + 1)` (the decimal rounding of `str`, the binary rounding
    of `strtod`).  Non-finite values: `str_val_nonfinite`. -/
theorem str_val_roundtrip (s : Bool) (m : ℕ) (e : ℤ) (hb : |(F64.fin s m e).val| ≤ 2 ^ 52) (p : ℕ) (hp : p ≤ 30) :
    ∃ y : F64, utilVal (utilStr (F64.fin s m e) p) = .ok y ∧ y.isFinite = true ∧
      |(y.val - (F64.fin s m e).val)| ≤ (1 / 2) / 10 ^ p + (2:ℚ) ^ (-(53:ℤ)) * (|(F64.fin s m e).val| + 1) :=
  utilVal_utilStr s m e hb p hp

/-- none of the substitution patterns contains a NUL, and none replaces by a digit, point or letter: the table can only
    produce `d ' " + -` or delete (Gen-obligation) -/
theorem replace_table_wellformed :
    ∀ pc ∈ DMSC.replaceTable, pc.1 ≠ [] ∧ 0 ∉ pc.1 ∧ pc.1 ≠ [pc.2] ∧ (pc.2 = 0 ∨ pc.2 = 100 ∨ pc.2 = 39 ∨ pc.2 = 34 ∨ pc.2 = 43 ∨ pc.2 = 45) := by
  decide +kernel

/-- **splitting a sum loses nothing**: the pieces handed to `InternalDecode` concatenate to the trimmed text -/
theorem pieces_join : ∀ (fuel : Nat) (first : Bool) (t : Bytes), t.length ≤ fuel → (pieces fuel first t).flatten = t := by
  intro fuel
  induction fuel with
  | zero =>
    intro first t h
    have : t = [] := by cases t with | nil => rfl | cons _ _ => simp at h
    subst this; simp [pieces]
  | succ fuel ih =>
    intro first t h
    cases t with
    | nil => simp [pieces]
    | cons c t' =>
      simp only [pieces, List.isEmpty_cons, Bool.false_eq_true, if_false, List.flatten_cons]
      rw [ih]
      · exact List.take_append_drop _ _
      · simp only [List.length_drop, List.length_cons] at h ⊢
        omega

example : pieces 12 true (strBytes "S3-2.5+4.1N") = [strBytes "S3", strBytes "-2.5", strBytes "+4.1N"] := by decide
example : pieces 8 true (strBytes "N-20d30") = [strBytes "N-20d30"] := by decide

/-! ## Glue: the calendar of `Utility::day / date / dow`, `Utility::ParseLine`, `Utility::trim`

`Calendar.dayRaw / dateRaw / dow` are the integer arithmetic of `src/Utility.cpp` with C++'s truncating `/` and `%`
(the driver executes exactly these definitions against the implementation: every day of 0001-01-01 … 3300-12-31 in the
thorough tier, 1352 … 2427 in the quick tier).  `Calendar.Valid / leap / monthLength / nextDate` are the calendar documented in
`Utility.hpp`, stated without day numbers. -/
open GeoVerif.Calendar in
/-- **`date (day (y, m, d)) = (y, m, d)`** for every date of the documented calendar from 0001-01-01 on (all years, unbounded). -/
theorem date_day (y m d : Int) (h : Valid y m d) : dateRaw (dayRaw y m d) = (y, m, d) :=
  dateRaw_dayRaw y m d h

open GeoVerif.Calendar in
/-- the day number of a valid date is positive (`day(…, check = true)` does not reject it as "before 0001-01-01") -/
theorem day_pos (y m d : Int) (h : Valid y m d) : 1 ≤ dayRaw y m d := dayRaw_pos y m d h

open GeoVerif.Calendar in
/-- **`day(y, m, d, check = true)` accepts every valid date** inside the guarded range and returns its day number -/
theorem dayChecked_accepts (y m d : Int) (h : Valid y m d) (hy : y ≤ 200000) : dayChecked y m d = some (dayRaw y m d) :=
  dayChecked_of_valid y m d h hy

open GeoVerif.Calendar in
/-- the two calendar tests of the code agree: a valid date is Gregorian by its (y, m, d) iff its day number is ≥ 639799 -/
theorem switch_consistent (y m d : Int) (h : Valid y m d) : gregS (dayRaw y m d) = gregYMD y m d :=
  gregS_dayRaw y m d h

open GeoVerif.Calendar in
/-- **`day (date s) = s`** for EVERY day number `s ≥ 1`, and `date s` is a date of the documented calendar (so `date` and `day` are
mutually inverse bijections between the day numbers from 1 on and the valid dates; proved by induction along `nextDate`) -/
theorem day_date (s : Int) (hs : 1 ≤ s) :
    Valid (dateRaw s).1 (dateRaw s).2.1 (dateRaw s).2.2 ∧ dayRaw (dateRaw s).1 (dateRaw s).2.1 (dateRaw s).2.2 = s :=
  dayRaw_dateRaw s hs

open GeoVerif.Calendar in
/-- **the day number steps by exactly one along the documented calendar** (month ends, leap days of either rule, year ends and the
1752-09-02 → 1752-09-14 switch included), and the successor of a valid date is valid -/
theorem day_next (y m d : Int) (h : Valid y m d) :
    Valid (nextDate y m d).1 (nextDate y m d).2.1 (nextDate y m d).2.2 ∧
    dayRaw (nextDate y m d).1 (nextDate y m d).2.1 (nextDate y m d).2.2 = dayRaw y m d + 1 := by
  have hn := nextDate_valid y m d h
  refine ⟨hn, ?_⟩
  rw [dayRaw_eq _ _ _ hn.1 hn.2.1, dayRaw_eq _ _ _ h.1 h.2.1]
  exact dayE_next y m d h

open GeoVerif.Calendar in
/-- consecutive day numbers are consecutive dates of the documented calendar, for every `s ≥ 1` -/
theorem date_succ (s : Int) (hs : 1 ≤ s) : dateRaw (s + 1) = nextDate (dateRaw s).1 (dateRaw s).2.1 (dateRaw s).2.2 :=
  dateRaw_succ s hs

open GeoVerif.Calendar in
example : (1 : Int) ≤ 639798 ∧ dateRaw (639798 + 1) = nextDate 1752 9 2 ∧ dayRaw 1900 3 1 = dayRaw 1900 2 28 + 1 ∧
    dayRaw 1700 3 1 = dayRaw 1700 2 29 + 1 := by decide

open GeoVerif.Calendar in
/-- `dow` is 7-periodic and steps by one (for day numbers ≥ −5, where C++'s `%` is the mathematical one) -/
theorem dow_periodic (s : Int) (h : -5 ≤ s) : dow (s + 7) = dow s ∧ dow (s + 1) = (dow s + 1) % 7 ∧ 0 ≤ dow s ∧ dow s ≤ 6 := by
  unfold dow
  rw [Int.tmod_eq_emod_of_nonneg (by omega), Int.tmod_eq_emod_of_nonneg (by omega), Int.tmod_eq_emod_of_nonneg (by omega)]
  omega

open GeoVerif.Calendar in
/-- **`day(y, m, d, check = true)` accepts ONLY dates of the documented calendar** (converse of `dayChecked_accepts`: together, inside
the guarded range the checked overload succeeds exactly on the valid dates, and then returns the day number) -/
theorem dayChecked_only_valid (y m d s : Int) (h : dayChecked y m d = some s) : Valid y m d ∧ s = dayRaw y m d :=
  dayChecked_sound y m d s h

open GeoVerif.Calendar in
/-- the week day advances by one along the documented calendar (also across the eleven days dropped in September 1752) -/
theorem dow_next (y m d : Int) (h : Valid y m d) :
    dow (dayRaw (nextDate y m d).1 (nextDate y m d).2.1 (nextDate y m d).2.2) = (dow (dayRaw y m d) + 1) % 7 := by
  rw [(day_next y m d h).2]
  exact (dow_periodic (dayRaw y m d) (by have := day_pos y m d h; omega)).2.1

open GeoVerif.Calendar in
example : dayChecked 2024 2 29 = some (dayRaw 2024 2 29) ∧ dayChecked 1752 9 10 = none ∧ dayChecked 1900 2 29 = none := by decide

open GeoVerif.Calendar in
/-- **`date` is strictly increasing** (lexicographic order of (y, m, d), `dateKey = 10000 y + 100 m + d`) on ALL day numbers from 1 on -/
theorem date_strictMono (s t : Int) (hs : 1 ≤ s) (hst : s < t) : dateKey (dateRaw s) < dateKey (dateRaw t) :=
  dateRaw_strictMono s t hs hst

open GeoVerif.Calendar in
/-- **`day` orders the valid dates as the calendar does**: earlier date ⇔ smaller day number (hence differences of day numbers, as
`fractionalyear` uses them, count the days between two dates) -/
theorem day_lt_iff (y m d y' m' d' : Int) (h : Valid y m d) (h' : Valid y' m' d') :
    dayRaw y m d < dayRaw y' m' d' ↔ dateKey (y, m, d) < dateKey (y', m', d') :=
  dayRaw_lt_iff y m d y' m' d' h h'

open GeoVerif.Calendar in
example : Valid 1752 9 2 ∧ Valid 1752 9 14 ∧ dateKey (1752, 9, 2) < dateKey (1752, 9, 14) ∧ dayRaw 1752 9 2 < dayRaw 1752 9 14 := by decide

open GeoVerif.Calendar in
/-- **`fractionalyear(yyyy-mm-dd)` lies in `[y, y + 1)`** for every valid date up to year 199999: the exact rational the code rounds is
`y + n / den` with `0 ≤ n < den` (`n` = days since January 1, `den` = length of the year) -/
theorem fractionalyear_range (y m d : Int) (h : Valid y m d) (hy : y ≤ 199999) :
    ∃ n den, fracYear y m d = some (y, n, den) ∧ 0 ≤ n ∧ n < den :=
  fracYear_range y m d h hy

open GeoVerif.Calendar in
/-- documented anchors: 0001-01-01 is day 1 and a Saturday; 1752-09-02 (Wednesday) is followed by 1752-09-14 (Thursday) = day 639799;
    2000-01-01 was a Saturday, 1970-01-01 a Thursday; 1700 and 1752 have a February 29, 1800 and 1900 do not, 2000 does -/
theorem calendar_anchors :
    dayRaw 1 1 1 = 1 ∧ dow 1 = 6 ∧ dayRaw 1752 9 14 = 639799 ∧ dayRaw 1752 9 2 = 639798 ∧ dow 639798 = 3 ∧ dow 639799 = 4 ∧
    dow (dayRaw 2000 1 1) = 6 ∧ dow (dayRaw 1970 1 1) = 4 ∧ dateRaw 639798 = (1752, 9, 2) ∧ dateRaw 639799 = (1752, 9, 14) ∧
    Valid 1700 2 29 ∧ Valid 1752 2 29 ∧ ¬ Valid 1800 2 29 ∧ ¬ Valid 1900 2 29 ∧ Valid 2000 2 29 ∧ ¬ Valid 1752 9 3 ∧ ¬ Valid 1752 9 13 := by
  decide

open GeoVerif.Calendar in
example : Valid 2024 2 29 ∧ nextDate 2024 2 29 = (2024, 3, 1) ∧ nextDate 1752 9 2 = (1752, 9, 14) ∧ nextDate 1999 12 31 = (2000, 1, 1) := by decide
open GeoVerif.Calendar in
example : dayChecked 2023 2 29 = none ∧ dayChecked 1752 9 5 = none ∧ dayChecked 0 12 31 = none ∧ (dayChecked 2012 7 2).isSome = true := by decide
open GeoVerif.Calendar in
/-- `fractionalyear`: 2010-01-01 ↦ 2010 + 0/365, 2012-07-02 ↦ 2012 + 183/366 = 2012.5 (the header's example says 07-03) -/
example : fracYear 2010 1 1 = some (2010, 0, 365) ∧ fracYear 2012 7 2 = some (2012, 183, 366) ∧ fracYear 2012 7 3 = some (2012, 184, 366) ∧
    fracYear 1752 12 31 = some (1752, 354, 355) := by decide

/-! `Utility::ParseLine` / `trim`: executable model (`Model/ParseLine.lean`), compared exactly with the implementation on every
sampled line; the documented examples below are decided on the model.  (No universally quantified `parseLine_spec` yet.) -/
open GeoVerif.ParseLine in
example : parseLine (strBytes "  Name = EGM 96  # comment") 61 35 = (true, strBytes "Name", strBytes "EGM 96") := by decide
open GeoVerif.ParseLine in
example : parseLine (strBytes "ID\tWMM2020") 0 35 = (true, strBytes "ID", strBytes "WMM2020") := by decide

open GeoVerif.ParseLine in
example : parseLine (strBytes " # only a comment") 0 35 = (false, [], []) ∧ parseLine (strBytes "= 5") 61 35 = (false, [], []) ∧
    parseLine (strBytes "key") 61 35 = (true, strBytes "key", []) ∧ parseLine (strBytes "a b#c") 0 0 = (true, strBytes "a", strBytes "b#c") := by decide
open GeoVerif.ParseLine in
example : dispatch (strBytes "38SMB4488") = 1 ∧ dispatch (strBytes "33.3,44.4") = 2 ∧ dispatch (strBytes "38n 444000 3684000") = 3 ∧
    dispatch (strBytes "444000 3684000 38n") = 4 ∧ dispatch (strBytes "1 2 3") = 0 ∧ dispatch (strBytes "") = 0 ∧ dispatch (strBytes "1 2 3 4") = 0 := by decide
example : trim (strBytes " \t a b \n") = strBytes "a b" := by decide


end GeoVerif.Props.C10
