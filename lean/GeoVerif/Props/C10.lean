import GeoVerif.Model.DMS
/-!
# C10 — text formatting and parsing of angles: property theorems (first batch)
-/
namespace GeoVerif.Props.C10
open GeoVerif GeoVerif.DMS GeoVerif.Gen

/-- **NUL never matches** (regression of `Utility::lookup` matching the terminator): for every table. -/
theorem lookup_nul (tbl : Bytes) : lookup tbl 0 = -1 := by
  simp [lookup]

end GeoVerif.Props.C10
