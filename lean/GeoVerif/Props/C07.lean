import GeoVerif.Model.Geocentric
import GeoVerif.Spec.RealInst
import Mathlib.Tactic.Ring
import Mathlib.Tactic.LinearCombination
import Mathlib.Tactic.FieldSimp
import Mathlib.Tactic.Positivity
import Mathlib.Tactic.IntervalCases
import Mathlib.Tactic.NormNum
/-!
# C07 — Geocentric / LocalCartesian: exact-real theorems about the formula models

The definitions are those of `Model/Geocentric.lean` (the same terms the driver evaluates in binary64 against
the implementation), read at type `ℝ`.
-/
namespace GeoVerif.Props.C07
open GeoVerif GeoVerif.Geocentric

/-- entry `(i, j)` of a row-major 3×3 matrix -/
noncomputable def ent (M : List ℝ) (i j : ℕ) : ℝ := el M (3 * i + j)

/-- `MᵀM = I`: the columns (east, north, up) are orthonormal -/
theorem rotation_orthonormal (sphi cphi slam clam : ℝ) (hp : sphi ^ 2 + cphi ^ 2 = 1) (hl : slam ^ 2 + clam ^ 2 = 1) :
    ∀ i < 3, ∀ j < 3,
      ent (rotation sphi cphi slam clam) 0 i * ent (rotation sphi cphi slam clam) 0 j +
      ent (rotation sphi cphi slam clam) 1 i * ent (rotation sphi cphi slam clam) 1 j +
      ent (rotation sphi cphi slam clam) 2 i * ent (rotation sphi cphi slam clam) 2 j = if i = j then 1 else 0 := by
  intro i hi j hj
  interval_cases i <;> interval_cases j <;> simp [ent, rotation, el, ofNat_real] <;>
    first
    | linear_combination hl
    | linear_combination hp
    | linear_combination (sphi ^ 2) * hl + hp
    | linear_combination (cphi ^ 2) * hl + hp
    | linear_combination (sphi * cphi) * hl
    | linear_combination (-(sphi * cphi)) * hl
    | linear_combination (-(cphi * sphi)) * hl
    | ring

/-- the rows are orthonormal too (`M Mᵀ = I`), hence `M` is a rotation matrix -/
theorem rotation_orthonormal_rows (sphi cphi slam clam : ℝ) (hp : sphi ^ 2 + cphi ^ 2 = 1) (hl : slam ^ 2 + clam ^ 2 = 1) :
    ∀ i < 3, ∀ j < 3,
      ent (rotation sphi cphi slam clam) i 0 * ent (rotation sphi cphi slam clam) j 0 +
      ent (rotation sphi cphi slam clam) i 1 * ent (rotation sphi cphi slam clam) j 1 +
      ent (rotation sphi cphi slam clam) i 2 * ent (rotation sphi cphi slam clam) j 2 = if i = j then 1 else 0 := by
  intro i hi j hj
  interval_cases i <;> interval_cases j <;> simp [ent, rotation, el, ofNat_real] <;>
    first
    | linear_combination hl
    | linear_combination hp
    | linear_combination (slam ^ 2) * hp + hl
    | linear_combination (clam ^ 2) * hp + hl
    | linear_combination (slam * clam) * hp
    | linear_combination (-(slam * clam)) * hp
    | ring

/-- determinant +1 (proper rotation) -/
theorem rotation_det (sphi cphi slam clam : ℝ) (hp : sphi ^ 2 + cphi ^ 2 = 1) (hl : slam ^ 2 + clam ^ 2 = 1) :
    let M := rotation sphi cphi slam clam
    ent M 0 0 * (ent M 1 1 * ent M 2 2 - ent M 1 2 * ent M 2 1)
    - ent M 0 1 * (ent M 1 0 * ent M 2 2 - ent M 1 2 * ent M 2 0)
    + ent M 0 2 * (ent M 1 0 * ent M 2 1 - ent M 1 1 * ent M 2 0) = 1 := by
  simp [ent, rotation, el, ofNat_real]
  linear_combination (slam ^ 2 + clam ^ 2) * hp + hl

/-- the third column is the outward normal `(cosφ cosλ, cosφ sinλ, sinφ)`; the forward point at height `h` is the
    surface point displaced by `h` along it -/
theorem forward_on_normal (E : Ell ℝ) (sphi cphi slam clam h : ℝ) :
    forward E sphi cphi slam clam h =
      ((forward E sphi cphi slam clam 0).1 + h * (cphi * clam),
       (forward E sphi cphi slam clam 0).2.1 + h * (cphi * slam),
       (forward E sphi cphi slam clam 0).2.2 + h * sphi) := by
  simp only [forward, e2, e2m, lit_real, sq_real, sqrt_real, ofNat_real, Prod.mk.injEq]
  push_cast
  refine ⟨?_, ?_, ?_⟩ <;> ring

/-- the surface point (`h = 0`) satisfies the equation of the ellipsoid `(X²+Y²)/a² + Z²/b² = 1`, `b = a(1−f)` -/
theorem forward_on_ellipsoid (E : Ell ℝ) (sphi cphi slam clam : ℝ)
    (hp : sphi ^ 2 + cphi ^ 2 = 1) (hl : slam ^ 2 + clam ^ 2 = 1) (ha : E.a ≠ 0) (hf : E.f ≠ 1)
    (hpos : 0 < 1 - E.f * (2 - E.f) * sphi ^ 2) :
    let P := forward E sphi cphi slam clam 0
    (P.1 ^ 2 + P.2.1 ^ 2) / E.a ^ 2 + P.2.2 ^ 2 / (E.a * (1 - E.f)) ^ 2 = 1 := by
  simp only [forward, e2, e2m, lit_real, sq_real, sqrt_real, ofNat_real]
  push_cast
  simp only [add_zero]
  have hs : Real.sqrt (1 - E.f * (2 - E.f) * sphi ^ 2) ^ 2 = 1 - E.f * (2 - E.f) * sphi ^ 2 := Real.sq_sqrt hpos.le
  have hs0 : Real.sqrt (1 - E.f * (2 - E.f) * sphi ^ 2) ≠ 0 := (Real.sqrt_pos.mpr hpos).ne'
  have h1f : (1 - E.f) ≠ 0 := sub_ne_zero.mpr (Ne.symm hf)
  set s := Real.sqrt (1 - E.f * (2 - E.f) * sphi ^ 2) with hsdef
  field_simp
  have hc : cphi ^ 2 = 1 - sphi ^ 2 := by linear_combination hp
  have hcl : clam ^ 2 = 1 - slam ^ 2 := by linear_combination hl
  rw [hs]
  ring_nf
  rw [hc]
  ring_nf
  rw [hcl]
  ring

/-- `LocalCartesian` forward followed by reverse (before the geocentric inversion) is the identity when the
    matrix is orthonormal: the local system is a rigid motion -/
theorem local_reverse_forward (O : Origin ℝ) (xc yc zc : ℝ)
    (hO : ∀ i < 3, ∀ j < 3, ent O.r i 0 * ent O.r j 0 + ent O.r i 1 * ent O.r j 1 + ent O.r i 2 * ent O.r j 2 = if i = j then 1 else 0) :
    let p := localForward O xc yc zc
    localReverse O p.1 p.2.1 p.2.2 = (xc, yc, zc) := by
  have h00 := hO 0 (by norm_num) 0 (by norm_num); have h01 := hO 0 (by norm_num) 1 (by norm_num); have h02 := hO 0 (by norm_num) 2 (by norm_num)
  have h11 := hO 1 (by norm_num) 1 (by norm_num); have h12 := hO 1 (by norm_num) 2 (by norm_num); have h22 := hO 2 (by norm_num) 2 (by norm_num)
  have h10 := hO 1 (by norm_num) 0 (by norm_num); have h20 := hO 2 (by norm_num) 0 (by norm_num); have h21 := hO 2 (by norm_num) 1 (by norm_num)
  simp only [ent] at *
  norm_num at *
  simp only [localForward, localReverse, Prod.mk.injEq]
  refine ⟨?_, ?_, ?_⟩
  · linear_combination (xc - O.x0) * h00 + (yc - O.y0) * h01 + (zc - O.z0) * h02
  · linear_combination (xc - O.x0) * h10 + (yc - O.y0) * h11 + (zc - O.z0) * h12
  · linear_combination (xc - O.x0) * h20 + (yc - O.y0) * h21 + (zc - O.z0) * h22

/-- the origin maps to `(0, 0, 0)` -/
theorem local_origin (O : Origin ℝ) : localForward O O.x0 O.y0 O.z0 = (0, 0, 0) := by
  simp [localForward]

/-- distances are preserved: `‖L(p) − L(q)‖² = ‖p − q‖²` for an orthonormal matrix (columns) -/
theorem local_isometry (O : Origin ℝ) (p q : ℝ × ℝ × ℝ)
    (hO : ∀ i < 3, ∀ j < 3, ent O.r i 0 * ent O.r j 0 + ent O.r i 1 * ent O.r j 1 + ent O.r i 2 * ent O.r j 2 = if i = j then 1 else 0) :
    let P := localForward O p.1 p.2.1 p.2.2
    let Q := localForward O q.1 q.2.1 q.2.2
    (P.1 - Q.1) ^ 2 + (P.2.1 - Q.2.1) ^ 2 + (P.2.2 - Q.2.2) ^ 2 = (p.1 - q.1) ^ 2 + (p.2.1 - q.2.1) ^ 2 + (p.2.2 - q.2.2) ^ 2 := by
  have h00 := hO 0 (by norm_num) 0 (by norm_num); have h01 := hO 0 (by norm_num) 1 (by norm_num); have h02 := hO 0 (by norm_num) 2 (by norm_num)
  have h11 := hO 1 (by norm_num) 1 (by norm_num); have h12 := hO 1 (by norm_num) 2 (by norm_num); have h22 := hO 2 (by norm_num) 2 (by norm_num)
  simp only [ent] at *
  norm_num at *
  simp only [localForward]
  linear_combination ((p.1 - q.1) ^ 2) * h00 + ((p.2.1 - q.2.1) ^ 2) * h11 + ((p.2.2 - q.2.2) ^ 2) * h22
    + (2 * (p.1 - q.1) * (p.2.1 - q.2.1)) * h01 + (2 * (p.1 - q.1) * (p.2.2 - q.2.2)) * h02 + (2 * (p.2.1 - q.2.1) * (p.2.2 - q.2.2)) * h12

end GeoVerif.Props.C07
