import GeoVerif.Model.Geocentric
import GeoVerif.Spec.RealInst
import GeoVerif.Proofs.Vermeille
import GeoVerif.Proofs.Geocentric
import GeoVerif.Proofs.GeocentricFrame
import Mathlib.Tactic.Ring
import Mathlib.Tactic.LinearCombination
import Mathlib.Tactic.FieldSimp
import Mathlib.Tactic.Positivity
import Mathlib.Tactic.IntervalCases
import Mathlib.Tactic.NormNum
/-!
# C07 — Geocentric / LocalCartesian: exact-real theorems about the formula models

The definitions are those of `Model/Geocentric.lean` (the same terms the driver evaluates in binary64 against
the implementation), read at type `ℝ`.
-/
namespace GeoVerif.Props.C07
open GeoVerif GeoVerif.Geocentric

/-- entry `(i, j)` of a row-major 3×3 matrix -/
noncomputable def ent (M : List ℝ) (i j : ℕ) : ℝ := el M (3 * i + j)

/-- `MᵀM = I`: the columns (east, north, up) are orthonormal -/
theorem rotation_orthonormal (sphi cphi slam clam : ℝ) (hp : sphi ^ 2 + cphi ^ 2 = 1) (hl : slam ^ 2 + clam ^ 2 = 1) :
    ∀ i < 3, ∀ j < 3,
      ent (rotation sphi cphi slam clam) 0 i * ent (rotation sphi cphi slam clam) 0 j +
      ent (rotation sphi cphi slam clam) 1 i * ent (rotation sphi cphi slam clam) 1 j +
      ent (rotation sphi cphi slam clam) 2 i * ent (rotation sphi cphi slam clam) 2 j = if i = j then 1 else 0 := by
  intro i hi j hj
  interval_cases i <;> interval_cases j <;> simp [ent, rotation, el, ofNat_real] <;>
    first
    | linear_combination hl
    | linear_combination hp
    | linear_combination (sphi ^ 2) * hl + hp
    | linear_combination (cphi ^ 2) * hl + hp
    | linear_combination (sphi * cphi) * hl
    | linear_combination (-(sphi * cphi)) * hl
    | linear_combination (-(cphi * sphi)) * hl
    | ring

/-- the rows are orthonormal too (`M Mᵀ = I`), hence `M` is a rotation matrix -/
theorem rotation_orthonormal_rows (sphi cphi slam clam : ℝ) (hp : sphi ^ 2 + cphi ^ 2 = 1) (hl : slam ^ 2 + clam ^ 2 = 1) :
    ∀ i < 3, ∀ j < 3,
      ent (rotation sphi cphi slam clam) i 0 * ent (rotation sphi cphi slam clam) j 0 +
      ent (rotation sphi cphi slam clam) i 1 * ent (rotation sphi cphi slam clam) j 1 +
      ent (rotation sphi cphi slam clam) i 2 * ent (rotation sphi cphi slam clam) j 2 = if i = j then 1 else 0 := by
  intro i hi j hj
  interval_cases i <;> interval_cases j <;> simp [ent, rotation, el, ofNat_real] <;>
    first
    | linear_combination hl
    | linear_combination hp
    | linear_combination (slam ^ 2) * hp + hl
    | linear_combination (clam ^ 2) * hp + hl
    | linear_combination (slam * clam) * hp
    | linear_combination (-(slam * clam)) * hp
    | ring

/-- determinant +1 (proper rotation) -/
theorem rotation_det (sphi cphi slam clam : ℝ) (hp : sphi ^ 2 + cphi ^ 2 = 1) (hl : slam ^ 2 + clam ^ 2 = 1) :
    let M := rotation sphi cphi slam clam
    ent M 0 0 * (ent M 1 1 * ent M 2 2 - ent M 1 2 * ent M 2 1)
    - ent M 0 1 * (ent M 1 0 * ent M 2 2 - ent M 1 2 * ent M 2 0)
    + ent M 0 2 * (ent M 1 0 * ent M 2 1 - ent M 1 1 * ent M 2 0) = 1 := by
  simp [ent, rotation, el, ofNat_real]
  linear_combination (slam ^ 2 + clam ^ 2) * hp + hl

/-- the third column is the outward normal `(cosφ cosλ, cosφ sinλ, sinφ)`; the forward point at height `h` is the
    surface point displaced by `h` along it -/
theorem forward_on_normal (E : Ell ℝ) (sphi cphi slam clam h : ℝ) :
    forward E sphi cphi slam clam h =
      ((forward E sphi cphi slam clam 0).1 + h * (cphi * clam),
       (forward E sphi cphi slam clam 0).2.1 + h * (cphi * slam),
       (forward E sphi cphi slam clam 0).2.2 + h * sphi) := by
  simp only [forward, e2, e2m, lit_real, sq_real, sqrt_real, ofNat_real, Prod.mk.injEq]
  push_cast
  refine ⟨?_, ?_, ?_⟩ <;> ring

/-- the surface point (`h = 0`) satisfies the equation of the ellipsoid `(X²+Y²)/a² + Z²/b² = 1`, `b = a(1−f)` -/
theorem forward_on_ellipsoid (E : Ell ℝ) (sphi cphi slam clam : ℝ)
    (hp : sphi ^ 2 + cphi ^ 2 = 1) (hl : slam ^ 2 + clam ^ 2 = 1) (ha : E.a ≠ 0) (hf : E.f ≠ 1)
    (hpos : 0 < 1 - E.f * (2 - E.f) * sphi ^ 2) :
    let P := forward E sphi cphi slam clam 0
    (P.1 ^ 2 + P.2.1 ^ 2) / E.a ^ 2 + P.2.2 ^ 2 / (E.a * (1 - E.f)) ^ 2 = 1 := by
  simp only [forward, e2, e2m, lit_real, sq_real, sqrt_real, ofNat_real]
  push_cast
  simp only [add_zero]
  have hs : Real.sqrt (1 - E.f * (2 - E.f) * sphi ^ 2) ^ 2 = 1 - E.f * (2 - E.f) * sphi ^ 2 := Real.sq_sqrt hpos.le
  have hs0 : Real.sqrt (1 - E.f * (2 - E.f) * sphi ^ 2) ≠ 0 := (Real.sqrt_pos.mpr hpos).ne'
  have h1f : (1 - E.f) ≠ 0 := sub_ne_zero.mpr (Ne.symm hf)
  set s := Real.sqrt (1 - E.f * (2 - E.f) * sphi ^ 2) with hsdef
  field_simp
  have hc : cphi ^ 2 = 1 - sphi ^ 2 := by linear_combination hp
  have hcl : clam ^ 2 = 1 - slam ^ 2 := by linear_combination hl
  rw [hs]
  ring_nf
  rw [hc]
  ring_nf
  rw [hcl]
  ring

/-- `LocalCartesian` forward followed by reverse (before the geocentric inversion) is the identity when the
    matrix is orthonormal: the local system is a rigid motion -/
theorem local_reverse_forward (O : Origin ℝ) (xc yc zc : ℝ)
    (hO : ∀ i < 3, ∀ j < 3, ent O.r i 0 * ent O.r j 0 + ent O.r i 1 * ent O.r j 1 + ent O.r i 2 * ent O.r j 2 = if i = j then 1 else 0) :
    let p := localForward O xc yc zc
    localReverse O p.1 p.2.1 p.2.2 = (xc, yc, zc) := by
  have h00 := hO 0 (by norm_num) 0 (by norm_num); have h01 := hO 0 (by norm_num) 1 (by norm_num); have h02 := hO 0 (by norm_num) 2 (by norm_num)
  have h11 := hO 1 (by norm_num) 1 (by norm_num); have h12 := hO 1 (by norm_num) 2 (by norm_num); have h22 := hO 2 (by norm_num) 2 (by norm_num)
  have h10 := hO 1 (by norm_num) 0 (by norm_num); have h20 := hO 2 (by norm_num) 0 (by norm_num); have h21 := hO 2 (by norm_num) 1 (by norm_num)
  simp only [ent] at *
  norm_num at *
  simp only [localForward, localReverse, Prod.mk.injEq]
  refine ⟨?_, ?_, ?_⟩
  · linear_combination (xc - O.x0) * h00 + (yc - O.y0) * h01 + (zc - O.z0) * h02
  · linear_combination (xc - O.x0) * h10 + (yc - O.y0) * h11 + (zc - O.z0) * h12
  · linear_combination (xc - O.x0) * h20 + (yc - O.y0) * h21 + (zc - O.z0) * h22

/-- the origin maps to `(0, 0, 0)` -/
theorem local_origin (O : Origin ℝ) : localForward O O.x0 O.y0 O.z0 = (0, 0, 0) := by
  simp [localForward]

/-- distances are preserved: `‖L(p) − L(q)‖² = ‖p − q‖²` for an orthonormal matrix (columns) -/
theorem local_isometry (O : Origin ℝ) (p q : ℝ × ℝ × ℝ)
    (hO : ∀ i < 3, ∀ j < 3, ent O.r i 0 * ent O.r j 0 + ent O.r i 1 * ent O.r j 1 + ent O.r i 2 * ent O.r j 2 = if i = j then 1 else 0) :
    let P := localForward O p.1 p.2.1 p.2.2
    let Q := localForward O q.1 q.2.1 q.2.2
    (P.1 - Q.1) ^ 2 + (P.2.1 - Q.2.1) ^ 2 + (P.2.2 - Q.2.2) ^ 2 = (p.1 - q.1) ^ 2 + (p.2.1 - q.2.1) ^ 2 + (p.2.2 - q.2.2) ^ 2 := by
  have h00 := hO 0 (by norm_num) 0 (by norm_num); have h01 := hO 0 (by norm_num) 1 (by norm_num); have h02 := hO 0 (by norm_num) 2 (by norm_num)
  have h11 := hO 1 (by norm_num) 1 (by norm_num); have h12 := hO 1 (by norm_num) 2 (by norm_num); have h22 := hO 2 (by norm_num) 2 (by norm_num)
  simp only [ent] at *
  norm_num at *
  simp only [localForward]
  linear_combination ((p.1 - q.1) ^ 2) * h00 + ((p.2.1 - q.2.1) ^ 2) * h11 + ((p.2.2 - q.2.2) ^ 2) * h22
    + (2 * (p.1 - q.1) * (p.2.1 - q.2.1)) * h01 + (2 * (p.1 - q.1) * (p.2.2 - q.2.2)) * h02 + (2 * (p.2.1 - q.2.1) * (p.2.2 - q.2.2)) * h12

/-! ## Vermeille's reverse conversion inverts the forward map (general Cardano branch) -/
open GeoVerif.Vermeille

theorem cbrt_real_nonneg (x : ℝ) (hx : 0 ≤ x) : (RealLike.cbrt x : ℝ) = x ^ ((1:ℝ)/3) := by
  show (if 0 ≤ x then x ^ ((1 : ℝ) / 3) else -((-x) ^ ((1 : ℝ) / 3))) = _
  rw [if_pos hx]

theorem cbrt_cube (x : ℝ) (hx : 0 ≤ x) : (x ^ ((1:ℝ)/3)) ^ 3 = x := by
  rw [← Real.rpow_natCast, ← Real.rpow_mul hx]; norm_num

/-- Cardano branch of `vermU`: for `S > 0` and a non-negative discriminant the result is a positive root of
`u³ − 3r u² = 2S`, and `u > 3r` -/
theorem vermU_spec (S r : ℝ) (hS : 0 < S) (hdisc : 0 ≤ S * (2 * r ^ 3 + S)) :
    (vermU S r) ^ 3 - 3 * r * (vermU S r) ^ 2 = 2 * S ∧ 0 < vermU S r ∧ 3 * r < vermU S r := by
  have h3 : 0 ≤ 2 * r ^ 3 + S := by
    by_contra hc
    have := mul_neg_of_pos_of_neg hS (not_le.mp hc); linarith
  have hT30 : 0 < S + r ^ 3 := by linarith
  set D := Real.sqrt (S * (2 * r ^ 3 + S)) with hD
  have hD0 : 0 ≤ D := Real.sqrt_nonneg _
  have hD2 : D ^ 2 = S * (2 * r ^ 3 + S) := Real.sq_sqrt hdisc
  have hT3 : 0 < S + r ^ 3 + D := by linarith
  set T := (S + r ^ 3 + D) ^ ((1:ℝ)/3) with hTdef
  have hTpos : 0 < T := Real.rpow_pos_of_pos hT3 _
  have hTc : T ^ 3 = S + r ^ 3 + D := cbrt_cube _ hT3.le
  have hu : vermU S r = r + (T + r ^ 2 / T) := by
    unfold vermU
    simp only [sq_real, sqrt_real, leb_real, ltb_real, eqb_real, lit_real, ofNat_real]
    push_cast
    have e1 : r * r ^ 2 = r ^ 3 := by ring
    rw [e1]
    have hd : decide ((0:ℝ) ≤ S * (2 * r ^ 3 + S)) = true := by simpa using hdisc
    have hl : decide (S + r ^ 3 < (0:ℝ)) = false := by simpa using hT30.le
    simp only [hd, hl, if_true, Bool.false_eq_true, if_false]
    rw [← hD, cbrt_real_nonneg _ hT3.le, ← hTdef]
    have hz : decide (T = (0:ℝ)) = false := by simpa using hTpos.ne'
    simp only [hz, Bool.false_eq_true, if_false]
  rw [hu]
  have hcub := vermeille_cubic r S D T hTc hD2 hTpos.ne'
  have hupos : 0 < r + (T + r ^ 2 / T) := by
    by_cases hr : 0 ≤ r
    · have : 0 ≤ r ^ 2 / T := by positivity
      linarith
    · have hr := not_le.mp hr
      have h1 : T + r ^ 2 / T + 2 * r = (T + r) ^ 2 / T := by field_simp; ring
      have h2 : 0 ≤ (T + r) ^ 2 / T := by positivity
      linarith
  refine ⟨hcub, hupos, ?_⟩
  -- u²(u − 3r) = 2S > 0
  set u := r + (T + r ^ 2 / T) with hudef
  have : u ^ 2 * (u - 3 * r) = 2 * S := by linear_combination hcub
  have hu2 : 0 < u ^ 2 := by positivity
  by_contra hc
  have hc := not_lt.mp hc
  have : u ^ 2 * (u - 3 * r) ≤ 0 := mul_nonpos_of_nonneg_of_nonpos hu2.le (by linarith)
  linarith

/-- **Vermeille's `k`** (oblate ellipsoid, general position, Cardano branch): the computed pair is `(k, k + e²)` with
`k > 0` the root of the quartic `p/(k + e²)² + q/k² = 1` -/
theorem vermK_oblate_spec (a f p q : ℝ) (hf0 : 0 < f) (hf1 : f < 1) (hp : 0 < p) (hq : 0 < q)
    (hdisc : 0 ≤ (f * (2 - f)) ^ 2 * p * q / 4 *
      (2 * ((p + q - (f * (2 - f)) ^ 2) / 6) ^ 3 + (f * (2 - f)) ^ 2 * p * q / 4)) :
    let E : Ell ℝ := ⟨a, f⟩
    let kk := vermK E p q ((p + q - (f * (2 - f)) ^ 2) / 6) false
    0 < kk.1 ∧ kk.2 = kk.1 + f * (2 - f) ∧ p / kk.2 ^ 2 + q / kk.1 ^ 2 = 1 := by
  intro E kk
  set e2' := f * (2 - f) with he2
  have he2pos : 0 < e2' := by rw [he2]; nlinarith
  set r := (p + q - e2' ^ 2) / 6 with hr
  set S := e2' ^ 2 * p * q / 4 with hSdef
  have hS : 0 < S := by rw [hSdef]; positivity
  obtain ⟨hcub, hupos, hu3r⟩ := vermU_spec S r hS hdisc
  set u := vermU S r with hu
  have hv2pos : 0 < u ^ 2 + e2' ^ 2 * q := by positivity
  set v := Real.sqrt (u ^ 2 + e2' ^ 2 * q) with hv
  have hvpos : 0 < v := Real.sqrt_pos.mpr hv2pos
  have hv2 : v ^ 2 = u ^ 2 + e2' ^ 2 * q := Real.sq_sqrt hv2pos.le
  -- e4 (q − u)² = (e4 − 2u + 6r) v²  (Ferrari's perfect-square condition)
  have hps : e2' ^ 2 * (q - u) ^ 2 = (e2' ^ 2 - 2 * u + 6 * r) * v ^ 2 := by
    rw [hv2]; linear_combination 2 * hcub
  have hlt : (u - q) ^ 2 < v ^ 2 := by
    have h1 : (e2' ^ 2 - 2 * u + 6 * r) * v ^ 2 < e2' ^ 2 * v ^ 2 := by
      apply mul_lt_mul_of_pos_right _ (by positivity); linarith
    have h2 : e2' ^ 2 * (u - q) ^ 2 < e2' ^ 2 * v ^ 2 := by
      have : (u - q) ^ 2 = (q - u) ^ 2 := by ring
      rw [this, hps]; exact h1
    exact lt_of_mul_lt_mul_left h2 (by positivity)
  have huvq : 0 < u + v - q := by
    have := abs_lt_of_sq_lt_sq hlt hvpos.le
    have := (abs_lt.mp this).1; linarith
  set w := e2' * (u + v - q) / (2 * v) with hw
  have hwpos : 0 < w := by rw [hw]; positivity
  have huv : 0 < u + v := by linarith
  obtain ⟨hk2, hkpos⟩ := vermeille_k (u + v) w huv hwpos.le
  set k := (u + v) / (Real.sqrt (u + v + w ^ 2) + w) with hk
  have hkk : kk = (k, k + e2') := by
    show vermK E p q r false = _
    unfold vermK
    simp only [e4a, e2a, e2, sq_real, sqrt_real, ltb_real, lit_real, ofNat_real, abs_real, Bool.false_eq_true, if_false, E]
    push_cast
    rw [← he2, abs_of_pos he2pos, ← hSdef, ← hu, ← hv]
    have hul : decide (u < (0:ℝ)) = false := by simpa using hupos.le
    simp only [hul, Bool.false_eq_true, if_false]
    have hmax : (RealLike.max (0:ℝ) (e2' * (u + v - q) / (2 * v))) = w := by
      show max (0:ℝ) _ = w
      rw [← hw]; exact max_eq_right hwpos.le
    rw [hmax]
  rw [hkk]
  refine ⟨hkpos, rfl, ?_⟩
  have h4 : 2 * v * w = e2' * (u + v - q) := by rw [hw]; field_simp
  have hcub' : u ^ 3 - 3 * ((p + q - e2' ^ 2) / 6) * u ^ 2 = e2' ^ 2 * p * q / 2 := by
    rw [← hr]; linear_combination hcub
  have hQ := vermeille_quartic p q e2' u v w k hcub' hv2 h4 hk2 hvpos.ne'
  have hk2pos : 0 < k + e2' := by linarith
  show p / (k + e2') ^ 2 + q / k ^ 2 = 1
  field_simp
  linear_combination -hQ

/--
**Geocentric `Reverse` inverts `Forward` on the general (Vermeille–Cardano) branch.**  Oblate ellipsoid `0 < f < 1`,
a point off the axis and off the equatorial plane, not in the far field (`h ≤ maxrad`), non-negative discriminant
(every point outside the evolute): the forward image of the computed `(sin φ, cos φ, sin λ, cos λ, h)` is the
point itself.  (Kept from the first deepening round; `reverse_closes` below covers every branch below the far-field threshold:
trigonometric branch, prolate, sphere, axis, equatorial plane, singular disc / segment.)
-/
theorem reverse_general_closes (a f maxrad X Y Z : ℝ) (ha : 0 < a) (hf0 : 0 < f) (hf1 : f < 1)
    (hXY : X ≠ 0 ∨ Y ≠ 0) (hZ : Z ≠ 0)
    (hmax : ¬ maxrad < Real.sqrt ((Real.sqrt (X ^ 2 + Y ^ 2)) ^ 2 + Z ^ 2))
    (hdisc :
      let p := (Real.sqrt (X ^ 2 + Y ^ 2) / a) ^ 2
      let q := (1 - f) ^ 2 * (Z / a) ^ 2
      0 ≤ (f * (2 - f)) ^ 2 * p * q / 4 *
        (2 * ((p + q - (f * (2 - f)) ^ 2) / 6) ^ 3 + (f * (2 - f)) ^ 2 * p * q / 4)) :
    let E : Ell ℝ := ⟨a, f⟩
    let rv := reverse E maxrad X Y Z
    forward E rv.sphi rv.cphi rv.slam rv.clam rv.h = (X, Y, Z) := by
  intro E rv
  have hR2 : 0 < X ^ 2 + Y ^ 2 := by
    rcases hXY with h | h
    · have : 0 < X ^ 2 := by positivity
      positivity
    · have : 0 < Y ^ 2 := by positivity
      positivity
  set R := Real.sqrt (X ^ 2 + Y ^ 2) with hRdef
  have hRpos : 0 < R := Real.sqrt_pos.mpr hR2
  have hRsq : R ^ 2 = X ^ 2 + Y ^ 2 := Real.sq_sqrt hR2.le
  set e2' := f * (2 - f) with he2
  have he2pos : 0 < e2' := by rw [he2]; nlinarith
  have he2m : (1 - f) ^ 2 = 1 - e2' := by rw [he2]; ring
  set p := (R / a) ^ 2 with hp
  set q := (1 - f) ^ 2 * (Z / a) ^ 2 with hq
  have hppos : 0 < p := by rw [hp]; positivity
  have h1f : 0 < (1 - f) ^ 2 := by have : 0 < 1 - f := by linarith
                                   positivity
  have hqpos : 0 < q := by rw [hq]; positivity
  obtain ⟨hk1pos, hk2eq, hquart⟩ := vermK_oblate_spec a f p q hf0 hf1 hppos hqpos hdisc
  set kk := vermK (⟨a, f⟩ : Ell ℝ) p q ((p + q - e2' ^ 2) / 6) false with hkk
  -- unfold `reverse` along the general branch
  have hrv : rv = ⟨(Z / kk.1) / Real.sqrt ((Z / kk.1) ^ 2 + (R / kk.2) ^ 2),
                   (R / kk.2) / Real.sqrt ((Z / kk.1) ^ 2 + (R / kk.2) ^ 2), Y / R, X / R,
                   (1 - (1 - e2') / kk.1) * Real.sqrt ((kk.1 * R / kk.2) ^ 2 + Z ^ 2)⟩ := by
    show reverse E maxrad X Y Z = _
    unfold reverse
    simp only [e4a, e2m, e2, sq_real, sqrt_real, hypot_real, ltb_real, leb_real, eqb_real, lit_real, ofNat_real, E]
    push_cast
    rw [← hRdef]
    have c1 : decide (R = (0:ℝ)) = false := by simpa using hRpos.ne'
    have c2 : decide (maxrad < Real.sqrt (R ^ 2 + Z ^ 2)) = false := by simpa using hmax
    have c3 : decide ((f * (2 - f)) ^ 2 = (0:ℝ)) = false := by
      rw [← he2]; simpa using he2pos.ne'
    have c4 : decide (f < (0:ℝ)) = false := by simpa using hf0.le
    simp only [c1, c2, c3, c4, Bool.false_eq_true, if_false]
    rw [← he2, ← hp, ← hq]
    have c5 : decide (e2' ^ 2 * q = (0:ℝ)) = false := by
      have : e2' ^ 2 * q ≠ 0 := by positivity
      simpa using this
    simp only [c5, Bool.false_and, Bool.not_false, if_true]
    rw [← hkk, he2m]
  have hq' : (R / a) ^ 2 / (kk.1 + e2') ^ 2 + (1 - e2') * (Z / a) ^ 2 / kk.1 ^ 2 = 1 := by
    rw [← he2m, ← hp]
    have : (1 - f) ^ 2 * (Z / a) ^ 2 / kk.1 ^ 2 = q / kk.1 ^ 2 := by rw [hq]
    rw [this, ← hk2eq]; exact hquart
  have hk2pos : 0 < kk.1 + e2' := by linarith
  obtain ⟨cX, cZ⟩ := vermeille_closure a e2' R Z kk.1 ha hk1pos hk2pos hq' (Or.inl hRpos.ne')
  rw [hrv]
  simp only [forward, e2, e2m, sq_real, sqrt_real, lit_real, ofNat_real, E]
  push_cast
  rw [← he2, he2m, hk2eq]
  refine Prod.ext ?_ (Prod.ext ?_ ?_)
  · show _ * (X / R) = X
    rw [cX]; field_simp
  · show _ * (Y / R) = Y
    rw [cX]; field_simp
  · exact cZ


/-- non-vacuity of `reverse_general_closes`: a = 1, f = 1/2, the point (1, 0, 1) -/
example : forward (⟨1, 1/2⟩ : Ell ℝ) (reverse (⟨1, 1/2⟩ : Ell ℝ) 10 1 0 1).sphi (reverse (⟨1, 1/2⟩ : Ell ℝ) 10 1 0 1).cphi
    (reverse (⟨1, 1/2⟩ : Ell ℝ) 10 1 0 1).slam (reverse (⟨1, 1/2⟩ : Ell ℝ) 10 1 0 1).clam (reverse (⟨1, 1/2⟩ : Ell ℝ) 10 1 0 1).h = (1, 0, 1) :=
  reverse_general_closes 1 (1/2) 10 1 0 1 (by norm_num) (by norm_num) (by norm_num) (Or.inl one_ne_zero) one_ne_zero
    (by rw [show ((1:ℝ) ^ 2 + 0 ^ 2) = 1 by norm_num, Real.sqrt_one, not_lt, Real.sqrt_le_iff]; norm_num)
    (by simp only []; rw [show ((1:ℝ) ^ 2 + 0 ^ 2) = 1 by norm_num, Real.sqrt_one]; norm_num)

/-! ## Deepening (round G07): every branch of `IntReverse` -/
open GeoVerif.GeocentricProofs

/-- **(a) trigonometric branch of the resolvent cubic** (`disc < 0`, which forces `r < 0`):
`u = r(1 + 2cos(atan2(√−disc, −(S + r³))/3))` is the root of `u³ − 3r u² = 2S` in `(3r, 0)` -/
theorem vermU_trig_spec (S r : ℝ) (hS : 0 < S) (hdisc : S * (2 * r ^ 3 + S) < 0) :
    (vermU S r) ^ 3 - 3 * r * (vermU S r) ^ 2 = 2 * S ∧ 3 * r < vermU S r ∧ vermU S r < 0 :=
  vermU_trig S r hS hdisc

/-- non-vacuity: `S = 1/100`, `r = −1` is in the trigonometric branch -/
example : (0:ℝ) < 1 / 100 ∧ (1 / 100 : ℝ) * (2 * (-1) ^ 3 + 1 / 100) < 0 := by norm_num

/-- **where the code takes the trigonometric branch**: with `S = e⁴pq/4`, `r = (p + q − e⁴)/6` and `p, q > 0` the
discriminant `S(2r³ + S)` is negative exactly strictly inside the evolute (astroid) `p^⅓ + q^⅓ < (e⁴)^⅓`, written
polynomially as `27 e⁴ p q < (e⁴ − p − q)³` -/
theorem trig_branch_domain (e4 p q : ℝ) (he : 0 < e4) (hp : 0 < p) (hq : 0 < q) :
    e4 * p * q / 4 * (2 * ((p + q - e4) / 6) ^ 3 + e4 * p * q / 4) < 0 ↔ 27 * e4 * p * q < (e4 - p - q) ^ 3 := by
  have hS : 0 < e4 * p * q / 4 := by positivity
  have e : 2 * ((p + q - e4) / 6) ^ 3 + e4 * p * q / 4 = (27 * e4 * p * q - (e4 - p - q) ^ 3) / 108 := by ring
  rw [e]
  constructor
  · intro h
    have := (pos_iff_neg_of_mul_neg h).mp hS
    linarith
  · intro h
    exact mul_neg_of_pos_of_neg hS (by linarith)

/-- non-vacuity: `e⁴ = 1`, `p = q = 1/100` lies inside the evolute -/
example : (27:ℝ) * 1 * (1 / 100) * (1 / 100) < (1 - 1 / 100 - 1 / 100) ^ 3 := by norm_num

/-- **(a)+(b) Vermeille's `k` in every case the general branch is entered with**, oblate and prolate: for `e² ≠ 0`,
`p, q ≥ 0` (the swapped pair of the code) and `¬(e⁴q = 0 ∧ r ≤ 0)` — both signs of the discriminant, `p = 0` (a point
of the axis resp. the equatorial plane) and `q = 0, r > 0` included — the pair returned by `vermK` is `(k, k + e²)`
(oblate) resp. `(k − e², k)` (prolate) with `k > 0` the root of `p/(k + |e²|)² + q/k² = 1` -/
theorem vermK_spec (a f p q : ℝ) (he : f * (2 - f) ≠ 0) (hp : 0 ≤ p) (hq : 0 ≤ q)
    (hbr : ¬ ((f * (2 - f)) ^ 2 * q = 0 ∧ (p + q - (f * (2 - f)) ^ 2) / 6 ≤ 0)) (prolate : Bool) :
    let kk := vermK (⟨a, f⟩ : Ell ℝ) p q ((p + q - (f * (2 - f)) ^ 2) / 6) prolate
    let k := if prolate then kk.2 else kk.1
    0 < k ∧ kk = (if prolate then k - f * (2 - f) else k, if prolate then k else k + f * (2 - f)) ∧
    p / (k + |f * (2 - f)|) ^ 2 + q / k ^ 2 = 1 := by
  intro kk k
  obtain ⟨h1, h2⟩ := vermKk_spec (f * (2 - f)) p q he hp hq hbr
  have hkk : kk = _ := vermK_real a f p q ((p + q - (f * (2 - f)) ^ 2) / 6) prolate
  cases prolate
  · have hk : k = vermKk (f * (2 - f)) p q ((p + q - (f * (2 - f)) ^ 2) / 6) := by
      show (if false = true then kk.2 else kk.1) = _
      rw [hkk]; rfl
    rw [hk]; exact ⟨h1, hkk, h2⟩
  · have hk : k = vermKk (f * (2 - f)) p q ((p + q - (f * (2 - f)) ^ 2) / 6) := by
      show (if true = true then kk.2 else kk.1) = _
      rw [hkk]; rfl
    rw [hk]; exact ⟨h1, hkk, h2⟩

/-- non-vacuity of `vermK_spec` in the prolate, trigonometric case: `f = −1` (`e² = −3`), `p = q = 1/100` -/
example : ((-1:ℝ) * (2 - -1) ≠ 0) ∧ ¬ (((-1:ℝ) * (2 - -1)) ^ 2 * (1 / 100) = 0 ∧ (1 / 100 + 1 / 100 - ((-1:ℝ) * (2 - -1)) ^ 2) / 6 ≤ 0) := by
  constructor <;> norm_num

/--
**(a)–(d) `IntReverse` inverts `IntForward` in every branch below the far-field threshold.**  For every ellipsoid
(`a > 0`, `f < 1`: oblate, prolate, sphere) and every point `(X, Y, Z)` with `|P| ≤ maxrad` — general position on either
side of the evolute (Cardano and trigonometric branch), the rotation axis, the equatorial plane, the centre, the sphere
branch, and inside the singular disc (oblate) / singular segment (prolate) where the limiting formulas are used — the
forward image of the computed `(sin φ, cos φ, sin λ, cos λ, h)` is the point itself.
-/
theorem reverse_closes (a f maxrad X Y Z : ℝ) (ha : 0 < a) (hf : f < 1)
    (hmax : ¬ maxrad < Real.sqrt (X ^ 2 + Y ^ 2 + Z ^ 2)) :
    let E : Ell ℝ := ⟨a, f⟩
    let rv := reverse E maxrad X Y Z
    forward E rv.sphi rv.cphi rv.slam rv.clam rv.h = (X, Y, Z) := by
  intro E rv
  rw [← nested_norm] at hmax
  obtain ⟨hm, hsl, hcl⟩ := reverse_facts a f maxrad X Y Z ha hf hmax
  obtain ⟨_, hcx, hcy⟩ := lon_part X Y
  show forward (⟨a, f⟩ : Ell ℝ) (reverse (⟨a, f⟩ : Ell ℝ) maxrad X Y Z).sphi _ _ _ _ = _
  rw [forward_real, hm.clR, hm.clZ, hsl, hcl]
  exact Prod.ext hcx (Prod.ext hcy rfl)

/-- non-vacuity, trigonometric branch: `a = 1`, `f = 1/2` (`e⁴ = 9/16`), the point `(1/10, 0, 1/10)` has
`p = 1/100`, `q = 1/400`, inside the evolute -/
example : (27:ℝ) * (9 / 16) * (1 / 100) * (1 / 400) < (9 / 16 - 1 / 100 - 1 / 400) ^ 3 := by norm_num
example : forward (⟨1, 1/2⟩ : Ell ℝ) (reverse (⟨1, 1/2⟩ : Ell ℝ) 10 (1/10) 0 (1/10)).sphi (reverse (⟨1, 1/2⟩ : Ell ℝ) 10 (1/10) 0 (1/10)).cphi
    (reverse (⟨1, 1/2⟩ : Ell ℝ) 10 (1/10) 0 (1/10)).slam (reverse (⟨1, 1/2⟩ : Ell ℝ) 10 (1/10) 0 (1/10)).clam
    (reverse (⟨1, 1/2⟩ : Ell ℝ) 10 (1/10) 0 (1/10)).h = (1/10, 0, 1/10) :=
  reverse_closes 1 (1/2) 10 (1/10) 0 (1/10) (by norm_num) (by norm_num)
    (by rw [not_lt, Real.sqrt_le_iff]; norm_num)
/-- non-vacuity, prolate, inside the singular segment: `a = 1`, `f = −1`, the point `(0, 0, 1)` (`|Z| ≤ a|e²|/(1−f) = 3/2`) -/
example : forward (⟨1, -1⟩ : Ell ℝ) (reverse (⟨1, -1⟩ : Ell ℝ) 10 0 0 1).sphi (reverse (⟨1, -1⟩ : Ell ℝ) 10 0 0 1).cphi
    (reverse (⟨1, -1⟩ : Ell ℝ) 10 0 0 1).slam (reverse (⟨1, -1⟩ : Ell ℝ) 10 0 0 1).clam (reverse (⟨1, -1⟩ : Ell ℝ) 10 0 0 1).h = (0, 0, 1) :=
  reverse_closes 1 (-1) 10 0 0 1 (by norm_num) (by norm_num) (by rw [not_lt, Real.sqrt_le_iff]; norm_num)
/-- non-vacuity, the centre of a sphere -/
example : forward (⟨1, 0⟩ : Ell ℝ) (reverse (⟨1, 0⟩ : Ell ℝ) 10 0 0 0).sphi (reverse (⟨1, 0⟩ : Ell ℝ) 10 0 0 0).cphi
    (reverse (⟨1, 0⟩ : Ell ℝ) 10 0 0 0).slam (reverse (⟨1, 0⟩ : Ell ℝ) 10 0 0 0).clam (reverse (⟨1, 0⟩ : Ell ℝ) 10 0 0 0).h = (0, 0, 0) :=
  reverse_closes 1 0 10 0 0 0 (by norm_num) (by norm_num) (by rw [not_lt, Real.sqrt_le_iff]; norm_num)

/--
**(g) in every branch — far field included — the pairs handed to `Rotation` and to `atan2d` are unit vectors**, and
`cos φ ≥ 0` (seeded C07E dropped the normalisation in the sphere branch)
-/
theorem reverse_unit (a f maxrad X Y Z : ℝ) (ha : 0 < a) (hf : f < 1) (hmr : 0 ≤ maxrad) :
    let rv := reverse (⟨a, f⟩ : Ell ℝ) maxrad X Y Z
    rv.sphi ^ 2 + rv.cphi ^ 2 = 1 ∧ rv.slam ^ 2 + rv.clam ^ 2 = 1 ∧ 0 ≤ rv.cphi := by
  intro rv
  by_cases hmax : maxrad < Real.sqrt (Real.sqrt (X ^ 2 + Y ^ 2) ^ 2 + Z ^ 2)
  · obtain ⟨h1, h2, h3, _⟩ := reverse_far_facts a f maxrad X Y Z hmr hmax
    exact ⟨h1, h3, h2⟩
  · obtain ⟨hm, hsl, hcl⟩ := reverse_facts a f maxrad X Y Z ha hf hmax
    obtain ⟨hu, _, _⟩ := lon_part X Y
    refine ⟨hm.unit, ?_, hm.cpos⟩
    show (reverse (⟨a, f⟩ : Ell ℝ) maxrad X Y Z).slam ^ 2 + (reverse (⟨a, f⟩ : Ell ℝ) maxrad X Y Z).clam ^ 2 = 1
    rw [hsl, hcl]; exact hu

/-- the matrix returned by `Reverse` is a rotation matrix (orthogonal, determinant `+1`) in every branch -/
theorem reverseM_frame_isRot (a f maxrad X Y Z : ℝ) (ha : 0 < a) (hf : f < 1) (hmr : 0 ≤ maxrad) :
    IsRot (reverseM (⟨a, f⟩ : Ell ℝ) maxrad X Y Z).M := by
  obtain ⟨h1, h2, _⟩ := reverse_unit a f maxrad X Y Z ha hf hmr
  exact rotation_isRot _ _ _ _ h1 h2

theorem sind_atan2d (s c : ℝ) (h : s ^ 2 + c ^ 2 = 1) : sind (atan2d s c) = s ∧ cosd (atan2d s c) = c := by
  obtain ⟨h1, h2⟩ := arg_unit s c h
  constructor
  · show Real.sin (Complex.arg ⟨c, s⟩ * ((180 : ℕ) : ℝ) / Real.pi * Real.pi / ((180 : ℕ) : ℝ)) = s
    push_cast; rw [deg_rad]; exact h1
  · show Real.cos (Complex.arg ⟨c, s⟩ * ((180 : ℕ) : ℝ) / Real.pi * Real.pi / ((180 : ℕ) : ℝ)) = c
    push_cast; rw [deg_rad]; exact h2

/--
**(g) the matrix returned by `Reverse` is the east-north-up frame AT THE RETURNED `(lat, lon)`**, in every branch: it
equals `Rotation(sin lat°, cos lat°, sin lon°, cos lon°)` — the matrix `Forward` returns at that position
-/
theorem reverseM_frame_is_enu (a f maxrad X Y Z : ℝ) (ha : 0 < a) (hf : f < 1) (hmr : 0 ≤ maxrad) :
    let o := reverseM (⟨a, f⟩ : Ell ℝ) maxrad X Y Z
    o.M = rotation (sind o.lat) (cosd o.lat) (sind o.lon) (cosd o.lon) ∧
    o.M = (forwardM (⟨a, f⟩ : Ell ℝ) (sind o.lat) (cosd o.lat) (sind o.lon) (cosd o.lon) o.h).2 := by
  intro o
  obtain ⟨h1, h2, _⟩ := reverse_unit a f maxrad X Y Z ha hf hmr
  obtain ⟨e1, e2⟩ := sind_atan2d _ _ h1
  obtain ⟨e3, e4⟩ := sind_atan2d _ _ h2
  have : o.M = rotation (sind o.lat) (cosd o.lat) (sind o.lon) (cosd o.lon) := by
    show rotation _ _ _ _ = rotation (sind (atan2d _ _)) (cosd (atan2d _ _)) (sind (atan2d _ _)) (cosd (atan2d _ _))
    rw [e1, e2, e3, e4]
  exact ⟨this, this⟩

/-- **(g) ranges, for every input**: `|lat| ≤ 90`, `−180 < lon ≤ 180` -/
theorem reverseM_ranges (a f maxrad X Y Z : ℝ) (ha : 0 < a) (hf : f < 1) (hmr : 0 ≤ maxrad) :
    let o := reverseM (⟨a, f⟩ : Ell ℝ) maxrad X Y Z
    |o.lat| ≤ 90 ∧ -180 < o.lon ∧ o.lon ≤ 180 := by
  intro o
  obtain ⟨_, _, h3⟩ := reverse_unit a f maxrad X Y Z ha hf hmr
  have hpi := Real.pi_pos
  set rv := reverse (⟨a, f⟩ : Ell ℝ) maxrad X Y Z with hrv
  have hlat : o.lat = Complex.arg ⟨rv.cphi, rv.sphi⟩ * 180 / Real.pi := by
    show Complex.arg ⟨rv.cphi, rv.sphi⟩ * ((180 : ℕ) : ℝ) / Real.pi = _
    push_cast; rfl
  have hlon : o.lon = Complex.arg ⟨rv.clam, rv.slam⟩ * 180 / Real.pi := by
    show Complex.arg ⟨rv.clam, rv.slam⟩ * ((180 : ℕ) : ℝ) / Real.pi = _
    push_cast; rfl
  have hA : |Complex.arg ⟨rv.cphi, rv.sphi⟩| ≤ Real.pi / 2 := Complex.abs_arg_le_pi_div_two_iff.mpr h3
  have hB1 := Complex.neg_pi_lt_arg ⟨rv.clam, rv.slam⟩
  have hB2 := Complex.arg_le_pi ⟨rv.clam, rv.slam⟩
  refine ⟨?_, ?_, ?_⟩
  · rw [hlat, abs_div, abs_mul, abs_of_pos hpi, abs_of_pos (by norm_num : (0:ℝ) < 180), div_le_iff₀ hpi]
    nlinarith
  · rw [hlon, lt_div_iff₀ hpi]; nlinarith
  · rw [hlon, div_le_iff₀ hpi]; nlinarith

/-- **end to end in degrees**: `Forward` at the `(lat, lon, h)` returned by `Reverse` gives back the point (below the
far-field threshold), and both calls return the same matrix -/
theorem forwardM_reverseM (a f maxrad X Y Z : ℝ) (ha : 0 < a) (hf : f < 1) (hmr : 0 ≤ maxrad)
    (hmax : ¬ maxrad < Real.sqrt (X ^ 2 + Y ^ 2 + Z ^ 2)) :
    let E : Ell ℝ := ⟨a, f⟩
    let o := reverseM E maxrad X Y Z
    forwardM E (sind o.lat) (cosd o.lat) (sind o.lon) (cosd o.lon) o.h = ((X, Y, Z), o.M) := by
  intro E o
  obtain ⟨h1, h2, _⟩ := reverse_unit a f maxrad X Y Z ha hf hmr
  obtain ⟨e1, e2⟩ := sind_atan2d _ _ h1
  obtain ⟨e3, e4⟩ := sind_atan2d _ _ h2
  have hc := reverse_closes a f maxrad X Y Z ha hf hmax
  show (forward E (sind (atan2d _ _)) (cosd (atan2d _ _)) (sind (atan2d _ _)) (cosd (atan2d _ _)) _,
        rotation (sind (atan2d _ _)) (cosd (atan2d _ _)) (sind (atan2d _ _)) (cosd (atan2d _ _))) = _
  rw [e1, e2, e3, e4]
  exact Prod.ext hc rfl

/--
**(e) the far-field branch** (`|P| > maxrad ≥ 0`; the code sets `maxrad = 2a/ε`): the returned height is `|P|`, the
direction is the geocentric one, and the forward image of the result misses `P` by exactly the surface point, i.e. by at
most the larger semi-axis `a·max(1, 1−f)` — relative to `|P| > 2a/ε` less than `ε/2·max(1, 1−f)`
-/
theorem reverse_farfield_bound (a f maxrad X Y Z : ℝ) (ha : 0 < a) (hf : f < 1) (hmr : 0 ≤ maxrad)
    (hmax : maxrad < Real.sqrt (X ^ 2 + Y ^ 2 + Z ^ 2)) :
    let E : Ell ℝ := ⟨a, f⟩
    let rv := reverse E maxrad X Y Z
    let F := forward E rv.sphi rv.cphi rv.slam rv.clam rv.h
    rv.h = Real.sqrt (X ^ 2 + Y ^ 2 + Z ^ 2) ∧
    (F.1 - X) ^ 2 + (F.2.1 - Y) ^ 2 + (F.2.2 - Z) ^ 2 ≤ (a * max 1 (1 - f)) ^ 2 ∧
    ((F.1 - X) ^ 2 + (F.2.1 - Y) ^ 2 + (F.2.2 - Z) ^ 2) * maxrad ^ 2 ≤ (a * max 1 (1 - f)) ^ 2 * (X ^ 2 + Y ^ 2 + Z ^ 2) := by
  intro E rv F
  rw [← nested_norm] at hmax
  obtain ⟨hu, _, hl, hh, hx, hy, hz⟩ := reverse_far_facts a f maxrad X Y Z hmr hmax
  obtain ⟨hN, hA⟩ := primeVertical a f rv.sphi rv.cphi ha hf hu
  set N := a / Real.sqrt (1 - f * (2 - f) * rv.sphi ^ 2) with hNdef
  have hF : F = ((N + rv.h) * rv.cphi * rv.clam, (N + rv.h) * rv.cphi * rv.slam, ((1 - f) ^ 2 * N + rv.h) * rv.sphi) :=
    forward_real a f rv.sphi rv.cphi rv.slam rv.clam rv.h
  have d1 : F.1 - X = N * rv.cphi * rv.clam := by rw [hF]; linear_combination hx
  have d2 : F.2.1 - Y = N * rv.cphi * rv.slam := by rw [hF]; linear_combination hy
  have d3 : F.2.2 - Z = (1 - f) ^ 2 * N * rv.sphi := by rw [hF]; linear_combination hz
  have hb := surface_norm_le a f N rv.sphi rv.cphi hf hA
  have hsum : (F.1 - X) ^ 2 + (F.2.1 - Y) ^ 2 + (F.2.2 - Z) ^ 2 = (N * rv.cphi) ^ 2 + ((1 - f) ^ 2 * N * rv.sphi) ^ 2 := by
    rw [d1, d2, d3]; linear_combination ((N * rv.cphi) ^ 2) * hl
  refine ⟨hh, by rw [hsum]; exact hb, ?_⟩
  rw [hsum]
  have hP : maxrad ^ 2 ≤ X ^ 2 + Y ^ 2 + Z ^ 2 := by
    rw [nested_norm] at hmax
    have h0 : 0 ≤ X ^ 2 + Y ^ 2 + Z ^ 2 := by positivity
    have := Real.sq_sqrt h0
    nlinarith [Real.sqrt_nonneg (X ^ 2 + Y ^ 2 + Z ^ 2)]
  calc ((N * rv.cphi) ^ 2 + ((1 - f) ^ 2 * N * rv.sphi) ^ 2) * maxrad ^ 2
      ≤ (a * max 1 (1 - f)) ^ 2 * maxrad ^ 2 := mul_le_mul_of_nonneg_right hb (sq_nonneg _)
    _ ≤ (a * max 1 (1 - f)) ^ 2 * (X ^ 2 + Y ^ 2 + Z ^ 2) := mul_le_mul_of_nonneg_left hP (sq_nonneg _)

/-- non-vacuity: a point beyond `maxrad` -/
example : (10:ℝ) < Real.sqrt (100 ^ 2 + 0 ^ 2 + 0 ^ 2) := by
  rw [Real.lt_sqrt (by norm_num)]; norm_num


/--
**(f) in the far field — partial.**  Full statement one would like: the returned `h` is the distance from `P` to the ellipsoid.
That is false beyond `maxrad` by construction (`h = |P|`, the code "treats the earth as a point"); what holds, and is proved
here, is the lower half of `|h − dist(P, ellipsoid)| ≤ max(a, b)`: every point of the ellipsoid is at least
`h − a·max(1, 1−f)` away from `P` (with `maxrad = 2a/ε` that is a relative `ε/2·max(1, 1−f)` of `h`).  The upper half
(`dist ≤ h`) is not formalised.
-/
theorem reverse_farfield_height_partial (a f maxrad X Y Z : ℝ) (ha : 0 < a) (hf : f < 1) (hmr : 0 ≤ maxrad)
    (hmax : maxrad < Real.sqrt (X ^ 2 + Y ^ 2 + Z ^ 2))
    (hbig : a * max 1 (1 - f) ≤ Real.sqrt (X ^ 2 + Y ^ 2 + Z ^ 2)) :
    let rv := reverse (⟨a, f⟩ : Ell ℝ) maxrad X Y Z
    ∀ x y z : ℝ, (x ^ 2 + y ^ 2) / a ^ 2 + z ^ 2 / (a * (1 - f)) ^ 2 = 1 →
      (rv.h - a * max 1 (1 - f)) ^ 2 ≤ (X - x) ^ 2 + (Y - y) ^ 2 + (Z - z) ^ 2 := by
  intro rv x y z hQ
  obtain ⟨hh, _, _⟩ := reverse_farfield_bound a f maxrad X Y Z ha hf hmr hmax
  have hh' : rv.h = Real.sqrt (X ^ 2 + Y ^ 2 + Z ^ 2) := hh
  rw [hh']
  set M := a * max 1 (1 - f) with hM
  set p := Real.sqrt (X ^ 2 + Y ^ 2 + Z ^ 2) with hp
  have hp0 : 0 ≤ p := Real.sqrt_nonneg _
  have hp2 : p ^ 2 = X ^ 2 + Y ^ 2 + Z ^ 2 := Real.sq_sqrt (by positivity)
  have h1f : 0 < 1 - f := by linarith
  have hMa : a ≤ M := by
    have := mul_le_mul_of_nonneg_left (le_max_left (1:ℝ) (1 - f)) ha.le
    rw [hM]; linarith
  have hMb : a * (1 - f) ≤ M := mul_le_mul_of_nonneg_left (le_max_right (1:ℝ) (1 - f)) ha.le
  have hM0 : 0 < M := lt_of_lt_of_le ha hMa
  -- |Q| ≤ M
  set q := Real.sqrt (x ^ 2 + y ^ 2 + z ^ 2) with hq
  have hq0 : 0 ≤ q := Real.sqrt_nonneg _
  have hq2 : q ^ 2 = x ^ 2 + y ^ 2 + z ^ 2 := Real.sq_sqrt (by positivity)
  have hb0 : 0 < a * (1 - f) := by positivity
  have hqM : q ^ 2 ≤ M ^ 2 := by
    have ha2 : a ^ 2 ≤ M ^ 2 := pow_le_pow_left₀ ha.le hMa 2
    have hb2 : (a * (1 - f)) ^ 2 ≤ M ^ 2 := pow_le_pow_left₀ hb0.le hMb 2
    have e1 : x ^ 2 + y ^ 2 ≤ M ^ 2 * ((x ^ 2 + y ^ 2) / a ^ 2) := by
      rw [mul_div_assoc', le_div_iff₀ (by positivity)]
      have := mul_le_mul_of_nonneg_left ha2 (by positivity : (0:ℝ) ≤ x ^ 2 + y ^ 2)
      linarith
    have e2 : z ^ 2 ≤ M ^ 2 * (z ^ 2 / (a * (1 - f)) ^ 2) := by
      rw [mul_div_assoc', le_div_iff₀ (by positivity)]
      have := mul_le_mul_of_nonneg_left hb2 (sq_nonneg z)
      linarith
    have : M ^ 2 * ((x ^ 2 + y ^ 2) / a ^ 2) + M ^ 2 * (z ^ 2 / (a * (1 - f)) ^ 2) = M ^ 2 := by
      rw [← mul_add, hQ, mul_one]
    rw [hq2]; linarith
  have hqM' : q ≤ M := by
    have := abs_le_of_sq_le_sq' hqM hM0.le
    exact this.2
  -- Cauchy–Schwarz
  have hcs : (X * x + Y * y + Z * z) ^ 2 ≤ (p * q) ^ 2 := by
    rw [mul_pow, hp2, hq2]
    have lag : (X ^ 2 + Y ^ 2 + Z ^ 2) * (x ^ 2 + y ^ 2 + z ^ 2) - (X * x + Y * y + Z * z) ^ 2 =
        (X * y - Y * x) ^ 2 + (X * z - Z * x) ^ 2 + (Y * z - Z * y) ^ 2 := by ring
    linarith [sq_nonneg (X * y - Y * x), sq_nonneg (X * z - Z * x), sq_nonneg (Y * z - Z * y)]
  have hdot : X * x + Y * y + Z * z ≤ p * q := (abs_le_of_sq_le_sq' hcs (by positivity)).2
  have hexp : (X - x) ^ 2 + (Y - y) ^ 2 + (Z - z) ^ 2 = p ^ 2 - 2 * (X * x + Y * y + Z * z) + q ^ 2 := by
    rw [hp2, hq2]; ring
  rw [hexp]
  have h1 : (p - q) ^ 2 ≤ p ^ 2 - 2 * (X * x + Y * y + Z * z) + q ^ 2 := by
    have : (p - q) ^ 2 = p ^ 2 - 2 * (p * q) + q ^ 2 := by ring
    rw [this]; linarith
  have h2 : (p - M) ^ 2 ≤ (p - q) ^ 2 := pow_le_pow_left₀ (by linarith) (by linarith) 2
  linarith

/--
**(f) the height of least magnitude, forward form.**  If the point `forward(φ, λ, h)` lies on the same side of the rotation
axis and of the equatorial plane as its foot point (`N + h ≥ 0` and `(1−f)²N + h ≥ 0`, `N = a/√(1 − e² sin²φ)`), then no
point of the ellipsoid is closer to it than `|h|` (and the foot point `forward(φ, λ, 0)` is at distance exactly `|h|`,
`forward_on_normal`): `h` is the signed distance to the ellipsoid.
-/
theorem forward_height_least (a f s c sl cl h x y z : ℝ) (ha : 0 < a) (hf : f < 1)
    (hu : s ^ 2 + c ^ 2 = 1) (hl : sl ^ 2 + cl ^ 2 = 1)
    (hsR : 0 ≤ a / Real.sqrt (1 - f * (2 - f) * s ^ 2) + h)
    (hsZ : 0 ≤ (1 - f) ^ 2 * (a / Real.sqrt (1 - f * (2 - f) * s ^ 2)) + h)
    (hQ : (x ^ 2 + y ^ 2) / a ^ 2 + z ^ 2 / (a * (1 - f)) ^ 2 = 1) :
    let P := forward (⟨a, f⟩ : Ell ℝ) s c sl cl h
    h ^ 2 ≤ (P.1 - x) ^ 2 + (P.2.1 - y) ^ 2 + (P.2.2 - z) ^ 2 := by
  intro P
  obtain ⟨hN, hA⟩ := primeVertical a f s c ha hf hu
  have hm : 0 < (1 - f) ^ 2 := pow_pos (by linarith) 2
  have h1f : (1 - f) ≠ 0 := by linarith
  have hQ' : (x ^ 2 + y ^ 2) * (1 - f) ^ 2 + z ^ 2 = a ^ 2 * (1 - f) ^ 2 := by
    have := hQ; field_simp at this; linarith
  have hP : P = _ := forward_real a f s c sl cl h
  rw [hP]
  exact foot_nearest a ((1 - f) ^ 2) _ s c sl cl h x y z hm hN hu hl hA hQ' hsR hsZ

/--
**(f) `Reverse` returns the height of least magnitude** — in every branch below the far-field threshold, inside the
singular disc / segment included: no point `(x, y, z)` of the ellipsoid is closer to `(X, Y, Z)` than `|h|`, and the foot
point (the forward image of the returned `(φ, λ)` at height 0, which lies on the ellipsoid) is at distance exactly `|h|`.
-/
theorem reverse_height_least (a f maxrad X Y Z : ℝ) (ha : 0 < a) (hf : f < 1)
    (hmax : ¬ maxrad < Real.sqrt (X ^ 2 + Y ^ 2 + Z ^ 2)) :
    let E : Ell ℝ := ⟨a, f⟩
    let rv := reverse E maxrad X Y Z
    let Q0 := forward E rv.sphi rv.cphi rv.slam rv.clam 0
    (∀ x y z : ℝ, (x ^ 2 + y ^ 2) / a ^ 2 + z ^ 2 / (a * (1 - f)) ^ 2 = 1 →
      rv.h ^ 2 ≤ (X - x) ^ 2 + (Y - y) ^ 2 + (Z - z) ^ 2) ∧
    (X - Q0.1) ^ 2 + (Y - Q0.2.1) ^ 2 + (Z - Q0.2.2) ^ 2 = rv.h ^ 2 ∧
    (Q0.1 ^ 2 + Q0.2.1 ^ 2) / a ^ 2 + Q0.2.2 ^ 2 / (a * (1 - f)) ^ 2 = 1 := by
  intro E rv Q0
  have hc := reverse_closes a f maxrad X Y Z ha hf hmax
  rw [← nested_norm] at hmax
  obtain ⟨hm, hsl, hcl⟩ := reverse_facts a f maxrad X Y Z ha hf hmax
  obtain ⟨hul, _, _⟩ := lon_part X Y
  have hl : rv.slam ^ 2 + rv.clam ^ 2 = 1 := by
    show (reverse (⟨a, f⟩ : Ell ℝ) maxrad X Y Z).slam ^ 2 + (reverse (⟨a, f⟩ : Ell ℝ) maxrad X Y Z).clam ^ 2 = 1
    rw [hsl, hcl]; exact hul
  refine ⟨?_, ?_, ?_⟩
  · intro x y z hQ
    have := forward_height_least a f rv.sphi rv.cphi rv.slam rv.clam rv.h x y z ha hf hm.unit hl hm.sideR hm.sideZ hQ
    simp only [] at this
    have hc' : forward (⟨a, f⟩ : Ell ℝ) rv.sphi rv.cphi rv.slam rv.clam rv.h = (X, Y, Z) := hc
    rw [hc'] at this
    exact this
  · have hn := forward_on_normal (⟨a, f⟩ : Ell ℝ) rv.sphi rv.cphi rv.slam rv.clam rv.h
    have hc' : forward (⟨a, f⟩ : Ell ℝ) rv.sphi rv.cphi rv.slam rv.clam rv.h = (X, Y, Z) := hc
    rw [hc'] at hn
    have hX : X - Q0.1 = rv.h * (rv.cphi * rv.clam) := by have := congrArg Prod.fst hn; simp only [] at this; rw [this]; ring
    have hY : Y - Q0.2.1 = rv.h * (rv.cphi * rv.slam) := by have := congrArg (fun p => p.2.1) hn; simp only [] at this; rw [this]; ring
    have hZ : Z - Q0.2.2 = rv.h * rv.sphi := by have := congrArg (fun p => p.2.2) hn; simp only [] at this; rw [this]; ring
    rw [hX, hY, hZ]
    linear_combination (rv.h ^ 2 * rv.cphi ^ 2) * hl + (rv.h ^ 2) * hm.unit
  · have hpos : 0 < 1 - f * (2 - f) * rv.sphi ^ 2 := by
      have := hm.unit
      have hmm : 0 < (1 - f) ^ 2 := pow_pos (by linarith) 2
      have e : 1 - f * (2 - f) * rv.sphi ^ 2 = rv.cphi ^ 2 + (1 - f) ^ 2 * rv.sphi ^ 2 := by linear_combination (-1 : ℝ) * this
      rw [e]
      by_cases hs : rv.sphi = 0
      · have : rv.cphi ^ 2 = 1 := by rw [hs] at this; linarith
        rw [hs, this]; norm_num
      · have : 0 < (1 - f) ^ 2 * rv.sphi ^ 2 := by positivity
        nlinarith [sq_nonneg rv.cphi]
    exact forward_on_ellipsoid (⟨a, f⟩ : Ell ℝ) rv.sphi rv.cphi rv.slam rv.clam hm.unit hl ha.ne' (by linarith) hpos


/--
**Forward followed by Reverse is the identity** (over ℝ, on the executed model): for a unit pair `(sin φ, cos φ)` with
`cos φ ≥ 0`, a unit pair `(sin λ, cos λ)` and a height with `N + h > 0` and `(1−e²)N + h > 0` (the point lies strictly on the
near side of the rotation axis and of the equatorial plane — every `h > −min(N, (1−e²)N)`, in particular all geophysical
heights), `Reverse` applied to `Forward(φ, λ, h)` (below the far-field threshold) returns `sin φ, cos φ, h` exactly, and
`sin λ, cos λ` when `cos φ > 0` (on the axis the code returns `λ = 0`).
-/
theorem reverse_forward_id (a f maxrad s c sl cl h : ℝ) (ha : 0 < a) (hf : f < 1)
    (hu : s ^ 2 + c ^ 2 = 1) (hl : sl ^ 2 + cl ^ 2 = 1) (hc : 0 ≤ c)
    (hsR : 0 < a / Real.sqrt (1 - f * (2 - f) * s ^ 2) + h)
    (hsZ : 0 < (1 - f) ^ 2 * (a / Real.sqrt (1 - f * (2 - f) * s ^ 2)) + h)
    (hmax : ¬ maxrad < Real.sqrt ((forward (⟨a, f⟩ : Ell ℝ) s c sl cl h).1 ^ 2 + (forward (⟨a, f⟩ : Ell ℝ) s c sl cl h).2.1 ^ 2 +
      (forward (⟨a, f⟩ : Ell ℝ) s c sl cl h).2.2 ^ 2)) :
    let P := forward (⟨a, f⟩ : Ell ℝ) s c sl cl h
    let rv := reverse (⟨a, f⟩ : Ell ℝ) maxrad P.1 P.2.1 P.2.2
    rv.sphi = s ∧ rv.cphi = c ∧ rv.h = h ∧ (0 < c → rv.slam = sl ∧ rv.clam = cl) ∧ (c = 0 → rv.slam = 0 ∧ rv.clam = 1) := by
  intro P rv
  have hP : P = _ := forward_real a f s c sl cl h
  set N := a / Real.sqrt (1 - f * (2 - f) * s ^ 2) with hN
  set X := (N + h) * c * cl with hX
  set Y := (N + h) * c * sl with hY
  set Z := ((1 - f) ^ 2 * N + h) * s with hZ
  have hP1 : P.1 = X := by rw [hP]
  have hP2 : P.2.1 = Y := by rw [hP]
  have hP3 : P.2.2 = Z := by rw [hP]
  have hR : Real.sqrt (X ^ 2 + Y ^ 2) = (N + h) * c := by
    have : X ^ 2 + Y ^ 2 = ((N + h) * c) ^ 2 := by rw [hX, hY]; linear_combination (((N + h) * c) ^ 2) * hl
    rw [this, Real.sqrt_sq (mul_nonneg hsR.le hc)]
  have hmax' : ¬ maxrad < Real.sqrt (Real.sqrt (X ^ 2 + Y ^ 2) ^ 2 + Z ^ 2) := by
    rw [nested_norm]; rw [hP1, hP2, hP3] at hmax; exact hmax
  obtain ⟨hm, hsl, hcl⟩ := reverse_facts a f maxrad X Y Z ha hf hmax'
  have hrv : rv = reverse (⟨a, f⟩ : Ell ℝ) maxrad X Y Z := by
    show reverse (⟨a, f⟩ : Ell ℝ) maxrad P.1 P.2.1 P.2.2 = _
    rw [hP1, hP2, hP3]
  rw [← hrv, hR] at hm hsl hcl
  have h1 : Merid a f s c h ((N + h) * c) Z := ⟨hu, hc, rfl, rfl, hsR.le, hsZ.le⟩
  obtain ⟨e1, e2, e3⟩ := merid_unique a f s c h rv.sphi rv.cphi rv.h ((N + h) * c) Z ha hf h1 hm hsR hsZ
  refine ⟨e1, e2, e3, ?_, ?_⟩
  · intro hcpos
    have hne : (N + h) * c ≠ 0 := (mul_pos hsR hcpos).ne'
    rw [hsl, hcl, if_neg hne, if_neg hne, hX, hY]
    constructor <;> field_simp
  · intro hc0
    have hz : (N + h) * c = 0 := by rw [hc0, mul_zero]
    rw [hsl, hcl, if_pos hz, if_pos hz]
    exact ⟨rfl, rfl⟩

/-- non-vacuity: the unit sphere, `φ = 0`, `λ = 0`, `h = 1` (so `N + h = 2 > 0`) -/
example : (0:ℝ) < 1 / Real.sqrt (1 - 0 * (2 - 0) * (0:ℝ) ^ 2) + 1 := by
  rw [show (1:ℝ) - 0 * (2 - 0) * (0:ℝ) ^ 2 = 1 by norm_num, Real.sqrt_one]; norm_num

/-! ## LocalCartesian: `Reset`, the matrix-returning overloads, `Rotate`/`Unrotate` -/

/-- `Reset`: the frame of the local system is `Geocentric::Rotation` at the origin `(lat0, lon0)`, a rotation matrix;
the origin of the local system is the forward image of `(lat0, lon0, h0)` -/
theorem reset_frame (a f s c sl cl h0 : ℝ) (hu : s ^ 2 + c ^ 2 = 1) (hl : sl ^ 2 + cl ^ 2 = 1) :
    let O := reset (⟨a, f⟩ : Ell ℝ) s c sl cl h0
    O.r = rotation s c sl cl ∧ IsRot O.r ∧ (O.x0, O.y0, O.z0) = forward (⟨a, f⟩ : Ell ℝ) s c sl cl h0 := by
  intro O
  exact ⟨rfl, rotation_isRot s c sl cl hu hl, rfl⟩

/-- `MatrixMultiply(M)` replaces `M` by `rᵀ·M` -/
theorem matrixMultiply_spec (r M : List ℝ) : toMat (matrixMultiply r M) = (toMat r).transpose * toMat M :=
  toMat_matrixMultiply r M

/-- the composition of two rotations is a rotation: the matrix returned by `LocalCartesian::Forward/Reverse` is orthogonal
with determinant `+1` whenever the frame of the origin and the frame of the point are -/
theorem matrixMultiply_rotation (r M : List ℝ) (hr : IsRot r) (hM : IsRot M) : IsRot (matrixMultiply r M) :=
  matrixMultiply_isRot r M hr hM

/-- at the origin of the local system `Forward` returns `(0, 0, 0)` and the identity matrix -/
theorem localForwardM_at_origin (a f s c sl cl h0 : ℝ) (hu : s ^ 2 + c ^ 2 = 1) (hl : sl ^ 2 + cl ^ 2 = 1) :
    let E : Ell ℝ := ⟨a, f⟩
    let o := localForwardM E (reset E s c sl cl h0) s c sl cl h0
    o.1 = (0, 0, 0) ∧ toMat o.2 = 1 := by
  intro E o
  constructor
  · show localForward (reset E s c sl cl h0) _ _ _ = _
    exact local_origin (reset E s c sl cl h0)
  · exact matrixMultiply_self _ (rotation_isRot s c sl cl hu hl)

/-- the matrix returned by `LocalCartesian::Forward` is a rotation -/
theorem localForwardM_frame_isRot (E : Ell ℝ) (O : Origin ℝ) (s c sl cl h : ℝ) (hO : IsRot O.r)
    (hu : s ^ 2 + c ^ 2 = 1) (hl : sl ^ 2 + cl ^ 2 = 1) : IsRot (localForwardM E O s c sl cl h).2 :=
  matrixMultiply_isRot _ _ hO (rotation_isRot s c sl cl hu hl)

/-- the matrix returned by `LocalCartesian::Reverse` is a rotation, for every local point (every branch of the geocentric
reverse) -/
theorem localReverseM_frame_isRot (a f maxrad : ℝ) (O : Origin ℝ) (x y z : ℝ) (ha : 0 < a) (hf : f < 1) (hmr : 0 ≤ maxrad)
    (hO : IsRot O.r) : IsRot (localReverseM (⟨a, f⟩ : Ell ℝ) maxrad O x y z).M :=
  matrixMultiply_isRot _ _ hO (reverseM_frame_isRot a f maxrad _ _ _ ha hf hmr)

/-- `LocalCartesian` reverse followed by forward (around the geocentric conversions) is the identity -/
theorem local_forward_reverse (O : Origin ℝ) (x y z : ℝ) (hO : IsRot O.r) :
    let P := localReverse O x y z
    localForward O P.1 P.2.1 P.2.2 = (x, y, z) := by
  have c00 := hO.col 0 0; have c01 := hO.col 0 1; have c02 := hO.col 0 2
  have c11 := hO.col 1 1; have c12 := hO.col 1 2; have c22 := hO.col 2 2
  have c10 := hO.col 1 0; have c20 := hO.col 2 0; have c21 := hO.col 2 1
  simp at c00 c01 c02 c11 c12 c22 c10 c20 c21
  simp only [localForward, localReverse, Prod.mk.injEq]
  refine ⟨?_, ?_, ?_⟩
  · linear_combination x * c00 + y * c01 + z * c02
  · linear_combination x * c10 + y * c11 + z * c12
  · linear_combination x * c20 + y * c21 + z * c22

/-- `IntForward`'s inlined rotation is `Unrotate` of the offset from the origin, `IntReverse`'s is `Rotate` -/
theorem localForward_eq_unrotate (O : Origin ℝ) (xc yc zc : ℝ) :
    localForward O xc yc zc = unrotate O.r (xc - O.x0) (yc - O.y0) (zc - O.z0) := rfl

theorem localReverse_eq_rotate (O : Origin ℝ) (x y z : ℝ) :
    localReverse O x y z = (O.x0 + (rotate O.r x y z).1, O.y0 + (rotate O.r x y z).2.1, O.z0 + (rotate O.r x y z).2.2) := by
  simp only [localReverse, rotate, Prod.mk.injEq]
  refine ⟨?_, ?_, ?_⟩ <;> ring

/-- `Unrotate` undoes `Rotate` and conversely, for a rotation matrix -/
theorem unrotate_rotate (M : List ℝ) (x y z : ℝ) (hM : IsRot M) :
    let v := rotate M x y z
    unrotate M v.1 v.2.1 v.2.2 = (x, y, z) := by
  have h := local_forward_reverse ⟨0, 0, 0, M⟩ x y z hM
  simp only [localForward, localReverse, zero_add, sub_zero] at h
  simpa only [rotate, unrotate] using h

theorem rotate_unrotate (M : List ℝ) (X Y Z : ℝ) (hM : IsRot M) :
    let v := unrotate M X Y Z
    rotate M v.1 v.2.1 v.2.2 = (X, Y, Z) := by
  have r00 := hM.row 0 0; have r01 := hM.row 0 1; have r02 := hM.row 0 2
  have r11 := hM.row 1 1; have r12 := hM.row 1 2; have r22 := hM.row 2 2
  have r10 := hM.row 1 0; have r20 := hM.row 2 0; have r21 := hM.row 2 1
  simp at r00 r01 r02 r11 r12 r22 r10 r20 r21
  simp only [rotate, unrotate, Prod.mk.injEq]
  refine ⟨?_, ?_, ?_⟩
  · linear_combination X * r00 + Y * r01 + Z * r02
  · linear_combination X * r10 + Y * r11 + Z * r12
  · linear_combination X * r20 + Y * r21 + Z * r22

/--
**`LocalCartesian::Forward` inverts `LocalCartesian::Reverse`, matrices included**: for a local system whose frame is a
rotation (e.g. any `reset`), and a local point whose geocentric image is below the far-field threshold, `Forward` at the
`(lat, lon, h)` returned by `Reverse` gives back `(x, y, z)` and the same matrix.
-/
theorem localForwardM_reverseM (a f maxrad : ℝ) (O : Origin ℝ) (x y z : ℝ) (ha : 0 < a) (hf : f < 1) (hmr : 0 ≤ maxrad)
    (hO : IsRot O.r)
    (hmax : ¬ maxrad < Real.sqrt ((localReverse O x y z).1 ^ 2 + (localReverse O x y z).2.1 ^ 2 + (localReverse O x y z).2.2 ^ 2)) :
    let E : Ell ℝ := ⟨a, f⟩
    let o := localReverseM E maxrad O x y z
    localForwardM E O (sind o.lat) (cosd o.lat) (sind o.lon) (cosd o.lon) o.h = ((x, y, z), o.M) := by
  intro E o
  set P := localReverse O x y z with hP
  have h1 := forwardM_reverseM a f maxrad P.1 P.2.1 P.2.2 ha hf hmr hmax
  simp only [forwardM, Prod.mk.injEq] at h1
  obtain ⟨hpos, hM⟩ := h1
  have hlr := local_forward_reverse O x y z hO
  simp only [] at hlr
  show (localForward O (forward E _ _ _ _ _).1 (forward E _ _ _ _ _).2.1 (forward E _ _ _ _ _).2.2,
        matrixMultiply O.r (rotation _ _ _ _)) = _
  have hpos' : forward E (sind o.lat) (cosd o.lat) (sind o.lon) (cosd o.lon) o.h = (P.1, P.2.1, P.2.2) := hpos
  have hM' : rotation (sind o.lat) (cosd o.lat) (sind o.lon) (cosd o.lon) = (reverseM E maxrad P.1 P.2.1 P.2.2).M := hM
  rw [hpos', hM']
  exact Prod.ext hlr rfl

/-- non-vacuity: the frame of a `reset` at the north pole of the unit sphere satisfies the hypotheses (`IsRot`) -/
example : IsRot (reset (⟨1, 0⟩ : Ell ℝ) 1 0 0 1 0).r := (reset_frame 1 0 1 0 0 1 0 (by norm_num) (by norm_num)).2.1

end GeoVerif.Props.C07
