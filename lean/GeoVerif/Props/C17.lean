import GeoVerif.Model.VPTree
import GeoVerif.Model.GeodProj
import GeoVerif.Model.IntersectFix
import GeoVerif.Spec.RealInst
import GeoVerif.Proofs.VPTree
import GeoVerif.Proofs.VPTreeInit
import GeoVerif.Proofs.IntersectCover
import Mathlib.Tactic.Ring
import Mathlib.Tactic.LinearCombination
import Mathlib.Tactic.FieldSimp
import Mathlib.Tactic.Positivity
import Mathlib.Tactic.Linarith
/-!
# C17 — constructions built on geodesics

* Nearest neighbour: `search_is_bruteforce` (the vantage-point-tree search of `Model/VPTree.lean` — the same definitions
  the driver executes against `NearestNeighbor::Search` — returns exactly the `k` smallest distances a brute-force scan
  of the window `(mindist, maxdist]` finds, for every metric, tree satisfying `TreeInv`, query and `k`), its
  ingredients, `checkInv_sound`, `save_load_roundtrip`, `load_rejects`, `load_is_forest`; `init_establishes_inv` (the
  tree `Initialize` builds satisfies `TreeInv`, for every `nth_element` meeting its post-condition) and the end-to-end
  `nearest_neighbor_correct` (`Search ∘ Initialize` = brute force, no hypothesis on the tree).
* Projections: exact-real theorems about the wrapper formulas of `Model/GeodProj.lean` around an arbitrary geodesic
  kernel.
* `Intersect`: theorems about the kernel-parametric model `Model/IntersectSearch.lean` of the search bookkeeping (`Basic`'s
  iteration skeleton, `ClosestInt`, `NextInt`, `SegmentInt`, `AllInt0`, the `XPoint` comparators) — the same definitions
  the driver executes on the kernel values of the real object — for *every* kernel: what the comparators are, what each
  search returns relative to the kernel's answers, and completeness under a stated contract of `Basic` (the covering
  argument).  The start tables `ix`, `iy` and `numit_` are those of the current source (`Gen/IntersectC.lean`).
-/
namespace GeoVerif.Props.C17
open GeoVerif GeoVerif.GeodProj

/-! ## azimuthal equidistant -/

/-- the projected point lies at distance `s12` from the origin (for a unit direction vector) -/
theorem azeq_radius (K : Kern ℝ) (eps : ℝ) (h : K.salp1 ^ 2 + K.calp1 ^ 2 = 1) :
    (azeqForward K eps).x ^ 2 + (azeqForward K eps).y ^ 2 = K.s12 ^ 2 := by
  simp only [azeqForward]
  linear_combination (K.s12 ^ 2) * h

/-- … in the direction of the azimuth at the centre; the returned azimuth is the geodesic's azimuth at the point -/
theorem azeq_direction (K : Kern ℝ) (eps : ℝ) :
    (azeqForward K eps).x = K.s12 * K.salp1 ∧ (azeqForward K eps).y = K.s12 * K.calp1 ∧ (azeqForward K eps).azi = K.azi2 := by
  simp only [azeqForward]
  exact ⟨by ring, by ring, trivial⟩

/-- reciprocal azimuthal scale: `m12/s12`, and 1 in the limit of coincident points -/
theorem azeq_rk (K : Kern ℝ) (eps : ℝ) :
    (azeqForward K eps).rk = if K.sig ≤ eps ∨ K.s12 = 0 then 1 else K.m12 / K.s12 := by
  simp [azeqForward, azeqRk, ofNat_real]

/-- `atan2d` over the reals: `atan2(x, y)` in degrees -/
noncomputable def atan2dR (x y : ℝ) : ℝ := RealLike.atan2 x y * 180 / Real.pi

/-- `Reverse ∘ Forward = id` up to the kernel contract: for a point at distance `s12 > 0` and azimuth `azi1 ∈ (−180, 180]`
    (degrees) the arguments `Reverse` hands to `Direct` are exactly `(azi1, s12)`, so whenever `Direct(azi1, s12)`
    returns the end point of the geodesic `Inverse` described, `Reverse(Forward(p)) = p` -/
theorem azeq_reverse_forward (K : Kern ℝ) (eps azi1 : ℝ) (hs : 0 < K.s12) (h1 : -180 < azi1) (h2 : azi1 ≤ 180)
    (hsin : K.salp1 = Real.sin (azi1 * Real.pi / 180)) (hcos : K.calp1 = Real.cos (azi1 * Real.pi / 180)) :
    azeqReverseArgs atan2dR (azeqForward K eps).x (azeqForward K eps).y = (azi1, K.s12) := by
  have hpi := Real.pi_pos
  set θ := azi1 * Real.pi / 180 with hθ
  have hθ1 : -Real.pi < θ := by rw [hθ]; nlinarith
  have hθ2 : θ ≤ Real.pi := by rw [hθ]; nlinarith
  simp only [azeqReverseArgs, azeqForward, atan2dR, Prod.mk.injEq]
  constructor
  · have harg : Complex.arg ⟨K.calp1 * K.s12, K.salp1 * K.s12⟩ = θ := by
      have : (⟨K.calp1 * K.s12, K.salp1 * K.s12⟩ : ℂ) = (K.s12 : ℂ) * (Complex.cos (θ : ℂ) + Complex.sin (θ : ℂ) * Complex.I) := by
        apply Complex.ext
        · simp [hcos, ← Complex.ofReal_cos, ← Complex.ofReal_sin, mul_comm]
        · simp [hsin, ← Complex.ofReal_cos, ← Complex.ofReal_sin, mul_comm]
      rw [this]
      exact Complex.arg_mul_cos_add_sin_mul_I hs ⟨hθ1, hθ2⟩
    show Complex.arg ⟨K.calp1 * K.s12, K.salp1 * K.s12⟩ * 180 / Real.pi = azi1
    rw [harg, hθ]
    field_simp
  · rw [hypot_real]
    have : (K.salp1 * K.s12) ^ 2 + (K.calp1 * K.s12) ^ 2 = K.s12 ^ 2 := by
      have h := Real.sin_sq_add_cos_sq θ
      rw [hsin, hcos]; linear_combination (K.s12 ^ 2) * h
    rw [this, Real.sqrt_sq hs.le]

/-! ## gnomonic -/

/-- `x = y = NaN` exactly beyond the horizon (`M12 ≤ 0`) -/
theorem gnom_nan_iff (K : Kern ℝ) : gnomForwardXY K = none ↔ K.M12 ≤ 0 := by
  simp only [gnomForwardXY, leb_real, ofNat_real, Nat.cast_zero]
  by_cases h : K.M12 ≤ 0 <;> simp [h]

/-- inside the horizon the point lies at radius `ρ = m12/M12` along the azimuth at the centre -/
theorem gnom_radius (K : Kern ℝ) (hM : 0 < K.M12) (h : K.salp1 ^ 2 + K.calp1 ^ 2 = 1) :
    ∃ x y, gnomForwardXY K = some (x, y) ∧ x = K.m12 / K.M12 * K.salp1 ∧ y = K.m12 / K.M12 * K.calp1 ∧
      x ^ 2 + y ^ 2 = (K.m12 / K.M12) ^ 2 := by
  refine ⟨K.salp1 * (K.m12 / K.M12), K.calp1 * (K.m12 / K.M12), ?_, by ring, by ring, ?_⟩
  · simp [gnomForwardXY, ofNat_real, not_le.mpr hM]
  · linear_combination ((K.m12 / K.M12) ^ 2) * h

/-- the returned scale and azimuth are those of the geodesic -/
theorem gnom_rk_azi (K : Kern ℝ) : (gnomForward K).rk = K.M12 ∧ (gnomForward K).azi = K.azi2 := by
  unfold gnomForward; split <;> exact ⟨rfl, rfl⟩

/-- the Newton iteration of `Reverse` is stationary exactly at solutions of the defining equation `ρ = m/M`
    (and of `1/ρ = M/m` in the far branch) -/
theorem gnom_newton_fixed (rho m M : ℝ) (hM : M ≠ 0) (hm : m ≠ 0) :
    (gnomNewtonDs true rho m M = 0 ↔ rho = m / M) ∧ (gnomNewtonDs false rho m M = 0 ↔ rho = M / m) := by
  simp only [gnomNewtonDs, if_true, Bool.false_eq_true, if_false, mul_eq_zero, hM, hm, or_false]
  constructor
  · rw [eq_div_iff hM]; constructor <;> intro h <;> linarith
  · rw [eq_div_iff hm]; constructor <;> intro h <;> linarith

/-! ## Cassini–Soldner: the sign cases of the wrapper -/

/-- `x` is half the length of the symmetric geodesic `(lat, −|dlon|) → (lat, |dlon|)` (i.e. the distance from the central
    meridian, which that geodesic crosses at right angles by symmetry), negative to the west -/
theorem cass_x (dlon sig12 s12 azi1 azi2 da : ℝ) (neg : Bool) :
    (cassForwardXA dlon neg sig12 s12 azi1 azi2 da).1 = if neg then -(s12 / 2) else s12 / 2 := by
  have hhalf : (RealLike.ofDec 5 1 : ℝ) = 1 / 2 := by show ((5 : ℕ) : ℝ) / 10 ^ 1 = 1 / 2; norm_num
  cases neg <;> simp [cassForwardXA, hhalf] <;> ring

/-- mirror symmetry in the central meridian: `x ↦ −x`, and the azimuths of the two mirror images are those at the two ends
    of the same symmetric geodesic -/
theorem cass_mirror (dlon sig12 s12 azi1 azi2 da : ℝ) (hs : s12 ≠ 0) :
    (cassForwardXA dlon true sig12 s12 azi1 azi2 da).1 = -(cassForwardXA dlon false sig12 s12 azi1 azi2 da).1 ∧
    (cassForwardXA dlon true sig12 s12 azi1 azi2 da).2.1 = azi1 ∧ (cassForwardXA dlon false sig12 s12 azi1 azi2 da).2.1 = azi2 := by
  have hhalf : (RealLike.ofDec 5 1 : ℝ) = 1 / 2 := by show ((5 : ℕ) : ℝ) / 10 ^ 1 = 1 / 2; norm_num
  simp [cassForwardXA, hhalf, ofNat_real, hs]

/-- on the central meridian (`s12 = 0`) the returned azimuth is `±90° ∓ da` resp. `±90° ± da`: east for `|dlon| ≤ 90`, west
    on the far side of the pole -/
theorem cass_on_meridian (dlon sig12 azi1 azi2 da : ℝ) (neg : Bool) :
    (cassForwardXA dlon neg sig12 0 azi1 azi2 da).2.1 =
      (if |dlon| ≤ 90 then (if neg then 90 - da else 90 + da) else (if neg then -90 - da else -90 + da)) := by
  by_cases h : |dlon| ≤ 90 <;> cases neg <;> simp [cassForwardXA, ofNat_real, h]

/-! ## Intersect: the closed-form helpers -/
open GeoVerif.IntersectFix

/-- `fixcoincident` moves an intersection `p` of coincident geodesics (orientation `c = ±1`) along the line of coincident
    intersections `{p + (t, c t)}` to the point centred on `p0` (`Δx = −c Δy`), which minimises the documented L1 distance
    to `p0` among all points of that line -/
theorem fixcoincident_spec (p0 p : XP ℝ) (c : Int) (hc : c = 1 ∨ c = -1) :
    (fixcoincident p0 p c).y - p.y = c * ((fixcoincident p0 p c).x - p.x) ∧
    (fixcoincident p0 p c).x - p0.x = -(c * ((fixcoincident p0 p c).y - p0.y)) ∧
    (fixcoincident p0 p c).c = p.c ∧
    ∀ t : ℝ, |(fixcoincident p0 p c).x - p0.x| + |(fixcoincident p0 p c).y - p0.y| ≤ |p.x + t - p0.x| + |p.y + c * t - p0.y| := by
  rcases hc with rfl | rfl
  · simp only [fixcoincident, ofC, ofNat_real]
    norm_num
    refine ⟨by ring, ?_⟩
    intro t
    rcases abs_cases (p.x + (p0.x + p0.y - (p.x + p.y)) / 2 - p0.x) with h1 | h1 <;>
    rcases abs_cases (p.y + (p0.x + p0.y - (p.x + p.y)) / 2 - p0.y) with h2 | h2 <;>
    rcases abs_cases (p.x + t - p0.x) with h3 | h3 <;>
    rcases abs_cases (p.y + t - p0.y) with h4 | h4 <;> linarith [h1.1, h2.1, h3.1, h4.1]
  · simp only [fixcoincident, ofC, ofNat_real]
    norm_num
    refine ⟨by ring, ?_⟩
    intro t
    rcases abs_cases (p.x + (p0.x + -p0.y - (p.x + -p.y)) / 2 - p0.x) with h1 | h1 <;>
    rcases abs_cases (p.y + -((p0.x + -p0.y - (p.x + -p.y)) / 2) - p0.y) with h2 | h2 <;>
    rcases abs_cases (p.x + t - p0.x) with h3 | h3 <;>
    rcases abs_cases (p.y + -t - p0.y) with h4 | h4 <;> linarith [h1.1, h2.1, h3.1, h4.1]

/-- the documented segment indicator `3 kx + ky` vanishes exactly when the intersection lies within both segments -/
theorem segmentmode_zero_iff (sx sy : ℝ) (p : XP ℝ) :
    segmentmode sx sy p = 0 ↔ (0 ≤ p.x ∧ p.x ≤ sx) ∧ (0 ≤ p.y ∧ p.y ≤ sy) := by
  simp only [segmentmode, ltb_real, leb_real, ofNat_real, decide_eq_true_eq, Nat.cast_zero]
  by_cases h1 : p.x < 0 <;> by_cases h2 : p.x ≤ sx <;> by_cases h3 : p.y < 0 <;> by_cases h4 : p.y ≤ sy <;>
    simp [h1, h2, h3, h4] <;> (try constructor) <;> (try linarith)


/-! ## Intersect: the constants and tables of the current source -/
open GeoVerif.IntersectSearch

/-- the defining expressions extracted from the current `Intersect.cpp` are the ones the model uses: pruning thresholds
    `2 t1 − d − δ` (Closest: `d = _d1`, Next: `_d2`, All: `d3`), early-exit radius `_t1`, corner exclusion radius `2 _t1`,
    `maxdistx = maxdist + δ`, `_d1 = _t2/2`, `_d2 = 2 _t3/3`, `_d3 = _t4 − δ`, the constructor's check
    `_d1 < _d3 ∧ _d2 < _d3 ∧ _d2 < 2 _t1`, `_eps = 3 ε`, `_tol = d ε^(3/4)`, `δ = d ε^(1/5)`; five starts for Closest, eight for
    Next, a positive iteration cap -/
theorem intersect_constants_of_source :
    Gen.IntersectC.closestSkip = [2, -1, -1] ∧ Gen.IntersectC.nextSkip = [2, -1, -1] ∧ Gen.IntersectC.allSkip = [2, -1, -1] ∧
    Gen.IntersectC.closestStop = [1] ∧ Gen.IntersectC.segCorner = [2] ∧ Gen.IntersectC.allMaxdistx = [1, 1] ∧
    Gen.IntersectC.d1def = [1 / 2] ∧ Gen.IntersectC.d2def = [2 / 3] ∧ Gen.IntersectC.d3def = [1, -1] ∧
    Gen.IntersectC.ctorChecks = [([0, 1, 0, 0], [0, 0, 0, 1]), ([0, 0, 1, 0], [0, 0, 0, 1]), ([0, 0, 1, 0], [2, 0, 0, 0])] ∧
    Gen.IntersectC.epsMul = 3 ∧ Gen.IntersectC.tolExp = 3 / 4 ∧ Gen.IntersectC.deltaExp = 1 / 5 ∧
    Gen.IntersectC.closestIx.length = 5 ∧ Gen.IntersectC.closestIy.length = 5 ∧
    Gen.IntersectC.nextIx.length = 8 ∧ Gen.IntersectC.nextIy.length = 8 ∧ 0 < Gen.IntersectC.numit := by
  decide +kernel

/-- the first start of `ClosestInt` is `p0` itself and the eight starts of `NextInt` all lie at L1 distance `2 d2` from the
    origin (so the origin's own tile is never a start) -/
theorem intersect_start_tables :
    (Gen.IntersectC.closestIx.head?, Gen.IntersectC.closestIy.head?) = (some 0, some 0) ∧
    ((Gen.IntersectC.nextIx.zip Gen.IntersectC.nextIy).all fun o => o.1.natAbs + o.2.natAbs == 2) = true := by
  decide

/-! ## Intersect: the `XPoint` comparators -/

/-- **incomparability of `SetComp::operator()` is `SetComp::eq`** (the tolerance relation `Dist(p, q) ≤ δ`), for the repaired
    comparator (d3a4710) … -/
theorem setcomp_incomparable_iff_eq (δ : ℝ) (hδ : 0 ≤ δ) (p q : XP ℝ) :
    (clt δ p q = false ∧ clt δ q p = false) ↔ ceq δ p q = true := clt_incomparable_iff δ hδ p q

/-- … and for the comparator before the repair: what finding F58 was about is *transitivity*, not the equivalence -/
theorem setcomp_old_incomparable_iff_eq (δ : ℝ) (hδ : 0 ≤ δ) (p q : XP ℝ) :
    (cltOld δ p q = false ∧ cltOld δ q p = false) ↔ ceq δ p q = true := cltOld_incomparable_iff δ hδ p q

/-- `RankPoint` refines the distance from `p0`: what `std::sort` is given is a lexicographic order on `(Dist, x, y)` -/
theorem rankpoint_refines_dist (p0 p q : XP ℝ) :
    (rlt p0 p q = true → dist p p0 ≤ dist q p0) ∧ (rlt p0 p q = false → dist q p0 ≤ dist p p0) :=
  ⟨rlt_key_le p0 p q, rlt_false_key_le p0 p q⟩

/--
**The repaired `SetComp` is a strict weak order, with `SetComp::eq` as its incomparability, on every point set `S` that is
`Consistent`**: "x within δ" and "L1 within δ" are transitive on `S` and, inside a class of x-close points, the δ-classes are
convex in `y`.  Irreflexive, asymmetric, transitive, and incomparability (= `eq`, previous theorem) is transitive.
(This is what `std::set<XPoint, SetComp>` needs of its comparator; it is the hypothesis of `all_duplicate_free`.)
-/
theorem setcomp_strict_weak_order (δ : ℝ) (hδ : 0 ≤ δ) (S : XP ℝ → Prop) (hS : Consistent δ S) :
    (∀ p, clt δ p p = false) ∧ (∀ p q, clt δ p q = true → clt δ q p = false) ∧
    (∀ p q r, S p → S q → S r → clt δ p q = true → clt δ q r = true → clt δ p r = true) ∧
    (∀ p q r, S p → S q → S r → ceq δ p q = true → ceq δ q r = true → ceq δ p r = true) :=
  ⟨clt_irrefl δ hδ, clt_asymm δ, fun _ _ _ hp hq hr => clt_trans_on hS hp hq hr, fun _ _ _ hp hq hr => ceq_trans_on hS hp hq hr⟩

/-- a sufficient, easily checked condition: every coordinate difference within `S` is either at most `η` or larger than
    `δ + η`, with `2 η ≤ δ` (intersections known to `η`, distinct ones separated by more than `δ + η` in each coordinate in which
    they differ at all — e.g. the lattice of intersections of two great circles, or the intersections `(x₀ ± ε, y_k)` of a line
    through a pole with a closed geodesic, the configuration of finding F58) -/
theorem setcomp_consistent_of_gapped (δ η : ℝ) (hη : 0 ≤ η) (h2 : 2 * η ≤ δ) (S : XP ℝ → Prop) (hg : Gapped δ η S) :
    Consistent δ S := gapped_consistent hη h2 hg

/-- the three points of the next two statements, `δ = 10`, `η = 1` -/
def exP : XP ℝ := ⟨1, 0, 0⟩
def exQ : XP ℝ := ⟨0, 1, 0⟩
noncomputable def exR : XP ℝ := ⟨1 / 2, 100, 0⟩
def exS (p : XP ℝ) : Prop := p = exP ∨ p = exQ ∨ p = exR

/-- non-vacuity: `{(1, 0), (0, 1), (1/2, 100)}` is gapped for `δ = 10`, `η = 1` -/
theorem exS_gapped : Gapped 10 1 exS := by
  intro p q hp hq
  rcases hp with rfl | rfl | rfl <;> rcases hq with rfl | rfl | rfl <;> norm_num [exP, exQ, exR, abs_le]

/--
**The comparator before d3a4710 was not a strict weak order even on such a set**: on `{P, Q, R}` (x-coordinates equal to
round-off, the configuration of finding F58) it has `P ~ Q` (equal in the sense of `eq`), `Q < R` and `R < P`: an element
equivalent to `Q` compares the other way round — `set::find` misses existing members.  The repaired comparator orders the
same three points consistently (`P ~ Q`, `P < R`, `Q < R`).
-/
theorem setcomp_old_not_strict_weak_order :
    ceq 10 exP exQ = true ∧ cltOld 10 exQ exR = true ∧ cltOld 10 exR exP = true ∧
    (ceq 10 exP exQ = true ∧ clt 10 exP exR = true ∧ clt 10 exQ exR = true ∧ clt 10 exR exP = false) := by
  refine ⟨?_, ?_, ?_, ?_, ?_, ?_, ?_⟩
  · rw [ceq_iff, dist_real]; norm_num [exP, exQ, abs_le]
  · rw [cltOld_iff, dist_real]; norm_num [exQ, exR]
  · rw [cltOld_iff, dist_real]; norm_num [exP, exR]
  · rw [ceq_iff, dist_real]; norm_num [exP, exQ, abs_le]
  · rw [clt_iff, dist_real]; norm_num [exP, exR]
  · rw [clt_iff, dist_real]; norm_num [exQ, exR]
  · rw [← Bool.not_eq_true, clt_iff, dist_real]; norm_num [exP, exR]

/--
**The repaired comparator is still not transitive on arbitrary point sets** (residual weakness, not reachable from the
sampled geometries): for `δ = 10` the pairwise distinct points `(12, 0)`, `(6, 50)`, `(0, 100)` form a cycle
`p < q < r < p` — their x-coordinates differ by more than `δ/2` but less than `δ` from one to the next.  `Consistent` excludes it.
-/
theorem setcomp_not_transitive_in_general :
    clt 10 (⟨12, 0, 0⟩ : XP ℝ) ⟨6, 50, 0⟩ = true ∧ clt 10 (⟨6, 50, 0⟩ : XP ℝ) ⟨0, 100, 0⟩ = true ∧
    clt 10 (⟨0, 100, 0⟩ : XP ℝ) ⟨12, 0, 0⟩ = true := by
  refine ⟨?_, ?_, ?_⟩ <;> rw [clt_iff, dist_real] <;> norm_num

/-! ## Intersect: `Basic`'s iteration skeleton -/

/-- `Basic` calls the kernel at least once and at most `numit_` times; if it stops before the cap then either a coincidence
    was flagged (`c ≠ 0`) or the last Newton step was within the tolerance — for every kernel `Spherical` -/
theorem basic_converged_unless_capped (sph : XP ℝ → XP ℝ) (tol : ℝ) (p0 : XP ℝ) :
    (basic sph tol p0).2 ≤ Gen.IntersectC.numit ∧
    ((basic sph tol p0).2 < Gen.IntersectC.numit →
      (basic sph tol p0).1.c ≠ 0 ∨ ∃ q, (basic sph tol p0).1 = XP.add q (sph q) ∧ dist0 (sph q) ≤ tol) := by
  obtain ⟨h1, _, h3⟩ := basicLoop_spec sph tol Gen.IntersectC.numit p0 0
  exact ⟨by simpa [basic] using h1, fun h => h3 (by simpa [basic] using h)⟩

/-- the oscillating kernel of the next theorem: the Newton step flips between `x = 0` and `x = 1` -/
noncomputable def oscSph (q : XP ℝ) : XP ℝ := ⟨1 - 2 * q.x, 0, 0⟩

theorem oscLoop (tol : ℝ) (ht : tol < 1) : ∀ (fuel n : Nat) (q : XP ℝ), q.c = 0 → q.y = 0 → (q.x = 0 ∨ q.x = 1) →
    (basicLoop oscSph tol fuel q n).2 = n + fuel ∧ (basicLoop oscSph tol fuel q n).1.c = 0 ∧
    (basicLoop oscSph tol fuel q n).1.y = 0 ∧ ((basicLoop oscSph tol fuel q n).1.x = 0 ∨ (basicLoop oscSph tol fuel q n).1.x = 1) := by
  intro fuel
  induction fuel with
  | zero => intro n q hc hy hx; exact ⟨rfl, hc, hy, hx⟩
  | succ k ih =>
    intro n q hc hy hx
    simp only [basicLoop]
    have hstep : dist0 (oscSph q) = 1 := by
      rcases hx with h | h <;> simp [dist0_real, oscSph, h] <;> norm_num
    have hc1 : (XP.add q (oscSph q)).c = 0 := by simp [XP.add, oscSph, hc]
    have hc2 : RealLike.ltb tol (dist0 (oscSph q)) = true := by rw [hstep]; simp [ht]
    have hcont : ((XP.add q (oscSph q)).c != 0 || !RealLike.ltb tol (dist0 (oscSph q))) = false := by
      rw [hc1, hc2]; rfl
    rw [hcont]
    simp only [Bool.false_eq_true, if_false]
    obtain ⟨a, b, c, d⟩ := ih (n + 1) (XP.add q (oscSph q)) (by simp [XP.add, oscSph, hc]) (by simp [XP.add, oscSph, hy])
      (by rcases hx with h | h <;> simp [XP.add, oscSph, h] <;> norm_num)
    exact ⟨by omega, b, c, d⟩

/--
**`Basic` can fail silently** (the mechanism of finding F57): there is a kernel for which the iteration runs into the cap
`numit_` and returns a point with `c = 0` from which the next Newton step is still larger than the tolerance — nothing in the
returned `XPoint` distinguishes it from a converged intersection (`GEOGRAPHICLIB_PANIC` is `false` for `double`).  The number
of kernel calls (`NumInverse`) is the only trace; the harness uses it to tag such queries (`basic-not-converged`).
-/
theorem basic_can_fail_silently : ∃ (sph : XP ℝ → XP ℝ) (tol : ℝ) (p0 : XP ℝ),
    (basic sph tol p0).2 = Gen.IntersectC.numit ∧ (basic sph tol p0).1.c = 0 ∧ tol < dist0 (sph (basic sph tol p0).1) := by
  refine ⟨oscSph, 1 / 2, ⟨0, 0, 0⟩, ?_⟩
  obtain ⟨a, b, c, d⟩ := oscLoop (1 / 2) (by norm_num) Gen.IntersectC.numit 0 ⟨0, 0, 0⟩ rfl rfl (Or.inl rfl)
  refine ⟨by simpa [basic] using a, b, ?_⟩
  have : dist0 (oscSph (basic oscSph (1 / 2) ⟨0, 0, 0⟩).1) = 1 := by
    show dist0 (oscSph (basicLoop oscSph (1 / 2) Gen.IntersectC.numit ⟨0, 0, 0⟩ 0).1) = 1
    rcases d with h | h <;> (simp only [dist0_real, oscSph]; rw [h]; norm_num)
  rw [this]; norm_num

/-! ## Intersect: `ClosestInt` -/

/--
**`Closest` returns a kernel answer that minimises the distance from `p0` among the answers of the starts it visited**, for every
kernel `Basic` and every `p0`, up to the equality tolerance: the result is `fixcoincident(p0, Basic(s))` for a visited start
`s`; every visited start is one of the five of the table; and for every visited start `s`
`Dist(result, p0) ≤ Dist(fixcoincident(p0, Basic(s)), p0) + δ` (the `δ` is the price of `_comp.eq(q, qx)`, which discards an
answer in the δ-class of the best point before comparing distances; after the early exit `Dist < _t1` the earlier answers are
at least `_t1` away).  The result is never the unset (NaN) point.
-/
theorem closest_minimal_among_visited (C : Consts ℝ) (hδ : 0 ≤ C.delta) (basic : XP ℝ → XP ℝ) (p0 : XP ℝ) :
    ∃ b, (closestInt C basic p0).q = some b ∧
      (∃ s ∈ (closestInt C basic p0).visited, b = fixc p0 (basic s)) ∧
      (∀ s ∈ (closestInt C basic p0).visited, s ∈ closestStarts C p0 ∧ dist b p0 ≤ dist (fixc p0 (basic s)) p0 + C.delta) := by
  obtain ⟨post, hvis, hsome⟩ := closestInt_spec C hδ basic p0
  have hne : closestStarts C p0 ≠ [] := by
    simp [closestStarts, offsets, Gen.IntersectC.closestIx, Gen.IntersectC.closestIy]
  cases hq : (closestInt C basic p0).q with
  | none => exact absurd hq (hsome hne)
  | some b =>
    refine ⟨b, rfl, post.isans b hq, fun s hs => ⟨hvis s hs, ?_⟩⟩
    obtain ⟨b', hb', hm⟩ := post.min s hs
    rw [hq] at hb'; cases hb'; exact hm

/--
**Completeness of `Closest` under the contract of `Basic`** (the covering argument).  Let `I` be the set of intersections and
suppose the kernel never reports coincidence, every answer is within `ε ≤ δ` of an intersection, distinct intersections are at
least `2 _t1` apart (L1), and a start within `_d1` (the tile radius; the constructor checks `_d1 < _d3 = _t4 − δ`, `_t4` being
the capture radius) of an intersection converges to it.  Then the returned point is within `ε` of an intersection and **no
intersection within `2 _d1 = _t2` of `p0` is closer to `p0` than the returned point by more than `ε + δ`** — whatever the
pruning flags skipped and whether or not the loop left early.  (The five starts of the table of the current source cover the
L1 ball of radius `2 _d1`: `closestStarts_cover`.)
-/
theorem closest_complete (C : Consts ℝ) (basic : XP ℝ → XP ℝ) (p0 : XP ℝ) (I : XP ℝ → Prop) (ε : ℝ)
    (hδ : 0 ≤ C.delta) (hεδ : ε ≤ C.delta) (K : Contract C basic I ε C.d1) :
    ∃ b, (closestInt C basic p0).q = some b ∧ (∃ a, I a ∧ dist b a ≤ ε) ∧
      ∀ a, I a → dist a p0 ≤ 2 * C.d1 → dist b p0 ≤ dist a p0 + ε + C.delta :=
  closestInt_complete' C basic p0 I ε hδ hεδ K

/-! ## Intersect: `NextInt` -/

/--
**`Next` returns a candidate of minimal L1 norm among the candidates of the starts it visited, the origin class excluded**, for
every kernel: the result is the initial `(big, 0)` (`big` = ∞ in the code: nothing found) or a candidate of a visited start;
it is not farther from the origin than any candidate of any visited start; the candidates of a start (`candsOf`) are: nothing
if `Basic` lands in the δ-class of the origin with `c = 0`, the two conjugate points `(s, c s)` if it reports coincident lines
there, and the centred answer otherwise; every visited start is one of the eight of the table.
-/
theorem next_minimal_among_candidates (C : Consts ℝ) (basic : XP ℝ → XP ℝ) (conj : ℝ → ℝ) (big : ℝ) :
    ((nextInt C basic conj big).q = mk0 big zero ∨
      ∃ s ∈ (nextInt C basic conj big).visited, (nextInt C basic conj big).q ∈ candsOf C basic conj s) ∧
    (∀ s ∈ (nextInt C basic conj big).visited, s ∈ nextStarts C ∧
      ∀ a ∈ candsOf C basic conj s, dist0 (nextInt C basic conj big).q ≤ dist0 a) ∧
    (nextInt C basic conj big).nan = false := by
  obtain ⟨inv, hvis⟩ := nextInt_spec C basic conj big
  exact ⟨inv.src, fun s hs => ⟨hvis s hs, inv.min s hs⟩, inv.nonan⟩

/-- no candidate is in the origin class with `c = 0` (what "excluding p = [0,0]" means in the code) -/
theorem next_excludes_origin (C : Consts ℝ) (basic : XP ℝ → XP ℝ) (conj : ℝ → ℝ) (s a : XP ℝ) (ha : a ∈ candsOf C basic conj s)
    (hb : (fixc (mk0 zero zero) (basic s)).c = 0) : ceq C.delta (mk0 zero zero) a = false := by
  unfold candsOf at ha
  simp only at ha
  by_cases hz : ceq C.delta (mk0 zero zero) (fixc (mk0 zero zero) (basic s)) = true
  · simp [hb, hz] at ha
  · simp [hb, hz] at ha; rw [ha]; simpa using hz

/--
**Completeness of `Next` under the contract of `Basic`** with capture radius `_d2`: for every intersection `a` outside the
origin class (`δ + ε < |a|₁`) with `_d2 ≤ |a|₁ ≤ 3 _d2 = 2 _t3` the returned point is at most `ε` farther from the origin than
`a`.  (The eight starts of the table of the current source cover that annulus, `nextStarts_cover`; the hole `|a|₁ < _d2` holds
no other intersection because `_d2 < 2 _t1` — the constructor's third check.)
-/
theorem next_complete (C : Consts ℝ) (basic : XP ℝ → XP ℝ) (conj : ℝ → ℝ) (big : ℝ) (I : XP ℝ → Prop) (ε : ℝ)
    (hεδ : ε ≤ C.delta) (K : Contract C basic I ε C.d2) :
    ∀ a, I a → C.delta + ε < dist0 a → C.d2 ≤ dist0 a → dist0 a ≤ 3 * C.d2 →
      dist0 (nextInt C basic conj big).q ≤ dist0 a + ε :=
  nextInt_complete' C basic conj big I ε hεδ K

/-! ## Intersect: `SegmentInt` -/

/--
**`segmode = 0` ⇔ the returned point lies within both segments**, for the full function (every kernel, including the corner
override): the indicator returned with the point is `segmentmode` of that point (`segmentInt_segmode`), hence
`segmode = 0 ↔ 0 ≤ x ≤ sx ∧ 0 ≤ y ≤ sy` (`segmentmode_zero_iff`).
-/
theorem segment_segmode_zero_iff (C : Consts ℝ) (basic : XP ℝ → XP ℝ) (sx sy : ℝ) (o : SOut ℝ)
    (h : segmentInt C basic sx sy = some o) :
    o.segmode = 0 ↔ (0 ≤ o.q.x ∧ o.q.x ≤ sx) ∧ (0 ≤ o.q.y ∧ o.q.y ≤ sy) := by
  rw [segmentInt_segmode C basic sx sy o h]; exact segmentmode_zero_iff sx sy o.q

/-- the returned `segmode` encodes the side of each segment as documented: `segmode = 3 kx + ky` with `kx = −1, 0, 1` for
    `x < 0`, `0 ≤ x ≤ sx`, `sx < x`, and `ky` likewise -/
theorem segment_segmode_sides (C : Consts ℝ) (basic : XP ℝ → XP ℝ) (sx sy : ℝ) (o : SOut ℝ)
    (h : segmentInt C basic sx sy = some o) :
    ∃ kx ky : Int, o.segmode = 3 * kx + ky ∧
      ((kx = -1 ∧ o.q.x < 0) ∨ (kx = 0 ∧ 0 ≤ o.q.x ∧ o.q.x ≤ sx) ∨ (kx = 1 ∧ sx < o.q.x)) ∧
      ((ky = -1 ∧ o.q.y < 0) ∨ (ky = 0 ∧ 0 ≤ o.q.y ∧ o.q.y ≤ sy) ∨ (ky = 1 ∧ sy < o.q.y)) := by
  rw [segmentInt_segmode C basic sx sy o h]
  simp only [segmentmode, ltb_real, leb_real, ofNat_real, decide_eq_true_eq, Nat.cast_zero]
  have side : ∀ v sv : ℝ, ∃ k : Int, (if v < 0 then (-1 : Int) else if v ≤ sv then 0 else 1) = k ∧
      ((k = -1 ∧ v < 0) ∨ (k = 0 ∧ 0 ≤ v ∧ v ≤ sv) ∨ (k = 1 ∧ sv < v)) := by
    intro v sv
    by_cases h1 : v < 0
    · exact ⟨-1, by simp [h1], Or.inl ⟨rfl, h1⟩⟩
    · by_cases h2 : v ≤ sv
      · exact ⟨0, by simp [h1, h2], Or.inr (Or.inl ⟨rfl, not_lt.mp h1, h2⟩)⟩
      · exact ⟨1, by simp [h1, h2], Or.inr (Or.inr ⟨rfl, not_le.mp h2⟩)⟩
  obtain ⟨kx, ex, px⟩ := side o.q.x sx
  obtain ⟨ky, ey, py⟩ := side o.q.y sy
  rw [ex, ey]
  exact ⟨kx, ky, by ring, px, py⟩

/-! ## Intersect: `AllInt0` -/

/-- **`All` is sorted by the L1 distance from `p0` and contains only points within `maxdist`** — for every kernel, every radius,
    every number of tiles and every fuel -/
theorem all_sorted_within_maxdist (C : Consts ℝ) (basic : XP ℝ → XP ℝ) (conj2 : ℝ → ℝ → ℝ) (maxdist : ℝ) (p0 : XP ℝ) (m fuel : Nat) :
    (allInt0 C basic conj2 maxdist p0 m fuel).res.Pairwise (fun a b => dist a p0 ≤ dist b p0) ∧
    ∀ r ∈ (allInt0 C basic conj2 maxdist p0 m fuel).res, dist r p0 ≤ maxdist :=
  ⟨allInt0_sorted C basic conj2 maxdist p0 m fuel, allInt0_within C basic conj2 maxdist p0 m fuel⟩

/--
**`All` is duplicate-free with respect to the tolerance equivalence** (`no two listed points have `Dist(p, q) ≤ δ`) for every
kernel whose answers stay in a set `S` on which the repaired comparator is transitive (e.g. a `Consistent` set, by
`setcomp_strict_weak_order`): the raw answers `Basic(s)`, their centred images when `c ≠ 0`, and the points of the line of
coincident intersections through them.  (The hypothesis is about the comparator, not about the search; without it
`std::set` itself has no specified behaviour — `setcomp_not_transitive_in_general`.)
-/
theorem all_duplicate_free (C : Consts ℝ) (basic : XP ℝ → XP ℝ) (conj2 : ℝ → ℝ → ℝ) (maxdist : ℝ) (p0 : XP ℝ) (m fuel : Nat)
    (S : XP ℝ → Prop)
    (htr : ∀ p q r, S p → S q → S r → clt C.delta p q = true → clt C.delta q r = true → clt C.delta p r = true)
    (hb : ∀ s, S (basic s)) (hf : ∀ s, (basic s).c ≠ 0 → S (fixc p0 (basic s)))
    (hc : ∀ s sa, (basic s).c ≠ 0 → S (XP.add (fixc p0 (basic s)) (mk0 sa (ofC (basic s).c * sa)))) :
    (allInt0 C basic conj2 maxdist p0 m fuel).res.Pairwise (fun a b => ceq C.delta a b = false) :=
  allInt0_nodup C basic conj2 maxdist p0 m fuel S htr hb hf hc

/--
**Completeness of `All` under the contract of `Basic`** (the covering argument: the start grid spacing against the capture
radius).  For `m ≥ 1` tiles per side (the code takes `m = ⌈maxdistx / _d3⌉`, so that the tile radius `maxdistx / m` is at most
`_d3 = _t4 − δ`), a kernel that never reports coincidence, whose answers are within `ε ≤ δ` of intersections, with distinct
intersections `2 _t1` apart and `2 ε + δ < 2 _t1`, and which converges to an intersection from every start within the tile
radius of it: **every intersection `a` with `Dist(a, p0) + ε ≤ maxdist` is listed** (a point within `ε` of it is in the
result).  The proof is the covering lemma `allStarts_cover` (the `m²` or `m² + 1` starts cover the L1 ball of radius
`maxdistx` by L1 balls of the tile radius) and the soundness of the pruning test `Dist(q, start) < 2 _t1 − d3 − δ` (a skipped
start can only lead to an intersection that is already listed) and of the de-duplication (`find` succeeds only on a point of
the same δ-class, which is the same intersection).
Not covered by this statement (hence the name): kernels that report coincident lines (`c ≠ 0`: the conjugate-point loop and the
erasure of earlier answers on the coincidence line), for which only `all_sorted_within_maxdist` / `all_duplicate_free` hold.
-/
theorem all_complete_partial (C : Consts ℝ) (basic : XP ℝ → XP ℝ) (conj2 : ℝ → ℝ → ℝ) (maxdist : ℝ) (p0 : XP ℝ) (m fuel : Nat)
    (I : XP ℝ → Prop) (ε : ℝ) (hm : 1 ≤ m) (hmax : 0 ≤ maxdist) (hδ : 0 ≤ C.delta) (hε : 0 ≤ ε) (hεδ : ε ≤ C.delta)
    (hnum : 2 * ε + C.delta < 2 * C.t1) (K : Contract C basic I ε ((maxdist + C.delta) / m)) :
    ∀ a, I a → dist a p0 + ε ≤ maxdist → ∃ e ∈ (allInt0 C basic conj2 maxdist p0 m fuel).res, dist e a ≤ ε :=
  allInt0_complete' C basic conj2 maxdist p0 m fuel I ε hm hmax hδ hε hεδ hnum K

/-- the start grid of `All` has exactly the `m2 = m*m + (m - 1) % 2` points the code allocates (`vector<XPoint> start(m2)` is
    filled exactly; the commented-out `assert(h == m2)` of the source holds), for every `m ≥ 1` -/
theorem all_starts_count (p0 : XP ℝ) (d3 : ℝ) (m : Nat) (hm : 1 ≤ m) : (allStarts p0 d3 m).length = m * m + (m - 1) % 2 :=
  allStarts_length p0 d3 m hm

/-! ### non-vacuity of the contract: two intersections `A = (0, 0)`, `B = (70, 0)` (`2 t1 = 60`), the kernel "nearer of the two" -/
def exC : Consts ℝ := { d := 100, t1 := 30, delta := 1, d1 := 20, d2 := 25, d3 := 30, tol := 0 }
def exA : XP ℝ := ⟨0, 0, 0⟩
def exB : XP ℝ := ⟨70, 0, 0⟩
noncomputable def exBasic (s : XP ℝ) : XP ℝ := if dist s exA ≤ dist s exB then exA else exB
def exI (a : XP ℝ) : Prop := a = exA ∨ a = exB

theorem exContract : Contract exC exBasic exI 0 30 := by
  have hAB : IntersectSearch.dist exA exB = 70 := by rw [dist_real]; norm_num [exA, exB]
  refine ⟨?_, ?_, ?_, ?_⟩
  · intro s; unfold exBasic; split <;> rfl
  · intro s; unfold exBasic; split
    · exact ⟨exA, Or.inl rfl, by rw [IntersectSearch.dist_self]⟩
    · exact ⟨exB, Or.inr rfl, by rw [IntersectSearch.dist_self]⟩
  · intro a b ha hb hlt
    rcases ha with rfl | rfl <;> rcases hb with rfl | rfl
    · exact IntersectSearch.dist_self _
    · rw [hAB] at hlt; norm_num [exC] at hlt
    · rw [IntersectSearch.dist_symm, hAB] at hlt; norm_num [exC] at hlt
    · exact IntersectSearch.dist_self _
  · intro a ha s hs
    have t := IntersectSearch.dist_triangle exA s exB
    have e1 := IntersectSearch.dist_symm s exA
    have e2 := IntersectSearch.dist_symm s exB
    rw [hAB] at t
    rcases ha with rfl | rfl
    · have : IntersectSearch.dist s exA ≤ IntersectSearch.dist s exB := by linarith
      unfold exBasic; rw [if_pos this, IntersectSearch.dist_self]
    · have : ¬ IntersectSearch.dist s exA ≤ IntersectSearch.dist s exB := by intro hc; linarith
      unfold exBasic; rw [if_neg this, IntersectSearch.dist_self]

/-- … so the three completeness theorems have non-trivial instances, e.g. `All(maxdist = 119, p0 = A, m = 4)` lists `B` -/
example : ∃ e ∈ (allInt0 exC exBasic (fun _ s => s) 119 exA 4 7).res, IntersectSearch.dist e exB ≤ 0 :=
  all_complete_partial exC exBasic (fun _ s => s) 119 exA 4 7 exI 0 (by norm_num) (by norm_num) (by norm_num [exC]) (le_refl _)
    (by norm_num [exC]) (by norm_num [exC])
    (by rw [show ((119 : ℝ) + exC.delta) / ((4 : ℕ) : ℝ) = 30 by norm_num [exC]]; exact exContract) exB (Or.inr rfl)
    (by rw [IntersectSearch.dist_symm, show IntersectSearch.dist exA exB = 70 by rw [dist_real]; norm_num [exA, exB]]; norm_num)

/-! ## Intersect: one contract for the three searches -/

/-- the contract is monotone in the capture radius -/
theorem contract_mono {C : Consts ℝ} {basic : XP ℝ → XP ℝ} {I : XP ℝ → Prop} {ε ρ ρ' : ℝ} (h : ρ' ≤ ρ)
    (K : Contract C basic I ε ρ) : Contract C basic I ε ρ' :=
  ⟨K.c0, K.snd, K.sep, fun a ha s hs => K.cap a ha s (le_trans hs h)⟩

/-- what the constructor's sanity check (`ctorOk`, the model of `if (!(_d1 < _d3 && _d2 < _d3 && _d2 < 2 * _t1)) throw`) says -/
theorem ctor_check_spec (t1 d1 d2 d3 : ℝ) : ctorOk t1 d1 d2 d3 = true ↔ d1 < d3 ∧ d2 < d3 ∧ d2 < 2 * t1 := by
  simp [ctorOk, ltb_real, two_real, and_assoc]

/--
**One contract, three searches.**  On an object that passed the constructor's check, a kernel `Basic` that satisfies the
contract with capture radius `_d3` (= `_t4 − δ`: every start within `_d3` of an intersection converges to it; never reports
coincidence; answers within `ε ≤ δ` of intersections; intersections `2 _t1` apart; `2 ε + δ < 2 _t1`) makes

* `Closest` return a point within `ε` of an intersection such that no intersection within `2 _d1` of `p0` is closer by more
  than `ε + δ`,
* `Next` return a point at most `ε` farther from the origin than any intersection `a` outside the origin class with
  `_d2 ≤ |a|₁ ≤ 3 _d2`,
* `All(maxdist)` list (within `ε`) every intersection with `Dist(a, p0) + ε ≤ maxdist`, for every number of tiles `m ≥ 1`
  with `maxdist + δ ≤ m _d3` — in particular for `m = ⌈(maxdist + δ) / _d3⌉`, the value the code uses.

This is the covering argument of the class in one statement: the tile radii `_d1`, `_d2`, `maxdistx / m` never exceed the
capture radius because the constructor checked `_d1 < _d3`, `_d2 < _d3` and the code chooses `m` accordingly.
-/
theorem intersect_complete_of_capture (C : Consts ℝ) (basic : XP ℝ → XP ℝ) (I : XP ℝ → Prop) (ε : ℝ)
    (hctor : ctorOk C.t1 C.d1 C.d2 C.d3 = true) (hδ : 0 ≤ C.delta) (hε : 0 ≤ ε) (hεδ : ε ≤ C.delta)
    (hnum : 2 * ε + C.delta < 2 * C.t1) (K : Contract C basic I ε C.d3) :
    (∀ p0, ∃ b, (closestInt C basic p0).q = some b ∧ (∃ a, I a ∧ dist b a ≤ ε) ∧
        ∀ a, I a → dist a p0 ≤ 2 * C.d1 → dist b p0 ≤ dist a p0 + ε + C.delta) ∧
    (∀ conj big a, I a → C.delta + ε < dist0 a → C.d2 ≤ dist0 a → dist0 a ≤ 3 * C.d2 →
        dist0 (nextInt C basic conj big).q ≤ dist0 a + ε) ∧
    (∀ conj2 maxdist p0 (m fuel : Nat), 1 ≤ m → 0 ≤ maxdist → maxdist + C.delta ≤ m * C.d3 →
        ∀ a, I a → dist a p0 + ε ≤ maxdist → ∃ e ∈ (allInt0 C basic conj2 maxdist p0 m fuel).res, dist e a ≤ ε) := by
  obtain ⟨h1, h2, _⟩ := (ctor_check_spec _ _ _ _).mp hctor
  refine ⟨fun p0 => closest_complete C basic p0 I ε hδ hεδ (contract_mono h1.le K),
    fun conj big => next_complete C basic conj big I ε hεδ (contract_mono h2.le K), ?_⟩
  intro conj2 maxdist p0 m fuel hm hmax hmd
  have hmpos : (0 : ℝ) < m := by exact_mod_cast hm
  have : (maxdist + C.delta) / m ≤ C.d3 := by rw [div_le_iff₀ hmpos]; linarith
  exact all_complete_partial C basic conj2 maxdist p0 m fuel I ε hm hmax hδ hε hεδ hnum (contract_mono this K)

/-- non-vacuity: the two-intersection example passes the constructor check and satisfies the contract with capture radius `_d3`,
    so all three conclusions hold for it; e.g. `Closest(p0 = (10, 0))` returns a point not farther from `p0` than `A` by more than `δ`,
    and `Next` a point not farther from the origin than `B` -/
example : ctorOk exC.t1 exC.d1 exC.d2 exC.d3 = true := by rw [ctor_check_spec]; norm_num [exC]
example : ∃ b, (closestInt exC exBasic ⟨10, 0, 0⟩).q = some b ∧
    IntersectSearch.dist b ⟨10, 0, 0⟩ ≤ IntersectSearch.dist exA ⟨10, 0, 0⟩ + 0 + exC.delta := by
  obtain ⟨h, _, _⟩ := intersect_complete_of_capture exC exBasic exI 0 (by rw [ctor_check_spec]; norm_num [exC]) (by norm_num [exC]) (le_refl _)
    (by norm_num [exC]) (by norm_num [exC]) exContract
  obtain ⟨b, hb, _, h'⟩ := h ⟨10, 0, 0⟩
  exact ⟨b, hb, h' exA (Or.inl rfl) (by rw [dist_real]; norm_num [exA, exC])⟩
example (conj : ℝ → ℝ) (big : ℝ) : dist0 (nextInt exC exBasic conj big).q ≤ dist0 exB + 0 := by
  obtain ⟨_, h, _⟩ := intersect_complete_of_capture exC exBasic exI 0 (by rw [ctor_check_spec]; norm_num [exC]) (by norm_num [exC]) (le_refl _)
    (by norm_num [exC]) (by norm_num [exC]) exContract
  exact h conj big exB (Or.inr rfl) (by rw [dist0_real]; norm_num [exB, exC]) (by rw [dist0_real]; norm_num [exB, exC])
    (by rw [dist0_real]; norm_num [exB, exC])

/-- non-vacuity of `setcomp_strict_weak_order` and `all_duplicate_free`: the gapped three-point set is `Consistent`; the answers of
    the two-intersection kernel stay in `{A, B}`, a gapped (hence `Consistent`) set for `δ = 1`, so `All` lists no point twice -/
example : Consistent 10 exS := setcomp_consistent_of_gapped 10 1 (by norm_num) (by norm_num) exS exS_gapped
example (conj2 : ℝ → ℝ → ℝ) (maxdist : ℝ) (p0 : XP ℝ) (m fuel : Nat) :
    (allInt0 exC exBasic conj2 maxdist p0 m fuel).res.Pairwise (fun a b => ceq exC.delta a b = false) := by
  have hg : Gapped exC.delta 0 exI := by
    intro p q hp hq
    rcases hp with rfl | rfl <;> rcases hq with rfl | rfl <;> norm_num [exA, exB, exC]
  have hS := setcomp_consistent_of_gapped exC.delta 0 (le_refl _) (by norm_num [exC]) exI hg
  have hb : ∀ s, exI (exBasic s) := by intro s; unfold exBasic; split; exact Or.inl rfl; exact Or.inr rfl
  have hc0 : ∀ s, (exBasic s).c = 0 := exContract.c0
  exact all_duplicate_free exC exBasic conj2 maxdist p0 m fuel exI (fun _ _ _ hp hq hr => clt_trans_on hS hp hq hr) hb
    (fun s h => absurd (hc0 s) h) (fun s _ h => absurd (hc0 s) h)

/-! ## nearest neighbour: Save / Load -/
open GeoVerif.VPTree

/-- `Load(Save(t)) = t` on the text layout (as integer tokens; whatever follows the tree in the stream is ignored), for
    every tree `Save` can be given by `Initialize`/`Load` (`WellFormed`: what `Node::Check` demands) -/
theorem save_load_roundtrip (realspec maxbucket : Int) (t : Tree) (extra : List Int) (h : WellFormed maxbucket t) :
    load realspec maxbucket (save realspec t ++ extra) = .ok t :=
  load_save realspec maxbucket t extra h

/-- a concrete three-point tree (bucket 2) satisfies the hypothesis -/
def exTree : Tree := { bucket := 2, numpoints := 3, cost := 2, nodes := [.leaf [1, 2], .inner 0 0 0 (-1) 1 2 0] }
example : WellFormed 10 exTree :=
  ⟨by decide, by decide, by decide, by decide,
   ⟨⟨by decide, by intro ls h; cases h; rfl⟩, ⟨⟨by decide, by intro ls h; cases h⟩, trivial⟩⟩, by decide⟩
example : load (-63) 10 (save (-63) exTree) = .ok exTree := by decide

/-- `Load(Save(t)) = t` on the binary layout as bytes (magic string, six 32-bit header words, per node the index and either
    `lower[2]`, `upper[2]` (64 bit each), `child[2]` or the `bucket` leaf slots; little endian two's complement), for every
    well-formed tree whose fields fit their C++ types -/
theorem save_load_roundtrip_binary (realspec maxbucket : Int) (t : Tree) (extra : List Nat) (h : WellFormed maxbucket t)
    (hrs : In32 realspec) (hnp : In32 t.numpoints) (hcost : In32 t.cost) (hmb : In32 maxbucket) (hr : NodesRange t.nodes) :
    loadBin realspec maxbucket (saveBin realspec t ++ extra) = .ok t :=
  loadBin_saveBin realspec maxbucket t extra h hrs hnp hcost hmb hr
example : loadBin (-63) 10 (saveBin (-63) exTree) = .ok exTree := by decide

/-- everything `Load` accepts passes the header checks, `Node::Check` *with the node's own position as the bound on
    its child pointers* (fix 49e729b): in particular children are stored before their parents, so the child pointers of
    an accepted file cannot form a cycle — and (fix 90dea91) no node index is named twice as a child -/
theorem load_rejects (realspec maxbucket : Int) (toks : List Int) (t : Tree) (h : load realspec maxbucket toks = .ok t) :
    0 ≤ t.bucket ∧ t.bucket ≤ maxbucket ∧ (t.nodes.length : Int) ≤ t.numpoints ∧ 0 ≤ t.cost ∧
    (∀ (j : Nat) (n : Node), t.nodes[j]? = some n → nodeCheck t.numpoints (j : Int) n = true) ∧
    (∀ (j : Nat) v lo0 up0 c0 lo1 up1 c1, t.nodes[j]? = some (Node.inner v lo0 up0 c0 lo1 up1 c1) → c0 < j ∧ c1 < j ∧ (v : Int) < t.numpoints) ∧
    (children t.nodes).Nodup := by
  match toks, h with
  | [], h | [_], h | [_, _], h | [_, _, _], h | [_, _, _, _], h | [_, _, _, _, _], h => simp [load] at h
  | version1 :: realspec1 :: bucket :: numpoints :: treesize :: cost :: toks', h =>
    simp only [load] at h
    by_cases h1 : (version1 != version) = true
    · rw [if_pos h1] at h; cases h
    rw [if_neg h1] at h
    by_cases h2 : (realspec1 != realspec) = true
    · rw [if_pos h2] at h; cases h
    rw [if_neg h2] at h
    by_cases h3 : (!(decide (0 ≤ bucket) && decide (bucket ≤ maxbucket))) = true
    · rw [if_pos h3] at h; cases h
    rw [if_neg h3] at h
    by_cases h4 : (!(decide (0 ≤ treesize) && decide (treesize ≤ numpoints))) = true
    · rw [if_pos h4] at h; cases h
    rw [if_neg h4] at h
    by_cases h5 : (!decide (0 ≤ cost)) = true
    · rw [if_pos h5] at h; cases h
    rw [if_neg h5] at h
    cases hns : loadNodes bucket.toNat numpoints treesize.toNat 0 [] toks' with
    | error e => rw [hns] at h; cases h
    | ok ns =>
      rw [hns] at h
      cases h
      obtain ⟨hlen, hall, hnd, _⟩ := loadNodes_ok bucket.toNat numpoints treesize.toNat 0 [] toks' ns hns
      simp only [Bool.not_eq_true', Bool.and_eq_false_iff, decide_eq_false_iff_not, not_or, not_not] at h3 h4 h5
      have hnode : ∀ (j : Nat) (n : Node), ns[j]? = some n → nodeCheck numpoints (j : Int) n = true := by
        intro j n hj; have := hall j n hj; simpa using this
      refine ⟨h3.1, h3.2, ?_, h5, hnode, ?_, hnd⟩
      · show (ns.length : Int) ≤ numpoints
        rw [hlen]; omega
      · intro j v lo0 up0 c0 lo1 up1 c1 hj
        have := hnode j _ hj
        simp only [nodeCheck, Bool.and_eq_true, decide_eq_true_eq] at this
        show c0 < (j : Int) ∧ c1 < (j : Int) ∧ (v : Int) < numpoints
        omega

/-- **every accepted file is a forest**: in the directed graph "node `j` → its non-negative child pointers" of a file that
    `Load` accepts, (i) every edge goes to a *smaller* index inside the file (so there is no cycle), (ii) no node has two
    parents, and (iii) the two child pointers of a node are different.  (Hence the nodes reachable from the root — the last
    node — form a tree and `Search` looks at each of them at most once: the exponential blow-up of finding F53 is excluded
    for every accepted file.)
    What is still missing for "`Load` ⇒ `TreeInv`" — and cannot be decided by `Load`, which does not see the points:
    that the bounds enclose the distances (`lower[l] ≤ d(v, p) ≤ upper[l]` for the points `p` below child `l`), that every
    point index `0 … numpoints−1` occurs exactly once (indices may repeat or be absent in an accepted file, and nodes not
    reachable from the root may exist), and that a bucket node of a file with `bucket = 0` is never empty. -/
theorem load_is_forest (realspec maxbucket : Int) (toks : List Int) (t : Tree) (h : load realspec maxbucket toks = .ok t) :
    (∀ (j : Nat) (n : Node) (c : Int), t.nodes[j]? = some n → c ∈ kids n → 0 ≤ c ∧ c < j) ∧
    (∀ (j1 j2 : Nat) (n1 n2 : Node) (c : Int), t.nodes[j1]? = some n1 → t.nodes[j2]? = some n2 → c ∈ kids n1 → c ∈ kids n2 → j1 = j2) ∧
    (∀ (j : Nat) v lo0 up0 c0 lo1 up1 c1, t.nodes[j]? = some (Node.inner v lo0 up0 c0 lo1 up1 c1) → 0 ≤ c0 → c0 ≠ c1) := by
  obtain ⟨_, _, _, _, _, hlt, hnd⟩ := load_rejects realspec maxbucket toks t h
  refine ⟨?_, ?_, ?_⟩
  · intro j n c hj hc
    cases n with
    | leaf ls => simp [kids] at hc
    | inner v lo0 up0 c0 lo1 up1 c1 =>
      have := hlt j v lo0 up0 c0 lo1 up1 c1 hj
      simp only [kids, List.mem_append] at hc
      rcases hc with hc | hc
      · by_cases h0 : c0 < 0
        · simp [h0] at hc
        · simp only [h0, if_false, List.mem_singleton] at hc; subst hc; omega
      · by_cases h1 : c1 < 0
        · simp [h1] at hc
        · simp only [h1, if_false, List.mem_singleton] at hc; subst hc; omega
  · intro j1 j2 n1 n2 c h1 h2 c1 c2
    exact parent_unique hnd h1 h2 c1 c2
  · intro j v lo0 up0 c0 lo1 up1 c1 hj h0 e
    subst e
    have hk : (kids (Node.inner v lo0 up0 c0 lo1 up1 c0)).Nodup := by
      have hsub : ∀ (ns : List Node) (j : Nat) (n : Node), ns[j]? = some n → (children ns).Nodup → (kids n).Nodup := by
        intro ns
        induction ns with
        | nil => intro j n hj; simp at hj
        | cons m ms ih =>
          intro j n hj hn
          simp only [children, List.nodup_append] at hn
          cases j with
          | zero => simp at hj; subst hj; exact hn.1
          | succ j => simp at hj; exact ih j n hj hn.2.1
      exact hsub _ j _ hj hnd
    have h0' : ¬ c0 < 0 := by omega
    simp [kids, h0'] at hk

/-- a file in which two nodes name the same child is rejected (the DAG image of finding F53, 3 nodes) -/
example : load (-63) 10 [1, -63, 0, 3, 3, 0,  0, 0, 0, -1, 0, 0, -1,  1, 0, 5, 0, 5, 9, -1,  2, 0, 5, 0, 5, 9, 1] =
    .error "Bad child pointers" := by decide

/-! ## nearest neighbour: the search -/

/-- the executable invariant check the driver runs on every dumped tree (built by `Initialize`, or reloaded) implies
    `TreeInv`, the hypothesis of `search_is_bruteforce` -/
theorem checkInv_sound (tree : Array Node) (numpoints bucket : Nat) (d : Nat → Nat → Int)
    (h : checkInv tree numpoints bucket d = true) : TreeInv tree bucket numpoints d :=
  checkInv_sound' tree numpoints bucket d h

/--
**`Search` = brute force.**  For any metric space `(α, dist)` (`dist x x = 0`, symmetric, triangle inequality; values in an
ordered ring — here `ℤ`, the harness instantiates `dist_t = long long`), any points `pt 0 … pt (numpoints−1)`, any stored
tree satisfying `TreeInv` (the last node is the root of a finite tree of nodes in which every point index occurs exactly
once and, for an internal node with vantage point `v`, every point `p` below child `l` has
`lower[l] ≤ dist v p ≤ upper[l]`), any query point `q`, any `k`, `maxdist`, `mindist` (no side condition: for `k ≤ 0`,
`maxdist ≤ mindist` or an empty set both sides are empty), `exhaustive = true`, `tol = 0`:
the model of `NearestNeighbor::Search` (the definitions of `Model/VPTree.lean` that the driver runs against the
implementation) terminates within its fuel (`numpoints` pops of `todo`) and returns, in ascending order, exactly the
distances of the `k` nearest points a brute-force scan finds in the window `mindist < d ≤ maxdist`.
Ingredients (in `Proofs/VPTree.lean`): `pushChild_spec` (soundness of the three pruning tests by the triangle inequality —
false for the seeded change that tests `lower` instead of `upper`), `visit_spec` (best-`k` heap invariant, `tau`),
`loop_spec` (invariant of the main loop and fuel adequacy).
-/
theorem search_is_bruteforce {α : Type} (dist : α → α → Int) (pt : Nat → α) (q : α)
    (h0 : ∀ x, dist x x = 0) (hsymm : ∀ x y, dist x y = dist y x) (htri : ∀ x y z, dist x z ≤ dist x y + dist y z)
    (tree : Array Node) (numpoints bucket : Nat) (Q : Query) (hex : Q.exhaustive = true) (htol : Q.tol = 0)
    (hinv : TreeInv tree bucket numpoints (fun i j => dist (pt i) (pt j))) :
    ∃ res, search tree numpoints bucket (fun i => dist (pt i) q) Q = some res ∧
      res.map (·.1) = bruteforce numpoints (fun i => dist (pt i) q) Q := by
  have hm : MetricQ (fun i j => dist (pt i) (pt j)) (fun i => dist (pt i) q) := by
    refine ⟨?_, ?_, ?_, ?_⟩
    · intro p
      have := htri (pt p) q (pt p); rw [h0, hsymm q (pt p)] at this; omega
    · intro v p
      have := htri (pt p) (pt v) q; rw [hsymm (pt p) (pt v)] at this; omega
    · intro v p
      have := htri (pt v) q (pt p); rw [hsymm q (pt p)] at this; omega
    · intro v p
      exact htri (pt v) (pt p) q
  exact search_spec hm Q hex htol hinv

/-- `exhaustive = false` (`tol = 0`): at most `k` results, all inside the window `(mindist, maxdist]` (distinct points by
    `search_returns_points`); and — the documented "if less than k results are returned then the search was exhaustive" —
    fewer than `k` results are *all* the points of the window, ascending -/
theorem search_nonexhaustive {α : Type} (dist : α → α → Int) (pt : Nat → α) (q : α)
    (h0 : ∀ x, dist x x = 0) (hsymm : ∀ x y, dist x y = dist y x) (htri : ∀ x y z, dist x z ≤ dist x y + dist y z)
    (tree : Array Node) (numpoints bucket : Nat) (Q : Query) (hex : Q.exhaustive = false) (htol : Q.tol = 0)
    (hinv : TreeInv tree bucket numpoints (fun i j => dist (pt i) (pt j))) :
    ∃ res, search tree numpoints bucket (fun i => dist (pt i) q) Q = some res ∧ res.length ≤ Q.k.toNat ∧
      (∀ x ∈ res.map (·.1), inWindow Q x = true) ∧
      (res.length < Q.k.toNat →
        res.map (·.1) = sortAsc (((List.range numpoints).map (fun i => dist (pt i) q)).filter (inWindow Q))) := by
  have hm : MetricQ (fun i j => dist (pt i) (pt j)) (fun i => dist (pt i) q) := by
    refine ⟨?_, ?_, ?_, ?_⟩
    · intro p
      have := htri (pt p) q (pt p); rw [h0, hsymm q (pt p)] at this; omega
    · intro v p
      have := htri (pt p) (pt v) q; rw [hsymm (pt p) (pt v)] at this; omega
    · intro v p
      have := htri (pt v) q (pt p); rw [hsymm q (pt p)] at this; omega
    · intro v p
      exact htri (pt v) (pt p) q
  exact search_ne hm Q hex htol hinv

/-- the items returned are *points of the set*: pairs `(dist(pt i, q), i)` for pairwise distinct indices `i < numpoints`
    (for every query, also non-exhaustive or approximate ones, and every distance function); with
    `search_is_bruteforce`: the returned indices are `k` distinct points whose distances are exactly those of the `k`
    nearest in the window -/
theorem search_returns_points {α : Type} (dist : α → α → Int) (pt : Nat → α) (q : α)
    (tree : Array Node) (numpoints bucket : Nat) (Q : Query)
    (hinv : TreeInv tree bucket numpoints (fun i j => dist (pt i) (pt j)))
    (res : List Item) (h : search tree numpoints bucket (fun i => dist (pt i) q) Q = some res) :
    (res.map (·.2)).Nodup ∧ ∀ it ∈ res, ∃ p, p < numpoints ∧ it = (dist (pt p) q, (p : Int)) :=
  search_items Q hinv res h

/-- non-vacuity: the integers with `|x − y|` are a metric space, and a concrete stored tree (three points 0, 1, 3 on a
    line, bucket size 2) satisfies `TreeInv` -/
example : (∀ x : Int, ((x - x).natAbs : Int) = 0) ∧ (∀ x y : Int, ((x - y).natAbs : Int) = (y - x).natAbs) ∧
    (∀ x y z : Int, ((x - z).natAbs : Int) ≤ (x - y).natAbs + (y - z).natAbs) :=
  ⟨by intro x; omega, by intro x y; omega, by intro x y z; omega⟩
def exPt (i : Nat) : Int := if i = 0 then 0 else if i = 1 then 1 else 3
example : TreeInv #[.leaf [1, 2], .inner 0 0 0 (-1) 1 3 0] 2 3 (fun i j => ((exPt i - exPt j).natAbs : Int)) :=
  checkInv_sound _ _ _ _ (by decide)
example : search #[.leaf [1, 2], .inner 0 0 0 (-1) 1 3 0] 3 2 (fun i => ((exPt i - 2).natAbs : Int))
    { k := 2, maxdist := 100, mindist := 0, exhaustive := true, tol := 0 } = some [(1, 1), (1, 2)] := by decide


/-! ## nearest neighbour: `Initialize` establishes the invariant -/

/-- the full sort the driver uses for `std::nth_element` meets the post-condition `NthSpec` of `std::nth_element`
    (a permutation of the range; nothing before position `nth` is greater than anything from it on; the element at `nth`
    is not greater than any later one) — so the hypothesis of the next theorems is not vacuous -/
theorem nth_element_sort_spec : NthSpec nthSort := nthSort_spec

/--
**`Initialize` establishes `TreeInv`.**  For every distance function `d` (no metric property is needed here), every bucket
size (0 included) and every number of points `n`, and for every function `nth` that meets the post-condition of
`std::nth_element` (`NthSpec`; the concrete `nthSort` does: `nth_element_sort_spec`), the node array produced by the
model `init` of `NearestNeighbor::Initialize`/`init` (`Model/VPTree.lean`: vantage point swapped to the front, distances
to it, partition at the median by `nth`, `lower/upper[0]` = min/max of the inner half, `lower[1]` = the distance at the
median position, `upper[1]` = max of the outer half, the farthest point of each half as its vantage point, children stored
before the parent, bucket leaves sorted and padded with −1, the `bucket = 0` single-point nodes) satisfies `TreeInv`:
the last node is the root of a finite tree of nodes in which every point index `0 … n−1` occurs exactly once and, for each
internal node with vantage point `v` and each child `l`, every point `p` below that child has
`lower[l] ≤ d v p ≤ upper[l]`.  (That children are stored before their parents, with the other demands of `Node::Check`,
is `init_wellformed`.)  The driver compares this `init` (with `nth = nthSort`) with the tree `Initialize` really
builds (op `nn_init`).
-/
theorem init_establishes_inv (nth : Nat → List IdItem → List IdItem) (hn : NthSpec nth) (d : Nat → Nat → Int)
    (bucket n : Nat) : TreeInv (init nth d bucket n).nodes.toArray bucket n d :=
  init_treeInv hn d bucket n

/--
**`Initialize` writes only what `Load` accepts.**  If no distance is negative (`bucket ≤ maxbucket` is tested by
`Initialize` itself), the tree built by `init` is `WellFormed`: at most one node per point, every node passes
`Node::Check` *with its own position as the bound on the child pointers* (children are stored before their parents;
vantage and leaf indices `< n`; `0 ≤ lower[0] ≤ upper[0] ≤ lower[1] ≤ upper[1]` — the middle inequality is the partition
property of `nth_element`; bucket nodes hold at least one index followed by −1 only), and no node is named twice as a child.
Hence `save_load_roundtrip(_binary)` applies to every tree `Initialize` builds: `Load(Save(init …)) = init …`.
-/
theorem init_wellformed (nth : Nat → List IdItem → List IdItem) (hn : NthSpec nth) (d : Nat → Nat → Int)
    (hd : ∀ i j, 0 ≤ d i j) (bucket n : Nat) (maxbucket : Int) (hb : (bucket : Int) ≤ maxbucket) :
    WellFormed maxbucket (init nth d bucket n) :=
  init_wf hn d hd bucket n maxbucket hb

/-- `Load ∘ Save ∘ Initialize = Initialize` on the text layout -/
theorem init_save_load (nth : Nat → List IdItem → List IdItem) (hn : NthSpec nth) (d : Nat → Nat → Int)
    (hd : ∀ i j, 0 ≤ d i j) (bucket n : Nat) (realspec maxbucket : Int) (hb : (bucket : Int) ≤ maxbucket) (extra : List Int) :
    load realspec maxbucket (save realspec (init nth d bucket n) ++ extra) = .ok (init nth d bucket n) :=
  save_load_roundtrip realspec maxbucket _ extra (init_wellformed nth hn d hd bucket n maxbucket hb)

/-- the instance the driver executes -/
example (d : Nat → Nat → Int) (bucket n : Nat) : TreeInv (init nthSort d bucket n).nodes.toArray bucket n d :=
  init_establishes_inv nthSort nth_element_sort_spec d bucket n

/--
**Nearest-neighbour search is correct, end to end** — no hypothesis about the tree.  For any metric space `(α, dist)`
(`dist x x = 0`, symmetric, triangle inequality; `ℤ`-valued), any points `pt 0 … pt (n−1)`, any bucket size, any
`nth_element` meeting its post-condition, any query point `q`, any `k`, `maxdist`, `mindist`, `exhaustive = true`,
`tol = 0`: `Search` on the tree built by `Initialize` (both as modelled in `Model/VPTree.lean` and run by the driver
against the implementation) terminates and returns, ascending, exactly the distances of the `k` nearest points of the
window `mindist < d ≤ maxdist` that a brute-force scan finds.
-/
theorem nearest_neighbor_correct {α : Type} (dist : α → α → Int) (pt : Nat → α) (q : α)
    (h0 : ∀ x, dist x x = 0) (hsymm : ∀ x y, dist x y = dist y x) (htri : ∀ x y z, dist x z ≤ dist x y + dist y z)
    (nth : Nat → List IdItem → List IdItem) (hn : NthSpec nth) (n bucket : Nat) (Q : Query)
    (hex : Q.exhaustive = true) (htol : Q.tol = 0) :
    ∃ res, search (init nth (fun i j => dist (pt i) (pt j)) bucket n).nodes.toArray n bucket (fun i => dist (pt i) q) Q = some res ∧
      res.map (·.1) = bruteforce n (fun i => dist (pt i) q) Q :=
  search_is_bruteforce dist pt q h0 hsymm htri _ n bucket Q hex htol
    (init_establishes_inv nth hn (fun i j => dist (pt i) (pt j)) bucket n)

/-- … and the returned indices are distinct points of the set at exactly those distances -/
theorem nearest_neighbor_returns_points {α : Type} (dist : α → α → Int) (pt : Nat → α) (q : α)
    (nth : Nat → List IdItem → List IdItem) (hn : NthSpec nth) (n bucket : Nat) (Q : Query) (res : List Item)
    (h : search (init nth (fun i j => dist (pt i) (pt j)) bucket n).nodes.toArray n bucket (fun i => dist (pt i) q) Q = some res) :
    (res.map (·.2)).Nodup ∧ ∀ it ∈ res, ∃ p, p < n ∧ it = (dist (pt p) q, (p : Int)) :=
  search_returns_points dist pt q _ n bucket Q (init_establishes_inv nth hn (fun i j => dist (pt i) (pt j)) bucket n) res h

/-- a concrete run: the five points 0, 3, 6, 2, 5 on a line, bucket 2 — the tree, and a search on it -/
def exD (i j : Nat) : Int := (((i : Int) * 3 % 7 - (j : Int) * 3 % 7).natAbs : Int)
example : (init nthSort exD 2 5).nodes = [.leaf [4, 1], .leaf [3, 0], .inner 2 1 3 0 4 6 1] := by decide
example : search (init nthSort exD 2 5).nodes.toArray 5 2 (fun i => (((i : Int) * 3 % 7 - 4).natAbs : Int))
    { k := 2, maxdist := 100, mindist := 0, exhaustive := true, tol := 0 } = some [(1, 1), (1, 4)] := by decide

end GeoVerif.Props.C17
