import GeoVerif.Model.VPTree
import GeoVerif.Model.GeodProj
import GeoVerif.Model.IntersectFix
import GeoVerif.Spec.RealInst
import GeoVerif.Proofs.VPTree
import GeoVerif.Proofs.VPTreeInit
import Mathlib.Tactic.Ring
import Mathlib.Tactic.LinearCombination
import Mathlib.Tactic.FieldSimp
import Mathlib.Tactic.Positivity
import Mathlib.Tactic.Linarith
/-!
# C17 — constructions built on geodesics

* Nearest neighbour: `search_is_bruteforce` (the vantage-point-tree search of `Model/VPTree.lean` — the same definitions
  the driver executes against `NearestNeighbor::Search` — returns exactly the `k` smallest distances a brute-force scan
  of the window `(mindist, maxdist]` finds, for every metric, tree satisfying `TreeInv`, query and `k`), its
  ingredients, `checkInv_sound`, `save_load_roundtrip`, `load_rejects`, `load_is_forest`; `init_establishes_inv` (the
  tree `Initialize` builds satisfies `TreeInv`, for every `nth_element` meeting its post-condition) and the end-to-end
  `nearest_neighbor_correct` (`Search ∘ Initialize` = brute force, no hypothesis on the tree).
* Projections: exact-real theorems about the wrapper formulas of `Model/GeodProj.lean` around an arbitrary geodesic
  kernel.
* `Intersect`: no theorem (the tiling search is validated by the oracles of the harness only).
-/
namespace GeoVerif.Props.C17
open GeoVerif GeoVerif.GeodProj

/-! ## azimuthal equidistant -/

/-- the projected point lies at distance `s12` from the origin (for a unit direction vector) -/
theorem azeq_radius (K : Kern ℝ) (eps : ℝ) (h : K.salp1 ^ 2 + K.calp1 ^ 2 = 1) :
    (azeqForward K eps).x ^ 2 + (azeqForward K eps).y ^ 2 = K.s12 ^ 2 := by
  simp only [azeqForward]
  linear_combination (K.s12 ^ 2) * h

/-- … in the direction of the azimuth at the centre; the returned azimuth is the geodesic's azimuth at the point -/
theorem azeq_direction (K : Kern ℝ) (eps : ℝ) :
    (azeqForward K eps).x = K.s12 * K.salp1 ∧ (azeqForward K eps).y = K.s12 * K.calp1 ∧ (azeqForward K eps).azi = K.azi2 := by
  simp only [azeqForward]
  exact ⟨by ring, by ring, trivial⟩

/-- reciprocal azimuthal scale: `m12/s12`, and 1 in the limit of coincident points -/
theorem azeq_rk (K : Kern ℝ) (eps : ℝ) :
    (azeqForward K eps).rk = if K.sig ≤ eps ∨ K.s12 = 0 then 1 else K.m12 / K.s12 := by
  simp [azeqForward, azeqRk, ofNat_real]

/-- `atan2d` over the reals: `atan2(x, y)` in degrees -/
noncomputable def atan2dR (x y : ℝ) : ℝ := RealLike.atan2 x y * 180 / Real.pi

/-- `Reverse ∘ Forward = id` up to the kernel contract: for a point at distance `s12 > 0` and azimuth `azi1 ∈ (−180, 180]`
    (degrees) the arguments `Reverse` hands to `Direct` are exactly `(azi1, s12)`, so whenever `Direct(azi1, s12)`
    returns the end point of the geodesic `Inverse` described, `Reverse(Forward(p)) = p` -/
theorem azeq_reverse_forward (K : Kern ℝ) (eps azi1 : ℝ) (hs : 0 < K.s12) (h1 : -180 < azi1) (h2 : azi1 ≤ 180)
    (hsin : K.salp1 = Real.sin (azi1 * Real.pi / 180)) (hcos : K.calp1 = Real.cos (azi1 * Real.pi / 180)) :
    azeqReverseArgs atan2dR (azeqForward K eps).x (azeqForward K eps).y = (azi1, K.s12) := by
  have hpi := Real.pi_pos
  set θ := azi1 * Real.pi / 180 with hθ
  have hθ1 : -Real.pi < θ := by rw [hθ]; nlinarith
  have hθ2 : θ ≤ Real.pi := by rw [hθ]; nlinarith
  simp only [azeqReverseArgs, azeqForward, atan2dR, Prod.mk.injEq]
  constructor
  · have harg : Complex.arg ⟨K.calp1 * K.s12, K.salp1 * K.s12⟩ = θ := by
      have : (⟨K.calp1 * K.s12, K.salp1 * K.s12⟩ : ℂ) = (K.s12 : ℂ) * (Complex.cos (θ : ℂ) + Complex.sin (θ : ℂ) * Complex.I) := by
        apply Complex.ext
        · simp [hcos, ← Complex.ofReal_cos, ← Complex.ofReal_sin, mul_comm]
        · simp [hsin, ← Complex.ofReal_cos, ← Complex.ofReal_sin, mul_comm]
      rw [this]
      exact Complex.arg_mul_cos_add_sin_mul_I hs ⟨hθ1, hθ2⟩
    show Complex.arg ⟨K.calp1 * K.s12, K.salp1 * K.s12⟩ * 180 / Real.pi = azi1
    rw [harg, hθ]
    field_simp
  · rw [hypot_real]
    have : (K.salp1 * K.s12) ^ 2 + (K.calp1 * K.s12) ^ 2 = K.s12 ^ 2 := by
      have h := Real.sin_sq_add_cos_sq θ
      rw [hsin, hcos]; linear_combination (K.s12 ^ 2) * h
    rw [this, Real.sqrt_sq hs.le]

/-! ## gnomonic -/

/-- `x = y = NaN` exactly beyond the horizon (`M12 ≤ 0`) -/
theorem gnom_nan_iff (K : Kern ℝ) : gnomForwardXY K = none ↔ K.M12 ≤ 0 := by
  simp only [gnomForwardXY, leb_real, ofNat_real, Nat.cast_zero]
  by_cases h : K.M12 ≤ 0 <;> simp [h]

/-- inside the horizon the point lies at radius `ρ = m12/M12` along the azimuth at the centre -/
theorem gnom_radius (K : Kern ℝ) (hM : 0 < K.M12) (h : K.salp1 ^ 2 + K.calp1 ^ 2 = 1) :
    ∃ x y, gnomForwardXY K = some (x, y) ∧ x = K.m12 / K.M12 * K.salp1 ∧ y = K.m12 / K.M12 * K.calp1 ∧
      x ^ 2 + y ^ 2 = (K.m12 / K.M12) ^ 2 := by
  refine ⟨K.salp1 * (K.m12 / K.M12), K.calp1 * (K.m12 / K.M12), ?_, by ring, by ring, ?_⟩
  · simp [gnomForwardXY, ofNat_real, not_le.mpr hM]
  · linear_combination ((K.m12 / K.M12) ^ 2) * h

/-- the returned scale and azimuth are those of the geodesic -/
theorem gnom_rk_azi (K : Kern ℝ) : (gnomForward K).rk = K.M12 ∧ (gnomForward K).azi = K.azi2 := by
  unfold gnomForward; split <;> exact ⟨rfl, rfl⟩

/-- the Newton iteration of `Reverse` is stationary exactly at solutions of the defining equation `ρ = m/M`
    (and of `1/ρ = M/m` in the far branch) -/
theorem gnom_newton_fixed (rho m M : ℝ) (hM : M ≠ 0) (hm : m ≠ 0) :
    (gnomNewtonDs true rho m M = 0 ↔ rho = m / M) ∧ (gnomNewtonDs false rho m M = 0 ↔ rho = M / m) := by
  simp only [gnomNewtonDs, if_true, Bool.false_eq_true, if_false, mul_eq_zero, hM, hm, or_false]
  constructor
  · rw [eq_div_iff hM]; constructor <;> intro h <;> linarith
  · rw [eq_div_iff hm]; constructor <;> intro h <;> linarith

/-! ## Cassini–Soldner: the sign cases of the wrapper -/

/-- `x` is half the length of the symmetric geodesic `(lat, −|dlon|) → (lat, |dlon|)` (i.e. the distance from the central
    meridian, which that geodesic crosses at right angles by symmetry), negative to the west -/
theorem cass_x (dlon sig12 s12 azi1 azi2 da : ℝ) (neg : Bool) :
    (cassForwardXA dlon neg sig12 s12 azi1 azi2 da).1 = if neg then -(s12 / 2) else s12 / 2 := by
  have hhalf : (RealLike.ofDec 5 1 : ℝ) = 1 / 2 := by show ((5 : ℕ) : ℝ) / 10 ^ 1 = 1 / 2; norm_num
  cases neg <;> simp [cassForwardXA, hhalf] <;> ring

/-- mirror symmetry in the central meridian: `x ↦ −x`, and the azimuths of the two mirror images are those at the two ends
    of the same symmetric geodesic -/
theorem cass_mirror (dlon sig12 s12 azi1 azi2 da : ℝ) (hs : s12 ≠ 0) :
    (cassForwardXA dlon true sig12 s12 azi1 azi2 da).1 = -(cassForwardXA dlon false sig12 s12 azi1 azi2 da).1 ∧
    (cassForwardXA dlon true sig12 s12 azi1 azi2 da).2.1 = azi1 ∧ (cassForwardXA dlon false sig12 s12 azi1 azi2 da).2.1 = azi2 := by
  have hhalf : (RealLike.ofDec 5 1 : ℝ) = 1 / 2 := by show ((5 : ℕ) : ℝ) / 10 ^ 1 = 1 / 2; norm_num
  simp [cassForwardXA, hhalf, ofNat_real, hs]

/-- on the central meridian (`s12 = 0`) the returned azimuth is `±90° ∓ da` resp. `±90° ± da`: east for `|dlon| ≤ 90`, west
    on the far side of the pole -/
theorem cass_on_meridian (dlon sig12 azi1 azi2 da : ℝ) (neg : Bool) :
    (cassForwardXA dlon neg sig12 0 azi1 azi2 da).2.1 =
      (if |dlon| ≤ 90 then (if neg then 90 - da else 90 + da) else (if neg then -90 - da else -90 + da)) := by
  by_cases h : |dlon| ≤ 90 <;> cases neg <;> simp [cassForwardXA, ofNat_real, h]

/-! ## Intersect: the closed-form helpers (no theorem about the tiling search itself) -/
open GeoVerif.IntersectFix

/-- `fixcoincident` moves an intersection `p` of coincident geodesics (orientation `c = ±1`) along the line of coincident
    intersections `{p + (t, c t)}` to the point centred on `p0` (`Δx = −c Δy`), which minimises the documented L1 distance
    to `p0` among all points of that line -/
theorem fixcoincident_spec (p0 p : XP ℝ) (c : Int) (hc : c = 1 ∨ c = -1) :
    (fixcoincident p0 p c).y - p.y = c * ((fixcoincident p0 p c).x - p.x) ∧
    (fixcoincident p0 p c).x - p0.x = -(c * ((fixcoincident p0 p c).y - p0.y)) ∧
    (fixcoincident p0 p c).c = p.c ∧
    ∀ t : ℝ, |(fixcoincident p0 p c).x - p0.x| + |(fixcoincident p0 p c).y - p0.y| ≤ |p.x + t - p0.x| + |p.y + c * t - p0.y| := by
  rcases hc with rfl | rfl
  · simp only [fixcoincident, ofC, ofNat_real]
    norm_num
    refine ⟨by ring, ?_⟩
    intro t
    rcases abs_cases (p.x + (p0.x + p0.y - (p.x + p.y)) / 2 - p0.x) with h1 | h1 <;>
    rcases abs_cases (p.y + (p0.x + p0.y - (p.x + p.y)) / 2 - p0.y) with h2 | h2 <;>
    rcases abs_cases (p.x + t - p0.x) with h3 | h3 <;>
    rcases abs_cases (p.y + t - p0.y) with h4 | h4 <;> linarith [h1.1, h2.1, h3.1, h4.1]
  · simp only [fixcoincident, ofC, ofNat_real]
    norm_num
    refine ⟨by ring, ?_⟩
    intro t
    rcases abs_cases (p.x + (p0.x + -p0.y - (p.x + -p.y)) / 2 - p0.x) with h1 | h1 <;>
    rcases abs_cases (p.y + -((p0.x + -p0.y - (p.x + -p.y)) / 2) - p0.y) with h2 | h2 <;>
    rcases abs_cases (p.x + t - p0.x) with h3 | h3 <;>
    rcases abs_cases (p.y + -t - p0.y) with h4 | h4 <;> linarith [h1.1, h2.1, h3.1, h4.1]

/-- the documented segment indicator `3 kx + ky` vanishes exactly when the intersection lies within both segments -/
theorem segmentmode_zero_iff (sx sy : ℝ) (p : XP ℝ) :
    segmentmode sx sy p = 0 ↔ (0 ≤ p.x ∧ p.x ≤ sx) ∧ (0 ≤ p.y ∧ p.y ≤ sy) := by
  simp only [segmentmode, ltb_real, leb_real, ofNat_real, decide_eq_true_eq, Nat.cast_zero]
  by_cases h1 : p.x < 0 <;> by_cases h2 : p.x ≤ sx <;> by_cases h3 : p.y < 0 <;> by_cases h4 : p.y ≤ sy <;>
    simp [h1, h2, h3, h4] <;> (try constructor) <;> (try linarith)

/-! ## nearest neighbour: Save / Load -/
open GeoVerif.VPTree

/-- `Load(Save(t)) = t` on the text layout (as integer tokens; whatever follows the tree in the stream is ignored), for
    every tree `Save` can be given by `Initialize`/`Load` (`WellFormed`: what `Node::Check` demands) -/
theorem save_load_roundtrip (realspec maxbucket : Int) (t : Tree) (extra : List Int) (h : WellFormed maxbucket t) :
    load realspec maxbucket (save realspec t ++ extra) = .ok t :=
  load_save realspec maxbucket t extra h

/-- a concrete three-point tree (bucket 2) satisfies the hypothesis -/
def exTree : Tree := { bucket := 2, numpoints := 3, cost := 2, nodes := [.leaf [1, 2], .inner 0 0 0 (-1) 1 2 0] }
example : WellFormed 10 exTree :=
  ⟨by decide, by decide, by decide, by decide,
   ⟨⟨by decide, by intro ls h; cases h; rfl⟩, ⟨⟨by decide, by intro ls h; cases h⟩, trivial⟩⟩, by decide⟩
example : load (-63) 10 (save (-63) exTree) = .ok exTree := by decide

/-- `Load(Save(t)) = t` on the binary layout as bytes (magic string, six 32-bit header words, per node the index and either
    `lower[2]`, `upper[2]` (64 bit each), `child[2]` or the `bucket` leaf slots; little endian two's complement), for every
    well-formed tree whose fields fit their C++ types -/
theorem save_load_roundtrip_binary (realspec maxbucket : Int) (t : Tree) (extra : List Nat) (h : WellFormed maxbucket t)
    (hrs : In32 realspec) (hnp : In32 t.numpoints) (hcost : In32 t.cost) (hmb : In32 maxbucket) (hr : NodesRange t.nodes) :
    loadBin realspec maxbucket (saveBin realspec t ++ extra) = .ok t :=
  loadBin_saveBin realspec maxbucket t extra h hrs hnp hcost hmb hr
example : loadBin (-63) 10 (saveBin (-63) exTree) = .ok exTree := by decide

/-- everything `Load` accepts passes the header checks, `Node::Check` *with the node's own position as the bound on
    its child pointers* (fix 49e729b): in particular children are stored before their parents, so the child pointers of
    an accepted file cannot form a cycle — and (fix 90dea91) no node index is named twice as a child -/
theorem load_rejects (realspec maxbucket : Int) (toks : List Int) (t : Tree) (h : load realspec maxbucket toks = .ok t) :
    0 ≤ t.bucket ∧ t.bucket ≤ maxbucket ∧ (t.nodes.length : Int) ≤ t.numpoints ∧ 0 ≤ t.cost ∧
    (∀ (j : Nat) (n : Node), t.nodes[j]? = some n → nodeCheck t.numpoints (j : Int) n = true) ∧
    (∀ (j : Nat) v lo0 up0 c0 lo1 up1 c1, t.nodes[j]? = some (Node.inner v lo0 up0 c0 lo1 up1 c1) → c0 < j ∧ c1 < j ∧ (v : Int) < t.numpoints) ∧
    (children t.nodes).Nodup := by
  match toks, h with
  | [], h | [_], h | [_, _], h | [_, _, _], h | [_, _, _, _], h | [_, _, _, _, _], h => simp [load] at h
  | version1 :: realspec1 :: bucket :: numpoints :: treesize :: cost :: toks', h =>
    simp only [load] at h
    by_cases h1 : (version1 != version) = true
    · rw [if_pos h1] at h; cases h
    rw [if_neg h1] at h
    by_cases h2 : (realspec1 != realspec) = true
    · rw [if_pos h2] at h; cases h
    rw [if_neg h2] at h
    by_cases h3 : (!(decide (0 ≤ bucket) && decide (bucket ≤ maxbucket))) = true
    · rw [if_pos h3] at h; cases h
    rw [if_neg h3] at h
    by_cases h4 : (!(decide (0 ≤ treesize) && decide (treesize ≤ numpoints))) = true
    · rw [if_pos h4] at h; cases h
    rw [if_neg h4] at h
    by_cases h5 : (!decide (0 ≤ cost)) = true
    · rw [if_pos h5] at h; cases h
    rw [if_neg h5] at h
    cases hns : loadNodes bucket.toNat numpoints treesize.toNat 0 [] toks' with
    | error e => rw [hns] at h; cases h
    | ok ns =>
      rw [hns] at h
      cases h
      obtain ⟨hlen, hall, hnd, _⟩ := loadNodes_ok bucket.toNat numpoints treesize.toNat 0 [] toks' ns hns
      simp only [Bool.not_eq_true', Bool.and_eq_false_iff, decide_eq_false_iff_not, not_or, not_not] at h3 h4 h5
      have hnode : ∀ (j : Nat) (n : Node), ns[j]? = some n → nodeCheck numpoints (j : Int) n = true := by
        intro j n hj; have := hall j n hj; simpa using this
      refine ⟨h3.1, h3.2, ?_, h5, hnode, ?_, hnd⟩
      · show (ns.length : Int) ≤ numpoints
        rw [hlen]; omega
      · intro j v lo0 up0 c0 lo1 up1 c1 hj
        have := hnode j _ hj
        simp only [nodeCheck, Bool.and_eq_true, decide_eq_true_eq] at this
        show c0 < (j : Int) ∧ c1 < (j : Int) ∧ (v : Int) < numpoints
        omega

/-- **every accepted file is a forest**: in the directed graph "node `j` → its non-negative child pointers" of a file that
    `Load` accepts, (i) every edge goes to a *smaller* index inside the file (so there is no cycle), (ii) no node has two
    parents, and (iii) the two child pointers of a node are different.  (Hence the nodes reachable from the root — the last
    node — form a tree and `Search` looks at each of them at most once: the exponential blow-up of finding F53 is excluded
    for every accepted file.)
    What is still missing for "`Load` ⇒ `TreeInv`" — and cannot be decided by `Load`, which does not see the points:
    that the bounds enclose the distances (`lower[l] ≤ d(v, p) ≤ upper[l]` for the points `p` below child `l`), that every
    point index `0 … numpoints−1` occurs exactly once (indices may repeat or be absent in an accepted file, and nodes not
    reachable from the root may exist), and that a bucket node of a file with `bucket = 0` is never empty. -/
theorem load_is_forest (realspec maxbucket : Int) (toks : List Int) (t : Tree) (h : load realspec maxbucket toks = .ok t) :
    (∀ (j : Nat) (n : Node) (c : Int), t.nodes[j]? = some n → c ∈ kids n → 0 ≤ c ∧ c < j) ∧
    (∀ (j1 j2 : Nat) (n1 n2 : Node) (c : Int), t.nodes[j1]? = some n1 → t.nodes[j2]? = some n2 → c ∈ kids n1 → c ∈ kids n2 → j1 = j2) ∧
    (∀ (j : Nat) v lo0 up0 c0 lo1 up1 c1, t.nodes[j]? = some (Node.inner v lo0 up0 c0 lo1 up1 c1) → 0 ≤ c0 → c0 ≠ c1) := by
  obtain ⟨_, _, _, _, _, hlt, hnd⟩ := load_rejects realspec maxbucket toks t h
  refine ⟨?_, ?_, ?_⟩
  · intro j n c hj hc
    cases n with
    | leaf ls => simp [kids] at hc
    | inner v lo0 up0 c0 lo1 up1 c1 =>
      have := hlt j v lo0 up0 c0 lo1 up1 c1 hj
      simp only [kids, List.mem_append] at hc
      rcases hc with hc | hc
      · by_cases h0 : c0 < 0
        · simp [h0] at hc
        · simp only [h0, if_false, List.mem_singleton] at hc; subst hc; omega
      · by_cases h1 : c1 < 0
        · simp [h1] at hc
        · simp only [h1, if_false, List.mem_singleton] at hc; subst hc; omega
  · intro j1 j2 n1 n2 c h1 h2 c1 c2
    exact parent_unique hnd h1 h2 c1 c2
  · intro j v lo0 up0 c0 lo1 up1 c1 hj h0 e
    subst e
    have hk : (kids (Node.inner v lo0 up0 c0 lo1 up1 c0)).Nodup := by
      have hsub : ∀ (ns : List Node) (j : Nat) (n : Node), ns[j]? = some n → (children ns).Nodup → (kids n).Nodup := by
        intro ns
        induction ns with
        | nil => intro j n hj; simp at hj
        | cons m ms ih =>
          intro j n hj hn
          simp only [children, List.nodup_append] at hn
          cases j with
          | zero => simp at hj; subst hj; exact hn.1
          | succ j => simp at hj; exact ih j n hj hn.2.1
      exact hsub _ j _ hj hnd
    have h0' : ¬ c0 < 0 := by omega
    simp [kids, h0'] at hk

/-- a file in which two nodes name the same child is rejected (the DAG image of finding F53, 3 nodes) -/
example : load (-63) 10 [1, -63, 0, 3, 3, 0,  0, 0, 0, -1, 0, 0, -1,  1, 0, 5, 0, 5, 9, -1,  2, 0, 5, 0, 5, 9, 1] =
    .error "Bad child pointers" := by decide

/-! ## nearest neighbour: the search -/

/-- the executable invariant check the driver runs on every dumped tree (built by `Initialize`, or reloaded) implies
    `TreeInv`, the hypothesis of `search_is_bruteforce` -/
theorem checkInv_sound (tree : Array Node) (numpoints bucket : Nat) (d : Nat → Nat → Int)
    (h : checkInv tree numpoints bucket d = true) : TreeInv tree bucket numpoints d :=
  checkInv_sound' tree numpoints bucket d h

/--
**`Search` = brute force.**  For any metric space `(α, dist)` (`dist x x = 0`, symmetric, triangle inequality; values in an
ordered ring — here `ℤ`, the harness instantiates `dist_t = long long`), any points `pt 0 … pt (numpoints−1)`, any stored
tree satisfying `TreeInv` (the last node is the root of a finite tree of nodes in which every point index occurs exactly
once and, for an internal node with vantage point `v`, every point `p` below child `l` has
`lower[l] ≤ dist v p ≤ upper[l]`), any query point `q`, any `k`, `maxdist`, `mindist` (no side condition: for `k ≤ 0`,
`maxdist ≤ mindist` or an empty set both sides are empty), `exhaustive = true`, `tol = 0`:
the model of `NearestNeighbor::Search` (the definitions of `Model/VPTree.lean` that the driver runs against the
implementation) terminates within its fuel (`numpoints` pops of `todo`) and returns, in ascending order, exactly the
distances of the `k` nearest points a brute-force scan finds in the window `mindist < d ≤ maxdist`.
Ingredients (in `Proofs/VPTree.lean`): `pushChild_spec` (soundness of the three pruning tests by the triangle inequality —
false for the seeded change that tests `lower` instead of `upper`), `visit_spec` (best-`k` heap invariant, `tau`),
`loop_spec` (invariant of the main loop and fuel adequacy).
-/
theorem search_is_bruteforce {α : Type} (dist : α → α → Int) (pt : Nat → α) (q : α)
    (h0 : ∀ x, dist x x = 0) (hsymm : ∀ x y, dist x y = dist y x) (htri : ∀ x y z, dist x z ≤ dist x y + dist y z)
    (tree : Array Node) (numpoints bucket : Nat) (Q : Query) (hex : Q.exhaustive = true) (htol : Q.tol = 0)
    (hinv : TreeInv tree bucket numpoints (fun i j => dist (pt i) (pt j))) :
    ∃ res, search tree numpoints bucket (fun i => dist (pt i) q) Q = some res ∧
      res.map (·.1) = bruteforce numpoints (fun i => dist (pt i) q) Q := by
  have hm : MetricQ (fun i j => dist (pt i) (pt j)) (fun i => dist (pt i) q) := by
    refine ⟨?_, ?_, ?_, ?_⟩
    · intro p
      have := htri (pt p) q (pt p); rw [h0, hsymm q (pt p)] at this; omega
    · intro v p
      have := htri (pt p) (pt v) q; rw [hsymm (pt p) (pt v)] at this; omega
    · intro v p
      have := htri (pt v) q (pt p); rw [hsymm q (pt p)] at this; omega
    · intro v p
      exact htri (pt v) (pt p) q
  exact search_spec hm Q hex htol hinv

/-- `exhaustive = false` (`tol = 0`): at most `k` results, all inside the window `(mindist, maxdist]` (distinct points by
    `search_returns_points`); and — the documented "if less than k results are returned then the search was exhaustive" —
    fewer than `k` results are *all* the points of the window, ascending -/
theorem search_nonexhaustive {α : Type} (dist : α → α → Int) (pt : Nat → α) (q : α)
    (h0 : ∀ x, dist x x = 0) (hsymm : ∀ x y, dist x y = dist y x) (htri : ∀ x y z, dist x z ≤ dist x y + dist y z)
    (tree : Array Node) (numpoints bucket : Nat) (Q : Query) (hex : Q.exhaustive = false) (htol : Q.tol = 0)
    (hinv : TreeInv tree bucket numpoints (fun i j => dist (pt i) (pt j))) :
    ∃ res, search tree numpoints bucket (fun i => dist (pt i) q) Q = some res ∧ res.length ≤ Q.k.toNat ∧
      (∀ x ∈ res.map (·.1), inWindow Q x = true) ∧
      (res.length < Q.k.toNat →
        res.map (·.1) = sortAsc (((List.range numpoints).map (fun i => dist (pt i) q)).filter (inWindow Q))) := by
  have hm : MetricQ (fun i j => dist (pt i) (pt j)) (fun i => dist (pt i) q) := by
    refine ⟨?_, ?_, ?_, ?_⟩
    · intro p
      have := htri (pt p) q (pt p); rw [h0, hsymm q (pt p)] at this; omega
    · intro v p
      have := htri (pt p) (pt v) q; rw [hsymm (pt p) (pt v)] at this; omega
    · intro v p
      have := htri (pt v) q (pt p); rw [hsymm q (pt p)] at this; omega
    · intro v p
      exact htri (pt v) (pt p) q
  exact search_ne hm Q hex htol hinv

/-- the items returned are *points of the set*: pairs `(dist(pt i, q), i)` for pairwise distinct indices `i < numpoints`
    (for every query, also non-exhaustive or approximate ones, and every distance function); with
    `search_is_bruteforce`: the returned indices are `k` distinct points whose distances are exactly those of the `k`
    nearest in the window -/
theorem search_returns_points {α : Type} (dist : α → α → Int) (pt : Nat → α) (q : α)
    (tree : Array Node) (numpoints bucket : Nat) (Q : Query)
    (hinv : TreeInv tree bucket numpoints (fun i j => dist (pt i) (pt j)))
    (res : List Item) (h : search tree numpoints bucket (fun i => dist (pt i) q) Q = some res) :
    (res.map (·.2)).Nodup ∧ ∀ it ∈ res, ∃ p, p < numpoints ∧ it = (dist (pt p) q, (p : Int)) :=
  search_items Q hinv res h

/-- non-vacuity: the integers with `|x − y|` are a metric space, and a concrete stored tree (three points 0, 1, 3 on a
    line, bucket size 2) satisfies `TreeInv` -/
example : (∀ x : Int, ((x - x).natAbs : Int) = 0) ∧ (∀ x y : Int, ((x - y).natAbs : Int) = (y - x).natAbs) ∧
    (∀ x y z : Int, ((x - z).natAbs : Int) ≤ (x - y).natAbs + (y - z).natAbs) :=
  ⟨by intro x; omega, by intro x y; omega, by intro x y z; omega⟩
def exPt (i : Nat) : Int := if i = 0 then 0 else if i = 1 then 1 else 3
example : TreeInv #[.leaf [1, 2], .inner 0 0 0 (-1) 1 3 0] 2 3 (fun i j => ((exPt i - exPt j).natAbs : Int)) :=
  checkInv_sound _ _ _ _ (by decide)
example : search #[.leaf [1, 2], .inner 0 0 0 (-1) 1 3 0] 3 2 (fun i => ((exPt i - 2).natAbs : Int))
    { k := 2, maxdist := 100, mindist := 0, exhaustive := true, tol := 0 } = some [(1, 1), (1, 2)] := by decide


/-! ## nearest neighbour: `Initialize` establishes the invariant -/

/-- the full sort the driver uses for `std::nth_element` meets the post-condition `NthSpec` of `std::nth_element`
    (a permutation of the range; nothing before position `nth` is greater than anything from it on; the element at `nth`
    is not greater than any later one) — so the hypothesis of the next theorems is not vacuous -/
theorem nth_element_sort_spec : NthSpec nthSort := nthSort_spec

/--
**`Initialize` establishes `TreeInv`.**  For every distance function `d` (no metric property is needed here), every bucket
size (0 included) and every number of points `n`, and for every function `nth` that meets the post-condition of
`std::nth_element` (`NthSpec`; the concrete `nthSort` does: `nth_element_sort_spec`), the node array produced by the
model `init` of `NearestNeighbor::Initialize`/`init` (`Model/VPTree.lean`: vantage point swapped to the front, distances
to it, partition at the median by `nth`, `lower/upper[0]` = min/max of the inner half, `lower[1]` = the distance at the
median position, `upper[1]` = max of the outer half, the farthest point of each half as its vantage point, children stored
before the parent, bucket leaves sorted and padded with −1, the `bucket = 0` single-point nodes) satisfies `TreeInv`:
the last node is the root of a finite tree of nodes in which every point index `0 … n−1` occurs exactly once and, for each
internal node with vantage point `v` and each child `l`, every point `p` below that child has
`lower[l] ≤ d v p ≤ upper[l]`.  (That children are stored before their parents, with the other demands of `Node::Check`,
is `init_wellformed`.)  The driver compares this `init` (with `nth = nthSort`) with the tree `Initialize` really
builds (op `nn_init`).
-/
theorem init_establishes_inv (nth : Nat → List IdItem → List IdItem) (hn : NthSpec nth) (d : Nat → Nat → Int)
    (bucket n : Nat) : TreeInv (init nth d bucket n).nodes.toArray bucket n d :=
  init_treeInv hn d bucket n

/--
**`Initialize` writes only what `Load` accepts.**  If no distance is negative (`bucket ≤ maxbucket` is tested by
`Initialize` itself), the tree built by `init` is `WellFormed`: at most one node per point, every node passes
`Node::Check` *with its own position as the bound on the child pointers* (children are stored before their parents;
vantage and leaf indices `< n`; `0 ≤ lower[0] ≤ upper[0] ≤ lower[1] ≤ upper[1]` — the middle inequality is the partition
property of `nth_element`; bucket nodes hold at least one index followed by −1 only), and no node is named twice as a child.
Hence `save_load_roundtrip(_binary)` applies to every tree `Initialize` builds: `Load(Save(init …)) = init …`.
-/
theorem init_wellformed (nth : Nat → List IdItem → List IdItem) (hn : NthSpec nth) (d : Nat → Nat → Int)
    (hd : ∀ i j, 0 ≤ d i j) (bucket n : Nat) (maxbucket : Int) (hb : (bucket : Int) ≤ maxbucket) :
    WellFormed maxbucket (init nth d bucket n) :=
  init_wf hn d hd bucket n maxbucket hb

/-- `Load ∘ Save ∘ Initialize = Initialize` on the text layout -/
theorem init_save_load (nth : Nat → List IdItem → List IdItem) (hn : NthSpec nth) (d : Nat → Nat → Int)
    (hd : ∀ i j, 0 ≤ d i j) (bucket n : Nat) (realspec maxbucket : Int) (hb : (bucket : Int) ≤ maxbucket) (extra : List Int) :
    load realspec maxbucket (save realspec (init nth d bucket n) ++ extra) = .ok (init nth d bucket n) :=
  save_load_roundtrip realspec maxbucket _ extra (init_wellformed nth hn d hd bucket n maxbucket hb)

/-- the instance the driver executes -/
example (d : Nat → Nat → Int) (bucket n : Nat) : TreeInv (init nthSort d bucket n).nodes.toArray bucket n d :=
  init_establishes_inv nthSort nth_element_sort_spec d bucket n

/--
**Nearest-neighbour search is correct, end to end** — no hypothesis about the tree.  For any metric space `(α, dist)`
(`dist x x = 0`, symmetric, triangle inequality; `ℤ`-valued), any points `pt 0 … pt (n−1)`, any bucket size, any
`nth_element` meeting its post-condition, any query point `q`, any `k`, `maxdist`, `mindist`, `exhaustive = true`,
`tol = 0`: `Search` on the tree built by `Initialize` (both as modelled in `Model/VPTree.lean` and run by the driver
against the implementation) terminates and returns, ascending, exactly the distances of the `k` nearest points of the
window `mindist < d ≤ maxdist` that a brute-force scan finds.
-/
theorem nearest_neighbor_correct {α : Type} (dist : α → α → Int) (pt : Nat → α) (q : α)
    (h0 : ∀ x, dist x x = 0) (hsymm : ∀ x y, dist x y = dist y x) (htri : ∀ x y z, dist x z ≤ dist x y + dist y z)
    (nth : Nat → List IdItem → List IdItem) (hn : NthSpec nth) (n bucket : Nat) (Q : Query)
    (hex : Q.exhaustive = true) (htol : Q.tol = 0) :
    ∃ res, search (init nth (fun i j => dist (pt i) (pt j)) bucket n).nodes.toArray n bucket (fun i => dist (pt i) q) Q = some res ∧
      res.map (·.1) = bruteforce n (fun i => dist (pt i) q) Q :=
  search_is_bruteforce dist pt q h0 hsymm htri _ n bucket Q hex htol
    (init_establishes_inv nth hn (fun i j => dist (pt i) (pt j)) bucket n)

/-- … and the returned indices are distinct points of the set at exactly those distances -/
theorem nearest_neighbor_returns_points {α : Type} (dist : α → α → Int) (pt : Nat → α) (q : α)
    (nth : Nat → List IdItem → List IdItem) (hn : NthSpec nth) (n bucket : Nat) (Q : Query) (res : List Item)
    (h : search (init nth (fun i j => dist (pt i) (pt j)) bucket n).nodes.toArray n bucket (fun i => dist (pt i) q) Q = some res) :
    (res.map (·.2)).Nodup ∧ ∀ it ∈ res, ∃ p, p < n ∧ it = (dist (pt p) q, (p : Int)) :=
  search_returns_points dist pt q _ n bucket Q (init_establishes_inv nth hn (fun i j => dist (pt i) (pt j)) bucket n) res h

/-- a concrete run: the five points 0, 3, 6, 2, 5 on a line, bucket 2 — the tree, and a search on it -/
def exD (i j : Nat) : Int := (((i : Int) * 3 % 7 - (j : Int) * 3 % 7).natAbs : Int)
example : (init nthSort exD 2 5).nodes = [.leaf [4, 1], .leaf [3, 0], .inner 2 1 3 0 4 6 1] := by decide
example : search (init nthSort exD 2 5).nodes.toArray 5 2 (fun i => (((i : Int) * 3 % 7 - 4).natAbs : Int))
    { k := 2, maxdist := 100, mindist := 0, exhaustive := true, tol := 0 } = some [(1, 1), (1, 4)] := by decide

end GeoVerif.Props.C17
