import GeoVerif.Model.Geoid
import GeoVerif.Proofs.GeoidLoc
import GeoVerif.Proofs.GeoidHeader
import GeoVerif.Proofs.GeoidWindow
import GeoVerif.Gen.GeoidH
import Mathlib.Tactic.Linarith
import Mathlib.Tactic.Ring
import Mathlib.Tactic.NormNum
import Mathlib.Tactic.SplitIfs
/-!
# C20 — Geoid heights depend only on the data and the position (core Lean only)

`step`/`run` are the state machine executed by the driver against the
implementation; `heightSpec` is state-free.  The theorems hold for every
`Env` (any raster, any location function with range `[0, w)`, any
interpolation), every reachable state and every operation sequence.
-/
namespace GeoVerif.Props.C20
open GeoVerif GeoVerif.Geoid

variable {F C : Type}

/-- the area-cache invariant: every cached entry equals what the file would give at the wrapped / reflected position -/
def AreaInv (H : Hdr) (pix : Pix) (s : St C) : Prop :=
  s.cache = true → ∀ iy ix : Int, -H.w ≤ ix → ix < 2 * H.w → s.yoff ≤ iy → iy < s.yoff + s.ysize →
    ∀ ixn, (ixn = (if ix < 0 then ix + H.w else if ix ≥ H.w then ix - H.w else ix)) →
      ((ixn ≥ s.xoff ∧ ixn < s.xoff + s.xsize) ∨ (ixn + H.w ≥ s.xoff ∧ ixn + H.w < s.xoff + s.xsize)) →
      s.data (iy - s.yoff) (if ixn ≥ s.xoff then ixn - s.xoff else ixn + H.w - s.xoff) = rawSpec H pix ixn iy

/-- the cell-cache invariant: sentinel, or the prepared stencil of the recorded cell -/
def CellInv (E : Env F C) (s : St C) : Prop :=
  s.cix = E.H.w ∨ s.cc = E.prep s.ciy (gather E.stencil (rawSpec E.H E.pix) s.cix s.ciy)

def GInv (E : Env F C) (s : St C) : Prop := AreaInv E.H E.pix s ∧ CellInv E s

/-- hypotheses on the environment: raster at least two columns wide, even width, stencil offsets within [−1, 2], locations in range -/
structure EnvOK (E : Env F C) : Prop where
  wpos : 2 ≤ E.H.w
  weven : E.H.w % 2 = 0
  stencil : ∀ d ∈ E.stencil, -1 ≤ d.1 ∧ d.1 ≤ 2
  locRange : ∀ lat lon ix iy fx fy, E.loc lat lon = some (ix, iy, fx, fy) → 0 ≤ ix ∧ ix < E.H.w

/-- both stencils of the code satisfy the offset hypothesis -/
theorem stencils_ok : (∀ d ∈ stencilBilinear, -1 ≤ d.1 ∧ d.1 ≤ 2) ∧ (∀ d ∈ stencilCubic, -1 ≤ d.1 ∧ d.1 ≤ 2) := by decide

theorem rawSpec_wrap (H : Hdr) (pix : Pix) (ix iy : Int) (h1 : -H.w ≤ ix) (h2 : ix < 2 * H.w) :
    rawSpec H pix (if ix < 0 then ix + H.w else if ix ≥ H.w then ix - H.w else ix) iy = rawSpec H pix ix iy := by
  unfold rawSpec fileIdx
  by_cases a : ix < 0
  · have : ¬ (ix + H.w < 0) := by omega
    have : ¬ (ix + H.w ≥ H.w) := by omega
    simp [*]
  · by_cases b : ix ≥ H.w
    · have : ¬ (ix - H.w < 0) := by omega
      have : ¬ (ix - H.w ≥ H.w) := by omega
      simp [*]
    · simp [*]

/-- `rawval` (through whatever cache is present) returns the file's pixel -/
theorem rawval_eq (H : Hdr) (pix : Pix) (s : St C) (hA : AreaInv H pix s) (ix iy : Int)
    (h1 : -H.w ≤ ix) (h2 : ix < 2 * H.w) :
    rawval H pix s ix iy = rawSpec H pix ix iy := by
  unfold rawval
  simp only []
  generalize hn : (if ix < 0 then ix + H.w else if ix ≥ H.w then ix - H.w else ix) = ixn
  by_cases hc : s.cache = true ∧ iy ≥ s.yoff ∧ iy < s.yoff + s.ysize ∧
      ((ixn ≥ s.xoff ∧ ixn < s.xoff + s.xsize) ∨ (ixn + H.w ≥ s.xoff ∧ ixn + H.w < s.xoff + s.xsize))
  · rw [if_pos hc]
    obtain ⟨hc1, hc2, hc3, hc4⟩ := hc
    rw [hA hc1 iy ix h1 h2 hc2 hc3 ixn hn.symm hc4, ← hn]
    exact rawSpec_wrap H pix ix iy h1 h2
  · rw [if_neg hc, ← hn]
    exact rawSpec_wrap H pix ix iy h1 h2

theorem gather_rawval (E : Env F C) (hE : EnvOK E) (s : St C) (hA : AreaInv E.H E.pix s) (ix iy : Int)
    (h0 : 0 ≤ ix) (h1 : ix < E.H.w) :
    gather E.stencil (rawval E.H E.pix s) ix iy = gather E.stencil (rawSpec E.H E.pix) ix iy := by
  unfold gather
  apply List.map_congr_left
  intro d hd
  have := hE.stencil d hd
  have := hE.wpos
  exact rawval_eq E.H E.pix s hA _ _ (by omega) (by omega)

/-- a window as `CacheArea` produces it -/
def WindowOK (E : Env F C) (op : Op F) : Prop :=
  ∀ xo yo xs ys, op = .cacheSet xo yo xs ys → 0 ≤ xo ∧ xo < E.H.w ∧ 0 < xs ∧ xs ≤ E.H.w

theorem ix_norm_range (w ix : Int) (hw : 2 ≤ w) (h1 : -w ≤ ix) (h2 : ix < 2 * w) :
    0 ≤ (if ix < 0 then ix + w else if ix ≥ w then ix - w else ix) ∧
    (if ix < 0 then ix + w else if ix ≥ w then ix - w else ix) < w := by
  split <;> (try split) <;> omega

/-- **`CacheArea`'s reads as coded fill the cache correctly**: the two sequential reads per row (from column `iw1` up to
    the end of the raster row, then from column 0), with the reflected row and the half-turn shift beyond a pole, store
    at every cache position the file's pixel at the wrapped / reflected position (`fill`) — for every window with
    `0 ≤ xoff < w`, `xsize ≤ w`, every row offset, even width -/
theorem fillCode_eq_fill (E : Env F C) (hw : 2 ≤ E.H.w) (he : E.H.w % 2 = 0) (xo yo xs : Int)
    (h0 : 0 ≤ xo) (h1 : xo < E.H.w) (h2 : xs ≤ E.H.w) (j k : Int) (hk0 : 0 ≤ k) (hk : k < xs) :
    fillCode E xo yo xs j k = fill E xo yo j k := by
  unfold fillCode fillIdx fill rawSpec fileIdx
  simp only [Int.min_def]
  generalize E.H.w = w at *
  generalize E.H.h = h at *
  split_ifs <;> (first | rfl | (congr 1 <;> omega) | omega)

/-- one step keeps the invariant and a height query returns the state-free specification -/
theorem step_ok (E : Env F C) (hE : EnvOK E) (s : St C) (hI : GInv E s) (op : Op F) (hwin : WindowOK E op) :
    GInv E (step E s op).1 ∧
    (∀ lat lon, op = .height lat lon → (step E s op).2 = some (heightSpec E lat lon)) := by
  obtain ⟨hA, hC⟩ := hI
  cases op with
  | height lat lon =>
    simp only [step, heightSpec]
    cases hl : E.loc lat lon with
    | none => exact ⟨⟨hA, hC⟩, fun lat' lon' h => by cases h; simp [hl]⟩
    | some p =>
      obtain ⟨ix, iy, fx, fy⟩ := p
      have hr := hE.locRange lat lon ix iy fx fy hl
      simp only []
      -- the prepared cell data used by the step equal those of the specification
      have hcc : (if s.threadsafe = true ∨ ¬ (ix = s.cix ∧ iy = s.ciy) then E.prep iy (gather E.stencil (rawval E.H E.pix s) ix iy) else s.cc)
          = E.prep iy (gather E.stencil (rawSpec E.H E.pix) ix iy) := by
        split
        · rw [gather_rawval E hE s hA ix iy hr.1 hr.2]
        · rename_i hnot
          have hsame : ix = s.cix ∧ iy = s.ciy := Decidable.byContradiction fun h => hnot (Or.inr h)
          rcases hC with hC | hC
          · exfalso; omega
          · rw [hC, hsame.1, hsame.2]
      constructor
      · split
        · exact ⟨hA, hC⟩
        · exact ⟨hA, Or.inr (by simpa using hcc)⟩
      · intro lat' lon' heq
        cases heq
        simp only [hl, hcc]
  | cacheSet xo yo xs ys =>
    constructor
    · simp only [step]
      split
      · exact ⟨hA, hC⟩
      · obtain ⟨w0, w1, w2, w3⟩ := hwin xo yo xs ys rfl
        refine ⟨?_, hC⟩
        intro _ iy ix hb1 hb2 hy1 hy2 ixn hixn hx
        dsimp only at hy1 hy2 hx ⊢
        rw [fillCode_eq_fill E hE.wpos hE.weven xo yo xs w0 w1 w3 _ _ (by split_ifs <;> omega) (by split_ifs <;> omega)]
        simp only [fill]
        have e1 : yo + (iy - yo) = iy := by omega
        rw [e1]
        have hrange := ix_norm_range E.H.w ix hE.wpos hb1 hb2
        rw [← hixn] at hrange
        congr 1
        rcases hx with hx | hx
        · have : ixn ≥ xo := hx.1
          simp only [this, if_true]
          have : ¬ (xo + (ixn - xo) ≥ E.H.w) := by omega
          rw [if_neg this]; omega
        · have hlt : ¬ (ixn ≥ xo) := by omega
          simp only [hlt, if_false]
          have : xo + (ixn + E.H.w - xo) ≥ E.H.w := by omega
          simp only [this, if_true]
          omega
    · intro lat lon h; cases h
  | cacheClear =>
    constructor
    · simp only [step]
      split
      · exact ⟨hA, hC⟩
      · exact ⟨(by intro h; cases h), hC⟩
    · intro lat lon h; cases h

/-- the heights a state-free evaluation of the history would give -/
def specRun (E : Env F C) : List (Op F) → List F
  | [] => []
  | .height lat lon :: ops => heightSpec E lat lon :: specRun E ops
  | _ :: ops => specRun E ops

/-- **history independence**: for every operation sequence (valid windows) from every state satisfying the
    invariant, each height query returns `heightSpec` — the same arithmetic term, hence the same bits — whatever
    was evaluated or cached before -/
theorem run_eq_spec (E : Env F C) (hE : EnvOK E) (ops : List (Op F)) (hw : ∀ op ∈ ops, WindowOK E op)
    (s : St C) (hI : GInv E s) : run E s ops = specRun E ops := by
  induction ops generalizing s with
  | nil => rfl
  | cons op ops ih =>
    have hstep := step_ok E hE s hI op (hw op (List.mem_cons_self))
    have ih' := ih (fun o ho => hw o (List.mem_cons_of_mem _ ho)) (step E s op).1 hstep.1
    cases op with
    | height lat lon =>
      have h2 := hstep.2 lat lon rfl
      simp only [run, specRun]
      rw [h2]
      simp only [ih']
    | cacheSet xo yo xs ys =>
      have hnone : (step E s (.cacheSet xo yo xs ys)).2 = none := by
        simp only [step]; split <;> rfl
      simp only [run, specRun]
      rw [hnone]
      simp only [ih']
    | cacheClear =>
      simp only [run, specRun, step]
      exact ih'

/-- the initial state (no cache, sentinel cell) satisfies the invariant -/
theorem init_inv (E : Env F C) (s : St C) (h1 : s.cache = false) (h2 : s.cix = E.H.w) : GInv E s :=
  ⟨fun h => (by rw [h1] at h; cases h), Or.inl h2⟩

/-- a thread-safe object (full cache, never updated) also satisfies it and its state never changes -/
theorem threadsafe_state_const (E : Env F C) (s : St C) (op : Op F) (h : s.threadsafe = true) : (step E s op).1 = s := by
  cases op with
  | height lat lon => simp only [step]; split <;> simp [h]
  | cacheSet xo yo xs ys => simp [step, h]
  | cacheClear => simp [step, h]

/-- two objects with different histories / cache modes return identical heights for the same query list -/
theorem cache_mode_independent (E : Env F C) (hE : EnvOK E) (ops : List (Op F)) (hw : ∀ op ∈ ops, WindowOK E op)
    (s1 s2 : St C) (h1 : GInv E s1) (h2 : GInv E s2) : run E s1 ops = run E s2 ops := by
  rw [run_eq_spec E hE ops hw s1 h1, run_eq_spec E hE ops hw s2 h2]

/-! ### concrete facts about the code's instance -/

theorem stencil_sizes : stencilBilinear.length = 4 ∧ stencilCubic.length = Gen.GeoidC.stencilsize ∧ Gen.GeoidC.nterms = 10 ∧
    Gen.GeoidC.c3.length = 120 ∧ Gen.GeoidC.c3n.length = 120 ∧ Gen.GeoidC.c3s.length = 120 ∧ Gen.GeoidC.pixelMax = 65535 := by decide

/-- in-bounds reads: for a cell `0 ≤ ix < w`, `0 ≤ iy ≤ h−2` (w even ≥ 2, h ≥ 3; exactly the cells `Geoid::height` can locate,
    `concrete_loc_in_raster`) every stencil point maps, after wrap and pole reflection, to a pixel inside the raster -/
theorem stencil_in_bounds (H : Hdr) (hw : 2 ≤ H.w) (hwe : H.w % 2 = 0) (hh : 3 ≤ H.h)
    (ix iy : Int) (hx : 0 ≤ ix ∧ ix < H.w) (hy : 0 ≤ iy ∧ iy ≤ H.h - 2) :
    ∀ d ∈ stencilCubic ++ stencilBilinear,
      0 ≤ (fileIdx H (ix + d.1) (iy + d.2)).1 ∧ (fileIdx H (ix + d.1) (iy + d.2)).1 < H.w ∧
      0 ≤ (fileIdx H (ix + d.1) (iy + d.2)).2 ∧ (fileIdx H (ix + d.1) (iy + d.2)).2 < H.h := by
  intro d hd
  have hd' : (-1 ≤ d.1 ∧ d.1 ≤ 2) ∧ (-1 ≤ d.2 ∧ d.2 ≤ 2) := by
    revert d; decide
  obtain ⟨⟨a1, a2⟩, ⟨b1, b2⟩⟩ := hd'
  unfold fileIdx
  simp only []
  split <;> split <;> (try split) <;> (try split) <;> (try split) <;> simp only [] <;> refine ⟨?_, ?_, ?_, ?_⟩ <;> omega

/-! ### the cubic tables (regenerated from `Geoid.cpp`) -/

/-- the ten monomials in the order used by the interpolation formula: 1, x, y, x², xy, y², x³, x²y, xy², y³ -/
def monos (x y : Int) : List Int := [1, x, y, x * x, x * y, y * y, x * x * x, x * x * y, x * y * y, y * y * y]

/-- stencil weights from the source comment -/
def weights : List Int := [1, 1, 1, 2, 2, 1, 1, 2, 2, 1, 1, 1]

def tcoef (tbl : List Int) (j i : Nat) : Int := tbl.getD (10 * j + i) 0

/-- **exact reproduction**: fitting the samples of any cubic returns its coefficients:
    `Σ_j c3[10j+i]·m_k(x_j, y_j) = c0·δ_ik` for the interior table -/
theorem cubic_reproduces :
    (List.range 10).all (fun i => (List.range 10).all fun k =>
      ((List.range 12).map fun j => tcoef Gen.GeoidC.c3 j i * (monos (stencilCubic.getD j (0, 0)).1 (stencilCubic.getD j (0, 0)).2).getD k 0).sum
        == (if i = k then Gen.GeoidC.c0 else 0)) = true := by decide +kernel

/-- **weighted least squares**: for every stencil point `k` the row `c3[k,·]` solves the normal equations
    `(AᵀWA)·c = c0·w_k·m(x_k, y_k)` of the weighted cubic fit -/
theorem cubic_normal_equations :
    (List.range 12).all (fun k => (List.range 10).all fun i =>
      ((List.range 10).map fun l =>
          (((List.range 12).map fun j => weights.getD j 0 *
              (monos (stencilCubic.getD j (0, 0)).1 (stencilCubic.getD j (0, 0)).2).getD i 0 *
              (monos (stencilCubic.getD j (0, 0)).1 (stencilCubic.getD j (0, 0)).2).getD l 0).sum) * tcoef Gen.GeoidC.c3 k l).sum
        == Gen.GeoidC.c0 * weights.getD k 0 * (monos (stencilCubic.getD k (0, 0)).1 (stencilCubic.getD k (0, 0)).2).getD i 0) = true := by
  decide +kernel

/-- the polar tables reproduce constants and have no pure-x terms at the north pole (height independent of longitude there) -/
theorem polar_tables :
    ((List.range 12).map fun j => tcoef Gen.GeoidC.c3n j 0).sum = Gen.GeoidC.c0n ∧
    ((List.range 12).map fun j => tcoef Gen.GeoidC.c3s j 0).sum = Gen.GeoidC.c0s ∧
    ((List.range 12).all fun j => tcoef Gen.GeoidC.c3n j 1 == 0 && tcoef Gen.GeoidC.c3n j 3 == 0 && tcoef Gen.GeoidC.c3n j 6 == 0) = true := by
  decide +kernel


/-- **the floating-point cell location stays inside the raster** (was a per-query checked hypothesis):
for every raster of width `2 ≤ w ≤ 2^31` — `w` is a C++ `int` — the binary64 instance of the environment
satisfies `EnvOK`; the column index `⌊lon·rnd(w/360)⌋` (two roundings) wrapped by `±w` is in `[0, w)` for every
position.  Proof: monotonicity of correct rounding (`Proofs/RoundQ.lean`, `Proofs/DivTo.lean`, `Proofs/GeoidLoc.lean`). -/
theorem concrete_envOK (f : File) (cubic : Bool) (h2 : 2 ≤ f.w) (hev : f.w % 2 = 0) (hmax : f.w ≤ 2 ^ 31) :
    EnvOK (concrete f cubic) where
  wpos := h2
  weven := hev
  stencil := by
    intro d hd
    cases cubic
    · exact stencils_ok.1 d hd
    · exact stencils_ok.2 d hd
  locRange := fun lat lon ix iy fx fy h => locF_ix_range f h2 hmax lat lon ix iy fx fy h

/-- hence history- and cache-mode-independence of the binary64 model needs no location hypothesis -/
theorem concrete_run_eq_spec (f : File) (cubic : Bool) (h2 : 2 ≤ f.w) (hev : f.w % 2 = 0) (hmax : f.w ≤ 2 ^ 31)
    (ops : List (Op F64)) (hw : ∀ op ∈ ops, WindowOK (concrete f cubic) op)
    (s : St (List F64)) (hI : GInv (concrete f cubic) s) :
    run (concrete f cubic) s ops = specRun (concrete f cubic) ops :=
  run_eq_spec (concrete f cubic) (concrete_envOK f cubic h2 hev hmax) ops hw s hI

example : (2:ℤ) ≤ (⟨8, 5, .fin false 0 0, .fin false 1 0, #[]⟩ : File).w ∧ (⟨8, 5, .fin false 0 0, .fin false 1 0, #[]⟩ : File).w % 2 = 0 ∧
    (⟨8, 5, .fin false 0 0, .fin false 1 0, #[]⟩ : File).w ≤ 2 ^ 31 := by decide

/-! ### the public operations on the binary64 instance: no hypothesis left -/

/-- what the constructor guarantees about an accepted raster (`accepted_shape`), in the form the theorems on the
    binary64 instance need it -/
structure FileOK (f : File) : Prop where
  w2 : 2 ≤ f.w
  wev : f.w % 2 = 0
  wmax : f.w ≤ 2 ^ 30
  h3 : 3 ≤ f.h
  hmax : f.h ≤ 2 ^ 30

theorem FileOK.env {f : File} (hf : FileOK f) (cubic : Bool) : EnvOK (concrete f cubic) :=
  concrete_envOK f cubic hf.w2 hf.wev (by have := hf.wmax; omega)

/-- **the window hypothesis is discharged**: every window that the executed model of `CacheArea`'s floating-point index
    arithmetic produces satisfies `WindowOK` (and its rows lie in `[−1, h]`) -/
theorem cacheWindow_windowOK (f : File) (cubic : Bool) (hf : FileOK f) (so we no ea : F64) (xo yo xs ys : Int)
    (h : cacheWindow f cubic so we no ea = .set xo yo xs ys) :
    WindowOK (concrete f cubic) (.cacheSet xo yo xs ys) ∧ -1 ≤ yo ∧ 0 < ys ∧ yo + ys ≤ f.h + 1 := by
  obtain ⟨a1, a2, a3, a4, a5, a6, a7⟩ := cacheWindow_ok f cubic hf.w2 hf.wev (by have := hf.wmax; omega) hf.h3 (by have := hf.hmax; omega) so we no ea xo yo xs ys h
  refine ⟨?_, a5, a6, a7⟩
  intro xo' yo' xs' ys' he
  cases he
  exact ⟨a1, a2, a3, a4⟩

theorem apiCacheArea_inv (f : File) (cubic : Bool) (hf : FileOK f) (s : St (List F64)) (hI : GInv (concrete f cubic) s)
    (so we no ea : F64) : GInv (concrete f cubic) (apiCacheArea f cubic s so we no ea) := by
  unfold apiCacheArea
  split
  · exact (step_ok (concrete f cubic) (hf.env cubic) s hI .cacheClear (by intro _ _ _ _ h; cases h)).1
  · exact hI
  · rename_i xo yo xs ys hw
    exact (step_ok (concrete f cubic) (hf.env cubic) s hI _ (cacheWindow_windowOK f cubic hf so we no ea xo yo xs ys hw).1).1

/-- one public operation keeps the invariant, and a height query returns the state-free specification -/
theorem apiStep_ok (f : File) (cubic : Bool) (hf : FileOK f) (s : St (List F64)) (hI : GInv (concrete f cubic) s) (op : ApiOp) :
    GInv (concrete f cubic) (apiStep f cubic s op).1 ∧
    (∀ lat lon, op = .height lat lon → (apiStep f cubic s op).2 = some (heightSpec (concrete f cubic) lat lon)) := by
  cases op with
  | height lat lon =>
    have := step_ok (concrete f cubic) (hf.env cubic) s hI (.height lat lon) (by intro _ _ _ _ h; cases h)
    exact ⟨this.1, fun la lo h => by cases h; exact this.2 lat lon rfl⟩
  | cacheArea so we no ea =>
    exact ⟨apiCacheArea_inv f cubic hf s hI so we no ea, fun _ _ h => by cases h⟩
  | cacheAll =>
    exact ⟨apiCacheArea_inv f cubic hf s hI _ _ _ _, fun _ _ h => by cases h⟩
  | cacheClear =>
    exact ⟨(step_ok (concrete f cubic) (hf.env cubic) s hI .cacheClear (by intro _ _ _ _ h; cases h)).1, fun _ _ h => by cases h⟩

/-- the heights a state-free evaluation of a history of public operations gives -/
def apiSpecRun (f : File) (cubic : Bool) : List ApiOp → List F64
  | [] => []
  | .height lat lon :: ops => heightSpec (concrete f cubic) lat lon :: apiSpecRun f cubic ops
  | _ :: ops => apiSpecRun f cubic ops

/-- **history independence of the executed binary64 model, no hypothesis left**: for every accepted raster shape, every
    sequence of `operator()`, `CacheArea(south, west, north, east)` with *arbitrary* binary64 limits, `CacheAll`,
    `CacheClear`, from every state satisfying the invariant, each height is `heightSpec` (the same term, hence the same
    bits) -/
theorem api_history_independent (f : File) (cubic : Bool) (hf : FileOK f) (ops : List ApiOp)
    (s : St (List F64)) (hI : GInv (concrete f cubic) s) : apiRun f cubic s ops = apiSpecRun f cubic ops := by
  induction ops generalizing s with
  | nil => rfl
  | cons op ops ih =>
    obtain ⟨h1, h2⟩ := apiStep_ok f cubic hf s hI op
    have ih' := ih (apiStep f cubic s op).1 h1
    cases op with
    | height lat lon =>
      have := h2 lat lon rfl
      simp only [apiRun, apiSpecRun]
      rw [this]; simp only [ih']
    | cacheArea so we no ea => simp only [apiRun, apiSpecRun, apiStep] at ih' ⊢; exact ih'
    | cacheAll => simp only [apiRun, apiSpecRun, apiStep] at ih' ⊢; exact ih'
    | cacheClear => simp only [apiRun, apiSpecRun, apiStep] at ih' ⊢; exact ih'

/-- the state of a fresh object and of a thread-safe object satisfy the invariant -/
theorem initSt_inv (f : File) (cubic : Bool) : GInv (concrete f cubic) (initSt f) :=
  init_inv (concrete f cubic) (initSt f) rfl rfl

theorem threadsafeSt_inv (f : File) (cubic : Bool) (hf : FileOK f) : GInv (concrete f cubic) (threadsafeSt f cubic) := by
  have h := (apiStep_ok f cubic hf (initSt f) (initSt_inv f cubic) .cacheAll).1
  exact ⟨h.1, h.2⟩

/-- **cache-mode independence**: a fresh object, a thread-safe object and an object with any history return the same
    heights for the same queries -/
theorem api_cache_mode_independent (f : File) (cubic : Bool) (hf : FileOK f) (ops : List ApiOp) :
    apiRun f cubic (threadsafeSt f cubic) ops = apiRun f cubic (initSt f) ops ∧
    ∀ s, GInv (concrete f cubic) s → apiRun f cubic s ops = apiRun f cubic (initSt f) ops := by
  refine ⟨?_, fun s hs => ?_⟩
  · rw [api_history_independent f cubic hf ops _ (threadsafeSt_inv f cubic hf), api_history_independent f cubic hf ops _ (initSt_inv f cubic)]
  · rw [api_history_independent f cubic hf ops _ hs, api_history_independent f cubic hf ops _ (initSt_inv f cubic)]

example : FileOK ⟨8, 5, .fin false 0 0, .fin false 1 0, #[]⟩ := ⟨by decide, by decide, by decide, by decide, by decide⟩

open GeoVerif.GeoidHeader

/-! ### the constructor: PGM header parsing and validation (byte-level model `Model/GeoidHeader.lean`) -/

/-- the constants of the model are the ones in the source (re-extracted on every run) -/
theorem header_constants_match_source :
    Gen.GeoidH.magic.toList.map Char.toNat = magic ∧
    Gen.GeoidH.keys.map (fun s => s.toList.map Char.toNat) = [keyDescription, keyDateTime, keyOffset, keyScale] ∧
    Gen.GeoidH.cubicKeys.map (fun p => (p.1.toList.map Char.toNat, p.2.toList.map Char.toNat)) =
      [(keyMaxCubic, keyMaxBilinear), (keyRMSCubic, keyRMSBilinear)] ∧
    Gen.GeoidH.messages = Err.all.map Err.msg ∧
    Gen.GeoidH.descDefault.toList.map Char.toNat = HState.init.description ∧
    Gen.GeoidH.dateDefault.toList.map Char.toNat = HState.init.datetime ∧
    Gen.GeoidH.pixelSize = pixelSize ∧ Gen.GeoidC.pixelMax = pixelMax := by decide

/-- **`header_accept_iff`**: the constructor accepts a file exactly when the scanner finds magic, comment block, raster
    size and maxval, and then: maxval = 65535, an offset other than the sentinel, a scale that is neither 0 nor
    negative, width and height ≥ 2, width even, height odd, both at most 2^30 (so that the `int` index arithmetic cannot
    overflow: repair f4ec5a8 of finding F73), the stream position after maxval is known and the file length equals
    `datastart + 2·width·height` (as coded, in 64-bit arithmetic) -/
theorem header_accept_iff (cubic : Bool) (file : Bytes) (len : Nat) (H : Header) :
    parse cubic file len = .ok H ↔
      ∃ raw, scan cubic file = .ok raw ∧
        raw.maxval = pixelMax ∧ F64.eq raw.st.offset Decimal.maxFinite = false ∧ F64.eq raw.st.scale 0 = false ∧
        F64.lt raw.st.scale 0 = false ∧ 2 ≤ raw.w ∧ 2 ≤ raw.h ∧ raw.w % 2 = 0 ∧ raw.h % 2 = 1 ∧ raw.w ≤ 2 ^ 30 ∧ raw.h ≤ 2 ^ 30 ∧
        ∃ p, raw.tell = some p ∧ lengthOKCoded (p + 1) raw.w raw.h len = true ∧ H = hdrOf raw (p + 1) := by
  unfold parse
  cases hs : scan cubic file with
  | error e => simp
  | ok raw =>
    simp only [Except.ok.injEq, exists_eq_left']
    exact validate_ok_iff raw len H

/-- **the length test over unbounded naturals**: for every file shorter than 2^62 bytes of header (any real file) the
    64-bit test of the code is the equation `datastart + 2·w·h = length` in ℕ — no length congruent to the right one
    modulo 2^32 or 2^64 passes -/
theorem header_accept_iff_nat (cubic : Bool) (file : Bytes) (len : Nat) (H : Header) (hfl : file.length < 2 ^ 62) (hlen : len < 2 ^ 64) :
    parse cubic file len = .ok H ↔
      ∃ raw p, scan cubic file = .ok raw ∧ raw.tell = some p ∧
        raw.maxval = pixelMax ∧ F64.eq raw.st.offset Decimal.maxFinite = false ∧ F64.eq raw.st.scale 0 = false ∧
        F64.lt raw.st.scale 0 = false ∧ 2 ≤ raw.w ∧ 2 ≤ raw.h ∧ raw.w % 2 = 0 ∧ raw.h % 2 = 1 ∧ raw.w ≤ 2 ^ 30 ∧ raw.h ≤ 2 ^ 30 ∧
        p + 1 + 2 * raw.w.toNat * raw.h.toNat = len ∧ H = hdrOf raw (p + 1) := by
  rw [header_accept_iff]
  constructor
  · rintro ⟨raw, hs, a1, a2, a3, a4, a5, a6, a7, a8, a9, a10, p, hp, hl, hH⟩
    obtain ⟨⟨⟨_, w2⟩, ⟨_, h2⟩⟩, hpos⟩ := scan_props cubic file raw hs
    have := hpos p hp
    have hl' := (lengthOKCoded_iff (p + 1) raw.w raw.h len ⟨by omega, by omega⟩ ⟨by omega, by omega⟩ (by omega) hlen).mp hl
    exact ⟨raw, p, hs, hp, a1, a2, a3, a4, a5, a6, a7, a8, a9, a10, hl', hH⟩
  · rintro ⟨raw, p, hs, hp, a1, a2, a3, a4, a5, a6, a7, a8, a9, a10, hl, hH⟩
    obtain ⟨⟨⟨_, w2⟩, ⟨_, h2⟩⟩, hpos⟩ := scan_props cubic file raw hs
    have := hpos p hp
    have hl' := (lengthOKCoded_iff (p + 1) raw.w raw.h len ⟨by omega, by omega⟩ ⟨by omega, by omega⟩ (by omega) hlen).mpr hl
    exact ⟨raw, hs, a1, a2, a3, a4, a5, a6, a7, a8, a9, a10, p, hp, hl', hH⟩

/-- **which exception**: a file is rejected with the exception of the first failing step, in the order of the source:
    an error of the scanner, or else the first violated test of `validate` -/
theorem header_reject_iff (cubic : Bool) (file : Bytes) (len : Nat) (e : Err) :
    parse cubic file len = .error e ↔
      scan cubic file = .error e ∨ ∃ raw, scan cubic file = .ok raw ∧ validate raw len = .error e := by
  unfold parse
  cases hs : scan cubic file with
  | error e' => simp
  | ok raw => simp

/-- the order of the tests after the scan (`validate_error_iff` spelled out for a successfully scanned file) -/
theorem header_reject_classes (raw : Raw) (len : Nat) :
    (validate raw len = .error .maxvalValue ↔ raw.maxval ≠ pixelMax) ∧
    (validate raw len = .error .offsetUnset ↔ raw.maxval = pixelMax ∧ F64.eq raw.st.offset Decimal.maxFinite = true) ∧
    (validate raw len = .error .scaleUnset ↔ raw.maxval = pixelMax ∧ F64.eq raw.st.offset Decimal.maxFinite = false ∧ F64.eq raw.st.scale 0 = true) ∧
    (validate raw len = .error .scaleNeg ↔ raw.maxval = pixelMax ∧ F64.eq raw.st.offset Decimal.maxFinite = false ∧ F64.eq raw.st.scale 0 = false ∧
        F64.lt raw.st.scale 0 = true) ∧
    (validate raw len = .error .tooSmall ↔ raw.maxval = pixelMax ∧ F64.eq raw.st.offset Decimal.maxFinite = false ∧ F64.eq raw.st.scale 0 = false ∧
        F64.lt raw.st.scale 0 = false ∧ (raw.h < 2 ∨ raw.w < 2)) ∧
    (validate raw len = .error .widthOdd ↔ raw.maxval = pixelMax ∧ F64.eq raw.st.offset Decimal.maxFinite = false ∧ F64.eq raw.st.scale 0 = false ∧
        F64.lt raw.st.scale 0 = false ∧ 2 ≤ raw.h ∧ 2 ≤ raw.w ∧ raw.w % 2 = 1) ∧
    (validate raw len = .error .heightEven ↔ raw.maxval = pixelMax ∧ F64.eq raw.st.offset Decimal.maxFinite = false ∧ F64.eq raw.st.scale 0 = false ∧
        F64.lt raw.st.scale 0 = false ∧ 2 ≤ raw.h ∧ 2 ≤ raw.w ∧ raw.w % 2 = 0 ∧ raw.h % 2 = 0) ∧
    (validate raw len = .error .tooLarge ↔ raw.maxval = pixelMax ∧ F64.eq raw.st.offset Decimal.maxFinite = false ∧ F64.eq raw.st.scale 0 = false ∧
        F64.lt raw.st.scale 0 = false ∧ 2 ≤ raw.h ∧ 2 ≤ raw.w ∧ raw.w % 2 = 0 ∧ raw.h % 2 = 1 ∧ (2 ^ 30 < raw.w ∨ 2 ^ 30 < raw.h)) ∧
    (validate raw len = .error .wrongLength ↔ raw.maxval = pixelMax ∧ F64.eq raw.st.offset Decimal.maxFinite = false ∧ F64.eq raw.st.scale 0 = false ∧
        F64.lt raw.st.scale 0 = false ∧ 2 ≤ raw.h ∧ 2 ≤ raw.w ∧ raw.w % 2 = 0 ∧ raw.h % 2 = 1 ∧ raw.w ≤ 2 ^ 30 ∧ raw.h ≤ 2 ^ 30 ∧
        (raw.tell = none ∨ ∃ p, raw.tell = some p ∧ lengthOKCoded (p + 1) raw.w raw.h len = false)) ∧
    (∀ e, validate raw len = .error e → e ∈ [Err.maxvalValue, .offsetUnset, .scaleUnset, .scaleNeg, .tooSmall, .widthOdd, .heightEven, .tooLarge, .wrongLength]) :=
  validate_error_iff raw len

/-- **shape of an accepted raster**: even width in [2, 2^30], odd height in [3, 2^30), data inside the file -/
theorem accepted_shape (cubic : Bool) (file : Bytes) (len : Nat) (H : Header) (hfl : file.length < 2 ^ 62) (hlen : len < 2 ^ 64)
    (hacc : parse cubic file len = .ok H) :
    2 ≤ H.w ∧ H.w % 2 = 0 ∧ H.w ≤ 2 ^ 30 ∧ 3 ≤ H.h ∧ H.h % 2 = 1 ∧ H.h ≤ 2 ^ 30 - 1 ∧
    1 ≤ H.datastart ∧ H.datastart ≤ file.length ∧ (H.datastart : Int) + 2 * H.w * H.h = len := by
  obtain ⟨raw, p, hs, hp, _, _, _, _, a5, a6, a7, a8, a9, a10, hl, rfl⟩ := (header_accept_iff_nat cubic file len H hfl hlen).mp hacc
  obtain ⟨⟨⟨_, w2⟩, ⟨_, h2⟩⟩, hpos⟩ := scan_props cubic file raw hs
  have := hpos p hp
  simp only [hdrOf]
  refine ⟨a5, a7, a9, by omega, a8, by omega, by omega, by omega, ?_⟩
  have e1 : ((raw.w.toNat : Nat) : Int) = raw.w := Int.toNat_of_nonneg (by omega)
  have e2 : ((raw.h.toNat : Nat) : Int) = raw.h := Int.toNat_of_nonneg (by omega)
  rw [← hl]
  push_cast
  rw [e1, e2]

/-- an accepted raster has the shape the theorems on the interpolation need -/
theorem accepted_fileOK (cubic : Bool) (file : Bytes) (len : Nat) (H : Header) (hfl : file.length < 2 ^ 62) (hlen : len < 2 ^ 64)
    (hacc : parse cubic file len = .ok H) (f : File) (hw : f.w = H.w) (hh : f.h = H.h) : FileOK f := by
  obtain ⟨a1, a2, a3, a4, _, a6, _⟩ := accepted_shape cubic file len H hfl hlen hacc
  exact ⟨by omega, by omega, by omega, by omega, by omega⟩

/-- a pixel inside the raster lies inside the file (both of its bytes), and its offset fits the signed 64-bit `streamoff` -/
theorem pixel_in_file (H : Header) (len : Nat) (hw : 0 < H.w) (hlen : (H.datastart : Int) + 2 * H.w * H.h = len) (hl63 : len < 2 ^ 63)
    (x y : Int) (hx : 0 ≤ x ∧ x < H.w) (hy : 0 ≤ y ∧ y < H.h) :
    (H.datastart : Int) ≤ GeoidHeader.filepos H x y ∧ GeoidHeader.filepos H x y + 1 < len ∧ GeoidHeader.filepos H x y < 2 ^ 63 := by
  unfold GeoidHeader.filepos
  have h1 : 0 ≤ y * H.w := Int.mul_nonneg hy.1 (by omega)
  have h2 : y * H.w ≤ (H.h - 1) * H.w := Int.mul_le_mul_of_nonneg_right (by omega) (by omega)
  have h3 : (H.h - 1) * H.w = H.w * H.h - H.w := by ring
  have h4 : 2 * H.w * H.h = 2 * (H.w * H.h) := by ring
  have hl : ((len : Nat) : Int) < 2 ^ 63 := by exact_mod_cast hl63
  refine ⟨by omega, by omega, by omega⟩

/-- **accepted ⇒ every read of `height` is inside the file**: for every accepted file, every cell that the location
    arithmetic can produce (`0 ≤ ix < w`, `0 ≤ iy ≤ h − 2`, see `concrete_loc_in_raster`) and every point of the bilinear
    and cubic stencils, the pixel that `rawval` addresses after longitude wrap and pole reflection lies inside the
    file: `datastart ≤ filepos ∧ filepos + 1 < length`, and `filepos` does not overflow the stream offset -/
theorem accepted_reads_in_file (cubic : Bool) (file : Bytes) (len : Nat) (H : Header) (hfl : file.length < 2 ^ 62) (hlen : len < 2 ^ 63)
    (hacc : parse cubic file len = .ok H) (ix iy : Int) (hx : 0 ≤ ix ∧ ix < H.w) (hy : 0 ≤ iy ∧ iy ≤ H.h - 2) :
    ∀ d ∈ stencilCubic ++ stencilBilinear,
      (H.datastart : Int) ≤ GeoidHeader.filepos H (fileIdx ⟨H.w, H.h⟩ (ix + d.1) (iy + d.2)).1 (fileIdx ⟨H.w, H.h⟩ (ix + d.1) (iy + d.2)).2 ∧
      GeoidHeader.filepos H (fileIdx ⟨H.w, H.h⟩ (ix + d.1) (iy + d.2)).1 (fileIdx ⟨H.w, H.h⟩ (ix + d.1) (iy + d.2)).2 + 1 < len ∧
      GeoidHeader.filepos H (fileIdx ⟨H.w, H.h⟩ (ix + d.1) (iy + d.2)).1 (fileIdx ⟨H.w, H.h⟩ (ix + d.1) (iy + d.2)).2 < 2 ^ 63 := by
  intro d hd
  obtain ⟨a1, a2, _, a4, _, _, _, _, a9⟩ := accepted_shape cubic file len H hfl (by omega) hacc
  obtain ⟨b1, b2, b3, b4⟩ := stencil_in_bounds ⟨H.w, H.h⟩ a1 a2 a4 ix iy hx hy d hd
  exact pixel_in_file H len (by omega) a9 hlen _ _ ⟨b1, b2⟩ ⟨b3, b4⟩

/-- **the cell that `Geoid::height` locates is inside the raster** for every binary64 position, the poles included:
    `0 ≤ ix < w` and `0 ≤ iy ≤ h − 2` — exactly the cells of the raster (before the repair 63168e3 of finding F72 latitude +90
    could land in row −1: `Geoid.north_row_needs_clamp`) -/
theorem concrete_loc_in_raster (f : File) (hf : FileOK f) (lat lon : F64) (ix iy : Int) (fx fy : F64)
    (h : locF f lat lon = some (ix, iy, fx, fy)) : (0 ≤ ix ∧ ix < f.w) ∧ (0 ≤ iy ∧ iy ≤ f.h - 2) :=
  ⟨locF_ix_range f hf.w2 (by have := hf.wmax; omega) lat lon ix iy fx fy h, locF_iy_range f hf.h3 lat lon ix iy fx fy h⟩

/-- **header validation ⇒ in-file reads, end to end**: for an accepted file and *any* binary64 position, every pixel the
    bilinear or cubic stencil of the located cell addresses lies inside the file -/
theorem accepted_height_reads_in_file (cubic : Bool) (file : Bytes) (len : Nat) (H : Header) (hfl : file.length < 2 ^ 62) (hlen : len < 2 ^ 63)
    (hacc : parse cubic file len = .ok H) (f : File) (hfw : f.w = H.w) (hfh : f.h = H.h)
    (lat lon : F64) (ix iy : Int) (fx fy : F64) (hloc : locF f lat lon = some (ix, iy, fx, fy)) :
    ∀ d ∈ stencilCubic ++ stencilBilinear,
      (H.datastart : Int) ≤ GeoidHeader.filepos H (fileIdx ⟨H.w, H.h⟩ (ix + d.1) (iy + d.2)).1 (fileIdx ⟨H.w, H.h⟩ (ix + d.1) (iy + d.2)).2 ∧
      GeoidHeader.filepos H (fileIdx ⟨H.w, H.h⟩ (ix + d.1) (iy + d.2)).1 (fileIdx ⟨H.w, H.h⟩ (ix + d.1) (iy + d.2)).2 + 1 < len ∧
      GeoidHeader.filepos H (fileIdx ⟨H.w, H.h⟩ (ix + d.1) (iy + d.2)).1 (fileIdx ⟨H.w, H.h⟩ (ix + d.1) (iy + d.2)).2 < 2 ^ 63 := by
  have hf := accepted_fileOK cubic file len H hfl (by omega) hacc f hfw hfh
  obtain ⟨⟨x1, x2⟩, ⟨y1, y2⟩⟩ := concrete_loc_in_raster f hf lat lon ix iy fx fy hloc
  rw [hfw] at x2; rw [hfh] at y2
  exact accepted_reads_in_file cubic file len H hfl hlen hacc ix iy ⟨x1, x2⟩ ⟨y1, y2⟩


/-- the pixel that `CacheArea` (as coded) stores at `_data[j][k]` is inside the raster, for every window `0 ≤ xoff < w`,
    `xsize ≤ w` and every row from `−(h−1)` to `2(h−1)` (the windows of `cacheWindow` have rows in `[−1, h]`) -/
theorem fillIdx_in_raster (Hd : Hdr) (hw : 2 ≤ Hd.w) (he : Hd.w % 2 = 0) (hh : 3 ≤ Hd.h) (xo yo xs : Int)
    (h0 : 0 ≤ xo) (h1 : xo < Hd.w) (h2 : xs ≤ Hd.w) (j k : Int) (hk0 : 0 ≤ k) (hk : k < xs)
    (hrow : -(Hd.h - 1) ≤ yo + j ∧ yo + j ≤ 2 * (Hd.h - 1)) :
    (0 ≤ (fillIdx Hd xo yo xs j k).1 ∧ (fillIdx Hd xo yo xs j k).1 < Hd.w) ∧
    (0 ≤ (fillIdx Hd xo yo xs j k).2 ∧ (fillIdx Hd xo yo xs j k).2 < Hd.h) := by
  unfold fillIdx
  simp only [Int.min_def]
  generalize Hd.w = w at *
  generalize Hd.h = h at *
  split_ifs <;> omega

/-- **accepted ⇒ every read of `CacheArea` is inside the file**, for every window the floating-point index arithmetic
    can produce (arbitrary binary64 limits): every pixel stored in the cache comes from inside the file; in particular
    the first sequential read of a row (`xs1 = min(w − iw1, xsize)` pixels from column `iw1`) does not run into the next
    raster row -/
theorem accepted_cache_reads_in_file (cubic : Bool) (file : Bytes) (len : Nat) (H : Header) (hfl : file.length < 2 ^ 62) (hlen : len < 2 ^ 63)
    (hacc : parse cubic file len = .ok H) (f : File) (hfw : f.w = H.w) (hfh : f.h = H.h)
    (so we no ea : F64) (xo yo xs ys : Int) (hwin : cacheWindow f cubic so we no ea = .set xo yo xs ys)
    (j k : Int) (hj : 0 ≤ j ∧ j < ys) (hk : 0 ≤ k ∧ k < xs) :
    (H.datastart : Int) ≤ GeoidHeader.filepos H (fillIdx ⟨H.w, H.h⟩ xo yo xs j k).1 (fillIdx ⟨H.w, H.h⟩ xo yo xs j k).2 ∧
    GeoidHeader.filepos H (fillIdx ⟨H.w, H.h⟩ xo yo xs j k).1 (fillIdx ⟨H.w, H.h⟩ xo yo xs j k).2 + 1 < len := by
  have hf := accepted_fileOK cubic file len H hfl (by omega) hacc f hfw hfh
  obtain ⟨a1, a2, _, a4, _, _, _, _, a9⟩ := accepted_shape cubic file len H hfl (by omega) hacc
  obtain ⟨c1, c2, c3, c4, c5, c6, c7⟩ := cacheWindow_ok f cubic hf.w2 hf.wev (by have := hf.wmax; omega) hf.h3 (by have := hf.hmax; omega) so we no ea xo yo xs ys hwin
  rw [hfw] at c2 c4; rw [hfh] at c7
  obtain ⟨⟨b1, b2⟩, ⟨b3, b4⟩⟩ := fillIdx_in_raster ⟨H.w, H.h⟩ a1 a2 a4 xo yo xs c1 c2 c4 j k hk.1 hk.2 (by constructor <;> (simp only []; omega))
  have := pixel_in_file H len (by omega) a9 hlen _ _ ⟨b1, b2⟩ ⟨b3, b4⟩
  exact ⟨this.1, this.2.1⟩

/-- **structure of the header and "the last occurrence counts"**: for a file made of the magic line, a block of empty /
    `#` lines, a raster-size line and the rest, the scanner is the fold of the comment lines followed by the size and
    maxval extraction; and after the fold the offset and the scale are those of the *last* line that sets them (an
    unreadable value anywhere in the block is an error: the fold does not succeed) -/
theorem header_structure (cubic : Bool) (ls : List Bytes) (hls : ∀ l ∈ ls, 10 ∉ l ∧ (l = [] ∨ ∃ t, l = 35 :: t))
    (sz rest : Bytes) (h10 : 10 ∉ sz) (c : Nat) (t : Bytes) (hsz : sz = c :: t) (hc : c ≠ 35) :
    scan cubic (magic ++ 10 :: (joinLines ls ++ (sz ++ 10 :: rest))) =
      match ls.foldlM (procLine cubic) HState.init with
      | .error e => .error e
      | .ok st =>
        match sizeLine sz with
        | none => .error .rasterSize
        | some (w, h) => readMaxval st w h (magic.length + 1 + (joinLines ls).length + sz.length + 1) rest :=
  scan_structured cubic ls hls sz rest h10 c t hsz hc

/-- **every canonical file of every size** (the seeded 32-bit length overflow, and the size limit, as a theorem): for every
    even width in [2, 2^31), every odd height in [3, 2^31), every data section and every length below 2^64, the file
    `P5 / # Offset -108 / # Scale 0.003 / w h / 65535 / data` is rejected with "Raster size too large" when a dimension
    exceeds 2^30; otherwise it is accepted exactly when its length is `header + 2·w·h` in unbounded arithmetic — then with
    the announced width, height, offset −108, scale 0.003 and `datastart` = header length — and with any other length the
    exception is "File has the wrong length" -/
theorem canonical_file_accept_iff (cubic : Bool) (w h : Nat) (hw2 : 2 ≤ w) (hwe : w % 2 = 0) (hwm : w < 2 ^ 31)
    (hh3 : 3 ≤ h) (hho : h % 2 = 1) (hhm : h < 2 ^ 31) (data : Bytes) (len : Nat) (hlen : len < 2 ^ 64) :
    (2 ^ 30 < w ∨ 2 ^ 30 < h → parse cubic (canonFile w h data) len = .error .tooLarge) ∧
    (w ≤ 2 ^ 30 → h ≤ 2 ^ 30 → len = canonHeaderLen w h + 2 * w * h →
      parse cubic (canonFile w h data) len = .ok
        { offset := F64.fin true 108 0, scale := F64.fin false 6917529027641082 (-61), maxerror := HState.init.maxerror,
          rmserror := HState.init.rmserror, description := HState.init.description, datetime := HState.init.datetime,
          w := w, h := h, datastart := canonHeaderLen w h }) ∧
    (w ≤ 2 ^ 30 → h ≤ 2 ^ 30 → len ≠ canonHeaderLen w h + 2 * w * h → parse cubic (canonFile w h data) len = .error .wrongLength) :=
  canonical_file cubic w h hw2 hwe hwm hh3 hho hhm data len hlen

example : canonFile 2 3 [] = str "P5\n# Offset -108\n# Scale 0.003\n2 3\n65535\n" ∧ canonHeaderLen 2 3 = 41 := by
  constructor
  · simp [canonFile, joinLines, dec]; decide
  · simp [canonHeaderLen, dec]

theorem last_occurrence_counts (cubic : Bool) (ls : List Bytes) (st st' : HState) (h : ls.foldlM (procLine cubic) st = .ok st') :
    st'.offset = ((ls.filterMap offsetOf).getLast?).getD st.offset ∧ st'.scale = ((ls.filterMap scaleOf).getLast?).getD st.scale :=
  fold_offset_scale_last cubic ls st st' h

/-! non-vacuity: a well-formed file is accepted with the expected fields; the same header with a data section congruent
    modulo 2^32 to the announced 65536 × 32769 raster is rejected ("File has the wrong length"); duplicated keys -/
example : (match parse true (str "P5\n# Offset -108\n# Scale 0.003\n2 3\n65535\n" ++ List.replicate 12 0) 53 with
    | .ok H => H.w == 2 && H.h == 3 && H.datastart == 41 | .error _ => false) = true := by decide +kernel
example : (match parse false (str "P5\n# Offset -108\n# Scale 0.003\n65536 32769\n65535\n" ++ List.replicate 16 0) (49 + 131072) with
    | .error .wrongLength => true | _ => false) = true := by decide +kernel
example : (match parse false (str "P5\n# Offset -108\n# Scale 0.003\n65536 32769\n65535\n" ++ List.replicate 16 0) (49 + 4295098368) with
    | .ok H => H.w == 65536 && H.h == 32769 | _ => false) = true := by decide +kernel
example : (match scan true (str "P5\n# Scale -1\n# Offset 77\n# Offset -108\n# Scale 0.5\n4 5\n65535\n") with
    | .ok raw => F64.eq raw.st.offset (F64.ofInt (-108)) && F64.eq raw.st.scale (F64.fin false 1 (-1)) && raw.w == 4 && raw.h == 5 && raw.tell == some 61
    | .error _ => false) = true := by decide +kernel

/-! ### the documented interpolation over ℚ (the same formulas `interpBilinearG` / `prepCubicG` / `interpCubicG` the driver
    executes at binary64, read at the rationals; pixels through the same `rawSpec` / `gather`) -/
section exact
variable (H : Hdr) (pix : Pix) (offset scale : ℚ)

/-- the exact bilinear interpolant on cell `(ix, iy)` at the fractional position `(fx, fy)` -/
def bilQ (ix iy : Int) (fx fy : ℚ) : ℚ :=
  interpBilinearG offset scale fx fy (prepBilinearG (fun n => (n : ℚ)) iy (gather stencilBilinear (rawSpec H pix) ix iy))

theorem bilQ_eq (ix iy : Int) (fx fy : ℚ) :
    bilQ H pix offset scale ix iy fx fy =
      offset + scale * ((1 - fy) * ((1 - fx) * (rawSpec H pix ix iy : ℚ) + fx * (rawSpec H pix (ix + 1) iy : ℚ)) +
        fy * ((1 - fx) * (rawSpec H pix ix (iy + 1) : ℚ) + fx * (rawSpec H pix (ix + 1) (iy + 1) : ℚ))) := by
  simp [bilQ, interpBilinearG, prepBilinearG, gather, stencilBilinear]

/-- **bilinear heights reproduce the grid values at the grid nodes** (all four corners of a cell) -/
theorem bilinear_nodes (ix iy : Int) :
    bilQ H pix offset scale ix iy 0 0 = offset + scale * (rawSpec H pix ix iy : ℚ) ∧
    bilQ H pix offset scale ix iy 1 0 = offset + scale * (rawSpec H pix (ix + 1) iy : ℚ) ∧
    bilQ H pix offset scale ix iy 0 1 = offset + scale * (rawSpec H pix ix (iy + 1) : ℚ) ∧
    bilQ H pix offset scale ix iy 1 1 = offset + scale * (rawSpec H pix (ix + 1) (iy + 1) : ℚ) := by
  simp only [bilQ_eq]
  refine ⟨by ring, by ring, by ring, by ring⟩

/-- **… and vary linearly along the cell edges** (all four edges) -/
theorem bilinear_edges_linear (ix iy : Int) (t : ℚ) :
    bilQ H pix offset scale ix iy t 0 = (1 - t) * bilQ H pix offset scale ix iy 0 0 + t * bilQ H pix offset scale ix iy 1 0 ∧
    bilQ H pix offset scale ix iy t 1 = (1 - t) * bilQ H pix offset scale ix iy 0 1 + t * bilQ H pix offset scale ix iy 1 1 ∧
    bilQ H pix offset scale ix iy 0 t = (1 - t) * bilQ H pix offset scale ix iy 0 0 + t * bilQ H pix offset scale ix iy 0 1 ∧
    bilQ H pix offset scale ix iy 1 t = (1 - t) * bilQ H pix offset scale ix iy 1 0 + t * bilQ H pix offset scale ix iy 1 1 := by
  simp only [bilQ_eq]
  refine ⟨by ring, by ring, by ring, by ring⟩

/-- **continuity across cell boundaries**: the polynomial pieces of neighbouring cells agree on the common edge, in
    longitude (`fx = 1` of cell `ix` is `fx = 0` of cell `ix + 1`) and in latitude -/
theorem bilinear_continuous (ix iy : Int) (t : ℚ) :
    bilQ H pix offset scale ix iy 1 t = bilQ H pix offset scale (ix + 1) iy 0 t ∧
    bilQ H pix offset scale ix iy t 1 = bilQ H pix offset scale ix (iy + 1) t 0 := by
  simp only [bilQ_eq]
  refine ⟨by ring, by ring⟩

/-- pixels are periodic in the column index over the range `rawval` accepts (`−w ≤ ix < w`) -/
theorem rawSpec_periodic (ix iy : Int) (hw : 2 ≤ H.w) (h1 : -H.w ≤ ix) (h2 : ix < H.w) :
    rawSpec H pix (ix + H.w) iy = rawSpec H pix ix iy := by
  rw [← rawSpec_wrap H pix (ix + H.w) iy (by omega) (by omega), ← rawSpec_wrap H pix ix iy (by omega) (by omega)]
  congr 1
  split_ifs <;> omega

/-- **longitude periodicity**: the cell one period to the east has the same interpolant; in particular the piece of the
    last column (`ix = w − 1`) joins continuously with the piece of column 0 across the seam -/
theorem bilinear_periodic (ix iy : Int) (fx fy : ℚ) (hw : 2 ≤ H.w) (h1 : -H.w ≤ ix) (h2 : ix + 1 < H.w) :
    bilQ H pix offset scale (ix + H.w) iy fx fy = bilQ H pix offset scale ix iy fx fy := by
  simp only [bilQ_eq]
  have e : ix + H.w + 1 = (ix + 1) + H.w := by ring
  rw [e, rawSpec_periodic H pix ix iy hw h1 (by omega), rawSpec_periodic H pix ix (iy + 1) hw h1 (by omega),
    rawSpec_periodic H pix (ix + 1) iy hw (by omega) h2, rawSpec_periodic H pix (ix + 1) (iy + 1) hw (by omega) h2]

theorem bilinear_seam (iy : Int) (t : ℚ) (hw : 2 ≤ H.w) :
    bilQ H pix offset scale (H.w - 1) iy 1 t = bilQ H pix offset scale 0 iy 0 t := by
  rw [(bilinear_continuous H pix offset scale (H.w - 1) iy t).1]
  have e : H.w - 1 + 1 = 0 + H.w := by ring
  rw [e]
  exact bilinear_periodic H pix offset scale 0 iy 0 t hw (by omega) (by omega)

/-- `ConvertHeight` in the two directions is mutually inverse (exactly, over ℚ; the binary64 round trip is within 4 ulp
    of |h| + |N|: oracle `convert-height-inverse` on the implementation) -/
theorem convert_height_inverse (h N : ℚ) :
    convertHeightG (convertHeightG h 1 N) (-1) N = h ∧ convertHeightG (convertHeightG h (-1) N) 1 N = h ∧ convertHeightG h 0 N = h := by
  unfold convertHeightG
  refine ⟨by ring, by ring, by ring⟩

end exact

/-- a cubic polynomial in the cell coordinates, coefficients in the order of the code's `t[0..9]` -/
def cubicP (a : Fin 10 → ℚ) (x y : ℚ) : ℚ :=
  a 0 + a 1 * x + a 2 * y + a 3 * x * x + a 4 * x * y + a 5 * y * y + a 6 * x * x * x + a 7 * x * x * y + a 8 * x * y * y + a 9 * y * y * y

/-- the samples of a polynomial on the 12-point stencil, in the order the code gathers them -/
def samples (p : ℚ → ℚ → ℚ) : List ℚ := stencilCubic.map fun d => p (d.1 : ℚ) (d.2 : ℚ)

theorem range10 : List.range 10 = [0, 1, 2, 3, 4, 5, 6, 7, 8, 9] := by decide
theorem range12 : List.range 12 = [0, 1, 2, 3, 4, 5, 6, 7, 8, 9, 10, 11] := by decide

set_option maxRecDepth 4000 in
/-- **what the 12-point fit reproduces, interior cells**: if the twelve stencil values are the samples of *any* cubic
    polynomial, the executed formula (`prepCubicG` with the table `c3`, `interpCubicG`), read over ℚ, returns that
    polynomial at every `(fx, fy)` -/
theorem cubic_interior_exact (a : Fin 10 → ℚ) (offset scale fx fy : ℚ) (h iy : Int) (h1 : iy ≠ 0) (h2 : iy ≠ h - 2)
    (v0 v1 v2 v3 v4 v5 v6 v7 v8 v9 v10 v11 : Nat)
    (hv : [(v0 : ℚ), (v1 : ℚ), (v2 : ℚ), (v3 : ℚ), (v4 : ℚ), (v5 : ℚ), (v6 : ℚ), (v7 : ℚ), (v8 : ℚ), (v9 : ℚ), (v10 : ℚ), (v11 : ℚ)] = samples (cubicP a)) :
    interpCubicG offset scale fx fy (prepCubicG (fun n => (n : ℚ)) h iy [v0, v1, v2, v3, v4, v5, v6, v7, v8, v9, v10, v11]) =
      offset + scale * cubicP a fx fy := by
  simp only [samples, stencilCubic, List.map_cons, List.map_nil, List.cons.injEq, and_true] at hv
  obtain ⟨e0, e1, e2, e3, e4, e5, e6, e7, e8, e9, e10, e11⟩ := hv
  unfold interpCubicG prepCubicG
  rw [if_neg h1, if_neg h2, if_neg h1, if_neg h2]
  simp only [range10, range12, List.map, List.foldl, Gen.GeoidC.c3, Gen.GeoidC.c0]
  simp [e0, e1, e2, e3, e4, e5, e6, e7, e8, e9, e10, e11, cubicP]
  left
  ring

set_option maxRecDepth 4000 in
/-- **north-pole cells** (`iy = 0`, table `c3n`): the fit reproduces exactly the cubics without pure-`x` terms, i.e. those
    that are constant along the pole row `y = 0` (a 7-dimensional space) -/
theorem cubic_north_exact (a : Fin 10 → ℚ) (ha : a 1 = 0 ∧ a 3 = 0 ∧ a 6 = 0) (offset scale fx fy : ℚ) (h : Int)
    (v0 v1 v2 v3 v4 v5 v6 v7 v8 v9 v10 v11 : Nat)
    (hv : [(v0 : ℚ), (v1 : ℚ), (v2 : ℚ), (v3 : ℚ), (v4 : ℚ), (v5 : ℚ), (v6 : ℚ), (v7 : ℚ), (v8 : ℚ), (v9 : ℚ), (v10 : ℚ), (v11 : ℚ)] = samples (cubicP a)) :
    interpCubicG offset scale fx fy (prepCubicG (fun n => (n : ℚ)) h 0 [v0, v1, v2, v3, v4, v5, v6, v7, v8, v9, v10, v11]) =
      offset + scale * cubicP a fx fy := by
  simp only [samples, stencilCubic, List.map_cons, List.map_nil, List.cons.injEq, and_true] at hv
  obtain ⟨e0, e1, e2, e3, e4, e5, e6, e7, e8, e9, e10, e11⟩ := hv
  obtain ⟨a1, a3, a6⟩ := ha
  unfold interpCubicG prepCubicG
  simp only [if_true, range10, range12, List.map, List.foldl, Gen.GeoidC.c3n, Gen.GeoidC.c0n]
  simp [e0, e1, e2, e3, e4, e5, e6, e7, e8, e9, e10, e11, cubicP, a1, a3, a6]
  left
  ring

set_option maxRecDepth 4000 in
/-- **south-pole cells** (`iy = h − 2`, table `c3s`): the fit reproduces exactly the cubics that are constant along the pole
    row `y = 1` -/
theorem cubic_south_exact (a : Fin 10 → ℚ) (ha : a 1 + a 4 + a 8 = 0 ∧ a 3 + a 7 = 0 ∧ a 6 = 0) (offset scale fx fy : ℚ) (h : Int) (hh : h - 2 ≠ 0)
    (v0 v1 v2 v3 v4 v5 v6 v7 v8 v9 v10 v11 : Nat)
    (hv : [(v0 : ℚ), (v1 : ℚ), (v2 : ℚ), (v3 : ℚ), (v4 : ℚ), (v5 : ℚ), (v6 : ℚ), (v7 : ℚ), (v8 : ℚ), (v9 : ℚ), (v10 : ℚ), (v11 : ℚ)] = samples (cubicP a)) :
    interpCubicG offset scale fx fy (prepCubicG (fun n => (n : ℚ)) h (h - 2) [v0, v1, v2, v3, v4, v5, v6, v7, v8, v9, v10, v11]) =
      offset + scale * cubicP a fx fy := by
  simp only [samples, stencilCubic, List.map_cons, List.map_nil, List.cons.injEq, and_true] at hv
  obtain ⟨e0, e1, e2, e3, e4, e5, e6, e7, e8, e9, e10, e11⟩ := hv
  obtain ⟨c1, c2, c3⟩ := ha
  have a1 : a 1 = -(a 4) - a 8 := by linarith
  have a3 : a 3 = -(a 7) := by linarith
  unfold interpCubicG prepCubicG
  simp only [if_neg hh, if_true, range10, range12, List.map, List.foldl, Gen.GeoidC.c3s, Gen.GeoidC.c0s]
  simp [e0, e1, e2, e3, e4, e5, e6, e7, e8, e9, e10, e11, cubicP, a1, a3, c3]
  left
  ring

set_option maxRecDepth 4000 in
/-- **the cubic height at a pole does not depend on the longitude within the cell**, whatever the twelve pixel values
    are: `fy = 0` in a north-pole cell (table `c3n`), `fy = 1` in a south-pole cell (table `c3s`) -/
theorem cubic_pole_independent_of_lon (offset scale fx fx' : ℚ) (h : Int) (hh : h - 2 ≠ 0)
    (v0 v1 v2 v3 v4 v5 v6 v7 v8 v9 v10 v11 : Nat) :
    interpCubicG offset scale fx 0 (prepCubicG (fun n => (n : ℚ)) h 0 [v0, v1, v2, v3, v4, v5, v6, v7, v8, v9, v10, v11]) =
      interpCubicG offset scale fx' 0 (prepCubicG (fun n => (n : ℚ)) h 0 [v0, v1, v2, v3, v4, v5, v6, v7, v8, v9, v10, v11]) ∧
    interpCubicG offset scale fx 1 (prepCubicG (fun n => (n : ℚ)) h (h - 2) [v0, v1, v2, v3, v4, v5, v6, v7, v8, v9, v10, v11]) =
      interpCubicG offset scale fx' 1 (prepCubicG (fun n => (n : ℚ)) h (h - 2) [v0, v1, v2, v3, v4, v5, v6, v7, v8, v9, v10, v11]) := by
  constructor
  · unfold interpCubicG prepCubicG
    simp only [if_true, range10, range12, List.map, List.foldl, Gen.GeoidC.c3n, Gen.GeoidC.c0n]
    simp
  · unfold interpCubicG prepCubicG
    simp only [if_neg hh, if_true, range10, range12, List.map, List.foldl, Gen.GeoidC.c3s, Gen.GeoidC.c0s]
    simp
    left
    ring


/-- the polar tables solve the weighted normal equations of the *constrained* fit (same stencil and weights; basis: the
    seven monomials without a pure power of `x` at the north pole, the same in `1 − y` at the south pole): the residual of
    the fit of every unit sample is `W`-orthogonal to the constrained space -/
theorem cubic_polar_normal_equations :
    ((List.range 12).all fun k => [0, 2, 4, 5, 7, 8, 9].all fun i =>
      ((List.range 12).map fun j => weights.getD j 0 * (monos (stencilCubic.getD j (0, 0)).1 (stencilCubic.getD j (0, 0)).2).getD i 0 *
          ((List.range 10).map fun l => tcoef Gen.GeoidC.c3n k l * (monos (stencilCubic.getD j (0, 0)).1 (stencilCubic.getD j (0, 0)).2).getD l 0).sum).sum
        == Gen.GeoidC.c0n * weights.getD k 0 * (monos (stencilCubic.getD k (0, 0)).1 (stencilCubic.getD k (0, 0)).2).getD i 0) = true ∧
    ((List.range 12).all fun k => [0, 2, 4, 5, 7, 8, 9].all fun i =>
      ((List.range 12).map fun j => weights.getD j 0 * (monos (stencilCubic.getD j (0, 0)).1 (1 - (stencilCubic.getD j (0, 0)).2)).getD i 0 *
          ((List.range 10).map fun l => tcoef Gen.GeoidC.c3s k l * (monos (stencilCubic.getD j (0, 0)).1 (stencilCubic.getD j (0, 0)).2).getD l 0).sum).sum
        == Gen.GeoidC.c0s * weights.getD k 0 * (monos (stencilCubic.getD k (0, 0)).1 (1 - (stencilCubic.getD k (0, 0)).2)).getD i 0) = true ∧
    -- the fits lie in the constrained spaces: no pure powers of x at the north pole; constant along y = 1 at the south pole
    ((List.range 12).all fun j => tcoef Gen.GeoidC.c3n j 1 == 0 && tcoef Gen.GeoidC.c3n j 3 == 0 && tcoef Gen.GeoidC.c3n j 6 == 0) = true ∧
    ((List.range 12).all fun j => tcoef Gen.GeoidC.c3s j 1 + tcoef Gen.GeoidC.c3s j 4 + tcoef Gen.GeoidC.c3s j 8 == 0 &&
        tcoef Gen.GeoidC.c3s j 3 + tcoef Gen.GeoidC.c3s j 7 == 0 && tcoef Gen.GeoidC.c3s j 6 == 0) = true := by
  refine ⟨by decide +kernel, by decide +kernel, by decide +kernel, by decide +kernel⟩

/-! ### the `int` index arithmetic cannot overflow on an accepted raster (finding F73, repaired by the size limit 2^30) -/

/-- the range of the C++ type `int` -/
def IntRange (x : Int) : Prop := -(2:Int) ^ 31 ≤ x ∧ x ≤ 2 ^ 31 - 1

theorem intsOK_iff (l : List Int) : intsOK l = true ↔ ∀ x ∈ l, IntRange x := by
  unfold intsOK IntRange
  simp [List.all_eq_true]

/-- `Geoid::height`, from the two floors to the stencil arguments -/
theorem heightInts_in_range (w h flx fly : Int) (hw : 2 ≤ w ∧ w ≤ 2 ^ 30) (hh : 3 ≤ h ∧ h ≤ 2 ^ 30)
    (hx : -w ≤ flx ∧ flx ≤ w) (hy : -h ≤ fly ∧ fly ≤ h) : ∀ x ∈ heightInts w h flx fly, IntRange x := by
  simp only [heightInts, List.forall_mem_cons, List.not_mem_nil, IsEmpty.forall_iff, implies_true, and_true, IntRange,
    Int.min_def, Int.max_def]
  refine ⟨?_, ?_, ?_, ?_, ?_, ?_, ?_, ?_, ?_, ?_, ?_, ?_, ?_, ?_, ?_, ?_, ?_, ?_, ?_, ?_⟩ <;> (first | omega | (split_ifs <;> omega))

/-- `Geoid::rawval` for every stencil argument (`−1 ≤ ix0 ≤ w + 1`, `−1 ≤ iy ≤ h`) and every cache window of `CacheArea` -/
theorem rawvalInts_in_range (w h xoff yoff xs ys ix0 iy : Int) (hw : 2 ≤ w ∧ w ≤ 2 ^ 30) (hh : 3 ≤ h ∧ h ≤ 2 ^ 30)
    (hwin : 0 ≤ xoff ∧ xoff < w ∧ 0 < xs ∧ xs ≤ w ∧ -1 ≤ yoff ∧ 0 < ys ∧ yoff + ys ≤ h + 1)
    (hx : -1 ≤ ix0 ∧ ix0 ≤ w + 1) (hy : -1 ≤ iy ∧ iy ≤ h) : ∀ x ∈ rawvalInts w h xoff yoff xs ys ix0 iy, IntRange x := by
  simp only [rawvalInts, List.forall_mem_cons, List.not_mem_nil, IsEmpty.forall_iff, implies_true, and_true, IntRange]
  refine ⟨?_, ?_, ?_, ?_, ?_, ?_, ?_, ?_, ?_, ?_, ?_, ?_, ?_, ?_, ?_⟩ <;> (first | omega | (split_ifs <;> omega))

/-- `Geoid::CacheArea`, from the four floors to the window (the last four entries are the results of the executed `windowOfIdx`) -/
theorem cacheAreaInts_in_range (w h : Int) (cubic : Bool) (iw0 ie0 in0 is0 : Int) (hw : 2 ≤ w ∧ w ≤ 2 ^ 30) (hev : w % 2 = 0) (hh : 3 ≤ h ∧ h ≤ 2 ^ 30)
    (h1 : iw0 ≤ ie0) (h2 : in0 ≤ is0) (h3 : -w ≤ iw0 ∧ iw0 ≤ w) (h4 : ie0 ≤ 3 * w / 2 + 1) (h5 : ie0 - iw0 ≤ 3 * w / 2 + 2)
    (h6 : -h ≤ in0 ∧ in0 ≤ h) (h7 : -h ≤ is0 ∧ is0 ≤ h) (h8 : 4 ≤ w → -(w - 1) ≤ iw0 ∧ iw0 ≤ w - 1) :
    ∀ x ∈ cacheAreaInts w h cubic iw0 ie0 in0 is0, IntRange x := by
  have key := windowOfIdx_ok w h cubic iw0 ie0 in0 is0 hw.1 hev hh.1 h1 h2 h8
  simp only [cacheAreaInts, List.forall_mem_cons, List.not_mem_nil, IsEmpty.forall_iff, implies_true, and_true, IntRange,
    Int.min_def, Int.max_def]
  generalize windowOfIdx w h cubic iw0 ie0 in0 is0 = p at key ⊢
  cases cubic <;> simp only [Bool.false_eq_true, if_false, if_true] <;>
  refine ⟨?_, ?_, ?_, ?_, ?_, ?_, ?_, ?_, ?_, ?_, ?_, ?_, ?_, ?_, ?_, ?_, ?_, ?_, ?_, ?_, ?_, ?_, ?_, ?_, ?_, ?_, ?_, ?_, ?_, ?_, ?_, ?_, ?_⟩ <;>
  (first | omega | (split_ifs <;> omega))

/-- the fill loop of `CacheArea`, row `iy` of the window -/
theorem fillInts_in_range (w h xoff yoff xs ys iy : Int) (hw : 2 ≤ w ∧ w ≤ 2 ^ 30) (hh : 3 ≤ h ∧ h ≤ 2 ^ 30)
    (hwin : 0 ≤ xoff ∧ xoff < w ∧ 0 < xs ∧ xs ≤ w ∧ -1 ≤ yoff ∧ 0 < ys ∧ yoff + ys ≤ h + 1)
    (hy : yoff ≤ iy ∧ iy < yoff + ys) : ∀ x ∈ fillInts w h xoff yoff xs iy, IntRange x := by
  simp only [fillInts, List.forall_mem_cons, List.not_mem_nil, IsEmpty.forall_iff, implies_true, and_true, IntRange, Int.min_def]
  refine ⟨?_, ?_, ?_, ?_, ?_, ?_, ?_, ?_, ?_, ?_, ?_, ?_, ?_, ?_, ?_⟩ <;> (first | omega | (split_ifs <;> omega))

/-- the cache inspectors -/
theorem getterInts_in_range (w h xoff yoff xs ys : Int) (cubic : Bool) (hw : 2 ≤ w ∧ w ≤ 2 ^ 30) (hh : 3 ≤ h ∧ h ≤ 2 ^ 30)
    (hwin : 0 ≤ xoff ∧ xoff < w ∧ 0 < xs ∧ xs ≤ w ∧ -1 ≤ yoff ∧ 0 < ys ∧ yoff + ys ≤ h + 1) :
    ∀ x ∈ getterInts w xoff yoff xs ys cubic, IntRange x := by
  simp only [getterInts, List.forall_mem_cons, List.not_mem_nil, IsEmpty.forall_iff, implies_true, and_true, IntRange]
  have hm := Int.emod_nonneg (xoff + (if xs = w then 0 else if cubic = true then 1 else 0) + w / 2) (by omega : w ≠ 0)
  have hm2 := Int.emod_lt_of_pos (xoff + (if xs = w then 0 else if cubic = true then 1 else 0) + w / 2) (by omega : 0 < w)
  cases cubic <;> simp only [Bool.false_eq_true, if_false, if_true] at hm hm2 ⊢ <;>
  refine ⟨?_, ?_, ?_, ?_, ?_, ?_, ?_, ?_, ?_, ?_, ?_, ?_⟩ <;> (first | omega | (split_ifs at hm hm2 ⊢ <;> omega))

/-- **`accepted_int_arithmetic`**: for every raster shape the constructor accepts (`FileOK`: dimensions ≤ 2^30, repair f4ec5a8
    of finding F73) every value of type `int` that the code computes stays in the range of `int`:
    1. in `Geoid::height`, for every binary64 position that is not NaN after `LatFix` / `AngNormalize` — including the two
       conversions `int(floor(fx))`, `int(floor(fy))`;
    2. in `Geoid::rawval`, for every stencil argument of every cell of the raster and every cache window `CacheArea` can set;
    3. in `Geoid::CacheArea`, for arbitrary binary64 limits that pass its finiteness test — the four conversions
       `int(floor(·))`, the window arithmetic, the fill loop of every cached row, and the inspectors
       `CacheWest/East/North/South` on the resulting window -/
theorem accepted_int_arithmetic (f : File) (hf : FileOK f) (cubic : Bool) :
    (∀ lat lon : F64, (MathF.latFix lat).isNaN = false → (MathF.angNormalize lon).isNaN = false →
      ∀ x ∈ heightInts f.w f.h (fl (MathF.angNormalize lon * (F64.ofInt f.w / F64.ofInt Gen.MathC.td)))
        (fl (F64.neg (MathF.latFix lat) * (F64.ofInt (f.h - 1) / F64.ofInt Gen.MathC.hd))), IntRange x) ∧
    (∀ (so we no ea : F64) (xo yo xs ys : Int), cacheWindow f cubic so we no ea = .set xo yo xs ys →
      ∀ ix iy : Int, 0 ≤ ix ∧ ix < f.w → 0 ≤ iy ∧ iy ≤ f.h - 2 → ∀ d ∈ stencilCubic ++ stencilBilinear,
        ∀ x ∈ rawvalInts f.w f.h xo yo xs ys (ix + d.1) (iy + d.2), IntRange x) ∧
    (∀ (so we no ea : F64) (xo yo xs ys : Int), cacheWindow f cubic so we no ea = .set xo yo xs ys →
      (∀ x ∈ cacheAreaInts f.w f.h cubic (cacheFloors f so we no ea).1 (cacheFloors f so we no ea).2.1
          (cacheFloors f so we no ea).2.2.1 (cacheFloors f so we no ea).2.2.2, IntRange x) ∧
      (∀ iy : Int, yo ≤ iy ∧ iy < yo + ys → ∀ x ∈ fillInts f.w f.h xo yo xs iy, IntRange x) ∧
      (∀ x ∈ getterInts f.w xo yo xs ys cubic, IntRange x)) := by
  have hw : 2 ≤ f.w ∧ f.w ≤ 2 ^ 30 := ⟨hf.w2, hf.wmax⟩
  have hh : 3 ≤ f.h ∧ f.h ≤ 2 ^ 30 := ⟨hf.h3, hf.hmax⟩
  refine ⟨?_, ?_, ?_⟩
  · intro lat lon hlat hlon
    obtain ⟨b1, b2⟩ := heightFloors_facts f hf.w2 hf.wmax hf.h3 hf.hmax lat lon hlat hlon
    exact heightInts_in_range f.w f.h _ _ hw hh b1 b2
  · intro so we no ea xo yo xs ys hwin ix iy hx hy d hd
    have hwin' := cacheWindow_ok f cubic hf.w2 hf.wev (by have := hf.wmax; omega) hf.h3 (by have := hf.hmax; omega) so we no ea xo yo xs ys hwin
    have hd' : (-1 ≤ d.1 ∧ d.1 ≤ 2) ∧ (-1 ≤ d.2 ∧ d.2 ≤ 2) := by revert d; decide
    exact rawvalInts_in_range f.w f.h xo yo xs ys _ _ hw hh hwin' (by omega) (by omega)
  · intro so we no ea xo yo xs ys hwin
    have hwin' := cacheWindow_ok f cubic hf.w2 hf.wev (by have := hf.wmax; omega) hf.h3 (by have := hf.hmax; omega) so we no ea xo yo xs ys hwin
    obtain ⟨hok, _⟩ := cacheWindow_set_limits f cubic so we no ea xo yo xs ys hwin
    obtain ⟨c1, c3, c2, c2', c4, c5, c6, c7⟩ := cacheFloors_facts f hf.w2 hf.wmax hf.h3 hf.hmax so we no ea hok
    exact ⟨cacheAreaInts_in_range f.w f.h cubic _ _ _ _ hw hf.wev hh c1 c3 c2' c4 c5 c6 c7 c2,
      fun iy hy => fillInts_in_range f.w f.h xo yo xs ys iy hw hh hwin' hy,
      getterInts_in_range f.w f.h xo yo xs ys cubic hw hh hwin'⟩

end GeoVerif.Props.C20
