/-!
# `RealLike`: one definition, three readings

Formula models are written once over this class.  Instances: `Float`
(executed by the driver against the implementation), and — in
`Spec/RealInst.lean`, with Mathlib — `ℝ`, where the theorems are proved.
Core Lean only.
-/
namespace GeoVerif

class RealLike (α : Type) extends Add α, Sub α, Mul α, Div α, Neg α where
  ofNat : Nat → α
  /-- `num / 10^k`, for decimal literals -/
  ofDec : Nat → Nat → α
  sqrt : α → α
  cbrt : α → α
  sin : α → α
  cos : α → α
  atan : α → α
  abs : α → α
  exp : α → α
  log : α → α
  sinh : α → α
  asinh : α → α
  atanh : α → α
  atan2 : α → α → α
  hypot : α → α → α
  max : α → α → α
  min : α → α → α
  ltb : α → α → Bool
  leb : α → α → Bool
  eqb : α → α → Bool
  pi : α

namespace RealLike
-- numeric literals inside model files (`open GeoVerif.RealLike.Lits`)
namespace Lits
scoped instance instLit {α : Type} [RealLike α] {n : Nat} : OfNat α n := ⟨RealLike.ofNat n⟩
end Lits

variable {α : Type} [RealLike α]
def sq (x : α) : α := x * x
def two : α := RealLike.ofNat 2
end RealLike

instance : RealLike Float where
  ofNat := Float.ofNat
  ofDec n k := Float.ofScientific n true k
  sqrt := Float.sqrt
  cbrt := Float.cbrt
  sin := Float.sin
  cos := Float.cos
  atan := Float.atan
  abs := Float.abs
  exp := Float.exp
  log := Float.log
  sinh := Float.sinh
  asinh := Float.asinh
  atanh := Float.atanh
  atan2 := Float.atan2
  hypot x y :=    -- no libm binding in Lean: scaled form, within an ulp or two of C's hypot, no spurious overflow
    let ax := Float.abs x; let ay := Float.abs y
    let m := if ax < ay then ay else ax
    if m == 0 || m.isInf then m else if x.isNaN || y.isNaN then x + y else m * Float.sqrt ((ax / m) * (ax / m) + (ay / m) * (ay / m))
  max x y := if x < y then y else x
  min x y := if y < x then y else x
  ltb x y := x < y
  leb x y := x ≤ y
  eqb x y := x == y
  pi := 3.14159265358979323846264338327950288

end GeoVerif
