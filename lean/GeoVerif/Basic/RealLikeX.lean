import GeoVerif.Basic.RealLike
import GeoVerif.FP.RunErr
/-!
# `RealX`: `RealLike` extended by the further libm functions the elliptic-function and auxiliary-latitude code calls

`tan asin cosh tanh floor round log2 exp2` and the classification predicates `isFinite`, `isNaN`.  Instances here:
`Float` (execution) and `RE` (running error analysis, `FP/RunErr.lean`); the real-number reading is in
`Spec/RealInstX.lean`.  Core Lean only.
-/
namespace GeoVerif

class RealX (α : Type) extends RealLike α where
  tan : α → α
  asin : α → α
  cosh : α → α
  tanh : α → α
  floor : α → α
  /-- C `round`: halves away from zero -/
  round : α → α
  log2 : α → α
  exp2 : α → α
  isFinite : α → Bool
  isNaN : α → Bool

instance : RealX Float where
  tan := Float.tan
  asin := Float.asin
  cosh := Float.cosh
  tanh := Float.tanh
  floor := Float.floor
  round := Float.round
  log2 := Float.log2
  exp2 := Float.exp2
  isFinite := Float.isFinite
  isNaN := Float.isNaN

namespace RE
def ln2 : Float := 0.6931471805599453
/-- a function with integer values: exact unless the error interval of the argument contains a jump -/
def step (g : Float → Float) (a : RE) : RE :=
  let v := g a.v
  ⟨v, if a.e == 0 then 0 else if g (a.v - a.e) == g (a.v + a.e) then 0 else 1⟩
end RE

instance : RealX RE where
  tan a := let t := Float.tan a.v; RE.lib t ((1 + t * t) * a.e)
  asin a := RE.lib (Float.asin a.v)
    (if a.e == 0 then 0 else
      let w := (1 - (a.v.abs + a.e)) * (1 + (a.v.abs + a.e))
      if w > 0 then a.e / Float.sqrt w else 3.141592653589793)
  cosh a := RE.lib (Float.cosh a.v) ((Float.sinh a.v).abs * a.e + a.e * a.e)
  tanh a := RE.lib (Float.tanh a.v) a.e
  floor := RE.step Float.floor
  round := RE.step Float.round
  log2 a := RE.lib (Float.log2 a.v) (if a.e == 0 then 0 else a.e / ((a.v.abs - a.e) * RE.ln2))
  exp2 a := let r := Float.exp2 a.v; RE.lib r (r * RE.ln2 * a.e * (1 + a.e))
  isFinite a := a.v.isFinite
  isNaN a := a.v.isNaN

namespace RealX
variable {α : Type} [RealX α]
open RealLike RealLike.Lits

/-- `signbit x` (for a non-NaN `x`): negative, or a zero whose reciprocal is negative (`−0` in binary64; over `ℝ` this is `x < 0`) -/
def signNeg (x : α) : Bool := ltb x 0 || (eqb x 0 && ltb ((1 : α) / x) 0)
/-- `copysign(m, x)` -/
def copysign (m x : α) : α := if signNeg x then -(RealLike.abs m) else RealLike.abs m
/-- the value the code writes as `Math::infinity()`; `1/0` is `+∞` in binary64 (and the junk value `0` over `ℝ`:
    no theorem of `Props/C15` is about a branch that returns it) -/
def infinity : α := (1 : α) / 0
/-- `std::numeric_limits<double>::epsilon()` = `2⁻⁵²` -/
def eps : α := (1 : α) / RealLike.ofNat (2 ^ 52)
def isInf (x : α) : Bool := !isFinite x && !isNaN x
end RealX

end GeoVerif
