import GeoVerif.Basic.RealLikeX
import GeoVerif.Spec.RealInst
import Mathlib.Analysis.SpecialFunctions.Trigonometric.Inverse
import Mathlib.Analysis.SpecialFunctions.Trigonometric.DerivHyp
import Mathlib.Analysis.SpecialFunctions.Log.Base
import Mathlib.Algebra.Order.Round
/-!
# The real-number reading of `RealX`

`floor x = ⌊x⌋`, `round` rounds halves away from zero (C `round`), `log2 = logb 2`, `exp2 x = 2 ^ x`; every real is finite
and none is a NaN.
-/
namespace GeoVerif
open Classical

noncomputable instance instRealXReal : RealX ℝ where
  toRealLike := instRealLikeReal
  tan := Real.tan
  asin := Real.arcsin
  cosh := Real.cosh
  tanh := Real.tanh
  floor x := (⌊x⌋ : ℝ)
  round x := if 0 ≤ x then (⌊x + 1 / 2⌋ : ℝ) else -(⌊-x + 1 / 2⌋ : ℝ)
  log2 x := Real.logb 2 x
  exp2 x := (2 : ℝ) ^ x
  isFinite _ := true
  isNaN _ := false

@[simp] theorem tan_realx (x : ℝ) : RealX.tan x = Real.tan x := rfl
@[simp] theorem asin_realx (x : ℝ) : RealX.asin x = Real.arcsin x := rfl
@[simp] theorem cosh_realx (x : ℝ) : RealX.cosh x = Real.cosh x := rfl
@[simp] theorem tanh_realx (x : ℝ) : RealX.tanh x = Real.tanh x := rfl
@[simp] theorem floor_realx (x : ℝ) : RealX.floor x = (⌊x⌋ : ℝ) := rfl
@[simp] theorem isFinite_realx (x : ℝ) : RealX.isFinite x = true := rfl
@[simp] theorem isNaN_realx (x : ℝ) : RealX.isNaN x = false := rfl
@[simp] theorem isInf_realx (x : ℝ) : RealX.isInf x = false := rfl

/-- `signbit` over the reals is `x < 0` -/
theorem signNeg_real (x : ℝ) : RealX.signNeg x = decide (x < 0) := by
  unfold RealX.signNeg
  simp only [ltb_real, eqb_real, lit_real, Nat.cast_zero, Nat.cast_one]
  by_cases h : x < 0
  · simp [h]
  · by_cases h0 : x = 0
    · subst h0; simp
    · simp [h, h0]

/-- `copysign(m, x)` over the reals -/
theorem copysign_real (m x : ℝ) : RealX.copysign m x = if x < 0 then -|m| else |m| := by
  unfold RealX.copysign; rw [signNeg_real]; simp

theorem eps_real : (RealX.eps : ℝ) = 1 / 2 ^ 52 := by
  unfold RealX.eps; simp only [lit_real, ofNat_real]; norm_num

end GeoVerif
