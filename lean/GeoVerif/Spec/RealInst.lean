import GeoVerif.Basic.RealLike
import Mathlib.Analysis.SpecialFunctions.Trigonometric.Basic
import Mathlib.Analysis.SpecialFunctions.Trigonometric.Arctan
import Mathlib.Analysis.SpecialFunctions.Log.Basic
import Mathlib.Analysis.SpecialFunctions.Arsinh
import Mathlib.Analysis.SpecialFunctions.Pow.Real
import Mathlib.Analysis.SpecialFunctions.Complex.Arg
/-!
# The real-number reading of `RealLike`

Comparisons are decided classically; `atan2 y x` is the argument of `x + i y`;
`cbrt` is the real cube root; `atanh` is `½ log((1+x)/(1−x))`.
-/
namespace GeoVerif
open Classical

noncomputable instance instRealLikeReal : RealLike ℝ where
  ofNat n := (n : ℝ)
  ofDec n k := (n : ℝ) / 10 ^ k
  sqrt := Real.sqrt
  cbrt x := if 0 ≤ x then x ^ ((1 : ℝ) / 3) else -((-x) ^ ((1 : ℝ) / 3))
  sin := Real.sin
  cos := Real.cos
  atan := Real.arctan
  abs x := |x|
  exp := Real.exp
  log := Real.log
  sinh := Real.sinh
  asinh := Real.arsinh
  atanh x := Real.log ((1 + x) / (1 - x)) / 2
  atan2 y x := Complex.arg ⟨x, y⟩
  hypot x y := Real.sqrt (x ^ 2 + y ^ 2)
  max x y := max x y
  min x y := min x y
  ltb x y := decide (x < y)
  leb x y := decide (x ≤ y)
  eqb x y := decide (x = y)
  pi := Real.pi

/-- literals of model files read as real numbers (not `simp` lemmas: together with `Nat.cast_ofNat` they would loop;
    use `simp only [lit_real]` followed by `push_cast`) -/
theorem lit_real (n : ℕ) : (@OfNat.ofNat ℝ n RealLike.Lits.instLit) = (n : ℝ) := rfl
theorem ofNat_real (n : ℕ) : (RealLike.ofNat n : ℝ) = (n : ℝ) := rfl
@[simp] theorem sqrt_real (x : ℝ) : RealLike.sqrt x = Real.sqrt x := rfl
@[simp] theorem sin_real (x : ℝ) : RealLike.sin x = Real.sin x := rfl
@[simp] theorem cos_real (x : ℝ) : RealLike.cos x = Real.cos x := rfl
@[simp] theorem abs_real (x : ℝ) : RealLike.abs x = |x| := rfl
@[simp] theorem hypot_real (x y : ℝ) : RealLike.hypot x y = Real.sqrt (x ^ 2 + y ^ 2) := rfl
@[simp] theorem sq_real (x : ℝ) : RealLike.sq x = x ^ 2 := by unfold RealLike.sq; ring
@[simp] theorem ltb_real (x y : ℝ) : RealLike.ltb x y = decide (x < y) := rfl
@[simp] theorem leb_real (x y : ℝ) : RealLike.leb x y = decide (x ≤ y) := rfl
@[simp] theorem eqb_real (x y : ℝ) : RealLike.eqb x y = decide (x = y) := rfl

end GeoVerif
