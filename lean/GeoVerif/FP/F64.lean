import GeoVerif.FP.Dy
/-!
# An exact, executable model of IEEE-754 binary64

`F64 = nan | inf s | fin s m e` (value `±m·2^e`, sign kept for zero).
Rounded operations are the exact dyadic result followed by `round53`
(round-to-nearest-even with subnormals) and an overflow test.
Transcendental functions are *not* modelled.
-/
namespace GeoVerif

inductive F64 where
  | nan
  | inf (neg : Bool)
  | fin (neg : Bool) (m : Nat) (e : Int)
deriving Repr, Inhabited

namespace F64

def pzero : F64 := .fin false 0 0
def nzero : F64 := .fin true 0 0

def ofDySign (neg : Bool) (d : Dy) : F64 := .fin neg d.m.natAbs d.e
/-- a `Dy` with the sign taken from the value (zero ↦ +0) -/
def ofDy (d : Dy) : F64 := .fin (d.m < 0) d.m.natAbs d.e
def ofInt (n : Int) : F64 := ofDy ⟨n, 0⟩

def toDy : F64 → Dy
  | .fin s m e => ⟨if s then -(m : Int) else m, e⟩
  | _ => ⟨0, 0⟩

def isNaN : F64 → Bool | .nan => true | _ => false
def isInf : F64 → Bool | .inf _ => true | _ => false
def isFinite : F64 → Bool | .fin .. => true | _ => false
def isZero : F64 → Bool | .fin _ m _ => m == 0 | _ => false
def signbit : F64 → Bool
  | .nan => false
  | .inf s => s
  | .fin s _ _ => s

/-- 2^1024 overflow threshold test on a rounded value -/
def overflow (d : Dy) : Bool :=
  let a := d.m.natAbs
  a != 0 && (Dy.blen a : Int) + d.e > 1024

/-- round an exact non-zero-or-zero dyadic to binary64; `zs` = sign to use if the result is zero -/
def rnd (d : Dy) (zs : Bool) : F64 :=
  let r := Dy.round53 d
  if r.m = 0 then .fin (if d.m = 0 then zs else d.m < 0) 0 0
  else if overflow r then .inf (r.m < 0)
  else ofDy r

def neg : F64 → F64
  | .nan => .nan
  | .inf s => .inf (!s)
  | .fin s m e => .fin (!s) m e

def abs : F64 → F64
  | .nan => .nan
  | .inf _ => .inf false
  | .fin _ m e => .fin false m e

def copysign (x y : F64) : F64 :=
  match x with
  | .nan => .nan
  | .inf _ => .inf y.signbit
  | .fin _ m e => .fin y.signbit m e

def add (x y : F64) : F64 :=
  match x, y with
  | .nan, _ => .nan
  | _, .nan => .nan
  | .inf a, .inf b => if a == b then .inf a else .nan
  | .inf a, _ => .inf a
  | _, .inf b => .inf b
  | .fin sa _ _, .fin sb _ _ =>
    rnd (Dy.add x.toDy y.toDy) (sa && sb)

def sub (x y : F64) : F64 := add x (neg y)

def mul (x y : F64) : F64 :=
  match x, y with
  | .nan, _ => .nan
  | _, .nan => .nan
  | .inf a, .inf b => .inf (a != b)
  | .inf a, .fin sb m _ => if m == 0 then .nan else .inf (a != sb)
  | .fin sa m _, .inf b => if m == 0 then .nan else .inf (sa != b)
  | .fin sa _ _, .fin sb _ _ => rnd (Dy.mul x.toDy y.toDy) (sa != sb)

def div (x y : F64) : F64 :=
  match x, y with
  | .nan, _ => .nan
  | _, .nan => .nan
  | .inf _, .inf _ => .nan
  | .inf a, .fin sb _ _ => .inf (a != sb)
  | .fin sa _ _, .inf b => .fin (sa != b) 0 0
  | .fin sa ma _, .fin sb mb _ =>
    if mb == 0 then (if ma == 0 then .nan else .inf (sa != sb))
    else if ma == 0 then .fin (sa != sb) 0 0
    else
      let q := Dy.divTo 53 (-1074) x.toDy y.toDy
      if q.m = 0 then .fin (sa != sb) 0 0
      else if overflow q then .inf (sa != sb) else ofDy q

def sqrt (x : F64) : F64 :=
  match x with
  | .nan => .nan
  | .inf s => if s then .nan else .inf false
  | .fin s m _ =>
    if m == 0 then x else if s then .nan else ofDy (Dy.sqrtTo 53 (-1074) x.toDy)

def floor (x : F64) : F64 :=
  match x with
  | .fin s m _ =>
    if m == 0 then x else
    let f := Dy.floor x.toDy
    if f = 0 then .fin s 0 0 else ofInt f
  | _ => x

def ceil (x : F64) : F64 := neg (floor (neg x))

def trunc (x : F64) : F64 := if x.signbit then ceil x else floor x

/-- integers `(X, Y)` with `Y > 0` and `X / Y = x / y` (for `y ≠ 0`): common exponent, sign moved to `X` -/
def ratioInts (dx dy : Dy) : Int × Int :=
  let p : Int × Int :=
    if dx.e ≥ dy.e then (Dy.shl dx.m (dx.e - dy.e), dy.m) else (dx.m, Dy.shl dy.m (dy.e - dx.e))
  if p.2 < 0 then (-p.1, -p.2) else p

/-- nearest integer to `X / Y` (`Y > 0`), ties to even -/
def nearestEven (X Y : Int) : Int :=
  let q := X / Y           -- floor
  let r := X - q * Y       -- in [0, Y)
  if 2 * r < Y then q else if 2 * r > Y then q + 1 else (if q % 2 = 0 then q else q + 1)

/-- IEEE `remainder(x, y)`: `x − n·y`, `n` the nearest integer to `x/y` (ties to even); exact. -/
def remainder (x y : F64) : F64 :=
  match x, y with
  | .nan, _ => .nan
  | _, .nan => .nan
  | .inf _, _ => .nan
  | .fin .., .inf _ => x
  | .fin sx _ _, .fin _ my _ =>
    if my == 0 then .nan else
    let dx := x.toDy; let dy := y.toDy
    let n := nearestEven (ratioInts dx dy).1 (ratioInts dx dy).2
    let res := Dy.sub dx (Dy.mul (Dy.ofInt n) dy)
    if res.m = 0 then .fin sx 0 0 else ofDy res

/-- `remquo`: remainder together with the quotient integer `n` (full value; C returns low bits) -/
def remquoN (x y : F64) : Int :=
  match x, y with
  | .fin .., .fin _ my _ =>
    if my == 0 then 0 else
    nearestEven (ratioInts x.toDy y.toDy).1 (ratioInts x.toDy y.toDy).2
  | _, _ => 0

/-- comparisons (false on NaN) -/
def lt (x y : F64) : Bool :=
  match x, y with
  | .nan, _ => false
  | _, .nan => false
  | .inf a, .inf b => a && !b
  | .inf a, _ => a
  | _, .inf b => !b
  | _, _ => Dy.lt x.toDy y.toDy
def le (x y : F64) : Bool :=
  match x, y with
  | .nan, _ => false
  | _, .nan => false
  | .inf a, .inf b => a || !b
  | .inf a, _ => a
  | _, .inf b => !b
  | _, _ => Dy.le x.toDy y.toDy
def eq (x y : F64) : Bool :=
  match x, y with
  | .nan, _ => false
  | _, .nan => false
  | .inf a, .inf b => a == b
  | .inf _, _ => false
  | _, .inf _ => false
  | _, _ => Dy.eq x.toDy y.toDy
def gt (x y : F64) : Bool := lt y x
def ge (x y : F64) : Bool := le y x
def ne (x y : F64) : Bool := !eq x y

/-- C `fmin` / `fmax`: NaN-discarding -/
def fmin (x y : F64) : F64 :=
  if x.isNaN then y else if y.isNaN then x else if lt y x then y else x
def fmax (x y : F64) : F64 :=
  if x.isNaN then y else if y.isNaN then x else if lt x y then y else x

instance : Add F64 := ⟨add⟩
instance : Sub F64 := ⟨sub⟩
instance : Mul F64 := ⟨mul⟩
instance : Div F64 := ⟨div⟩
instance : Neg F64 := ⟨neg⟩

/-! ## bit patterns -/

def ofBits (b : UInt64) : F64 :=
  let s := (b >>> 63) == 1
  let ex := ((b >>> 52) &&& 0x7ff).toNat
  let fr := (b &&& 0xfffffffffffff).toNat
  if ex = 2047 then (if fr = 0 then .inf s else .nan)
  else if ex = 0 then .fin s fr (-1074)
  else .fin s (fr + 2^52) ((ex : Int) - 1075)

/-- bits of a value that is already representable (results of the operations above are) -/
def toBits (x : F64) : UInt64 :=
  match x with
  | .nan => 0x7ff8000000000000
  | .inf s => (if s then 0xfff0000000000000 else 0x7ff0000000000000)
  | .fin s m e =>
    let sb : UInt64 := if s then (1 : UInt64) <<< 63 else 0
    if m = 0 then sb else
    let L := Dy.blen m
    let (a, e) : Nat × Int :=
      if L < 53 then
        let sh := min (53 - L) ((e + 1074).toNat)
        (m <<< sh, e - sh)
      else if L > 53 then (m >>> (L - 53), e + (L - 53)) else (m, e)
    if a < 2^52 then sb ||| a.toUInt64
    else sb ||| (((e + 1075).toNat.toUInt64) <<< 52) ||| (a - 2^52).toUInt64

/-- is the (finite) value exactly representable in binary64? -/
def representable (d : Dy) : Bool :=
  let r := Dy.round53 d
  Dy.eq r d && !overflow r

def toFloat (x : F64) : Float := Float.ofBits x.toBits
def ofFloat (x : Float) : F64 := ofBits x.toBits

/-- bit equality, all NaNs identified -/
def same (x y : F64) : Bool :=
  (x.isNaN && y.isNaN) || (!x.isNaN && !y.isNaN && x.toBits == y.toBits)

/-- small literals -/
def ofNat (n : Nat) : F64 := .fin false n 0
instance : OfNat F64 n := ⟨ofNat n⟩

/-- correctly rounded value of a decimal literal `num / 10^k` -/
def ofDecimal (num : Int) (k : Nat) : F64 :=
  if num = 0 then pzero else
  let q := Dy.divTo 53 (-1074) ⟨num, 0⟩ ⟨(10 : Int) ^ k, 0⟩
  ofDy q

end F64
end GeoVerif
