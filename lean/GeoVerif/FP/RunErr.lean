import GeoVerif.Basic.RealLike
/-!
# Running error analysis as a fourth reading of `RealLike`

`RE = (v, e)`: `v` is the binary64 value the model computes, `e` a first-order bound of the absolute error of `v`
with respect to the exact (real) evaluation of the same expression on the same inputs (Wilkinson's running error
analysis, Higham, *Accuracy and Stability of Numerical Algorithms*, §3.3).  Rules, with `u = 2⁻⁵³`:

* inputs and literals are exact (`e = 0`);
* `+ − × ÷ √` are correctly rounded: propagated error + `u·|v|`;
* libm calls (`sin cos atan atan2 exp log …`) are taken as faithful to 1 ulp: propagated error + `2u·|v|`;
  `hypot` (the `Float` instance uses a scaled square root, 2 ulp): `4u·|v|`;
* propagation is the first-order (Lipschitz) bound: `|a|·e_b + |b|·e_a` for a product, `(e_a + |a/b|·e_b)/|b|` for a
  quotient, `e_a / √a` for a root, `e_a` for `sin`, `cos`, `atan`, `(|x|·e_y + |y|·e_x)/(x² + y²)` for `atan2`, …;
* `atan2(y, x)` with `x < 0` and `|y|` not larger than its own error bound: the branch cut may be crossed, `2π` is added;
* comparisons are decided on `v`.

The correspondence compares the implementation with `v` and accepts a difference of `K·e`: two evaluations of
mathematically equal expressions each stay within their own bound, and a re-association changes the bound itself by
a modest factor (`K = 4`, documented in `Corr/C01.lean`).  The bound is *computed from the arithmetic of the model*
for every input, so it is automatically condition-aware (cancellations, `atan2` near the origin, division by small
numbers show up as a large `e`); nothing is fitted to observed differences.  Underflow is not tracked.
Core Lean only.
-/
namespace GeoVerif

structure RE where
  v : Float
  e : Float

namespace RE
/-- unit roundoff `2⁻⁵³` -/
def u : Float := 1.1102230246251565e-16

def exact (x : Float) : RE := ⟨x, 0⟩
/-- a correctly rounded operation whose exact-input result has propagated error `e` -/
def rnd (v e : Float) : RE := ⟨v, e + u * v.abs⟩
/-- a libm call (1 ulp) -/
def lib (v e : Float) : RE := ⟨v, e + 2 * u * v.abs⟩

def add (a b : RE) : RE := rnd (a.v + b.v) (a.e + b.e)
def sub (a b : RE) : RE := rnd (a.v - b.v) (a.e + b.e)
def mul (a b : RE) : RE := rnd (a.v * b.v) (a.v.abs * b.e + b.v.abs * a.e + a.e * b.e)
def div (a b : RE) : RE :=
  let q := a.v / b.v
  let d := b.v.abs - b.e
  rnd q (if d > 0 then (a.e + q.abs * b.e) / d else if a.e == 0 && b.e == 0 then 0 else 1.0 / 0.0)
def sqrt (a : RE) : RE :=
  let s := Float.sqrt a.v
  rnd s (if a.e == 0 then 0 else if s * s > a.e then a.e / s else Float.sqrt a.e)
def atan2 (y x : RE) : RE :=
  let r2 := x.v * x.v + y.v * y.v
  let v := Float.atan2 y.v x.v
  let p := if y.e == 0 && x.e == 0 then 0
           else if r2 > 0 then (x.v.abs * y.e + y.v.abs * x.e) / r2 else 3.141592653589793
  let cut := if x.v < 0 && y.e > 0 && y.v.abs ≤ 4 * y.e then 6.283185307179586 else 0
  lib v (p + cut)
def hypot (x y : RE) : RE :=
  let h : Float := RealLike.hypot x.v y.v
  ⟨h, (if h > 0 then (x.v.abs * x.e + y.v.abs * y.e) / h else x.e + y.e) + 4 * u * h.abs⟩
end RE

instance : RealLike RE where
  add := RE.add
  sub := RE.sub
  mul := RE.mul
  div := RE.div
  neg a := ⟨-a.v, a.e⟩
  ofNat n := RE.exact (Float.ofNat n)
  ofDec n k := RE.exact (Float.ofScientific n true k)
  sqrt := RE.sqrt
  cbrt a := let c := Float.cbrt a.v; RE.lib c (if a.e == 0 then 0 else if c != 0 then a.e / (3 * c * c) else Float.cbrt a.e)
  sin a := RE.lib (Float.sin a.v) a.e
  cos a := RE.lib (Float.cos a.v) a.e
  atan a := RE.lib (Float.atan a.v) a.e
  abs a := ⟨a.v.abs, a.e⟩
  exp a := let r := Float.exp a.v; RE.lib r (r * a.e)
  log a := RE.lib (Float.log a.v) (if a.e == 0 then 0 else a.e / (a.v.abs - a.e))
  sinh a := RE.lib (Float.sinh a.v) (Float.cosh a.v * a.e)
  asinh a := RE.lib (Float.asinh a.v) a.e
  atanh a := RE.lib (Float.atanh a.v) (if a.e == 0 then 0 else a.e / (1 - (a.v.abs + a.e) * (a.v.abs + a.e)))
  atan2 := RE.atan2
  hypot := RE.hypot
  max x y := if x.v < y.v then ⟨y.v, if x.e < y.e then y.e else x.e⟩ else ⟨x.v, if x.e < y.e then y.e else x.e⟩
  min x y := if y.v < x.v then ⟨y.v, if x.e < y.e then y.e else x.e⟩ else ⟨x.v, if x.e < y.e then y.e else x.e⟩
  ltb x y := x.v < y.v
  leb x y := x.v ≤ y.v
  eqb x y := x.v == y.v
  pi := RE.exact 3.14159265358979323846264338327950288

end GeoVerif
