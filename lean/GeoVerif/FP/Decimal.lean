import GeoVerif.FP.F64
/-!
# Exact decimal ↔ binary64 conversions (core Lean only)

* `ofDecExp num e10` — the correctly rounded (nearest-even) binary64 value of the decimal `num · 10^e10`,
  i.e. what glibc `strtod` returns for a decimal digit string (overflow ↦ `+inf`).
* `fmtFixed x p` — the exact `printf("%.*f", p, x)` of glibc: the *exact* binary value is rounded half-even to
  `p` decimals (this is what `std::ostringstream << std::fixed << std::setprecision(p)` prints).
* `fixedUnits x p` — that rounded count of units `10^-p` as an integer (the one rounding step of the formatter).
-/
namespace GeoVerif.Decimal
open GeoVerif

/-- number of decimal digits of `n` (0 for 0) -/
def ndigits (n : Nat) : Nat := if n = 0 then 0 else (Nat.toDigits 10 n).length

/-- correctly rounded value of `num · 10^e10` (`num ≥ 0`); overflow gives `+inf` -/
def ofDecExp (num : Nat) (e10 : Int) : F64 :=
  if num = 0 then F64.pzero else
  let nd : Int := ndigits num
  if e10 + nd > 320 then .inf false
  else if e10 + nd < -340 then F64.pzero
  else
    let q : Dy :=
      if e10 ≥ 0 then Dy.round53 ⟨(num : Int) * (10 : Int) ^ e10.toNat, 0⟩
      else Dy.divTo 53 (-1074) ⟨num, 0⟩ ⟨(10 : Int) ^ (-e10).toNat, 0⟩
    if q.m = 0 then F64.pzero else if F64.overflow q then .inf false else F64.ofDy q

/-- `num / 10^k` -/
def ofDec (num : Nat) (k : Nat) : F64 := ofDecExp num (-(k : Int))

def maxFinite : F64 := .fin false (2 ^ 53 - 1) 971

/-- what libstdc++'s `num_get` stores for a digit string: `strtod`, with overflow replaced by `DBL_MAX` -/
def ofDecIO (num : Nat) (k : Nat) : F64 :=
  match ofDec num k with
  | .inf _ => maxFinite
  | v => v

/-- `|x| · 10^p` rounded half-even to an integer, for finite `x` (0 otherwise) -/
def fixedUnits (x : F64) (p : Nat) : Nat :=
  match x with
  | .fin _ m e =>
    if e ≥ 0 then m * 2 ^ e.toNat * 10 ^ p
    else
      let num := m * 10 ^ p
      let den := 2 ^ (-e).toNat
      let q := num / den
      let r := num % den
      if 2 * r < den then q else if 2 * r > den then q + 1 else (if q % 2 = 0 then q else q + 1)
  | _ => 0

/-- is `|x|·10^p` exactly half-way between two integers?  (the only inputs on which a formatter that is not
    round-half-even could legitimately differ) -/
def fixedTie (x : F64) (p : Nat) : Bool :=
  match x with
  | .fin _ m e =>
    if e ≥ 0 then false else
      let num := m * 10 ^ p
      let den := 2 ^ (-e).toNat
      2 * (num % den) == den
  | _ => false

def digitBytes (n : Nat) : List Nat := (Nat.toDigits 10 n).map fun c => c.toNat

/-- decimal digits of `n`, at least `w` of them (zero-filled on the left) -/
def padDigits (w n : Nat) : List Nat :=
  let d := digitBytes n
  List.replicate (w - d.length) 48 ++ d

/-- digits of `N` units of `10^-p` as `int.frac` -/
def unitsToFixed (N p : Nat) : List Nat :=
  let d := padDigits (p + 1) N
  if p = 0 then d else d.take (d.length - p) ++ [46] ++ d.drop (d.length - p)

/-- `printf("%.*f", p, x)` for finite `x` -/
def fmtFixed (x : F64) (p : Nat) : List Nat :=
  (if x.signbit then [45] else []) ++ unitsToFixed (fixedUnits x p) p

def strBytes (s : String) : List Nat := s.toList.map Char.toNat

/-- `Utility::str(real x, int p)` for `p ≥ 0` -/
def utilStr (x : F64) (p : Nat) : List Nat :=
  match x with
  | .nan => strBytes "nan"
  | .inf s => if s then strBytes "-inf" else strBytes "inf"
  | _ => fmtFixed x p

end GeoVerif.Decimal
