/-!
# Exact dyadic rationals

`Dy = m · 2^e` with `m e : Int`.  Closed under `+ − ×`; every finite binary64
value is a `Dy`.  Core Lean only (compiled into the driver and reducible by
the kernel).
-/
namespace GeoVerif

structure Dy where
  m : Int
  e : Int
deriving Repr, Inhabited

namespace Dy

def zero : Dy := ⟨0, 0⟩
def one : Dy := ⟨1, 0⟩
def ofInt (n : Int) : Dy := ⟨n, 0⟩
def neg (x : Dy) : Dy := ⟨-x.m, x.e⟩
def abs (x : Dy) : Dy := ⟨x.m.natAbs, x.e⟩
def mul (x y : Dy) : Dy := ⟨x.m * y.m, x.e + y.e⟩

/-- `m · 2^k` for `k ≥ 0` -/
def shl (m : Int) (k : Int) : Int := m * (2 : Int) ^ k.toNat

def add (x y : Dy) : Dy :=
  if x.e ≤ y.e then ⟨x.m + shl y.m (y.e - x.e), x.e⟩
  else ⟨shl x.m (x.e - y.e) + y.m, y.e⟩
def sub (x y : Dy) : Dy := add x (neg y)

instance : Add Dy := ⟨add⟩
instance : Sub Dy := ⟨sub⟩
instance : Mul Dy := ⟨mul⟩
instance : Neg Dy := ⟨neg⟩

/-- sign of the value: -1, 0, 1 -/
def sgn (x : Dy) : Int := if x.m < 0 then -1 else if x.m = 0 then 0 else 1

/-- three-way comparison of values -/
def cmp (x y : Dy) : Ordering :=
  let d := sub x y
  if d.m < 0 then .lt else if d.m = 0 then .eq else .gt

def lt (x y : Dy) : Bool := (sub x y).m < 0
def le (x y : Dy) : Bool := (sub x y).m ≤ 0
def eq (x y : Dy) : Bool := (sub x y).m = 0
def isZero (x : Dy) : Bool := x.m = 0

/-- bit length of a natural number -/
def blen (n : Nat) : Nat := if n = 0 then 0 else Nat.log2 n + 1

/-- `⌊x⌋` as an integer -/
def floor (x : Dy) : Int :=
  if x.e ≥ 0 then shl x.m x.e else x.m / ((2 : Int) ^ (-x.e).toNat)   -- Int `/` rounds toward −∞ for positive divisor

/-- `⌈x⌉` -/
def ceil (x : Dy) : Int := - floor (neg x)

/-- nearest integer, ties to even -/
def roundEven (x : Dy) : Int :=
  let f := floor x
  let r := sub x (ofInt f)          -- in [0,1)
  let twice : Dy := ⟨r.m, r.e + 1⟩   -- 2r
  match cmp twice one with
  | .lt => f
  | .gt => f + 1
  | .eq => if f % 2 = 0 then f else f + 1

/-- round `m·2^e` to at most `p` significant bits with lsb exponent ≥ `emin`; ties to even. -/
def roundTo (p : Nat) (emin : Int) (x : Dy) : Dy :=
  let a := x.m.natAbs
  if a = 0 then ⟨0, 0⟩ else
  let L : Int := blen a
  let t : Int := max (x.e + L - p) emin
  if t ≤ x.e then x else
  let sh := (t - x.e).toNat
  let q := a >>> sh
  let r := a - (q <<< sh)
  let half := (1 : Nat) <<< (sh - 1)
  let q' := if r > half ∨ (r = half ∧ q % 2 = 1) then q + 1 else q
  ⟨(if x.m < 0 then -(q' : Int) else (q' : Int)), t⟩

def round53 : Dy → Dy := roundTo 53 (-1074)
def round24 : Dy → Dy := roundTo 24 (-149)

/-- quotient rounded to `p` bits (sticky bit technique) -/
def divTo (p : Nat) (emin : Int) (x y : Dy) : Dy :=
  let a := x.m.natAbs; let b := y.m.natAbs
  if a = 0 then ⟨0, 0⟩ else
  let k : Nat := (p + 3 + blen b) - min (p + 3 + blen b) (blen a) + 1
  let num := a <<< k
  let q := num / b
  let r := num % b
  let q2 := 2 * q + (if r = 0 then 0 else 1)
  let s : Int := if (x.m < 0) != (y.m < 0) then -1 else 1
  roundTo p emin ⟨s * (q2 : Int), x.e - y.e - k - 1⟩

/-- integer square root by Newton iteration (fuel = bit length) -/
def isqrt (n : Nat) : Nat :=
  if n < 2 then n else
  let rec go (fuel : Nat) (x : Nat) : Nat :=
    match fuel with
    | 0 => x
    | fuel + 1 =>
      let y := (x + n / x) / 2
      if y < x then go fuel y else x
  go (blen n + 2) (1 <<< ((blen n + 1) / 2))

/-- square root rounded to `p` bits (x ≥ 0) -/
def sqrtTo (p : Nat) (emin : Int) (x : Dy) : Dy :=
  let a := x.m.natAbs
  if a = 0 then ⟨0, 0⟩ else
  -- scale so that the integer root has ≥ p+2 bits and the exponent is even
  let want : Nat := 2 * (p + 3)
  let k0 : Nat := want - min want (blen a)
  let k : Nat := if (x.e - (k0 : Int)) % 2 = 0 then k0 else k0 + 1
  let num := a <<< k
  let s := isqrt num
  let sticky := if s * s = num then 0 else 1
  roundTo p emin ⟨((2 * s + sticky : Nat) : Int), (x.e - k) / 2 - 1⟩

/-- exact rational value as numerator/denominator (for printing / comparisons with rationals) -/
def toNumDen (x : Dy) : Int × Nat :=
  if x.e ≥ 0 then (shl x.m x.e, 1) else (x.m, 2 ^ (-x.e).toNat)

/-- normalise: strip trailing zero bits of the mantissa -/
def norm (x : Dy) : Dy :=
  let a := x.m.natAbs
  if a = 0 then ⟨0, 0⟩ else
  let rec tz (fuel : Nat) (a : Nat) (k : Nat) : Nat :=
    match fuel with
    | 0 => k
    | fuel + 1 => if a % 2 = 0 then tz fuel (a / 2) (k + 1) else k
  let k := tz (blen a) a 0
  ⟨(if x.m < 0 then -((a >>> k : Nat) : Int) else ((a >>> k : Nat) : Int)), x.e + k⟩

/-- approximate conversion to the native `Float` (for reporting only) -/
def toFloat (x : Dy) : Float :=
  let y := roundTo 53 (-1074) x
  let a := y.m.natAbs
  let f := Float.ofNat a
  let v := if y.e ≥ 0 then f * Float.exp2 (Float.ofInt y.e) else
    -- split to avoid underflow of the scale factor
    let h := y.e / 2
    f * Float.exp2 (Float.ofInt h) * Float.exp2 (Float.ofInt (y.e - h))
  if y.m < 0 then -v else v

end Dy
end GeoVerif
