import GeoVerif.Proofs.VPTree
/-!
# `NearestNeighbor::init` establishes `TreeInv` (core Lean + `omega`/`simp` only)

`nth_element` is a parameter of the model `initAux`; all that is used of it is its post-condition `NthSpec`.
-/
namespace GeoVerif.VPTree

/-! ## the pair order -/

theorem fst_le_of_ltId_false {a b : IdItem} (h : ltId b a = false) : a.1 ≤ b.1 := by
  simp only [ltId, Bool.or_eq_false_iff, decide_eq_false_iff_not, Bool.and_eq_false_iff, beq_eq_false_iff_ne] at h
  omega

theorem fst_le_of_ltId {a b : IdItem} (h : ltId a b = true) : a.1 ≤ b.1 := by
  simp only [ltId, Bool.or_eq_true, decide_eq_true_eq, Bool.and_eq_true, beq_iff_eq] at h
  omega

theorem ltId_irrefl (a : IdItem) : ltId a a = false := by
  simp [ltId]

theorem ltId_trans_false {a b c : IdItem} (h1 : ltId a b = true) (h2 : ltId c b = false) : ltId c a = false := by
  simp only [ltId, Bool.or_eq_true, decide_eq_true_eq, Bool.and_eq_true, beq_iff_eq, Bool.or_eq_false_iff,
    decide_eq_false_iff_not, Bool.and_eq_false_iff, beq_eq_false_iff_ne] at *
  omega

/-- the post-condition of `std::nth_element(first, first + k, last)`: the range is permuted; no element before position
    `k` is greater than an element from position `k` on; the element at position `k` is not greater than any element
    after it (it is the one a full sort would put there) -/
structure NthSpec (nth : Nat → List IdItem → List IdItem) : Prop where
  perm : ∀ k l, (nth k l).Perm l
  split : ∀ k l, ∀ x ∈ (nth k l).take k, ∀ y ∈ (nth k l).drop k, ltId y x = false
  pivot : ∀ k l p, (nth k l)[k]? = some p → ∀ y ∈ (nth k l).drop k, ltId y p = false

/-! ## the full sort is an `nth_element` -/

theorem insId_perm (x : IdItem) (l : List IdItem) : (insId x l).Perm (x :: l) := by
  induction l with
  | nil => exact List.Perm.refl _
  | cons y ys ih =>
    simp only [insId]
    split
    · exact List.Perm.refl _
    · exact (List.Perm.cons y ih).trans (List.Perm.swap x y ys)

theorem sortId_perm (l : List IdItem) : (sortId l).Perm l := by
  induction l with
  | nil => exact List.Perm.refl _
  | cons x xs ih => exact (insId_perm x _).trans (List.Perm.cons x ih)

abbrev IdSorted (l : List IdItem) : Prop := l.Pairwise (fun a b => ltId b a = false)

theorem idSorted_insId (x : IdItem) (l : List IdItem) (h : IdSorted l) : IdSorted (insId x l) := by
  induction l with
  | nil => simp [insId]
  | cons y ys ih =>
    simp only [insId]
    have hy := List.pairwise_cons.mp h
    split
    · rename_i hxy
      refine List.pairwise_cons.mpr ⟨?_, h⟩
      intro z hz
      rcases List.mem_cons.mp hz with rfl | hz
      · simp only [ltId, Bool.or_eq_true, decide_eq_true_eq, Bool.and_eq_true, beq_iff_eq, Bool.or_eq_false_iff,
          decide_eq_false_iff_not, Bool.and_eq_false_iff, beq_eq_false_iff_ne] at *
        omega
      · exact ltId_trans_false hxy (hy.1 z hz)
    · rename_i hxy
      refine List.pairwise_cons.mpr ⟨?_, ih hy.2⟩
      intro z hz
      rcases List.mem_cons.mp ((insId_perm x ys).mem_iff.mp hz) with rfl | hz'
      · simpa using hxy
      · exact hy.1 z hz'

theorem idSorted_sortId (l : List IdItem) : IdSorted (sortId l) := by
  induction l with
  | nil => exact List.Pairwise.nil
  | cons x xs ih => exact idSorted_insId x _ ih

theorem nthSort_spec : NthSpec nthSort := by
  refine ⟨fun k l => sortId_perm l, ?_, ?_⟩
  · intro k l x hx y hy
    have hs := idSorted_sortId l
    rw [← List.take_append_drop k (sortId l)] at hs
    exact (List.pairwise_append.mp hs).2.2 x hx y hy
  · intro k l p hp y hy
    have hs : IdSorted ((sortId l).drop k) := (idSorted_sortId l).sublist (List.drop_sublist _ _)
    have hd : (sortId l).drop k = p :: (sortId l).drop (k + 1) := by
      have hk : k < (sortId l).length := by
        rcases Nat.lt_or_ge k (sortId l).length with h | h
        · exact h
        · simp [nthSort, List.getElem?_eq_none h] at hp
      have := List.drop_eq_getElem_cons hk
      simp only [nthSort] at hp
      rw [List.getElem?_eq_getElem hk] at hp
      cases hp
      exact this
    simp only [nthSort] at hy
    rw [hd] at hy hs
    rcases List.mem_cons.mp hy with rfl | hy
    · exact ltId_irrefl _
    · exact (List.pairwise_cons.mp hs).1 y hy

/-! ## `max_element`, `min_element`, `swap` -/

theorem maxFrom_spec (xs : List IdItem) : ∀ (best : IdItem) (bi i : Nat),
    ((maxFrom best bi i xs).2 = best ∨ (maxFrom best bi i xs).2 ∈ xs) ∧ best.1 ≤ (maxFrom best bi i xs).2.1 ∧
      ∀ y ∈ xs, y.1 ≤ (maxFrom best bi i xs).2.1 := by
  induction xs with
  | nil => intro best bi i; simp [maxFrom]
  | cons x xs ih =>
    intro best bi i
    simp only [maxFrom]
    split
    · rename_i h
      obtain ⟨h1, h2, h3⟩ := ih x i (i + 1)
      have := fst_le_of_ltId h
      refine ⟨Or.inr ?_, by omega, ?_⟩
      · rcases h1 with h1 | h1
        · rw [h1]; exact List.mem_cons_self
        · exact List.mem_cons_of_mem _ h1
      · intro y hy
        rcases List.mem_cons.mp hy with rfl | hy
        · exact h2
        · exact h3 y hy
    · rename_i h
      have h : ltId best x = false := by simpa using h
      obtain ⟨h1, h2, h3⟩ := ih best bi (i + 1)
      have := fst_le_of_ltId_false h
      refine ⟨?_, h2, ?_⟩
      · rcases h1 with h1 | h1
        · exact Or.inl h1
        · exact Or.inr (List.mem_cons_of_mem _ h1)
      · intro y hy
        rcases List.mem_cons.mp hy with rfl | hy
        · omega
        · exact h3 y hy

theorem maxElement_ge {l : List IdItem} {y : IdItem} (hy : y ∈ l) : y.1 ≤ (maxElement l).2.1 := by
  cases l with
  | nil => simp at hy
  | cons x xs =>
    obtain ⟨_, h2, h3⟩ := maxFrom_spec xs x 0 1
    rcases List.mem_cons.mp hy with rfl | hy
    · exact h2
    · exact h3 y hy

theorem minFrom_spec (xs : List IdItem) : ∀ (best : IdItem),
    (minFrom best xs).1 ≤ best.1 ∧ ∀ y ∈ xs, (minFrom best xs).1 ≤ y.1 := by
  induction xs with
  | nil => intro best; simp [minFrom]
  | cons x xs ih =>
    intro best
    simp only [minFrom]
    split
    · rename_i h
      obtain ⟨h2, h3⟩ := ih x
      have := fst_le_of_ltId h
      refine ⟨by omega, ?_⟩
      intro y hy
      rcases List.mem_cons.mp hy with rfl | hy
      · exact h2
      · exact h3 y hy
    · rename_i h
      have h : ltId x best = false := by simpa using h
      obtain ⟨h2, h3⟩ := ih best
      have := fst_le_of_ltId_false h
      refine ⟨h2, ?_⟩
      intro y hy
      rcases List.mem_cons.mp hy with rfl | hy
      · omega
      · exact h3 y hy

theorem minElement_le {l : List IdItem} {y : IdItem} (hy : y ∈ l) : (minElement l).1 ≤ y.1 := by
  cases l with
  | nil => simp at hy
  | cons x xs =>
    obtain ⟨h2, h3⟩ := minFrom_spec xs x
    rcases List.mem_cons.mp hy with rfl | hy
    · exact h2
    · exact h3 y hy

theorem set_perm_swap {xs : List IdItem} {j : Nat} {x y : IdItem} (h : xs[j]? = some y) :
    (y :: xs.set j x).Perm (x :: xs) := by
  induction xs generalizing j with
  | nil => simp at h
  | cons a as ih =>
    cases j with
    | zero =>
      simp at h; subst h
      simp only [List.set_cons_zero]
      exact List.Perm.swap x a as
    | succ j =>
      simp at h
      simp only [List.set_cons_succ]
      exact (List.Perm.swap a y _).trans (((ih h).cons a).trans (List.Perm.swap x a as))

theorem swapFront_perm (r : List IdItem) (i : Nat) : (swapFront r i).Perm r := by
  unfold swapFront
  split
  · exact List.Perm.refl _
  · exact List.Perm.refl _
  · rename_i x xs j
    split
    · rename_i y hy
      exact set_perm_swap hy
    · exact List.Perm.refl _


/-! ## the stored array only grows -/

/-- `b` extends `a`: every stored node keeps its position -/
def Ext (a b : Array Node) : Prop := ∀ (i : Nat) (x : Node), a[i]? = some x → b[i]? = some x

theorem Ext.refl (a : Array Node) : Ext a a := fun _ _ h => h
theorem Ext.trans {a b c : Array Node} (h1 : Ext a b) (h2 : Ext b c) : Ext a c := fun i x h => h2 i x (h1 i x h)

theorem ext_push (a : Array Node) (x : Node) : Ext a (a.push x) := by
  intro i y h
  have hi : i < a.size := by
    rcases Nat.lt_or_ge i a.size with h' | h'
    · exact h'
    · rw [Array.getElem?_eq_none h'] at h; cases h
  rw [Array.getElem?_push]
  have : i ≠ a.size := by omega
  simp [this, h]

theorem getElem?_push_size (a : Array Node) (x : Node) : (a.push x)[((a.size : Int)).toNat]? = some x := by
  simp

theorem Rep.mono {a b : Array Node} {bucket : Nat} {n : Int} {t : VT} (h : Rep a bucket n t) (he : Ext a b) :
    Rep b bucket n t := by
  induction h with
  | nil hn => exact Rep.nil hn
  | leaf hn hg hv => exact Rep.leaf hn (he _ _ hg) hv
  | inner hn hg _ _ ih0 ih1 => exact Rep.inner hn (he _ _ hg) ih0 ih1

theorem validLeaves_ids (l : List IdItem) (m : Nat) :
    validLeaves (l.map (fun it => (it.2 : Int)) ++ List.replicate m (-1)) = l.map (·.2) := by
  induction l with
  | nil => cases m <;> simp [validLeaves, List.replicate]
  | cons x xs ih =>
    simp only [List.map_cons, List.cons_append, validLeaves]
    have : ¬ ((x.2 : Int) < 0) := by omega
    simp [this, ih]

/-! ## the construction -/

/-- what one call of `init` on the range `r` achieves: the array is extended; for a non-empty range the returned index
    is that of the last node; the node it returns represents a tree whose bounds hold and whose points are the range -/
structure InitOK (d : Nat → Nat → Int) (bucket : Nat) (tree : Array Node) (r : List IdItem)
    (out : Array Node × Nat × Int) : Prop where
  ext : Ext tree out.1
  root : r ≠ [] → out.2.2 = (out.1.size : Int) - 1
  rep : ∃ t, Rep out.1 bucket out.2.2 t ∧ Bounded d t ∧ t.pts.Perm (r.map (·.2))

theorem initOK_nil (d : Nat → Nat → Int) (bucket : Nat) (tree : Array Node) (cost : Nat) :
    InitOK d bucket tree [] (tree, cost, -1) :=
  ⟨Ext.refl _, fun h => absurd rfl h, .nil, Rep.nil (by show (-1 : Int) < 0; omega), trivial, List.Perm.refl _⟩

theorem initAux_spec {nth : Nat → List IdItem → List IdItem} (hn : NthSpec nth) (d : Nat → Nat → Int) (bucket : Nat) :
    ∀ (f : Nat) (tree : Array Node) (cost : Nat) (r : List IdItem) (vp : Nat), r.length ≤ f →
      InitOK d bucket tree r (initAux nth d bucket f tree cost r vp) := by
  intro f
  induction f with
  | zero =>
    intro tree cost r vp hf
    have : r = [] := List.eq_nil_of_length_eq_zero (by omega)
    subst this
    exact initOK_nil d bucket tree cost
  | succ f ih =>
    intro tree cost r vp hf
    unfold initAux
    by_cases hr : r.isEmpty = true
    · rw [if_pos hr]
      have : r = [] := by simpa using hr
      subst this
      exact initOK_nil d bucket tree cost
    rw [if_neg hr]
    have hr0 : r ≠ [] := by simpa using hr
    have hlen : 1 ≤ r.length := by
      cases r with
      | nil => exact absurd rfl hr0
      | cons _ _ => simp
    by_cases hbig : r.length > (if bucket = 0 then 1 else bucket)
    · rw [if_pos hbig]
      have hsw := swapFront_perm r vp
      cases hsf : swapFront r vp with
      | nil => rw [hsf] at hsw; have := hsw.length_eq; simp at this; omega
      | cons xv rest =>
        obtain ⟨x, v⟩ := xv
        rw [hsf] at hsw
        have hrl : rest.length + 1 = r.length := by have := hsw.length_eq; simpa using this
        have h2 : 2 ≤ r.length := by
          by_cases hb : bucket = 0
          · simp [hb] at hbig; omega
          · simp [hb] at hbig; omega
        simp only []
        -- names
        generalize hk : (r.length + 1) / 2 - 1 = k
        generalize hmp : rest.map (fun it => (d v it.2, it.2)) = mapped
        have hsp := hn.perm k mapped
        have hsl : (nth k mapped).length = rest.length := by rw [hsp.length_eq, ← hmp]; simp
        generalize hs : nth k mapped = s at *
        have hdist : ∀ it ∈ s, it.1 = d v it.2 := by
          intro it hit
          have := hsp.mem_iff.mp hit
          rw [← hmp] at this
          obtain ⟨it0, _, rfl⟩ := List.mem_map.mp this
          rfl
        have hl0 : (s.take k).length ≤ f := by rw [List.length_take]; omega
        have hl1 : (s.drop k).length ≤ f := by rw [List.length_drop]; omega
        have hne1 : s.drop k ≠ [] := by
          intro h; have := congrArg List.length h; rw [List.length_drop] at this; simp at this; omega
        -- child 0
        have hA : InitOK d bucket tree (s.take k)
            (if k = 0 then (tree, cost + rest.length, (-1 : Int))
             else initAux nth d bucket f tree (cost + rest.length) (s.take k) (maxElement (s.take k)).1) := by
          by_cases hk0 : k = 0
          · rw [if_pos hk0, hk0, List.take_zero]; exact initOK_nil d bucket tree _
          · rw [if_neg hk0]; exact ih tree _ _ _ hl0
        generalize (if k = 0 then (tree, cost + rest.length, (-1 : Int))
             else initAux nth d bucket f tree (cost + rest.length) (s.take k) (maxElement (s.take k)).1) = a at *
        have hB := ih a.1 a.2.1 (s.drop k) (maxElement (s.drop k)).1 hl1
        generalize initAux nth d bucket f a.1 a.2.1 (s.drop k) (maxElement (s.drop k)).1 = b at *
        obtain ⟨eA, _, t0, r0, b0, p0⟩ := hA
        obtain ⟨eB, rootB, t1, r1, b1, p1⟩ := hB
        have ePush := ext_push b.1 (.inner v (if k = 0 then 0 else (minElement (s.take k)).1)
          (if k = 0 then 0 else (maxElement (s.take k)).2.1) a.2.2
          (match s.drop k with | [] => 0 | x :: _ => x.1) (maxElement (s.drop k)).2.1 b.2.2)
        refine ⟨(eA.trans eB).trans ePush, fun _ => by simp, ?_⟩
        refine ⟨.inner v _ _ _ _ t0 t1,
          Rep.inner (Int.natCast_nonneg _) (getElem?_push_size _ _) ((r0.mono eB).mono ePush) (r1.mono ePush), ⟨?_, ?_, b0, b1⟩, ?_⟩
        · intro p hp
          obtain ⟨it, hit, rfl⟩ := List.mem_map.mp (p0.mem_iff.mp hp)
          have hk0 : k ≠ 0 := by
            intro h; rw [h] at hit; simp at hit
          rw [if_neg hk0, if_neg hk0, ← hdist it (List.mem_of_mem_take hit)]
          exact ⟨minElement_le hit, maxElement_ge hit⟩
        · intro p hp
          obtain ⟨it, hit, rfl⟩ := List.mem_map.mp (p1.mem_iff.mp hp)
          rw [← hdist it (List.mem_of_mem_drop hit)]
          refine ⟨?_, maxElement_ge hit⟩
          cases hd : s.drop k with
          | nil => exact absurd hd hne1
          | cons y ys =>
            simp only []
            have hy : s[k]? = some y := by
              have := congrArg List.head? hd
              simpa [List.head?_drop] using this
            rw [← hs] at hy hit
            have := hn.pivot k mapped y hy it hit
            exact fst_le_of_ltId_false this
        · simp only [VT.pts]
          have e1 : (v :: (t0.pts ++ t1.pts)).Perm (v :: ((s.take k).map (·.2) ++ (s.drop k).map (·.2))) :=
            (p0.append p1).cons v
          have e2 : (s.take k).map (·.2) ++ (s.drop k).map (·.2) = s.map (·.2) := by
            rw [← List.map_append, List.take_append_drop]
          have e3 : (s.map (·.2)).Perm (rest.map (·.2)) := by
            have := hsp.map (·.2)
            rw [← hmp] at this
            simpa [List.map_map, Function.comp_def] using this
          rw [e2] at e1
          exact (e1.trans (e3.cons v)).trans (hsw.map (fun it : IdItem => it.2))
    · rw [if_neg hbig]
      by_cases hb : bucket = 0
      · rw [if_pos hb]
        rw [if_pos hb] at hbig
        cases r with
        | nil => exact absurd rfl hr0
        | cons x xs =>
          have : xs = [] := List.eq_nil_of_length_eq_zero (by simp only [List.length_cons] at hbig; omega)
          subst this
          refine ⟨ext_push _ _, fun _ => by simp, .inner x.2 0 0 0 0 .nil .nil,
            Rep.inner (Int.natCast_nonneg _) (getElem?_push_size _ _) (Rep.nil (by omega)) (Rep.nil (by omega)), ?_, ?_⟩
          · exact ⟨by intro p hp; simp [VT.pts] at hp, by intro p hp; simp [VT.pts] at hp, trivial, trivial⟩
          · simp [VT.pts]
      · rw [if_neg hb]
        rw [if_neg hb] at hbig
        have hle : r.length ≤ bucket := by omega
        generalize hls : (sortId r).map (fun it => (it.2 : Int)) ++ List.replicate (bucket - r.length) (-1) = ls
        have hlsl : ls.length = bucket := by
          subst hls; simp [(sortId_perm r).length_eq]; omega
        have htk : ls.take bucket = ls := List.take_of_length_le (by omega)
        have hvl : validLeaves (ls.take bucket) = (sortId r).map (·.2) := by
          rw [htk, ← hls]; exact validLeaves_ids _ _
        have hne : validLeaves (ls.take bucket) ≠ [] := by
          rw [hvl]
          intro h
          have := congrArg List.length h
          rw [List.length_map, (sortId_perm r).length_eq, List.length_nil] at this
          omega
        refine ⟨ext_push _ _, fun _ => by simp, .leaf (validLeaves (ls.take bucket)),
          Rep.leaf (Int.natCast_nonneg _) (getElem?_push_size _ _) hne, trivial, ?_⟩
        simp only [VT.pts]
        rw [hvl]
        exact (sortId_perm r).map (·.2)


/-! ## `Initialize` writes what `Load` accepts: `Node::Check` node by node, children before parents, no shared child -/

theorem maxElement_mem {l : List IdItem} (h : l ≠ []) : (maxElement l).2 ∈ l := by
  cases l with
  | nil => exact absurd rfl h
  | cons x xs =>
    obtain ⟨h1, _, _⟩ := maxFrom_spec xs x 0 1
    rcases h1 with h1 | h1
    · simp only [maxElement]; rw [h1]; exact List.mem_cons_self
    · exact List.mem_cons_of_mem _ h1

theorem minFrom_mem (xs : List IdItem) : ∀ (best : IdItem), minFrom best xs = best ∨ minFrom best xs ∈ xs := by
  induction xs with
  | nil => intro best; simp [minFrom]
  | cons x xs ih =>
    intro best
    simp only [minFrom]
    split
    · rcases ih x with h | h
      · rw [h]; exact Or.inr List.mem_cons_self
      · exact Or.inr (List.mem_cons_of_mem _ h)
    · rcases ih best with h | h
      · exact Or.inl h
      · exact Or.inr (List.mem_cons_of_mem _ h)

theorem minElement_mem {l : List IdItem} (h : l ≠ []) : minElement l ∈ l := by
  cases l with
  | nil => exact absurd rfl h
  | cons x xs =>
    rcases minFrom_mem xs x with h1 | h1
    · simp only [minElement]; rw [h1]; exact List.mem_cons_self
    · exact List.mem_cons_of_mem _ h1

theorem children_append (a b : List Node) : children (a ++ b) = children a ++ children b := by
  induction a with
  | nil => rfl
  | cons x xs ih => simp [children, ih]

theorem nodesOK_append (bucket : Nat) (np : Int) : ∀ (a b : List Node) (i : Nat),
    NodesOK bucket np i (a ++ b) ↔ NodesOK bucket np i a ∧ NodesOK bucket np (i + a.length) b := by
  intro a
  induction a with
  | nil => intro b i; simp [NodesOK]
  | cons x xs ih =>
    intro b i
    simp only [List.cons_append, NodesOK, ih, List.length_cons]
    have e : i + 1 + xs.length = i + (xs.length + 1) := by omega
    rw [e]
    exact and_assoc.symm

theorem checkLeaves_pad (np : Int) (hnp : 0 ≤ np) : ∀ (m : Nat) (start : Bool),
    checkLeaves np false start (List.replicate m (-1)) = true := by
  intro m
  induction m with
  | zero => intro start; rfl
  | succ m ih =>
    intro start
    simp only [List.replicate, checkLeaves, ih, Bool.and_true]
    cases start
    · simp
    · simp; omega

theorem checkLeaves_ids (np : Int) : ∀ (l : List Nat) (m : Nat) (first : Bool), (∀ x ∈ l, (x : Int) < np) →
    (l ≠ [] ∨ (first = false ∧ 0 ≤ np)) →
    checkLeaves np first true (l.map (fun x : Nat => (x : Int)) ++ List.replicate m (-1)) = true := by
  intro l
  induction l with
  | nil =>
    intro m first _ h
    rcases h with h | ⟨h, hnp⟩
    · exact absurd rfl h
    · subst h; exact checkLeaves_pad np hnp m true
  | cons x xs ih =>
    intro m first hx _
    have hx0 := hx x List.mem_cons_self
    simp only [List.map_cons, List.cons_append, checkLeaves, if_true]
    have hge : decide ((x : Int) ≥ 0) = true := by simp
    rw [hge, ih m false (fun y hy => hx y (List.mem_cons_of_mem _ hy)) (Or.inr ⟨rfl, by omega⟩)]
    cases first <;> simp <;> omega

/-- what one call of `init` appends: at most one node per point, each passing `Node::Check` at its own position (children
    before the parent), no child named twice, and every child pointer inside the appended block below its last node -/
structure InitWF (np : Int) (bucket : Nat) (tree : Array Node) (r : List IdItem) (out : Array Node × Nat × Int) : Prop where
  ex : ∃ ext : List Node, out.1.toList = tree.toList ++ ext ∧ ext.length ≤ r.length ∧
    (r = [] → ext = [] ∧ out.2.2 = -1) ∧ (r ≠ [] → ext ≠ [] ∧ out.2.2 = (out.1.size : Int) - 1) ∧
    NodesOK bucket np tree.size ext ∧ (children ext).Nodup ∧
    ∀ c ∈ children ext, (tree.size : Int) ≤ c ∧ c < (out.1.size : Int) - 1

theorem initWF_nil (np : Int) (bucket : Nat) (tree : Array Node) (cost : Nat) :
    InitWF np bucket tree [] (tree, cost, -1) :=
  ⟨[], by simp, by simp, fun _ => ⟨rfl, rfl⟩, fun h => absurd rfl h, trivial, by simp [children], by simp [children]⟩

theorem initAux_wf {nth : Nat → List IdItem → List IdItem} (hn : NthSpec nth) (d : Nat → Nat → Int)
    (hd : ∀ i j, 0 ≤ d i j) (np : Int) (bucket : Nat) :
    ∀ (f : Nat) (tree : Array Node) (cost : Nat) (r : List IdItem) (vp : Nat), r.length ≤ f →
      (∀ it ∈ r, (it.2 : Int) < np) → InitWF np bucket tree r (initAux nth d bucket f tree cost r vp) := by
  intro f
  induction f with
  | zero =>
    intro tree cost r vp hf _
    have : r = [] := List.eq_nil_of_length_eq_zero (by omega)
    subst this
    exact initWF_nil np bucket tree cost
  | succ f ih =>
    intro tree cost r vp hf hids
    unfold initAux
    by_cases hr : r.isEmpty = true
    · rw [if_pos hr]
      have : r = [] := by simpa using hr
      subst this
      exact initWF_nil np bucket tree cost
    rw [if_neg hr]
    have hr0 : r ≠ [] := by simpa using hr
    have hlen : 1 ≤ r.length := by
      cases r with
      | nil => exact absurd rfl hr0
      | cons _ _ => simp
    have hnp : 0 ≤ np := by
      cases r with
      | nil => exact absurd rfl hr0
      | cons x _ => have := hids x List.mem_cons_self; omega
    by_cases hbig : r.length > (if bucket = 0 then 1 else bucket)
    · rw [if_pos hbig]
      have hsw := swapFront_perm r vp
      cases hsf : swapFront r vp with
      | nil => rw [hsf] at hsw; have := hsw.length_eq; simp at this; omega
      | cons xv rest =>
        obtain ⟨x, v⟩ := xv
        rw [hsf] at hsw
        have hrl : rest.length + 1 = r.length := by have := hsw.length_eq; simpa using this
        have h2 : 2 ≤ r.length := by
          by_cases hb : bucket = 0
          · simp [hb] at hbig; omega
          · simp [hb] at hbig; omega
        have hv : (v : Int) < np := hids (x, v) (hsw.mem_iff.mp List.mem_cons_self)
        simp only []
        generalize hk : (r.length + 1) / 2 - 1 = k
        generalize hmp : rest.map (fun it => (d v it.2, it.2)) = mapped
        have hsp := hn.perm k mapped
        have hsl : (nth k mapped).length = rest.length := by rw [hsp.length_eq, ← hmp]; simp
        have hsplit := hn.split k mapped
        have hpivot := hn.pivot k mapped
        generalize hs : nth k mapped = s at *
        have hprop : ∀ it ∈ s, it.1 = d v it.2 ∧ (it.2 : Int) < np := by
          intro it hit
          have := hsp.mem_iff.mp hit
          rw [← hmp] at this
          obtain ⟨it0, h0, rfl⟩ := List.mem_map.mp this
          exact ⟨rfl, hids it0 (hsw.mem_iff.mp (List.mem_cons_of_mem _ h0))⟩
        have hl0 : (s.take k).length ≤ f := by rw [List.length_take]; omega
        have hl1 : (s.drop k).length ≤ f := by rw [List.length_drop]; omega
        have hlsum : (s.take k).length + (s.drop k).length + 1 = r.length := by
          rw [List.length_take, List.length_drop]; omega
        have hne1 : s.drop k ≠ [] := by
          intro h; have := congrArg List.length h; rw [List.length_drop] at this; simp at this; omega
        have hA : InitWF np bucket tree (s.take k)
            (if k = 0 then (tree, cost + rest.length, (-1 : Int))
             else initAux nth d bucket f tree (cost + rest.length) (s.take k) (maxElement (s.take k)).1) := by
          by_cases hk0 : k = 0
          · rw [if_pos hk0, hk0, List.take_zero]; exact initWF_nil np bucket tree _
          · rw [if_neg hk0]; exact ih tree _ _ _ hl0 (fun it hit => (hprop it (List.mem_of_mem_take hit)).2)
        have hk0iff : k = 0 ↔ s.take k = [] := by
          constructor
          · intro h; rw [h]; rfl
          · intro h; have := congrArg List.length h; rw [List.length_take, List.length_nil] at this; omega
        generalize (if k = 0 then (tree, cost + rest.length, (-1 : Int))
             else initAux nth d bucket f tree (cost + rest.length) (s.take k) (maxElement (s.take k)).1) = a at *
        have hB := ih a.1 a.2.1 (s.drop k) (maxElement (s.drop k)).1 hl1 (fun it hit => (hprop it (List.mem_of_mem_drop hit)).2)
        generalize initAux nth d bucket f a.1 a.2.1 (s.drop k) (maxElement (s.drop k)).1 = b at *
        obtain ⟨ext0, e0, len0, nil0, root0, ok0, nd0, rg0⟩ := hA
        obtain ⟨ext1, e1, len1, _, root1, ok1, nd1, rg1⟩ := hB
        obtain ⟨ne1, rt1⟩ := root1 hne1
        have sa : a.1.size = tree.size + ext0.length := by
          have := congrArg List.length e0; simpa using this
        have sb : b.1.size = a.1.size + ext1.length := by
          have := congrArg List.length e1; simpa using this
        have l1pos : 1 ≤ ext1.length := by
          cases ext1 with
          | nil => exact absurd rfl ne1
          | cons _ _ => simp
        -- the new node
        generalize hnode : Node.inner v (if k = 0 then 0 else (minElement (s.take k)).1)
          (if k = 0 then 0 else (maxElement (s.take k)).2.1) a.2.2
          (match s.drop k with | [] => 0 | x :: _ => x.1) (maxElement (s.drop k)).2.1 b.2.2 = node
        have hc0 : (k = 0 → a.2.2 = -1) ∧ (k ≠ 0 → a.2.2 = (a.1.size : Int) - 1 ∧ 1 ≤ ext0.length) := by
          constructor
          · intro h; exact (nil0 (hk0iff.mp h)).2
          · intro h
            obtain ⟨n0, r0⟩ := root0 (fun h' => h (hk0iff.mpr h'))
            refine ⟨r0, ?_⟩
            cases ext0 with
            | nil => exact absurd rfl n0
            | cons _ _ => simp
        have hkids : kids node = (if k = 0 then [] else [(a.1.size : Int) - 1]) ++ [(b.1.size : Int) - 1] := by
          rw [← hnode]
          simp only [kids, rt1]
          have hb1 : ¬ ((b.1.size : Int) - 1 < 0) := by omega
          by_cases hk0 : k = 0
          · rw [hc0.1 hk0]
            have hm1 : ((-1 : Int) < 0) := by omega
            simp only [hk0, if_true, hm1, hb1, if_false, List.nil_append]
          · rw [(hc0.2 hk0).1]
            have := (hc0.2 hk0).2
            have ha1 : ¬ ((a.1.size : Int) - 1 < 0) := by omega
            simp only [hk0, if_false, ha1, hb1]
        have hcheck : nodeCheck np (b.1.size : Int) node = true := by
          rw [← hnode]
          obtain ⟨y, ys, hy⟩ : ∃ y ys, s.drop k = y :: ys := by
            cases hd' : s.drop k with
            | nil => exact absurd hd' hne1
            | cons y ys => exact ⟨y, ys, rfl⟩
          have hymem : y ∈ s.drop k := by rw [hy]; exact List.mem_cons_self
          have hy0 : 0 ≤ y.1 := by rw [(hprop y (List.mem_of_mem_drop hymem)).1]; exact hd _ _
          have hyM : y.1 ≤ (maxElement (y :: ys)).2.1 := maxElement_ge List.mem_cons_self
          simp only [nodeCheck, hy, rt1]
          by_cases hk0 : k = 0
          · rw [hc0.1 hk0]
            simp only [hk0, if_true]
            simp only [Bool.and_eq_true, decide_eq_true_eq]
            refine ⟨⟨hv, ?_⟩, ?_⟩ <;> omega
          · obtain ⟨ra, la⟩ := hc0.2 hk0
            rw [ra]
            simp only [hk0, if_false]
            have hne0 : s.take k ≠ [] := fun h => hk0 (hk0iff.mpr h)
            have hmin := minElement_mem hne0
            have hmax := maxElement_mem hne0
            have h1 : 0 ≤ (minElement (s.take k)).1 := by
              rw [(hprop _ (List.mem_of_mem_take hmin)).1]; exact hd _ _
            have h2' : (minElement (s.take k)).1 ≤ (maxElement (s.take k)).2.1 := maxElement_ge hmin
            have h3 : (maxElement (s.take k)).2.1 ≤ y.1 := fst_le_of_ltId_false (hsplit _ hmax y hymem)
            simp only [Bool.and_eq_true, decide_eq_true_eq]
            refine ⟨⟨hv, ?_⟩, ?_⟩ <;> omega
        refine ⟨⟨ext0 ++ ext1 ++ [node], ?_, ?_, fun h => absurd h hr0, fun _ => ⟨by simp, by simp⟩, ?_, ?_, ?_⟩⟩
        · simp only [Array.toList_push, e1, e0, List.append_assoc]
        · simp only [List.length_append, List.length_cons, List.length_nil]; omega
        · rw [nodesOK_append, nodesOK_append]
          refine ⟨⟨ok0, ?_⟩, ?_⟩
          · rw [← sa]; exact ok1
          · simp only [NodesOK, and_true]
            have e : tree.size + (ext0 ++ ext1).length = b.1.size := by simp only [List.length_append]; omega
            rw [e]
            refine ⟨hcheck, ?_⟩
            intro ls h; rw [← hnode] at h; cases h
        · rw [children_append, children_append]
          simp only [children, List.append_nil]
          rw [List.nodup_append, List.nodup_append]
          refine ⟨⟨nd0, nd1, ?_⟩, ?_, ?_⟩
          · intro p hp q hq e
            have := rg0 p hp; have := rg1 q hq; omega
          · rw [hkids]
            by_cases hk0 : k = 0
            · simp [hk0]
            · have := (hc0.2 hk0).2
              simp [hk0]; omega
          · intro p hp q hq e
            rw [hkids] at hq
            have hq' : q = (a.1.size : Int) - 1 ∨ q = (b.1.size : Int) - 1 := by
              by_cases hk0 : k = 0
              · simp [hk0] at hq; exact Or.inr hq
              · simp [hk0] at hq; exact hq
            rcases List.mem_append.mp hp with hp | hp
            · have := rg0 p hp; omega
            · have := rg1 p hp; omega
        · intro c hc
          rw [children_append, children_append] at hc
          simp only [children, List.append_nil, Array.size_push] at hc ⊢
          rcases List.mem_append.mp hc with hc | hc
          · rcases List.mem_append.mp hc with hc | hc
            · have := rg0 c hc; omega
            · have := rg1 c hc; omega
          · rw [hkids] at hc
            by_cases hk0 : k = 0
            · simp [hk0] at hc; omega
            · have := (hc0.2 hk0).2
              simp [hk0] at hc; omega
    · rw [if_neg hbig]
      by_cases hb : bucket = 0
      · rw [if_pos hb]
        rw [if_pos hb] at hbig
        cases r with
        | nil => exact absurd rfl hr0
        | cons x xs =>
          have : xs = [] := List.eq_nil_of_length_eq_zero (by simp only [List.length_cons] at hbig; omega)
          subst this
          have hx := hids x List.mem_cons_self
          refine ⟨⟨[.inner x.2 0 0 (-1) 0 0 (-1)], by simp, by simp, fun h => absurd h (by simp), fun _ => ⟨by simp, by simp⟩, ?_, by simp [children, kids], by simp [children, kids]⟩⟩
          simp only [NodesOK, and_true, NodeOK, nodeCheck]
          refine ⟨?_, by intro ls h; cases h⟩
          simp only [Bool.and_eq_true, decide_eq_true_eq]
          refine ⟨⟨hx, ?_⟩, ?_⟩ <;> omega
      · rw [if_neg hb]
        rw [if_neg hb] at hbig
        have hle : r.length ≤ bucket := by omega
        generalize hls : (sortId r).map (fun it => (it.2 : Int)) ++ List.replicate (bucket - r.length) (-1) = ls
        have hlsl : ls.length = bucket := by
          subst hls; simp [(sortId_perm r).length_eq]; omega
        refine ⟨⟨[.leaf ls], by simp, by simp; omega, fun h => absurd h hr0, fun _ => ⟨by simp, by simp⟩, ?_, by simp [children, kids], by simp [children, kids]⟩⟩
        simp only [NodesOK, and_true, NodeOK, nodeCheck]
        refine ⟨?_, by intro ls' h; cases h; exact hlsl⟩
        rw [← hls]
        have e : (sortId r).map (fun it => (it.2 : Int)) = ((sortId r).map (·.2)).map (fun x : Nat => (x : Int)) := by
          simp [List.map_map, Function.comp_def]
        rw [e]
        apply checkLeaves_ids
        · intro x hx
          obtain ⟨it, hit, rfl⟩ := List.mem_map.mp hx
          exact hids it ((sortId_perm r).mem_iff.mp hit)
        · left
          intro h
          have := congrArg List.length h
          rw [List.length_map, (sortId_perm r).length_eq, List.length_nil] at this
          omega


theorem init_treeInv {nth : Nat → List IdItem → List IdItem} (hn : NthSpec nth) (d : Nat → Nat → Int) (bucket n : Nat) :
    TreeInv (init nth d bucket n).nodes.toArray bucket n d := by
  cases n with
  | zero =>
    -- no points: no node is stored and the root index is −1
    refine ⟨.nil, Rep.nil ?_, trivial, by simp [VT.pts]⟩
    simp [init, initAux]
  | succ n =>
    have h := initAux_spec hn d bucket (n + 1) #[] 0 ((List.range (n + 1)).map fun k => ((0 : Int), k)) ((n + 1) / 2) (by simp)
    simp only [init, Array.toArray_toList]
    generalize initAux nth d bucket (n + 1) #[] 0 ((List.range (n + 1)).map fun k => ((0 : Int), k)) ((n + 1) / 2) = out at *
    obtain ⟨_, root, t, hrep, hb, hp⟩ := h
    have hp' : t.pts.Perm (List.range (n + 1)) := by
      have e : ((List.range (n + 1)).map fun k => ((0 : Int), k)).map (·.2) = List.range (n + 1) := by
        simp [List.map_map, Function.comp_def]
      rw [e] at hp; exact hp
    have hne : ((List.range (n + 1)).map fun k => ((0 : Int), k)) ≠ [] := by
      intro h; have := congrArg List.length h; simp at this
    rw [root hne] at hrep
    exact ⟨t, hrep, hb, hp'⟩


theorem init_wf {nth : Nat → List IdItem → List IdItem} (hn : NthSpec nth) (d : Nat → Nat → Int)
    (hd : ∀ i j, 0 ≤ d i j) (bucket n : Nat) (maxbucket : Int) (hb : (bucket : Int) ≤ maxbucket) :
    WellFormed maxbucket (init nth d bucket n) := by
  have h := initAux_wf hn d hd (n : Int) bucket n #[] 0 ((List.range n).map fun k => ((0 : Int), k)) (n / 2) (by simp)
    (by intro it hit; obtain ⟨k, hk, rfl⟩ := List.mem_map.mp hit; have := List.mem_range.mp hk; simp; omega)
  obtain ⟨ext, e, len, _, _, ok, nd, _⟩ := h
  simp only [List.toList_toArray, List.nil_append, List.length_map, List.length_range] at e len
  refine ⟨?_, hb, ?_, ?_, ?_, ?_⟩
  · show (0 : Int) ≤ (bucket : Int); omega
  · show (((initAux nth d bucket n #[] 0 ((List.range n).map fun k => ((0 : Int), k)) (n / 2)).1.toList.length : Nat) : Int) ≤ (n : Int)
    rw [e]; omega
  · show (0 : Int) ≤ (((initAux nth d bucket n #[] 0 ((List.range n).map fun k => ((0 : Int), k)) (n / 2)).2.1 : Nat) : Int)
    omega
  · show NodesOK ((bucket : Int)).toNat (n : Int) 0 (initAux nth d bucket n #[] 0 ((List.range n).map fun k => ((0 : Int), k)) (n / 2)).1.toList
    rw [e, Int.toNat_natCast]
    simpa using ok
  · show (children (initAux nth d bucket n #[] 0 ((List.range n).map fun k => ((0 : Int), k)) (n / 2)).1.toList).Nodup
    rw [e]; exact nd

end GeoVerif.VPTree
