import GeoVerif.Model.DMS
/-!
# Lemmas about the discrete stage of the DMS parser (core Lean only)
-/
namespace GeoVerif.DMSProofs
open GeoVerif GeoVerif.DMS GeoVerif.Gen

deriving instance DecidableEq for Except

/-- ASCII digit bytes -/
def IsDigit (c : Nat) : Prop := 48 ≤ c ∧ c ≤ 57
def AllDigits (ds : Bytes) : Prop := ∀ c ∈ ds, IsDigit c

/-- value of a digit string continuing from `v` -/
def digitsVal (v : Nat) (ds : Bytes) : Nat := ds.foldl (fun v c => 10 * v + (c - 48)) v

theorem digitsVal_nil (v : Nat) : digitsVal v [] = v := by simp only [digitsVal, List.foldl_nil]
theorem digitsVal_cons (v c : Nat) (t : Bytes) : digitsVal v (c :: t) = digitsVal (10 * v + (c - 48)) t := by
  simp only [digitsVal, List.foldl_cons]

theorem toupper_of_lt (c : Nat) (h : c < 97) : toupper c = c := by
  unfold toupper; split <;> omega

theorem toupper_of_gt (c : Nat) (h : 122 < c) : toupper c = c := by
  unfold toupper; split <;> omega

/-- `digitVal` is the ASCII digit value, for every byte (and every `Nat`) -/
theorem digitVal_spec (c : Nat) : digitVal c = if 48 ≤ c ∧ c ≤ 57 then some (c - 48) else none := by
  by_cases h0 : c = 0
  · subst h0; simp [digitVal, lookup]
  by_cases hlt : c < 128
  · -- finitely many cases
    have : ∀ c, c < 128 → digitVal c = if 48 ≤ c ∧ c ≤ 57 then some (c - 48) else none := by decide +kernel
    exact this c hlt
  · have hu : toupper c = c := toupper_of_gt c (by omega)
    have hne : ¬ (48 ≤ c ∧ c ≤ 57) := by omega
    simp only [digitVal, lookup, h0, if_false, hu, DMSC.digits, indexOf, hne]
    have e : ∀ k : Nat, k < 128 → (k = c) = False := by intro k hk; simp; omega
    simp [e]

theorem digitVal_digit {c : Nat} (h : IsDigit c) : digitVal c = some (c - 48) := by
  rw [digitVal_spec]; simp [h.1, h.2]

theorem digitVal_nondigit {c : Nat} (h : ¬ IsDigit c) : digitVal c = none := by
  rw [digitVal_spec]; unfold IsDigit at h; simp [h]

/-- scanning a digit string followed by a non-digit (or nothing) -/
theorem scanDigits_digits (ds rest : Bytes) (v n : Nat) (hd : AllDigits ds)
    (hr : ∀ c t, rest = c :: t → ¬ IsDigit c) :
    scanDigits v n (ds ++ rest) = (digitsVal v ds, n + ds.length, rest) := by
  induction ds generalizing v n with
  | nil =>
    cases rest with
    | nil => simp only [List.append_nil, scanDigits, digitsVal_nil, List.length_nil, Nat.add_zero]
    | cons c t =>
      have := hr c t rfl
      simp only [List.nil_append, scanDigits, digitVal_nondigit this, digitsVal_nil, List.length_nil, Nat.add_zero]
  | cons d ds ih =>
    have hdd : IsDigit d := hd d (by simp)
    have hds : AllDigits ds := fun c hc => hd c (by simp [hc])
    simp only [List.cons_append, scanDigits, digitVal_digit hdd, digitsVal_cons]
    rw [ih _ _ hds]
    simp only [List.length_cons]
    congr 2; omega

/-- what `scanDigits` leaves is a suffix and starts with a non-digit -/
theorem scanDigits_rest (s : Bytes) (v n : Nat) :
    ∃ pre, s = pre ++ (scanDigits v n s).2.2 ∧ AllDigits pre ∧
      (∀ c t, (scanDigits v n s).2.2 = c :: t → ¬ IsDigit c) := by
  induction s generalizing v n with
  | nil => exact ⟨[], by simp [scanDigits], by intro c hc; simp at hc, by simp [scanDigits]⟩
  | cons c t ih =>
    by_cases hc : IsDigit c
    · obtain ⟨pre, h1, h2, h3⟩ := ih (10 * v + (c - 48)) (n + 1)
      refine ⟨c :: pre, ?_, ?_, ?_⟩
      · simp only [scanDigits, digitVal_digit hc, List.cons_append]; rw [← h1]
      · intro x hx; simp at hx; rcases hx with rfl | hx
        · exact hc
        · exact h2 x hx
      · simpa only [scanDigits, digitVal_digit hc] using h3
    · refine ⟨[], ?_, by intro x hx; simp at hx, ?_⟩
      · simp [scanDigits, digitVal_nondigit hc]
      · intro x u hx
        simp only [scanDigits, digitVal_nondigit hc] at hx
        cases hx; exact hc

/-- `number` on `digits rest` where `rest` does not continue the number -/
theorem number_int (ds rest : Bytes) (hd : AllDigits ds)
    (hr : ∀ c t, rest = c :: t → ¬ IsDigit c ∧ c ≠ 46) :
    number (ds ++ rest) = ({ int := digitsVal 0 ds, nint := ds.length }, rest) := by
  unfold number
  rw [scanDigits_digits ds rest 0 0 hd (fun c t h => (hr c t h).1)]
  cases rest with
  | nil => simp
  | cons c t =>
    have := (hr c t rfl).2
    simp only [Nat.zero_add]
    split
    · rename_i h; cases h; exact absurd rfl this
    · rename_i h; cases h; rfl

/-- `number` on `digits . digits rest` -/
theorem number_frac (ds fs rest : Bytes) (hd : AllDigits ds) (hf : AllDigits fs)
    (hr : ∀ c t, rest = c :: t → ¬ IsDigit c) :
    number (ds ++ 46 :: (fs ++ rest)) =
      ({ int := digitsVal 0 ds, nint := ds.length, point := true, frac := digitsVal 0 fs, nfrac := fs.length }, rest) := by
  unfold number
  rw [scanDigits_digits ds (46 :: (fs ++ rest)) 0 0 hd (by intro c t h; cases h; unfold IsDigit; omega)]
  simp only [Nat.zero_add]
  rw [scanDigits_digits fs rest 0 0 hf hr]
  simp

theorem ind_d : lookup DMSC.dmsindicators 100 = ((0 : Nat) : Int) := by decide
theorem ind_m : lookup DMSC.dmsindicators 39 = ((1 : Nat) : Int) := by decide
theorem ind_s : lookup DMSC.dmsindicators 34 = ((2 : Nat) : Int) := by decide
theorem ind_c : lookup DMSC.dmsindicators 58 = 3 := by decide

theorem nd (c : Nat) (h : c = 100 ∨ c = 39 ∨ c = 34 ∨ c = 58) : ¬ IsDigit c ∧ c ≠ 46 := by
  unfold IsDigit; omega


end GeoVerif.DMSProofs

namespace GeoVerif.DMSProofs
open GeoVerif GeoVerif.DMS GeoVerif.Gen

/-- a byte that is neither a digit nor the point survives `number` (it is in the unread rest) -/
theorem number_rest_mem (s : Bytes) (x : Nat) (hx : x ∈ s) (hnd : ¬ IsDigit x) (h46 : x ≠ 46) : x ∈ (number s).2 := by
  obtain ⟨pre, h1, h2, _⟩ := scanDigits_rest s 0 0
  have hx1 : x ∈ (scanDigits 0 0 s).2.2 := by
    rw [h1] at hx
    rcases List.mem_append.mp hx with h | h
    · exact absurd (h2 x h) hnd
    · exact h
  unfold number
  rcases hsc : scanDigits 0 0 s with ⟨v, n, r⟩
  rw [hsc] at hx1
  simp only at hx1
  cases r with
  | nil => cases hx1
  | cons c r' =>
    by_cases hc : c = 46
    · subst hc
      have hx2 : x ∈ r' := by
        rcases List.mem_cons.mp hx1 with h | h
        · exact absurd h h46
        · exact h
      obtain ⟨pre2, g1, g2, _⟩ := scanDigits_rest r' 0 0
      simp only
      rw [g1] at hx2
      rcases List.mem_append.mp hx2 with h | h
      · exact absurd (g2 x h) hnd
      · exact h
    · split
      · rename_i heq; cases heq; exact absurd rfl hc
      · rename_i heq; cases heq; exact hx1

theorem lookup_zero (tbl : Bytes) : lookup tbl 0 < 0 := by simp [lookup]

/-- **a component text containing a NUL byte is never accepted** by the component loop -/
theorem comps_nul (f : Nat) : ∀ (np : Nat) (sl : Slots) (s : Bytes), 0 ∈ s → ∃ e, comps f np sl s = .error e := by
  induction f with
  | zero => intro np sl s _; exact ⟨_, rfl⟩
  | succ f ih =>
    intro np sl s h0
    rcases hnum : number s with ⟨n, rest⟩
    have hmem : 0 ∈ rest := by
      have := number_rest_mem s 0 h0 (by unfold IsDigit; omega) (by omega)
      rw [hnum] at this; exact this
    cases rest with
    | nil => cases hmem
    | cons c rest' =>
      by_cases hc0 : c = 0
      · subst hc0
        simp only [comps, hnum]
        have hk : lookup DMSC.dmsindicators 0 < 0 := lookup_zero _
        by_cases hs : isSign 0 <;> simp [hk, hs]
      · have hm' : 0 ∈ rest' := by
          rcases List.mem_cons.mp hmem with h | h
          · exact absurd h.symm hc0
          · exact h
        have hne : rest'.isEmpty = false := by cases rest' <;> simp_all
        simp only [comps, hnum, hne]
        repeat' split
        all_goals first | exact ⟨_, rfl⟩ | exact ih _ _ _ hm' | (exfalso; simp_all)

end GeoVerif.DMSProofs
