import GeoVerif.Proofs.DMSGrammar
import GeoVerif.Proofs.F64Val
/-!
# Every output of the model `encode` is a text of the grammar `dmsText` (with sign / hemisphere letter)
-/
namespace GeoVerif.DMSProofs
open GeoVerif GeoVerif.DMS GeoVerif.Gen GeoVerif.Decimal

/-! ## sign of the degrees field -/

theorem dyFloor_nonneg (x : Dy) (h : 0 ≤ x.m) : 0 ≤ Dy.floor x := by
  unfold Dy.floor Dy.shl
  split
  · exact Int.mul_nonneg h (Int.pow_nonneg (by decide))
  · exact Int.ediv_nonneg h (Int.pow_nonneg (by decide))

theorem add_signbit_nonneg (a b : Nat) (ea eb : Int) :
    (F64.add (.fin false a ea) (.fin false b eb)).signbit = false := by
  have hd : 0 ≤ (Dy.add (F64.fin false a ea).toDy (F64.fin false b eb).toDy).m := by
    simp only [F64.toDy, Bool.false_eq_true, if_false, Dy.add, Dy.shl]
    split
    · exact Int.add_nonneg (Int.natCast_nonneg _) (Int.mul_nonneg (Int.natCast_nonneg _) (Int.pow_nonneg (by decide)))
    · exact Int.add_nonneg (Int.mul_nonneg (Int.natCast_nonneg _) (Int.pow_nonneg (by decide))) (Int.natCast_nonneg _)
  have hr := roundTo_sign_nonneg 53 (-1074) _ hd
  show (F64.rnd _ (false && false)).signbit = false
  unfold F64.rnd
  simp only []
  split
  · have : ¬ ((Dy.add (F64.fin false a ea).toDy (F64.fin false b eb).toDy).m < 0) := by omega
    simp [F64.signbit, this]
  · have hr' : ¬ ((Dy.round53 (Dy.add (F64.fin false a ea).toDy (F64.fin false b eb).toDy)).m < 0) := by
      unfold Dy.round53; omega
    split
    · simp [F64.signbit, hr']
    · simp [F64.ofDy, F64.signbit, hr']

theorem floor_abs_shape (y : F64) :
    F64.floor (F64.abs y) = .nan ∨ F64.floor (F64.abs y) = .inf false ∨ ∃ b eb, F64.floor (F64.abs y) = .fin false b eb := by
  cases y with
  | nan => exact Or.inl rfl
  | inf s => exact Or.inr (Or.inl rfl)
  | fin s m e =>
    refine Or.inr (Or.inr ?_)
    show ∃ b eb, F64.floor (.fin false m e) = _
    unfold F64.floor
    simp only []
    split
    · exact ⟨_, _, rfl⟩
    · split
      · exact ⟨_, _, rfl⟩
      · have h0 : 0 ≤ Dy.floor (F64.fin false m e).toDy :=
          dyFloor_nonneg _ (by simp [F64.toDy])
        have : ¬ (Dy.floor (F64.fin false m e).toDy < 0) := by omega
        exact ⟨(Dy.floor (F64.fin false m e).toDy).natAbs, 0, by simp [F64.ofInt, F64.ofDy, this]⟩

/-- the degrees field of `Encode` (carry + whole degrees) never has a sign -/
theorem degree_signbit (cd : Nat) (y : F64) (idg : F64) (h : idg = F64.pzero ∨ idg = F64.floor (F64.abs y)) :
    (F64.add (F64.ofNat cd) idg).signbit = false := by
  rcases h with rfl | rfl
  · exact add_signbit_nonneg cd 0 0 0
  · rcases floor_abs_shape y with h | h | ⟨b, eb, h⟩
    · rw [h]; rfl
    · rw [h]; rfl
    · rw [h]; exact add_signbit_nonneg cd b 0 eb

theorem fmtFixed_unsigned (x : F64) (hx : x.signbit = false) : fmtFixed x 0 = padDigits 1 (fixedUnits x 0) := by
  simp [fmtFixed, hx, unitsToFixed]

/-! ## zero fill -/

theorem zfill_if (c : Prop) [Decidable c] (w : Nat) (I r : Bytes) :
    ∃ Z : Bytes, (if c then zfill w (I ++ r) else I ++ r) = (Z ++ I) ++ r ∧ AllDigits Z ∧
      ∀ X, digitsVal 0 (Z ++ X) = digitsVal 0 X := by
  by_cases h : c
  · exact ⟨List.replicate (w - (I ++ r).length) 48, by simp [h, zfill], AllDigits.zeros _, fun X => digitsVal_zfill _ X⟩
  · exact ⟨[], by simp [h], AllDigits.nil, fun X => rfl⟩

theorem zfill_if' (c : Prop) [Decidable c] (w : Nat) (I : Bytes) :
    ∃ Z : Bytes, (if c then zfill w I else I) = Z ++ I ∧ AllDigits Z ∧ ∀ X, digitsVal 0 (Z ++ X) = digitsVal 0 X := by
  obtain ⟨Z, h1, h2, h3⟩ := zfill_if c w I []
  exact ⟨Z, by simpa using h1, h2, h3⟩

theorem fracPart_of_len (F : Bytes) (p : Nat) (h : F.length = p) : (if p = 0 then [] else 46 :: F) = fracPart F := by
  unfold fracPart
  by_cases hp : p = 0
  · have : F = [] := by subst hp; exact List.eq_nil_of_length_eq_zero h
    simp [hp, this]
  · have : F ≠ [] := by intro e; subst e; simp at h; omega
    simp [hp, this]

/-! ## the encoder's output -/

/-- sign text: only without hemisphere flag -/
def sgnText (ind : Flag) (neg : Bool) : Bytes := if ind = Flag.none ∧ neg then [45] else []
/-- hemisphere letter: `S N W E` -/
def hemiText (ind : Flag) (neg : Bool) : Bytes :=
  if ind ≠ Flag.none ∧ ind ≠ Flag.azi then
    [DMSC.hemispheres.getD ((if ind = Flag.lat then 0 else 2) + (if neg then 0 else 1)) 63]
  else []

/-- the numbers printed: degrees, minutes, seconds and the fraction digits (as a number of `prec` digits) -/
def encFields (h : Head) (t : Nat) : Nat × Nat × Nat × Nat :=
  let i := h.units / 10 ^ h.prec
  let fr := h.units % 10 ^ h.prec
  if t = 0 then (i, 0, 0, fr)
  else (fixedUnits (F64.add (F64.ofNat (splitFields t i).1) h.idegree) 0, (splitFields t i).2.1, (splitFields t i).2.2, fr)

theorem encodeHead_prec (x : F64) (t p : Nat) (ind : Flag) : (encodeHead x t p ind).prec = clampPrec t p := rfl

theorem encodeHead_idegree (x : F64) (t p : Nat) (ind : Flag) :
    ∃ y, (encodeHead x t p ind).idegree = F64.pzero ∨ (encodeHead x t p ind).idegree = F64.floor (F64.abs y) := by
  by_cases h : t = DMSC.compDEGREE
  · exact ⟨x, Or.inl (if_pos h)⟩
  · exact ⟨_, Or.inr (if_neg h)⟩

theorem encode_unfold0 (s : Bool) (m : Nat) (e : Int) (p : Nat) (ind : Flag) (sep : Nat) :
    encode (.fin s m e) 0 p ind sep =
      assemble 0 ind sep (encodeHead (.fin s m e) 0 p ind).neg (encodeHead (.fin s m e) 0 p ind).prec
        (unitsToFixed (encodeHead (.fin s m e) 0 p ind).units (encodeHead (.fin s m e) 0 p ind).prec) [] [] := rfl

theorem encode_unfold1 (s : Bool) (m : Nat) (e : Int) (p : Nat) (ind : Flag) (sep : Nat) :
    encode (.fin s m e) 1 p ind sep =
      let h := encodeHead (.fin s m e) 1 p ind
      let i := h.units / 10 ^ h.prec
      assemble 1 ind sep h.neg h.prec (fmtFixed (F64.add (F64.ofNat (splitFields 1 i).1) h.idegree) 0)
        (digitBytes (splitFields 1 i).2.1 ++ fracText h.units h.prec) [] := rfl

theorem encode_unfold2 (s : Bool) (m : Nat) (e : Int) (p : Nat) (ind : Flag) (sep : Nat) :
    encode (.fin s m e) 2 p ind sep =
      let h := encodeHead (.fin s m e) 2 p ind
      let i := h.units / 10 ^ h.prec
      assemble 2 ind sep h.neg h.prec (fmtFixed (F64.add (F64.ofNat (splitFields 2 i).1) h.idegree) 0)
        (digitBytes (splitFields 2 i).2.1) (digitBytes (splitFields 2 i).2.2 ++ fracText h.units h.prec) := rfl

theorem assemble0 (ind : Flag) (sep : Nat) (neg : Bool) (prec : Nat) (degree : Bytes) :
    assemble 0 ind sep neg prec degree [] [] =
      sgnText ind neg ++ (if ind ≠ Flag.none then zfill (1 + min ind.code 2 + (if prec = 0 then 0 else prec + 1)) degree else degree)
        ++ hemiText ind neg := rfl

theorem assemble1 (ind : Flag) (sep : Nat) (neg : Bool) (prec : Nat) (degree minute : Bytes) :
    assemble 1 ind sep neg prec degree minute [] =
      sgnText ind neg ++ ((if ind ≠ Flag.none then zfill (1 + min ind.code 2) degree else degree) ++ [if sep ≠ 0 then sep else 100]
        ++ zfill (2 + (if prec = 0 then 0 else prec + 1)) minute ++ (if sep = 0 then [39] else []))
        ++ hemiText ind neg := rfl

theorem assemble2 (ind : Flag) (sep : Nat) (neg : Bool) (prec : Nat) (degree minute second : Bytes) :
    assemble 2 ind sep neg prec degree minute second =
      sgnText ind neg ++ ((if ind ≠ Flag.none then zfill (1 + min ind.code 2) degree else degree) ++ [if sep ≠ 0 then sep else 100]
        ++ zfill 2 minute ++ [if sep ≠ 0 then sep else 39]
        ++ zfill (2 + (if prec = 0 then 0 else prec + 1)) second ++ (if sep = 0 then [34] else []))
        ++ hemiText ind neg := rfl

theorem zfill_eq_if (w : Nat) (s : Bytes) : zfill w s = if True then zfill w s else s := by simp

/-- **every output of `encode` for a finite angle is a text of the grammar** — an optional `-` (no flag), the
    `dmsText` of digit strings `D M S` (non-empty) and exactly `prec` fraction digits `F`, and the hemisphere letter
    (latitude / longitude flag); the digit strings denote the numbers `encFields` (degrees incl. carry, minutes,
    seconds, fraction). -/
theorem encode_shape (s : Bool) (m : Nat) (e : Int) (t p : Nat) (ind : Flag) (sep : Nat) (ht : t ≤ 2) :
    let h := encodeHead (.fin s m e) t p ind
    ∃ D M S F : Bytes, AllDigits D ∧ AllDigits M ∧ AllDigits S ∧ AllDigits F ∧ D ≠ [] ∧ M ≠ [] ∧ S ≠ [] ∧
      F.length = clampPrec t p ∧
      digitsVal 0 D = (encFields h t).1 ∧ digitsVal 0 M = (encFields h t).2.1 ∧ digitsVal 0 S = (encFields h t).2.2.1 ∧
      digitsVal 0 F = (encFields h t).2.2.2 ∧
      encode (.fin s m e) t p ind sep = sgnText ind h.neg ++ dmsText t sep D M S F ++ hemiText ind h.neg := by
  intro h
  have hP : h.prec = clampPrec t p := rfl
  have ht' : t = 0 ∨ t = 1 ∨ t = 2 := by omega
  have z48 : AllDigits [48] := by intro c hc; simp at hc; subst hc; exact ⟨by omega, by omega⟩
  rcases ht' with rfl | rfl | rfl
  · -- DEGREE
    obtain ⟨I, F, hu, hI, nI, hF, hFl, vI, vF⟩ := unitsToFixed_shape h.units h.prec
    rw [fracPart_of_len F h.prec hFl] at hu
    obtain ⟨Z, hz, hZ, hZv⟩ := zfill_if (ind ≠ Flag.none) (1 + min ind.code 2 + (if h.prec = 0 then 0 else h.prec + 1)) I (fracPart F)
    refine ⟨Z ++ I, [48], [48], F, hZ.append hI, z48, z48, hF, by cases I <;> simp_all, by simp, by simp, hFl.trans hP, ?_, rfl, rfl, ?_, ?_⟩
    · rw [hZv]; exact vI
    · exact vF
    · rw [encode_unfold0, assemble0]
      show sgnText ind h.neg ++ (if ind ≠ Flag.none then zfill _ (unitsToFixed h.units h.prec) else unitsToFixed h.units h.prec) ++ hemiText ind h.neg = _
      rw [hu, hz]
      simp [dmsText]
  · -- MINUTE
    obtain ⟨F, hfr, hF, hFl, vF⟩ := fracText_shape h.units h.prec
    rw [fracPart_of_len F h.prec hFl] at hfr
    obtain ⟨y, hy⟩ := encodeHead_idegree (.fin s m e) 1 p ind
    have hsb := degree_signbit (splitFields 1 (h.units / 10 ^ h.prec)).1 y h.idegree hy
    obtain ⟨Zd, hzd, hZd, hZdv⟩ := zfill_if' (ind ≠ Flag.none) (1 + min ind.code 2)
      (padDigits 1 (fixedUnits (F64.add (F64.ofNat (splitFields 1 (h.units / 10 ^ h.prec)).1) h.idegree) 0))
    obtain ⟨Zm, hzm, hZm, hZmv⟩ := zfill_if True (2 + (if h.prec = 0 then 0 else h.prec + 1))
      (digitBytes (splitFields 1 (h.units / 10 ^ h.prec)).2.1) (fracPart F)
    rw [if_pos trivial] at hzm
    refine ⟨Zd ++ padDigits 1 (fixedUnits (F64.add (F64.ofNat (splitFields 1 (h.units / 10 ^ h.prec)).1) h.idegree) 0),
      Zm ++ digitBytes (splitFields 1 (h.units / 10 ^ h.prec)).2.1, [48], F, hZd.append (padDigits_allDigits _ _), hZm.append (digitBytes_allDigits _),
      z48, hF, ?_, ?_, by simp, hFl.trans hP, ?_, ?_, ?_, ?_, ?_⟩
    · intro hc
      have := congrArg List.length hc
      simp only [List.length_append, padDigits_length, List.length_nil] at this; omega
    · intro hc
      have := congrArg List.length hc
      have h2 := digitBytes_length_pos (splitFields 1 (h.units / 10 ^ h.prec)).2.1
      simp only [List.length_append, List.length_nil] at this; omega
    · rw [hZdv, padDigits_val]; rfl
    · rw [hZmv, digitsVal_digitBytes]; rfl
    · show 0 = (splitFields 1 (h.units / 10 ^ h.prec)).2.2
      simp [splitFields, DMSC.compMINUTE]
    · exact vF
    · rw [encode_unfold1]
      show assemble 1 ind sep h.neg h.prec (fmtFixed (F64.add (F64.ofNat (splitFields 1 (h.units / 10 ^ h.prec)).1) h.idegree) 0)
        (digitBytes (splitFields 1 (h.units / 10 ^ h.prec)).2.1 ++ fracText h.units h.prec) [] = _
      rw [assemble1, fmtFixed_unsigned _ hsb, hfr, hzd, hzm]
      simp [dmsText]
  · -- SECOND
    obtain ⟨F, hfr, hF, hFl, vF⟩ := fracText_shape h.units h.prec
    rw [fracPart_of_len F h.prec hFl] at hfr
    obtain ⟨y, hy⟩ := encodeHead_idegree (.fin s m e) 2 p ind
    have hsb := degree_signbit (splitFields 2 (h.units / 10 ^ h.prec)).1 y h.idegree hy
    obtain ⟨Zd, hzd, hZd, hZdv⟩ := zfill_if' (ind ≠ Flag.none) (1 + min ind.code 2)
      (padDigits 1 (fixedUnits (F64.add (F64.ofNat (splitFields 2 (h.units / 10 ^ h.prec)).1) h.idegree) 0))
    obtain ⟨Zm, hzm, hZm, hZmv⟩ := zfill_if' True 2 (digitBytes (splitFields 2 (h.units / 10 ^ h.prec)).2.1)
    obtain ⟨Zs, hzs, hZs, hZsv⟩ := zfill_if True (2 + (if h.prec = 0 then 0 else h.prec + 1))
      (digitBytes (splitFields 2 (h.units / 10 ^ h.prec)).2.2) (fracPart F)
    rw [if_pos trivial] at hzm hzs
    refine ⟨Zd ++ padDigits 1 (fixedUnits (F64.add (F64.ofNat (splitFields 2 (h.units / 10 ^ h.prec)).1) h.idegree) 0),
      Zm ++ digitBytes (splitFields 2 (h.units / 10 ^ h.prec)).2.1, Zs ++ digitBytes (splitFields 2 (h.units / 10 ^ h.prec)).2.2, F, hZd.append (padDigits_allDigits _ _),
      hZm.append (digitBytes_allDigits _), hZs.append (digitBytes_allDigits _), hF, ?_, ?_, ?_, hFl.trans hP, ?_, ?_, ?_, ?_, ?_⟩
    · intro hc
      have := congrArg List.length hc
      simp only [List.length_append, padDigits_length, List.length_nil] at this; omega
    · intro hc
      have := congrArg List.length hc
      have h2 := digitBytes_length_pos (splitFields 2 (h.units / 10 ^ h.prec)).2.1
      simp only [List.length_append, List.length_nil] at this; omega
    · intro hc
      have := congrArg List.length hc
      have h2 := digitBytes_length_pos (splitFields 2 (h.units / 10 ^ h.prec)).2.2
      simp only [List.length_append, List.length_nil] at this; omega
    · rw [hZdv, padDigits_val]; rfl
    · rw [hZmv, digitsVal_digitBytes]; rfl
    · rw [hZsv, digitsVal_digitBytes]; rfl
    · exact vF
    · rw [encode_unfold2]
      show assemble 2 ind sep h.neg h.prec (fmtFixed (F64.add (F64.ofNat (splitFields 2 (h.units / 10 ^ h.prec)).1) h.idegree) 0)
        (digitBytes (splitFields 2 (h.units / 10 ^ h.prec)).2.1)
        (digitBytes (splitFields 2 (h.units / 10 ^ h.prec)).2.2 ++ fracText h.units h.prec) = _
      rw [assemble2, fmtFixed_unsigned _ hsb, hfr, hzd, hzm, hzs]
      simp [dmsText]

end GeoVerif.DMSProofs
