import GeoVerif.Series.AuxDecode
import GeoVerif.Series.AuxSeries
/-! The CAS-free decoder of `Series/AuxDecode.lean` is the decoder the auxiliary-latitude certificates (C15) are about. -/
namespace GeoVerif.Proofs.AuxDecodeEq
theorem block_eq : GeoVerif.Series.AuxDecode.block = GeoVerif.Series.Aux.block := rfl
end GeoVerif.Proofs.AuxDecodeEq
