import GeoVerif.Proofs.TM
import Mathlib.Analysis.SpecialFunctions.Trigonometric.Deriv
import Mathlib.Analysis.SpecialFunctions.Trigonometric.DerivHyp
import Mathlib.Analysis.SpecialFunctions.Trigonometric.Arctan
import Mathlib.Analysis.Calculus.Deriv.MeanValue
import Mathlib.Tactic.Positivity
import Mathlib.Tactic.FieldSimp
/-!
# The series kernel of `TransverseMercator::Forward` / `Reverse` over `ℝ` / `ℂ` (lemmas; property theorems in `Props/C06.lean`)

About `TM.fwdKernel`, `TM.revKernel`, `TM.kr` — the functions the driver executes in binary64 against the implementation, read at `ℝ`.

1. the Krüger step: value, derivative (as a complex derivative: `HasDerivAt`), real and imaginary parts;
2. the Gauss–Schreiber step is the spherical transverse Mercator of the conformal sphere: `sin ζ' = tanh(ψ + iλ)`,
   `cos ζ' · cosh(ψ + iλ) = 1`; the coded `γ'` and `hypot(τ', cos λ)` are `arg` and `|·|` of `cosh(ψ + iλ) = (dζ'/dw)⁻¹`;
3. convergence and scale as coded are `γ' − arg(dζ/dζ')` and `k'·b1·|dζ/dζ'|` (forward), `arg(dζ'/dζ) + γ'`, `b1/|dζ'/dζ|·k'` (reverse);
4. central meridian: `η = 0 ⇔ λ = 0` (inside the domain where the derivative series stays below 1), `ξ = χ + Σ α_j sin 2jχ`.
-/
namespace GeoVerif.Proofs.TMSeries
open GeoVerif GeoVerif.TM GeoVerif.Proofs.TM

/-! ## 1. the Krüger step -/

/-- `F(ζ) = ζ + Σ_j c_j sin 2jζ` -/
noncomputable def krF (cs : List ℝ) (ζ : ℂ) : ℂ := ζ + sinSum ζ 0 cs
/-- `F'(ζ) = 1 + Σ_j 2j c_j cos 2jζ` -/
noncomputable def krF' (cs : List ℝ) (ζ : ℂ) : ℂ := 1 + dcosSum ζ 0 cs

theorem hasDerivAt_sinSum (cs : List ℝ) (k : ℕ) (ζ : ℂ) : HasDerivAt (fun z => sinSum z k cs) (dcosSum ζ k cs) ζ := by
  induction cs generalizing k with
  | nil => simpa [sinSum, dcosSum] using hasDerivAt_const ζ (0 : ℂ)
  | cons c cs ih =>
    simp only [sinSum, dcosSum]
    have h1 : HasDerivAt (fun z : ℂ => 2 * ((k + 1 : ℕ) : ℂ) * z) (2 * ((k + 1 : ℕ) : ℂ)) ζ := by
      simpa using (hasDerivAt_id ζ).const_mul (2 * ((k + 1 : ℕ) : ℂ))
    have h2 := (h1.csin).const_mul (c : ℂ)
    have h3 : HasDerivAt (fun z => (c : ℂ) * Complex.sin (2 * ((k + 1 : ℕ) : ℂ) * z) + sinSum z (k + 1) cs)
        ((c : ℂ) * (Complex.cos (2 * ((k + 1 : ℕ) : ℂ) * ζ) * (2 * ((k + 1 : ℕ) : ℂ))) + dcosSum ζ (k + 1) cs) ζ := h2.add (ih (k + 1))
    exact h3.congr_deriv (by ring)

/-- **the second output of `kr` is the complex derivative of the first**: `F' = dF/dζ` (so the pair is Cauchy–Riemann consistent) -/
theorem hasDerivAt_krF (cs : List ℝ) (ζ : ℂ) : HasDerivAt (krF cs) (krF' cs ζ) ζ := by
  unfold krF krF'
  exact (hasDerivAt_id ζ).add (hasDerivAt_sinSum cs 0 ζ)

theorem kr_value (cs : List ℝ) (ξ η : ℝ) : toC (kr cs ξ η).1 = krF cs ⟨ξ, η⟩ ∧ toC (kr cs ξ η).2 = krF' cs ⟨ξ, η⟩ :=
  clenshaw_complex cs ξ η

/-! real and imaginary parts of the sums -/

/-- `Σ_j c_j sin(2(k+1+j)ξ) cosh(2(k+1+j)η)` -/
noncomputable def reSin (ξ η : ℝ) : ℕ → List ℝ → ℝ
  | _, [] => 0
  | k, c :: cs => c * (Real.sin (2 * ((k + 1 : ℕ) : ℝ) * ξ) * Real.cosh (2 * ((k + 1 : ℕ) : ℝ) * η)) + reSin ξ η (k + 1) cs
/-- `Σ_j c_j cos(2(k+1+j)ξ) sinh(2(k+1+j)η)` -/
noncomputable def imSin (ξ η : ℝ) : ℕ → List ℝ → ℝ
  | _, [] => 0
  | k, c :: cs => c * (Real.cos (2 * ((k + 1 : ℕ) : ℝ) * ξ) * Real.sinh (2 * ((k + 1 : ℕ) : ℝ) * η)) + imSin ξ η (k + 1) cs
/-- `Σ_j 2(k+1+j) c_j cos(2(k+1+j)ξ) cosh(2(k+1+j)η)` -/
noncomputable def reDcos (ξ η : ℝ) : ℕ → List ℝ → ℝ
  | _, [] => 0
  | k, c :: cs => 2 * ((k + 1 : ℕ) : ℝ) * c * (Real.cos (2 * ((k + 1 : ℕ) : ℝ) * ξ) * Real.cosh (2 * ((k + 1 : ℕ) : ℝ) * η)) + reDcos ξ η (k + 1) cs
/-- `−Σ_j 2(k+1+j) c_j sin(2(k+1+j)ξ) sinh(2(k+1+j)η)` -/
noncomputable def imDcos (ξ η : ℝ) : ℕ → List ℝ → ℝ
  | _, [] => 0
  | k, c :: cs => -(2 * ((k + 1 : ℕ) : ℝ) * c * (Real.sin (2 * ((k + 1 : ℕ) : ℝ) * ξ) * Real.sinh (2 * ((k + 1 : ℕ) : ℝ) * η))) + imDcos ξ η (k + 1) cs

theorem arg_split (m : ℕ) (ξ η : ℝ) : 2 * (m : ℂ) * (⟨ξ, η⟩ : ℂ) = ((2 * (m : ℝ) * ξ : ℝ) : ℂ) + ((2 * (m : ℝ) * η : ℝ) : ℂ) * Complex.I := by
  apply Complex.ext <;> simp

theorem sin_parts (m : ℕ) (ξ η : ℝ) :
    Complex.sin (2 * (m : ℂ) * (⟨ξ, η⟩ : ℂ)) = ⟨Real.sin (2 * (m : ℝ) * ξ) * Real.cosh (2 * (m : ℝ) * η), Real.cos (2 * (m : ℝ) * ξ) * Real.sinh (2 * (m : ℝ) * η)⟩ := by
  rw [arg_split, Complex.sin_add_mul_I]
  apply Complex.ext <;> simp [← Complex.ofReal_cos, ← Complex.ofReal_sin, ← Complex.ofReal_cosh, ← Complex.ofReal_sinh, -Complex.ofReal_mul]

theorem cos_parts (m : ℕ) (ξ η : ℝ) :
    Complex.cos (2 * (m : ℂ) * (⟨ξ, η⟩ : ℂ)) = ⟨Real.cos (2 * (m : ℝ) * ξ) * Real.cosh (2 * (m : ℝ) * η), -(Real.sin (2 * (m : ℝ) * ξ) * Real.sinh (2 * (m : ℝ) * η))⟩ := by
  rw [arg_split, Complex.cos_add_mul_I]
  apply Complex.ext <;> simp [← Complex.ofReal_cos, ← Complex.ofReal_sin, ← Complex.ofReal_cosh, ← Complex.ofReal_sinh, -Complex.ofReal_mul]

theorem sinSum_parts (cs : List ℝ) (k : ℕ) (ξ η : ℝ) : sinSum ⟨ξ, η⟩ k cs = ⟨reSin ξ η k cs, imSin ξ η k cs⟩ := by
  induction cs generalizing k with
  | nil => simp [sinSum, reSin, imSin]; rfl
  | cons c cs ih =>
    simp only [sinSum, reSin, imSin, ih (k + 1), sin_parts]
    apply Complex.ext <;> simp

theorem dcosSum_parts (cs : List ℝ) (k : ℕ) (ξ η : ℝ) : dcosSum ⟨ξ, η⟩ k cs = ⟨reDcos ξ η k cs, imDcos ξ η k cs⟩ := by
  induction cs generalizing k with
  | nil => simp [dcosSum, reDcos, imDcos]; rfl
  | cons c cs ih =>
    simp only [dcosSum, reDcos, imDcos, ih (k + 1), cos_parts]
    apply Complex.ext <;> simp

/-- the four real outputs of `kr` -/
theorem kr_parts (cs : List ℝ) (ξ η : ℝ) :
    (kr cs ξ η).1.re = ξ + reSin ξ η 0 cs ∧ (kr cs ξ η).1.im = η + imSin ξ η 0 cs ∧
    (kr cs ξ η).2.re = 1 + reDcos ξ η 0 cs ∧ (kr cs ξ η).2.im = imDcos ξ η 0 cs := by
  obtain ⟨h1, h2⟩ := clenshaw_complex cs ξ η
  rw [sinSum_parts] at h1
  rw [dcosSum_parts] at h2
  have a := congrArg Complex.re h1; have b := congrArg Complex.im h1
  have c := congrArg Complex.re h2; have d := congrArg Complex.im h2
  simp [toC] at a b c d
  exact ⟨a, b, c, d⟩

/-! ### `η = 0 ⇔ η' = 0` -/

/-- `Σ_j 2(k+1+j) |c_j| cosh(2(k+1+j)η)`: the size of the derivative series at easting `η` -/
noncomputable def absD (η : ℝ) : ℕ → List ℝ → ℝ
  | _, [] => 0
  | k, c :: cs => 2 * ((k + 1 : ℕ) : ℝ) * |c| * Real.cosh (2 * ((k + 1 : ℕ) : ℝ) * η) + absD η (k + 1) cs

theorem sinh_le_mul_cosh (x : ℝ) (hx : 0 ≤ x) : Real.sinh x ≤ x * Real.cosh x := by
  have hmono : MonotoneOn (fun t => t * Real.cosh t - Real.sinh t) (Set.Ici 0) := by
    apply monotoneOn_of_deriv_nonneg (convex_Ici 0)
    · fun_prop
    · fun_prop
    · intro t ht
      have ht' : 0 < t := by simpa using ht
      have hd : HasDerivAt (fun t => t * Real.cosh t - Real.sinh t) (1 * Real.cosh t + t * Real.sinh t - Real.cosh t) t :=
        ((hasDerivAt_id t).mul (Real.hasDerivAt_cosh t)).sub (Real.hasDerivAt_sinh t)
      rw [hd.deriv]
      have : 0 ≤ Real.sinh t := (Real.sinh_nonneg_iff).mpr ht'.le
      nlinarith
  have := hmono (Set.mem_Ici.mpr le_rfl) (Set.mem_Ici.mpr hx) hx
  simp at this
  linarith

theorem abs_sinh_le (x : ℝ) : |Real.sinh x| ≤ |x| * Real.cosh x := by
  rcases le_total 0 x with h | h
  · rw [abs_of_nonneg h, abs_of_nonneg ((Real.sinh_nonneg_iff).mpr h)]; exact sinh_le_mul_cosh x h
  · have h' : 0 ≤ -x := by linarith
    have := sinh_le_mul_cosh (-x) h'
    rw [Real.sinh_neg, Real.cosh_neg] at this
    rw [abs_of_nonpos h, abs_of_nonpos ((Real.sinh_nonpos_iff).mpr h)]
    linarith

theorem abs_imSin_le (cs : List ℝ) (k : ℕ) (ξ η : ℝ) : |imSin ξ η k cs| ≤ |η| * absD η k cs := by
  induction cs generalizing k with
  | nil => simp [imSin, absD]
  | cons c cs ih =>
    simp only [imSin, absD]
    have h1 : |c * (Real.cos (2 * ((k + 1 : ℕ) : ℝ) * ξ) * Real.sinh (2 * ((k + 1 : ℕ) : ℝ) * η))| ≤
        |η| * (2 * ((k + 1 : ℕ) : ℝ) * |c| * Real.cosh (2 * ((k + 1 : ℕ) : ℝ) * η)) := by
      rw [abs_mul, abs_mul]
      have hc : |Real.cos (2 * ((k + 1 : ℕ) : ℝ) * ξ)| ≤ 1 := Real.abs_cos_le_one _
      have hs := abs_sinh_le (2 * ((k + 1 : ℕ) : ℝ) * η)
      have hk : (0 : ℝ) ≤ 2 * ((k + 1 : ℕ) : ℝ) := by positivity
      rw [abs_mul, abs_of_nonneg hk] at hs
      have hcosh : 0 < Real.cosh (2 * ((k + 1 : ℕ) : ℝ) * η) := Real.cosh_pos _
      calc |c| * (|Real.cos (2 * ((k + 1 : ℕ) : ℝ) * ξ)| * |Real.sinh (2 * ((k + 1 : ℕ) : ℝ) * η)|)
          ≤ |c| * (1 * (2 * ((k + 1 : ℕ) : ℝ) * |η| * Real.cosh (2 * ((k + 1 : ℕ) : ℝ) * η))) := by
            apply mul_le_mul_of_nonneg_left _ (abs_nonneg c)
            exact mul_le_mul hc hs (abs_nonneg _) (by norm_num)
        _ = |η| * (2 * ((k + 1 : ℕ) : ℝ) * |c| * Real.cosh (2 * ((k + 1 : ℕ) : ℝ) * η)) := by ring
    calc |c * (Real.cos (2 * ((k + 1 : ℕ) : ℝ) * ξ) * Real.sinh (2 * ((k + 1 : ℕ) : ℝ) * η)) + imSin ξ η (k + 1) cs|
        ≤ |c * (Real.cos (2 * ((k + 1 : ℕ) : ℝ) * ξ) * Real.sinh (2 * ((k + 1 : ℕ) : ℝ) * η))| + |imSin ξ η (k + 1) cs| := abs_add_le _ _
      _ ≤ |η| * (2 * ((k + 1 : ℕ) : ℝ) * |c| * Real.cosh (2 * ((k + 1 : ℕ) : ℝ) * η)) + |η| * absD η (k + 1) cs := add_le_add h1 (ih (k + 1))
      _ = |η| * (2 * ((k + 1 : ℕ) : ℝ) * |c| * Real.cosh (2 * ((k + 1 : ℕ) : ℝ) * η) + absD η (k + 1) cs) := by ring

theorem imSin_zero (cs : List ℝ) (k : ℕ) (ξ : ℝ) : imSin ξ 0 k cs = 0 := by
  induction cs generalizing k with
  | nil => rfl
  | cons c cs ih => simp [imSin, ih]

theorem imDcos_zero (cs : List ℝ) (k : ℕ) (ξ : ℝ) : imDcos ξ 0 k cs = 0 := by
  induction cs generalizing k with
  | nil => rfl
  | cons c cs ih => simp [imDcos, ih]

/-- **the easting vanishes exactly on the central meridian** of the Krüger step, wherever the derivative series stays below 1 -/
theorem kr_im_zero_iff (cs : List ℝ) (ξ η : ℝ) (h : absD η 0 cs < 1) : (kr cs ξ η).1.im = 0 ↔ η = 0 := by
  rw [(kr_parts cs ξ η).2.1]
  constructor
  · intro h0
    by_contra hne
    have hpos : 0 < |η| := abs_pos.mpr hne
    have hb := abs_imSin_le cs 0 ξ η
    have : imSin ξ η 0 cs = -η := by linarith
    rw [this, abs_neg] at hb
    nlinarith
  · intro h0
    rw [h0, imSin_zero]; simp


/-! ## 2. the Gauss–Schreiber step -/

/-- `ξ' = atan2(τ', cos λ)` as coded -/
noncomputable def gsXi (τ' clam : ℝ) : ℝ := Complex.arg ⟨clam, τ'⟩
/-- `η' = asinh(sin λ / hypot(τ', cos λ))` as coded -/
noncomputable def gsEta (τ' slam clam : ℝ) : ℝ := Real.arsinh (slam / Real.sqrt (τ' ^ 2 + clam ^ 2))

theorem pair_eq (x y : ℝ) : (⟨x, y⟩ : ℂ) = (x : ℂ) + (y : ℂ) * Complex.I := by
  apply Complex.ext <;> simp

theorem norm_pair (x y : ℝ) : ‖(⟨x, y⟩ : ℂ)‖ = Real.sqrt (y ^ 2 + x ^ 2) := by
  rw [Complex.norm_eq_sqrt_sq_add_sq, add_comm]

/-- **the spherical transverse Mercator relations** for `(ξ', η')` as coded (Krüger (25); the comments of `Forward`):
    `cos ξ' = cos λ/h`, `sin ξ' = τ'/h`, `sinh η' = sin λ/h`, `cosh η' = √(1 + τ'²)/h`, `h = hypot(τ', cos λ)` -/
theorem gs_relations (τ' slam clam : ℝ) (hsc : slam ^ 2 + clam ^ 2 = 1) (hh : 0 < τ' ^ 2 + clam ^ 2) :
    Real.cos (gsXi τ' clam) = clam / Real.sqrt (τ' ^ 2 + clam ^ 2) ∧
    Real.sin (gsXi τ' clam) = τ' / Real.sqrt (τ' ^ 2 + clam ^ 2) ∧
    Real.sinh (gsEta τ' slam clam) = slam / Real.sqrt (τ' ^ 2 + clam ^ 2) ∧
    Real.cosh (gsEta τ' slam clam) = Real.sqrt (1 + τ' ^ 2) / Real.sqrt (τ' ^ 2 + clam ^ 2) := by
  have hne : (⟨clam, τ'⟩ : ℂ) ≠ 0 := by
    intro h0
    have h1 := congrArg Complex.re h0; have h2 := congrArg Complex.im h0
    simp at h1 h2
    rw [h1, h2] at hh; simp at hh
  have hpos : 0 < Real.sqrt (τ' ^ 2 + clam ^ 2) := Real.sqrt_pos.mpr hh
  refine ⟨?_, ?_, ?_, ?_⟩
  · unfold gsXi; rw [Complex.cos_arg hne, norm_pair]
  · unfold gsXi; rw [Complex.sin_arg, norm_pair]
  · unfold gsEta; rw [Real.sinh_arsinh]
  · unfold gsEta; rw [Real.cosh_arsinh]
    have : 1 + (slam / Real.sqrt (τ' ^ 2 + clam ^ 2)) ^ 2 = (1 + τ' ^ 2) / (τ' ^ 2 + clam ^ 2) := by
      rw [div_pow, Real.sq_sqrt hh.le]
      field_simp
      linear_combination hsc
    rw [this, Real.sqrt_div (by positivity)]

/-- `tan ξ' = τ'/cos λ`, `tanh η' = sin λ/√(1 + τ'²)` -/
theorem gs_tan (τ' slam clam : ℝ) (hsc : slam ^ 2 + clam ^ 2 = 1) (hh : 0 < τ' ^ 2 + clam ^ 2) :
    Real.tan (gsXi τ' clam) = τ' / clam ∧ Real.tanh (gsEta τ' slam clam) = slam / Real.sqrt (1 + τ' ^ 2) := by
  obtain ⟨h1, h2, h3, h4⟩ := gs_relations τ' slam clam hsc hh
  have hpos : 0 < Real.sqrt (τ' ^ 2 + clam ^ 2) := Real.sqrt_pos.mpr hh
  have hpos' : 0 < Real.sqrt (1 + τ' ^ 2) := Real.sqrt_pos.mpr (by positivity)
  constructor
  · rw [Real.tan_eq_sin_div_cos, h1, h2]
    by_cases hc : clam = 0
    · simp [hc]
    · field_simp
  · rw [Real.tanh_eq_sinh_div_cosh, h3, h4]; field_simp

theorem csin_pair (ξ η : ℝ) : Complex.sin ⟨ξ, η⟩ = ⟨Real.sin ξ * Real.cosh η, Real.cos ξ * Real.sinh η⟩ := by
  rw [pair_eq, Complex.sin_add_mul_I]
  apply Complex.ext <;> simp [← Complex.ofReal_cos, ← Complex.ofReal_sin, ← Complex.ofReal_cosh, ← Complex.ofReal_sinh]

theorem ccos_pair (ξ η : ℝ) : Complex.cos ⟨ξ, η⟩ = ⟨Real.cos ξ * Real.cosh η, -(Real.sin ξ * Real.sinh η)⟩ := by
  rw [pair_eq, Complex.cos_add_mul_I]
  apply Complex.ext <;> simp [← Complex.ofReal_cos, ← Complex.ofReal_sin, ← Complex.ofReal_cosh, ← Complex.ofReal_sinh]

theorem ccosh_pair (ψ l : ℝ) : Complex.cosh ⟨ψ, l⟩ = ⟨Real.cosh ψ * Real.cos l, Real.sinh ψ * Real.sin l⟩ := by
  rw [pair_eq, Complex.cosh_add, Complex.cosh_mul_I, Complex.sinh_mul_I]
  apply Complex.ext <;> simp [← Complex.ofReal_cos, ← Complex.ofReal_sin, ← Complex.ofReal_cosh, ← Complex.ofReal_sinh]

theorem csinh_pair (ψ l : ℝ) : Complex.sinh ⟨ψ, l⟩ = ⟨Real.sinh ψ * Real.cos l, Real.cosh ψ * Real.sin l⟩ := by
  rw [pair_eq, Complex.sinh_add, Complex.cosh_mul_I, Complex.sinh_mul_I]
  apply Complex.ext <;> simp [← Complex.ofReal_cos, ← Complex.ofReal_sin, ← Complex.ofReal_cosh, ← Complex.ofReal_sinh]

/-- `cosh(ψ + iλ)` for `sinh ψ = τ'`: `√(1 + τ'²)·cos λ + i·τ'·sin λ` — the complex number whose `atan2` and `hypot` `Forward` forms for
    the Gauss–Schreiber convergence and scale -/
theorem ccosh_w (τ' l : ℝ) : Complex.cosh ⟨Real.arsinh τ', l⟩ = ⟨Real.sqrt (1 + τ' ^ 2) * Real.cos l, τ' * Real.sin l⟩ := by
  rw [ccosh_pair, Real.cosh_arsinh, Real.sinh_arsinh]

/-- **Gauss–Schreiber = transverse Mercator of the conformal sphere**: with `ψ = asinh τ'` the isometric latitude and `w = ψ + iλ` the Mercator
    coordinate, `ζ' = ξ' + iη'` as coded satisfies `sin ζ' = tanh w` and `cos ζ' · cosh w = 1`, i.e. `ζ' = gd(w)` -/
theorem gs_is_sphere_tm (τ' l : ℝ) (hh : 0 < τ' ^ 2 + Real.cos l ^ 2) :
    Complex.sin ⟨gsXi τ' (Real.cos l), gsEta τ' (Real.sin l) (Real.cos l)⟩ = Complex.tanh ⟨Real.arsinh τ', l⟩ ∧
    Complex.cos ⟨gsXi τ' (Real.cos l), gsEta τ' (Real.sin l) (Real.cos l)⟩ * Complex.cosh ⟨Real.arsinh τ', l⟩ = 1 := by
  have hsc : Real.sin l ^ 2 + Real.cos l ^ 2 = 1 := Real.sin_sq_add_cos_sq l
  obtain ⟨h1, h2, h3, h4⟩ := gs_relations τ' (Real.sin l) (Real.cos l) hsc hh
  have hpos : 0 < Real.sqrt (τ' ^ 2 + Real.cos l ^ 2) := Real.sqrt_pos.mpr hh
  have hsq : Real.sqrt (τ' ^ 2 + Real.cos l ^ 2) ^ 2 = τ' ^ 2 + Real.cos l ^ 2 := Real.sq_sqrt hh.le
  have rpos : 0 < Real.sqrt (1 + τ' ^ 2) := Real.sqrt_pos.mpr (by positivity)
  have rsq : Real.sqrt (1 + τ' ^ 2) ^ 2 = 1 + τ' ^ 2 := Real.sq_sqrt (by positivity)
  have hcosh_ne : Complex.cosh ⟨Real.arsinh τ', l⟩ ≠ 0 := by
    rw [ccosh_w]
    intro h0
    have a := congrArg Complex.re h0; have b := congrArg Complex.im h0
    simp only [Complex.zero_re, Complex.zero_im] at a b
    have hc : Real.cos l = 0 := by
      rcases mul_eq_zero.mp a with a | a
      · exact absurd a rpos.ne'
      · exact a
    have ht : τ' ≠ 0 := by
      intro ht; rw [ht, hc] at hh; norm_num at hh
    have hs : Real.sin l = 0 := by
      rcases mul_eq_zero.mp b with b | b
      · exact absurd b ht
      · exact b
    rw [hc, hs] at hsc; norm_num at hsc
  constructor
  · rw [Complex.tanh_eq_sinh_div_cosh, eq_div_iff hcosh_ne, csin_pair, ccosh_w, csinh_pair, Real.cosh_arsinh, Real.sinh_arsinh, h1, h2, h3, h4]
    generalize Real.sqrt (τ' ^ 2 + Real.cos l ^ 2) = h at *
    generalize Real.sqrt (1 + τ' ^ 2) = r at *
    apply Complex.ext
    · simp only [Complex.mul_re]
      field_simp
      linear_combination τ' * Real.cos l * (rsq - hsq - hsc)
    · simp only [Complex.mul_im]
      field_simp
      linear_combination (-(Real.sin l)) * hsq
  · rw [ccos_pair, ccosh_w, h1, h2, h3, h4]
    generalize Real.sqrt (τ' ^ 2 + Real.cos l ^ 2) = h at *
    generalize Real.sqrt (1 + τ' ^ 2) = r at *
    apply Complex.ext
    · simp only [Complex.mul_re, Complex.one_re]
      field_simp
      linear_combination Real.cos l ^ 2 * rsq + τ' ^ 2 * hsc - hsq
    · simp only [Complex.mul_im, Complex.one_im]
      field_simp
      ring


/-- **the derivative of the Gauss–Schreiber map**: any differentiable `Z` with `sin Z(v) = tanh v` near `w` and `cos Z(w)·cosh w = 1` (which
    `ζ'` as coded satisfies, `gs_is_sphere_tm`) has `dZ/dw = 1/cosh w` at `w`.  Hence the coded `γ'` (= `arg cosh w`) is `−arg(dζ'/dw)` and the coded
    `hypot(τ', cos λ)` (= `|cosh w|`) is `1/|dζ'/dw|`. -/
theorem gs_derivative (Z : ℂ → ℂ) (w Z' : ℂ) (hZ : HasDerivAt Z Z' w)
    (hs : ∀ᶠ v in nhds w, Complex.sin (Z v) = Complex.tanh v) (hc : Complex.cos (Z w) * Complex.cosh w = 1) :
    Z' = 1 / Complex.cosh w := by
  have hne : Complex.cosh w ≠ 0 := by
    intro h0; rw [h0, mul_zero] at hc; exact zero_ne_one hc
  have h1 : HasDerivAt (fun v => Complex.sin (Z v)) (Complex.cos (Z w) * Z') w := hZ.csin
  have h2 : HasDerivAt Complex.tanh ((Complex.cosh w * Complex.cosh w - Complex.sinh w * Complex.sinh w) / Complex.cosh w ^ 2) w := by
    have := (Complex.hasDerivAt_sinh w).div (Complex.hasDerivAt_cosh w) hne
    refine this.congr_of_eventuallyEq ?_
    filter_upwards with v
    exact Complex.tanh_eq_sinh_div_cosh v
  have h3 : HasDerivAt Complex.tanh (Complex.cos (Z w) * Z') w := h1.congr_of_eventuallyEq (hs.mono fun v hv => hv.symm)
  have huniq := h3.unique h2
  have hcs : Complex.cosh w * Complex.cosh w - Complex.sinh w * Complex.sinh w = 1 := by
    have := Complex.cosh_sq w; rw [sq] at this
    have h4 : Complex.sinh w * Complex.sinh w = Complex.sinh w ^ 2 := (sq _).symm
    rw [this, h4]; ring
  rw [hcs] at huniq
  have hcos : Complex.cos (Z w) = 1 / Complex.cosh w := by
    field_simp; exact hc
  rw [hcos] at huniq
  field_simp at huniq ⊢
  have : Z' * Complex.cosh w ^ 2 = Complex.cosh w := by
    calc Z' * Complex.cosh w ^ 2 = Complex.cosh w * (Z' * Complex.cosh w) := by ring
      _ = Complex.cosh w := by rw [show Z' * Complex.cosh w = 1 from by linear_combination huniq]; ring
  have h5 : Complex.cosh w * (Z' * Complex.cosh w - 1) = 0 := by linear_combination this
  rcases mul_eq_zero.mp h5 with h | h
  · exact absurd h hne
  · linear_combination h

/-! ## 3. `Forward` and `Reverse` kernels: position, convergence and scale -/

theorem atan2_real' (y x : ℝ) : RealLike.atan2 y x = Complex.arg ⟨x, y⟩ := rfl
theorem asinh_real' (x : ℝ) : RealLike.asinh x = Real.arsinh x := rfl
theorem one_real' : (@OfNat.ofNat ℝ 1 RealLike.Lits.instLit) = 1 := by show ((1 : ℕ) : ℝ) = 1; norm_num
theorem zero_real' : (RealLike.ofNat 0 : ℝ) = 0 := by show ((0 : ℕ) : ℝ) = 0; norm_num

/-- `τ' = taupf(sin φ / cos φ, es)` as `Forward` computes it -/
noncomputable def taupOf (f sphi cphi : ℝ) : ℝ := taupf (sphi / cphi) (esOf f)
/-- the coefficients `_alp[1..N]` / `−_bet[1..N]` as the constructor computes them from the extracted tables -/
noncomputable def alpOf (f : ℝ) : List ℝ := coeffs Gen.TMSeries.alpcoeff (nOf f)
noncomputable def nbetOf (f : ℝ) : List ℝ := (coeffs Gen.TMSeries.betcoeff (nOf f)).map fun b => -b
/-- Gauss–Schreiber convergence (degrees) as coded: `atan2d(sin λ · τ', cos λ · hypot(1, τ'))` -/
noncomputable def gamma0 (τ' slam clam : ℝ) : ℝ := Complex.arg ⟨clam * Real.sqrt (1 ^ 2 + τ' ^ 2), slam * τ'⟩ * (deg : ℝ)
/-- Gauss–Schreiber scale as coded: `√(1 − e² + e² cos²φ)·hypot(1, τ)/hypot(τ', cos λ)` -/
noncomputable def k0GS (f sphi cphi τ' clam : ℝ) : ℝ :=
  Real.sqrt ((1 - e2Of f) + e2Of f * (cphi * cphi)) * Real.sqrt (1 ^ 2 + (sphi / cphi) ^ 2) / Real.sqrt (τ' ^ 2 + clam ^ 2)

/-- **`Forward`, first quadrant, not the pole**: position, convergence and scale as coded are `F(ζ')`, `γ' − arg F'(ζ')` and
    `k'·b1·|F'(ζ')|` with `F(ζ) = ζ + Σ α_j sin 2jζ` and `F' = dF/dζ` (`hasDerivAt_krF`) -/
theorem fwd_kernel_spec (f lon sphi cphi slam clam : ℝ) :
    let τ' := taupOf f sphi cphi
    let ζ' : ℂ := ⟨gsXi τ' clam, gsEta τ' slam clam⟩
    let r := fwdKernel f false lon sphi cphi slam clam
    (⟨r.p, r.q⟩ : ℂ) = krF (alpOf f) ζ' ∧
    r.gamma = gamma0 τ' slam clam - Complex.arg (krF' (alpOf f) ζ') * (deg : ℝ) ∧
    r.k = k0GS f sphi cphi τ' clam * (b1 (nOf f) * ‖krF' (alpOf f) ζ'‖) := by
  intro τ' ζ' r
  have hv := kr_value (alpOf f) (gsXi τ' clam) (gsEta τ' slam clam)
  have hr1 : r.p = (kr (alpOf f) (gsXi τ' clam) (gsEta τ' slam clam)).1.re := by
    simp only [r, fwdKernel, Bool.false_eq_true, if_false]
    rfl
  have hr2 : r.q = (kr (alpOf f) (gsXi τ' clam) (gsEta τ' slam clam)).1.im := by
    simp only [r, fwdKernel, Bool.false_eq_true, if_false]
    rfl
  refine ⟨?_, ?_, ?_⟩
  · rw [← hv.1, hr1, hr2]; rfl
  · rw [← hv.2]
    simp only [r, fwdKernel, Bool.false_eq_true, if_false, gamma0, hypot_real, one_real']
    rfl
  · rw [← hv.2]
    simp only [r, fwdKernel, Bool.false_eq_true, if_false, k0GS]
    have : ‖toC (kr (alpOf f) (gsXi τ' clam) (gsEta τ' slam clam)).2‖ = Cx.abs (kr (alpOf f) (gsXi τ' clam) (gsEta τ' slam clam)).2 := by
      unfold toC Cx.abs
      rw [Complex.norm_eq_sqrt_sq_add_sq]; rfl
    rw [this]
    simp only [hypot_real, sqrt_real, one_real']
    rfl

/-- the Gauss–Schreiber convergence and scale denominators as coded are `arg` and `|·|` of `cosh w`, `w = ψ + iλ` the Mercator coordinate of the
    conformal sphere (`sinh ψ = τ'`); with `cos ζ' · cosh w = 1` and `sin ζ' = tanh w` (`gs_is_sphere_tm`) this is `(dζ'/dw)⁻¹` -/
theorem gs_gamma_k (τ' l : ℝ) :
    gamma0 τ' (Real.sin l) (Real.cos l) = Complex.arg (Complex.cosh ⟨Real.arsinh τ', l⟩) * (deg : ℝ) ∧
    Real.sqrt (τ' ^ 2 + Real.cos l ^ 2) = ‖Complex.cosh ⟨Real.arsinh τ', l⟩‖ := by
  have hsc : Real.sin l ^ 2 + Real.cos l ^ 2 = 1 := Real.sin_sq_add_cos_sq l
  rw [ccosh_w]
  constructor
  · unfold gamma0
    congr 2
    apply Complex.ext
    · simp; ring
    · simp; ring
  · rw [Complex.norm_eq_sqrt_sq_add_sq]
    congr 1
    simp only []
    rw [mul_pow, Real.sq_sqrt (by positivity), mul_pow]
    nlinarith [hsc]

/-- **`Reverse`, first quadrant**: the reverted series gives `ζ' = G(ζ)`, `G(ζ) = ζ − Σ β_j sin 2jζ`, and convergence and scale as coded are
    `arg G'(ζ) + γ'` and `b1/|G'(ζ)|·k'` (`G' = dG/dζ`) -/
theorem rev_kernel_spec (f ξ η : ℝ) :
    let ζ : ℂ := ⟨ξ, η⟩
    let ζ' := krF (nbetOf f) ζ
    let r := revKernel f ξ η
    let s := Real.sinh ζ'.im
    let c := max 0 (Real.cos ζ'.re)
    let h := Real.sqrt (s ^ 2 + c ^ 2)
    (h ≠ 0 →
      let τ := tauf (Real.sin ζ'.re / h) (esOf f)
      r.p = Complex.arg ⟨1, τ⟩ * (deg : ℝ) ∧ r.q = Complex.arg ⟨c, s⟩ * (deg : ℝ) ∧
      r.gamma = Complex.arg (krF' (nbetOf f) ζ) * (deg : ℝ) + Complex.arg ⟨c, Real.sin ζ'.re * (s / TM.cosh ζ'.im)⟩ * (deg : ℝ) ∧
      r.k = b1 (nOf f) / ‖krF' (nbetOf f) ζ‖ *
        (Real.sqrt ((1 - e2Of f) + e2Of f / (1 + τ * τ)) * Real.sqrt (1 ^ 2 + τ ^ 2) * h)) ∧
    (h = 0 → r.p = 90 ∧ r.q = 0 ∧ r.gamma = Complex.arg (krF' (nbetOf f) ζ) * (deg : ℝ) ∧ r.k = b1 (nOf f) / ‖krF' (nbetOf f) ζ‖ * cOf f) := by
  intro ζ ζ' r s c h
  have hv := kr_value (nbetOf f) ξ η
  have e1 : ζ'.re = (kr (nbetOf f) ξ η).1.re := by rw [← congrArg Complex.re hv.1]; rfl
  have e2 : ζ'.im = (kr (nbetOf f) ξ η).1.im := by rw [← congrArg Complex.im hv.1]; rfl
  have hn : ‖krF' (nbetOf f) ζ‖ = Cx.abs (kr (nbetOf f) ξ η).2 := by
    rw [← hv.2]; unfold toC Cx.abs; rw [Complex.norm_eq_sqrt_sq_add_sq]; rfl
  have ha : Complex.arg (krF' (nbetOf f) ζ) = RealLike.atan2 (kr (nbetOf f) ξ η).2.im (kr (nbetOf f) ξ η).2.re := by
    rw [← hv.2]; rfl
  have hh : h = RealLike.hypot (RealLike.sinh (kr (nbetOf f) ξ η).1.im) (RealLike.max (RealLike.ofNat 0) (RealLike.cos (kr (nbetOf f) ξ η).1.re)) := by
    simp only [h, s, c, e1, e2, hypot_real, zero_real']; rfl
  constructor
  · intro hne
    have hne' : RealLike.eqb (RealLike.hypot (RealLike.sinh (kr (nbetOf f) ξ η).1.im) (RealLike.max (RealLike.ofNat 0) (RealLike.cos (kr (nbetOf f) ξ η).1.re))) (RealLike.ofNat 0 : ℝ) = false := by
      rw [← hh, zero_real']; simpa using hne
    intro τ
    simp only [r, revKernel]
    rw [show (coeffs Gen.TMSeries.betcoeff (nOf f)).map (fun b => -b) = nbetOf f from rfl, hne']
    simp only [Bool.false_eq_true, if_false]
    refine ⟨?_, ?_, ?_, ?_⟩
    · simp only [τ, h, s, c, e1, e2, atan2_real', hypot_real, zero_real', one_real']; rfl
    · simp only [s, c, e1, e2, atan2_real', zero_real']; rfl
    · rw [ha]; simp only [s, c, e1, e2, atan2_real', zero_real']; rfl
    · rw [hn]; simp only [τ, h, s, c, e1, e2, hypot_real, sqrt_real, zero_real', one_real']; rfl
  · intro h0
    have h0' : RealLike.eqb (RealLike.hypot (RealLike.sinh (kr (nbetOf f) ξ η).1.im) (RealLike.max (RealLike.ofNat 0) (RealLike.cos (kr (nbetOf f) ξ η).1.re))) (RealLike.ofNat 0 : ℝ) = true := by
      rw [← hh, zero_real']; simpa using h0
    simp only [r, revKernel]
    rw [show (coeffs Gen.TMSeries.betcoeff (nOf f)).map (fun b => -b) = nbetOf f from rfl, h0']
    simp only [if_true]
    refine ⟨?_, ?_, ?_, ?_⟩
    · show ((90 : ℕ) : ℝ) = 90; norm_num
    · exact zero_real'
    · rw [ha]
    · rw [hn]


/-! ## 4. central meridian -/

/-- `Σ_j c_j sin(2(k+1+j)χ)` and `Σ_j 2(k+1+j) c_j cos(2(k+1+j)χ)`: the real series on the central meridian -/
noncomputable def sinSeries (χ : ℝ) : ℕ → List ℝ → ℝ
  | _, [] => 0
  | k, c :: cs => c * Real.sin (2 * ((k + 1 : ℕ) : ℝ) * χ) + sinSeries χ (k + 1) cs
noncomputable def dcosSeries (χ : ℝ) : ℕ → List ℝ → ℝ
  | _, [] => 0
  | k, c :: cs => 2 * ((k + 1 : ℕ) : ℝ) * c * Real.cos (2 * ((k + 1 : ℕ) : ℝ) * χ) + dcosSeries χ (k + 1) cs

theorem reSin_zero (cs : List ℝ) (k : ℕ) (χ : ℝ) : reSin χ 0 k cs = sinSeries χ k cs := by
  induction cs generalizing k with
  | nil => rfl
  | cons c cs ih => simp [reSin, sinSeries, ih]

theorem reDcos_zero (cs : List ℝ) (k : ℕ) (χ : ℝ) : reDcos χ 0 k cs = dcosSeries χ k cs := by
  induction cs generalizing k with
  | nil => rfl
  | cons c cs ih => simp [reDcos, dcosSeries, ih]

theorem arg_one_eq_arctan (t : ℝ) : Complex.arg ⟨1, t⟩ = Real.arctan t := by
  rw [Complex.arg_of_re_nonneg (by simp), Real.arctan_eq_arcsin, Complex.norm_eq_sqrt_sq_add_sq]
  simp

theorem arg_pos_real (x : ℝ) (hx : 0 ≤ x) : Complex.arg ⟨x, 0⟩ = 0 := by
  have : (⟨x, 0⟩ : ℂ) = (x : ℂ) := by apply Complex.ext <;> simp
  rw [this, Complex.arg_ofReal_of_nonneg hx]

/-- **`η = 0 ⇔ λ = 0`** for `Forward` (first quadrant, not the pole), wherever the derivative series `Σ 2j|α_j| cosh 2jη'` stays below 1 -/
theorem fwd_eta_zero_iff (f lon sphi cphi slam clam : ℝ) (hh : 0 < (taupOf f sphi cphi) ^ 2 + clam ^ 2)
    (hs : absD (gsEta (taupOf f sphi cphi) slam clam) 0 (alpOf f) < 1) :
    (fwdKernel f false lon sphi cphi slam clam).q = 0 ↔ slam = 0 := by
  have hq : (fwdKernel f false lon sphi cphi slam clam).q = (kr (alpOf f) (gsXi (taupOf f sphi cphi) clam) (gsEta (taupOf f sphi cphi) slam clam)).1.im := by
    simp only [fwdKernel, Bool.false_eq_true, if_false]; rfl
  rw [hq, kr_im_zero_iff _ _ _ hs]
  unfold gsEta
  rw [Real.arsinh_eq_zero_iff, div_eq_zero_iff]
  constructor
  · rintro (h | h)
    · exact h
    · exact absurd h (Real.sqrt_pos.mpr hh).ne'
  · intro h; exact Or.inl h

/-- **central meridian** (`sin λ = 0`, `cos λ = 1`): `η = 0`, `ξ = χ + Σ α_j sin 2jχ` with `χ = atan τ'` the conformal latitude; and where
    `dξ/dχ = 1 + Σ 2jα_j cos 2jχ ≥ 0`: `γ = 0`, `k = k'·b1·dξ/dχ` -/
theorem fwd_central_meridian (f lon sphi cphi : ℝ) :
    let τ' := taupOf f sphi cphi
    let χ := Real.arctan τ'
    let r := fwdKernel f false lon sphi cphi 0 1
    r.q = 0 ∧ r.p = χ + sinSeries χ 0 (alpOf f) ∧
    (0 ≤ 1 + dcosSeries χ 0 (alpOf f) →
      r.gamma = 0 ∧ r.k = k0GS f sphi cphi τ' 1 * (b1 (nOf f) * (1 + dcosSeries χ 0 (alpOf f)))) := by
  intro τ' χ r
  have hxi : gsXi τ' 1 = χ := arg_one_eq_arctan τ'
  have heta : gsEta τ' 0 1 = 0 := by unfold gsEta; simp
  obtain ⟨s1, s2, s3⟩ := fwd_kernel_spec f lon sphi cphi 0 1
  rw [show taupOf f sphi cphi = τ' from rfl] at s1 s2 s3
  rw [hxi, heta] at s1 s2 s3
  obtain ⟨p1, p2, p3, p4⟩ := kr_parts (alpOf f) χ 0
  have hv := kr_value (alpOf f) χ 0
  have hF : krF (alpOf f) ⟨χ, 0⟩ = ⟨χ + sinSeries χ 0 (alpOf f), 0⟩ := by
    rw [← hv.1]; unfold toC; rw [p1, p2, reSin_zero, imSin_zero]; simp
  have hF' : krF' (alpOf f) ⟨χ, 0⟩ = ⟨1 + dcosSeries χ 0 (alpOf f), 0⟩ := by
    rw [← hv.2]; unfold toC; rw [p3, p4, reDcos_zero, imDcos_zero]
  rw [hF] at s1
  have a := congrArg Complex.re s1; have b := congrArg Complex.im s1
  simp only at a b
  refine ⟨b, a, ?_⟩
  intro hpos
  rw [hF'] at s2 s3
  constructor
  · rw [s2, arg_pos_real _ hpos]
    unfold gamma0
    have : (⟨1 * Real.sqrt (1 ^ 2 + τ' ^ 2), 0 * τ'⟩ : ℂ) = ⟨Real.sqrt (1 ^ 2 + τ' ^ 2), 0⟩ := by simp
    rw [this, arg_pos_real _ (Real.sqrt_nonneg _)]; ring
  · rw [s3]
    have : ‖(⟨1 + dcosSeries χ 0 (alpOf f), 0⟩ : ℂ)‖ = 1 + dcosSeries χ 0 (alpOf f) := by
      rw [Complex.norm_eq_sqrt_sq_add_sq]; simp [Real.sqrt_sq hpos]
    rw [this]

end GeoVerif.Proofs.TMSeries
