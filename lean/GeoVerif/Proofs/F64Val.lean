import GeoVerif.Proofs.DyVal
namespace GeoVerif
open Dy

namespace F64
/-- rational value of a finite binary64 (0 for NaN/inf) -/
def val (x : F64) : ℚ := x.toDy.val

theorem ratioInts_spec (dx dy : Dy) (hy : dy.m ≠ 0) :
    0 < (ratioInts dx dy).2 ∧ ∃ c : ℚ, c ≠ 0 ∧ dx.val = (ratioInts dx dy).1 * c ∧ dy.val = (ratioInts dx dy).2 * c := by
  unfold ratioInts
  by_cases h : dx.e ≥ dy.e
  · simp only [h, if_true]
    have hX : ((Dy.shl dx.m (dx.e - dy.e) : ℤ) : ℚ) * (2:ℚ) ^ dy.e = dx.val := by
      rw [Dy.shl_cast _ _ (by omega)]; unfold Dy.val
      have : (2:ℚ) ^ dx.e = (2:ℚ) ^ (dx.e - dy.e) * (2:ℚ) ^ dy.e := by
        rw [← zpow_add₀ (by norm_num : (2:ℚ) ≠ 0)]; congr 1; ring
      rw [this]; ring
    have hp := Dy.two_zpow_pos dy.e
    by_cases hn : dy.m < 0
    · simp only [hn, if_true]
      refine ⟨by omega, -(2:ℚ) ^ dy.e, by simpa using hp.ne', ?_, ?_⟩
      · push_cast; rw [← hX]; ring
      · push_cast; unfold Dy.val; ring
    · simp only [hn, if_false]
      refine ⟨by omega, (2:ℚ) ^ dy.e, hp.ne', hX.symm, rfl⟩
  · simp only [h, if_false]
    have hY : ((Dy.shl dy.m (dy.e - dx.e) : ℤ) : ℚ) * (2:ℚ) ^ dx.e = dy.val := by
      rw [Dy.shl_cast _ _ (by omega)]; unfold Dy.val
      have : (2:ℚ) ^ dy.e = (2:ℚ) ^ (dy.e - dx.e) * (2:ℚ) ^ dx.e := by
        rw [← zpow_add₀ (by norm_num : (2:ℚ) ≠ 0)]; congr 1; ring
      rw [this]; ring
    have hp := Dy.two_zpow_pos dx.e
    have hpow : (0:ℤ) < (2:ℤ) ^ (dy.e - dx.e).toNat := by positivity
    by_cases hn : Dy.shl dy.m (dy.e - dx.e) < 0
    · simp only [hn, if_true]
      refine ⟨by omega, -(2:ℚ) ^ dx.e, by simpa using hp.ne', ?_, ?_⟩
      · push_cast; unfold Dy.val; ring
      · push_cast; rw [← hY]; ring
    · simp only [hn, if_false]
      have hne : Dy.shl dy.m (dy.e - dx.e) ≠ 0 := by
        unfold Dy.shl; exact mul_ne_zero hy hpow.ne'
      refine ⟨by omega, (2:ℚ) ^ dx.e, hp.ne', rfl, hY.symm⟩

/-- `nearestEven X Y` is within half of `X / Y`: `|X − n·Y| ≤ Y/2` i.e. `2|X − nY| ≤ Y` -/
theorem nearestEven_spec (X Y : ℤ) (hY : 0 < Y) :
    2 * |X - nearestEven X Y * Y| ≤ Y := by
  unfold nearestEven
  have h1 := Int.emod_nonneg X hY.ne'
  have h2 := Int.emod_lt_of_pos X hY
  have h3 : X - X / Y * Y = X % Y := by rw [Int.emod_def]; ring
  simp only [h3]
  set q := X / Y with hq
  set r := X % Y with hr
  have hX : X = q * Y + r := by rw [← h3]; ring
  split_ifs with a b c
  · rw [hX]; have : q * Y + r - q * Y = r := by ring
    rw [this, abs_of_nonneg h1]; omega
  · rw [hX]; have : q * Y + r - (q + 1) * Y = r - Y := by ring
    rw [this, abs_of_neg (by omega)]; omega
  · rw [hX]; have : q * Y + r - q * Y = r := by ring
    rw [this, abs_of_nonneg h1]; omega
  · rw [hX]; have : q * Y + r - (q + 1) * Y = r - Y := by ring
    rw [this, abs_of_neg (by omega)]; omega

end F64
end GeoVerif

namespace GeoVerif
open Dy
namespace F64

theorem toDy_ofDy (d : Dy) : (ofDy d).toDy = d := by
  unfold ofDy toDy
  by_cases h : d.m < 0
  · simp only [h, decide_true, if_true]; congr; omega
  · simp only [h, decide_false]; congr; simp; omega

theorem toDy_m_ne (s : Bool) (m : ℕ) (e : ℤ) (h : m ≠ 0) : (F64.fin s m e).toDy.m ≠ 0 := by
  unfold toDy; by_cases hs : s <;> simp [hs] <;> omega

/-- **`remainder` is exact**: for finite `x` and finite non-zero `y`, the result is the finite number
`x − n·y` with `n = remquoN x y` the integer nearest to `x / y`, so `|result| ≤ |y| / 2`;
a zero result has the sign of `x`. -/
theorem remainder_spec (sx sy : Bool) (mx my : ℕ) (ex ey : ℤ) (hy : my ≠ 0) :
    let x := F64.fin sx mx ex; let y := F64.fin sy my ey
    (remainder x y).isFinite = true ∧
    (remainder x y).val = x.val - (remquoN x y : ℚ) * y.val ∧
    2 * |(remainder x y).val| ≤ |y.val| ∧
    ((remainder x y).val = 0 → (remainder x y).signbit = sx) := by
  intro x y
  have hmy : (my == 0) = false := by simpa using hy
  have hdy : y.toDy.m ≠ 0 := toDy_m_ne sy my ey hy
  obtain ⟨hYpos, c, hc, hxc, hyc⟩ := ratioInts_spec x.toDy y.toDy hdy
  have hn := nearestEven_spec (ratioInts x.toDy y.toDy).1 (ratioInts x.toDy y.toDy).2 hYpos
  set n := nearestEven (ratioInts x.toDy y.toDy).1 (ratioInts x.toDy y.toDy).2 with hndef
  have hq : remquoN x y = n := by
    show (if (my == 0) = true then 0 else _) = n
    rw [hmy]; rfl
  set res := Dy.sub x.toDy (Dy.mul (Dy.ofInt n) y.toDy) with hres
  have hresval : res.val = x.val - (n : ℚ) * y.val := by
    rw [hres, Dy.val_sub, Dy.val_mul, Dy.val_ofInt]; rfl
  have hrem : remainder x y = if res.m = 0 then F64.fin sx 0 0 else ofDy res := by
    show (if (my == 0) = true then F64.nan else _) = _
    rw [hmy]; rfl
  have hbound : 2 * |res.val| ≤ |y.val| := by
    rw [hresval]
    show 2 * |x.toDy.val - (n:ℚ) * y.toDy.val| ≤ |y.toDy.val|
    rw [hxc, hyc]
    have : ((ratioInts x.toDy y.toDy).1 : ℚ) * c - (n:ℚ) * (((ratioInts x.toDy y.toDy).2 : ℚ) * c)
        = (((ratioInts x.toDy y.toDy).1 - n * (ratioInts x.toDy y.toDy).2 : ℤ) : ℚ) * c := by push_cast; ring
    rw [this, abs_mul, abs_mul]
    have hYq : |((ratioInts x.toDy y.toDy).2 : ℚ)| = (((ratioInts x.toDy y.toDy).2 : ℤ) : ℚ) :=
      abs_of_pos (by exact_mod_cast hYpos)
    rw [hYq]
    have hcpos : 0 < |c| := abs_pos.mpr hc
    have : (2:ℚ) * |(((ratioInts x.toDy y.toDy).1 - n * (ratioInts x.toDy y.toDy).2 : ℤ) : ℚ)| ≤ (((ratioInts x.toDy y.toDy).2 : ℤ) : ℚ) := by
      rw [← Int.cast_abs]; exact_mod_cast hn
    nlinarith
  rw [hq]
  by_cases h0 : res.m = 0
  · have hv0 : res.val = 0 := (Dy.m_zero_iff res).mp h0
    rw [hrem]; simp only [h0, if_true]
    refine ⟨rfl, ?_, ?_, fun _ => rfl⟩
    · rw [← hresval, hv0]; simp [val, toDy, Dy.val]
    · have : (F64.fin sx 0 0).val = 0 := by simp [val, toDy, Dy.val]
      rw [this]; simp
  · rw [hrem]; simp only [h0, if_false]
    have hv : (ofDy res).val = res.val := by unfold val; rw [toDy_ofDy]
    refine ⟨rfl, ?_, ?_, ?_⟩
    · rw [hv, hresval]
    · rw [hv]; exact hbound
    · intro hz; rw [hv] at hz; exact absurd ((Dy.m_zero_iff res).mpr hz) h0

end F64
end GeoVerif

namespace GeoVerif
open Dy
namespace F64
theorem val_fin (s : Bool) (m : ℕ) (e : ℤ) : (F64.fin s m e).val = (if s then -(m:ℚ) else m) * (2:ℚ)^e := by
  unfold val toDy Dy.val; by_cases h : s <;> simp [h]
theorem val_abs_fin (s : Bool) (m : ℕ) (e : ℤ) : (abs (F64.fin s m e)).val = |(F64.fin s m e).val| := by
  show (F64.fin false m e).val = _
  rw [val_fin, val_fin]
  have hp := Dy.two_zpow_pos e
  have hm : (0:ℚ) ≤ m := by positivity
  cases s
  · simp only [Bool.false_eq_true, if_false]; rw [abs_mul, abs_of_nonneg hm, abs_of_pos hp]
  · simp only [if_true, Bool.false_eq_true, if_false]; rw [abs_mul, abs_neg, abs_of_nonneg hm, abs_of_pos hp]
theorem exists_fin_of_isFinite (a : F64) (h : a.isFinite = true) : ∃ s m e, a = F64.fin s m e := by
  cases a with
  | nan => simp [isFinite] at h
  | inf s => simp [isFinite] at h
  | fin s m e => exact ⟨s, m, e, rfl⟩
theorem eq_fin_iff (a b : F64) (ha : a.isFinite = true) (hb : b.isFinite = true) : F64.eq a b = true ↔ a.val = b.val := by
  cases a <;> cases b <;> simp_all [isFinite]
  unfold F64.eq; exact Dy.eq_iff _ _
end F64
end GeoVerif

namespace GeoVerif
open Dy F64
theorem roundTo_sign_nonpos (p : ℕ) (emin : ℤ) (x : Dy) (h : x.m ≤ 0) : (Dy.roundTo p emin x).m ≤ 0 := by
  unfold Dy.roundTo
  simp only []
  split
  · simp
  · split
    · exact h
    · split
      · exact Int.neg_nonpos_of_nonneg (Int.natCast_nonneg _)
      · rename_i h0 _ hx
        have : x.m = 0 := by omega
        simp [this] at h0

theorem roundTo_sign_nonneg (p : ℕ) (emin : ℤ) (x : Dy) (h : 0 ≤ x.m) : 0 ≤ (Dy.roundTo p emin x).m := by
  unfold Dy.roundTo
  simp only []
  split
  · simp
  · split
    · exact h
    · split
      · omega
      · exact Int.natCast_nonneg _

theorem F64.zero_eq : (0 : F64) = F64.fin false 0 0 := rfl
theorem F64.val_zero' : (F64.fin false 0 0).toDy.val = 0 := by simp [F64.toDy, Dy.val]

theorem rnd_nonpos_not_gt (d : Dy) (zs : Bool) (h : d.m ≤ 0) : F64.gt (F64.rnd d zs) 0 = false := by
  have hr := roundTo_sign_nonpos 53 (-1074) d h
  have hrr : Dy.round53 d = Dy.roundTo 53 (-1074) d := rfl
  rw [F64.zero_eq]
  unfold F64.rnd
  simp only []
  show F64.lt (F64.fin false 0 0) _ = false
  split
  · -- zero
    show Dy.lt _ _ = false
    have : ¬ (Dy.lt (F64.fin false 0 0).toDy (F64.fin (if d.m = 0 then zs else decide (d.m < 0)) 0 0).toDy = true) := by
      rw [Dy.lt_iff, F64.val_zero']
      have : (F64.fin (if d.m = 0 then zs else decide (d.m < 0)) 0 0).toDy.val = 0 := by
        show ((if (if d.m = 0 then zs else decide (d.m < 0)) = true then -((0:ℕ):ℤ) else ((0:ℕ):ℤ) : ℤ) : ℚ) * (2:ℚ)^(0:ℤ) = 0
        split <;> simp
      rw [this]; simp
    simpa using this
  · rename_i h0
    have hneg : (Dy.round53 d).m < 0 := by rw [hrr] at h0 ⊢; omega
    split
    · simp [F64.lt, hneg]
    · have hlt : ¬ (Dy.lt (F64.fin false 0 0).toDy (F64.ofDy (Dy.round53 d)).toDy = true) := by
        rw [Dy.lt_iff, F64.toDy_ofDy, F64.val_zero']
        have h1 : (Dy.round53 d).val < 0 := (Dy.m_neg_iff _).mp hneg
        linarith
      have : F64.lt (F64.fin false 0 0) (F64.ofDy (Dy.round53 d)) = Dy.lt (F64.fin false 0 0).toDy (F64.ofDy (Dy.round53 d)).toDy := by
        unfold F64.ofDy; rfl
      rw [this]; simpa using hlt

end GeoVerif
