import GeoVerif.Proofs.DMSPlain
import GeoVerif.Proofs.DMSEncode
/-!
# `Utility::val (Utility::str x p)`: the string side — the parser reads back exactly the printed count of units
-/
namespace GeoVerif.DMSProofs
open GeoVerif GeoVerif.DMS GeoVerif.Gen GeoVerif.Decimal

theorem lastNum_nfrac (X F : Bytes) : (lastNum X F).nfrac = F.length := by
  unfold lastNum; split
  · rename_i h; subst h; rfl
  · rfl

theorem lastNum_mant (X F : Bytes) :
    (lastNum X F).int * 10 ^ (lastNum X F).nfrac + (lastNum X F).frac = digitsVal 0 X * 10 ^ F.length + digitsVal 0 F := by
  unfold lastNum; split
  · rename_i h; subst h; rfl
  · rfl

theorem fmtFixed_nospace (x : F64) (p : Nat) : ∀ c ∈ fmtFixed x p, isspace c = false := by
  obtain ⟨I, F, hu, hI, _, hF, _, _, _⟩ := unitsToFixed_shape (fixedUnits x p) p
  intro c hc
  have hd : ∀ c, IsDigit c → isspace c = false := by
    intro c h; unfold IsDigit at h; unfold isspace
    have h1 : (c == 32) = false := by simp; omega
    have h2 : (decide (9 ≤ c) && decide (c ≤ 13)) = false := by simp; omega
    simp [h1, h2]
  simp only [fmtFixed, hu] at hc
  rcases List.mem_append.mp hc with h | h
  · split at h
    · simp at h; subst h; decide
    · cases h
  · rcases List.mem_append.mp h with h | h
    · exact hd c (hI c h)
    · split at h
      · cases h
      · rcases List.mem_cons.mp h with h | h
        · subst h; decide
        · exact hd c (hF c h)

/-- **`val` reads back what `str` printed**: on the `%.*f` text of a finite number the stream-extraction model returns
    the correctly rounded value of `N / 10^p`, `N = fixedUnits x p` the printed count of units, with the sign of `x`
    (no value if that rounds to infinity) -/
theorem valPlain_fmtFixed (s : Bool) (m : Nat) (e : Int) (p : Nat) :
    valPlain (fmtFixed (.fin s m e) p) =
      (match ofDecExp (fixedUnits (.fin s m e) p) (0 - (p : Int)) with
       | .inf _ => none
       | v => some (if s then F64.neg v else v)) := by
  obtain ⟨I, F, hu, hI, nI, hF, hFl, vI, vF⟩ := unitsToFixed_shape (fixedUnits (.fin s m e) p) p
  rw [fracPart_of_len F p hFl] at hu
  have hnum : number (I ++ fracPart F) = (lastNum I F, []) := by
    have := number_last I F [] hI hF (by intro c t h; cases h)
    rwa [List.append_nil] at this
  have hmant : (lastNum I F).int * 10 ^ (lastNum I F).nfrac + (lastNum I F).frac = fixedUnits (.fin s m e) p := by
    rw [lastNum_mant, hFl, vI, vF]
    exact Nat.div_add_mod' _ _
  have hne := lastNum_ne I F nI
  have hnf : (lastNum I F).nfrac = p := by rw [lastNum_nfrac, hFl]
  have key : ∀ (neg : Bool),
      (match number (I ++ fracPart F) with
        | (n, rest) =>
          if n.nint + n.nfrac = 0 then Option.none else
          let mant := n.int * 10 ^ n.nfrac + n.frac
          let ex : Option Int :=
            match rest with
            | [] => some 0
            | c :: r =>
              if c = 101 ∨ c = 69 then
                let (eneg, r1) : Bool × Bytes :=
                  match r with
                  | 45 :: q => (true, q)
                  | 43 :: q => (false, q)
                  | _ => (false, r)
                match scanDigits 0 0 r1 with
                | (v, cnt, []) => if cnt = 0 then Option.none else some (if eneg then -(v : Int) else (v : Int))
                | _ => Option.none
              else Option.none
          match ex with
          | Option.none => Option.none
          | some e =>
            match ofDecExp mant (e - (n.nfrac : Int)) with
            | .inf _ => Option.none
            | v => some (if neg then F64.neg v else v)) =
      (match ofDecExp (fixedUnits (.fin s m e) p) (0 - (p : Int)) with
       | .inf _ => none
       | v => some (if neg then F64.neg v else v)) := by
    intro neg
    rw [hnum]
    rw [hnf] at hmant hne
    simp only [hnf, hne, if_false, hmant]
  cases s with
  | true =>
    have : fmtFixed (.fin true m e) p = 45 :: (I ++ fracPart F) := by simp [fmtFixed, hu, F64.signbit]
    rw [this]
    exact key true
  | false =>
    have h0 : fmtFixed (.fin false m e) p = I ++ fracPart F := by simp [fmtFixed, hu, F64.signbit]
    rw [h0]
    cases I with
    | nil => exact absurd rfl nI
    | cons i0 I' =>
      have hi0 : IsDigit i0 := hI i0 (by simp)
      have hcases : i0 = 48 ∨ i0 = 49 ∨ i0 = 50 ∨ i0 = 51 ∨ i0 = 52 ∨ i0 = 53 ∨ i0 = 54 ∨ i0 = 55 ∨ i0 = 56 ∨ i0 = 57 := by
        unfold IsDigit at hi0; omega
      have := key false
      rcases hcases with rfl | rfl | rfl | rfl | rfl | rfl | rfl | rfl | rfl | rfl
      all_goals exact this

end GeoVerif.DMSProofs
