import GeoVerif.Model.Rhumb
import GeoVerif.Spec.RealInst
import Mathlib.Tactic.Ring
import Mathlib.Tactic.LinearCombination
import Mathlib.Tactic.FieldSimp
import Mathlib.Tactic.Positivity
import Mathlib.Tactic.NormNum
import Mathlib.Tactic.Linarith
import Mathlib.Tactic.SplitIfs
import Mathlib.Algebra.Order.Floor.Ring
/-!
# Lemmas for C09 (rhumb lines): the divided-difference helpers of `Model/Rhumb.lean` read over ℝ,
the matrix Clenshaw recurrence, the beyond-the-pole reduction and the inverse wrapper.
-/
namespace GeoVerif.Proofs.Rhumb
open GeoVerif GeoVerif.Rhumb Real

@[simp] theorem atan_real (x : ℝ) : RealLike.atan x = Real.arctan x := rfl
@[simp] theorem asinh_real (x : ℝ) : RealLike.asinh x = Real.arsinh x := rfl
@[simp] theorem atan2_real (y x : ℝ) : RealLike.atan2 y x = Complex.arg ⟨x, y⟩ := rfl
theorem lit0 : (@OfNat.ofNat ℝ 0 RealLike.Lits.instLit) = 0 := by simp only [lit_real]; norm_num
theorem lit1 : (@OfNat.ofNat ℝ 1 RealLike.Lits.instLit) = 1 := by simp only [lit_real]; norm_num
theorem lit2 : (@OfNat.ofNat ℝ 2 RealLike.Lits.instLit) = 2 := by simp only [lit_real]

theorem sc_real (x : ℝ) : sc x = Real.sqrt (1 + x ^ 2) := by
  unfold sc; simp only [hypot_real, lit1]; norm_num

theorem sc_pos (x : ℝ) : 0 < sc x := by rw [sc_real]; positivity
theorem sc_sq (x : ℝ) : sc x ^ 2 = 1 + x ^ 2 := by rw [sc_real, Real.sq_sqrt]; positivity
theorem sn_real (x : ℝ) : sn x = x / sc x := rfl
theorem hfun_real (x : ℝ) : hfun x = x * (x / sc x) / 2 := by unfold hfun; simp only [sn_real, lit2]

/-! ### Dsn -/

theorem dsn_dd (x y : ℝ) : Dsn x y * (y - x) = sn y - sn x := by
  unfold Dsn
  simp only [eqb_real, ltb_real, decide_eq_true_eq, lit0, lit1]
  have hx := sc_pos x; have hy := sc_pos y
  have hx2 := sc_sq x; have hy2 := sc_sq y
  split_ifs with h1 h2
  · subst h1; simp
  · simp only [sn_real]
    have hsum : x / sc x + y / sc y ≠ 0 := by
      rcases lt_or_gt_of_ne (show x ≠ 0 by rintro rfl; simp at h2) with hx0 | hx0
      · have hy0 : y < 0 := by nlinarith
        have : x / sc x < 0 := div_neg_of_neg_of_pos hx0 hx
        have : y / sc y < 0 := div_neg_of_neg_of_pos hy0 hy
        linarith
      · have hy0 : 0 < y := by nlinarith
        have : 0 < x / sc x := div_pos hx0 hx
        have : 0 < y / sc y := div_pos hy0 hy
        linarith
    rw [div_mul_eq_mul_div, div_eq_iff (by positivity)]
    field_simp
    nlinarith [hx2, hy2]
  · have : y - x ≠ 0 := sub_ne_zero.mpr (Ne.symm h1)
    field_simp

theorem dsn_confluent (x : ℝ) : Dsn x x = 1 / (Real.sqrt (1 + x ^ 2) * (1 + x ^ 2)) := by
  unfold Dsn; simp only [eqb_real, decide_true, if_true, lit1, sc_real]; ring_nf

/-! ### Datan -/

theorem datan_dd (x y : ℝ) : Datan x y * (y - x) = Real.arctan y - Real.arctan x := by
  unfold Datan
  simp only [eqb_real, ltb_real, decide_eq_true_eq, lit1, lit2, atan_real]
  split_ifs with h1 h2
  · subst h1; simp
  · have hd : y - x ≠ 0 := sub_ne_zero.mpr (Ne.symm h1)
    rw [div_mul_cancel₀ _ hd]
    have h := Real.arctan_add (x := y) (y := -x) (by nlinarith)
    rw [Real.arctan_neg] at h
    rw [sub_eq_add_neg (Real.arctan y), h]; congr 1; ring
  · have hd : y - x ≠ 0 := sub_ne_zero.mpr (Ne.symm h1)
    rw [div_mul_cancel₀ _ hd]

theorem datan_confluent (x : ℝ) : Datan x x = 1 / (1 + x ^ 2) := by
  unfold Datan; simp only [eqb_real, decide_true, if_true, lit1]; ring_nf

/-! ### Dasinh -/

theorem arsinh_sub (x y : ℝ) : Real.arsinh y - Real.arsinh x = Real.arsinh (y * sc x - x * sc y) := by
  have h := Real.sinh_sub (Real.arsinh y) (Real.arsinh x)
  rw [Real.sinh_arsinh, Real.sinh_arsinh, Real.cosh_arsinh, Real.cosh_arsinh] at h
  rw [sc_real, sc_real, mul_comm x, ← h, Real.arsinh_sinh]

theorem dasinh_dd (x y : ℝ) : Dasinh x y * (y - x) = Real.arsinh y - Real.arsinh x := by
  unfold Dasinh
  simp only [eqb_real, ltb_real, decide_eq_true_eq, lit0, lit1, asinh_real]
  have hx := sc_pos x; have hy := sc_pos y
  have hx2 := sc_sq x; have hy2 := sc_sq y
  split_ifs with h1 h2 h3
  · subst h1; simp
  · -- x y > 0, x y < 1
    have hd : y - x ≠ 0 := sub_ne_zero.mpr (Ne.symm h1)
    rw [div_mul_cancel₀ _ hd, arsinh_sub]
    congr 1
    have hden : x * sc y + y * sc x ≠ 0 := by
      rcases lt_or_gt_of_ne (show x ≠ 0 by rintro rfl; simp at h2) with hx0 | hx0
      · have hy0 : y < 0 := by nlinarith
        have := mul_neg_of_neg_of_pos hx0 hy; have := mul_neg_of_neg_of_pos hy0 hx; linarith
      · have hy0 : 0 < y := by nlinarith
        have := mul_pos hx0 hy; have := mul_pos hy0 hx; linarith
    rw [mul_div_assoc', div_eq_iff hden]
    have key : (y * sc x - x * sc y) * (x * sc y + y * sc x) = y ^ 2 * sc x ^ 2 - x ^ 2 * sc y ^ 2 := by ring
    rw [key, hx2, hy2]; ring
  · -- x y ≥ 1
    have hd : y - x ≠ 0 := sub_ne_zero.mpr (Ne.symm h1)
    have hx0 : x ≠ 0 := by rintro rfl; simp at h2
    have hy0 : y ≠ 0 := by rintro rfl; simp at h2
    rw [div_mul_cancel₀ _ hd, arsinh_sub]
    congr 1
    have hden : x * sc y + y * sc x ≠ 0 := by
      rcases lt_or_gt_of_ne hx0 with hx0 | hx0
      · have hy0 : y < 0 := by nlinarith
        have := mul_neg_of_neg_of_pos hx0 hy; have := mul_neg_of_neg_of_pos hy0 hx; linarith
      · have hy0 : 0 < y := by nlinarith
        have := mul_pos hx0 hy; have := mul_pos hy0 hx; linarith
    have e : (1 / x + 1 / y) / (sc y / y + sc x / x) = (x + y) / (x * sc y + y * sc x) := by
      have : sc y / y + sc x / x ≠ 0 := by
        have : sc y / y + sc x / x = (x * sc y + y * sc x) / (x * y) := by field_simp
        rw [this]; exact div_ne_zero hden (mul_ne_zero hx0 hy0)
      rw [div_eq_div_iff this hden]; field_simp; ring
    rw [e, mul_div_assoc', div_eq_iff hden]
    have key : (y * sc x - x * sc y) * (x * sc y + y * sc x) = y ^ 2 * sc x ^ 2 - x ^ 2 * sc y ^ 2 := by ring
    rw [key, hx2, hy2]; ring
  · have hd : y - x ≠ 0 := sub_ne_zero.mpr (Ne.symm h1)
    rw [div_mul_cancel₀ _ hd]

theorem dasinh_confluent (x : ℝ) : Dasinh x x = 1 / Real.sqrt (1 + x ^ 2) := by
  unfold Dasinh; simp only [eqb_real, decide_true, if_true, lit1, sc_real]

/-! ### Dlam, Dp0Dpsi -/

theorem dlam_dd (x y : ℝ) : Dlam x y * (Real.arctan y - Real.arctan x) = Real.arsinh y - Real.arsinh x := by
  unfold Dlam
  simp only [eqb_real, decide_eq_true_eq]
  split_ifs with h
  · subst h; simp
  · have hd : y - x ≠ 0 := sub_ne_zero.mpr (Ne.symm h)
    have hA := datan_dd x y; have hS := dasinh_dd x y
    have hAne : Datan x y ≠ 0 := by
      intro h0; rw [h0, zero_mul] at hA
      have : Real.arctan y = Real.arctan x := by linarith
      exact h (Real.arctan_injective this).symm
    rw [← hA, ← hS]; field_simp

theorem dlam_confluent (x : ℝ) : Dlam x x = Real.sqrt (1 + x ^ 2) := by
  unfold Dlam; simp only [eqb_real, decide_true, if_true, sc_real]


/-! ### Dh -/

theorem dh_dd (x y : ℝ) : Dh x y * (y - x) = hfun y - hfun x := by
  have hx := sc_pos x; have hy := sc_pos y
  have hx2 := sc_sq x; have hy2 := sc_sq y
  have hxn : sc x ≠ 0 := hx.ne'; have hyn : sc y ≠ 0 := hy.ne'
  -- d = x²/sc x + y²/sc y ≥ 0 with equality iff x = y = 0
  have hd0 : x / sc x * x + y / sc y * y = x ^ 2 / sc x + y ^ 2 / sc y := by field_simp
  have hdnn1 : 0 ≤ x ^ 2 / sc x := by positivity
  have hdnn2 : 0 ≤ y ^ 2 / sc y := by positivity
  unfold Dh
  simp only [eqb_real, leb_real, decide_eq_true_eq, lit0, lit2, sn_real, sq_real]
  split_ifs with h1 h2
  · -- d/2 = 0: x = y = 0
    have hd : x ^ 2 / sc x + y ^ 2 / sc y = 0 := by rw [← hd0]; linarith
    have hxx : x ^ 2 / sc x = 0 := by linarith
    have hyy : y ^ 2 / sc y = 0 := by linarith
    have hx0 : x = 0 := by
      rcases div_eq_zero_iff.mp hxx with h | h
      · exact pow_eq_zero_iff (two_ne_zero) |>.mp h
      · exact absurd h hxn
    have hy0 : y = 0 := by
      rcases div_eq_zero_iff.mp hyy with h | h
      · exact pow_eq_zero_iff (two_ne_zero) |>.mp h
      · exact absurd h hyn
    subst hx0; subst hy0; simp [hfun_real]
  · by_cases hyx : y - x = 0
    · have : y = x := by linarith
      subst this; simp
    · rw [div_mul_cancel₀ _ hyx]
  · -- product form
    push Not at h2
    have hdpos : x / sc x * x + y / sc y * y ≠ 0 := by
      intro h; apply h1; rw [h]; simp
    set p := sc x with hp
    set q := sc y with hq
    have key : (y ^ 2 - x ^ 2) * (x ^ 2 * y ^ 2 + x ^ 2 + y ^ 2) = y ^ 4 * p ^ 2 - x ^ 4 * q ^ 2 := by rw [hx2, hy2]; ring
    have e1 : (x / p * (y / q)) ^ 2 + (y / q / p) ^ 2 + (x / p / q) ^ 2 = (x ^ 2 * y ^ 2 + x ^ 2 + y ^ 2) / (p ^ 2 * q ^ 2) := by
      field_simp; ring
    have e2 : (hfun y - hfun x) * (2 * (x / p * x + y / q * y)) = (y ^ 4 * p ^ 2 - x ^ 4 * q ^ 2) / (p ^ 2 * q ^ 2) := by
      simp only [hfun_real, ← hp, ← hq]; field_simp; ring
    have e3 : hfun y - hfun x = (y ^ 4 * p ^ 2 - x ^ 4 * q ^ 2) / (p ^ 2 * q ^ 2) / (2 * (x / p * x + y / q * y)) := by
      exact eq_div_of_mul_eq (mul_ne_zero two_ne_zero hdpos) e2
    rw [e3, e1, ← key]
    field_simp
    ring

/-! ### Dp0Dpsi -/

theorem dp0dpsi_dd (x y : ℝ) :
    Dp0Dpsi x y * (Real.arsinh y - Real.arsinh x) = Real.arsinh (hfun y) - Real.arsinh (hfun x) := by
  unfold Dp0Dpsi
  simp only [eqb_real, decide_eq_true_eq]
  split_ifs with h
  · subst h; simp
  · have hd : y - x ≠ 0 := sub_ne_zero.mpr (Ne.symm h)
    have hS := dasinh_dd x y; have hH := dh_dd x y; have hSH := dasinh_dd (hfun x) (hfun y)
    have hSne : Dasinh x y ≠ 0 := by
      intro h0; rw [h0, zero_mul] at hS
      have : Real.arsinh y = Real.arsinh x := by linarith
      exact h (Real.arsinh_injective this).symm
    rw [← hS, ← hSH, ← hH]; field_simp

/-! ### beyond the pole -/

/-- the real-number reading of the angle operations used by `poleFold` -/
noncomputable def angReal : AngOps ℝ := ⟨fun a b => a - b, fun a => |a|, fun a b => decide (a > b), 90, 180⟩

/-- the contract of `Math::AngNormalize` (C16; decided exactly by the driver on every sampled input):
    the result lies in [−180, 180] and differs from the argument by a multiple of 360 -/
def NormContract (norm : ℝ → ℝ) : Prop := ∀ x, |norm x| ≤ 180 ∧ ∃ k : ℤ, norm x = x - 360 * k

theorem pole_wrap' (norm : ℝ → ℝ) (hn : NormContract norm) (mu2 : ℝ) :
    |poleFold angReal norm mu2| ≤ 90 ∧
    ∃ k : ℤ, poleFold angReal norm mu2 = mu2 - 360 * k ∨ poleFold angReal norm mu2 = 180 - mu2 - 360 * k := by
  obtain ⟨hm, k, hk⟩ := hn mu2
  unfold poleFold
  simp only [angReal, decide_eq_true_eq, gt_iff_lt]
  split_ifs with h
  · obtain ⟨hz, k', hk'⟩ := hn (180 - norm mu2)
    rw [abs_le] at hm hz
    have hcases := lt_abs.mp h
    constructor
    · rw [abs_le]
      rcases hcases with hc | hc
      · -- m ∈ (90, 180]: 180 − m ∈ [0, 90), k' = 0
        have h1 : (-1 : ℝ) < k' := by nlinarith
        have h2 : (k' : ℝ) < 1 := by nlinarith
        have : k' = 0 := by
          have h1' : (-1 : ℤ) < k' := by exact_mod_cast h1
          have h2' : k' < 1 := by exact_mod_cast h2
          omega
        rw [hk', this]; push_cast; constructor <;> linarith
      · -- m ∈ [−180, −90): 180 − m ∈ (270, 360], k' = 1
        have h1 : (0 : ℝ) < k' := by nlinarith
        have h2 : (k' : ℝ) < 2 := by nlinarith
        have : k' = 1 := by
          have h1' : (0 : ℤ) < k' := by exact_mod_cast h1
          have h2' : k' < 2 := by exact_mod_cast h2
          omega
        rw [hk', this]; push_cast; constructor <;> linarith
    · refine ⟨k' - k, Or.inr ?_⟩
      rw [hk', hk]; push_cast; ring
  · push Not at h
    exact ⟨h, k, Or.inl hk⟩

theorem pole_wrap_sin' (norm : ℝ → ℝ) (hn : NormContract norm) (mu2 : ℝ) :
    sin (poleFold angReal norm mu2 * π / 180) = sin (mu2 * π / 180) := by
  obtain ⟨_, k, hk | hk⟩ := pole_wrap' norm hn mu2
  · rw [hk]
    have : (mu2 - 360 * (k:ℝ)) * π / 180 = mu2 * π / 180 - (k:ℝ) * (2 * π) := by ring
    rw [this, Real.sin_sub_int_mul_two_pi]
  · rw [hk]
    have : (180 - mu2 - 360 * (k:ℝ)) * π / 180 = (π - mu2 * π / 180) - (k:ℝ) * (2 * π) := by ring
    rw [this, Real.sin_sub_int_mul_two_pi, Real.sin_pi_sub]

/-- a concrete normaliser: `x − 360⌊(x + 180)/360⌋ ∈ [−180, 180)` -/
noncomputable def floorNorm (x : ℝ) : ℝ := x - 360 * (⌊(x + 180) / 360⌋ : ℤ)

theorem floorNorm_contract : NormContract floorNorm := by
  intro x
  refine ⟨?_, ⌊(x + 180) / 360⌋, rfl⟩
  unfold floorNorm
  have h1 := Int.floor_le ((x + 180) / 360)
  have h2 := Int.lt_floor_add_one ((x + 180) / 360)
  rw [abs_le]; constructor <;> linarith

theorem floorNorm_300 : floorNorm 300 = -60 := by
  unfold floorNorm
  have : ⌊((300:ℝ) + 180) / 360⌋ = 1 := by rw [Int.floor_eq_iff]; norm_num
  rw [this]; norm_num

theorem floorNorm_m120 : floorNorm (180 - 300) = -120 := by
  unfold floorNorm
  have : ⌊((180:ℝ) - 300 + 180) / 360⌋ = 0 := by rw [Int.floor_eq_iff]; norm_num
  rw [this]; norm_num

theorem pole_wrap_example' : ∃ norm, NormContract norm ∧ poleFold angReal norm 300 = -60 := by
  refine ⟨floorNorm, floorNorm_contract, ?_⟩
  unfold poleFold
  simp only [angReal, floorNorm_300, decide_eq_true_eq]
  norm_num

theorem one_step_refuted' : ∃ norm, NormContract norm ∧ poleFoldOneStep angReal norm 300 = -120 ∧ ¬ |poleFoldOneStep angReal norm 300| ≤ 90 := by
  have h : poleFoldOneStep angReal floorNorm 300 = -120 := by
    unfold poleFoldOneStep
    simp only [angReal, decide_eq_true_eq]
    rw [if_pos (by norm_num)]
    exact floorNorm_m120
  refine ⟨floorNorm, floorNorm_contract, h, ?_⟩
  rw [h]; norm_num

/-! ### the inverse wrapper -/

/-- what `Math::AngDiff(lon1, lon2)` guarantees (C16): `|lon12| ≤ 180`, `lon12 ≡ lon2 − lon1 (mod 360)` -/
structure DiffContract (lon1 lon2 lon12 : ℝ) : Prop where
  range : |lon12| ≤ 180
  congr : ∃ k : ℤ, lon12 = lon2 - lon1 - 360 * k

theorem rhumb_inverse_shortest' (lon1 lon2 lon12 : ℝ) (K : InvKernels ℝ) (hc : DiffContract lon1 lon2 lon12)
    (hne : lon12 ≠ 0 ∨ K.psi2 - K.psi1 ≠ 0) :
    let r := inverseCore (π / 180) lon12 K false
    let lam12 := lon12 * (π / 180)
    let psi12 := K.psi2 - K.psi1
    |lam12| ≤ π ∧
    Real.sqrt (lam12 ^ 2 + psi12 ^ 2) * sin r.2.1 = lam12 ∧
    Real.sqrt (lam12 ^ 2 + psi12 ^ 2) * cos r.2.1 = psi12 ∧
    r.1 * cos r.2.1 = K.rm * K.dmudpsi * psi12 ∧
    r.2.2 = K.c2 * lon12 * K.msx := by
  intro r lam12 psi12
  have hz : (⟨psi12, lam12⟩ : ℂ) ≠ 0 := by
    intro h
    have h1 := congrArg Complex.re h; have h2 := congrArg Complex.im h
    simp only [Complex.zero_re, Complex.zero_im] at h1 h2
    rcases hne with h' | h'
    · apply h'
      have : lon12 * (π / 180) = 0 := h2
      rcases mul_eq_zero.mp this with h0 | h0
      · exact h0
      · exact absurd h0 (by positivity)
    · exact h' h1
  have hnorm : ‖(⟨psi12, lam12⟩ : ℂ)‖ = Real.sqrt (lam12 ^ 2 + psi12 ^ 2) := by
    rw [Complex.norm_def, Complex.normSq_apply]; congr 1; ring
  have hpos : 0 < Real.sqrt (lam12 ^ 2 + psi12 ^ 2) := by
    rw [← hnorm]; exact norm_pos_iff.mpr hz
  have hsin : sin r.2.1 = lam12 / Real.sqrt (lam12 ^ 2 + psi12 ^ 2) := by
    show sin (Complex.arg ⟨psi12, lam12⟩) = _
    rw [Complex.sin_arg, hnorm]
  have hcos : cos r.2.1 = psi12 / Real.sqrt (lam12 ^ 2 + psi12 ^ 2) := by
    show cos (Complex.arg ⟨psi12, lam12⟩) = _
    rw [Complex.cos_arg hz, hnorm]
  refine ⟨?_, ?_, ?_, ?_, rfl⟩
  · show |lon12 * (π / 180)| ≤ π
    rw [abs_mul, abs_of_pos (by positivity : (0:ℝ) < π / 180)]
    have := hc.range
    nlinarith [Real.pi_pos]
  · rw [hsin]; field_simp
  · rw [hcos]; field_simp
  · rw [hcos]
    show Real.sqrt (lam12 ^ 2 + psi12 ^ 2) * K.dmudpsi * K.rm * (psi12 / Real.sqrt (lam12 ^ 2 + psi12 ^ 2)) = _
    field_simp


/-! ### DClenshaw -/

theorem clen_cons (X c : ℝ) (cs : List ℝ) : clen X (c :: cs) = (X * (clen X cs).1 - (clen X cs).2 + c, (clen X cs).1) := rfl
theorem dclen_cons (Xa Xb D2 c : ℝ) (cs : List ℝ) :
    dclen Xa Xb D2 (c :: cs) =
      ((Xa * (dclen Xa Xb D2 cs).1.1 + D2 * Xb * (dclen Xa Xb D2 cs).1.2 - (dclen Xa Xb D2 cs).2.1 + c,
        Xb * (dclen Xa Xb D2 cs).1.1 + Xa * (dclen Xa Xb D2 cs).1.2 - (dclen Xa Xb D2 cs).2.2), (dclen Xa Xb D2 cs).1) := rfl

/-- the matrix recurrence carries (mean, half divided difference) of the two scalar Clenshaw recurrences with
    `X₂ = Xa + D·Xb`, `X₁ = Xa − D·Xb` -/
theorem dclen_inv (Xa Xb D : ℝ) (cs : List ℝ) :
    (dclen Xa Xb (D * D) cs).1.1 = ((clen (Xa + D * Xb) cs).1 + (clen (Xa - D * Xb) cs).1) / 2 ∧
    (dclen Xa Xb (D * D) cs).1.2 * D = ((clen (Xa + D * Xb) cs).1 - (clen (Xa - D * Xb) cs).1) / 2 ∧
    (dclen Xa Xb (D * D) cs).2.1 = ((clen (Xa + D * Xb) cs).2 + (clen (Xa - D * Xb) cs).2) / 2 ∧
    (dclen Xa Xb (D * D) cs).2.2 * D = ((clen (Xa + D * Xb) cs).2 - (clen (Xa - D * Xb) cs).2) / 2 := by
  induction cs with
  | nil => simp [dclen, clen, lit0]
  | cons c cs ih =>
    obtain ⟨h1, h2, h3, h4⟩ := ih
    rw [dclen_cons, clen_cons, clen_cons]
    refine ⟨?_, ?_, h1, h2⟩
    · show Xa * _ + D * D * Xb * _ - _ + c = _
      linear_combination Xa * h1 + (D * Xb) * h2 - h3
    · show (Xb * _ + Xa * _ - _) * D = _
      linear_combination (D * Xb) * h1 + Xa * h2 - h4

theorem dclenshaw_gen (sinp : Bool) (Δ s1 c1 s2 c2 : ℝ) (cs : List ℝ) (h1 : s1 ^ 2 + c1 ^ 2 = 1) (h2 : s2 ^ 2 + c2 ^ 2 = 1)
    (hΔ : szetamd Δ s1 c1 s2 c2 * Δ = s2 * c1 - c2 * s1) :
    DClenshaw sinp Δ s1 c1 s2 c2 cs * Δ = clenshaw sinp s2 c2 cs - clenshaw sinp s1 c1 cs := by
  unfold DClenshaw clenshaw
  simp only [lit0, lit1, lit2]
  set smd := szetamd Δ s1 c1 s2 c2 with hsmd
  set Xa := 2 * (c2 * c1 - s2 * s1) * (c2 * c1 + s2 * s1) with hXa
  set Xb := -(2 * (s2 * c1 + c2 * s1) * smd) with hXb
  have hX2 : Xa + Δ * Xb = 2 * (c2 - s2) * (c2 + s2) := by
    rw [hXa, hXb]; linear_combination (-2 * (s2 * c1 + c2 * s1)) * hΔ + (2 * (c2 ^ 2 - s2 ^ 2)) * h1
  have hX1 : Xa - Δ * Xb = 2 * (c1 - s1) * (c1 + s1) := by
    rw [hXa, hXb]; linear_combination (2 * (s2 * c1 + c2 * s1)) * hΔ + (2 * (c1 ^ 2 - s1 ^ 2)) * h2
  obtain ⟨hA, hB, hC, hV⟩ := dclen_inv Xa Xb Δ cs
  rw [hX2, hX1] at hA hB hC hV
  set U2 := (clen (2 * (c2 - s2) * (c2 + s2)) cs).1
  set U1 := (clen (2 * (c1 - s1) * (c1 + s1)) cs).1
  set V2 := (clen (2 * (c2 - s2) * (c2 + s2)) cs).2
  set V1 := (clen (2 * (c1 - s1) * (c1 + s1)) cs).2
  set A := (dclen Xa Xb (Δ * Δ) cs).1.1
  set B := (dclen Xa Xb (Δ * Δ) cs).1.2
  set W := (dclen Xa Xb (Δ * Δ) cs).2.2
  cases sinp
  · -- cosine series
    simp only [Bool.false_eq_true, if_false]
    linear_combination (2 * ((c2 * c1 - s2 * s1) * (c2 * c1 + s2 * s1))) * hB
      - (2 * (s2 * c1 + c2 * s1) * (s2 * c1 - c2 * s1)) * hA - (2 * (s2 * c1 + c2 * s1) * A) * hΔ - 2 * hV
      + ((c2 ^ 2 - s2 ^ 2) * U2) * h1 - ((c1 ^ 2 - s1 ^ 2) * U1) * h2
  · -- sine series
    simp only [if_true]
    linear_combination (2 * ((s2 * c1 + c2 * s1) * (c2 * c1 + s2 * s1))) * hB
      + (2 * (c2 * c1 - s2 * s1) * (s2 * c1 - c2 * s1)) * hA + (2 * (c2 * c1 - s2 * s1) * A) * hΔ
      + (2 * (s2 * c2) * U2) * h1 - (2 * (s1 * c1) * U1) * h2

theorem dclenshaw_dd' (sinp : Bool) (z1 z2 : ℝ) (cs : List ℝ) (hne : z2 - z1 ≠ 0) (h1 : z2 - z1 ≠ 1) :
    DClenshaw sinp (z2 - z1) (sin z1) (cos z1) (sin z2) (cos z2) cs * (z2 - z1)
      = clenshaw sinp (sin z2) (cos z2) cs - clenshaw sinp (sin z1) (cos z1) cs := by
  apply dclenshaw_gen _ _ _ _ _ _ _ (Real.sin_sq_add_cos_sq z1) (Real.sin_sq_add_cos_sq z2)
  unfold szetamd
  simp only [eqb_real, decide_eq_true_eq, lit0, lit1, sin_real, if_neg h1, if_neg hne]
  rw [div_mul_cancel₀ _ hne, Real.sin_sub]

theorem dclenshaw_diff' (sinp : Bool) (s1 c1 s2 c2 : ℝ) (cs : List ℝ) (h1 : s1 ^ 2 + c1 ^ 2 = 1) (h2 : s2 ^ 2 + c2 ^ 2 = 1) :
    DClenshaw sinp 1 s1 c1 s2 c2 cs = clenshaw sinp s2 c2 cs - clenshaw sinp s1 c1 cs := by
  have h := dclenshaw_gen sinp 1 s1 c1 s2 c2 cs h1 h2 (by unfold szetamd; simp [lit1])
  rwa [mul_one] at h

end GeoVerif.Proofs.Rhumb
