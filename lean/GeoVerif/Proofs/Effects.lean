import GeoVerif.Model.Effects
/-! Lemmas for `Props/C14.lean`: congruence of runs under states that agree on a footprint, structure of interleavings. -/
namespace GeoVerif.Effects
variable {Loc Val Ret : Type} [DecidableEq Loc]

theorem view_congr {rs : List Loc} {σ τ : State Loc Val} (h : ∀ l ∈ rs, σ l = τ l) : view rs σ = view rs τ := by
  funext l
  unfold view
  by_cases hl : l ∈ rs
  · simp [hl, h l hl]
  · simp [hl]

/-- the result of a step depends only on the locations the operation reads -/
theorem step_result_congr (o : Op Loc Val Ret) {σ τ : State Loc Val} (h : ∀ l ∈ o.reads, σ l = τ l) :
    (o.step σ).2 = (o.step τ).2 := by
  simp [Op.step, view_congr h]

/-- a step changes only the locations in the write set -/
theorem step_frame (o : Op Loc Val Ret) (σ : State Loc Val) {l : Loc} (h : l ∉ o.writes) : (o.step σ).1 l = σ l := by
  simp [Op.step, h]

/-- states that agree on a set `A` containing the read set still agree on `A` after the step -/
theorem step_state_congr (o : Op Loc Val Ret) {σ τ : State Loc Val} {A : Loc → Prop}
    (hr : ∀ l ∈ o.reads, A l) (h : ∀ l, A l → σ l = τ l) : ∀ l, A l → (o.step σ).1 l = (o.step τ).1 l := by
  intro l hl
  have hv : view o.reads σ = view o.reads τ := view_congr (fun l hl => h l (hr l hl))
  simp only [Op.step, hv]
  by_cases hw : l ∈ o.writes
  · simp [hw]
  · simp [hw, h l hl]

/-- a thread's results depend only on the footprint of its operations -/
theorem runThread_congr (T : List (Op Loc Val Ret)) {σ τ : State Loc Val}
    (h : ∀ o ∈ T, ∀ l ∈ o.footprint, σ l = τ l) : (runThread σ T).2 = (runThread τ T).2 := by
  -- generalise to agreement on the union of the footprints
  suffices H : ∀ (T : List (Op Loc Val Ret)) (A : Loc → Prop) (σ τ : State Loc Val), (∀ o ∈ T, ∀ l ∈ o.footprint, A l) →
      (∀ l, A l → σ l = τ l) → (runThread σ T).2 = (runThread τ T).2 from
    H T (fun l => ∃ o ∈ T, l ∈ o.footprint) σ τ (fun o ho l hl => ⟨o, ho, hl⟩) (fun l ⟨o, ho, hl⟩ => h o ho l hl)
  intro T
  induction T with
  | nil => intros; rfl
  | cons o t ih =>
    intro A σ τ hA hag
    have hreads : ∀ l ∈ o.reads, A l := fun l hl => hA o (by simp) l (by simp [Op.footprint, hl])
    have h1 : (o.step σ).2 = (o.step τ).2 := step_result_congr o (fun l hl => hag l (hreads l hl))
    have h2 := step_state_congr o (A := A) hreads hag
    have h3 := ih A (o.step σ).1 (o.step τ).1 (fun o' ho' => hA o' (by simp [ho'])) h2
    simp [runThread, h1, h3]

theorem resultsOf_cons_same (i : Nat) (r : Ret) (rs : List (Nat × Ret)) : resultsOf i ((i, r) :: rs) = r :: resultsOf i rs := by
  simp [resultsOf]

theorem resultsOf_cons_other {i j : Nat} (h : j ≠ i) (r : Ret) (rs : List (Nat × Ret)) : resultsOf i ((j, r) :: rs) = resultsOf i rs := by
  simp [resultsOf, h]

/-- every element of an interleaving comes from the thread it is labelled with -/
theorem Interleave.mem {P : List (List (Op Loc Val Ret))} {tr : Trace Loc Val Ret} (h : Interleave P tr) :
    ∀ p ∈ tr, ∃ T, P[p.1]? = some T ∧ p.2 ∈ T := by
  induction h with
  | done _ => intro p hp; simp at hp
  | @step P tr i o rest hi _ ih =>
    intro p hp
    rcases List.mem_cons.mp hp with rfl | hp
    · exact ⟨o :: rest, hi, by simp⟩
    · obtain ⟨T, hT, hm⟩ := ih p hp
      by_cases hpi : p.1 = i
      · have hlt : i < P.length := by
          rcases Nat.lt_or_ge i P.length with h | h
          · exact h
          · simp [List.getElem?_eq_none h] at hi
        rw [hpi, List.getElem?_set_self hlt] at hT
        cases hT
        exact ⟨o :: rest, hpi ▸ hi, by simp [hm]⟩
      · rw [List.getElem?_set_ne (fun h => hpi h.symm)] at hT
        exact ⟨T, hT, hm⟩

theorem nonInterfering_set {P : List (List (Op Loc Val Ret))} (hP : NonInterfering P) {i : Nat}
    {o : Op Loc Val Ret} {rest : List (Op Loc Val Ret)} (hi : P[i]? = some (o :: rest)) : NonInterfering (P.set i rest) := by
  have hlt : i < P.length := by
    rcases Nat.lt_or_ge i P.length with h | h
    · exact h
    · simp [List.getElem?_eq_none h] at hi
  intro a b hab Ta hTa Tb hTb x hx y hy l hl
  -- recover the threads of P that Ta and Tb are suffixes of
  have get : ∀ (k : Nat) (T : List (Op Loc Val Ret)), (P.set i rest)[k]? = some T → ∃ T', P[k]? = some T' ∧ ∀ z ∈ T, z ∈ T' := by
    intro k T hk
    by_cases hki : k = i
    · subst hki
      rw [List.getElem?_set_self hlt] at hk
      cases hk
      exact ⟨o :: rest, hi, fun z hz => by simp [hz]⟩
    · rw [List.getElem?_set_ne (fun h => hki h.symm)] at hk
      exact ⟨T, hk, fun z hz => hz⟩
  obtain ⟨Ta', hTa', ha⟩ := get a Ta hTa
  obtain ⟨Tb', hTb', hb⟩ := get b Tb hTb
  exact hP a b hab Ta' hTa' Tb' hTb' x (ha x hx) y (hb y hy) l hl

theorem runThread_readonly (T : List (Op Loc Val Ret)) (hT : ∀ o ∈ T, o.writes = []) (σ : State Loc Val) :
    (runThread σ T).2 = T.map (fun o => (o.step σ).2) := by
  induction T with
  | nil => rfl
  | cons o t ih =>
    have hs : (o.step σ).1 = σ := by
      funext l; exact step_frame o σ (by simp [hT o (by simp)])
    simp [runThread, hs, ih (fun o' ho' => hT o' (by simp [ho']))]

/-! ### function-local statics -/

def goodEvent (l : Loc) (v : Val) : SEvent Loc Val → Prop
  | .saw _ x w ini => x = l → (ini = true ∧ w = v)
  | .wrote _ _ _ => True

theorem writesTo_append (l : Loc) (a b : List (SEvent Loc Val)) : writesTo l (a ++ b) = writesTo l a + writesTo l b := by
  simp [writesTo, List.filter_append]

theorem srun_cons (s : SState Loc Val) (i : Nat) (st : SStep Loc Val) (t : List (Nat × SStep Loc Val)) :
    srun s ((i, st) :: t) = ((srun (sstep s i st).1 t).1, (sstep s i st).2 ++ (srun (sstep s i st).1 t).2) := rfl

/-- the new list of threads that have passed the declaration of `l` -/
def passed' (l : Loc) (i : Nat) (st : SStep Loc Val) (passed : List Nat) : List Nat :=
  match st with
  | .once x _ => if x = l then i :: passed else passed
  | _ => passed

theorem guarded_cons (l : Loc) (i : Nat) (st : SStep Loc Val) (t) (passed : List Nat) (h : GuardedReads l ((i, st) :: t) passed) :
    GuardedReads l t (passed' l i st passed) ∧ (∀ x, st = .read x → x = l → i ∈ passed) := by
  cases st with
  | read x => simp only [GuardedReads] at h; exact ⟨h.2, fun y hy hl => by cases hy; exact h.1 hl⟩
  | write x w => simp only [GuardedReads] at h; exact ⟨h, fun y hy => by cases hy⟩
  | once x w => simp only [GuardedReads] at h; exact ⟨h, fun y hy => by cases hy⟩

theorem sstep_ok (l : Loc) (v : Val) (s : SState Loc Val) (passed : List Nat) (i : Nat) (st : SStep Loc Val)
    (hinv : s.inited l = true → s.val l = v) (hpass : ∀ j ∈ passed, s.inited l = true)
    (hread : ∀ x, st = .read x → x = l → i ∈ passed)
    (hhead : StepOK l v st) :
    ((sstep s i st).1.inited l = true → (sstep s i st).1.val l = v) ∧
    (∀ j ∈ passed' l i st passed, (sstep s i st).1.inited l = true) ∧
    (writesTo l (sstep s i st).2 + (if (sstep s i st).1.inited l then 0 else 1) ≤ (if s.inited l then 0 else 1)) ∧
    (∀ e ∈ (sstep s i st).2, goodEvent l v e) := by
  cases st with
  | read x =>
    refine ⟨hinv, hpass, by simp [sstep, writesTo] <;> exact Nat.le_refl _, ?_⟩
    intro e he
    simp only [sstep, List.mem_singleton] at he
    subst he
    intro hx
    have := hpass i (hread x rfl hx)
    subst hx
    exact ⟨this, hinv this⟩
  | write x w =>
    have hx : x ≠ l := hhead
    have hlx : ¬ l = x := fun e => hx e.symm
    refine ⟨?_, ?_, ?_, ?_⟩
    · intro h; simp only [sstep] at h ⊢; rw [if_neg hlx]; exact hinv h
    · intro j hj; simp only [sstep]; exact hpass j hj
    · simp [sstep, writesTo, hx] <;> exact Nat.le_refl _
    · intro e he; simp only [sstep, List.mem_singleton] at he; subst he; trivial
  | once x w =>
    by_cases hini : s.inited x = true
    · have hs : sstep s i (.once x w) = (s, []) := by simp [sstep, hini]
      rw [hs]
      refine ⟨hinv, ?_, by simp [writesTo], by simp⟩
      intro j hj
      simp only [passed'] at hj
      by_cases hxl : x = l
      · subst hxl; exact hini
      · rw [if_neg hxl] at hj; exact hpass j hj
    · have hini' : s.inited x = false := by simpa using hini
      have hs : sstep s i (.once x w) = ({ val := fun y => if y = x then w else s.val y, inited := fun y => if y = x then true else s.inited y }, [.wrote i x w]) := by
        simp [sstep, hini']
      rw [hs]
      by_cases hxl : x = l
      · subst hxl
        have hw : w = v := hhead rfl
        refine ⟨by intro _; simp [hw], by intro j _; simp, ?_, ?_⟩
        · simp [writesTo, hini']
        · intro e he; simp only [List.mem_singleton] at he; subst he; trivial
      · have hlx : ¬ l = x := fun e => hxl e.symm
        refine ⟨?_, ?_, ?_, ?_⟩
        · intro h; simp only at h ⊢; rw [if_neg hlx] at h ⊢; exact hinv h
        · intro j hj; simp only [passed'] at hj; rw [if_neg hxl] at hj; simp only; rw [if_neg hlx]; exact hpass j hj
        · simp [writesTo, hxl, hlx]
        · intro e he; simp only [List.mem_singleton] at he; subst he; trivial

theorem static_aux (l : Loc) (v : Val) : ∀ (tr : List (Nat × SStep Loc Val)) (s : SState Loc Val) (passed : List Nat),
    (s.inited l = true → s.val l = v) → (∀ i ∈ passed, s.inited l = true) → GuardedReads l tr passed → OnlyInit l v tr →
    writesTo l (srun s tr).2 ≤ (if s.inited l then 0 else 1) ∧ ∀ e ∈ (srun s tr).2, goodEvent l v e := by
  intro tr
  induction tr with
  | nil => intro s passed _ _ _ _; simp [srun, writesTo]
  | cons p t ih =>
    intro s passed hinv hpass hg ho
    obtain ⟨i, st⟩ := p
    have ho' : OnlyInit l v t := fun q hq => ho q (by simp [hq])
    have hhead := ho (i, st) (by simp)
    obtain ⟨hg', hread⟩ := guarded_cons l i st t passed hg
    obtain ⟨a1, a2, a3, a4⟩ := sstep_ok l v s passed i st hinv hpass hread hhead
    obtain ⟨c1, c2⟩ := ih (sstep s i st).1 _ a1 a2 hg' ho'
    rw [srun_cons]
    refine ⟨?_, ?_⟩
    · simp only [writesTo_append]; omega
    · intro e he
      rcases List.mem_append.mp he with he | he
      · exact a4 e he
      · exact c2 e he

end GeoVerif.Effects
