import GeoVerif.Proofs.IntersectSearch
import Mathlib.Algebra.Order.Floor.Ring
import Mathlib.Algebra.Order.Archimedean.Real.Basic
import Mathlib.Tactic.FieldSimp
import Mathlib.Tactic.Positivity
/-!
# `Intersect`: the covering argument (start grid vs capture radius of `Basic`) and completeness under the kernel contract
-/
namespace GeoVerif.IntersectSearch
open GeoVerif GeoVerif.IntersectFix

/-! ## L1 balls are squares in the rotated coordinates `u = x + y`, `v = x − y` -/

theorem l1_le_of_rot {x y d : ℝ} (h1 : |x + y| ≤ d) (h2 : |x - y| ≤ d) : |x| + |y| ≤ d := by
  rcases abs_cases x with ⟨hx, _⟩ | ⟨hx, _⟩ <;> rcases abs_cases y with ⟨hy, _⟩ | ⟨hy, _⟩ <;> rw [hx, hy] <;>
    have a1 := abs_le.mp h1 <;> have a2 := abs_le.mp h2 <;> linarith [a1.1, a1.2, a2.1, a2.2]

theorem rot_le_l1 (x y : ℝ) : |x + y| ≤ |x| + |y| ∧ |x - y| ≤ |x| + |y| := by
  refine ⟨abs_add_le x y, ?_⟩
  have := abs_add_le x (-y); rw [abs_neg] at this; simpa [sub_eq_add_neg] using this

/-! ## one-dimensional covering by the index range `[-n : 2 : n]` -/

theorem mem_grid {m : Nat} {i : Int} : i ∈ grid m ↔ ∃ a : Nat, a < m ∧ i = 2 * (a : Int) - ((m : Int) - 1) := by
  unfold grid
  simp only [List.mem_map, List.mem_range]
  constructor
  · rintro ⟨a, ha, rfl⟩; exact ⟨a, ha, rfl⟩
  · rintro ⟨a, ha, rfl⟩; exact ⟨a, ha, rfl⟩

theorem grid_cover (m : Nat) (hm : 1 ≤ m) (d u : ℝ) (hd : 0 ≤ d) (hu : |u| ≤ m * d) :
    ∃ i ∈ grid m, |u - d * (i : ℝ)| ≤ d := by
  rcases eq_or_lt_of_le hd with hd0 | hdpos
  · -- d = 0 : u = 0
    refine ⟨2 * ((0 : Nat) : Int) - ((m : Int) - 1), mem_grid.mpr ⟨0, by omega, rfl⟩, ?_⟩
    rw [← hd0] at hu ⊢; simp at hu; simp [hu]
  · -- t = u / d ∈ [-m, m]
    have hab := abs_le.mp hu
    set k : Int := ⌊(u / d + m) / 2⌋ with hk
    have hk1 : (k : ℝ) ≤ (u / d + m) / 2 := Int.floor_le _
    have hk2 : (u / d + m) / 2 < (k : ℝ) + 1 := Int.lt_floor_add_one _
    have hud1 : -(m : ℝ) ≤ u / d := by rw [le_div_iff₀ hdpos]; linarith [hab.1]
    have hud2 : u / d ≤ (m : ℝ) := by rw [div_le_iff₀ hdpos]; linarith [hab.2]
    have hk0 : 0 ≤ k := by
      rw [hk]; apply Int.floor_nonneg.mpr; linarith
    have hkm : k ≤ (m : Int) := by
      have : (k : ℝ) ≤ (m : ℝ) := by linarith
      exact_mod_cast this
    have key : ∀ a : Nat, a < m → |u / d - (2 * (a : ℝ) - ((m : ℝ) - 1))| ≤ 1 →
        ∃ i ∈ grid m, |u - d * (i : ℝ)| ≤ d := by
      intro a ha hh
      refine ⟨2 * (a : Int) - ((m : Int) - 1), mem_grid.mpr ⟨a, ha, rfl⟩, ?_⟩
      have e : u - d * ((2 * (a : Int) - ((m : Int) - 1) : Int) : ℝ) = d * (u / d - (2 * (a : ℝ) - ((m : ℝ) - 1))) := by
        push_cast; field_simp
      rw [e, abs_mul, abs_of_pos hdpos]
      calc d * |u / d - (2 * (a : ℝ) - ((m : ℝ) - 1))| ≤ d * 1 := by apply mul_le_mul_of_nonneg_left hh hd
        _ = d := by ring
    by_cases hlt : k < (m : Int)
    · -- a = k
      obtain ⟨a, hak⟩ : ∃ a : Nat, (a : Int) = k := ⟨k.toNat, Int.toNat_of_nonneg hk0⟩
      have ha : a < m := by omega
      apply key a ha
      have e : (a : ℝ) = (k : ℝ) := by exact_mod_cast hak
      rw [abs_le, e]; constructor <;> linarith
    · -- k = m, i.e. u / d = m : a = m − 1
      have hkm' : k = (m : Int) := by omega
      have e : (k : ℝ) = (m : ℝ) := by exact_mod_cast hkm'
      apply key (m - 1) (by omega)
      have e2 : ((m - 1 : Nat) : ℝ) = (m : ℝ) - 1 := by
        rw [Nat.cast_sub hm]; simp
      rw [abs_le, e2]; constructor <;> linarith

/-! ## the start grid of `AllInt0` covers the L1 ball of radius `m d3` by L1 balls of radius `d3` -/

theorem add_mk0_zero (p0 : XP ℝ) (x y : ℝ) : XP.add p0 (mk0 x y) = ⟨p0.x + x, p0.y + y, p0.c⟩ := by
  simp [XP.add, mk0]

theorem allStarts_cover (p0 : XP ℝ) (d3 : ℝ) (m : Nat) (hm : 1 ≤ m) (hd : 0 ≤ d3) (a : XP ℝ)
    (ha : dist a p0 ≤ m * d3) : ∃ s ∈ allStarts p0 d3 m, dist a s ≤ d3 := by
  have hrot := rot_le_l1 (a.x - p0.x) (a.y - p0.y)
  rw [dist_real] at ha
  obtain ⟨i, hi, hiu⟩ := grid_cover m hm d3 ((a.x - p0.x) + (a.y - p0.y)) hd (le_trans hrot.1 ha)
  obtain ⟨j, hj, hjv⟩ := grid_cover m hm d3 ((a.x - p0.x) - (a.y - p0.y)) hd (le_trans hrot.2 ha)
  by_cases h00 : i = 0 ∧ j = 0
  · refine ⟨p0, by simp [allStarts], ?_⟩
    obtain ⟨rfl, rfl⟩ := h00
    simp only [Int.cast_zero, mul_zero, sub_zero] at hiu hjv
    rw [dist_real]; exact l1_le_of_rot hiu hjv
  · refine ⟨XP.add p0 (mk0 (d3 * ofC (i + j) / two) (d3 * ofC (i - j) / two)), ?_, ?_⟩
    · simp only [allStarts, List.mem_cons, List.mem_flatMap, List.mem_filterMap]
      right
      refine ⟨i, hi, j, hj, ?_⟩
      have : (i == 0 && j == 0) = false := by
        by_contra hc
        simp only [Bool.not_eq_false, Bool.and_eq_true, beq_iff_eq] at hc
        exact h00 hc
      rw [this]; simp
    · rw [add_mk0_zero, dist_real, ofC_real, ofC_real, two_real]
      push_cast
      apply l1_le_of_rot
      · have e : a.x - (p0.x + d3 * ((i : ℝ) + (j : ℝ)) / 2) + (a.y - (p0.y + d3 * ((i : ℝ) - (j : ℝ)) / 2)) =
            (a.x - p0.x) + (a.y - p0.y) - d3 * (i : ℝ) := by ring
        rw [e]; exact hiu
      · have e : a.x - (p0.x + d3 * ((i : ℝ) + (j : ℝ)) / 2) - (a.y - (p0.y + d3 * ((i : ℝ) - (j : ℝ)) / 2)) =
            (a.x - p0.x) - (a.y - p0.y) - d3 * (j : ℝ) := by ring
        rw [e]; exact hjv

/-! ## completeness of `AllInt0` under the kernel contract (kernels that never report coincidence) -/

/-- The contract of `Basic` used by the covering argument.  `I` is the set of (exact) intersections; the kernel never reports
    coincident lines; every answer is within `ε` of an intersection (`snd`); distinct intersections are at least `2 t1` apart
    in the L1 metric (`sep`); a start within `ρ` (the *capture radius*) of an intersection converges to that intersection
    (`cap`). -/
structure Contract (C : Consts ℝ) (basic : XP ℝ → XP ℝ) (I : XP ℝ → Prop) (ε ρ : ℝ) : Prop where
  c0 : ∀ s, (basic s).c = 0
  snd : ∀ s, ∃ a, I a ∧ dist (basic s) a ≤ ε
  sep : ∀ a b, I a → I b → dist a b < 2 * C.t1 → dist a b = 0
  cap : ∀ a, I a → ∀ s, dist a s ≤ ρ → dist (basic s) a ≤ ε

theorem dist_congr_of_zero {a b : XP ℝ} (h : dist a b = 0) (e : XP ℝ) : dist e a = dist e b := by
  have h1 := dist_triangle e a b
  have h2 := dist_triangle e b a
  rw [dist_symm b a] at h2
  linarith

/-- an answer in the δ-class of a point that is ε-close to the intersection `a` is itself ε-close to `a` -/
theorem close_of_ceq {C : Consts ℝ} {basic : XP ℝ → XP ℝ} {I : XP ℝ → Prop} {ε ρ : ℝ} (K : Contract C basic I ε ρ)
    (hnum : 2 * ε + C.delta < 2 * C.t1) {a q : XP ℝ} (ha : I a) (hq : dist q a ≤ ε) (s1 : XP ℝ)
    (hc : ceq C.delta (basic s1) q = true) : dist (basic s1) a ≤ ε := by
  obtain ⟨b, hb, hbe⟩ := K.snd s1
  rw [ceq_iff] at hc
  have t1 := dist_triangle a q b
  have t2 := dist_triangle q (basic s1) b
  rw [dist_symm a q] at t1
  rw [dist_symm q (basic s1)] at t2
  have : dist a b = 0 := K.sep a b ha hb (by linarith)
  rw [dist_congr_of_zero this]; exact hbe

/-- invariant of `AllInt0` for kernels that never report coincidence -/
structure KInv (C : Consts ℝ) (basic : XP ℝ → XP ℝ) (st : AState ℝ) : Prop where
  c0 : st.c0 = 0
  rker : ∀ e ∈ st.r, ∃ s, e = basic s
  prker : ∀ p ∈ st.pr, ∃ s, p = basic s
  rep : ∀ p ∈ st.pr, ∃ e ∈ st.r, ceq C.delta e p = true

theorem skipped_iff (pr : List (XP ℝ)) (thr : ℝ) (s : XP ℝ) : skipped pr thr s = true ↔ ∃ qy ∈ pr, dist qy s < thr := by
  simp [skipped]

theorem allLoop_complete (C : Consts ℝ) (basic : XP ℝ → XP ℝ) (conj2 : ℝ → ℝ → ℝ) (p0 : XP ℝ) (maxdistx d3 : ℝ) (fuel : Nat)
    (I : XP ℝ → Prop) (ε : ℝ) (K : Contract C basic I ε d3) (hδ : 0 ≤ C.delta) (hεδ : ε ≤ C.delta)
    (hnum : 2 * ε + C.delta < 2 * C.t1) :
    ∀ (rest : List (XP ℝ)) (st : AState ℝ), KInv C basic st →
      KInv C basic (allLoop C basic conj2 p0 maxdistx d3 fuel rest st) ∧
      (∀ e ∈ st.r, e ∈ (allLoop C basic conj2 p0 maxdistx d3 fuel rest st).r) ∧
      (∀ s ∈ rest, ∀ a, I a → dist a s ≤ d3 → ∃ e ∈ (allLoop C basic conj2 p0 maxdistx d3 fuel rest st).r, dist e a ≤ ε) := by
  intro rest
  induction rest with
  | nil => intro st h; simp only [allLoop]; exact ⟨h, fun e he => he, fun s hs => by cases hs⟩
  | cons s rest ih =>
    intro st h
    -- the state after processing `s`, whatever branch is taken: it satisfies the invariant, contains the old set and a
    -- representative of every intersection within d3 of `s`
    suffices hstep : ∃ st2 : AState ℝ, allLoop C basic conj2 p0 maxdistx d3 fuel (s :: rest) st = allLoop C basic conj2 p0 maxdistx d3 fuel rest st2 ∧
        KInv C basic st2 ∧ (∀ e ∈ st.r, e ∈ st2.r) ∧ (∀ a, I a → dist a s ≤ d3 → ∃ e ∈ st2.r, dist e a ≤ ε) by
      obtain ⟨st2, heq, hk, hmono, hcov⟩ := hstep
      rw [heq]
      obtain ⟨a1, a2, a3⟩ := ih st2 hk
      refine ⟨a1, fun e he => a2 e (hmono e he), ?_⟩
      intro t ht a ha hd
      rcases List.mem_cons.mp ht with ht | ht
      · subst ht
        obtain ⟨e, he, hde⟩ := hcov a ha hd
        exact ⟨e, a2 e he, hde⟩
      · exact a3 t ht a ha hd
    simp only [allLoop]
    by_cases hsk : skipped st.pr (two * C.t1 - d3 - C.delta) s = true
    · rw [if_pos hsk]
      refine ⟨st, rfl, h, fun e he => he, ?_⟩
      intro a ha hd
      obtain ⟨qy, hqy, hlt⟩ := (skipped_iff _ _ _).mp hsk
      rw [two_real] at hlt
      obtain ⟨s2, rfl⟩ := h.prker qy hqy
      obtain ⟨b, hb, hbe⟩ := K.snd s2
      have t1 := dist_triangle a s b
      have t2 := dist_triangle s (basic s2) b
      rw [dist_symm s (basic s2)] at t2
      have hab : dist a b = 0 := K.sep a b ha hb (by linarith)
      have hqa : dist (basic s2) a ≤ ε := by rw [dist_congr_of_zero hab]; exact hbe
      obtain ⟨e, he, hce⟩ := h.rep _ hqy
      obtain ⟨s1, rfl⟩ := h.rker e he
      exact ⟨_, he, close_of_ceq K hnum ha hqa s1 hce⟩
    · rw [if_neg hsk]
      have hc0 : (basic s).c = 0 := K.c0 s
      by_cases hfind : (setFind (clt C.delta) st.r (basic s) || (st.c0 != 0 && setFind (clt C.delta) st.cs (fixc p0 (basic s)))) = true
      · rw [if_pos hfind]
        refine ⟨_, rfl, ⟨h.c0, h.rker, h.prker, h.rep⟩, fun e he => he, ?_⟩
        intro a ha hd
        have hq := K.cap a ha s hd
        simp only [h.c0, bne_self_eq_false, Bool.false_and, Bool.or_false] at hfind
        obtain ⟨e, he, h1, h2⟩ := setFind_true hfind
        have hce : ceq C.delta e (basic s) = true := (clt_incomparable_iff C.delta hδ e (basic s)).mp ⟨h1, h2⟩
        obtain ⟨s1, rfl⟩ := h.rker e he
        exact ⟨_, he, close_of_ceq K hnum ha hq s1 hce⟩
      · rw [if_neg hfind]
        have hcf : ((basic s).c != 0) = false := by simp [hc0]
        rw [hcf]
        simp only [Bool.false_eq_true, if_false]
        refine ⟨_, rfl, ⟨h.c0, ?_, ?_, ?_⟩, fun e he => subset_setInsert he, ?_⟩
        · intro e he
          rcases mem_setInsert he with h' | h'
          · exact ⟨s, h'⟩
          · exact h.rker e h'
        · intro p hp
          rcases List.mem_cons.mp hp with h' | h'
          · exact ⟨s, h'⟩
          · exact h.prker p h'
        · intro p hp
          rcases List.mem_cons.mp hp with h' | h'
          · subst h'
            rcases setInsert_rep (lt := clt C.delta) st.r (basic s) with h1 | ⟨e, _, hm, h1, h2⟩
            · exact ⟨_, h1, ceq_refl _ hδ _⟩
            · exact ⟨e, hm, (clt_incomparable_iff C.delta hδ e (basic s)).mp ⟨h1, h2⟩⟩
          · obtain ⟨e, he, hce⟩ := h.rep p h'
            exact ⟨e, subset_setInsert he, hce⟩
        · intro a ha hd
          have hq := K.cap a ha s hd
          rcases setInsert_rep (lt := clt C.delta) st.r (basic s) with h1 | ⟨e, he, hm, h1, h2⟩
          · exact ⟨_, h1, hq⟩
          · have hce : ceq C.delta e (basic s) = true := (clt_incomparable_iff C.delta hδ e (basic s)).mp ⟨h1, h2⟩
            obtain ⟨s1, rfl⟩ := h.rker e he
            exact ⟨_, hm, close_of_ceq K hnum ha hq s1 hce⟩

/-- **completeness of `AllInt0`** for every kernel satisfying the contract with capture radius `d3 = maxdistx / m` -/
theorem allInt0_complete' (C : Consts ℝ) (basic : XP ℝ → XP ℝ) (conj2 : ℝ → ℝ → ℝ) (maxdist : ℝ) (p0 : XP ℝ) (m fuel : Nat)
    (I : XP ℝ → Prop) (ε : ℝ) (hm : 1 ≤ m) (hmax : 0 ≤ maxdist) (hδ : 0 ≤ C.delta) (hε : 0 ≤ ε) (hεδ : ε ≤ C.delta)
    (hnum : 2 * ε + C.delta < 2 * C.t1) (K : Contract C basic I ε ((maxdist + C.delta) / m)) :
    ∀ a, I a → dist a p0 + ε ≤ maxdist → ∃ e ∈ (allInt0 C basic conj2 maxdist p0 m fuel).res, dist e a ≤ ε := by
  intro a ha hda
  have hmpos : (0 : ℝ) < m := by exact_mod_cast hm
  have hd3 : 0 ≤ (maxdist + C.delta) / m := by positivity
  have hof : (RealLike.ofNat m : ℝ) = (m : ℝ) := ofNat_real m
  obtain ⟨s, hs, hds⟩ := allStarts_cover p0 ((maxdist + C.delta) / m) m hm hd3 a (by
    rw [mul_div_cancel₀ _ (ne_of_gt hmpos)]; linarith)
  have h0 : KInv C basic { r := [], cs := [], c0 := 0, pr := [], visited := [], exhausted := false } :=
    ⟨rfl, (fun e he => by cases he), (fun e he => by cases he), (fun e he => by cases he)⟩
  obtain ⟨_, _, hcov⟩ := allLoop_complete C basic conj2 p0 (maxdist + C.delta) ((maxdist + C.delta) / m) fuel I ε K hδ hεδ hnum
    (allStarts p0 ((maxdist + C.delta) / m) m) _ h0
  obtain ⟨e, he, hde⟩ := hcov s hs a ha hds
  refine ⟨e, ?_, hde⟩
  unfold allInt0
  simp only [hof]
  rw [mem_sortBy, List.mem_filter]
  refine ⟨he, ?_⟩
  simp only [leb_real, decide_eq_true_eq]
  have := dist_triangle e a p0
  linarith

end GeoVerif.IntersectSearch
