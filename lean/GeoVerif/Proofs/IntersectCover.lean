import GeoVerif.Proofs.IntersectSearch
import Mathlib.Algebra.Order.Floor.Ring
import Mathlib.Algebra.Order.Archimedean.Real.Basic
import Mathlib.Tactic.FieldSimp
import Mathlib.Tactic.Positivity
/-!
# `Intersect`: the covering argument (start grid vs capture radius of `Basic`) and completeness under the kernel contract
-/
namespace GeoVerif.IntersectSearch
open GeoVerif GeoVerif.IntersectFix

/-! ## L1 balls are squares in the rotated coordinates `u = x + y`, `v = x − y` -/

theorem l1_le_of_rot {x y d : ℝ} (h1 : |x + y| ≤ d) (h2 : |x - y| ≤ d) : |x| + |y| ≤ d := by
  rcases abs_cases x with ⟨hx, _⟩ | ⟨hx, _⟩ <;> rcases abs_cases y with ⟨hy, _⟩ | ⟨hy, _⟩ <;> rw [hx, hy] <;>
    have a1 := abs_le.mp h1 <;> have a2 := abs_le.mp h2 <;> linarith [a1.1, a1.2, a2.1, a2.2]

theorem rot_le_l1 (x y : ℝ) : |x + y| ≤ |x| + |y| ∧ |x - y| ≤ |x| + |y| := by
  refine ⟨abs_add_le x y, ?_⟩
  have := abs_add_le x (-y); rw [abs_neg] at this; simpa [sub_eq_add_neg] using this

/-! ## one-dimensional covering by the index range `[-n : 2 : n]` -/

theorem mem_grid {m : Nat} {i : Int} : i ∈ grid m ↔ ∃ a : Nat, a < m ∧ i = 2 * (a : Int) - ((m : Int) - 1) := by
  unfold grid
  simp only [List.mem_map, List.mem_range]
  constructor
  · rintro ⟨a, ha, rfl⟩; exact ⟨a, ha, rfl⟩
  · rintro ⟨a, ha, rfl⟩; exact ⟨a, ha, rfl⟩

theorem grid_cover (m : Nat) (hm : 1 ≤ m) (d u : ℝ) (hd : 0 ≤ d) (hu : |u| ≤ m * d) :
    ∃ i ∈ grid m, |u - d * (i : ℝ)| ≤ d := by
  rcases eq_or_lt_of_le hd with hd0 | hdpos
  · -- d = 0 : u = 0
    refine ⟨2 * ((0 : Nat) : Int) - ((m : Int) - 1), mem_grid.mpr ⟨0, by omega, rfl⟩, ?_⟩
    rw [← hd0] at hu ⊢; simp at hu; simp [hu]
  · -- t = u / d ∈ [-m, m]
    have hab := abs_le.mp hu
    set k : Int := ⌊(u / d + m) / 2⌋ with hk
    have hk1 : (k : ℝ) ≤ (u / d + m) / 2 := Int.floor_le _
    have hk2 : (u / d + m) / 2 < (k : ℝ) + 1 := Int.lt_floor_add_one _
    have hud1 : -(m : ℝ) ≤ u / d := by rw [le_div_iff₀ hdpos]; linarith [hab.1]
    have hud2 : u / d ≤ (m : ℝ) := by rw [div_le_iff₀ hdpos]; linarith [hab.2]
    have hk0 : 0 ≤ k := by
      rw [hk]; apply Int.floor_nonneg.mpr; linarith
    have hkm : k ≤ (m : Int) := by
      have : (k : ℝ) ≤ (m : ℝ) := by linarith
      exact_mod_cast this
    have key : ∀ a : Nat, a < m → |u / d - (2 * (a : ℝ) - ((m : ℝ) - 1))| ≤ 1 →
        ∃ i ∈ grid m, |u - d * (i : ℝ)| ≤ d := by
      intro a ha hh
      refine ⟨2 * (a : Int) - ((m : Int) - 1), mem_grid.mpr ⟨a, ha, rfl⟩, ?_⟩
      have e : u - d * ((2 * (a : Int) - ((m : Int) - 1) : Int) : ℝ) = d * (u / d - (2 * (a : ℝ) - ((m : ℝ) - 1))) := by
        push_cast; field_simp
      rw [e, abs_mul, abs_of_pos hdpos]
      calc d * |u / d - (2 * (a : ℝ) - ((m : ℝ) - 1))| ≤ d * 1 := by apply mul_le_mul_of_nonneg_left hh hd
        _ = d := by ring
    by_cases hlt : k < (m : Int)
    · -- a = k
      obtain ⟨a, hak⟩ : ∃ a : Nat, (a : Int) = k := ⟨k.toNat, Int.toNat_of_nonneg hk0⟩
      have ha : a < m := by omega
      apply key a ha
      have e : (a : ℝ) = (k : ℝ) := by exact_mod_cast hak
      rw [abs_le, e]; constructor <;> linarith
    · -- k = m, i.e. u / d = m : a = m − 1
      have hkm' : k = (m : Int) := by omega
      have e : (k : ℝ) = (m : ℝ) := by exact_mod_cast hkm'
      apply key (m - 1) (by omega)
      have e2 : ((m - 1 : Nat) : ℝ) = (m : ℝ) - 1 := by
        rw [Nat.cast_sub hm]; simp
      rw [abs_le, e2]; constructor <;> linarith

/-! ## the start grid of `AllInt0` covers the L1 ball of radius `m d3` by L1 balls of radius `d3` -/

theorem add_mk0_zero (p0 : XP ℝ) (x y : ℝ) : XP.add p0 (mk0 x y) = ⟨p0.x + x, p0.y + y, p0.c⟩ := by
  simp [XP.add, mk0]

theorem allStarts_cover (p0 : XP ℝ) (d3 : ℝ) (m : Nat) (hm : 1 ≤ m) (hd : 0 ≤ d3) (a : XP ℝ)
    (ha : dist a p0 ≤ m * d3) : ∃ s ∈ allStarts p0 d3 m, dist a s ≤ d3 := by
  have hrot := rot_le_l1 (a.x - p0.x) (a.y - p0.y)
  rw [dist_real] at ha
  obtain ⟨i, hi, hiu⟩ := grid_cover m hm d3 ((a.x - p0.x) + (a.y - p0.y)) hd (le_trans hrot.1 ha)
  obtain ⟨j, hj, hjv⟩ := grid_cover m hm d3 ((a.x - p0.x) - (a.y - p0.y)) hd (le_trans hrot.2 ha)
  by_cases h00 : i = 0 ∧ j = 0
  · refine ⟨p0, by simp [allStarts], ?_⟩
    obtain ⟨rfl, rfl⟩ := h00
    simp only [Int.cast_zero, mul_zero, sub_zero] at hiu hjv
    rw [dist_real]; exact l1_le_of_rot hiu hjv
  · refine ⟨XP.add p0 (mk0 (d3 * ofC (i + j) / two) (d3 * ofC (i - j) / two)), ?_, ?_⟩
    · simp only [allStarts, List.mem_cons, List.mem_flatMap, List.mem_filterMap]
      right
      refine ⟨i, hi, j, hj, ?_⟩
      have : (i == 0 && j == 0) = false := by
        by_contra hc
        simp only [Bool.not_eq_false, Bool.and_eq_true, beq_iff_eq] at hc
        exact h00 hc
      rw [this]; simp
    · rw [add_mk0_zero, dist_real, ofC_real, ofC_real, two_real]
      push_cast
      apply l1_le_of_rot
      · have e : a.x - (p0.x + d3 * ((i : ℝ) + (j : ℝ)) / 2) + (a.y - (p0.y + d3 * ((i : ℝ) - (j : ℝ)) / 2)) =
            (a.x - p0.x) + (a.y - p0.y) - d3 * (i : ℝ) := by ring
        rw [e]; exact hiu
      · have e : a.x - (p0.x + d3 * ((i : ℝ) + (j : ℝ)) / 2) - (a.y - (p0.y + d3 * ((i : ℝ) - (j : ℝ)) / 2)) =
            (a.x - p0.x) - (a.y - p0.y) - d3 * (j : ℝ) := by ring
        rw [e]; exact hjv

/-! ## the number of start points of `AllInt0` -/

theorem grid_length (m : Nat) : (grid m).length = m := by simp [grid]

theorem grid_nodup (m : Nat) : (grid m).Nodup := by
  unfold grid
  apply List.Nodup.map _ List.nodup_range
  intro a b h; simp only at h; omega

/-- number of entries of `grid m` equal to 0: one iff `m` is odd -/
theorem grid_count_zero (m : Nat) : (grid m).count 0 = m % 2 := by
  have hn := grid_nodup m
  by_cases h : (0 : Int) ∈ grid m
  · rw [List.count_eq_one_of_mem hn h]
    obtain ⟨a, _, ha⟩ := mem_grid.mp h
    omega
  · rw [List.count_eq_zero_of_not_mem h]
    by_contra hc
    have hodd : m % 2 = 1 := by omega
    exact h (mem_grid.mpr ⟨(m - 1) / 2, by omega, by omega⟩)

theorem row_length (p0 : XP ℝ) (d3 : ℝ) (l : List Int) (i : Int) :
    (l.filterMap fun j => if i == 0 && j == 0 then none
      else some (XP.add p0 (mk0 (d3 * ofC (i + j) / two) (d3 * ofC (i - j) / two)))).length
      = l.length - (if i = 0 then l.count 0 else 0) := by
  induction l with
  | nil => simp
  | cons j t ih =>
    by_cases hi : i = 0
    · subst hi
      by_cases hj : j = 0
      · subst hj
        simp only [List.filterMap_cons, beq_self_eq_true, Bool.and_self, if_true, List.length_cons, List.count_cons_self] at ih ⊢
        rw [ih]
        have := List.count_le_length (a := (0:Int)) (l := t)
        omega
      · have hj' : (j == 0) = false := by simpa using hj
        simp only [List.filterMap_cons, beq_self_eq_true, hj', Bool.and_false, Bool.false_eq_true, if_false, List.length_cons, if_true] at ih ⊢
        rw [ih, List.count_cons_of_ne hj]
        have := List.count_le_length (a := (0:Int)) (l := t)
        omega
    · have hi' : (i == 0) = false := by simpa using hi
      simp only [List.filterMap_cons, hi', Bool.false_and, Bool.false_eq_true, if_false, List.length_cons, hi] at ih ⊢
      rw [ih]; omega

/-- the number of start points is the `m2` of the code: `m*m + (m - 1) % 2` (so `vector<XPoint> start(m2)` is filled exactly:
    the commented-out `assert(h == m2)` holds) -/
theorem allStarts_length (p0 : XP ℝ) (d3 : ℝ) (m : Nat) (hm : 1 ≤ m) :
    (allStarts p0 d3 m).length = m * m + (m - 1) % 2 := by
  unfold allStarts
  simp only [List.length_cons, List.length_flatMap]
  have hrow : ∀ i : Int, ((grid m).filterMap fun j => if i == 0 && j == 0 then none
      else some (XP.add p0 (mk0 (d3 * ofC (i + j) / two) (d3 * ofC (i - j) / two)))).length
      = m - (if i = 0 then m % 2 else 0) := by
    intro i; rw [row_length, grid_length, grid_count_zero]
  simp only [hrow]
  -- sum over the rows: every row has m entries except the row i = 0 (present iff m is odd), which has m − 1
  have hsum : ∀ l : List Int, l.Nodup → (l.map fun i : Int => m - (if i = 0 then m % 2 else 0)).sum = l.length * m - l.count 0 * (m % 2) := by
    intro l
    induction l with
    | nil => simp
    | cons a t ih =>
      intro hnd
      obtain ⟨hat, hnt⟩ := List.nodup_cons.mp hnd
      simp only [List.map_cons, List.sum_cons, List.length_cons]
      rw [ih hnt]
      have hc := List.count_le_length (a := (0:Int)) (l := t)
      have hm2 : m % 2 ≤ 1 := by omega
      by_cases ha : a = 0
      · subst ha
        rw [List.count_cons_self, List.count_eq_zero_of_not_mem hat]
        simp only [if_true, Nat.zero_mul, Nat.zero_add, Nat.one_mul, Nat.sub_zero, Nat.add_mul]
        have : m % 2 ≤ m := Nat.mod_le _ _
        omega
      · rw [List.count_cons_of_ne ha]
        simp only [ha, if_false, Nat.sub_zero]
        have : t.count 0 * (m % 2) ≤ t.length * m := by
          calc t.count 0 * (m % 2) ≤ t.length * (m % 2) := Nat.mul_le_mul_right _ hc
            _ ≤ t.length * m := Nat.mul_le_mul_left _ (Nat.mod_le _ _)
        rw [Nat.add_mul]; omega
  rw [hsum _ (grid_nodup m), grid_length, grid_count_zero]
  have h2 : m % 2 * (m % 2) = m % 2 := by
    rcases Nat.mod_two_eq_zero_or_one m with h | h <;> rw [h]
  rw [h2]
  have : m % 2 ≤ m * m := by nlinarith [Nat.mod_le m 2]
  omega
/-! ## completeness of `AllInt0` under the kernel contract (kernels that never report coincidence) -/

/-- The contract of `Basic` used by the covering argument.  `I` is the set of (exact) intersections; the kernel never reports
    coincident lines; every answer is within `ε` of an intersection (`snd`); distinct intersections are at least `2 t1` apart
    in the L1 metric (`sep`); a start within `ρ` (the *capture radius*) of an intersection converges to that intersection
    (`cap`). -/
structure Contract (C : Consts ℝ) (basic : XP ℝ → XP ℝ) (I : XP ℝ → Prop) (ε ρ : ℝ) : Prop where
  c0 : ∀ s, (basic s).c = 0
  snd : ∀ s, ∃ a, I a ∧ dist (basic s) a ≤ ε
  sep : ∀ a b, I a → I b → dist a b < 2 * C.t1 → dist a b = 0
  cap : ∀ a, I a → ∀ s, dist a s ≤ ρ → dist (basic s) a ≤ ε

theorem dist_congr_of_zero {a b : XP ℝ} (h : dist a b = 0) (e : XP ℝ) : dist e a = dist e b := by
  have h1 := dist_triangle e a b
  have h2 := dist_triangle e b a
  rw [dist_symm b a] at h2
  linarith

/-- an answer in the δ-class of a point that is ε-close to the intersection `a` is itself ε-close to `a` -/
theorem close_of_ceq {C : Consts ℝ} {basic : XP ℝ → XP ℝ} {I : XP ℝ → Prop} {ε ρ : ℝ} (K : Contract C basic I ε ρ)
    (hnum : 2 * ε + C.delta < 2 * C.t1) {a q : XP ℝ} (ha : I a) (hq : dist q a ≤ ε) (s1 : XP ℝ)
    (hc : ceq C.delta (basic s1) q = true) : dist (basic s1) a ≤ ε := by
  obtain ⟨b, hb, hbe⟩ := K.snd s1
  rw [ceq_iff] at hc
  have t1 := dist_triangle a q b
  have t2 := dist_triangle q (basic s1) b
  rw [dist_symm a q] at t1
  rw [dist_symm q (basic s1)] at t2
  have : dist a b = 0 := K.sep a b ha hb (by linarith)
  rw [dist_congr_of_zero this]; exact hbe

/-- invariant of `AllInt0` for kernels that never report coincidence -/
structure KInv (C : Consts ℝ) (basic : XP ℝ → XP ℝ) (st : AState ℝ) : Prop where
  c0 : st.c0 = 0
  rker : ∀ e ∈ st.r, ∃ s, e = basic s
  prker : ∀ p ∈ st.pr, ∃ s, p = basic s
  rep : ∀ p ∈ st.pr, ∃ e ∈ st.r, ceq C.delta e p = true

theorem skipped_iff (pr : List (XP ℝ)) (thr : ℝ) (s : XP ℝ) : skipped pr thr s = true ↔ ∃ qy ∈ pr, dist qy s < thr := by
  simp [skipped]

theorem allLoop_complete (C : Consts ℝ) (basic : XP ℝ → XP ℝ) (conj2 : ℝ → ℝ → ℝ) (p0 : XP ℝ) (maxdistx d3 : ℝ) (fuel : Nat)
    (I : XP ℝ → Prop) (ε : ℝ) (K : Contract C basic I ε d3) (hδ : 0 ≤ C.delta) (hεδ : ε ≤ C.delta)
    (hnum : 2 * ε + C.delta < 2 * C.t1) :
    ∀ (rest : List (XP ℝ)) (st : AState ℝ), KInv C basic st →
      KInv C basic (allLoop C basic conj2 p0 maxdistx d3 fuel rest st) ∧
      (∀ e ∈ st.r, e ∈ (allLoop C basic conj2 p0 maxdistx d3 fuel rest st).r) ∧
      (∀ s ∈ rest, ∀ a, I a → dist a s ≤ d3 → ∃ e ∈ (allLoop C basic conj2 p0 maxdistx d3 fuel rest st).r, dist e a ≤ ε) := by
  intro rest
  induction rest with
  | nil => intro st h; simp only [allLoop]; exact ⟨h, fun e he => he, fun s hs => by cases hs⟩
  | cons s rest ih =>
    intro st h
    -- the state after processing `s`, whatever branch is taken: it satisfies the invariant, contains the old set and a
    -- representative of every intersection within d3 of `s`
    suffices hstep : ∃ st2 : AState ℝ, allLoop C basic conj2 p0 maxdistx d3 fuel (s :: rest) st = allLoop C basic conj2 p0 maxdistx d3 fuel rest st2 ∧
        KInv C basic st2 ∧ (∀ e ∈ st.r, e ∈ st2.r) ∧ (∀ a, I a → dist a s ≤ d3 → ∃ e ∈ st2.r, dist e a ≤ ε) by
      obtain ⟨st2, heq, hk, hmono, hcov⟩ := hstep
      rw [heq]
      obtain ⟨a1, a2, a3⟩ := ih st2 hk
      refine ⟨a1, fun e he => a2 e (hmono e he), ?_⟩
      intro t ht a ha hd
      rcases List.mem_cons.mp ht with ht | ht
      · subst ht
        obtain ⟨e, he, hde⟩ := hcov a ha hd
        exact ⟨e, a2 e he, hde⟩
      · exact a3 t ht a ha hd
    simp only [allLoop]
    by_cases hsk : skipped st.pr (two * C.t1 - d3 - C.delta) s = true
    · rw [if_pos hsk]
      refine ⟨st, rfl, h, fun e he => he, ?_⟩
      intro a ha hd
      obtain ⟨qy, hqy, hlt⟩ := (skipped_iff _ _ _).mp hsk
      rw [two_real] at hlt
      obtain ⟨s2, rfl⟩ := h.prker qy hqy
      obtain ⟨b, hb, hbe⟩ := K.snd s2
      have t1 := dist_triangle a s b
      have t2 := dist_triangle s (basic s2) b
      rw [dist_symm s (basic s2)] at t2
      have hab : dist a b = 0 := K.sep a b ha hb (by linarith)
      have hqa : dist (basic s2) a ≤ ε := by rw [dist_congr_of_zero hab]; exact hbe
      obtain ⟨e, he, hce⟩ := h.rep _ hqy
      obtain ⟨s1, rfl⟩ := h.rker e he
      exact ⟨_, he, close_of_ceq K hnum ha hqa s1 hce⟩
    · rw [if_neg hsk]
      have hc0 : (basic s).c = 0 := K.c0 s
      by_cases hfind : (setFind (clt C.delta) st.r (basic s) || (st.c0 != 0 && setFind (clt C.delta) st.cs (fixc p0 (basic s)))) = true
      · rw [if_pos hfind]
        refine ⟨_, rfl, ⟨h.c0, h.rker, h.prker, h.rep⟩, fun e he => he, ?_⟩
        intro a ha hd
        have hq := K.cap a ha s hd
        simp only [h.c0, bne_self_eq_false, Bool.false_and, Bool.or_false] at hfind
        obtain ⟨e, he, h1, h2⟩ := setFind_true hfind
        have hce : ceq C.delta e (basic s) = true := (clt_incomparable_iff C.delta hδ e (basic s)).mp ⟨h1, h2⟩
        obtain ⟨s1, rfl⟩ := h.rker e he
        exact ⟨_, he, close_of_ceq K hnum ha hq s1 hce⟩
      · rw [if_neg hfind]
        have hcf : ((basic s).c != 0) = false := by simp [hc0]
        rw [hcf]
        simp only [Bool.false_eq_true, if_false]
        refine ⟨_, rfl, ⟨h.c0, ?_, ?_, ?_⟩, fun e he => subset_setInsert he, ?_⟩
        · intro e he
          rcases mem_setInsert he with h' | h'
          · exact ⟨s, h'⟩
          · exact h.rker e h'
        · intro p hp
          rcases List.mem_cons.mp hp with h' | h'
          · exact ⟨s, h'⟩
          · exact h.prker p h'
        · intro p hp
          rcases List.mem_cons.mp hp with h' | h'
          · subst h'
            rcases setInsert_rep (lt := clt C.delta) st.r (basic s) with h1 | ⟨e, _, hm, h1, h2⟩
            · exact ⟨_, h1, ceq_refl _ hδ _⟩
            · exact ⟨e, hm, (clt_incomparable_iff C.delta hδ e (basic s)).mp ⟨h1, h2⟩⟩
          · obtain ⟨e, he, hce⟩ := h.rep p h'
            exact ⟨e, subset_setInsert he, hce⟩
        · intro a ha hd
          have hq := K.cap a ha s hd
          rcases setInsert_rep (lt := clt C.delta) st.r (basic s) with h1 | ⟨e, he, hm, h1, h2⟩
          · exact ⟨_, h1, hq⟩
          · have hce : ceq C.delta e (basic s) = true := (clt_incomparable_iff C.delta hδ e (basic s)).mp ⟨h1, h2⟩
            obtain ⟨s1, rfl⟩ := h.rker e he
            exact ⟨_, hm, close_of_ceq K hnum ha hq s1 hce⟩

/-- **completeness of `AllInt0`** for every kernel satisfying the contract with capture radius `d3 = maxdistx / m` -/
theorem allInt0_complete' (C : Consts ℝ) (basic : XP ℝ → XP ℝ) (conj2 : ℝ → ℝ → ℝ) (maxdist : ℝ) (p0 : XP ℝ) (m fuel : Nat)
    (I : XP ℝ → Prop) (ε : ℝ) (hm : 1 ≤ m) (hmax : 0 ≤ maxdist) (hδ : 0 ≤ C.delta) (hε : 0 ≤ ε) (hεδ : ε ≤ C.delta)
    (hnum : 2 * ε + C.delta < 2 * C.t1) (K : Contract C basic I ε ((maxdist + C.delta) / m)) :
    ∀ a, I a → dist a p0 + ε ≤ maxdist → ∃ e ∈ (allInt0 C basic conj2 maxdist p0 m fuel).res, dist e a ≤ ε := by
  intro a ha hda
  have hmpos : (0 : ℝ) < m := by exact_mod_cast hm
  have hd3 : 0 ≤ (maxdist + C.delta) / m := by positivity
  have hof : (RealLike.ofNat m : ℝ) = (m : ℝ) := ofNat_real m
  obtain ⟨s, hs, hds⟩ := allStarts_cover p0 ((maxdist + C.delta) / m) m hm hd3 a (by
    rw [mul_div_cancel₀ _ (ne_of_gt hmpos)]; linarith)
  have h0 : KInv C basic { r := [], cs := [], c0 := 0, pr := [], visited := [], exhausted := false } :=
    ⟨rfl, (fun e he => by cases he), (fun e he => by cases he), (fun e he => by cases he)⟩
  obtain ⟨_, _, hcov⟩ := allLoop_complete C basic conj2 p0 (maxdist + C.delta) ((maxdist + C.delta) / m) fuel I ε K hδ hεδ hnum
    (allStarts p0 ((maxdist + C.delta) / m) m) _ h0
  obtain ⟨e, he, hde⟩ := hcov s hs a ha hds
  refine ⟨e, ?_, hde⟩
  unfold allInt0
  simp only [hof]
  rw [mem_sortBy, List.mem_filter]
  refine ⟨he, ?_⟩
  simp only [leb_real, decide_eq_true_eq]
  have := dist_triangle e a p0
  linarith

/-! ## completeness of `ClosestInt` under the contract -/

theorem fixc_c0 (p0 p : XP ℝ) (h : p.c = 0) : fixc p0 p = p := by simp [fixc, fixcoincident, h]

/-- every start is visited, or pruned by the answer of a visited start, or the loop left early with a point within `t1` -/
theorem closestLoop_cover (C : Consts ℝ) (basic : XP ℝ → XP ℝ) (p0 : XP ℝ) :
    ∀ (rest : List (XP ℝ)) (first : Bool) (pr : List (XP ℝ)) (o : Out ℝ),
      (∀ p ∈ pr, ∃ t ∈ o.visited, p = ans basic p0 t) →
      (∀ t ∈ o.visited, t ∈ (closestLoop C basic p0 first rest pr o).visited) ∧
      ∀ s ∈ rest, s ∈ (closestLoop C basic p0 first rest pr o).visited ∨
        (∃ t ∈ (closestLoop C basic p0 first rest pr o).visited, dist (ans basic p0 t) s < closestThr C) ∨
        (∃ b, (closestLoop C basic p0 first rest pr o).q = some b ∧ dist b p0 < C.t1) := by
  intro rest
  induction rest with
  | nil => intro first pr o _; simp only [closestLoop]; exact ⟨fun t ht => ht, fun s hs => by cases hs⟩
  | cons s rest ih =>
    intro first pr o hpr
    -- continuing with a state that has visited `s` (and possibly a new pruner that is the answer at `s`)
    have cont : ∀ (pr' : List (XP ℝ)) (o' : Out ℝ), o'.visited = o.visited ++ [s] →
        (∀ p ∈ pr', ∃ t ∈ o'.visited, p = ans basic p0 t) →
        (∀ t ∈ o.visited, t ∈ (closestLoop C basic p0 false rest pr' o').visited) ∧
        ∀ s' ∈ s :: rest, s' ∈ (closestLoop C basic p0 false rest pr' o').visited ∨
          (∃ t ∈ (closestLoop C basic p0 false rest pr' o').visited, dist (ans basic p0 t) s' < closestThr C) ∨
          (∃ b, (closestLoop C basic p0 false rest pr' o').q = some b ∧ dist b p0 < C.t1) := by
      intro pr' o' hv hp'
      obtain ⟨a, b⟩ := ih false pr' o' hp'
      refine ⟨fun t ht => a t (by rw [hv]; exact List.mem_append_left _ ht), ?_⟩
      intro s' hs'
      rcases List.mem_cons.mp hs' with h | h
      · left; rw [h]; exact a s (by rw [hv]; simp)
      · exact b s' h
    simp only [closestLoop]
    by_cases hsk : skipped pr (closestThr C) s = true
    · rw [if_pos hsk]
      obtain ⟨a, b⟩ := ih false pr o hpr
      refine ⟨a, ?_⟩
      intro s' hs'
      rcases List.mem_cons.mp hs' with h | h
      · obtain ⟨qy, hqy, hlt⟩ := (skipped_iff _ _ _).mp hsk
        obtain ⟨t, ht, rfl⟩ := hpr qy hqy
        right; left; rw [h]; exact ⟨t, a t ht, hlt⟩
      · exact b s' h
    · rw [if_neg hsk]
      have hqa : fixc p0 (basic s) = ans basic p0 s := rfl
      generalize fixc p0 (basic s) = qx at hqa
      by_cases heq : eqO C.delta o.q qx = true
      · rw [if_pos heq]
        exact cont pr _ rfl (fun p hp => by obtain ⟨t, ht, e⟩ := hpr p hp; exact ⟨t, List.mem_append_left _ ht, e⟩)
      · rw [if_neg heq]
        by_cases hbr : RealLike.ltb (dist qx p0) C.t1 = true
        · rw [if_pos hbr]
          simp only [ltb_real, decide_eq_true_eq] at hbr
          refine ⟨fun t ht => List.mem_append_left _ ht, fun s' _ => Or.inr (Or.inr ⟨qx, rfl, hbr⟩)⟩
        · rw [if_neg hbr]
          have hp' : ∀ (v : List (XP ℝ)), v = o.visited ++ [s] → ∀ p ∈ qx :: pr, ∃ t ∈ v, p = ans basic p0 t := by
            intro v hv p hp
            rcases List.mem_cons.mp hp with h | h
            · exact ⟨s, by rw [hv]; simp, by rw [h, hqa]⟩
            · obtain ⟨t, ht, e⟩ := hpr p h; exact ⟨t, by rw [hv]; exact List.mem_append_left _ ht, e⟩
          split
          · exact cont (qx :: pr) _ rfl (hp' _ rfl)
          · exact cont (qx :: pr) _ rfl (hp' _ rfl)

/-- the five starts of `ClosestInt` (table of the current source) cover the L1 ball of radius `2 d1` by balls of radius `d1` -/
theorem closestStarts_cover (C : Consts ℝ) (p0 a : XP ℝ) (ha : dist a p0 ≤ 2 * C.d1) :
    ∃ s ∈ closestStarts C p0, dist a s ≤ C.d1 := by
  have hm : ∀ i j : Int, (i, j) ∈ [((1 : Int), (0 : Int)), (-1, 0), (0, 1), (0, -1)] →
      XP.add p0 (mk0 ((i : ℝ) * C.d1) ((j : ℝ) * C.d1)) ∈ closestStarts C p0 := by
    intro i j hij
    simp only [closestStarts, offsets, startAt, Gen.IntersectC.closestIx, Gen.IntersectC.closestIy, List.zip_cons_cons, List.zip_nil_right,
      List.map_cons, List.map_nil, ofC_real, List.mem_cons, List.not_mem_nil, or_false]
    simp only [List.mem_cons, List.not_mem_nil, or_false, Prod.mk.injEq] at hij
    rcases hij with ⟨rfl, rfl⟩ | ⟨rfl, rfl⟩ | ⟨rfl, rfl⟩ | ⟨rfl, rfl⟩ <;> simp
  rw [dist_real] at ha
  set dx := a.x - p0.x with hdx
  set dy := a.y - p0.y with hdy
  have dist_s : ∀ i j : Int, dist a (XP.add p0 (mk0 ((i : ℝ) * C.d1) ((j : ℝ) * C.d1))) = |dx - (i : ℝ) * C.d1| + |dy - (j : ℝ) * C.d1| := by
    intro i j; rw [add_mk0_zero, dist_real]; simp only [hdx, hdy]; congr 1 <;> congr 1 <;> ring
  by_cases hxy : |dy| ≤ |dx|
  · by_cases hx0 : 0 ≤ dx
    · refine ⟨_, hm 1 0 (by simp), ?_⟩
      rw [dist_s 1 0]; push_cast
      rw [abs_of_nonneg hx0] at ha hxy
      rcases abs_cases (dx - 1 * C.d1) with ⟨e, _⟩ | ⟨e, _⟩ <;> rw [e] <;> simp only [zero_mul, sub_zero] <;> linarith
    · have hx0' : dx < 0 := not_le.mp hx0
      refine ⟨_, hm (-1) 0 (by simp), ?_⟩
      rw [dist_s (-1) 0]; push_cast
      rw [abs_of_neg hx0'] at ha hxy
      rcases abs_cases (dx - -1 * C.d1) with ⟨e, _⟩ | ⟨e, _⟩ <;> rw [e] <;> simp only [zero_mul, sub_zero] <;> linarith
  · have hxy' : |dx| < |dy| := not_le.mp hxy
    by_cases hy0 : 0 ≤ dy
    · refine ⟨_, hm 0 1 (by simp), ?_⟩
      rw [dist_s 0 1]; push_cast
      rw [abs_of_nonneg hy0] at ha hxy'
      rcases abs_cases (dy - 1 * C.d1) with ⟨e, _⟩ | ⟨e, _⟩ <;> rw [e] <;> simp only [zero_mul, sub_zero] <;> linarith
    · have hy0' : dy < 0 := not_le.mp hy0
      refine ⟨_, hm 0 (-1) (by simp), ?_⟩
      rw [dist_s 0 (-1)]; push_cast
      rw [abs_of_neg hy0'] at ha hxy'
      rcases abs_cases (dy - -1 * C.d1) with ⟨e, _⟩ | ⟨e, _⟩ <;> rw [e] <;> simp only [zero_mul, sub_zero] <;> linarith

/-- **`ClosestInt` returns the closest intersection** (up to the tolerances) for every kernel satisfying the contract with
    capture radius `d1`: no intersection within `2 d1` of `p0` is closer than the returned point by more than `ε + δ` -/
theorem closestInt_complete' (C : Consts ℝ) (basic : XP ℝ → XP ℝ) (p0 : XP ℝ) (I : XP ℝ → Prop) (ε : ℝ)
    (hδ : 0 ≤ C.delta) (hεδ : ε ≤ C.delta) (K : Contract C basic I ε C.d1) :
    ∃ b, (closestInt C basic p0).q = some b ∧ (∃ a, I a ∧ dist b a ≤ ε) ∧
      ∀ a, I a → dist a p0 ≤ 2 * C.d1 → dist b p0 ≤ dist a p0 + ε + C.delta := by
  obtain ⟨post, _, hsome⟩ := closestInt_spec C hδ basic p0
  have hans : ∀ t, ans basic p0 t = basic t := fun t => fixc_c0 p0 _ (K.c0 t)
  have hne : closestStarts C p0 ≠ [] := by
    simp [closestStarts, offsets, Gen.IntersectC.closestIx, Gen.IntersectC.closestIy]
  obtain ⟨b, hb⟩ : ∃ b, (closestInt C basic p0).q = some b := by
    cases hq : (closestInt C basic p0).q with
    | none => exact absurd hq (hsome hne)
    | some b => exact ⟨b, rfl⟩
  obtain ⟨tb, _, hbt⟩ := post.isans b hb
  rw [hans] at hbt
  refine ⟨b, hb, by rw [hbt]; obtain ⟨a, ha, h⟩ := K.snd tb; exact ⟨a, ha, h⟩, ?_⟩
  intro a ha hda
  obtain ⟨s, hs, hds⟩ := closestStarts_cover C p0 a hda
  have hcov := (closestLoop_cover C basic p0 (closestStarts C p0) true [] { q := none, visited := [], nchange := 0 }
    (fun p hp => by cases hp)).2 s hs
  have viaVisited : ∀ t ∈ (closestInt C basic p0).visited, dist (basic t) a ≤ ε → dist b p0 ≤ dist a p0 + ε + C.delta := by
    intro t ht hta
    obtain ⟨b', hb', hmin⟩ := post.min t ht
    rw [hb] at hb'; cases hb'
    rw [hans] at hmin
    have := dist_triangle (basic t) a p0
    linarith
  rcases hcov with hv | ⟨t, ht, hlt⟩ | ⟨b', hb', hlt⟩
  · exact viaVisited s hv (K.cap a ha s hds)
  · rw [hans] at hlt
    obtain ⟨a', ha', hta'⟩ := K.snd t
    have t1 := dist_triangle a s a'
    have t2 := dist_triangle s (basic t) a'
    rw [dist_symm s (basic t)] at t2
    have hthr : closestThr C = 2 * C.t1 - C.d1 - C.delta := by simp [closestThr, two_real]
    have : dist a a' = 0 := K.sep a a' ha ha' (by rw [hthr] at hlt; linarith)
    exact viaVisited t ht (by rw [dist_congr_of_zero this]; exact hta')
  · have e : b' = b := by
      have : (closestLoop C basic p0 true (closestStarts C p0) [] { q := none, visited := [], nchange := 0 }).q = some b := hb
      rw [this] at hb'; cases hb'; rfl
    rw [e] at hlt
    obtain ⟨a', ha', hba'⟩ := K.snd tb
    rw [← hbt] at hba'
    by_cases hz : dist a a' < 2 * C.t1
    · have := K.sep a a' ha ha' hz
      have h1 : dist b a ≤ ε := by rw [dist_congr_of_zero this]; exact hba'
      have := dist_triangle b a p0
      linarith
    · have t1 := dist_triangle a p0 a'
      have t2 := dist_triangle p0 b a'
      rw [dist_symm p0 b] at t2
      linarith [not_lt.mp hz]

/-! ## completeness of `NextInt` under the contract -/

theorem dist0_eq_dist (p : XP ℝ) : dist0 p = dist p (mk0 zero zero) := by
  rw [dist0_real, dist_real]; simp [mk0, zero_real]

/-- for a kernel that never reports coincidence: every start is visited or pruned by a candidate of a visited start -/
theorem nextLoop_cover (C : Consts ℝ) (basic : XP ℝ → XP ℝ) (conj : ℝ → ℝ) (hc0 : ∀ s, (basic s).c = 0) :
    ∀ (rest pr : List (XP ℝ)) (o : NOut ℝ),
      (∀ p ∈ pr, ∃ t ∈ o.visited, p ∈ candsOf C basic conj t) →
      (∀ t ∈ o.visited, t ∈ (nextLoop C basic conj rest pr o).visited) ∧
      ∀ s ∈ rest, s ∈ (nextLoop C basic conj rest pr o).visited ∨
        ∃ t ∈ (nextLoop C basic conj rest pr o).visited, ∃ p ∈ candsOf C basic conj t, dist p s < nextThr C := by
  intro rest
  induction rest with
  | nil => intro pr o _; simp only [nextLoop]; exact ⟨fun t ht => ht, fun s hs => by cases hs⟩
  | cons s rest ih =>
    intro pr o hpr
    have cont : ∀ (pr' : List (XP ℝ)) (o' : NOut ℝ), o'.visited = o.visited ++ [s] →
        (∀ p ∈ pr', ∃ t ∈ o'.visited, p ∈ candsOf C basic conj t) →
        (∀ t ∈ o.visited, t ∈ (nextLoop C basic conj rest pr' o').visited) ∧
        ∀ s' ∈ s :: rest, s' ∈ (nextLoop C basic conj rest pr' o').visited ∨
          ∃ t ∈ (nextLoop C basic conj rest pr' o').visited, ∃ p ∈ candsOf C basic conj t, dist p s' < nextThr C := by
      intro pr' o' hv hp'
      obtain ⟨a, b⟩ := ih pr' o' hp'
      refine ⟨fun t ht => a t (by rw [hv]; exact List.mem_append_left _ ht), ?_⟩
      intro s' hs'
      rcases List.mem_cons.mp hs' with h | h
      · left; rw [h]; exact a s (by rw [hv]; simp)
      · exact b s' h
    simp only [nextLoop]
    by_cases hsk : skipped pr (nextThr C) s = true
    · rw [if_pos hsk]
      obtain ⟨a, b⟩ := ih pr o hpr
      refine ⟨a, ?_⟩
      intro s' hs'
      rcases List.mem_cons.mp hs' with h | h
      · obtain ⟨qy, hqy, hlt⟩ := (skipped_iff _ _ _).mp hsk
        obtain ⟨t, ht, hp⟩ := hpr qy hqy
        right; rw [h]; exact ⟨t, a t ht, qy, hp, hlt⟩
      · exact b s' h
    · rw [if_neg hsk, isNaN_real]
      simp only [Bool.false_eq_true, if_false]
      have hfix : fixc (mk0 zero zero) (basic s) = basic s := fixc_c0 _ _ (hc0 s)
      have hc : candsOf C basic conj s =
          (if ((basic s).c == 0 && ceq C.delta (mk0 zero zero) (basic s)) then []
           else if ((basic s).c != 0 && ceq C.delta (mk0 zero zero) (basic s)) then
             [conjCand C conj (basic s).c (-1), conjCand C conj (basic s).c 1]
           else [basic s]) := by
        unfold candsOf; simp only [hfix]
      rw [hfix]
      have hcs : (basic s).c = 0 := hc0 s
      by_cases hz : ceq C.delta (mk0 zero zero) (basic s) = true
      · -- the origin class: nothing accepted, nothing pruned
        have h1 : ((basic s).c == 0 && ceq C.delta (mk0 zero zero) (basic s)) = true := by simp [hcs, hz]
        rw [if_pos h1]
        exact cont pr _ rfl (fun p hp => by obtain ⟨t, ht, e⟩ := hpr p hp; exact ⟨t, List.mem_append_left _ ht, e⟩)
      · have hz' : ceq C.delta (mk0 zero zero) (basic s) = false := by simpa using hz
        have h1 : ((basic s).c == 0 && ceq C.delta (mk0 zero zero) (basic s)) = false := by simp [hz']
        have h2 : ((basic s).c != 0 && ceq C.delta (mk0 zero zero) (basic s)) = false := by simp [hz']
        rw [h1, h2] at hc
        simp only [Bool.false_eq_true, if_false] at hc
        rw [h1, h2]
        simp only [Bool.false_eq_true, if_false]
        have hpn : nextPruners C (basic s) (ceq C.delta (mk0 zero zero) (basic s)) = [basic s] := by
          simp [nextPruners, hcs, hz']
        rw [hpn]
        apply cont _ _ (by rw [better_visited])
        intro p hp
        rw [better_visited]
        simp only [List.cons_append, List.nil_append, List.mem_cons] at hp
        rcases hp with h | h
        · exact ⟨s, by simp, by rw [h, hc]; simp⟩
        · obtain ⟨t, ht, e⟩ := hpr p h; exact ⟨t, List.mem_append_left _ ht, e⟩

/-- the eight starts of `NextInt` (table of the current source) cover the L1 annulus `d2 ≤ |p| ≤ 3 d2` by balls of radius `d2` -/
theorem nextStarts_cover (C : Consts ℝ) (a : XP ℝ) (hlo : C.d2 ≤ dist0 a) (hhi : dist0 a ≤ 3 * C.d2) :
    ∃ s ∈ nextStarts C, dist a s ≤ C.d2 := by
  have hm : ∀ i j : Int, (i, j) ∈ [((-1 : Int), (-1 : Int)), (-1, 1), (1, -1), (1, 1), (-2, 0), (0, 2), (2, 0), (0, -2)] →
      mk0 ((i : ℝ) * C.d2) ((j : ℝ) * C.d2) ∈ nextStarts C := by
    intro i j hij
    simp only [nextStarts, offsets, Gen.IntersectC.nextIx, Gen.IntersectC.nextIy, List.zip_cons_cons, List.zip_nil_right,
      List.map_cons, List.map_nil, ofC_real, List.mem_cons, List.not_mem_nil, or_false]
    simp only [List.mem_cons, List.not_mem_nil, or_false, Prod.mk.injEq] at hij
    rcases hij with ⟨rfl, rfl⟩ | ⟨rfl, rfl⟩ | ⟨rfl, rfl⟩ | ⟨rfl, rfl⟩ | ⟨rfl, rfl⟩ | ⟨rfl, rfl⟩ | ⟨rfl, rfl⟩ | ⟨rfl, rfl⟩ <;> simp
  have dist_s : ∀ i j : Int, dist a (mk0 ((i : ℝ) * C.d2) ((j : ℝ) * C.d2)) = |a.x - (i : ℝ) * C.d2| + |a.y - (j : ℝ) * C.d2| := by
    intro i j; rw [dist_real]; rfl
  rw [dist0_real] at hlo hhi
  have hrot := rot_le_l1 a.x a.y
  -- rotated coordinates u = x + y, v = x − y: pick the nearest of {−2 d2, 0, 2 d2} in each
  have pick : ∀ w : ℝ, |w| ≤ 3 * C.d2 → (C.d2 ≤ w ∧ |w - 2 * C.d2| ≤ C.d2) ∨ (w ≤ -C.d2 ∧ |w + 2 * C.d2| ≤ C.d2) ∨ (|w| < C.d2 ∧ |w - 0| ≤ C.d2) := by
    intro w hw
    have := abs_le.mp hw
    by_cases h1 : C.d2 ≤ w
    · left; exact ⟨h1, by rw [abs_le]; constructor <;> linarith [this.2]⟩
    · by_cases h2 : w ≤ -C.d2
      · right; left; exact ⟨h2, by rw [abs_le]; constructor <;> linarith [this.1]⟩
      · right; right
        have : |w| < C.d2 := by rw [abs_lt]; constructor <;> linarith [not_le.mp h1, not_le.mp h2]
        exact ⟨this, by simpa using this.le⟩
  have hu := pick (a.x + a.y) (le_trans hrot.1 hhi)
  have hv := pick (a.x - a.y) (le_trans hrot.2 hhi)
  have fin : ∀ i j : Int, (i, j) ∈ [((-1 : Int), (-1 : Int)), (-1, 1), (1, -1), (1, 1), (-2, 0), (0, 2), (2, 0), (0, -2)] →
      |(a.x + a.y) - ((i : ℝ) + (j : ℝ)) * C.d2| ≤ C.d2 → |(a.x - a.y) - ((i : ℝ) - (j : ℝ)) * C.d2| ≤ C.d2 →
      ∃ s ∈ nextStarts C, dist a s ≤ C.d2 := by
    intro i j hij h1 h2
    refine ⟨_, hm i j hij, ?_⟩
    rw [dist_s]
    apply l1_le_of_rot
    · have e : a.x - (i : ℝ) * C.d2 + (a.y - (j : ℝ) * C.d2) = (a.x + a.y) - ((i : ℝ) + (j : ℝ)) * C.d2 := by ring
      rw [e]; exact h1
    · have e : a.x - (i : ℝ) * C.d2 - (a.y - (j : ℝ) * C.d2) = (a.x - a.y) - ((i : ℝ) - (j : ℝ)) * C.d2 := by ring
      rw [e]; exact h2
  rcases hu with ⟨_, hu⟩ | ⟨_, hu⟩ | ⟨hu0, hu⟩ <;> rcases hv with ⟨_, hv⟩ | ⟨_, hv⟩ | ⟨hv0, hv⟩
  · exact fin 2 0 (by simp) (by push_cast; convert hu using 2; ring) (by push_cast; convert hv using 2; ring)
  · exact fin 0 2 (by simp) (by push_cast; convert hu using 2; ring) (by push_cast; convert hv using 2; ring)
  · exact fin 1 1 (by simp) (by push_cast; convert hu using 2; ring) (by push_cast; convert hv using 2; ring)
  · exact fin 0 (-2) (by simp) (by push_cast; convert hu using 2; ring) (by push_cast; convert hv using 2; ring)
  · exact fin (-2) 0 (by simp) (by push_cast; convert hu using 2; ring) (by push_cast; convert hv using 2; ring)
  · exact fin (-1) (-1) (by simp) (by push_cast; convert hu using 2; ring) (by push_cast; convert hv using 2; ring)
  · exact fin 1 (-1) (by simp) (by push_cast; convert hu using 2; ring) (by push_cast; convert hv using 2; ring)
  · exact fin (-1) 1 (by simp) (by push_cast; convert hu using 2; ring) (by push_cast; convert hv using 2; ring)
  · -- both rotated coordinates are smaller than d2: the point is inside the hole, excluded by `hlo`
    exfalso
    have := l1_le_of_rot (x := a.x) (y := a.y) (d := max |a.x + a.y| |a.x - a.y|) (le_max_left _ _) (le_max_right _ _)
    have hmx : max |a.x + a.y| |a.x - a.y| < C.d2 := max_lt hu0 hv0
    linarith

/-- **`NextInt` returns the next closest intersection** for every kernel satisfying the contract with capture radius `d2`:
    no intersection outside the origin class and within `3 d2` of the origin is closer than the returned point by more than `ε` -/
theorem nextInt_complete' (C : Consts ℝ) (basic : XP ℝ → XP ℝ) (conj : ℝ → ℝ) (big : ℝ) (I : XP ℝ → Prop) (ε : ℝ)
    (hεδ : ε ≤ C.delta) (K : Contract C basic I ε C.d2) :
    ∀ a, I a → C.delta + ε < dist0 a → C.d2 ≤ dist0 a → dist0 a ≤ 3 * C.d2 →
      dist0 (nextInt C basic conj big).q ≤ dist0 a + ε := by
  intro a ha horig hlo hhi
  obtain ⟨inv, _⟩ := nextInt_spec C basic conj big
  obtain ⟨s, hs, hds⟩ := nextStarts_cover C a hlo hhi
  have hcov := (nextLoop_cover C basic conj K.c0 (nextStarts C) [] { q := mk0 big zero, visited := [], nchange := 0, nan := false }
    (fun p hp => by cases hp)).2 s hs
  -- an answer that is ε-close to `a` is a candidate of its start and bounds the result
  have viaCand : ∀ t ∈ (nextInt C basic conj big).visited, ∀ p ∈ candsOf C basic conj t, dist p a ≤ ε →
      dist0 (nextInt C basic conj big).q ≤ dist0 a + ε := by
    intro t ht p hp hpa
    have := inv.min t ht p hp
    rw [dist0_eq_dist p, dist0_eq_dist a] at *
    have tr := dist_triangle p a (mk0 zero zero)
    linarith
  have candOf : ∀ t, dist (basic t) a ≤ ε → basic t ∈ candsOf C basic conj t := by
    intro t hta
    have hfix : fixc (mk0 zero zero) (basic t) = basic t := fixc_c0 _ _ (K.c0 t)
    have hz : ceq C.delta (mk0 zero zero) (basic t) = false := by
      rw [ceq_false_iff, dist_symm, ← dist0_eq_dist]
      have tr := dist_triangle a (basic t) (mk0 zero zero)
      rw [← dist0_eq_dist, ← dist0_eq_dist, dist_symm] at tr
      linarith
    unfold candsOf
    simp only [hfix, hz, K.c0 t]
    simp
  have candsKer : ∀ t, ∀ p ∈ candsOf C basic conj t, p = basic t := by
    intro t p hp
    have hfix : fixc (mk0 zero zero) (basic t) = basic t := fixc_c0 _ _ (K.c0 t)
    unfold candsOf at hp
    simp only [hfix, K.c0 t] at hp
    by_cases hz : ceq C.delta (mk0 zero zero) (basic t) = true
    · simp [hz] at hp
    · simp [hz] at hp; exact hp
  rcases hcov with hv | ⟨t, ht, p, hp, hlt⟩
  · have hq := K.cap a ha s hds
    exact viaCand s hv _ (candOf s hq) hq
  · have hpt := candsKer t p hp
    obtain ⟨a', ha', hta'⟩ := K.snd t
    rw [hpt] at hlt
    have t1 := dist_triangle a s a'
    have t2 := dist_triangle s (basic t) a'
    rw [dist_symm s (basic t)] at t2
    have hthr : nextThr C = 2 * C.t1 - C.d2 - C.delta := by simp [nextThr, two_real]
    have : dist a a' = 0 := K.sep a a' ha ha' (by rw [hthr] at hlt; linarith)
    have hq : dist (basic t) a ≤ ε := by rw [dist_congr_of_zero this]; exact hta'
    exact viaCand t ht _ (candOf t hq) hq

end GeoVerif.IntersectSearch
