import GeoVerif.Model.GridCodes
import GeoVerif.Proofs.F64Div
/-!
# Helper lemmas for the Geohash scale step: `⌊x / (k·2^(−45))⌋ + 2^45` in binary64 and exactly
-/
namespace GeoVerif
open Dy

namespace F64

/-- relation between the exact cell index `n = ⌊z⌋` and the coded one `c = ⌊r⌋`, `r` the correctly rounded `z` -/
def CellRelQ (z r : ℚ) (n c : ℤ) : Prop :=
  ((n:ℚ) ≤ z ∧ z < (n:ℚ) + 1) ∧
  (c = n ∨ (c = n + 1 ∧ r = (n:ℚ) + 1 ∧ (n:ℚ) + 1 - z ≤ max (|z| * (2:ℚ) ^ (-(53:ℤ))) ((2:ℚ) ^ (-(1075:ℤ)))))

def shift45 : F64 := .fin false 1 45

theorem shift45_val : shift45.val = (2:ℚ) ^ (45:ℕ) := by
  unfold shift45; rw [val_fin]; simp

/-- `k / 2^45` is exact in binary64 (`0 < k ≤ 2^53`) -/
theorem eps_spec (k : ℕ) (hk0 : k ≠ 0) (hk : (k:ℤ) ≤ 2 ^ 53) :
    ∃ s m e, (F64.fin false k 0) / shift45 = .fin s m e ∧ m ≠ 0 ∧
      ((F64.fin false k 0) / shift45).val = (k:ℚ) / (2:ℚ) ^ (45:ℕ) := by
  obtain ⟨r, hr, hf⟩ := div_fin false false k 1 0 45 (by norm_num)
  have hkv : (F64.fin false k 0).val = k := by rw [val_fin]; simp
  have hsv : (F64.fin false 1 45).val = (2:ℚ) ^ (45:ℕ) := shift45_val
  rw [hkv, hsv] at hr
  have hz : (k:ℚ) / (2:ℚ) ^ (45:ℕ) = ((k:ℤ):ℚ) * (2:ℚ) ^ (-45:ℤ) := by
    rw [zpow_neg, div_eq_mul_inv]; norm_num
  have hre := hr.eq_of_fits k (-45) (abs_le.mpr ⟨by omega, hk⟩) (by norm_num) hz
  have hkq : (k:ℚ) ≤ 2 ^ 53 := by exact_mod_cast hk
  have hkpos : (0:ℚ) < k := by exact_mod_cast Nat.pos_of_ne_zero hk0
  have hlt : |r| < (2:ℚ) ^ (1024:ℤ) := by
    rw [hre, abs_of_pos (by positivity)]
    have : (k:ℚ) / (2:ℚ) ^ (45:ℕ) ≤ 2 ^ 53 := by
      rw [div_le_iff₀ (by positivity)]
      have : (1:ℚ) ≤ (2:ℚ) ^ 45 := by norm_num
      nlinarith
    have h53 : (2:ℚ) ^ (53:ℕ) < (2:ℚ) ^ (1024:ℤ) := by
      rw [← zpow_natCast]; exact Dy.two_zpow_lt_iff.mpr (by norm_num)
    exact lt_of_le_of_lt this h53
  obtain ⟨hfin, hval⟩ := hf hlt
  obtain ⟨s, m, e, hrep⟩ := exists_fin_of_isFinite _ hfin
  refine ⟨s, m, e, hrep, ?_, by show ((F64.fin false k 0) / (F64.fin false 1 45)).val = _; rw [hval, hre]⟩
  intro hm
  have : ((F64.fin false k 0) / (F64.fin false 1 45)).val = 0 := by
    rw [hrep, hm]; exact val_fin_zero s e
  rw [hval, hre] at this
  have : (0:ℚ) < (k:ℚ) / (2:ℚ) ^ (45:ℕ) := by positivity
  linarith

/-- adding `2^45` to the floor of a finite number of magnitude `≤ 2^52` is exact -/
theorem floor_add_shift (s : Bool) (m : ℕ) (e : ℤ) (hb : |(F64.fin s m e).val| ≤ 2 ^ 52) :
    Dy.floor (F64.floor (.fin s m e) + shift45).toDy = Dy.floor (F64.fin s m e).toDy + 2 ^ 45 := by
  obtain ⟨hf, hv⟩ := floor_val s m e
  set c := Dy.floor (F64.fin s m e).toDy with hc
  obtain ⟨f1, f2⟩ := Dy.floor_spec (F64.fin s m e).toDy
  rw [← hc] at f1 f2
  have hx : (F64.fin s m e).toDy.val = (F64.fin s m e).val := rfl
  rw [hx] at f1 f2
  have hbb := abs_le.mp hb
  have c1 : -(2:ℤ) ^ 52 - 1 < c := by
    have : (-(2:ℚ) ^ 52 - 1) < (c:ℚ) := by linarith
    exact_mod_cast this
  have c2 : c ≤ (2:ℤ) ^ 52 := by
    have : (c:ℚ) ≤ (2:ℚ) ^ 52 := by linarith
    exact_mod_cast this
  obtain ⟨s', m', e', hrep⟩ := exists_fin_of_isFinite _ hf
  obtain ⟨r, hr, hfr⟩ := add_fin_isRN s' false m' 1 e' 45
  rw [← hrep] at hr hfr
  have hsv : (F64.fin false 1 45).val = (2:ℚ) ^ (45:ℕ) := shift45_val
  rw [hv, hsv] at hr
  have hz : (c:ℚ) + (2:ℚ) ^ (45:ℕ) = ((c + 2 ^ 45 : ℤ) : ℚ) * (2:ℚ) ^ (0:ℤ) := by push_cast; norm_num
  have hre := hr.eq_of_fits (c + 2 ^ 45) 0 (abs_le.mpr ⟨by omega, by omega⟩) (by norm_num) hz
  have hlt : |r| < (2:ℚ) ^ (1024:ℤ) := by
    rw [hre]
    have h53 : (2:ℚ) ^ (53:ℕ) < (2:ℚ) ^ (1024:ℤ) := by
      rw [← zpow_natCast]; exact Dy.two_zpow_lt_iff.mpr (by norm_num)
    have c1q : (-(2:ℚ) ^ 52 - 1) < (c:ℚ) := by exact_mod_cast c1
    have c2q : (c:ℚ) ≤ (2:ℚ) ^ 52 := by exact_mod_cast c2
    have e1 : (2:ℚ) ^ 53 = 2 * 2 ^ 52 := by norm_num
    have e2 : (2:ℚ) ^ 52 = 128 * 2 ^ 45 := by norm_num
    have e3 : (1:ℚ) ≤ 2 ^ 45 := by norm_num
    rw [abs_lt]
    generalize (2:ℚ) ^ (1024:ℤ) = B at *
    generalize (2:ℚ) ^ 53 = C at *
    generalize (2:ℚ) ^ 52 = D at *
    generalize (2:ℚ) ^ 45 = E at *
    constructor <;> linarith
  obtain ⟨_, hval⟩ := hfr hlt
  have hval' : (F64.floor (.fin s m e) + shift45).toDy.val = (c:ℚ) + (2:ℚ) ^ (45:ℕ) := by
    show (F64.floor (.fin s m e) + F64.fin false 1 45).val = _
    rw [hval, hre]
  apply Dy.floor_unique
  · rw [hval']; push_cast; exact le_refl _
  · rw [hval']; push_cast; linarith

/-- floor division of integers, in `ℚ` -/
theorem int_ediv_spec (N D : ℤ) (hD : 0 < D) : ((N / D : ℤ) : ℚ) ≤ (N:ℚ) / D ∧ (N:ℚ) / D < ((N / D : ℤ) : ℚ) + 1 := by
  have hDq : (0:ℚ) < D := by exact_mod_cast hD
  have h1 := Int.mul_ediv_add_emod N D
  have h2 := Int.emod_nonneg N hD.ne'
  have h3 := Int.emod_lt_of_pos N hD
  have hN : (N:ℚ) = D * ((N / D : ℤ) : ℚ) + ((N % D : ℤ) : ℚ) := by exact_mod_cast h1.symm
  have h2q : (0:ℚ) ≤ ((N % D : ℤ) : ℚ) := by exact_mod_cast h2
  have h3q : ((N % D : ℤ) : ℚ) < D := by exact_mod_cast h3
  constructor
  · rw [le_div_iff₀ hDq]; nlinarith
  · rw [div_lt_iff₀ hDq]; nlinarith

/-- the exact cell `⌊x·2^45 / d⌋` as computed by `Geohash.scaleExact` -/
def flExact (x : Dy) (d : ℤ) : ℤ :=
  let y : Dy := ⟨x.m, x.e + 45⟩
  if y.e ≥ 0 then (Dy.shl y.m y.e) / d else y.m / (d * (2 : ℤ) ^ (-y.e).toNat)

theorem flExact_spec (x : Dy) (d : ℤ) (hd : 0 < d) :
    ((flExact x d : ℤ) : ℚ) ≤ x.val * (2:ℚ) ^ (45:ℕ) / d ∧ x.val * (2:ℚ) ^ (45:ℕ) / d < ((flExact x d : ℤ) : ℚ) + 1 := by
  unfold flExact
  simp only []
  have hv : x.val * (2:ℚ) ^ (45:ℕ) = (x.m:ℚ) * (2:ℚ) ^ (x.e + 45) := by
    unfold Dy.val; rw [two_zpow_split, ← zpow_natCast]; push_cast; ring
  by_cases h : x.e + 45 ≥ 0
  · rw [if_pos h]
    have := int_ediv_spec (Dy.shl x.m (x.e + 45)) d hd
    rw [shl_cast _ _ h] at this
    rw [hv]; exact this
  · rw [if_neg h]
    set k := (-(x.e + 45)).toNat with hk
    have hkp : (0:ℤ) < 2 ^ k := by positivity
    have := int_ediv_spec x.m (d * 2 ^ k) (Int.mul_pos hd hkp)
    have e : (x.m:ℚ) / ((d * 2 ^ k : ℤ) : ℚ) = (x.m:ℚ) * (2:ℚ) ^ (x.e + 45) / d := by
      have : (2:ℚ) ^ (x.e + 45) = ((2:ℚ) ^ k)⁻¹ := by
        rw [← zpow_natCast, ← zpow_neg, hk, Int.toNat_of_nonneg (by omega)]; congr 1; ring
      rw [this]; push_cast
      have hdq : (d:ℚ) ≠ 0 := by exact_mod_cast hd.ne'
      field_simp
    rw [e] at this
    rw [hv]; exact this

end F64
end GeoVerif
