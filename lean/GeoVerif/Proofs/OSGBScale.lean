import GeoVerif.Proofs.F64Div
import GeoVerif.Proofs.GeohashScale
import GeoVerif.Model.GridCodes
import Mathlib.Data.Rat.Floor
/-!
# The floating part of `OSGB::GridReference` (one coordinate): tile index, in-tile offset, digit indices

All statements are about `Grid.OSGB.scaleCoord`, the definition the driver executes, over the exact binary64 model.
-/
namespace GeoVerif
open Dy

namespace F64

/-- finite, with a given rational value -/
def HasVal (a : F64) (v : ℚ) : Prop := a.isFinite = true ∧ a.val = v

theorem HasVal.fin {a : F64} {v : ℚ} (h : HasVal a v) : ∃ s m e, a = F64.fin s m e ∧ (F64.fin s m e).val = v := by
  obtain ⟨s, m, e, rfl⟩ := exists_fin_of_isFinite a h.1
  exact ⟨s, m, e, rfl, h.2⟩

theorem hasVal_fin (s : Bool) (m : ℕ) (e : ℤ) : HasVal (F64.fin s m e) (F64.fin s m e).val := ⟨rfl, rfl⟩

theorem hasVal_ofInt (n : ℤ) : HasVal (F64.ofInt n) n := by
  refine ⟨rfl, ?_⟩
  unfold F64.ofInt F64.val; rw [toDy_ofDy]; simp [Dy.val]

theorem big_of_le {r : ℚ} (h : |r| ≤ 2 ^ 52) : |r| < (2:ℚ) ^ (1024:ℤ) := by
  have h53 : (2:ℚ) ^ (52:ℕ) < (2:ℚ) ^ (1024:ℤ) := by
    rw [← zpow_natCast]; exact Dy.two_zpow_lt_iff.mpr (by norm_num)
  exact lt_of_le_of_lt h h53

/-- subtraction: correctly rounded -/
theorem hasVal_sub_rn {a b : F64} {va vb : ℚ} (ha : HasVal a va) (hb : HasVal b vb) :
    ∃ r : ℚ, IsRN 53 (-1074) (va - vb) r ∧ (|r| < (2:ℚ) ^ (1024:ℤ) → HasVal (a - b) r) := by
  obtain ⟨sa, ma, ea, rfl, ea'⟩ := ha.fin
  obtain ⟨sb, mb, eb, rfl, eb'⟩ := hb.fin
  obtain ⟨r, hr, hf⟩ := sub_fin_isRN sa sb ma mb ea eb
  rw [ea', eb'] at hr
  exact ⟨r, hr, fun hlt => hf hlt⟩

/-- subtraction whose exact result fits in 53 bits is exact -/
theorem hasVal_sub_exact {a b : F64} {va vb : ℚ} (ha : HasVal a va) (hb : HasVal b vb) (g s : ℤ)
    (hg : |g| ≤ 2 ^ 53) (hs : -1074 ≤ s) (hz : va - vb = (g:ℚ) * (2:ℚ) ^ s) (hsmall : |va - vb| ≤ 2 ^ 52) :
    HasVal (a - b) (va - vb) := by
  obtain ⟨r, hr, hf⟩ := hasVal_sub_rn ha hb
  have e := hr.eq_of_fits g s hg hs hz
  rw [e] at hf
  exact hf (big_of_le hsmall)

theorem hasVal_mul_exact {a b : F64} {va vb : ℚ} (ha : HasVal a va) (hb : HasVal b vb) (g s : ℤ)
    (hg : |g| ≤ 2 ^ 53) (hs : -1074 ≤ s) (hz : va * vb = (g:ℚ) * (2:ℚ) ^ s) (hsmall : |va * vb| ≤ 2 ^ 52) :
    HasVal (a * b) (va * vb) := by
  obtain ⟨sa, ma, ea, rfl, ea'⟩ := ha.fin
  obtain ⟨sb, mb, eb, rfl, eb'⟩ := hb.fin
  obtain ⟨r, hr, hf⟩ := mul_fin_isRN sa sb ma mb ea eb
  rw [ea', eb'] at hr
  have e := hr.eq_of_fits g s hg hs hz
  rw [e] at hf
  exact hf (big_of_le hsmall)

/-- `floor` of a finite value -/
theorem hasVal_floor {a : F64} {v : ℚ} (ha : HasVal a v) (n : ℤ) (h1 : (n:ℚ) ≤ v) (h2 : v < (n:ℚ) + 1) :
    HasVal (F64.floor a) n ∧ Dy.floor (F64.floor a).toDy = n := by
  obtain ⟨s, m, e, rfl, hv⟩ := ha.fin
  obtain ⟨hf, hval⟩ := floor_val s m e
  have hn : Dy.floor (F64.fin s m e).toDy = n := Dy.floor_unique _ n (by show (n:ℚ) ≤ (F64.fin s m e).val; rw [hv]; exact h1)
    (by show (F64.fin s m e).val < _; rw [hv]; exact h2)
  rw [hn] at hval
  exact ⟨⟨hf, hval⟩, by rw [floor_toDy_floor]; exact hn⟩

/-- comparison of finite values -/
theorem lt_of_hasVal {a b : F64} {va vb : ℚ} (ha : HasVal a va) (hb : HasVal b vb) : F64.lt a b = true ↔ va < vb := by
  obtain ⟨sa, ma, ea, rfl, ea'⟩ := ha.fin
  obtain ⟨sb, mb, eb, rfl, eb'⟩ := hb.fin
  show Dy.lt (F64.fin sa ma ea).toDy (F64.fin sb mb eb).toDy = true ↔ _
  rw [Dy.lt_iff]
  show (F64.fin sa ma ea).val < (F64.fin sb mb eb).val ↔ _
  rw [ea', eb']

/-- the value lies on a binary grid at or below the units with a 53-bit numerator: `v = g·2^t`, `|g| < 2^53`, `−1074 ≤ t ≤ 0` -/
def OnGrid (v : ℚ) : Prop := ∃ g t : ℤ, t ≤ 0 ∧ -1074 ≤ t ∧ |g| < 2 ^ 53 ∧ v = (g:ℚ) * (2:ℚ) ^ t

/-- a grid value below an integer `E` stays more than its own rounding error `|v|·2⁻⁵³` away from it -/
theorem grid_gap {v : ℚ} (hv : OnGrid v) (E : ℤ) (h : v < E) : |v| * (2:ℚ) ^ (-(53:ℤ)) < E - v := by
  obtain ⟨g, t, ht, _, hg, rfl⟩ := hv
  have htp := two_zpow_pos t
  have hE : (E:ℚ) = ((E * 2 ^ (-t).toNat : ℤ) : ℚ) * (2:ℚ) ^ t := by
    push_cast
    rw [mul_assoc, ← zpow_natCast, ← two_zpow_split, Int.toNat_of_nonneg (by omega)]
    simp
  set K := E * 2 ^ (-t).toNat with hK
  rw [hE] at h ⊢
  have hKg : g < K := by
    have := lt_of_mul_lt_mul_right h htp.le
    exact_mod_cast this
  have hKg' : (g:ℚ) + 1 ≤ (K:ℚ) := by exact_mod_cast hKg
  have habs : |(g:ℚ) * (2:ℚ) ^ t| = |(g:ℚ)| * (2:ℚ) ^ t := by rw [abs_mul, abs_of_pos htp]
  rw [habs]
  have hg' : |(g:ℚ)| < 2 ^ 53 := by exact_mod_cast hg
  have e53 : (2:ℚ) ^ (53:ℕ) * (2:ℚ) ^ (-(53:ℤ)) = 1 := by
    rw [← zpow_natCast, ← two_zpow_split]; norm_num
  have h53p := two_zpow_pos (-(53:ℤ))
  have hlt : |(g:ℚ)| * (2:ℚ) ^ (-(53:ℤ)) < 1 := by
    have := mul_lt_mul_of_pos_right hg' h53p
    rw [e53] at this; exact this
  have : |(g:ℚ)| * (2:ℚ) ^ t * (2:ℚ) ^ (-(53:ℤ)) < (2:ℚ) ^ t := by
    have := mul_lt_mul_of_pos_right hlt htp
    linarith
  nlinarith

/-- **division by an integer, then `floor`, has no slivers**: for a finite `a` on a binary grid and an integer divisor
`d > 0`, with `n = ⌊v/d⌋` and `|v/d| ≤ 2^52`, the coded index `⌊rnd(a/d)⌋` is `n`; the only exception is the underflow
of the quotient to `−0` (then `n = −1` and the code gives `0`), described by `(n+1) − v/d ≤ 2^(−1075)`. -/
theorem divFloor_nosliver {a : F64} {v : ℚ} (ha : HasVal a v) (hg : OnGrid v) (d : ℕ) (hd : 0 < d) (n : ℤ)
    (hz : |v / d| ≤ 2 ^ 52) (h1 : (n:ℚ) ≤ v / d) (h2 : v / d < (n:ℚ) + 1) :
    (a / F64.fin false d 0).isFinite = true ∧
    (divFloorCoded a (F64.fin false d 0) = n ∨
      (divFloorCoded a (F64.fin false d 0) = n + 1 ∧ (a / F64.fin false d 0).val = (n:ℚ) + 1 ∧
        (n:ℚ) + 1 - v / d ≤ (2:ℚ) ^ (-(1075:ℤ)))) := by
  obtain ⟨s, m, e, rfl, hv⟩ := ha.fin
  have hdv : (F64.fin false d 0).val = d := by rw [val_fin]; simp
  have hdq : (0:ℚ) < d := by exact_mod_cast hd
  have := divFloor_contains s false m d e 0 (by omega) n
  simp only [] at this
  rw [hv, hdv] at this
  obtain ⟨hf, hc⟩ := this hz h1 h2
  refine ⟨hf, ?_⟩
  rcases hc with h | ⟨h, hr, hb⟩
  · exact Or.inl h
  · right
    refine ⟨h, hr, ?_⟩
    have hE : v < (((n + 1) * d : ℤ) : ℚ) := by
      push_cast
      have := (div_lt_iff₀ hdq).mp h2
      linarith
    have gap := grid_gap hg ((n + 1) * d) hE
    push_cast at gap
    have hzd : |v / d| = |v| / d := by rw [abs_div, abs_of_pos hdq]
    have gap2 : |v / d| * (2:ℚ) ^ (-(53:ℤ)) < (n:ℚ) + 1 - v / d := by
      rw [hzd, div_mul_eq_mul_div, div_lt_iff₀ hdq]
      have : ((n:ℚ) + 1 - v / d) * d = ((n:ℚ) + 1) * d - v := by field_simp
      rw [this]; exact gap
    rcases le_max_iff.mp hb with h' | h'
    · exact absurd h' (not_le.mpr gap2)
    · exact h'

end F64

namespace OSGBScale
open F64 Grid Grid.OSGB Gen.Grid

theorem tile_eq : F64.ofInt osgb_tile = F64.fin false 100000 0 := rfl
theorem pow10_eq (k : ℕ) : pow10 k = F64.fin false (10 ^ k) 0 := by
  unfold pow10 F64.ofInt F64.ofDy
  have : ((osgb_base : ℤ) ^ k) = ((10 ^ k : ℕ) : ℤ) := by simp [osgb_base]
  rw [this]
  simp
theorem fl_eq (a b : F64) : fl (a / b) = divFloorCoded a b := rfl

/-- **the 100 km tile index**: `⌊x / tile⌋` is computed exactly, except when the quotient underflows to `−0` -/
theorem tile_floor {x : F64} {v : ℚ} (hx : HasVal x v) (hg : OnGrid v) (hb : |v| ≤ 10 ^ 7) (n : ℤ)
    (h1 : (n:ℚ) ≤ v / 100000) (h2 : v / 100000 < (n:ℚ) + 1) :
    fl (x / F64.ofInt osgb_tile) = n ∨
      (fl (x / F64.ofInt osgb_tile) = n + 1 ∧ (n:ℚ) + 1 - v / 100000 ≤ (2:ℚ) ^ (-(1075:ℤ))) := by
  rw [tile_eq, fl_eq]
  have hz : |v / ((100000:ℕ):ℚ)| ≤ 2 ^ 52 := by
    rw [abs_div, abs_of_pos (by norm_num : (0:ℚ) < ((100000:ℕ):ℚ)), div_le_iff₀ (by norm_num)]
    have : (10:ℚ) ^ 7 ≤ 2 ^ 52 * ((100000:ℕ):ℚ) := by norm_num
    linarith
  obtain ⟨_, hc⟩ := divFloor_nosliver hx hg 100000 (by norm_num) n hz (by push_cast; exact h1) (by push_cast; exact h2)
  rcases hc with h | ⟨h, _, hb'⟩
  · exact Or.inl h
  · exact Or.inr ⟨h, by push_cast at hb'; exact hb'⟩

theorem hasVal_zero : HasVal (0 : F64) 0 := ⟨rfl, val_fin_zero false 0⟩

theorem hasVal_tile_mul (h : ℤ) (hh : |h| ≤ 1000) : HasVal (F64.ofInt osgb_tile * F64.ofInt h) (100000 * (h:ℚ)) := by
  have ht : HasVal (F64.ofInt osgb_tile) (100000:ℚ) := by
    have := hasVal_ofInt osgb_tile
    simpa [osgb_tile] using this
  have hb := abs_le.mp hh
  have := hasVal_mul_exact ht (hasVal_ofInt h) (100000 * h) 0 (by rw [abs_le]; constructor <;> omega) (by norm_num)
    (by push_cast; ring) (by
      have h1 : ((-1000:ℤ):ℚ) ≤ (h:ℚ) := by exact_mod_cast hb.1
      have h2 : (h:ℚ) ≤ ((1000:ℤ):ℚ) := by exact_mod_cast hb.2
      push_cast at h1 h2
      rw [abs_le]; constructor <;> norm_num <;> linarith)
  exact this

/-- **in-tile offset, exact case**: `x − tile·h` is computed without rounding whenever the result is not larger than `|x|`
(every tile except `−1`, and tile `−1` for `x ≤ −50 km`) -/
theorem offset_exact {x : F64} {v : ℚ} (hx : HasVal x v) (hg : OnGrid v) (h : ℤ) (hh : |h| ≤ 1000)
    (t0 : 0 ≤ v - 100000 * (h:ℚ)) (hsm : |v - 100000 * (h:ℚ)| ≤ |v|) (hb : |v| ≤ 10 ^ 7) :
    HasVal (offset x h) (v - 100000 * (h:ℚ)) ∧ OnGrid (v - 100000 * (h:ℚ)) := by
  obtain ⟨g, t, ht, ht', hgb, hv⟩ := hg
  have htp := two_zpow_pos t
  -- the exact difference on the grid of x
  have hE : (100000 * (h:ℚ)) = ((100000 * h * 2 ^ (-t).toNat : ℤ) : ℚ) * (2:ℚ) ^ t := by
    push_cast
    rw [mul_assoc, ← zpow_natCast, ← two_zpow_split, Int.toNat_of_nonneg (by omega)]
    simp
  set K := 100000 * h * 2 ^ (-t).toNat with hK
  have hd : v - 100000 * (h:ℚ) = ((g - K : ℤ) : ℚ) * (2:ℚ) ^ t := by
    rw [hE, hv]; push_cast; ring
  have hgK : |g - K| ≤ |g| := by
    have h1 : |((g - K : ℤ) : ℚ)| * (2:ℚ) ^ t ≤ |(g:ℚ)| * (2:ℚ) ^ t := by
      have a1 : |v - 100000 * (h:ℚ)| = |((g - K : ℤ) : ℚ)| * (2:ℚ) ^ t := by rw [hd, abs_mul, abs_of_pos htp]
      have a2 : |v| = |(g:ℚ)| * (2:ℚ) ^ t := by rw [hv, abs_mul, abs_of_pos htp]
      rw [← a1, ← a2]; exact hsm
    have := le_of_mul_le_mul_right h1 htp
    exact_mod_cast this
  have hsmall : |v - 100000 * (h:ℚ)| ≤ 2 ^ 52 := by
    have : (10:ℚ) ^ 7 ≤ 2 ^ 52 := by norm_num
    linarith
  have hsub := hasVal_sub_exact hx (hasVal_tile_mul h hh) (g - K) t (by omega) ht' hd hsmall
  refine ⟨?_, ⟨g - K, t, ht, ht', by omega, hd⟩⟩
  unfold offset
  simp only []
  have hlt : F64.lt (x - F64.ofInt osgb_tile * F64.ofInt h) 0 = false := by
    rw [Bool.eq_false_iff]
    intro hc
    have := (lt_of_hasVal hsub hasVal_zero).mp hc
    linarith
  rw [hlt]
  exact hsub

/-- **in-tile offset, tile −1 and `−50 km < x < 0`**: `x + 10^5` is one correctly rounded addition; the result lies in
`[5·10^4, 10^5]`, within `2^(−37)` of the exact offset, and is again a grid value -/
theorem offset_rounded {x : F64} {v : ℚ} (hx : HasVal x v) (hv1 : -50000 < v) (hv2 : v < 0) :
    ∃ r : ℚ, IsRN 53 (-1074) (v + 100000) r ∧ HasVal (offset x (-1)) r ∧ 50000 ≤ r ∧ r ≤ 100000 ∧ OnGrid r ∧
      |r - (v + 100000)| ≤ (2:ℚ) ^ (-(37:ℤ)) := by
  have hm := hasVal_tile_mul (-1) (by norm_num)
  obtain ⟨r, hr, hf⟩ := hasVal_sub_rn hx hm
  have ez : v - 100000 * (((-1:ℤ)):ℚ) = v + 100000 := by push_cast; ring
  rw [ez] at hr
  have r1 := hr.int_le 50000 (by norm_num) (by push_cast; linarith)
  have r2 := hr.le_int 100000 (by norm_num) (by push_cast; linarith)
  push_cast at r1 r2
  have hsub := hf (big_of_le (by rw [abs_le]; constructor <;> norm_num <;> linarith))
  have hz0 : v + 100000 ≠ 0 := by linarith
  have habsz : |v + 100000| = v + 100000 := abs_of_pos (by linarith)
  -- error bound: |z| < 2^17
  have herr : |r - (v + 100000)| ≤ (2:ℚ) ^ (-(37:ℤ)) := by
    have := hr.abserr 17 (by rw [habsz]; norm_num; linarith)
    have e : max ((17:ℤ) - (53:ℕ)) (-1074) = -36 := by norm_num
    rw [e] at this
    have e2 : (2:ℚ) ^ (-(36:ℤ)) = 2 * (2:ℚ) ^ (-(37:ℤ)) := by
      rw [show (-(36:ℤ)) = 1 + -(37) by norm_num, two_zpow_split]; norm_num
    rw [e2] at this
    linarith
  -- grid
  have hgrid : OnGrid r := by
    obtain ⟨E, k, h1, h2, h3, _, _⟩ := hr.nz hz0
    rw [habsz] at h1 h2
    have hE17 : E ≤ 17 := by
      have : (2:ℚ) ^ (E - 1) < (2:ℚ) ^ (17:ℤ) := lt_of_le_of_lt h1 (by norm_num; linarith)
      have := two_zpow_lt_iff.mp this; omega
    have hE16 : 16 ≤ E := by
      have : (2:ℚ) ^ (15:ℤ) < (2:ℚ) ^ E := lt_of_le_of_lt (by norm_num; linarith) h2
      have := two_zpow_lt_iff.mp this; omega
    have hmax : max (E - (53:ℕ)) (-1074) = E - 53 := by
      rw [max_eq_left (by push_cast; omega)]; push_cast; ring
    rw [hmax] at h3
    have hkpos : 0 ≤ k := by
      by_contra hc
      have hk : (k:ℚ) ≤ -1 := by exact_mod_cast (by omega : k ≤ -1)
      have := two_zpow_pos (E - 53)
      nlinarith
    rcases (by omega : E = 16 ∨ E = 17) with rfl | rfl
    · -- z < 65536, so r ≤ 65536
      have r3 := hr.le_int 65536 (by norm_num) (by push_cast; norm_num at h2; linarith)
      push_cast at r3
      by_cases heq : r = 65536
      · exact ⟨65536, 0, by norm_num, by norm_num, by norm_num, by rw [heq]; norm_num⟩
      · have hlt : r < 65536 := lt_of_le_of_ne r3 heq
        refine ⟨k, 16 - 53, by norm_num, by norm_num, ?_, h3⟩
        rw [abs_of_nonneg hkpos]
        have e : (2:ℚ) ^ ((16:ℤ) - 53) = ((2:ℚ) ^ (37:ℕ))⁻¹ := by
          rw [show ((16:ℤ) - 53) = -(37:ℤ) by norm_num, zpow_neg]; norm_cast
        rw [h3, e] at hlt
        have : (k:ℚ) < 65536 * (2:ℚ) ^ (37:ℕ) := by
          have hp : (0:ℚ) < (2:ℚ) ^ (37:ℕ) := by positivity
          have := (mul_inv_lt_iff₀ hp).mp hlt
          linarith
        have : (k:ℚ) < ((2 ^ 53 : ℤ) : ℚ) := by push_cast; norm_num at this ⊢; linarith
        exact_mod_cast this
    · refine ⟨k, 17 - 53, by norm_num, by norm_num, ?_, h3⟩
      rw [abs_of_nonneg hkpos]
      have e : (2:ℚ) ^ ((17:ℤ) - 53) = ((2:ℚ) ^ (36:ℕ))⁻¹ := by
        rw [show ((17:ℤ) - 53) = -(36:ℤ) by norm_num, zpow_neg]; norm_cast
      rw [h3, e] at r2
      have : (k:ℚ) ≤ 100000 * (2:ℚ) ^ (36:ℕ) := by
        have hp : (0:ℚ) < (2:ℚ) ^ (36:ℕ) := by positivity
        have := (mul_inv_le_iff₀ hp).mp r2
        linarith
      have : (k:ℚ) < ((2 ^ 53 : ℤ) : ℚ) := by push_cast; norm_num at this ⊢; linarith
      exact_mod_cast this
  refine ⟨r, hr, ?_, r1, r2, hgrid, herr⟩
  unfold offset
  simp only []
  have hlt : F64.lt (x - F64.ofInt osgb_tile * F64.ofInt (-1)) 0 = false := by
    rw [Bool.eq_false_iff]
    intro hc
    have := (lt_of_hasVal hsub hasVal_zero).mp hc
    linarith
  rw [hlt]
  exact hsub

/-- for a non-negative grid value the division step is exact (the underflow class needs a negative dividend) -/
theorem divFloor_nonneg {a : F64} {v : ℚ} (ha : HasVal a v) (hg : OnGrid v) (hv0 : 0 ≤ v) (d : ℕ) (hd : 0 < d) (n : ℤ)
    (hz : |v / d| ≤ 2 ^ 52) (h1 : (n:ℚ) ≤ v / d) (h2 : v / d < (n:ℚ) + 1) :
    (a / F64.fin false d 0).isFinite = true ∧ divFloorCoded a (F64.fin false d 0) = n := by
  obtain ⟨hf, hc⟩ := divFloor_nosliver ha hg d hd n hz h1 h2
  refine ⟨hf, ?_⟩
  rcases hc with h | ⟨_, _, hb⟩
  · exact h
  · exfalso
    have hdq : (0:ℚ) < d := by exact_mod_cast hd
    have hz0 : 0 ≤ v / d := div_nonneg hv0 hdq.le
    have hn0 : 0 ≤ n := by
      have : (-1:ℚ) < (n:ℚ) := by linarith
      have : (-1:ℤ) < n := by exact_mod_cast this
      omega
    have hE : v < (((n + 1) * d : ℤ) : ℚ) := by
      push_cast
      have := (div_lt_iff₀ hdq).mp h2
      linarith
    have gap := grid_gap hg ((n + 1) * d) hE
    push_cast at gap
    have gap2 : (v / d) * (2:ℚ) ^ (-(53:ℤ)) < (n:ℚ) + 1 - v / d := by
      rw [abs_of_nonneg hv0] at gap
      rw [div_mul_eq_mul_div, div_lt_iff₀ hdq]
      have : ((n:ℚ) + 1 - v / d) * d = ((n:ℚ) + 1) * d - v := by field_simp
      rw [this]; exact gap
    have hsmall : (2:ℚ) ^ (-(1075:ℤ)) < (2:ℚ) ^ (-(54:ℤ)) := two_zpow_lt_iff.mpr (by norm_num)
    have e54 : (2:ℚ) ^ (-(54:ℤ)) = (1/2) * (2:ℚ) ^ (-(53:ℤ)) := by
      rw [show (-(54:ℤ)) = -1 + -53 by norm_num, two_zpow_split]; norm_num
    have h53 : (2:ℚ) ^ (-(53:ℤ)) < 1/2 := by
      have : (2:ℚ) ^ (-(53:ℤ)) < (2:ℚ) ^ (-(1:ℤ)) := two_zpow_lt_iff.mpr (by norm_num)
      simpa using this
    have h53p := two_zpow_pos (-(53:ℤ))
    generalize hA : (2:ℚ) ^ (-(53:ℤ)) = A at *
    generalize hB : (2:ℚ) ^ (-(54:ℤ)) = B at *
    generalize hC : (2:ℚ) ^ (-(1075:ℤ)) = C at *
    generalize hZ : v / (d:ℚ) = z at *
    by_cases hhalf : (1:ℚ)/2 ≤ z
    · have : (1/2) * A ≤ z * A := mul_le_mul_of_nonneg_right hhalf h53p.le
      linarith
    · have hn : n = 0 := by
        have : (n:ℚ) < 1 := by linarith [not_le.mp hhalf]
        have : n < 1 := by exact_mod_cast this
        omega
      rw [hn] at hb
      push_cast at hb
      have := not_le.mp hhalf
      linarith

/-- **digits down to 1 m (`p ≤ 5`)**: `⌊xf / 10^(5−p)⌋` is computed exactly -/
theorem digits_coarse {xf : F64} {t : ℚ} (hx : HasVal xf t) (hg : OnGrid t) (t0 : 0 ≤ t) (t1 : t ≤ 100000) (k : ℕ) (hk : k ≤ 5)
    (n : ℤ) (h1 : (n:ℚ) * 10 ^ k ≤ t) (h2 : t < ((n:ℚ) + 1) * 10 ^ k) :
    fl (xf / pow10 k) = n := by
  rw [pow10_eq, fl_eq]
  have hpos : (0:ℚ) < ((10 ^ k : ℕ) : ℚ) := by positivity
  have hge1 : (1:ℚ) ≤ ((10 ^ k : ℕ) : ℚ) := by
    have : 1 ≤ 10 ^ k := Nat.one_le_pow _ _ (by norm_num)
    exact_mod_cast this
  have hz : |t / ((10 ^ k : ℕ) : ℚ)| ≤ 2 ^ 52 := by
    rw [abs_div, abs_of_pos hpos, abs_of_nonneg t0, div_le_iff₀ hpos]
    have : (100000:ℚ) ≤ 2 ^ 52 := by norm_num
    nlinarith
  exact (divFloor_nonneg hx hg t0 (10 ^ k) (by positivity) n hz
    (by rw [le_div_iff₀ hpos]; push_cast; exact h1) (by rw [div_lt_iff₀ hpos]; push_cast; exact h2)).2

/-- **digits beyond 1 m (`p > 5`)**: `⌊xf⌋` is exact, the fractional part `xf − ⌊xf⌋` is exact, and the remaining
`j = p − 5` digits come from one rounded multiplication `frac·10^j` followed by `floor` (relation `CellRelQ`: class F2) -/
theorem digits_fine {xf : F64} {t : ℚ} (hx : HasVal xf t) (hg : OnGrid t) (t0 : 0 ≤ t) (t1 : t ≤ 100000) (j : ℕ) (hj : j ≤ 6)
    (n : ℤ) (h1 : (n:ℚ) ≤ t) (h2 : t < (n:ℚ) + 1) (c : ℤ) (c1 : (c:ℚ) ≤ (t - n) * 10 ^ j) (c2 : (t - n) * 10 ^ j < (c:ℚ) + 1) :
    fl (xf / pow10 0) = n ∧
    CellRelQ ((t - n) * 10 ^ j) ((xf - F64.floor (xf / pow10 0)) * pow10 j).val c (fl ((xf - F64.floor (xf / pow10 0)) * pow10 j)) := by
  have hp0 : pow10 0 = F64.fin false 1 0 := by rw [pow10_eq]; rfl
  have h1v : HasVal (F64.fin false 1 0) 1 := ⟨rfl, by rw [val_fin]; simp⟩
  -- xf / 1 = xf exactly
  obtain ⟨g, tt, ht, ht', hgb, hv⟩ := hg
  have hq : HasVal (xf / F64.fin false 1 0) t := by
    obtain ⟨s, m, e, rfl, hvv⟩ := hx.fin
    obtain ⟨r, hr, hf⟩ := div_fin s false m 1 e 0 (by norm_num)
    rw [hvv, h1v.2, div_one] at hr
    have := hr.eq_of_fits g tt (le_of_lt hgb) ht' hv
    rw [this] at hf
    exact hf (big_of_le (by rw [abs_of_nonneg t0]; have : (100000:ℚ) ≤ 2 ^ 52 := by norm_num
                            linarith))
  obtain ⟨hfl, hfln⟩ := hasVal_floor hq n h1 h2
  rw [hp0]
  refine ⟨hfln, ?_⟩
  -- the fractional part, exact on the same grid
  have htp := two_zpow_pos tt
  have hE : (n:ℚ) = ((n * 2 ^ (-tt).toNat : ℤ) : ℚ) * (2:ℚ) ^ tt := by
    push_cast
    rw [mul_assoc, ← zpow_natCast, ← two_zpow_split, Int.toNat_of_nonneg (by omega)]
    simp
  set K := n * 2 ^ (-tt).toNat with hK
  have hd : t - (n:ℚ) = ((g - K : ℤ) : ℚ) * (2:ℚ) ^ tt := by rw [hE, hv]; push_cast; ring
  have hn0 : (0:ℚ) ≤ (n:ℚ) := by
    have : (-1:ℚ) < (n:ℚ) := by linarith
    have : (-1:ℤ) < n := by exact_mod_cast this
    have : 0 ≤ n := by omega
    exact_mod_cast this
  have hgK : |g - K| ≤ |g| := by
    have a1 : |t - (n:ℚ)| = |((g - K : ℤ) : ℚ)| * (2:ℚ) ^ tt := by rw [hd, abs_mul, abs_of_pos htp]
    have a2 : |t| = |(g:ℚ)| * (2:ℚ) ^ tt := by rw [hv, abs_mul, abs_of_pos htp]
    have : |t - (n:ℚ)| ≤ |t| := by rw [abs_of_nonneg (by linarith), abs_of_nonneg t0]; linarith
    rw [a1, a2] at this
    have := le_of_mul_le_mul_right this htp
    exact_mod_cast this
  have hfrac : HasVal (xf - F64.floor (xf / F64.fin false 1 0)) (t - (n:ℚ)) :=
    hasVal_sub_exact hx hfl (g - K) tt (by omega) ht' hd (by
      rw [abs_of_nonneg (by linarith)]; have : (100000:ℚ) ≤ 2 ^ 52 := by norm_num
      linarith)
  -- one rounded multiplication
  obtain ⟨s, m, e, hrep, hvv⟩ := hfrac.fin
  rw [hrep]
  have hpj : pow10 j = F64.fin false (10 ^ j) 0 := pow10_eq j
  rw [hpj]
  have hbv : (F64.fin false (10 ^ j) 0).val = (10:ℚ) ^ j := by rw [val_fin]; simp
  have hprod : |(F64.fin s m e).val * (F64.fin false (10 ^ j) 0).val| ≤ 2 ^ 52 := by
    rw [hvv, hbv, abs_of_nonneg (mul_nonneg (by linarith) (by positivity))]
    have : (10:ℚ) ^ j ≤ 10 ^ 6 := pow_le_pow_right₀ (by norm_num) hj
    have h6 : (10:ℚ) ^ 6 ≤ 2 ^ 52 := by norm_num
    have hf1 : t - (n:ℚ) ≤ 1 := by linarith
    have hf0 : 0 ≤ t - (n:ℚ) := by linarith
    have hp : (0:ℚ) ≤ (10:ℚ) ^ j := by positivity
    nlinarith
  have := mulFloor_contains s false m (10 ^ j) e 0 hprod
  simp only [] at this
  rw [hvv, hbv] at this
  obtain ⟨⟨f1, f2⟩, hc⟩ := this
  have hn : mulFloorExact (F64.fin s m e) (F64.fin false (10 ^ j) 0) = c := by
    have : ((mulFloorExact (F64.fin s m e) (F64.fin false (10 ^ j) 0) : ℤ) : ℚ) < (c:ℚ) + 1 := by linarith
    have a : mulFloorExact (F64.fin s m e) (F64.fin false (10 ^ j) 0) < c + 1 := by exact_mod_cast this
    have : (c:ℚ) < ((mulFloorExact (F64.fin s m e) (F64.fin false (10 ^ j) 0) : ℤ) : ℚ) + 1 := by linarith
    have b : c < mulFloorExact (F64.fin s m e) (F64.fin false (10 ^ j) 0) + 1 := by exact_mod_cast this
    omega
  rw [hn] at hc
  exact ⟨⟨c1, c2⟩, hc⟩

/-- a binary64 number `±m·2^e` with `m < 2^53`, `−1074 ≤ e ≤ 0` is a grid value (every double of magnitude `< 2^53` that
is not an integer multiple of 2 has such a representation; `F64.ofBits` produces it for `|x| < 2^53`) -/
theorem onGrid_fin (s : Bool) (m : ℕ) (e : ℤ) (hm : m < 2 ^ 53) (he1 : -1074 ≤ e) (he0 : e ≤ 0) : OnGrid (F64.fin s m e).val := by
  refine ⟨if s then -(m:ℤ) else m, e, he0, he1, ?_, ?_⟩
  · cases s <;> simp <;> exact_mod_cast hm
  · rw [val_fin]; cases s <;> simp

/-- how the computed in-tile offset `t'` relates to the exact one `x − 10^5·n`: equal (every tile except `−1`, and tile
`−1` for `x ≤ −50 km`), or — only in tile `−1` for `−50 km < x < 0` — the correctly rounded sum `x + 10^5`
(error `≤ 2^(−37)` m) -/
def OffsetRel (v : ℚ) (n : ℤ) (t' : ℚ) : Prop :=
  (t' = v - 100000 * (n:ℚ) ∧ (n ≠ -1 ∨ v ≤ -50000)) ∨
  (n = -1 ∧ -50000 < v ∧ IsRN 53 (-1074) (v + 100000) t' ∧ |t' - (v + 100000)| ≤ (2:ℚ) ^ (-(37:ℤ)))

/-- the digit indices computed from an offset value `t'` at precision `p` -/
def DigitRel (t' : ℚ) (p : ℕ) (i1 i2 : ℤ) (prodVal : ℚ) : Prop :=
  (p ≤ 5 → i1 = ⌊t' / 10 ^ (5 - p)⌋ ∧ i2 = 0) ∧
  (5 < p → i1 = ⌊t'⌋ ∧ CellRelQ ((t' - ⌊t'⌋) * 10 ^ (p - 5)) prodVal ⌊(t' - ⌊t'⌋) * 10 ^ (p - 5)⌋ i2)

theorem zero_digits : ∀ p < 12, fl ((0:F64) / pow10 (5 - p)) = 0 ∧
    fl (((0:F64) - F64.floor ((0:F64) / pow10 (5 - p))) * pow10 (p - 5)) = 0 := by decide +kernel

theorem scaleCoord_eq (x : F64) (p : ℕ) :
    scaleCoord x p = ⟨(carry (offset x (fl (x / F64.ofInt osgb_tile))) (fl (x / F64.ofInt osgb_tile))).2,
      fl ((carry (offset x (fl (x / F64.ofInt osgb_tile))) (fl (x / F64.ofInt osgb_tile))).1 / pow10 (5 - p)),
      if p > 5 then fl (((carry (offset x (fl (x / F64.ofInt osgb_tile))) (fl (x / F64.ofInt osgb_tile))).1 -
        F64.floor ((carry (offset x (fl (x / F64.ofInt osgb_tile))) (fl (x / F64.ofInt osgb_tile))).1 / pow10 (5 - p))) * pow10 (p - 5)) else 0⟩ := rfl

theorem le_of_hasVal {a b : F64} {va vb : ℚ} (ha : HasVal a va) (hb : HasVal b vb) : F64.le a b = true ↔ va ≤ vb := by
  obtain ⟨sa, ma, ea, rfl, ea'⟩ := ha.fin
  obtain ⟨sb, mb, eb, rfl, eb'⟩ := hb.fin
  show Dy.le (F64.fin sa ma ea).toDy (F64.fin sb mb eb).toDy = true ↔ _
  rw [Dy.le_iff]
  show (F64.fin sa ma ea).val ≤ (F64.fin sb mb eb).val ↔ _
  rw [ea', eb']

theorem hasVal_tile : HasVal (F64.ofInt osgb_tile) (100000:ℚ) := by
  have := hasVal_ofInt osgb_tile
  simpa [osgb_tile] using this

/-- the carry of the repaired code does nothing below the tile size … -/
theorem carry_lt {xf : F64} {t : ℚ} (hx : HasVal xf t) (h : t < 100000) (n : ℤ) : carry xf n = (xf, n) := by
  unfold carry
  have : F64.ge xf (F64.ofInt osgb_tile) = false := by
    rw [Bool.eq_false_iff]
    intro hc
    have := (le_of_hasVal hasVal_tile hx).mp hc
    linarith
  rw [this]; rfl

/-- … and moves an offset equal to the tile size to the start of the next tile -/
theorem carry_ge {xf : F64} {t : ℚ} (hx : HasVal xf t) (h : 100000 ≤ t) (n : ℤ) : carry xf n = (0, n + 1) := by
  unfold carry
  have : F64.ge xf (F64.ofInt osgb_tile) = true := (le_of_hasVal hasVal_tile hx).mpr h
  rw [this]; rfl

/-- all digit indices of a zero offset are zero -/
theorem zero_sc (h : ℤ) (p : ℕ) (hp : p ≤ 11) :
    (⟨h, fl ((0:F64) / pow10 (5 - p)),
      if p > 5 then fl (((0:F64) - F64.floor ((0:F64) / pow10 (5 - p))) * pow10 (p - 5)) else 0⟩ : Sc) = ⟨h, 0, 0⟩ := by
  obtain ⟨z1, z2⟩ := zero_digits p (by omega)
  rw [z1]
  by_cases h5 : p > 5
  · rw [if_pos h5, z2]
  · rw [if_neg h5]

/-- digits from a computed offset -/
theorem digits_of_offset {xf : F64} {t : ℚ} (hx : HasVal xf t) (hg : OnGrid t) (t0 : 0 ≤ t) (t1 : t ≤ 100000) (p : ℕ) (hp : p ≤ 11) :
    DigitRel t p (fl (xf / pow10 (5 - p)))
      (if p > 5 then fl ((xf - F64.floor (xf / pow10 (5 - p))) * pow10 (p - 5)) else 0)
      ((xf - F64.floor (xf / pow10 (5 - p))) * pow10 (p - 5)).val := by
  constructor
  · intro h5
    have hk : (0:ℚ) < (10:ℚ) ^ (5 - p) := by positivity
    refine ⟨?_, by rw [if_neg (by omega)]⟩
    apply digits_coarse hx hg t0 t1 (5 - p) (by omega)
    · have := Int.floor_le (t / 10 ^ (5 - p))
      exact (le_div_iff₀ hk).mp this
    · have := Int.lt_floor_add_one (t / 10 ^ (5 - p))
      exact (div_lt_iff₀ hk).mp this
  · intro h5
    have e0 : 5 - p = 0 := by omega
    rw [e0, if_pos h5]
    obtain ⟨a, b⟩ := digits_fine hx hg t0 t1 (p - 5) (by omega) ⌊t⌋ (Int.floor_le t) (Int.lt_floor_add_one t)
      ⌊(t - ⌊t⌋) * 10 ^ (p - 5)⌋ (Int.floor_le _) (Int.lt_floor_add_one _)
    exact ⟨a, b⟩

/-- **the floating part of `OSGB::GridReference` for one coordinate** (every finite grid value `x`, `|x| ≤ 10^7` m, every
precision `p ≤ 11`), with `n = ⌊x / 10^5⌋` the exact 100 km index:

* either `n = −1` and the code is tile `0`, all digits `0` — the square adjoining the position to the east/north — which
  happens in exactly two circumstances: the quotient `x / 10^5` underflows to `−0` (`−x/10^5 ≤ 2^(−1075)`, a sliver of
  `5·10^(−319)` m), or the sum `x + 10^5` rounds to the tile size `10^5` (`−2^(−37) ≤ x`) and the carry of the repaired code
  (finding F74) moves the point to the start of the next tile (a sliver of at most `2^(−37)` m: class F75);
* or the tile index is exact, the offset `t' < 10^5` is `OffsetRel`, and the digits are `DigitRel` of that offset. -/
theorem scaleCoord_spec_val {x : F64} {v : ℚ} (hx : HasVal x v) (hg : OnGrid v) (p : ℕ) (hp : p ≤ 11)
    (hb : |v| ≤ 10 ^ 7) (n : ℤ) (hn1 : (n:ℚ) ≤ v / 100000) (hn2 : v / 100000 < (n:ℚ) + 1) :
    let sc := scaleCoord x p
    (n = -1 ∧ (-(v / 100000) ≤ (2:ℚ) ^ (-(1075:ℤ)) ∨
        (-(2:ℚ) ^ (-(37:ℤ)) ≤ v ∧ IsRN 53 (-1074) (v + 100000) 100000)) ∧ sc = ⟨0, 0, 0⟩) ∨
    (sc.h = n ∧ ∃ t' : ℚ, OffsetRel v n t' ∧ 0 ≤ t' ∧ t' < 100000 ∧
      ∃ pv : ℚ, DigitRel t' p sc.i1 sc.i2 pv) := by
  intro sc
  have hbb := abs_le.mp hb
  have hnb : |n| ≤ 1000 := by
    have a1 : (-101:ℚ) < (n:ℚ) := by
      have : (-100:ℚ) ≤ v / 100000 := by rw [le_div_iff₀ (by norm_num)]; norm_num at hbb ⊢; linarith
      linarith
    have a2 : (n:ℚ) ≤ 100 := by
      have : v / 100000 ≤ 100 := by rw [div_le_iff₀ (by norm_num)]; norm_num at hbb ⊢; linarith
      linarith
    have a1' : (-101:ℤ) < n := by exact_mod_cast a1
    have a2' : n ≤ (100:ℤ) := by exact_mod_cast a2
    rw [abs_le]; constructor <;> omega
  have ht0 : 0 ≤ v - 100000 * (n:ℚ) := by
    have := (le_div_iff₀ (by norm_num : (0:ℚ) < 100000)).mp hn1
    linarith
  have ht1 : v - 100000 * (n:ℚ) < 100000 := by
    have := (div_lt_iff₀ (by norm_num : (0:ℚ) < 100000)).mp hn2
    linarith
  have hsc : sc = scaleCoord x p := rfl
  rw [scaleCoord_eq] at hsc
  rcases tile_floor hx hg hb n hn1 hn2 with htile | ⟨htile, hU⟩
  · -- regular tile index
    rw [htile] at hsc
    -- offset
    have hoff : ∃ t' : ℚ, OffsetRel v n t' ∧ 0 ≤ t' ∧ t' ≤ 100000 ∧ HasVal (offset x n) t' ∧ OnGrid t' := by
      by_cases hcase : n ≠ -1 ∨ v ≤ -50000
      · have hsm : |v - 100000 * (n:ℚ)| ≤ |v| := by
          rw [abs_of_nonneg ht0]
          rcases hcase with hne | hle
          · rcases (by omega : n ≤ -2 ∨ n ≥ 0) with h2 | h0
            · have : (n:ℚ) ≤ -2 := by exact_mod_cast h2
              rw [abs_of_neg (by linarith)]; linarith
            · have : (0:ℚ) ≤ (n:ℚ) := by exact_mod_cast h0
              rw [abs_of_nonneg (by linarith)]; linarith
          · have hn : (n:ℚ) ≤ -1 := by
              have : (n:ℚ) < 0 := by
                have : v / 100000 < 0 := div_neg_of_neg_of_pos (by linarith) (by norm_num)
                linarith
              have : n < 0 := by exact_mod_cast this
              exact_mod_cast (by omega : n ≤ -1)
            have hnz : n ≤ -1 := by exact_mod_cast hn
            rw [abs_of_neg (by linarith)]
            rcases (by omega : n = -1 ∨ n ≤ -2) with h1 | h2
            · rw [h1]; push_cast; linarith
            · have : (n:ℚ) ≤ -2 := by exact_mod_cast h2
              linarith
        obtain ⟨h1, h2⟩ := offset_exact hx hg n hnb ht0 hsm hb
        exact ⟨_, Or.inl ⟨rfl, hcase⟩, ht0, le_of_lt ht1, h1, h2⟩
      · have hn : n = -1 := by
          by_contra hc; exact hcase (Or.inl hc)
        have hv1 : -50000 < v := by
          by_contra hc; exact hcase (Or.inr (not_lt.mp hc))
        have hv2 : v < 0 := by
          rw [hn] at hn2; push_cast at hn2
          have := (div_lt_iff₀ (by norm_num : (0:ℚ) < 100000)).mp hn2
          linarith
        obtain ⟨r, hr, hval, r1, r2, hgr, herr⟩ := offset_rounded hx hv1 hv2
        rw [hn]
        exact ⟨r, Or.inr ⟨rfl, hv1, hr, herr⟩, by linarith, r2, hval, hgr⟩
    obtain ⟨t', hrel, t0', t1', hval, hgr⟩ := hoff
    by_cases hlt : t' < 100000
    · -- no carry
      right
      rw [carry_lt hval hlt n] at hsc
      have hd := digits_of_offset hval hgr t0' t1' p hp
      refine ⟨by rw [hsc], t', hrel, t0', hlt,
        ((offset x n - (offset x n / pow10 (5 - p)).floor) * pow10 (p - 5)).val, ?_⟩
      rw [hsc]
      exact hd
    · -- the rounded offset is the tile size: carry into the next tile
      left
      have ht : t' = 100000 := le_antisymm t1' (not_lt.mp hlt)
      rw [carry_ge hval (not_lt.mp hlt) n] at hsc
      rcases hrel with ⟨he, _⟩ | ⟨hn, _, hr, herr⟩
      · exfalso; rw [ht] at he; linarith
      · rw [ht] at hr herr
        have hv37 : -(2:ℚ) ^ (-(37:ℤ)) ≤ v := by
          have := (abs_le.mp herr).2
          linarith
        refine ⟨hn, Or.inr ⟨hv37, hr⟩, ?_⟩
        rw [hsc, hn]
        exact zero_sc ((-1:ℤ) + 1) p hp
  · -- the quotient underflowed: coded tile n + 1
    left
    -- n = -1
    have gap := grid_gap hg ((n + 1) * 100000) (by
      push_cast
      have := (div_lt_iff₀ (by norm_num : (0:ℚ) < 100000)).mp hn2
      linarith)
    push_cast at gap
    have hC : (2:ℚ) ^ (-(1075:ℤ)) < (2:ℚ) ^ (-(80:ℤ)) := two_zpow_lt_iff.mpr (by norm_num)
    have h80 : (2:ℚ) ^ (-(80:ℤ)) * 100000 < (2:ℚ) ^ (-(53:ℤ)) * (1/2) := by
      have e : (2:ℚ) ^ (-(80:ℤ)) = (2:ℚ) ^ (-(53:ℤ)) * (2:ℚ) ^ (-(27:ℤ)) := by rw [← two_zpow_split]; norm_num
      rw [e, mul_assoc]
      have hp := two_zpow_pos (-(53:ℤ))
      have : (2:ℚ) ^ (-(27:ℤ)) * 100000 < 1/2 := by
        rw [zpow_neg]; norm_num
      nlinarith
    have h53p := two_zpow_pos (-(53:ℤ))
    have hvsmall : |v| < 1/2 := by
      -- (n+1)·10^5 − v ≤ 10^5·2^-1075 and |v|·2^-53 < (n+1)·10^5 − v
      have h1 : ((n:ℚ) + 1) * 100000 - v ≤ (2:ℚ) ^ (-(1075:ℤ)) * 100000 := by
        have : ((n:ℚ) + 1 - v / 100000) * 100000 = ((n:ℚ) + 1) * 100000 - v := by field_simp
        rw [← this]
        exact mul_le_mul_of_nonneg_right hU (by norm_num)
      generalize (2:ℚ) ^ (-(53:ℤ)) = A at *
      generalize (2:ℚ) ^ (-(80:ℤ)) = B at *
      generalize (2:ℚ) ^ (-(1075:ℤ)) = C at *
      by_contra hc
      have hc' := not_lt.mp hc
      have : (1/2) * A ≤ |v| * A := mul_le_mul_of_nonneg_right hc' h53p.le
      nlinarith
    have hvb := abs_lt.mp hvsmall
    have hnm1 : n = -1 := by
      have a1 : (n:ℚ) < 1 := by
        have : v / 100000 < 1 := by rw [div_lt_iff₀ (by norm_num)]; linarith
        linarith
      have a2 : (-2:ℚ) < (n:ℚ) := by
        have : (-1:ℚ) < v / 100000 := by rw [lt_div_iff₀ (by norm_num)]; linarith
        linarith
      have a1' : n < 1 := by exact_mod_cast a1
      have a2' : (-2:ℤ) < n := by exact_mod_cast a2
      rcases (by omega : n = -1 ∨ n = 0) with h | h
      · exact h
      · exfalso
        rw [h] at hU; push_cast at hU
        have : v / 100000 < 1/2 := by rw [div_lt_iff₀ (by norm_num)]; linarith
        have hC2 : (2:ℚ) ^ (-(1075:ℤ)) < 1/2 := by
          have : (2:ℚ) ^ (-(1075:ℤ)) < (2:ℚ) ^ (-(1:ℤ)) := two_zpow_lt_iff.mpr (by norm_num)
          simpa using this
        linarith
    refine ⟨hnm1, Or.inl (by rw [hnm1] at hU; push_cast at hU; linarith), ?_⟩
    have hv2 : v < 0 := by
      rw [hnm1] at hn2; push_cast at hn2
      have := (div_lt_iff₀ (by norm_num : (0:ℚ) < 100000)).mp hn2
      linarith
    rw [htile, hnm1] at hsc
    -- offset x 0 = 0 (clamped)
    have hoff : offset x ((-1:ℤ) + 1) = 0 := by
      have hm0 := hasVal_tile_mul 0 (by norm_num)
      obtain ⟨g, t, ht, ht', hgb, hvg⟩ := hg
      have hsub := hasVal_sub_exact hx hm0 g t (le_of_lt hgb) ht' (by push_cast; rw [hvg]; ring) (by
        push_cast; rw [mul_zero, sub_zero]
        have : (1:ℚ)/2 ≤ 2 ^ 52 := by norm_num
        linarith [hvsmall])
      unfold offset
      simp only []
      have hlt : F64.lt (x - F64.ofInt osgb_tile * F64.ofInt ((-1:ℤ) + 1)) 0 = true := by
        rw [show ((-1:ℤ) + 1) = 0 by norm_num]
        exact (lt_of_hasVal hsub hasVal_zero).mpr (by push_cast; linarith)
      rw [hlt]; rfl
    rw [hoff, carry_lt hasVal_zero (by norm_num) ((-1:ℤ) + 1)] at hsc
    rw [hsc]
    exact zero_sc ((-1:ℤ) + 1) p hp

theorem scaleCoord_spec (s : Bool) (m : ℕ) (e : ℤ) (hm : m < 2 ^ 53) (he1 : -1074 ≤ e) (he0 : e ≤ 0) (p : ℕ) (hp : p ≤ 11)
    (hb : |(F64.fin s m e).val| ≤ 10 ^ 7) (n : ℤ)
    (hn1 : (n:ℚ) ≤ (F64.fin s m e).val / 100000) (hn2 : (F64.fin s m e).val / 100000 < (n:ℚ) + 1) :
    let x := F64.fin s m e
    let sc := scaleCoord x p
    (n = -1 ∧ (-(x.val / 100000) ≤ (2:ℚ) ^ (-(1075:ℤ)) ∨
        (-(2:ℚ) ^ (-(37:ℤ)) ≤ x.val ∧ IsRN 53 (-1074) (x.val + 100000) 100000)) ∧ sc = ⟨0, 0, 0⟩) ∨
    (sc.h = n ∧ ∃ t' : ℚ, OffsetRel x.val n t' ∧ 0 ≤ t' ∧ t' < 100000 ∧
      ∃ pv : ℚ, DigitRel t' p sc.i1 sc.i2 pv) :=
  scaleCoord_spec_val (hasVal_fin s m e) (onGrid_fin s m e hm he1 he0) p hp hb n hn1 hn2

/-- `x + 10^5` rounds to `10^5` for `−2^(−37) ≤ x < 0` (half an ulp of `10^5`; the tie goes to the even neighbour `10^5`) -/
theorem isRN_wrap (v : ℚ) (h1 : -(2:ℚ) ^ (-(37:ℤ)) ≤ v) (h2 : v < 0) : IsRN 53 (-1074) (v + 100000) 100000 where
  zero := fun hz => by
    exfalso
    have h37 : (2:ℚ) ^ (-(37:ℤ)) < 1 := by
      have : (2:ℚ) ^ (-(37:ℤ)) < (2:ℚ) ^ (0:ℤ) := two_zpow_lt_iff.mpr (by norm_num)
      simpa using this
    linarith
  nz := fun _ => by
    have h37 : (2:ℚ) ^ (-(37:ℤ)) < 1 := by
      have : (2:ℚ) ^ (-(37:ℤ)) < (2:ℚ) ^ (0:ℤ) := two_zpow_lt_iff.mpr (by norm_num)
      simpa using this
    have hpos : 0 < v + 100000 := by linarith
    have e36 : (2:ℚ) ^ (-(36:ℤ)) = 2 * (2:ℚ) ^ (-(37:ℤ)) := by
      rw [show (-(36:ℤ)) = 1 + -(37) by norm_num, two_zpow_split]; norm_num
    have emax : max ((17:ℤ) - (53:ℕ)) (-1074) = -36 := by norm_num
    refine ⟨17, 100000 * 2 ^ 36, ?_, ?_, ?_, ?_, ?_⟩
    · rw [abs_of_pos hpos]; norm_num; linarith
    · rw [abs_of_pos hpos]; norm_num; linarith
    · rw [emax]
      push_cast
      rw [zpow_neg]
      norm_num
    · rw [emax, e36]
      have : (100000:ℚ) - (v + 100000) = -v := by ring
      rw [this, abs_of_pos (by linarith)]
      linarith
    · intro _
      norm_num

/-- **what the repaired code (F74) does for `−2^(−37) ≤ x < 0`** (every precision): whether the quotient `x/10^5` underflows
to `−0` (tile 0 directly, negative offset clamped to 0) or tile `−1` is selected and `x + 10^5` rounds to the tile size
(carry into tile 0), the result is tile `0`, all digit indices `0`: the square `[0, 10^(5−p))` adjoining the position,
which lies at most `2^(−37)` m below its edge — a sliver of the classes F2 (underflow) / F75 (rounded offset) -/
theorem scaleCoord_wrap (s : Bool) (m : ℕ) (e : ℤ) (hm : m < 2 ^ 53) (he1 : -1074 ≤ e) (he0 : e ≤ 0) (p : ℕ) (hp : p ≤ 11)
    (h1 : -(2:ℚ) ^ (-(37:ℤ)) ≤ (F64.fin s m e).val) (h2 : (F64.fin s m e).val < 0) :
    scaleCoord (F64.fin s m e) p = ⟨0, 0, 0⟩ := by
  set v := (F64.fin s m e).val with hv
  have h37 : (2:ℚ) ^ (-(37:ℤ)) < 1 := by
    have : (2:ℚ) ^ (-(37:ℤ)) < (2:ℚ) ^ (0:ℤ) := two_zpow_lt_iff.mpr (by norm_num)
    simpa using this
  have hb : |v| ≤ 10 ^ 7 := by rw [abs_le]; constructor <;> norm_num <;> linarith
  have hn1 : (((-1:ℤ)):ℚ) ≤ v / 100000 := by push_cast; rw [le_div_iff₀ (by norm_num)]; linarith
  have hn2 : v / 100000 < (((-1:ℤ)):ℚ) + 1 := by push_cast; rw [div_lt_iff₀ (by norm_num)]; linarith
  rcases scaleCoord_spec s m e hm he1 he0 p hp hb (-1) hn1 hn2 with ⟨_, _, hsc⟩ | ⟨_, t', hrel, _, hlt, _⟩
  · exact hsc
  · exfalso
    rcases hrel with ⟨_, hc⟩ | ⟨_, _, hr, _⟩
    · rcases hc with hc | hc
      · exact hc rfl
      · linarith
    · have := IsRN.unique (by norm_num) hr (isRN_wrap v h1 h2)
      linarith

end OSGBScale
end GeoVerif
