import GeoVerif.Model.DMS
import GeoVerif.Proofs.TwoSum
import GeoVerif.Proofs.DMS
import GeoVerif.Proofs.DMSDigits
/-!
# DMS: the numeric half of `Decode (Encode x) ≈ x`

About the executable definitions of `Model/DMS.lean` and `FP/Decimal.lean`:

* R1 `fixedUnits_half`      – the one rounding of `printf("%.*f")` is within half a unit;
* R2 `frac_exact`           – `angle − floor(angle)` is exact (`sub_zero_exact` for DEGREE);
* R3 `encodeHead_bound`     – encoder side (`encodeHead_bound_ms`, `encodeHead_bound_deg` are the sharper per-case forms);
* R4 `icur_exact`           – the digit accumulation loop is exact below `2^53`;
* R5 `ofDecExp_isRN`, `ofDec_isRN`, `ofDecIO_isRN` – `strtod` is one correct rounding;
* R6 `evalSlots_bound`      – decoder side, relative error `4·2^-53` (`evalSlots_degree/minute/second`: the three shapes);
* R7 `ofDec_fixedUnits`     – `Utility::val ∘ Utility::str`;
* `add_nzero_exact`, `fixedUnits_int`, `add_carry_exact` – exactness facts for the composition.
-/
namespace GeoVerif.DMSProofs
open GeoVerif GeoVerif.DMS GeoVerif.Gen GeoVerif.Decimal

theorem abs_val_fin (s : Bool) (m : ℕ) (e : ℤ) : |(F64.fin s m e).val| = (m:ℚ) * (2:ℚ) ^ e := by
  rw [← F64.val_abs_fin]; show (F64.fin false m e).val = _; rw [F64.val_fin]; simp

/-- rounding a nonnegative rational `num/den` half-even (the integer kernel of `fixedUnits`) -/
theorem halfEven_half (num den : ℕ) (hd : 0 < den) :
    |(((if 2 * (num % den) < den then num / den else if 2 * (num % den) > den then num / den + 1
        else (if (num / den) % 2 = 0 then num / den else num / den + 1) : ℕ)) : ℚ) - (num:ℚ) / den| ≤ 1 / 2 := by
  have hdq : (0:ℚ) < den := by exact_mod_cast hd
  have h1 := Nat.div_add_mod num den
  have h2 := Nat.mod_lt num hd
  set q := num / den
  set r := num % den
  have hn : (num:ℚ) = den * q + r := by exact_mod_cast h1.symm
  have hdiv : (num:ℚ) / den = q + (r:ℚ) / den := by rw [hn]; field_simp
  rw [hdiv]
  have hr0 : (0:ℚ) ≤ (r:ℚ) / den := by positivity
  split_ifs with a b c
  · have : (2:ℚ) * r < den := by exact_mod_cast a
    have : (r:ℚ) / den < 1 / 2 := by rw [div_lt_iff₀ hdq]; linarith
    rw [abs_le]; constructor <;> linarith
  · have : (den:ℚ) < 2 * r := by exact_mod_cast b
    have h3 : 1 / 2 < (r:ℚ) / den := by rw [lt_div_iff₀ hdq]; linarith
    have h4 : (r:ℚ) / den < 1 := by rw [div_lt_one hdq]; exact_mod_cast h2
    push_cast
    rw [abs_le]; constructor <;> linarith
  · have : 2 * r = den := by omega
    have : (2:ℚ) * r = den := by exact_mod_cast this
    have h3 : (r:ℚ) / den = 1 / 2 := by rw [div_eq_iff hdq.ne']; linarith
    rw [abs_le]; constructor <;> linarith
  · have : 2 * r = den := by omega
    have : (2:ℚ) * r = den := by exact_mod_cast this
    have h3 : (r:ℚ) / den = 1 / 2 := by rw [div_eq_iff hdq.ne']; linarith
    push_cast
    rw [abs_le]; constructor <;> linarith

theorem fixedUnits_half (s : Bool) (m : ℕ) (e : ℤ) (p : ℕ) :
    |((fixedUnits (F64.fin s m e) p : ℕ) : ℚ) - |(F64.fin s m e).val| * 10 ^ p| ≤ 1 / 2 := by
  rw [abs_val_fin]
  unfold fixedUnits
  simp only []
  by_cases he : e ≥ 0
  · rw [if_pos he]
    have : (2:ℚ) ^ e = (2:ℚ) ^ e.toNat := by
      rw [← zpow_natCast, Int.toNat_of_nonneg he]
    rw [this]; push_cast
    rw [sub_self]; norm_num
  · rw [if_neg he]
    have hd : 0 < 2 ^ (-e).toNat := by positivity
    have h := halfEven_half (m * 10 ^ p) (2 ^ (-e).toNat) hd
    have e2 : (m:ℚ) * (2:ℚ) ^ e * 10 ^ p = ((m * 10 ^ p : ℕ) : ℚ) / ((2 ^ (-e).toNat : ℕ) : ℚ) := by
      have e3 : (2:ℚ) ^ e = ((2:ℚ) ^ (-e).toNat)⁻¹ := by
        rw [← zpow_natCast, Int.toNat_of_nonneg (by omega), zpow_neg, inv_inv]
      rw [e3]; push_cast
      field_simp
    rw [e2]; exact h


theorem rep_abs {x : ℚ} (h : Rep x) : Rep |x| := by
  rcases abs_cases x with ⟨e, _⟩ | ⟨e, _⟩ <;> rw [e]
  · exact h
  · exact h.neg

/-- the fractional part of a non-negative binary64 value is a binary64 value -/
theorem rep_fract {y : ℚ} (h : Rep y) (hy : 0 ≤ y) : Rep (y - ⌊y⌋) := by
  obtain ⟨g, c, hg, hc, hx⟩ := h
  have hf0 : 0 ≤ y - ⌊y⌋ := by linarith [Int.floor_le y]
  have hf1 : y - ⌊y⌋ < 1 := by linarith [Int.lt_floor_add_one y]
  by_cases hc0 : 0 ≤ c
  · -- an integer
    have : y = ((g * 2 ^ c.toNat : ℤ) : ℚ) := by
      rw [hx]; push_cast; rw [← zpow_natCast, Int.toNat_of_nonneg hc0]
    rw [this, Int.floor_intCast, sub_self]; exact Rep.zero
  · by_cases hc53 : -53 ≤ c
    · refine Rep.of_grid (c := c) ?_ hc ?_
      · exact OnGrid.sub ⟨g, hx⟩ (OnGrid.coarsen (c := 0) ⟨⌊y⌋, by simp⟩ (by omega))
      · rw [abs_of_nonneg hf0]
        have : (1:ℚ) ≤ (2:ℚ) ^ (c + 53) := by
          have := Dy.two_zpow_le (show (0:ℤ) ≤ c + 53 by omega)
          simpa using this
        linarith
    · -- |y| < 1
      have hgq : |(g:ℚ)| < (2:ℚ) ^ (53:ℤ) := by
        rw [← Int.cast_abs]
        have e : (2:ℚ) ^ (53:ℤ) = ((2 ^ 53 : ℤ) : ℚ) := by norm_num
        rw [e]; exact_mod_cast hg
      have hp := Dy.two_zpow_pos c
      have hlt : y < 1 := by
        have h1 : |y| < (2:ℚ) ^ (53:ℤ) * (2:ℚ) ^ c := by
          rw [hx, abs_mul, abs_of_pos hp]; exact mul_lt_mul_of_pos_right hgq hp
        rw [← Dy.two_zpow_split] at h1
        have h2 : (2:ℚ) ^ (53 + c) ≤ (2:ℚ) ^ (0:ℤ) := Dy.two_zpow_le (by omega)
        rw [zpow_zero] at h2
        rw [abs_of_nonneg hy] at h1; linarith
      have : ⌊y⌋ = 0 := Int.floor_eq_iff.mpr ⟨by simpa using hy, by simpa using hlt⟩
      rw [this]; simp only [Int.cast_zero, sub_zero]
      exact ⟨g, c, hg, hc, hx⟩

/-- **R2** the integer split `angle − floor(angle)` of `DMS::Encode` is exact -/
theorem frac_exact (s : Bool) (m : ℕ) (e : ℤ) (hx : F64.IsRep (F64.fin s m e)) :
    let x := F64.fin s m e
    let a := F64.abs x
    let fl := F64.floor a
    fl.isFinite = true ∧ fl.signbit = false ∧ fl.val = ((⌊|x.val|⌋ : ℤ) : ℚ) ∧
    (F64.sub a fl).isFinite = true ∧ (F64.sub a fl).val = |x.val| - ((⌊|x.val|⌋ : ℤ) : ℚ) ∧
    0 ≤ (F64.sub a fl).val ∧ (F64.sub a fl).val < 1 := by
  intro x a fl
  have ha : a = F64.fin false m e := rfl
  have hav : a.val = |x.val| := F64.val_abs_fin s m e
  have hy0 : 0 ≤ |x.val| := abs_nonneg _
  obtain ⟨hff, hfv⟩ := F64.floor_val false m e
  obtain ⟨f1, f2⟩ := Dy.floor_spec (F64.fin false m e).toDy
  have hv' : (F64.fin false m e).toDy.val = |x.val| := hav
  rw [hv'] at f1 f2
  have hfl : Dy.floor (F64.fin false m e).toDy = ⌊|x.val|⌋ := by
    symm; exact Int.floor_eq_iff.mpr ⟨f1, f2⟩
  have hflv : fl.val = ((⌊|x.val|⌋ : ℤ) : ℚ) := by rw [← hfl]; exact hfv
  have hfnn : 0 ≤ Dy.floor (F64.fin false m e).toDy := by rw [hfl]; exact Int.floor_nonneg.mpr hy0
  have hsign : fl.signbit = false := by
    show (F64.floor (F64.fin false m e)).signbit = false
    unfold F64.floor
    simp only []
    split_ifs with h1 h2
    · rfl
    · rfl
    · unfold F64.ofInt F64.ofDy F64.signbit
      simp only [decide_eq_false_iff_not, not_lt]
      exact hfnn
  have hf0 : 0 ≤ |x.val| - ((⌊|x.val|⌋ : ℤ) : ℚ) := by linarith [Int.floor_le |x.val|]
  have hf1 : |x.val| - ((⌊|x.val|⌋ : ℤ) : ℚ) < 1 := by linarith [Int.lt_floor_add_one |x.val|]
  have hrep : Rep (|x.val| - ((⌊|x.val|⌋ : ℤ) : ℚ)) := rep_fract (rep_abs hx.2) hy0
  obtain ⟨g1, g2, _⟩ := F64.sub_rn a fl rfl hff 0 (by norm_num) (by norm_num) (by
    rw [hav, hflv, abs_of_nonneg hf0]; simpa using hf1.le)
  rw [hav, hflv] at g2
  have hval : (a - fl).val = |x.val| - ((⌊|x.val|⌋ : ℤ) : ℚ) := hrep.rn_eq g2
  refine ⟨hff, hsign, hflv, g1, hval, ?_, ?_⟩
  · show 0 ≤ (a - fl).val; rw [hval]; exact hf0
  · show (a - fl).val < 1; rw [hval]; exact hf1

/-- DEGREE case: `angle − 0` is `angle` -/
theorem sub_zero_exact (s : Bool) (m : ℕ) (e : ℤ) (hx : F64.IsRep (F64.fin s m e))
    (hb : |(F64.fin s m e).val| < (2:ℚ) ^ (1024:ℤ)) :
    (F64.sub (F64.abs (F64.fin s m e)) F64.pzero).isFinite = true ∧
    (F64.sub (F64.abs (F64.fin s m e)) F64.pzero).val = |(F64.fin s m e).val| := by
  have hav : (F64.abs (F64.fin s m e)).val = |(F64.fin s m e).val| := F64.val_abs_fin s m e
  obtain ⟨r, hr, hf⟩ := F64.sub_fin_isRN false false m 0 e 0
  have h0 : (F64.fin false 0 0).val = 0 := F64.val_fin_zero _ _
  rw [h0, sub_zero] at hr
  have e1 : (F64.fin false m e).val = |(F64.fin s m e).val| := hav
  rw [e1] at hr
  have hreq : r = |(F64.fin s m e).val| := (rep_abs hx.2).rn_eq hr
  obtain ⟨h1, h2⟩ := hf (by rw [hreq, abs_abs]; exact hb)
  exact ⟨h1, by rw [← hreq]; exact h2⟩

example : F64.IsRep (F64.fin false 21 (-1)) := ⟨rfl, 21, -1, by norm_num, by norm_num, by rw [F64.val_fin]; simp⟩

/-! ## R3: the encoder side -/

theorem fdm_eq : fdm = F64.fin false 60 0 := rfl
theorem fds_eq : fds = F64.fin false 3600 0 := rfl
theorem fms_eq : fms = F64.fin false 60 0 := rfl
theorem one_eq : F64.ofInt 1 = F64.fin false 1 0 := rfl
theorem mone_eq : F64.ofInt (-1) = F64.fin true 1 0 := rfl

/-- `encodeHead` without the azimuth reduction, as a record of the four fields -/
theorem encodeHead_eq (x : F64) (trailing prec : ℕ) (ind : Flag) (hind : ind ≠ Flag.azi) :
    encodeHead x trailing prec ind =
      ⟨x.signbit, (if trailing = DMSC.compDEGREE then F64.pzero else F64.floor (F64.abs x)),
        fixedUnits (F64.mul (F64.sub (F64.abs x) (if trailing = DMSC.compDEGREE then F64.pzero else F64.floor (F64.abs x)))
          (if trailing = DMSC.compMINUTE then fdm else if trailing = DMSC.compSECOND then fds else F64.ofInt 1))
          (clampPrec trailing prec), clampPrec trailing prec⟩ := by
  unfold encodeHead
  simp only [if_neg hind]

/-- scaling a non-negative finite number by a small positive integer constant: one correct rounding -/
theorem mul_scale (d : F64) (hd : d.isFinite = true) (hd0 : 0 ≤ d.val) (sc : ℕ)
    (hb : d.val * sc ≤ 2 ^ 52) :
    (F64.mul d (F64.fin false sc 0)).isFinite = true ∧
    RN (d.val * sc) (F64.mul d (F64.fin false sc 0)).val ∧
    0 ≤ (F64.mul d (F64.fin false sc 0)).val := by
  obtain ⟨sd, md, ed, rfl⟩ := F64.exists_fin_of_isFinite d hd
  obtain ⟨r, hr, hf⟩ := F64.mul_fin_isRN sd false md sc ed 0
  have hsc : (F64.fin false sc 0).val = sc := by rw [F64.val_fin]; simp
  rw [hsc] at hr
  have hnn : 0 ≤ (F64.fin sd md ed).val * sc := mul_nonneg hd0 (by positivity)
  have hlt : |r| < (2:ℚ) ^ (1024:ℤ) := hr.lt_huge (by rw [abs_of_nonneg hnn]; exact hb)
  obtain ⟨h1, h2⟩ := hf hlt
  have h2' : (F64.mul (F64.fin sd md ed) (F64.fin false sc 0)).val = r := h2
  exact ⟨h1, by rw [h2']; exact hr, by rw [h2']; exact hr.nonneg hnn⟩

/-- `fixedUnits` of a finite non-negative number -/
theorem fixedUnits_half' (fd : F64) (hf : fd.isFinite = true) (h0 : 0 ≤ fd.val) (p : ℕ) :
    |((fixedUnits fd p : ℕ) : ℚ) - fd.val * 10 ^ p| ≤ 1 / 2 := by
  obtain ⟨s, m, e, rfl⟩ := F64.exists_fin_of_isFinite fd hf
  have := fixedUnits_half s m e p
  rwa [abs_of_nonneg h0] at this

/-- the arithmetic of the chain: with `f` the exact fraction, `fd` its rounded scaled value and `N` the rounded count -/
theorem chain_bound {f fd N sc T err : ℚ} (hsc : 0 < sc) (hT : 0 < T)
    (h1 : |N - fd * T| ≤ 1 / 2) (h2 : |fd - f * sc| ≤ err) :
    |N / (sc * T) - f| ≤ (1 / 2) / (sc * T) + err / sc := by
  have hpos : 0 < sc * T := mul_pos hsc hT
  have e : N / (sc * T) - f = ((N - fd * T) + (fd - f * sc) * T) / (sc * T) := by
    field_simp; ring
  rw [e, abs_div, abs_of_pos hpos]
  have h3 : |(N - fd * T) + (fd - f * sc) * T| ≤ 1 / 2 + err * T := by
    refine le_trans (abs_add_le _ _) ?_
    rw [abs_mul, abs_of_pos hT]
    have := mul_le_mul_of_nonneg_right h2 hT.le
    linarith
  have e2 : (1 / 2) / (sc * T) + err / sc = (1 / 2 + err * T) / (sc * T) := by
    field_simp
  rw [e2]
  exact div_le_div_of_nonneg_right h3 hpos.le

/-- the trailing-unit scale of `DMS::Encode`: 1, 60, 3600 -/
def scaleOf (trailing : ℕ) : ℕ :=
  if trailing = DMSC.compMINUTE then 60 else if trailing = DMSC.compSECOND then 3600 else 1

theorem two_m53_pos : (0:ℚ) < (2:ℚ) ^ (-(53:ℤ)) := Dy.two_zpow_pos _

/-- **R3, MINUTE / SECOND** -/
theorem encodeHead_bound_ms (s : Bool) (m : ℕ) (e : ℤ) (hx : F64.IsRep (F64.fin s m e))
    (trailing prec : ℕ) (ht : trailing = 1 ∨ trailing = 2) (ind : Flag) (hind : ind ≠ Flag.azi) :
    let x := F64.fin s m e
    let h := encodeHead x trailing prec ind
    let P := clampPrec trailing prec
    let sc : ℚ := scaleOf trailing
    h.neg = s ∧ h.prec = P ∧
    h.idegree.isFinite = true ∧ h.idegree.signbit = false ∧ h.idegree.val = ((⌊|x.val|⌋ : ℤ) : ℚ) ∧
    |(h.idegree.val + (h.units : ℚ) / (sc * 10 ^ P) - |x.val|)| ≤ (1 / 2) / (sc * 10 ^ P) + (2:ℚ) ^ (-(53:ℤ)) ∧
    (h.units : ℚ) ≤ sc * 10 ^ P := by
  intro x h P sc
  obtain ⟨hff, hsign, hflv, g1, hval, hf0, hf1⟩ := frac_exact s m e hx
  have hsc : (sc = 60 ∧ (if trailing = DMSC.compMINUTE then fdm else if trailing = DMSC.compSECOND then fds else F64.ofInt 1) = F64.fin false 60 0 ∧ scaleOf trailing = 60)
      ∨ (sc = 3600 ∧ (if trailing = DMSC.compMINUTE then fdm else if trailing = DMSC.compSECOND then fds else F64.ofInt 1) = F64.fin false 3600 0 ∧ scaleOf trailing = 3600) := by
    rcases ht with rfl | rfl
    · left; exact ⟨by simp [sc, scaleOf, DMSC.compMINUTE], rfl, rfl⟩
    · right; exact ⟨by simp [sc, scaleOf, DMSC.compMINUTE, DMSC.compSECOND], rfl, rfl⟩
  have htd : ¬ trailing = DMSC.compDEGREE := by rcases ht with rfl | rfl <;> decide
  have hh : h = ⟨s, F64.floor (F64.abs x),
      fixedUnits (F64.mul (F64.sub (F64.abs x) (F64.floor (F64.abs x)))
        (if trailing = DMSC.compMINUTE then fdm else if trailing = DMSC.compSECOND then fds else F64.ofInt 1)) P, P⟩ := by
    show encodeHead x trailing prec ind = _
    rw [encodeHead_eq x trailing prec ind hind]
    simp only [if_neg htd]; rfl
  -- common part for a scale `n`
  have key : ∀ n : ℕ, 1 ≤ n → n ≤ 3600 → sc = n →
      (if trailing = DMSC.compMINUTE then fdm else if trailing = DMSC.compSECOND then fds else F64.ofInt 1) = F64.fin false n 0 →
      |(h.idegree.val + (h.units : ℚ) / (sc * 10 ^ P) - |x.val|)| ≤ (1 / 2) / (sc * 10 ^ P) + (2:ℚ) ^ (-(53:ℤ)) ∧
      (h.units : ℚ) ≤ sc * 10 ^ P := by
    intro n hn1 hn2 hscn hscale
    have hn1q : (1:ℚ) ≤ n := by exact_mod_cast hn1
    have hn2q : (n:ℚ) ≤ 3600 := by exact_mod_cast hn2
    set d := F64.sub (F64.abs x) (F64.floor (F64.abs x)) with hd
    obtain ⟨m1, m2, m3⟩ := mul_scale d g1 hf0 n (by nlinarith)
    set fd := F64.mul d (F64.fin false n 0) with hfd
    have hu : h.units = fixedUnits fd P := by rw [hh, hscale]
    have hid : h.idegree.val = ((⌊|x.val|⌋ : ℤ) : ℚ) := by rw [hh]; exact hflv
    have hN := fixedUnits_half' fd m1 m3 P
    have herr := IsRN.err m2
    have hT : (0:ℚ) < 10 ^ P := by positivity
    have hscpos : (0:ℚ) < sc := by rw [hscn]; linarith
    have herr' : |fd.val - d.val * sc| ≤ max (|d.val * n| * (2:ℚ) ^ (-((53:ℕ):ℤ))) ((2:ℚ) ^ ((-1074:ℤ) - 1)) := by
      rw [hscn]; exact herr
    have hN' : |(h.units : ℚ) - fd.val * 10 ^ P| ≤ 1 / 2 := by rw [hu]; exact hN
    have hcb := chain_bound hscpos hT hN' herr'
    constructor
    · rw [hid]
      have e1 : ((⌊|x.val|⌋ : ℤ) : ℚ) + (h.units : ℚ) / (sc * 10 ^ P) - |x.val| = (h.units : ℚ) / (sc * 10 ^ P) - d.val := by
        rw [hval]; ring
      rw [e1]
      refine le_trans hcb ?_
      have : max (|d.val * n| * (2:ℚ) ^ (-((53:ℕ):ℤ))) ((2:ℚ) ^ ((-1074:ℤ) - 1)) / sc ≤ (2:ℚ) ^ (-(53:ℤ)) := by
        rw [div_le_iff₀ hscpos, hscn]
        apply max_le
        · rw [abs_of_nonneg (mul_nonneg hf0 (by positivity))]
          have h9 : (0:ℚ) ≤ (n:ℚ) * (2:ℚ) ^ (-(53:ℤ)) := mul_nonneg (by positivity) two_m53_pos.le
          have := mul_le_mul_of_nonneg_right hf1.le h9
          push_cast
          linarith
        · have h3 : (2:ℚ) ^ ((-1074:ℤ) - 1) ≤ (2:ℚ) ^ (-(53:ℤ)) := Dy.two_zpow_le (by norm_num)
          have := two_m53_pos
          nlinarith
      linarith
    · -- fd ≤ n, so the count is at most n·10^P
      have hle : fd.val ≤ ((n:ℤ):ℚ) := m2.le_int n (by
        rw [abs_of_nonneg (by positivity)]; have : (n:ℤ) ≤ 3600 := by exact_mod_cast hn2
        omega) (by push_cast; nlinarith)
      push_cast at hle
      have h4 : fd.val * 10 ^ P ≤ n * 10 ^ P := mul_le_mul_of_nonneg_right hle hT.le
      have h5 := (abs_le.mp hN).2
      have h6 : ((fixedUnits fd P : ℕ) : ℚ) < ((n * 10 ^ P + 1 : ℕ) : ℚ) := by push_cast; linarith
      have h7 : fixedUnits fd P < n * 10 ^ P + 1 := by exact_mod_cast h6
      have h8 : fixedUnits fd P ≤ n * 10 ^ P := by omega
      rw [hu, hscn]; exact_mod_cast h8
  refine ⟨by rw [hh], by rw [hh], by rw [hh]; exact hff, by rw [hh]; exact hsign, by rw [hh]; exact hflv, ?_⟩
  rcases hsc with ⟨a, b, _⟩ | ⟨a, b, _⟩
  · exact key 60 (by norm_num) (by norm_num) a b
  · exact key 3600 (by norm_num) (by norm_num) a b

/-- **R3, DEGREE**: no round-off at all, only the half unit of the formatter -/
theorem encodeHead_bound_deg (s : Bool) (m : ℕ) (e : ℤ) (hx : F64.IsRep (F64.fin s m e))
    (hb : |(F64.fin s m e).val| < (2:ℚ) ^ (1024:ℤ))
    (prec : ℕ) (ind : Flag) (hind : ind ≠ Flag.azi) :
    let x := F64.fin s m e
    let h := encodeHead x 0 prec ind
    let P := clampPrec 0 prec
    h.neg = s ∧ h.prec = P ∧
    h.idegree.isFinite = true ∧ h.idegree.signbit = false ∧ h.idegree.val = 0 ∧
    |((h.units : ℚ) / 10 ^ P - |x.val|)| ≤ (1 / 2) / 10 ^ P := by
  intro x h P
  obtain ⟨d1, d2⟩ := sub_zero_exact s m e hx hb
  set d := F64.sub (F64.abs x) F64.pzero with hd
  have hh : h = ⟨s, F64.pzero, fixedUnits (F64.mul d (F64.fin false 1 0)) P, P⟩ := by
    show encodeHead x 0 prec ind = _
    rw [encodeHead_eq x 0 prec ind hind]; rfl
  have hd0 : 0 ≤ d.val := by rw [d2]; exact abs_nonneg _
  -- the product by 1 is exact
  obtain ⟨sd, md, ed, hdfin⟩ := F64.exists_fin_of_isFinite d d1
  obtain ⟨r, hr, hf⟩ := F64.mul_fin_isRN sd false md 1 ed 0
  have h1 : (F64.fin false 1 0).val = 1 := by rw [F64.val_fin]; simp
  rw [h1, mul_one, ← hdfin, d2] at hr
  have hreq : r = |x.val| := (rep_abs hx.2).rn_eq hr
  obtain ⟨m1, m2⟩ := hf (by rw [hreq, abs_abs]; exact hb)
  rw [← hdfin] at m1 m2
  have m2' : (F64.mul d (F64.fin false 1 0)).val = |x.val| := by rw [← hreq]; exact m2
  have hN := fixedUnits_half' (F64.mul d (F64.fin false 1 0)) m1 (by rw [m2']; exact abs_nonneg _) P
  rw [m2'] at hN
  have hT : (0:ℚ) < 10 ^ P := by positivity
  refine ⟨by rw [hh], by rw [hh], by rw [hh]; rfl, by rw [hh]; rfl, by rw [hh]; exact F64.val_fin_zero _ _, ?_⟩
  have hu : h.units = fixedUnits (F64.mul d (F64.fin false 1 0)) P := by rw [hh]
  rw [hu]
  have e1 : ((fixedUnits (F64.mul d (F64.fin false 1 0)) P : ℕ) : ℚ) / 10 ^ P - |x.val|
      = (((fixedUnits (F64.mul d (F64.fin false 1 0)) P : ℕ) : ℚ) - |x.val| * 10 ^ P) / 10 ^ P := by
    field_simp
  rw [e1, abs_div, abs_of_pos hT]
  exact div_le_div_of_nonneg_right hN hT.le

/-- **R3** (all three trailing units): the one rounding of `encodeHead` is within half a unit of the last
printed digit, plus at most `2^-53` of round-off (none for DEGREE, see `encodeHead_bound_deg`) -/
theorem encodeHead_bound (s : Bool) (m : ℕ) (e : ℤ) (hx : F64.IsRep (F64.fin s m e))
    (hb : |(F64.fin s m e).val| < (2:ℚ) ^ (1024:ℤ))
    (trailing prec : ℕ) (ht : trailing = 0 ∨ trailing = 1 ∨ trailing = 2) (ind : Flag) (hind : ind ≠ Flag.azi) :
    let x := F64.fin s m e
    let h := encodeHead x trailing prec ind
    let P := clampPrec trailing prec
    let sc : ℚ := scaleOf trailing
    h.neg = s ∧ h.prec = P ∧
    h.idegree.isFinite = true ∧ h.idegree.signbit = false ∧
    h.idegree.val = (if trailing = 0 then 0 else ((⌊|x.val|⌋ : ℤ) : ℚ)) ∧
    |(h.idegree.val + (h.units : ℚ) / (sc * 10 ^ P) - |x.val|)| ≤ (1 / 2) / (sc * 10 ^ P) + (2:ℚ) ^ (-(53:ℤ)) := by
  intro x h P sc
  rcases ht with rfl | ht
  · obtain ⟨a1, a2, a3, a4, a5, a6⟩ := encodeHead_bound_deg s m e hx hb prec ind hind
    refine ⟨a1, a2, a3, a4, by simpa using a5, ?_⟩
    have hsc : sc = 1 := by simp [sc, scaleOf, DMSC.compMINUTE, DMSC.compSECOND]
    rw [hsc, one_mul, a5, zero_add]
    have := two_m53_pos
    linarith
  · obtain ⟨a1, a2, a3, a4, a5, a6, _⟩ := encodeHead_bound_ms s m e hx trailing prec ht ind hind
    have h0 : trailing ≠ 0 := by rcases ht with rfl | rfl <;> decide
    exact ⟨a1, a2, a3, a4, by rw [if_neg h0]; exact a5, a6⟩

/-! non-vacuity: `10.5` is a binary64 value below the overflow threshold -/
example : F64.IsRep (F64.fin false 21 (-1)) :=
  ⟨rfl, 21, -1, by norm_num, by norm_num, by rw [F64.val_fin]; simp⟩
example : |(F64.fin false 21 (-1)).val| < (2:ℚ) ^ (1024:ℤ) := by
  rw [abs_val_fin]
  have : (2:ℚ) ^ (4:ℤ) < (2:ℚ) ^ (1024:ℤ) := Dy.two_zpow_lt_iff.mpr (by norm_num)
  exact lt_trans (by norm_num) this
example : Flag.lat ≠ Flag.azi := by decide

/-! ## R4: `icur` (the integer accumulation loop of the decoder) is exact below `2^53` -/

theorem le_digitsVal (v : ℕ) (ds : Bytes) : v ≤ digitsVal v ds := by
  induction ds generalizing v with
  | nil => rw [digitsVal_nil]
  | cons c t ih => rw [digitsVal_cons]; exact le_trans (by omega) (ih _)

theorem lt_huge_of_le53 {r : ℚ} (h : |r| ≤ 2 ^ 53) : |r| < (2:ℚ) ^ (1024:ℤ) := by
  have h53 : (2:ℚ) ^ (53:ℕ) < (2:ℚ) ^ (1024:ℤ) := by
    rw [← zpow_natCast]; exact Dy.two_zpow_lt_iff.mpr (by norm_num)
  exact lt_of_le_of_lt h h53

/-- a rounding of a non-negative dyadic with zero-sign `+` has sign bit `+` -/
theorem rnd_signbit_nonneg (d : Dy) (h : 0 ≤ d.m) : (F64.rnd d false).signbit = false := by
  have hr := roundTo_sign_nonneg 53 (-1074) d h
  have hrr : Dy.round53 d = Dy.roundTo 53 (-1074) d := rfl
  have hneg : ¬ (Dy.round53 d).m < 0 := by rw [hrr]; omega
  have hdneg : ¬ d.m < 0 := by omega
  unfold F64.rnd
  simp only []
  split_ifs with h1 h2 h3
  · rfl
  · simp [F64.signbit, hdneg]
  · simp [F64.signbit, hneg]
  · simp [F64.ofDy, F64.signbit, hneg]

theorem toDy_m_nonneg (m : ℕ) (e : ℤ) : 0 ≤ (F64.fin false m e).toDy.m := by
  show (0:ℤ) ≤ (if false = true then -(m:ℤ) else (m:ℤ)); simp

theorem mul_signbit_pos (ma mb : ℕ) (ea eb : ℤ) :
    (F64.mul (F64.fin false ma ea) (F64.fin false mb eb)).signbit = false := by
  show (F64.rnd (Dy.mul (F64.fin false ma ea).toDy (F64.fin false mb eb).toDy) (false != false)).signbit = false
  exact rnd_signbit_nonneg _ (Int.mul_nonneg (toDy_m_nonneg _ _) (toDy_m_nonneg _ _))

theorem add_signbit_pos (ma mb : ℕ) (ea eb : ℤ) :
    (F64.add (F64.fin false ma ea) (F64.fin false mb eb)).signbit = false := by
  show (F64.rnd (Dy.add (F64.fin false ma ea).toDy (F64.fin false mb eb).toDy) (false && false)).signbit = false
  apply rnd_signbit_nonneg
  rw [← Dy.val_nonneg_iff, Dy.val_add]
  exact add_nonneg ((Dy.val_nonneg_iff _).mpr (toDy_m_nonneg _ _)) ((Dy.val_nonneg_iff _).mpr (toDy_m_nonneg _ _))

/-- a finite number with sign bit `+` is `fin false m e` -/
theorem exists_fin_pos (a : F64) (h : a.isFinite = true) (hs : a.signbit = false) : ∃ m e, a = F64.fin false m e := by
  obtain ⟨s, m, e, rfl⟩ := F64.exists_fin_of_isFinite a h
  exact ⟨m, e, by simp [F64.signbit] at hs; rw [hs]⟩

/-- product of two finite numbers whose exact product is an integer `≤ 2^53` in magnitude: exact -/
theorem mul_int_exact (a b : F64) (ha : a.isFinite = true) (hb : b.isFinite = true) (n : ℤ)
    (hn : |n| ≤ 2 ^ 53) (hv : a.val * b.val = n) :
    (F64.mul a b).isFinite = true ∧ (F64.mul a b).val = n := by
  obtain ⟨sa, ma, ea, rfl⟩ := F64.exists_fin_of_isFinite a ha
  obtain ⟨sb, mb, eb, rfl⟩ := F64.exists_fin_of_isFinite b hb
  obtain ⟨r, hr, hf⟩ := F64.mul_fin_isRN sa sb ma mb ea eb
  rw [hv] at hr
  have hreq : r = n := IsRN.unique (by norm_num) hr (IsRN.int53 n hn)
  obtain ⟨h1, h2⟩ := hf (lt_huge_of_le53 (by rw [hreq, ← Int.cast_abs]; exact_mod_cast hn))
  exact ⟨h1, by rw [← hreq]; exact h2⟩

theorem add_int_exact (a b : F64) (ha : a.isFinite = true) (hb : b.isFinite = true) (n : ℤ)
    (hn : |n| ≤ 2 ^ 53) (hv : a.val + b.val = n) :
    (F64.add a b).isFinite = true ∧ (F64.add a b).val = n := by
  obtain ⟨sa, ma, ea, rfl⟩ := F64.exists_fin_of_isFinite a ha
  obtain ⟨sb, mb, eb, rfl⟩ := F64.exists_fin_of_isFinite b hb
  obtain ⟨r, hr, hf⟩ := F64.add_fin_isRN sa sb ma mb ea eb
  rw [hv] at hr
  have hreq : r = n := IsRN.unique (by norm_num) hr (IsRN.int53 n hn)
  obtain ⟨h1, h2⟩ := hf (lt_huge_of_le53 (by rw [hreq, ← Int.cast_abs]; exact_mod_cast hn))
  exact ⟨h1, by rw [← hreq]; exact h2⟩

theorem ofNat_val (n : ℕ) : (F64.ofNat n).val = n := by
  show (F64.fin false n 0).val = n; rw [F64.val_fin]; simp

/-- the accumulation loop on a digit list, started from an exact non-negative integer accumulator -/
theorem icur_fold (ds : Bytes) (hd : AllDigits ds) (v : ℕ) (acc : F64)
    (hf : acc.isFinite = true) (hs : acc.signbit = false) (hv : acc.val = v) (hlt : digitsVal v ds < 2 ^ 53) :
    let r := ds.foldl (fun a c => F64.add (F64.mul (F64.ofNat 10) a) (F64.ofNat (c - 48))) acc
    r.isFinite = true ∧ r.signbit = false ∧ r.val = (digitsVal v ds : ℕ) := by
  induction ds generalizing v acc with
  | nil => intro r; exact ⟨hf, hs, by rw [digitsVal_nil]; exact hv⟩
  | cons c t ih =>
    intro r
    rw [digitsVal_cons] at hlt
    have hle := le_digitsVal (10 * v + (c - 48)) t
    have hdt : AllDigits t := fun x hx => hd x (List.mem_cons_of_mem _ hx)
    obtain ⟨ma, ea, rfl⟩ := exists_fin_pos acc hf hs
    -- 10 * acc
    obtain ⟨p1, p2⟩ := mul_int_exact (F64.ofNat 10) (F64.fin false ma ea) rfl rfl ((10 * v : ℕ) : ℤ)
      (by rw [abs_of_nonneg (by positivity)]; exact_mod_cast (by omega : 10 * v ≤ 2 ^ 53))
      (by rw [ofNat_val, hv]; push_cast; ring)
    have p3 : (F64.mul (F64.ofNat 10) (F64.fin false ma ea)).signbit = false := mul_signbit_pos 10 ma 0 ea
    obtain ⟨mb, eb, hb⟩ := exists_fin_pos _ p1 p3
    -- + digit
    obtain ⟨q1, q2⟩ := add_int_exact (F64.mul (F64.ofNat 10) (F64.fin false ma ea)) (F64.ofNat (c - 48)) p1 rfl
      ((10 * v + (c - 48) : ℕ) : ℤ)
      (by rw [abs_of_nonneg (by positivity)]; exact_mod_cast (by omega : 10 * v + (c - 48) ≤ 2 ^ 53))
      (by rw [p2, ofNat_val]; push_cast; ring)
    have q3 : (F64.add (F64.mul (F64.ofNat 10) (F64.fin false ma ea)) (F64.ofNat (c - 48))).signbit = false := by
      rw [hb]; exact add_signbit_pos mb (c - 48) eb 0
    have := ih hdt (10 * v + (c - 48)) _ q1 q3 (by rw [q2]; push_cast; rfl) hlt
    rw [digitsVal_cons]
    exact this

/-- **R4** -/
theorem icur_exact (n : ℕ) (hn : n < 2 ^ 53) :
    (icur n).isFinite = true ∧ (icur n).val = n ∧ (icur n).signbit = false := by
  have h := icur_fold (digitBytes n) (digitBytes_allDigits n) 0 F64.pzero rfl rfl (F64.val_fin_zero _ _)
    (by rw [digitsVal_digitBytes]; exact hn)
  rw [digitsVal_digitBytes] at h
  exact ⟨h.1, h.2.2, h.2.1⟩

example : (12345678901234 : ℕ) < 2 ^ 53 := by norm_num

/-! ## R5: `ofDecExp` / `ofDec` / `ofDecIO` (= `strtod`) is one correct rounding -/

/-- the tail of `ofDecExp`: a correctly rounded non-negative dyadic turned into an `F64` -/
theorem ofDy_tail (q : Dy) (z : ℚ) (hz : 0 ≤ z) (hq : RN z q.val) :
    let v := if q.m = 0 then F64.pzero else if F64.overflow q then F64.inf false else F64.ofDy q
    |q.val| < (2:ℚ) ^ (1024:ℤ) → v.isFinite = true ∧ v.val = q.val ∧ v.signbit = false := by
  intro v hlt
  have hnn : 0 ≤ q.m := (Dy.val_nonneg_iff q).mp (hq.nonneg hz)
  by_cases h0 : q.m = 0
  · have : v = F64.pzero := by simp only [v, if_pos h0]
    rw [this]
    exact ⟨rfl, by rw [Dy.val_of_m_zero _ h0]; exact F64.val_fin_zero _ _, rfl⟩
  · have : v = F64.ofDy q := by
      simp only [v, if_neg h0, F64.overflow_false_of_lt _ hlt, Bool.false_eq_true, if_false]
    rw [this]
    refine ⟨rfl, by unfold F64.val; rw [F64.toDy_ofDy], ?_⟩
    have : ¬ q.m < 0 := by omega
    simp [F64.ofDy, F64.signbit, this]

/-- **R5 (general exponent)**: when neither early exit of `ofDecExp` fires, the result is the correctly rounded
value of `num·10^e10` (finite unless that rounded value is `≥ 2^1024`) -/
theorem ofDecExp_isRN (num : ℕ) (e10 : ℤ) (hnum : num ≠ 0)
    (h1 : e10 + (ndigits num : ℤ) ≤ 320) (h2 : -340 ≤ e10 + (ndigits num : ℤ)) :
    ∃ r : ℚ, RN ((num:ℚ) * (10:ℚ) ^ e10) r ∧
      (|r| < (2:ℚ) ^ (1024:ℤ) →
        (ofDecExp num e10).isFinite = true ∧ (ofDecExp num e10).val = r ∧ (ofDecExp num e10).signbit = false) := by
  have hz : (0:ℚ) ≤ (num:ℚ) * (10:ℚ) ^ e10 := by positivity
  unfold ofDecExp
  rw [if_neg hnum]
  simp only []
  rw [if_neg (by omega), if_neg (by omega)]
  by_cases he : e10 ≥ 0
  · rw [if_pos he]
    have hv : (⟨(num : ℤ) * (10 : ℤ) ^ e10.toNat, 0⟩ : Dy).val = (num:ℚ) * (10:ℚ) ^ e10 := by
      unfold Dy.val; push_cast
      rw [mul_one, ← zpow_natCast, Int.toNat_of_nonneg he]
    have hq : RN ((num:ℚ) * (10:ℚ) ^ e10) (Dy.round53 ⟨(num : ℤ) * (10 : ℤ) ^ e10.toNat, 0⟩).val := by
      have := roundTo_isRN 53 (-1074) ⟨(num : ℤ) * (10 : ℤ) ^ e10.toNat, 0⟩
      rw [hv] at this; exact this
    exact ⟨_, hq, ofDy_tail _ _ hz hq⟩
  · rw [if_neg he]
    have hy : (⟨(10 : ℤ) ^ (-e10).toNat, 0⟩ : Dy).m ≠ 0 := by
      show (10 : ℤ) ^ (-e10).toNat ≠ 0; positivity
    have hv : (⟨(num : ℤ), 0⟩ : Dy).val / (⟨(10 : ℤ) ^ (-e10).toNat, 0⟩ : Dy).val = (num:ℚ) * (10:ℚ) ^ e10 := by
      unfold Dy.val; push_cast
      rw [mul_one, mul_one, ← zpow_natCast, Int.toNat_of_nonneg (by omega), zpow_neg, div_eq_mul_inv, inv_inv]
    have hq := Dy.divTo_isRN 53 (-1074) ⟨(num : ℤ), 0⟩ ⟨(10 : ℤ) ^ (-e10).toNat, 0⟩ hy
    rw [hv] at hq
    exact ⟨_, hq, ofDy_tail _ _ hz hq⟩

theorem ndigits_le (num k : ℕ) (hk : 0 < k) (h : num < 10 ^ k) : ndigits num ≤ k := by
  unfold ndigits
  split
  · omega
  · exact (Nat.length_toDigits_le_iff (by decide) hk).mpr h

/-- **R5**: `ofDec num k` is the correctly rounded `num / 10^k` -/
theorem ofDec_isRN (num k : ℕ) (hnum : num ≠ 0) (hk : k ≤ 340) (hlt : num < 10 ^ 320) :
    ∃ r : ℚ, RN ((num:ℚ) / 10 ^ k) r ∧
      (|r| < (2:ℚ) ^ (1024:ℤ) →
        (ofDec num k).isFinite = true ∧ (ofDec num k).val = r ∧ (ofDec num k).signbit = false) := by
  have hnd := ndigits_le num 320 (by norm_num) hlt
  obtain ⟨r, hr, hf⟩ := ofDecExp_isRN num (-(k:ℤ)) hnum (by omega) (by omega)
  have e : (num:ℚ) * (10:ℚ) ^ (-(k:ℤ)) = (num:ℚ) / 10 ^ k := by
    rw [zpow_neg, zpow_natCast, div_eq_mul_inv]
  rw [e] at hr
  exact ⟨r, hr, hf⟩

theorem ofDec_zero (k : ℕ) : ofDec 0 k = F64.pzero := rfl

theorem ofDecIO_of_finite (num k : ℕ) (h : (ofDec num k).isFinite = true) : ofDecIO num k = ofDec num k := by
  unfold ofDecIO
  generalize ofDec num k = v at *
  cases v <;> simp_all [F64.isFinite]

/-- `ofDecIO` (`strtod` as used by `operator>>`) for a value `≤ 2^52`: one correct rounding, always finite -/
theorem ofDecIO_isRN (num k : ℕ) (hk : k ≤ 340) (hlt : num < 10 ^ 320) (hb : (num:ℚ) / 10 ^ k ≤ 2 ^ 52) :
    (ofDecIO num k).isFinite = true ∧ RN ((num:ℚ) / 10 ^ k) (ofDecIO num k).val ∧ (ofDecIO num k).signbit = false := by
  by_cases hnum : num = 0
  · subst hnum
    have : ofDecIO 0 k = F64.pzero := rfl
    rw [this]
    refine ⟨rfl, ?_, rfl⟩
    have : (F64.pzero).val = 0 := F64.val_fin_zero _ _
    rw [this]; simpa using Dy.isRN_zero 53 (-1074)
  · obtain ⟨r, hr, hf⟩ := ofDec_isRN num k hnum hk hlt
    have hnn : (0:ℚ) ≤ (num:ℚ) / 10 ^ k := by positivity
    obtain ⟨f1, f2, f3⟩ := hf (hr.lt_huge (by rw [abs_of_nonneg hnn]; exact hb))
    rw [ofDecIO_of_finite num k f1]
    exact ⟨f1, by rw [f2]; exact hr, f3⟩

theorem lt_pow320 {n : ℕ} (h : n < 10 ^ 30) : n < 10 ^ 320 :=
  lt_of_lt_of_le h (pow_le_pow_right₀ (by norm_num) (by norm_num))

example : (105 : ℕ) ≠ 0 ∧ (1 : ℕ) ≤ 340 ∧ (105 : ℕ) < 10 ^ 320 ∧ ((105 : ℕ) : ℚ) / 10 ^ 1 ≤ 2 ^ 52 :=
  ⟨by norm_num, by norm_num, lt_pow320 (by norm_num), by norm_num⟩

/-! ## R6: the decoder side (`evalSlots`) -/

theorem le_fin_iff (a b : F64) (ha : a.isFinite = true) (hb : b.isFinite = true) : F64.le a b = true ↔ a.val ≤ b.val := by
  cases a <;> cases b <;> simp_all [F64.isFinite]
  unfold F64.le; exact Dy.le_iff _ _
theorem lt_fin_iff (a b : F64) (ha : a.isFinite = true) (hb : b.isFinite = true) : F64.lt a b = true ↔ a.val < b.val := by
  cases a <;> cases b <;> simp_all [F64.isFinite]
  unfold F64.lt; exact Dy.lt_iff _ _

theorem ge_false_of_lt (a b : F64) (ha : a.isFinite = true) (hb : b.isFinite = true) (h : a.val < b.val) :
    F64.ge a b = false := by
  have : ¬ (F64.le b a = true) := by rw [le_fin_iff b a hb ha]; linarith
  unfold F64.ge; simpa using this
theorem gt_false_of_le (a b : F64) (ha : a.isFinite = true) (hb : b.isFinite = true) (h : a.val ≤ b.val) :
    F64.gt a b = false := by
  have : ¬ (F64.lt b a = true) := by rw [lt_fin_iff b a hb ha]; linarith
  unfold F64.gt; simpa using this
theorem ne_pzero_iff (a : F64) (ha : a.isFinite = true) : F64.ne a F64.pzero = true ↔ a.val ≠ 0 := by
  have h0 : F64.pzero.val = 0 := F64.val_fin_zero _ _
  have := F64.eq_fin_iff a F64.pzero ha rfl
  rw [h0] at this
  by_cases hv : a.val = 0
  · have h1 := this.mpr hv
    simp [F64.ne, h1, hv]
  · have h1 : F64.eq a F64.pzero = false := by
      by_contra hc; exact hv (this.mp (by simpa using hc))
    simp [F64.ne, h1, hv]

/-- relative error of a rounding in the normal range -/
theorem RN.relerr {z r : ℚ} (h : RN z r) (hz : (2:ℚ) ^ (-(1022:ℤ)) ≤ |z|) : |r - z| ≤ |z| * (2:ℚ) ^ (-(53:ℤ)) := by
  have h0 : z ≠ 0 := by
    rintro rfl; rw [abs_zero] at hz; exact absurd hz (not_le.mpr (Dy.two_zpow_pos _))
  obtain ⟨E, k, h1, h2, h3, h4, _⟩ := h.nz h0
  have hE : -1022 < E := Dy.two_zpow_lt_iff.mp (lt_of_le_of_lt hz h2)
  have hm : max (E - ((53:ℕ):ℤ)) (-1074) = E - 53 := by push_cast; omega
  rw [hm] at h4
  have e1 : (2:ℚ) ^ (E - 53) = 2 * ((2:ℚ) ^ (E - 1) * (2:ℚ) ^ (-(53:ℤ))) := by
    rw [← Dy.two_zpow_split]
    have := F64.two_zpow_succ (E - 1 + -53)
    rw [← this]; congr 1; ring
  rw [e1] at h4
  have := mul_le_mul_of_nonneg_right h1 (Dy.two_zpow_pos (-(53:ℤ))).le
  linarith

theorem div_rn (a : F64) (ha : a.isFinite = true) (sc : ℕ) (hsc : sc ≠ 0) (k : ℤ) (hk : -1074 ≤ k) (hk2 : k < 1024)
    (hab : |a.val / sc| ≤ (2:ℚ) ^ k) :
    (F64.div a (F64.fin false sc 0)).isFinite = true ∧ RN (a.val / sc) (F64.div a (F64.fin false sc 0)).val := by
  obtain ⟨sa, ma, ea, rfl⟩ := F64.exists_fin_of_isFinite a ha
  obtain ⟨r, hr, hf⟩ := F64.div_fin sa false ma sc ea 0 hsc
  have hscv : (F64.fin false sc 0).val = sc := by rw [F64.val_fin]; simp
  rw [hscv] at hr
  have hle := RN.abs_le_zpow hr k hk hab
  have hlt : |r| < (2:ℚ) ^ (1024:ℤ) := lt_of_le_of_lt hle (Dy.two_zpow_lt_iff.mpr hk2)
  obtain ⟨h1, h2⟩ := hf hlt
  have h2' : (F64.div (F64.fin sa ma ea) (F64.fin false sc 0)).val = r := h2
  exact ⟨h1, by rw [h2']; exact hr⟩

/-- the final `sign * v` of `evalSlots` is exact -/
theorem sign_mul (neg : Bool) (v : F64) (hv : v.isFinite = true) (hrep : Rep v.val) (hb : |v.val| < (2:ℚ) ^ (1024:ℤ)) :
    (F64.mul (if neg then F64.ofInt (-1) else F64.ofInt 1) v).isFinite = true ∧
    (F64.mul (if neg then F64.ofInt (-1) else F64.ofInt 1) v).val = (if neg then -v.val else v.val) := by
  obtain ⟨sv, mv, ev, rfl⟩ := F64.exists_fin_of_isFinite v hv
  cases neg
  · simp only [Bool.false_eq_true, if_false]
    rw [one_eq]
    obtain ⟨r, hr, hf⟩ := F64.mul_fin_isRN false sv 1 mv 0 ev
    have h1 : (F64.fin false 1 0).val = 1 := by rw [F64.val_fin]; simp
    rw [h1, one_mul] at hr
    have hreq : r = (F64.fin sv mv ev).val := hrep.rn_eq hr
    obtain ⟨f1, f2⟩ := hf (by rw [hreq]; exact hb)
    exact ⟨f1, by rw [← hreq]; exact f2⟩
  · simp only [if_true]
    rw [mone_eq]
    obtain ⟨r, hr, hf⟩ := F64.mul_fin_isRN true sv 1 mv 0 ev
    have h1 : (F64.fin true 1 0).val = -1 := by rw [F64.val_fin]; simp
    rw [h1, neg_one_mul] at hr
    have hreq : r = -(F64.fin sv mv ev).val := hrep.neg.rn_eq hr
    obtain ⟨f1, f2⟩ := hf (by rw [hreq, abs_neg]; exact hb)
    exact ⟨f1, by rw [← hreq]; exact f2⟩

/-! ### the rational arithmetic of three roundings -/

theorem cube_up {u : ℚ} (h0 : 0 ≤ u) (h1 : u ≤ 1 / 4) : (1 + u) * (1 + u) * (1 + u) ≤ 1 + 4 * u := by nlinarith [mul_nonneg h0 h0, mul_nonneg (mul_nonneg h0 h0) h0]
theorem cube_dn {u : ℚ} (h0 : 0 ≤ u) (h1 : u ≤ 1 / 4) : 1 - 4 * u ≤ (1 - u) * (1 - u) * (1 - u) := by nlinarith [mul_nonneg h0 h0, mul_nonneg (mul_nonneg h0 h0) h0]

/-- `f ≈ W`, `s ≈ B + f`, `q ≈ s / sc`, each within relative `u`: then `q ≈ (B + W)/sc` within `4u` -/
theorem three_roundings {B W f s q u sc : ℚ} (hB : 0 ≤ B) (hW : 0 ≤ W) (hsc : 0 < sc) (h0 : 0 ≤ u) (h1 : u ≤ 1 / 4)
    (e1 : |f - W| ≤ W * u) (e2 : |s - (B + f)| ≤ (B + f) * u) (e3 : |q - s / sc| ≤ s / sc * u) :
    |q - (B + W) / sc| ≤ 4 * u * ((B + W) / sc) := by
  obtain ⟨a1, a2⟩ := abs_le.mp e1
  obtain ⟨b1, b2⟩ := abs_le.mp e2
  obtain ⟨c1, c2⟩ := abs_le.mp e3
  set T := B + W with hT
  have hT0 : 0 ≤ T := add_nonneg hB hW
  have hu1 : 0 ≤ 1 - u := by linarith
  -- B + f between T(1∓u)
  have f1 : B + f ≤ T * (1 + u) := by nlinarith [mul_nonneg hB h0]
  have f2 : T * (1 - u) ≤ B + f := by nlinarith [mul_nonneg hB h0]
  have s1 : s ≤ T * (1 + u) * (1 + u) := by
    have : s ≤ (B + f) * (1 + u) := by linarith
    exact le_trans this (mul_le_mul_of_nonneg_right f1 (by linarith))
  have s2 : T * (1 - u) * (1 - u) ≤ s := by
    have : (B + f) * (1 - u) ≤ s := by linarith
    exact le_trans (mul_le_mul_of_nonneg_right f2 hu1) this
  set X := T / sc with hX
  have hX0 : 0 ≤ X := div_nonneg hT0 hsc.le
  have z1 : s / sc ≤ X * (1 + u) * (1 + u) := by
    have := div_le_div_of_nonneg_right s1 hsc.le
    rw [hX]; calc s / sc ≤ T * (1 + u) * (1 + u) / sc := this
      _ = T / sc * (1 + u) * (1 + u) := by ring
  have z2 : X * (1 - u) * (1 - u) ≤ s / sc := by
    have := div_le_div_of_nonneg_right s2 hsc.le
    rw [hX]; calc T / sc * (1 - u) * (1 - u) = T * (1 - u) * (1 - u) / sc := by ring
      _ ≤ s / sc := this
  have q1 : q ≤ X * ((1 + u) * (1 + u) * (1 + u)) := by
    have : q ≤ s / sc * (1 + u) := by linarith
    have := le_trans this (mul_le_mul_of_nonneg_right z1 (by linarith : (0:ℚ) ≤ 1 + u))
    linarith
  have q2 : X * ((1 - u) * (1 - u) * (1 - u)) ≤ q := by
    have : s / sc * (1 - u) ≤ q := by linarith
    have := le_trans (mul_le_mul_of_nonneg_right z2 hu1) this
    linarith
  have q1' := le_trans q1 (mul_le_mul_of_nonneg_left (cube_up h0 h1) hX0)
  have q2' := le_trans (mul_le_mul_of_nonneg_left (cube_dn h0 h1) hX0) q2
  rw [abs_le]; constructor <;> linarith

/-- the decimal number a `Num` record denotes -/
def numVal (n : Num) : ℚ := if n.point then (n.int : ℚ) + (n.frac : ℚ) / 10 ^ n.nfrac else (n.int : ℚ)

theorem two_m50_le : (2:ℚ) ^ (-(50:ℤ)) ≤ 1 / 10 ^ 15 := by
  rw [zpow_neg, ← one_div]
  apply one_div_le_one_div_of_le (by norm_num)
  norm_num

/-- `fpieces[k]`: one correct rounding of the denoted decimal (exact when there is no point) -/
theorem numF_spec (n : Num) (hI : n.int < 2 ^ 41) (hp : n.point = true → n.nfrac ≤ 15)
    (hF : n.point = true → n.frac < 10 ^ n.nfrac) :
    (numF n).isFinite = true ∧ RN (numVal n) (numF n).val ∧ 0 ≤ numVal n ∧ numVal n < (n.int : ℚ) + 1 ∧
    (numVal n = 0 ∨ (2:ℚ) ^ (-(50:ℤ)) ≤ numVal n) := by
  unfold numF numVal
  by_cases hpt : n.point = true
  · rw [if_pos hpt, if_pos hpt]
    have hp' := hp hpt
    have hF' := hF hpt
    have hT : (0:ℚ) < 10 ^ n.nfrac := by positivity
    have hval : ((n.int * 10 ^ n.nfrac + n.frac : ℕ) : ℚ) / 10 ^ n.nfrac = (n.int : ℚ) + (n.frac : ℚ) / 10 ^ n.nfrac := by
      push_cast; field_simp
    have hFq : (n.frac : ℚ) / 10 ^ n.nfrac < 1 := by
      rw [div_lt_one hT]; exact_mod_cast hF'
    have hFq0 : (0:ℚ) ≤ (n.frac : ℚ) / 10 ^ n.nfrac := by positivity
    have hIq : (n.int : ℚ) + 1 ≤ 2 ^ 41 := by exact_mod_cast hI
    have h10 : (10:ℕ) ^ n.nfrac ≤ 10 ^ 15 := Nat.pow_le_pow_right (by norm_num) hp'
    have hmant : n.int * 10 ^ n.nfrac + n.frac < 10 ^ 30 := by
      have h1 : n.int * 10 ^ n.nfrac + n.frac < (n.int + 1) * 10 ^ n.nfrac := by
        rw [Nat.add_mul, Nat.one_mul]; omega
      have h2 : (n.int + 1) * 10 ^ n.nfrac ≤ 2 ^ 41 * 10 ^ 15 := Nat.mul_le_mul (by omega) h10
      have h3 : (2:ℕ) ^ 41 * 10 ^ 15 < 10 ^ 30 := by norm_num
      omega
    obtain ⟨f1, f2, _⟩ := ofDecIO_isRN (n.int * 10 ^ n.nfrac + n.frac) n.nfrac (by omega) (lt_pow320 hmant)
      (by rw [hval]; have : (2:ℚ) ^ 41 ≤ 2 ^ 52 := by norm_num
          linarith)
    rw [hval] at f2
    refine ⟨f1, f2, by positivity, by linarith, ?_⟩
    by_cases hm : n.int * 10 ^ n.nfrac + n.frac = 0
    · left; rw [← hval, hm]; simp
    · right
      rw [← hval]
      have h1 : (1:ℚ) ≤ ((n.int * 10 ^ n.nfrac + n.frac : ℕ) : ℚ) := by exact_mod_cast Nat.one_le_iff_ne_zero.mpr hm
      have h2 : (10:ℚ) ^ n.nfrac ≤ 10 ^ 15 := by exact_mod_cast h10
      refine le_trans two_m50_le ?_
      rw [div_le_div_iff₀ (by positivity) hT]
      nlinarith
  · have hpt' : n.point = false := by simpa using hpt
    simp only [hpt', Bool.false_eq_true, if_false]
    obtain ⟨i1, i2, _⟩ := icur_exact n.int (by have : (2:ℕ) ^ 41 < 2 ^ 53 := by norm_num
                                               omega)
    refine ⟨i1, ?_, by positivity, by linarith, ?_⟩
    · rw [i2]
      have := IsRN.int53 (n.int : ℤ) (by
        rw [abs_of_nonneg (by positivity)]
        have : (2:ℕ) ^ 41 < 2 ^ 53 := by norm_num
        exact_mod_cast (by omega : n.int ≤ 2 ^ 53))
      exact_mod_cast this
    · by_cases h0 : n.int = 0
      · left; rw [h0]; simp
      · right
        have h1 : (1:ℚ) ≤ (n.int : ℚ) := by exact_mod_cast Nat.one_le_iff_ne_zero.mpr h0
        have h2 : (2:ℚ) ^ (-(50:ℤ)) ≤ (2:ℚ) ^ (0:ℤ) := Dy.two_zpow_le (by norm_num)
        rw [zpow_zero] at h2; linarith

/-- `ipieces[k]`: the integer when there is no point, `+0` otherwise -/
theorem numI_spec (n : Num) (hI : n.int < 2 ^ 41) :
    (numI n).isFinite = true ∧ (numI n).val = (if n.point then 0 else (n.int : ℚ)) := by
  unfold numI
  by_cases hpt : n.point = true
  · rw [if_pos hpt, if_pos hpt]; exact ⟨rfl, F64.val_fin_zero _ _⟩
  · rw [if_neg hpt, if_neg hpt]
    obtain ⟨i1, i2, _⟩ := icur_exact n.int (by have : (2:ℕ) ^ 41 < 2 ^ 53 := by norm_num
                                               omega)
    exact ⟨i1, i2⟩

theorem numF_int (n : Num) (hpt : n.point = false) (hI : n.int < 2 ^ 53) :
    (numF n).isFinite = true ∧ (numF n).val = n.int := by
  unfold numF
  simp only [hpt, Bool.false_eq_true, if_false]
  obtain ⟨i1, i2, _⟩ := icur_exact n.int hI
  exact ⟨i1, i2⟩

/-- the range test `ipieces[k] >= 60 || fpieces[k] > 60` is false for a component below 60 -/
theorem range_ok (n : Num) (hI : n.int < 60) (hp : n.point = true → n.nfrac ≤ 15)
    (hF : n.point = true → n.frac < 10 ^ n.nfrac) :
    (F64.ge (numI n) (F64.fin false 60 0) || F64.gt (numF n) (F64.fin false 60 0)) = false := by
  obtain ⟨a1, a2⟩ := numI_spec n (by omega)
  obtain ⟨b1, b2, b3, b4, _⟩ := numF_spec n (by omega) hp hF
  have h60 : (F64.fin false 60 0).val = 60 := by rw [F64.val_fin]; simp
  have hIq : (n.int : ℚ) + 1 ≤ 60 := by exact_mod_cast hI
  have h1 : F64.ge (numI n) (F64.fin false 60 0) = false := by
    apply ge_false_of_lt _ _ a1 rfl
    rw [a2, h60]; split <;> linarith
  have h2 : F64.gt (numF n) (F64.fin false 60 0) = false := by
    apply gt_false_of_le _ _ b1 rfl
    rw [h60]
    have := b2.le_int 60 (by norm_num) (by push_cast; linarith)
    exact_mod_cast this
  rw [h1, h2]; rfl

theorem u_le_quarter : (2:ℚ) ^ (-(53:ℤ)) ≤ 1 / 4 := by
  have h := Dy.two_zpow_le (show (-(53:ℤ)) ≤ -2 by norm_num)
  have e : (2:ℚ) ^ (-(2:ℤ)) = 1 / 4 := by norm_num
  rw [e] at h; exact h

theorem rep_zpow_le_of_pos {z r : ℚ} (h : RN z r) (k : ℤ) (hk : -1074 ≤ k) (hz : (2:ℚ) ^ k ≤ z) : (2:ℚ) ^ k ≤ r :=
  h.ge_of_ge_rep (rep_two_zpow k hk) hz

/-- the common tail `(b + f) / sc` of the MINUTE and SECOND formulas: `b` an exact integer, `f` one rounding of `W`,
then one rounded sum and one rounded quotient -/
theorem tail_bound (b f : F64) (B : ℕ) (W : ℚ) (sc : ℕ)
    (hbf : b.isFinite = true) (hbv : b.val = B) (hB : (B:ℚ) + 60 ≤ 2 ^ 53)
    (hff : f.isFinite = true) (hfr : RN W f.val) (hW0 : 0 ≤ W) (hW1 : W ≤ 60)
    (hWlow : W = 0 ∨ (2:ℚ) ^ (-(50:ℤ)) ≤ W) (hfne : f.val ≠ 0) (hsc1 : 1 ≤ sc) (hsc2 : sc ≤ 3600) :
    let v := F64.div (F64.add b f) (F64.fin false sc 0)
    v.isFinite = true ∧ Rep v.val ∧ 0 ≤ v.val ∧ v.val ≤ 2 ^ 53 ∧
    |v.val - ((B:ℚ) + W) / sc| ≤ 4 * (2:ℚ) ^ (-(53:ℤ)) * (((B:ℚ) + W) / sc) := by
  intro v
  have hu := two_m53_pos
  have hB0 : (0:ℚ) ≤ B := by positivity
  have hscq1 : (1:ℚ) ≤ sc := by exact_mod_cast hsc1
  have hscq2 : (sc:ℚ) ≤ 3600 := by exact_mod_cast hsc2
  have hscpos : (0:ℚ) < sc := by linarith
  -- W is not 0
  have hWlow' : (2:ℚ) ^ (-(50:ℤ)) ≤ W := by
    rcases hWlow with h | h
    · exact absurd (hfr.zero h) hfne
    · exact h
  have h50 := Dy.two_zpow_pos (-(50:ℤ))
  have hlow : ∀ x : ℚ, (2:ℚ) ^ (-(50:ℤ)) ≤ x → (2:ℚ) ^ (-(1022:ℤ)) ≤ |x| := by
    intro x hx
    rw [abs_of_nonneg (by linarith)]
    exact le_trans (Dy.two_zpow_le (by norm_num)) hx
  -- first rounding
  have f_lo : (2:ℚ) ^ (-(50:ℤ)) ≤ f.val := rep_zpow_le_of_pos hfr _ (by norm_num) hWlow'
  have f_hi : f.val ≤ 60 := by
    have := hfr.le_int 60 (by norm_num) (by push_cast; exact hW1)
    exact_mod_cast this
  have e1 : |f.val - W| ≤ W * (2:ℚ) ^ (-(53:ℤ)) := by
    have := RN.relerr hfr (hlow W hWlow')
    rwa [abs_of_nonneg hW0] at this
  -- the sum
  have hsum0 : 0 ≤ b.val + f.val := by rw [hbv]; linarith
  have e53 : (2:ℚ) ^ (53:ℤ) = 2 ^ 53 := by norm_num
  obtain ⟨s1, s2, s3⟩ := F64.add_rn b f hbf hff 53 (by norm_num) (by norm_num) (by
    rw [abs_of_nonneg hsum0, hbv, e53]; linarith)
  set s := (b + f).val with hs
  rw [hbv] at s2 hsum0
  have s_lo : (2:ℚ) ^ (-(50:ℤ)) ≤ s := rep_zpow_le_of_pos s2 _ (by norm_num) (by linarith)
  have s_hi : s ≤ 2 ^ 53 := by rw [← e53]; exact le_trans (le_abs_self _) s3
  have e2 : |s - ((B:ℚ) + f.val)| ≤ ((B:ℚ) + f.val) * (2:ℚ) ^ (-(53:ℤ)) := by
    have := RN.relerr s2 (hlow _ (by linarith))
    rwa [abs_of_nonneg hsum0] at this
  -- the quotient
  have hz0 : 0 ≤ s / sc := div_nonneg (by linarith) hscpos.le
  have hz_hi : s / sc ≤ 2 ^ 53 := by
    rw [div_le_iff₀ hscpos]; nlinarith
  obtain ⟨q1, q2⟩ := div_rn (b + f) s1 sc (by omega) 53 (by norm_num) (by norm_num) (by
    rw [abs_of_nonneg hz0, e53]; exact hz_hi)
  have hv : v = F64.div (b + f) (F64.fin false sc 0) := rfl
  rw [← hv] at q1 q2
  have hz_lo : (2:ℚ) ^ (-(62:ℤ)) ≤ s / sc := by
    rw [le_div_iff₀ hscpos]
    have e62 : (2:ℚ) ^ (-(50:ℤ)) = (2:ℚ) ^ (-(62:ℤ)) * 4096 := by
      norm_num
    have h62 := Dy.two_zpow_pos (-(62:ℤ))
    nlinarith
  have e3 : |v.val - s / sc| ≤ s / sc * (2:ℚ) ^ (-(53:ℤ)) := by
    have := RN.relerr q2 (by
      rw [abs_of_nonneg hz0]; exact le_trans (Dy.two_zpow_le (by norm_num)) hz_lo)
    rwa [abs_of_nonneg hz0] at this
  have v0 : 0 ≤ v.val := q2.nonneg hz0
  have v1 : v.val ≤ 2 ^ 53 := by
    have := q2.le_int (2 ^ 53) (by norm_num) (by push_cast; exact hz_hi)
    exact_mod_cast this
  exact ⟨q1, q2.rep, v0, v1, three_roundings hB0 hW0 hscpos hu.le u_le_quarter e1 e2 e3⟩

theorem evalSlots_ok (neg : Bool) (sl : Slots)
    (h1 : (F64.ge (numI sl.m) fdm || F64.gt (numF sl.m) fdm) = false)
    (h2 : (F64.ge (numI sl.s) fms || F64.gt (numF sl.s) fms) = false) :
    evalSlots neg sl = .ok (F64.mul (if neg then F64.ofInt (-1) else F64.ofInt 1)
      (if F64.ne (numF sl.s) F64.pzero then (fms * (fdm * numF sl.d + numF sl.m) + numF sl.s) / fds
       else if F64.ne (numF sl.m) F64.pzero then (fdm * numF sl.d + numF sl.m) / fdm
       else numF sl.d)) := by
  unfold evalSlots
  simp only [h1, h2, Bool.false_eq_true, if_false]

theorem rn_zero_iff {W r : ℚ} (h : RN W r) (hW : W = 0 ∨ (2:ℚ) ^ (-(50:ℤ)) ≤ W) : r = 0 ↔ W = 0 := by
  constructor
  · intro hr
    rcases hW with h0 | h1
    · exact h0
    · have := rep_zpow_le_of_pos h _ (by norm_num) h1
      have := Dy.two_zpow_pos (-(50:ℤ))
      linarith
  · exact h.zero

theorem numVal_of_nopoint (n : Num) (h : n.point = false) : numVal n = n.int := by
  unfold numVal; simp [h]

/-- hypotheses on one slot: a decimal with at most 15 fraction digits -/
def NumOK (n : Num) : Prop := n.point = true → n.nfrac ≤ 15 ∧ n.frac < 10 ^ n.nfrac

/-- **R6** the numeric stage of `DMS::Decode`.  For slots with degrees `< 2^41`, minutes and seconds `< 60`,
at most 15 fraction digits, and a decimal point only in the last non-zero component, `evalSlots` succeeds and
returns a binary64 value within relative error `4·2^-53` of the exact sexagesimal value
`V = d + m/60 + s/3600` (three roundings at most: `strtod`, one sum, one quotient). -/
theorem evalSlots_bound (neg : Bool) (sl : Slots)
    (hD : sl.d.int < 2 ^ 41) (hM : sl.m.int < 60) (hS : sl.s.int < 60)
    (hd : NumOK sl.d) (hm : NumOK sl.m) (hs : NumOK sl.s)
    (hlast_s : numVal sl.s ≠ 0 → sl.d.point = false ∧ sl.m.point = false)
    (hlast_m : numVal sl.m ≠ 0 → sl.d.point = false) :
    let V : ℚ := numVal sl.d + numVal sl.m / 60 + numVal sl.s / 3600
    ∃ v : F64, evalSlots neg sl = .ok v ∧ F64.IsRep v ∧ |v.val| ≤ 2 ^ 53 ∧
      |v.val - (if neg then -V else V)| ≤ 4 * (2:ℚ) ^ (-(53:ℤ)) * V := by
  intro V
  obtain ⟨d1, d2, d3, d4, d5⟩ := numF_spec sl.d hD (fun h => (hd h).1) (fun h => (hd h).2)
  obtain ⟨m1, m2, m3, m4, m5⟩ := numF_spec sl.m (by omega) (fun h => (hm h).1) (fun h => (hm h).2)
  obtain ⟨s1, s2, s3, s4, s5⟩ := numF_spec sl.s (by omega) (fun h => (hs h).1) (fun h => (hs h).2)
  have t1 : (F64.ge (numI sl.m) fdm || F64.gt (numF sl.m) fdm) = false :=
    range_ok sl.m hM (fun h => (hm h).1) (fun h => (hm h).2)
  have t2 : (F64.ge (numI sl.s) fms || F64.gt (numF sl.s) fms) = false :=
    range_ok sl.s hS (fun h => (hs h).1) (fun h => (hs h).2)
  rw [evalSlots_ok neg sl t1 t2]
  have hu := two_m53_pos
  have h4153 : (2:ℕ) ^ 41 < 2 ^ 53 := by norm_num
  have h6053 : (60:ℕ) < 2 ^ 53 := by norm_num
  have hDq : (sl.d.int : ℚ) + 1 ≤ 2 ^ 41 := by exact_mod_cast hD
  have hMq : (sl.m.int : ℚ) + 1 ≤ 60 := by exact_mod_cast hM
  have hSq : (sl.s.int : ℚ) + 1 ≤ 60 := by exact_mod_cast hS
  have h60 : fdm.val = 60 := by rw [fdm_eq, F64.val_fin]; simp
  have h60' : fms.val = 60 := by rw [fms_eq, F64.val_fin]; simp
  -- the unsigned value
  have core : ∃ v0 : F64,
      (if F64.ne (numF sl.s) F64.pzero then (fms * (fdm * numF sl.d + numF sl.m) + numF sl.s) / fds
       else if F64.ne (numF sl.m) F64.pzero then (fdm * numF sl.d + numF sl.m) / fdm
       else numF sl.d) = v0 ∧ v0.isFinite = true ∧ Rep v0.val ∧ 0 ≤ v0.val ∧ v0.val ≤ 2 ^ 53 ∧
      |v0.val - V| ≤ 4 * (2:ℚ) ^ (-(53:ℤ)) * V := by
    by_cases hs0 : (numF sl.s).val = 0
    · have hne2 : F64.ne (numF sl.s) F64.pzero = false := by
        have := (ne_pzero_iff _ s1).not.mpr (by simpa using hs0); simpa using this
      have hWs : numVal sl.s = 0 := (rn_zero_iff s2 s5).mp hs0
      by_cases hm0 : (numF sl.m).val = 0
      · -- only degrees
        have hne1 : F64.ne (numF sl.m) F64.pzero = false := by
          have := (ne_pzero_iff _ m1).not.mpr (by simpa using hm0); simpa using this
        have hWm : numVal sl.m = 0 := (rn_zero_iff m2 m5).mp hm0
        refine ⟨numF sl.d, by simp only [hne2, hne1, Bool.false_eq_true, if_false], d1, d2.rep, d2.nonneg d3, ?_, ?_⟩
        · have := d2.le_int (2 ^ 53) (by norm_num) (by push_cast; linarith)
          exact_mod_cast this
        · have hV : V = numVal sl.d := by simp only [V, hWm, hWs]; ring
          rw [hV]
          rcases d5 with h0 | hlo
          · rw [h0, d2.zero h0]; simp
          · have := RN.relerr d2 (by
              rw [abs_of_nonneg d3]; exact le_trans (Dy.two_zpow_le (by norm_num)) hlo)
            rw [abs_of_nonneg d3] at this
            nlinarith
      · -- degrees and minutes
        have hne1 : F64.ne (numF sl.m) F64.pzero = true := (ne_pzero_iff _ m1).mpr hm0
        have hWm : numVal sl.m ≠ 0 := fun h => hm0 (m2.zero h)
        have hdp := hlast_m hWm
        obtain ⟨i1, i2⟩ := numF_int sl.d hdp (by omega)
        have hWd : numVal sl.d = sl.d.int := numVal_of_nopoint _ hdp
        obtain ⟨b1, b2⟩ := mul_int_exact fdm (numF sl.d) rfl i1 ((60 * sl.d.int : ℕ) : ℤ) (by
          rw [abs_of_nonneg (by positivity)]
          have : 60 * sl.d.int ≤ 2 ^ 53 := by
            have : 60 * (2:ℕ) ^ 41 ≤ 2 ^ 53 := by norm_num
            omega
          exact_mod_cast this) (by rw [h60, i2]; push_cast; ring)
        have b2' : (F64.mul fdm (numF sl.d)).val = ((60 * sl.d.int : ℕ) : ℚ) := by rw [b2]; push_cast; ring
        obtain ⟨v1, v2, v3, v4, v5⟩ := tail_bound (F64.mul fdm (numF sl.d)) (numF sl.m) (60 * sl.d.int) (numVal sl.m) 60
          b1 b2' (by push_cast; nlinarith) m1 m2 m3 (by linarith) m5 hm0 (by norm_num) (by norm_num)
        refine ⟨_, by simp only [hne2, hne1, Bool.false_eq_true, if_false, if_true]; rfl, v1, v2, v3, v4, ?_⟩
        have hV : V = (((60 * sl.d.int : ℕ) : ℚ) + numVal sl.m) / ((60:ℕ):ℚ) := by
          simp only [V, hWs, hWd]; push_cast; ring
        rw [hV]; exact v5
    · -- degrees, minutes and seconds
      have hne2 : F64.ne (numF sl.s) F64.pzero = true := (ne_pzero_iff _ s1).mpr hs0
      have hWs : numVal sl.s ≠ 0 := fun h => hs0 (s2.zero h)
      obtain ⟨hdp, hmp⟩ := hlast_s hWs
      obtain ⟨i1, i2⟩ := numF_int sl.d hdp (by omega)
      obtain ⟨j1, j2⟩ := numF_int sl.m hmp (by omega)
      have hWd : numVal sl.d = sl.d.int := numVal_of_nopoint _ hdp
      have hWm : numVal sl.m = sl.m.int := numVal_of_nopoint _ hmp
      have hbig : 60 * (60 * sl.d.int + sl.m.int) + 60 ≤ 2 ^ 53 := by
        have : 3600 * (2:ℕ) ^ 41 ≤ 2 ^ 53 := by norm_num
        omega
      obtain ⟨a1, a2⟩ := mul_int_exact fdm (numF sl.d) rfl i1 ((60 * sl.d.int : ℕ) : ℤ) (by
        rw [abs_of_nonneg (by positivity)]
        exact_mod_cast (by omega : 60 * sl.d.int ≤ 2 ^ 53)) (by rw [h60, i2]; push_cast; ring)
      obtain ⟨b1, b2⟩ := add_int_exact (F64.mul fdm (numF sl.d)) (numF sl.m) a1 j1 ((60 * sl.d.int + sl.m.int : ℕ) : ℤ) (by
        rw [abs_of_nonneg (by positivity)]
        exact_mod_cast (by omega : 60 * sl.d.int + sl.m.int ≤ 2 ^ 53)) (by rw [a2, j2]; push_cast; ring)
      obtain ⟨c1, c2⟩ := mul_int_exact fms (F64.add (F64.mul fdm (numF sl.d)) (numF sl.m)) rfl b1
        ((60 * (60 * sl.d.int + sl.m.int) : ℕ) : ℤ) (by
        rw [abs_of_nonneg (by positivity)]
        exact_mod_cast (by omega : 60 * (60 * sl.d.int + sl.m.int) ≤ 2 ^ 53)) (by rw [h60', b2]; push_cast; ring)
      have c2' : (F64.mul fms (F64.add (F64.mul fdm (numF sl.d)) (numF sl.m))).val
          = ((60 * (60 * sl.d.int + sl.m.int) : ℕ) : ℚ) := by rw [c2]; push_cast; ring
      obtain ⟨v1, v2, v3, v4, v5⟩ := tail_bound (F64.mul fms (F64.add (F64.mul fdm (numF sl.d)) (numF sl.m))) (numF sl.s)
        (60 * (60 * sl.d.int + sl.m.int)) (numVal sl.s) 3600
        c1 c2' (by exact_mod_cast hbig) s1 s2 s3 (by linarith) s5 hs0 (by norm_num) (by norm_num)
      refine ⟨_, by simp only [hne2, if_true]; rfl, v1, v2, v3, v4, ?_⟩
      have hV : V = (((60 * (60 * sl.d.int + sl.m.int) : ℕ) : ℚ) + numVal sl.s) / ((3600:ℕ):ℚ) := by
        simp only [V, hWd, hWm]; push_cast; ring
      rw [hV]; exact v5
  obtain ⟨v0, hv0, w1, w2, w3, w4, w5⟩ := core
  rw [hv0]
  obtain ⟨g1, g2⟩ := sign_mul neg v0 w1 w2 (lt_huge_of_le53 (by rw [abs_of_nonneg w3]; exact w4))
  refine ⟨_, rfl, ⟨g1, ?_⟩, ?_, ?_⟩
  · rw [g2]; cases neg
    · simpa using w2
    · simpa using w2.neg
  · rw [g2]; cases neg
    · simp only [Bool.false_eq_true, if_false]; rw [abs_of_nonneg w3]; exact w4
    · simp only [if_true]; rw [abs_neg, abs_of_nonneg w3]; exact w4
  · rw [g2]; cases neg
    · simpa using w5
    · simp only [if_true]
      have : -v0.val - -V = -(v0.val - V) := by ring
      rw [this, abs_neg]; exact w5

/-! ### the three shapes the encoder prints -/

theorem numOK_empty : NumOK {} := fun h => Bool.noConfusion h
theorem numVal_empty : numVal {} = 0 := by
  rw [numVal_of_nopoint _ rfl]; rfl
theorem numVal_int (I ni F p : ℕ) : numVal ⟨I, ni, false, F, p⟩ = I := numVal_of_nopoint _ rfl
theorem numVal_point (I ni F p : ℕ) : numVal ⟨I, ni, true, F, p⟩ = (I:ℚ) + (F:ℚ) / 10 ^ p := rfl

/-- **R6, shape DEGREE**: only a degrees number `n` (with or without a decimal point) -/
theorem evalSlots_degree (neg : Bool) (n : Num) (hD : n.int < 2 ^ 41) (hn : NumOK n) :
    let V : ℚ := numVal n
    ∃ v : F64, evalSlots neg { d := n } = .ok v ∧ F64.IsRep v ∧ |v.val| ≤ 2 ^ 53 ∧
      |v.val - (if neg then -V else V)| ≤ 4 * (2:ℚ) ^ (-(53:ℤ)) * V := by
  intro V
  obtain ⟨v, h1, h2, h3, h4⟩ := evalSlots_bound neg { d := n } hD (by show (0:ℕ) < 60; norm_num)
    (by show (0:ℕ) < 60; norm_num) hn numOK_empty numOK_empty
    (fun h => absurd numVal_empty h) (fun h => absurd numVal_empty h)
  have hV : numVal ({ d := n } : Slots).d + numVal ({ d := n } : Slots).m / 60 + numVal ({ d := n } : Slots).s / 3600 = V := by
    show numVal n + numVal {} / 60 + numVal {} / 3600 = numVal n
    rw [numVal_empty]; ring
  rw [hV] at h4
  exact ⟨v, h1, h2, h3, h4⟩

/-- **R6, shape MINUTE**: integer degrees `D`, minutes number `n` (`n.int < 60`, with or without a decimal point) -/
theorem evalSlots_minute (neg : Bool) (D nd F0 p0 : ℕ) (n : Num) (hD : D < 2 ^ 41) (hM : n.int < 60) (hn : NumOK n) :
    let V : ℚ := (D:ℚ) + numVal n / 60
    ∃ v : F64, evalSlots neg { d := ⟨D, nd, false, F0, p0⟩, m := n } = .ok v ∧ F64.IsRep v ∧ |v.val| ≤ 2 ^ 53 ∧
      |v.val - (if neg then -V else V)| ≤ 4 * (2:ℚ) ^ (-(53:ℤ)) * V := by
  intro V
  obtain ⟨v, h1, h2, h3, h4⟩ := evalSlots_bound neg { d := ⟨D, nd, false, F0, p0⟩, m := n } hD hM
    (by show (0:ℕ) < 60; norm_num) (fun h => Bool.noConfusion h) hn numOK_empty
    (fun h => absurd numVal_empty h) (fun _ => rfl)
  have hV : numVal (⟨D, nd, false, F0, p0⟩ : Num) + numVal n / 60 + numVal {} / 3600 = V := by
    rw [numVal_empty, numVal_int]; ring
  exact ⟨v, h1, h2, h3, by rw [← hV]; exact h4⟩

/-- **R6, shape SECOND**: integer degrees `D`, integer minutes `M < 60`, seconds number `n` (`n.int < 60`) -/
theorem evalSlots_second (neg : Bool) (D nd F0 p0 M nm F1 p1 : ℕ) (n : Num) (hD : D < 2 ^ 41) (hM : M < 60)
    (hS : n.int < 60) (hn : NumOK n) :
    let V : ℚ := (D:ℚ) + (M:ℚ) / 60 + numVal n / 3600
    ∃ v : F64, evalSlots neg { d := ⟨D, nd, false, F0, p0⟩, m := ⟨M, nm, false, F1, p1⟩, s := n } = .ok v ∧
      F64.IsRep v ∧ |v.val| ≤ 2 ^ 53 ∧
      |v.val - (if neg then -V else V)| ≤ 4 * (2:ℚ) ^ (-(53:ℤ)) * V := by
  intro V
  obtain ⟨v, h1, h2, h3, h4⟩ := evalSlots_bound neg { d := ⟨D, nd, false, F0, p0⟩, m := ⟨M, nm, false, F1, p1⟩, s := n }
    hD hM hS (fun h => Bool.noConfusion h) (fun h => Bool.noConfusion h) hn
    (fun _ => ⟨rfl, rfl⟩) (fun _ => rfl)
  have hV : numVal (⟨D, nd, false, F0, p0⟩ : Num) + numVal (⟨M, nm, false, F1, p1⟩ : Num) / 60 + numVal n / 3600 = V := by
    rw [numVal_int, numVal_int]
  exact ⟨v, h1, h2, h3, by rw [← hV]; exact h4⟩

/-! non-vacuity: `12d34'56.789"` -/
example : (12:ℕ) < 2 ^ 41 ∧ (34:ℕ) < 60 ∧ (⟨56, 2, true, 789, 3⟩ : Num).int < 60 ∧ NumOK ⟨56, 2, true, 789, 3⟩ :=
  ⟨by norm_num, by norm_num, by show (56:ℕ) < 60; norm_num, fun _ => ⟨by show (3:ℕ) ≤ 15; norm_num, by show (789:ℕ) < 10 ^ 3; norm_num⟩⟩

/-! ## small exactness facts used when composing `Decode ∘ Encode` -/

/-- `decode` adds the first piece to `-0`: exact -/
theorem add_nzero_exact (v : F64) (hv : F64.IsRep v) (hb : |v.val| < (2:ℚ) ^ (1024:ℤ)) :
    (F64.add F64.nzero v).isFinite = true ∧ (F64.add F64.nzero v).val = v.val := by
  obtain ⟨hf, hrep⟩ := hv
  obtain ⟨sv, mv, ev, rfl⟩ := F64.exists_fin_of_isFinite v hf
  obtain ⟨r, hr, hfin⟩ := F64.add_fin_isRN true sv 0 mv 0 ev
  have h0 : (F64.fin true 0 0).val = 0 := F64.val_fin_zero _ _
  rw [h0, zero_add] at hr
  have hreq : r = (F64.fin sv mv ev).val := hrep.rn_eq hr
  obtain ⟨f1, f2⟩ := hfin (by rw [hreq]; exact hb)
  exact ⟨f1, by rw [← hreq]; exact f2⟩

/-- `%.0f` of an integer-valued number prints that integer -/
theorem fixedUnits_int (x : F64) (hx : x.isFinite = true) (n : ℕ) (h : x.val = n) : fixedUnits x 0 = n := by
  have := fixedUnits_half' x hx (by rw [h]; positivity) 0
  rw [h, pow_zero, mul_one] at this
  obtain ⟨a, b⟩ := abs_le.mp this
  have h1 : ((fixedUnits x 0 : ℕ) : ℚ) < ((n + 1 : ℕ) : ℚ) := by push_cast; linarith
  have h2 : ((n : ℕ) : ℚ) < ((fixedUnits x 0 + 1 : ℕ) : ℚ) := by push_cast; linarith
  have h1' : fixedUnits x 0 < n + 1 := by exact_mod_cast h1
  have h2' : n < fixedUnits x 0 + 1 := by exact_mod_cast h2
  omega

/-- the degrees field of `Encode`: carry `cd` plus the whole degrees, exact -/
theorem add_carry_exact (cd : ℕ) (idg : F64) (hf : idg.isFinite = true) (k : ℕ) (hk : idg.val = k)
    (hb : cd + k ≤ 2 ^ 53) :
    (F64.add (F64.ofNat cd) idg).isFinite = true ∧ (F64.add (F64.ofNat cd) idg).val = ((cd + k : ℕ) : ℚ) := by
  obtain ⟨a1, a2⟩ := add_int_exact (F64.ofNat cd) idg rfl hf ((cd + k : ℕ) : ℤ)
    (by rw [abs_of_nonneg (by positivity)]; exact_mod_cast hb) (by rw [ofNat_val, hk]; push_cast; ring)
  exact ⟨a1, by rw [a2]; push_cast; ring⟩

/-! ## R7: `Utility::val(Utility::str(x, p))` -/

/-- **R7** reading back the `%.*f` digits of `x`: half a unit of the last digit plus one rounding -/
theorem ofDec_fixedUnits (x : F64) (hx : x.isFinite = true) (hb : |x.val| ≤ 2 ^ 52) (p : ℕ) (hp : p ≤ 30) :
    (ofDec (fixedUnits x p) p).isFinite = true ∧
    |((ofDec (fixedUnits x p) p).val - |x.val|)| ≤ (1 / 2) / 10 ^ p + (2:ℚ) ^ (-(53:ℤ)) * (|x.val| + 1) := by
  obtain ⟨s, m, e, rfl⟩ := F64.exists_fin_of_isFinite x hx
  have hN := fixedUnits_half s m e p
  set N := fixedUnits (F64.fin s m e) p with hNdef
  set y := |(F64.fin s m e).val| with hy
  have hy0 : 0 ≤ y := abs_nonneg _
  have hT : (0:ℚ) < 10 ^ p := by positivity
  have hu := two_m53_pos
  obtain ⟨n1, n2⟩ := abs_le.mp hN
  have hdiv : |(N:ℚ) / 10 ^ p - y| ≤ (1 / 2) / 10 ^ p := by
    have e1 : (N:ℚ) / 10 ^ p - y = ((N:ℚ) - y * 10 ^ p) / 10 ^ p := by field_simp
    rw [e1, abs_div, abs_of_pos hT]
    exact div_le_div_of_nonneg_right hN hT.le
  by_cases h0 : N = 0
  · rw [h0]
    have : ofDec 0 p = F64.pzero := rfl
    rw [this]
    refine ⟨rfl, ?_⟩
    have hz : F64.pzero.val = 0 := F64.val_fin_zero _ _
    rw [hz]
    rw [h0] at hdiv
    simp only [Nat.cast_zero, zero_div] at hdiv
    have : 0 ≤ (2:ℚ) ^ (-(53:ℤ)) * (y + 1) := by positivity
    linarith
  · obtain ⟨d1, d2⟩ := abs_le.mp hdiv
    have h10 : (1:ℚ) ≤ 10 ^ p := one_le_pow₀ (by norm_num)
    have hT1 : (1 / 2 : ℚ) / 10 ^ p ≤ 1 / 2 := by
      rw [div_le_iff₀ hT]; linarith
    have hz0 : (0:ℚ) ≤ (N:ℚ) / 10 ^ p := by positivity
    have hzle : (N:ℚ) / 10 ^ p ≤ y + 1 / 2 := by linarith
    -- N < 10^320
    have hNlt : N < 10 ^ 320 := by
      apply lt_of_lt_of_le (b := 10 ^ 47)
      · have h1 : (N:ℚ) ≤ 2 ^ 52 * 10 ^ p + 1 / 2 := by nlinarith
        have h2 : (10:ℚ) ^ p ≤ 10 ^ 30 := pow_le_pow_right₀ (by norm_num) hp
        have h3 : (N:ℚ) < ((10 ^ 47 : ℕ) : ℚ) := by
          push_cast
          have : (2:ℚ) ^ 52 * 10 ^ 30 + 1 / 2 < 10 ^ 47 := by norm_num
          nlinarith
        exact_mod_cast h3
      · exact pow_le_pow_right₀ (by norm_num) (by norm_num)
    obtain ⟨r, hr, hf⟩ := ofDec_isRN N p h0 (by omega) hNlt
    have hrle : |r| ≤ (2:ℚ) ^ (53:ℤ) := RN.abs_le_zpow hr 53 (by norm_num) (by
      rw [abs_of_nonneg hz0]
      have : (2:ℚ) ^ (53:ℤ) = 2 ^ 53 := by norm_num
      rw [this]
      have : (2:ℚ) ^ 52 + 1 / 2 ≤ 2 ^ 53 := by norm_num
      linarith)
    obtain ⟨f1, f2, _⟩ := hf (lt_of_le_of_lt hrle (Dy.two_zpow_lt_iff.mpr (by norm_num)))
    refine ⟨f1, ?_⟩
    rw [f2]
    have herr := IsRN.err hr
    rw [abs_of_nonneg hz0] at herr
    have hmax : max ((N:ℚ) / 10 ^ p * (2:ℚ) ^ (-((53:ℕ):ℤ))) ((2:ℚ) ^ ((-1074:ℤ) - 1)) ≤ (2:ℚ) ^ (-(53:ℤ)) * (y + 1) := by
      apply max_le
      · push_cast; nlinarith
      · have h3 : (2:ℚ) ^ ((-1074:ℤ) - 1) ≤ (2:ℚ) ^ (-(53:ℤ)) := Dy.two_zpow_le (by norm_num)
        nlinarith
    have : |r - y| ≤ |r - (N:ℚ) / 10 ^ p| + |(N:ℚ) / 10 ^ p - y| := by
      have := abs_add_le (r - (N:ℚ) / 10 ^ p) ((N:ℚ) / 10 ^ p - y)
      rwa [show r - (N:ℚ) / 10 ^ p + ((N:ℚ) / 10 ^ p - y) = r - y by ring] at this
    linarith

example : (F64.fin false 21 (-1)).isFinite = true ∧ |(F64.fin false 21 (-1)).val| ≤ 2 ^ 52 := by
  refine ⟨rfl, ?_⟩
  rw [abs_val_fin]; norm_num
end GeoVerif.DMSProofs
