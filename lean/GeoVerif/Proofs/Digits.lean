import GeoVerif.Model.GridCodes
/-!
# Fixed-width digit strings: generic lemmas (core Lean only)

`digitsW tbl b w n` is the big-endian width-`w` representation used by all
grid-code encoders; `readNum` is the corresponding decoder loop.
-/
namespace GeoVerif.Digits
open GeoVerif.Grid

theorem readNumFrom_append (tbl : List Char) (b : Nat) (acc : Nat) (s t : List Nat) :
    readNumFrom tbl b acc (s ++ t) = (readNumFrom tbl b acc s).bind fun a => readNumFrom tbl b a t := by
  induction s generalizing acc with
  | nil => simp [readNumFrom]
  | cons c cs ih =>
    simp only [List.cons_append, readNumFrom]
    cases h : lookup tbl c with
    | none => simp
    | some d => simp [ih]

/-- the table inverts itself on the first `b` entries -/
def TableOK (tbl : List Char) (b : Nat) : Prop := ∀ k < b, lookup tbl (chr tbl k).toNat = some k

theorem toBytes_append (s t : List Char) : toBytes (s ++ t) = toBytes s ++ toBytes t := by
  simp [toBytes]

/-- reading back a width-`w` digit string gives `acc·b^w + n mod b^w` -/
theorem readNumFrom_digitsW (tbl : List Char) (b : Nat) (hb : 0 < b) (ht : TableOK tbl b) (w n acc : Nat) :
    readNumFrom tbl b acc (toBytes (digitsW tbl b w n)) = some (acc * b ^ w + n % b ^ w) := by
  induction w generalizing n acc with
  | zero => simp [digitsW, toBytes, readNumFrom, Nat.mod_one]
  | succ w ih =>
    simp only [digitsW, toBytes_append, readNumFrom_append, ih]
    simp only [toBytes, List.map_cons, List.map_nil, Option.bind_some, readNumFrom]
    rw [ht (n % b) (Nat.mod_lt _ hb)]
    simp only [readNumFrom]
    congr 1
    -- b * (acc * b^w + (n / b) % b^w) + n % b = acc * b^(w+1) + n % b^(w+1)
    have h1 : n % b ^ (w + 1) = b * ((n / b) % b ^ w) + n % b := by
      rw [Nat.pow_succ, Nat.mul_comm (b ^ w) b, Nat.mod_mul]
      omega
    rw [h1, Nat.pow_succ]
    rw [Nat.mul_add, ← Nat.mul_assoc, Nat.mul_comm b acc, Nat.mul_assoc, Nat.mul_comm b (b ^ w), Nat.add_assoc]

theorem readNum_digitsW (tbl : List Char) (b : Nat) (hb : 0 < b) (ht : TableOK tbl b) (w n : Nat) :
    readNum tbl b (toBytes (digitsW tbl b w n)) = some (n % b ^ w) := by
  unfold readNum
  rw [readNumFrom_digitsW tbl b hb ht]
  simp

theorem digitsW_length (tbl : List Char) (b w n : Nat) : (digitsW tbl b w n).length = w := by
  induction w generalizing n with
  | zero => simp [digitsW]
  | succ w ih => simp [digitsW, ih]

/-- truncation: the width-`w` digits of `n / b` are a prefix of the width-`(w+1)` digits of `n` -/
theorem digitsW_prefix (tbl : List Char) (b w n : Nat) : digitsW tbl b w (n / b) <+: digitsW tbl b (w + 1) n := by
  simp [digitsW, List.prefix_append]

/-- every character of a digit string is a table entry with index `< b` -/
theorem digitsW_mem (tbl : List Char) (b : Nat) (hb : 0 < b) (w n : Nat) :
    ∀ c ∈ digitsW tbl b w n, ∃ k < b, c = chr tbl k := by
  induction w generalizing n with
  | zero => simp [digitsW]
  | succ w ih =>
    intro c hc
    simp only [digitsW, List.mem_append, List.mem_singleton] at hc
    rcases hc with h | h
    · exact ih _ c h
    · exact ⟨n % b, Nat.mod_lt _ hb, h⟩

end GeoVerif.Digits
