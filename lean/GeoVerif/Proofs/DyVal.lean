import GeoVerif.FP.F64
import Mathlib.Tactic.Ring
import Mathlib.Tactic.Linarith
import Mathlib.Tactic.Positivity
import Mathlib.Tactic.FieldSimp
import Mathlib.Algebra.Order.Field.Power
import Mathlib.Data.Rat.Defs
import Mathlib.Algebra.Order.Ring.Rat

namespace GeoVerif.Dy

/-- the rational value `m·2^e` -/
def val (x : Dy) : ℚ := (x.m : ℚ) * (2 : ℚ) ^ x.e

theorem two_zpow_pos (e : ℤ) : (0 : ℚ) < (2 : ℚ) ^ e := zpow_pos (by norm_num) e

@[simp] theorem val_neg (x : Dy) : (neg x).val = -x.val := by simp [val, neg]
@[simp] theorem val_mul (x y : Dy) : (mul x y).val = x.val * y.val := by
  simp only [val, mul, Int.cast_mul]; rw [zpow_add₀ (by norm_num : (2:ℚ) ≠ 0)]; ring
@[simp] theorem val_ofInt (n : ℤ) : (ofInt n).val = n := by simp [val, ofInt]

theorem shl_cast (m k : ℤ) (hk : 0 ≤ k) : ((shl m k : ℤ) : ℚ) = (m : ℚ) * (2 : ℚ) ^ k := by
  unfold shl
  push_cast
  congr 1
  rw [← zpow_natCast]; congr 1; exact Int.toNat_of_nonneg hk

@[simp] theorem val_add (x y : Dy) : (add x y).val = x.val + y.val := by
  unfold add
  split
  · rename_i h
    simp only [val, Int.cast_add]
    rw [shl_cast _ _ (by omega)]
    have : (2:ℚ) ^ y.e = (2:ℚ) ^ (y.e - x.e) * (2:ℚ) ^ x.e := by
      rw [← zpow_add₀ (by norm_num : (2:ℚ) ≠ 0)]; congr 1; ring
    rw [this]; ring
  · rename_i h
    simp only [val, Int.cast_add]
    rw [shl_cast _ _ (by omega)]
    have : (2:ℚ) ^ x.e = (2:ℚ) ^ (x.e - y.e) * (2:ℚ) ^ y.e := by
      rw [← zpow_add₀ (by norm_num : (2:ℚ) ≠ 0)]; congr 1; ring
    rw [this]; ring

@[simp] theorem val_sub (x y : Dy) : (sub x y).val = x.val - y.val := by
  unfold sub; rw [val_add, val_neg]; ring

theorem m_neg_iff (x : Dy) : x.m < 0 ↔ x.val < 0 := by
  unfold val
  have h := two_zpow_pos x.e
  constructor
  · intro hm; have : (x.m : ℚ) < 0 := by exact_mod_cast hm
    exact mul_neg_of_neg_of_pos this h
  · intro hv
    by_contra hc
    have : (0:ℚ) ≤ x.m := by exact_mod_cast (not_lt.mp hc)
    have := mul_nonneg this h.le
    linarith
theorem m_zero_iff (x : Dy) : x.m = 0 ↔ x.val = 0 := by
  unfold val
  have h := two_zpow_pos x.e
  constructor
  · intro hm; simp [hm]
  · intro hv
    rcases mul_eq_zero.mp hv with h1 | h1
    · exact_mod_cast h1
    · exact absurd h1 h.ne'

theorem lt_iff (x y : Dy) : lt x y = true ↔ x.val < y.val := by
  unfold lt; rw [decide_eq_true_iff, m_neg_iff, val_sub]; constructor <;> intro h <;> linarith
theorem eq_iff (x y : Dy) : eq x y = true ↔ x.val = y.val := by
  unfold eq; rw [decide_eq_true_iff, m_zero_iff, val_sub]; constructor <;> intro h <;> linarith
theorem le_iff (x y : Dy) : le x y = true ↔ x.val ≤ y.val := by
  unfold le; rw [decide_eq_true_iff]
  have : (sub x y).m ≤ 0 ↔ ¬ (0 < (sub x y).m) := by omega
  rw [this]
  have h2 : 0 < (sub x y).m ↔ (neg (sub x y)).m < 0 := by simp [neg]
  rw [h2, m_neg_iff, val_neg, val_sub]; constructor <;> intro h <;> linarith

end GeoVerif.Dy
