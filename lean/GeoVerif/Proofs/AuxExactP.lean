import GeoVerif.Model.AuxExact
import GeoVerif.Spec.RealInstX
import Mathlib.Tactic.Ring
import Mathlib.Tactic.FieldSimp
import Mathlib.Tactic.Linarith
import Mathlib.Tactic.Positivity
import Mathlib.Tactic.NormNum
import Mathlib.Tactic.IntervalCases
import Mathlib.Tactic.LinearCombination
/-!
# `AuxAngle`, the exact methods of `AuxLatitude` and the measures of `Ellipsoid` (`Model/AuxExact.lean` read at `ℝ`):
lemmas for `Props/C15.lean`
-/
namespace GeoVerif.Proofs.AuxExactP
open GeoVerif GeoVerif.Elliptic GeoVerif.AuxExact Real

/-! ### unfolding lemmas for the real-number reading -/

@[simp] theorem sinh_real (x : ℝ) : RealLike.sinh x = Real.sinh x := rfl
@[simp] theorem asinh_real (x : ℝ) : RealLike.asinh x = Real.arsinh x := rfl
@[simp] theorem atan_real (x : ℝ) : RealLike.atan x = Real.arctan x := rfl
@[simp] theorem pi_real : (RealLike.pi : ℝ) = π := rfl
@[simp] theorem atan2_real (y x : ℝ) : RealLike.atan2 y x = Complex.arg ⟨x, y⟩ := rfl
@[simp] theorem exp2_real (x : ℝ) : RealX.exp2 x = (2 : ℝ) ^ x := rfl
@[simp] theorem log2_real (x : ℝ) : RealX.log2 x = Real.logb 2 x := rfl

/-- `Math::degree()` -/
theorem degree_real : (degree : ℝ) = π / 180 := by
  simp only [degree, pi_real, lit_real]

theorem sc_eq (t : ℝ) : sc t = √(1 ^ 2 + t ^ 2) := by
  simp only [sc, hypot_real, lit_real]; push_cast; rfl

set_option exponentiation.threshold 1024 in
/-- `max()/2 > 1` (all that is used about the overflow guard of `normalized()`) -/
theorem one_lt_maxHalf : (1 : ℝ) < maxHalf := by
  have key : ∀ n : ℕ, 2 ≤ n → ∀ m : ℕ, 1 ≤ m → (1 : ℝ) < ((n * m : ℕ) : ℝ) := by
    intro n hn m hm
    exact Nat.one_lt_cast.mpr (lt_of_lt_of_le (by norm_num : 1 < 2 * 1) (Nat.mul_le_mul hn hm))
  have h2 : ∀ k : ℕ, 1 ≤ 2 ^ k := fun k => Nat.one_le_two_pow
  exact key (2 ^ 53 - 1) (by norm_num) (2 ^ 970) (h2 970)

/-! ### `AuxAngle` -/

/-- `normalized()` outside its overflow guard: division by `hypot(y, x)` (over `ℝ` no quotient is a NaN) -/
theorem normalized_eq (p : Ang ℝ) (hb : ¬ ((maxHalf : ℝ) < |p.y| ∧ (maxHalf : ℝ) < |p.x|)) :
    p.normalized = ⟨p.y / √(p.y ^ 2 + p.x ^ 2), p.x / √(p.y ^ 2 + p.x ^ 2)⟩ := by
  unfold Ang.normalized
  simp only [isNaN_realx, ltb_real, abs_real, hypot_real, Bool.false_or, Bool.and_eq_true, decide_eq_true_eq]
  rw [if_neg hb]
  simp

/-- `normalized()` puts the pair on the unit circle without changing its direction -/
theorem normalized_spec (p : Ang ℝ) (h0 : p.x ≠ 0 ∨ p.y ≠ 0) (hb : ¬ ((maxHalf : ℝ) < |p.y| ∧ (maxHalf : ℝ) < |p.x|)) :
    p.normalized.y ^ 2 + p.normalized.x ^ 2 = 1 ∧
    p.normalized.y = p.y / √(p.y ^ 2 + p.x ^ 2) ∧ p.normalized.x = p.x / √(p.y ^ 2 + p.x ^ 2) := by
  have hpos : 0 < p.y ^ 2 + p.x ^ 2 := by
    rcases h0 with h | h
    · have := pow_pos (abs_pos.mpr h) 2; rw [sq_abs] at this; positivity
    · have := pow_pos (abs_pos.mpr h) 2; rw [sq_abs] at this; positivity
  have hr : √(p.y ^ 2 + p.x ^ 2) ≠ 0 := (Real.sqrt_pos.mpr hpos).ne'
  have hsq := Real.sq_sqrt hpos.le
  rw [normalized_eq p hb]
  refine ⟨?_, rfl, rfl⟩
  simp only
  rw [div_pow, div_pow, ← add_div, hsq]
  exact div_self hpos.ne'

theorem abs_le_one_of_unit {y x : ℝ} (h : y ^ 2 + x ^ 2 = 1) : |x| ≤ 1 :=
  abs_le.mpr ⟨by nlinarith [sq_nonneg y], by nlinarith [sq_nonneg y]⟩

/-- a pair on the unit circle is its own normalisation -/
theorem normalized_of_unit (p : Ang ℝ) (h : p.y ^ 2 + p.x ^ 2 = 1) : p.normalized = p := by
  have hx : |p.x| ≤ 1 := abs_le_one_of_unit h
  rw [normalized_eq p (fun hh => absurd (lt_of_lt_of_le (lt_trans one_lt_maxHalf hh.2) hx) (lt_irrefl _)), h]
  simp

/-- `copyquadrant` keeps the magnitudes and takes the signs of the other pair -/
theorem copyquadrant_spec (p q : Ang ℝ) :
    |(p.copyquadrant q).y| = |p.y| ∧ |(p.copyquadrant q).x| = |p.x| ∧
    (q.y < 0 → (p.copyquadrant q).y ≤ 0) ∧ (0 ≤ q.y → 0 ≤ (p.copyquadrant q).y) ∧
    (q.x < 0 → (p.copyquadrant q).x ≤ 0) ∧ (0 ≤ q.x → 0 ≤ (p.copyquadrant q).x) := by
  simp only [Ang.copyquadrant, copysign_real]
  refine ⟨?_, ?_, ?_, ?_, ?_, ?_⟩
  · split_ifs <;> simp
  · split_ifs <;> simp
  · intro h; rw [if_pos h]; simp
  · intro h; rw [if_neg (not_lt.mpr h)]; simp
  · intro h; rw [if_pos h]; simp
  · intro h; rw [if_neg (not_lt.mpr h)]; simp

/-- `operator+=` is the addition of angles -/
theorem add_angles (a b : ℝ) (hb : Real.sin b / Real.cos b ≠ 0) :
    (Ang.mk (Real.sin a) (Real.cos a)).add ⟨Real.sin b, Real.cos b⟩ = ⟨Real.sin (a + b), Real.cos (a + b)⟩ := by
  simp only [Ang.add, Ang.tan, eqb_real, lit_real]
  push_cast
  rw [if_pos (by simpa using hb), Real.sin_add, Real.cos_add]

/-- adding an angle with zero tangent changes nothing (so that the signs of zero are preserved) -/
theorem add_zero_tan (p q : Ang ℝ) (h : q.y / q.x = 0) : p.add q = p := by
  simp only [Ang.add, Ang.tan, eqb_real, lit_real]
  push_cast
  rw [h]
  simp

theorem radians_ofRadians (r : ℝ) (h1 : -π < r) (h2 : r ≤ π) : (Ang.ofRadians r).radians = r := by
  simp only [Ang.ofRadians, Ang.radians, atan2_real, sin_real, cos_real]
  have : (⟨Real.cos r, Real.sin r⟩ : ℂ) = Complex.cos r + Complex.sin r * Complex.I := by
    apply Complex.ext <;> simp [← Complex.ofReal_cos, ← Complex.ofReal_sin]
  rw [this]
  exact Complex.arg_cos_add_sin_mul_I ⟨h1, h2⟩

theorem lam_ofLam (psi : ℝ) : (Ang.ofLam psi).lam = psi := by
  simp only [Ang.ofLam, Ang.lam, Ang.ofTan, Ang.tan, asinh_real, sinh_real, lit_real]
  push_cast
  rw [div_one, Real.arsinh_sinh]

theorem lamd_ofLamd (d : ℝ) : (Ang.ofLamd d).lamd = d := by
  have hd : (degree : ℝ) ≠ 0 := by rw [degree_real]; positivity
  simp only [Ang.ofLamd, Ang.lamd, Ang.ofTan, Ang.tan, asinh_real, sinh_real, lit_real]
  push_cast
  rw [div_one, Real.arsinh_sinh]
  field_simp

/-- `Math::atan2d` with the swaps and sign tests decided -/
theorem atan2d_real (y x : ℝ) : atan2d y x =
    if |x| < |y| then (if y < 0 then -90 + Complex.arg ⟨-y, x⟩ / (π / 180) else 90 - Complex.arg ⟨y, x⟩ / (π / 180))
    else (if x < 0 then (if y < 0 then -180 else 180) - Complex.arg ⟨-x, y⟩ / (π / 180)
          else Complex.arg ⟨x, y⟩ / (π / 180)) := by
  unfold atan2d
  simp only [ltb_real, signNeg_real, copysign_real, abs_real, atan2_real, degree_real, lit_real]
  push_cast
  by_cases h1 : |x| < |y|
  · by_cases h2 : y < 0
    · simp [h1, h2]
    · simp [h1, h2]
  · by_cases h2 : x < 0
    · by_cases h3 : y < 0
      · simp [h1, h2, h3]
      · simp [h1, h2, h3]
    · simp [h1, h2]

theorem norm_mk (a b : ℝ) : ‖(⟨a, b⟩ : ℂ)‖ = √(a * a + b * b) := by
  rw [Complex.norm_def, Complex.normSq_mk]

/-- `degrees()` (`Math::atan2d` with its octant reduction) is the argument of `x + iy` in degrees, in every octant -/
theorem degrees_eq_radians (p : Ang ℝ) : p.degrees * (π / 180) = p.radians := by
  obtain ⟨y, x⟩ := p
  have hd : (π / 180 : ℝ) ≠ 0 := by positivity
  simp only [Ang.degrees, Ang.radians, atan2_real, atan2d_real]
  have n1 : ‖(⟨-x, y⟩ : ℂ)‖ = ‖(⟨x, y⟩ : ℂ)‖ := by rw [norm_mk, norm_mk]; congr 1; ring
  have n2 : ‖(⟨y, x⟩ : ℂ)‖ = ‖(⟨x, y⟩ : ℂ)‖ := by rw [norm_mk, norm_mk]; congr 1; ring
  have n3 : ‖(⟨-y, x⟩ : ℂ)‖ = ‖(⟨x, y⟩ : ℂ)‖ := by rw [norm_mk, norm_mk]; congr 1; ring
  by_cases h1 : |x| < |y|
  · rw [if_pos h1]
    by_cases h2 : y < 0
    · rw [if_pos h2, Complex.arg_of_im_neg (z := ⟨x, y⟩) h2,
        Complex.arg_of_re_nonneg (x := ⟨-y, x⟩) (by simpa using h2.le), n3, Real.arccos_eq_pi_div_two_sub_arcsin]
      simp only
      field_simp
      ring
    · have hy : 0 < y := by
        rcases lt_or_eq_of_le (not_lt.mp h2) with h | h
        · exact h
        · rw [← h, abs_zero] at h1; exact absurd h1 (not_lt.mpr (abs_nonneg x))
      rw [if_neg h2, Complex.arg_of_im_pos (z := ⟨x, y⟩) hy,
        Complex.arg_of_re_nonneg (x := ⟨y, x⟩) (by simpa using hy.le), n2, Real.arccos_eq_pi_div_two_sub_arcsin]
      simp only
      field_simp
      ring
  · rw [if_neg h1]
    by_cases h2 : x < 0
    · rw [if_pos h2]
      by_cases h3 : y < 0
      · rw [if_pos h3, Complex.arg_of_re_neg_of_im_neg (x := ⟨x, y⟩) h2 h3,
          Complex.arg_of_re_nonneg (x := ⟨-x, y⟩) (by simpa using h2.le), n1]
        simp only [Complex.neg_im, neg_div, Real.arcsin_neg]
        field_simp
        ring
      · rw [if_neg h3, Complex.arg_of_re_neg_of_im_nonneg (x := ⟨x, y⟩) h2 (not_lt.mp h3),
          Complex.arg_of_re_nonneg (x := ⟨-x, y⟩) (by simpa using h2.le), n1]
        simp only [Complex.neg_im, neg_div, Real.arcsin_neg]
        field_simp
        ring
    · rw [if_neg h2]
      field_simp

/-! ### `AuxLatitude`: index arithmetic, parameters -/

/-- `ind` with the enum value `AUXNUMBER = 6` read from `Gen/AuxSeries.lean` -/
theorem ind_eq (o i : Int) : ind o i = if 0 ≤ o ∧ o < 6 ∧ 0 ≤ i ∧ i < 6 then 6 * o + i else -1 := by
  have hA : (Gen.AuxSeries.AUXNUMBER : Int) = 6 := rfl
  unfold ind
  simp only [hA, Bool.and_eq_true, decide_eq_true_eq, and_assoc]

/-- `ind(auxout, auxin)` is a bijection from `[0, AUXNUMBER)²` onto the `AUXNUMBER²` table slots, and `−1` elsewhere
    (depends on `Gen/AuxSeries.lean`: the enum value `AUXNUMBER` and the length of `ptrs[]`) -/
theorem ind_bijection :
    (∀ o i : Int, 0 ≤ o → o < 6 → 0 ≤ i → i < 6 → ind o i = 6 * o + i ∧ 0 ≤ ind o i ∧ ind o i < 36) ∧
    (∀ o i : Int, ¬ (0 ≤ o ∧ o < 6 ∧ 0 ≤ i ∧ i < 6) → ind o i = -1) ∧
    (∀ o i o' i' : Int, 0 ≤ ind o i → ind o i = ind o' i' → o = o' ∧ i = i') ∧
    (∀ k : Int, 0 ≤ k → k < 36 → ind (k / 6) (k % 6) = k) ∧
    Gen.AuxSeries.ptrs.length = Gen.AuxSeries.AUXNUMBER * Gen.AuxSeries.AUXNUMBER + 1 := by
  refine ⟨?_, ?_, ?_, ?_, rfl⟩
  · intro o i h1 h2 h3 h4
    rw [ind_eq, if_pos ⟨h1, h2, h3, h4⟩]
    omega
  · intro o i h
    rw [ind_eq, if_neg h]
  · intro o i o' i' h0 h
    rw [ind_eq] at h0 h
    rw [ind_eq] at h
    split_ifs at h0 h <;> omega
  · intro k h0 h1
    rw [ind_eq, if_pos (by omega)]
    omega

/-- the members set by `AuxLatitude(a, f)` -/
theorem mk2_params (a f : ℝ) (hf : f < 1) :
    let P := AL.mk2 a f
    P.b = a * (1 - f) ∧ P.fm1 = 1 - f ∧ P.e2 = f * (2 - f) ∧ P.e2m1 = 1 - P.e2 ∧ P.e12 = P.e2 / (1 - P.e2) ∧
    P.e12p1 = 1 + P.e12 ∧ P.n = f / (2 - f) ∧ P.e ^ 2 = |P.e2| ∧ P.e1 ^ 2 = |P.e12| ∧ P.n2 = P.n ^ 2 ∧ 0 ≤ P.e ∧ 0 ≤ P.e1 := by
  have h1 : (1 : ℝ) - f ≠ 0 := by linarith
  have h3 : (1 : ℝ) - f * (2 - f) ≠ 0 := by
    have : (1 : ℝ) - f * (2 - f) = (1 - f) ^ 2 := by ring
    rw [this]; positivity
  simp only [AL.mk2, lit_real, sqrt_real, abs_real]
  push_cast
  refine ⟨rfl, rfl, trivial, by ring, rfl, ?_, trivial, Real.sq_sqrt (abs_nonneg _), Real.sq_sqrt (abs_nonneg _), by ring,
    Real.sqrt_nonneg _, Real.sqrt_nonneg _⟩
  field_simp
  ring

/-- `AuxLatitude::axes(a, b)` sets the same members as `AuxLatitude(a, (a − b)/a)` -/
theorem axes_eq_mk2 (a b : ℝ) (ha : 0 < a) (hb : 0 < b) : AL.axes a b = AL.mk2 a ((a - b) / a) := by
  have ha' : a ≠ 0 := ha.ne'
  have hb' : b ≠ 0 := hb.ne'
  have hab : a + b ≠ 0 := by positivity
  have hf1 : 1 - (a - b) / a = b / a := by field_simp; ring
  have hf2 : 2 - (a - b) / a = (a + b) / a := by field_simp; ring
  have he2 : (a - b) / a * ((a + b) / a) = (a - b) * (a + b) / (a * a) := by field_simp
  have he2m : 1 - (a - b) * (a + b) / (a * a) = b * b / (a * a) := by field_simp; ring
  have he12 : (a - b) * (a + b) / (a * a) / (b * b / (a * a)) = (a - b) * (a + b) / (b * b) := by field_simp
  have hpos : 0 < a + b := by positivity
  have he : √(|a - b| * (a + b)) / a = √|(a - b) * (a + b) / (a * a)| := by
    rw [abs_div, abs_mul, abs_of_pos hpos, abs_of_pos (by positivity : 0 < a * a), Real.sqrt_div (by positivity),
      Real.sqrt_mul_self ha.le]
  have he1 : √(|a - b| * (a + b)) / b = √|(a - b) * (a + b) / (b * b)| := by
    rw [abs_div, abs_mul, abs_of_pos hpos, abs_of_pos (by positivity : 0 < b * b), Real.sqrt_div (by positivity),
      Real.sqrt_mul_self hb.le]
  have hn : (a - b) / a / ((a + b) / a) = (a - b) / (a + b) := by field_simp
  have h12 : 1 / (b / a * (b / a)) = a * a / (b * b) := by field_simp
  simp only [AL.axes, AL.mk2, lit_real, sqrt_real, abs_real]
  push_cast
  simp only [hf1, hf2, he2, he2m, he12, he, he1, hn, h12]
  congr 1
  · field_simp
  · ring

/-! ### `ToAuxiliary` -/

/-- `tan β = (1 − f) tan φ`, `tan θ = (1 − f)² tan φ` -/
theorem parametric_geocentric (a f : ℝ) (phi : Ang ℝ) :
    (parametric (AL.mk2 a f) phi).1.tan = (1 - f) * phi.tan ∧ (parametric (AL.mk2 a f) phi).2 = 1 - f ∧
    (geocentric (AL.mk2 a f) phi).1.tan = (1 - f) ^ 2 * phi.tan ∧ (geocentric (AL.mk2 a f) phi).2 = (1 - f) ^ 2 := by
  simp only [parametric, geocentric, AL.mk2, Ang.tan, lit_real]
  push_cast
  refine ⟨by ring, rfl, by ring, by ring⟩

theorem powFm1_0 (P : AL ℝ) : powFm1 P 0 = 1 := by
  show (@OfNat.ofNat ℝ 1 RealLike.Lits.instLit) = 1
  rw [lit_real]; norm_num
theorem powFm1_1 (P : AL ℝ) : powFm1 P 1 = P.fm1 := rfl
theorem powFm1_2 (P : AL ℝ) : powFm1 P 2 = P.fm1 * P.fm1 := rfl
theorem powFm1_m1 (P : AL ℝ) : powFm1 P (-1) = 1 / P.fm1 := by
  show (@OfNat.ofNat ℝ 1 RealLike.Lits.instLit) / P.fm1 = 1 / P.fm1
  rw [lit_real]; norm_num
theorem powFm1_m2 (P : AL ℝ) : powFm1 P (-2) = 1 / (P.fm1 * P.fm1) := by
  show (@OfNat.ofNat ℝ 1 RealLike.Lits.instLit) / (P.fm1 * P.fm1) = 1 / (P.fm1 * P.fm1)
  rw [lit_real]; norm_num

/-- the exact conversions among φ, β, θ multiply the tangent by a power of `1 − f` -/
theorem convertExact_low (a f : ℝ) (hf : f ≠ 1) (i o : Int) (hi : 0 ≤ i ∧ i < 3) (ho : 0 ≤ o ∧ o < 3) (z : Ang ℝ) :
    (convertExact (AL.mk2 a f) i o z).tan = (1 - f) ^ (o - i) * z.tan ∧ (convertExact (AL.mk2 a f) i o z).x = z.x := by
  have h1 : (1 : ℝ) - f ≠ 0 := sub_ne_zero.mpr (Ne.symm hf)
  obtain ⟨hi0, hi3⟩ := hi
  obtain ⟨ho0, ho3⟩ := ho
  have hfm : (AL.mk2 a f).fm1 = 1 - f := by simp only [AL.mk2, lit_real]; push_cast; rfl
  have hind : ¬ ind o i < 0 := by rw [ind_eq, if_pos (by omega)]; omega
  unfold convertExact
  rw [if_neg hind]
  by_cases hio : i = o
  · rw [if_pos hio]; subst hio; simp
  · rw [if_neg hio, if_pos (by simp; omega)]
    refine ⟨?_, rfl⟩
    simp only [Ang.tan]
    interval_cases i <;> interval_cases o <;>
      first
      | exact absurd rfl hio
      | (norm_num [powFm1_0, powFm1_1, powFm1_2, powFm1_m1, powFm1_m2, hfm, zpow_neg, zpow_ofNat]
         try (field_simp))

theorem convertExact_same_oob (P : AL ℝ) (z : Ang ℝ) :
    (∀ k : Int, 0 ≤ k → k < 6 → convertExact P k k z = z) ∧
    (∀ i o : Int, ¬ (0 ≤ o ∧ o < 6 ∧ 0 ≤ i ∧ i < 6) → convertExact P i o z = Ang.NaN) := by
  constructor
  · intro k h0 h1
    have hind : ¬ ind k k < 0 := by rw [ind_eq, if_pos (by omega)]; omega
    unfold convertExact
    rw [if_neg hind, if_pos rfl]
  · intro i o h
    unfold convertExact
    rw [ind_eq, if_neg h, if_pos (by norm_num)]

/-- `Convert(GEOGRAPHIC, PARAMETRIC, ·, exact)` -/
theorem convertExact_0_1 (P : AL ℝ) (z : Ang ℝ) : convertExact P 0 1 z = ⟨z.y * P.fm1, z.x⟩ := by
  unfold convertExact
  rw [if_neg (by rw [ind_eq]; norm_num), if_neg (by norm_num), if_pos (by norm_num)]
  show (⟨z.y * powFm1 P 1, z.x⟩ : Ang ℝ) = _
  rw [powFm1_1]

/-- the rectifying latitude from the two meridian arcs: `μ = (π/2)·sa/(sa + sb)`; the cosine is formed as the sine of the
    complementary arc so that it keeps its relative accuracy at the pole -/
theorem rectFromArcs_spec (sa sb : ℝ) (h : sa + sb ≠ 0) :
    (rectFromArcs sa sb).1 = Real.sin (π / 2 * (sa / (sa + sb))) ∧
    (rectFromArcs sa sb).2.1 = Real.cos (π / 2 * (sa / (sa + sb))) ∧
    (rectFromArcs sa sb).2.2 = 2 * (sa + sb) / π := by
  have hpi : π ≠ 0 := Real.pi_ne_zero
  simp only [rectFromArcs, lit_real, sin_real]
  push_cast
  refine ⟨?_, ?_, rfl⟩
  · congr 1
    show sa / (2 * (sa + sb) / π) = _
    field_simp
  · rw [← Real.sin_pi_div_two_sub]
    congr 1
    show sb / (2 * (sa + sb) / π) = _
    field_simp
    ring

/-- the cancellation-free form of `tan χ` used for `f > 0` equals the general expression
    `tan φ √(1+σ²) − σ √(1+tan²φ)` (the formula of `Math::taupf`) -/
theorem conformal_branch_algebra (t s : ℝ) (ht : 0 < t) (hs : 0 ≤ s) :
    (t - s) * (1 + s / t) / (√(1 ^ 2 + s ^ 2) + s / t * √(1 ^ 2 + t ^ 2)) = t * √(1 ^ 2 + s ^ 2) - s * √(1 ^ 2 + t ^ 2) := by
  have hA : √(1 ^ 2 + s ^ 2) ^ 2 = 1 ^ 2 + s ^ 2 := Real.sq_sqrt (by positivity)
  have hB : √(1 ^ 2 + t ^ 2) ^ 2 = 1 ^ 2 + t ^ 2 := Real.sq_sqrt (by positivity)
  have hA0 : 0 < √(1 ^ 2 + s ^ 2) := Real.sqrt_pos.mpr (by positivity)
  have hB0 : 0 < √(1 ^ 2 + t ^ 2) := Real.sqrt_pos.mpr (by positivity)
  set A := √(1 ^ 2 + s ^ 2)
  set B := √(1 ^ 2 + t ^ 2)
  have hden : A + s / t * B ≠ 0 := by positivity
  rw [div_eq_iff hden]
  field_simp
  linear_combination (-t ^ 2) * hA + s ^ 2 * hB

/-- on the executed definition: for `f > 0` and `σ < tan φ / 2` -/
theorem tchiOf_eq_taupf (P : AL ℝ) (tphi : ℝ) (hf : 0 < P.f) (ht : 0 < tphi)
    (hs : 0 ≤ Real.sinh (P.e2 * atanhee P tphi)) (hlt : Real.sinh (P.e2 * atanhee P tphi) < tphi / 2) :
    tchiOf P tphi = tphi * sc (Real.sinh (P.e2 * atanhee P tphi)) - Real.sinh (P.e2 * atanhee P tphi) * sc tphi := by
  have h := conformal_branch_algebra tphi (Real.sinh (P.e2 * atanhee P tphi)) ht hs
  unfold tchiOf
  simp only [leb_real, ltb_real, sinh_real, lit_real]
  push_cast
  rw [if_neg (by simpa using hf), if_pos (by simpa using hlt), sc_eq, sc_eq]
  exact h

/-- for `f ≤ 0` the general expression is used directly -/
theorem tchiOf_prolate (P : AL ℝ) (tphi : ℝ) (hf : P.f ≤ 0) :
    tchiOf P tphi = tphi * sc (Real.sinh (P.e2 * atanhee P tphi)) - Real.sinh (P.e2 * atanhee P tphi) * sc tphi := by
  unfold tchiOf
  simp only [leb_real, sinh_real, lit_real]
  push_cast
  rw [if_pos (by simpa using hf)]

/-- the authalic latitude: with `Dq⁺(1 − sin φ) = q(π/2) − q(φ)` and `Dq⁻ = (q(π/2) + q(φ))/(1 + sin φ)` the pair
    `(q(φ), cos φ √(Dq⁺ Dq⁻))` has modulus `q(π/2)`, i.e. `sin ξ = q(φ)/q(π/2)` -/
theorem authalic_modulus (qv Q s cx Dqp : ℝ) (hs : s ^ 2 + cx ^ 2 = 1) (hs1 : 0 ≤ s ∧ s < 1) (hcx : 0 < cx)
    (hq : 0 ≤ qv ∧ qv ≤ Q) (hD : Dqp * (1 - s) = Q - qv) :
    qv ^ 2 + (cx * √(Dqp * ((Q + qv) / (1 + s)))) ^ 2 = Q ^ 2 := by
  obtain ⟨hs0, hs1⟩ := hs1
  obtain ⟨hq0, hq1⟩ := hq
  have _ := hcx
  have h1 : 0 < 1 - s := by linarith
  have h2 : 0 < 1 + s := by linarith
  have hDq : Dqp = (Q - qv) / (1 - s) := by rw [← hD]; field_simp
  have hD0 : 0 ≤ Dqp := by rw [hDq]; exact div_nonneg (by linarith) h1.le
  have hnn : 0 ≤ Dqp * ((Q + qv) / (1 + s)) := mul_nonneg hD0 (div_nonneg (by linarith) h2.le)
  rw [mul_pow, Real.sq_sqrt hnn]
  have hcx2 : cx ^ 2 = (1 - s) * (1 + s) := by linear_combination hs
  rw [hcx2, hDq]
  field_simp
  ring

/-! ### `FromAuxiliary` -/

/-- if the Newton loop of `FromAuxiliary` stops because the target is hit, the returned tangent is a solution -/
theorem newtonLoop_exact (P : AL ℝ) (auxin : Int) (tzeta ltzeta : ℝ) (fuel : ℕ) (s t : Newton ℝ)
    (h : newtonLoop P auxin tzeta ltzeta fuel s = (t, Exit.exact)) :
    (toAux P auxin (Ang.ofTan t.tphi)).1.tan = tzeta := by
  induction fuel generalizing s with
  | zero => simp [newtonLoop] at h
  | succ k ih =>
    simp only [newtonLoop] at h
    split at h
    · simp at h
    · split at h
      · rename_i _ he
        simp only [Prod.mk.injEq, and_true] at h
        subst h
        simpa using he
      · split at h
        · simp at h
        · split_ifs at h <;> exact ih _ h

/-- if it stops because the step in `log₂ tan φ` fell below `√ε`, the result is one plain Newton step from a point whose
    last logarithmic step was below the tolerance -/
theorem newtonLoop_converged (P : AL ℝ) (auxin : Int) (tzeta ltzeta : ℝ) (fuel : ℕ) (s t : Newton ℝ)
    (h : newtonLoop P auxin tzeta ltzeta fuel s = (t, Exit.converged)) :
    ∃ tphi : ℝ, t.tphi = tphi - ((toAux P auxin (Ang.ofTan tphi)).1.tan - tzeta) / (toAux P auxin (Ang.ofTan tphi)).2 ∧
      tphi = (2 : ℝ) ^ t.ltphi := by
  induction fuel generalizing s with
  | zero => simp [newtonLoop] at h
  | succ k ih =>
    simp only [newtonLoop] at h
    split at h
    · simp at h
    · split at h
      · simp at h
      · split at h
        · simp only [Prod.mk.injEq, and_true] at h
          subst h
          exact ⟨_, rfl, rfl⟩
        · split_ifs at h <;> exact ih _ h

/-- the iteration count never exceeds the budget by more than the final step -/
theorem newtonLoop_count (P : AL ℝ) (auxin : Int) (tzeta ltzeta : ℝ) (fuel : ℕ) (s : Newton ℝ) (hs : s.n ≤ numit) :
    (newtonLoop P auxin tzeta ltzeta fuel s).1.n ≤ numit + 1 := by
  induction fuel generalizing s with
  | zero => simp only [newtonLoop]; omega
  | succ k ih =>
    simp only [newtonLoop]
    split
    · simp only; omega
    · rename_i hn
      have hn' : s.n < numit := by simpa using hn
      split
      · simp only; omega
      · split
        · simp only; omega
        · split_ifs <;> exact ih _ (by simp only; omega)

/-! ### `Ellipsoid` -/

/-- `QuarterMeridian = (π/2)·RectifyingRadius(exact)`, i.e. `2 R_G(a², b²)` -/
theorem quarterMeridian_eq (P : AL ℝ) :
    quarterMeridian P = π / 2 * rectifyingRadiusExact P ∧ quarterMeridian P = 2 * rg2 (P.a ^ 2) (P.b ^ 2) := by
  have hpi : π ≠ 0 := Real.pi_ne_zero
  refine ⟨?_, ?_⟩
  · unfold quarterMeridian
    rw [pi_real, lit_real]
  · simp only [quarterMeridian, rectifyingRadiusExact, pi_real, lit_real, sq_real]; push_cast
    field_simp
    ring

/-- `Area = 4π·AuthalicRadiusSquared(exact) = 2π(a² + b² asinh(e′)/e)` (oblate), `2π(a² + b² atan(e)/e)` (prolate), `4πa²` (sphere) -/
theorem area_eq (a f : ℝ) (ha : a ≠ 0) (hf : f < 1) :
    let P := AL.mk2 a f
    area P = 4 * π * authalicRadiusSqExact P ∧
    (0 < f → area P = 2 * π * (a ^ 2 + P.b ^ 2 * (Real.arsinh P.e1 / P.e))) ∧
    (f < 0 → area P = 2 * π * (a ^ 2 + P.b ^ 2 * (Real.arctan P.e / P.e))) ∧
    (f = 0 → area P = 4 * π * a ^ 2) := by
  intro P
  have _ := ha
  have h1 : (1 : ℝ) - f ≠ 0 := by linarith
  have hb : P.b = a * (1 - f) := by simp only [P, AL.mk2, lit_real]; push_cast; rfl
  have hq : P.q = 1 / ((1 - f) * (1 - f)) +
      (if f = 0 then 1 else (if 0 < f then Real.arsinh P.e1 else Real.arctan P.e) / P.e) := by
    simp only [P, AL.mk2, qOf, eqb_real, ltb_real, lit_real, decide_eq_true_eq, asinh_real, atan_real]
    push_cast
    rfl
  have harea : area P = 4 * π * (P.b ^ 2 * P.q / 2) := by
    simp only [area, authalicRadiusSqExact, lit_real, sq_real, pi_real]
  refine ⟨?_, ?_, ?_, ?_⟩
  · simp only [area, lit_real, pi_real]
  · intro h
    rw [harea, hq, if_neg h.ne', if_pos h, hb]
    generalize Real.arsinh P.e1 / P.e = X
    field_simp
    ring
  · intro h
    rw [harea, hq, if_neg h.ne, if_neg (not_lt.mpr h.le), hb]
    generalize Real.arctan P.e / P.e = X
    field_simp
    ring
  · intro h
    rw [harea, hq, if_pos h, hb, h]
    ring

/-- Euler's formula: `1/R(α) = cos²α / M + sin²α / N` -/
theorem euler_formula (a e2 s salp calp : ℝ) (ha : a ≠ 0) (he : e2 ≠ 1) (hv : 0 < 1 - e2 * s ^ 2) :
    1 / normalCurvatureRadius a e2 s salp calp =
      calp ^ 2 / meridionalCurvatureRadius a e2 s + salp ^ 2 / transverseCurvatureRadius a e2 s := by
  have h1 : (1 : ℝ) - e2 ≠ 0 := sub_ne_zero.mpr (Ne.symm he)
  have hsv : 0 < √(1 - e2 * s ^ 2) := Real.sqrt_pos.mpr hv
  simp only [normalCurvatureRadius, meridionalCurvatureRadius, transverseCurvatureRadius, vOf, lit_real, sq_real, sqrt_real]
  push_cast
  set v := 1 - e2 * s ^ 2
  have hv' : v ≠ 0 := hv.ne'
  have hsv' : √v ≠ 0 := hsv.ne'
  field_simp

/-- `M = N (1 − e²)/(1 − e² sin²φ)`; along the meridian (`α = 0`) the normal radius is `M`, across it (`α = 90°`) it is `N` -/
theorem curvature_relations (a e2 s : ℝ) (he : e2 ≠ 1) (hv : 0 < 1 - e2 * s ^ 2) :
    meridionalCurvatureRadius a e2 s = transverseCurvatureRadius a e2 s * (1 - e2) / (1 - e2 * s ^ 2) ∧
    normalCurvatureRadius a e2 s 0 1 = meridionalCurvatureRadius a e2 s ∧
    normalCurvatureRadius a e2 s 1 0 = transverseCurvatureRadius a e2 s := by
  have h1 : (1 : ℝ) - e2 ≠ 0 := sub_ne_zero.mpr (Ne.symm he)
  have hsv : 0 < √(1 - e2 * s ^ 2) := Real.sqrt_pos.mpr hv
  simp only [normalCurvatureRadius, meridionalCurvatureRadius, transverseCurvatureRadius, vOf, lit_real, sq_real, sqrt_real]
  push_cast
  set v := 1 - e2 * s ^ 2
  have hv' : v ≠ 0 := hv.ne'
  have hsv' : √v ≠ 0 := hsv.ne'
  refine ⟨?_, ?_, ?_⟩
  · field_simp
  · norm_num
    field_simp
  · norm_num

/-- `CircleRadius = N cos φ`, `CircleHeight = N (1 − e²) sin φ`, and the point lies on the ellipse -/
theorem circle_closed_form (a f s c : ℝ) (hf : f < 1) (hsc : s ^ 2 + c ^ 2 = 1) :
    let P := AL.mk2 a f
    circleRadius P s c = transverseCurvatureRadius a P.e2 s * c ∧
    circleHeight P s c = transverseCurvatureRadius a P.e2 s * (1 - P.e2) * s ∧
    (a ≠ 0 → (circleRadius P s c / a) ^ 2 + (circleHeight P s c / P.b) ^ 2 = 1) := by
  intro P
  have h1 : 0 < 1 - f := by linarith
  have hb : P.b = a * (1 - f) := by simp only [P, AL.mk2, lit_real]; push_cast; rfl
  have ha : P.a = a := rfl
  have hfm : P.fm1 = 1 - f := by simp only [P, AL.mk2, lit_real]; push_cast; rfl
  have he2 : P.e2 = f * (2 - f) := by simp only [P, AL.mk2, lit_real]
  have hc1 : |c| ≤ 1 := abs_le.mpr ⟨by nlinarith [sq_nonneg s], by nlinarith [sq_nonneg s]⟩
  have hv : 1 - f * (2 - f) * s ^ 2 = (s * (1 - f)) ^ 2 + c ^ 2 := by linear_combination (-1 : ℝ) * hsc
  have hvpos : 0 < (s * (1 - f)) ^ 2 + c ^ 2 := by
    rcases eq_or_ne c 0 with hc | hc
    · have hs2 : s ^ 2 = 1 := by rw [hc] at hsc; linarith
      have : 0 < (s * (1 - f)) ^ 2 := by rw [mul_pow, hs2]; positivity
      rw [hc]; linarith
    · positivity
  have hr : 0 < √((s * (1 - f)) ^ 2 + c ^ 2) := Real.sqrt_pos.mpr hvpos
  have hnorm : (convertExact P 0 1 ⟨s, c⟩).normalized =
      ⟨s * (1 - f) / √((s * (1 - f)) ^ 2 + c ^ 2), c / √((s * (1 - f)) ^ 2 + c ^ 2)⟩ := by
    rw [convertExact_0_1, normalized_eq, hfm]
    intro h
    exact absurd (lt_of_lt_of_le (lt_trans one_lt_maxHalf h.2) hc1) (lt_irrefl _)
  have hN : transverseCurvatureRadius a (f * (2 - f)) s = a / √((s * (1 - f)) ^ 2 + c ^ 2) := by
    simp only [transverseCurvatureRadius, vOf, lit_real, sq_real, sqrt_real]
    push_cast
    rw [hv]
  have hsq := Real.sq_sqrt hvpos.le
  have hr' := hr.ne'
  have h1' := h1.ne'
  simp only [circleRadius, circleHeight, hnorm, ha, hb, he2, hN]
  generalize √((s * (1 - f)) ^ 2 + c ^ 2) = r at *
  refine ⟨?_, ?_, ?_⟩
  · ring
  · ring
  · intro ha0
    field_simp
    first | linear_combination hsq | linear_combination -hsq

end GeoVerif.Proofs.AuxExactP
