import GeoVerif.Model.RhumbSeries
import GeoVerif.Proofs.Rhumb
import GeoVerif.Props.C16
import Mathlib.Analysis.SpecialFunctions.Trigonometric.Sinc
import Mathlib.Analysis.SpecialFunctions.Trigonometric.Deriv
import Mathlib.Analysis.Calculus.Deriv.Slope
/-!
# Lemmas for the series path of `Rhumb` (`Model/RhumbSeries.lean`) read over ℝ
-/
namespace GeoVerif.Proofs.RhumbSeries
open GeoVerif GeoVerif.Rhumb GeoVerif.RhumbS GeoVerif.Proofs.Rhumb Real

/-! ### `AuxAngle` over ℝ -/

theorem arg_unit (η : ℝ) (h1 : -π < η) (h2 : η ≤ π) : Complex.arg ⟨cos η, sin η⟩ = η := by
  have : (⟨cos η, sin η⟩ : ℂ) = ((1 : ℝ) : ℂ) * (Complex.cos η + Complex.sin η * Complex.I) := by
    apply Complex.ext <;> simp [Complex.cos_ofReal_re, Complex.sin_ofReal_re, Complex.cos_ofReal_im, Complex.sin_ofReal_im]
  rw [this]
  exact Complex.arg_mul_cos_add_sin_mul_I one_pos ⟨h1, h2⟩

/-- `AuxAngle::normalized()` of a point `r (sin ζ, cos ζ)`, `r > 0` -/
theorem normalized_polar (r ζ : ℝ) (hr : 0 < r) : normalized (r * sin ζ, r * cos ζ) = (sin ζ, cos ζ) := by
  unfold normalized
  simp only [hypot_real]
  have h : Real.sqrt ((r * sin ζ) ^ 2 + (r * cos ζ) ^ 2) = r := by
    have : (r * sin ζ) ^ 2 + (r * cos ζ) ^ 2 = r ^ 2 := by
      have := Real.sin_sq_add_cos_sq ζ; nlinarith
    rw [this, Real.sqrt_sq hr.le]
  rw [h]
  have hr' : r ≠ 0 := hr.ne'
  ext <;> simp <;> field_simp

theorem normalized_unit (ζ : ℝ) : normalized (sin ζ, cos ζ) = (sin ζ, cos ζ) := by
  have := normalized_polar 1 ζ one_pos
  simpa using this

/-- `AuxAngle::radians()` of a unit point -/
theorem radians_unit (η : ℝ) (h1 : -π < η) (h2 : η ≤ π) : radians (sin η, cos η) = η := by
  unfold radians; simp only [atan2_real]; exact arg_unit η h1 h2

theorem tanA_unit (η : ℝ) : tanA (sin η, cos η) = Real.tan η := by
  unfold tanA; rw [Real.tan_eq_sin_div_cos]

/-! ### `Convert` (series) returns the series auxiliary latitude -/

/-- the series auxiliary latitude `η(ζ) = ζ + Σ_k c_k sin((2k+2)ζ)`, the sum being the code's Clenshaw sum -/
noncomputable def serA (c : List ℝ) (ζ : ℝ) : ℝ := ζ + clenshaw true (sin ζ) (cos ζ) c

theorem rotate_real (sz cz d : ℝ) (hd : |d| < π / 2) :
    AuxLat.rotate sz cz d = (sz * cos d + cz * sin d, cz * cos d - sz * sin d) := by
  have hpi := Real.pi_pos
  obtain ⟨h1, h2⟩ := abs_lt.mp hd
  have hc : 0 < cos d := Real.cos_pos_of_mem_Ioo ⟨h1, h2⟩
  unfold AuxLat.rotate
  simp only [sin_real, cos_real, eqb_real, ofNat_real, Nat.cast_zero, decide_eq_true_eq]
  split_ifs with h
  · have hs : sin d = 0 := by
      rcases div_eq_zero_iff.mp h with h | h
      · exact h
      · exact absurd h hc.ne'
    have hd0 : d = 0 := (Real.sin_eq_zero_iff_of_lt_of_lt (by linarith) (by linarith)).mp hs
    subst hd0; simp
  · rfl

theorem convertS_angle (c : List ℝ) (r ζ : ℝ) (hr : 0 < r) (hd : |clenshaw true (sin ζ) (cos ζ) c| < π / 2) :
    convertS c (r * sin ζ, r * cos ζ) = (sin (serA c ζ), cos (serA c ζ)) := by
  unfold convertS serA
  rw [normalized_polar r ζ hr]
  simp only
  rw [rotate_real _ _ _ hd, Real.sin_add, Real.cos_add]

/-! ### `DClenshaw` on two angles: divided difference for every `Δ`, derivative at `Δ = 0` -/

/-- `sin(ζ₂ − ζ₁)/Δ` as the code forms it is the cardinal sine of `Δ` (also in the `Delta == 1` reading) -/
theorem szetamd_angle (z Δ : ℝ) : szetamd Δ (sin z) (cos z) (sin (z + Δ)) (cos (z + Δ)) = Real.sinc Δ := by
  unfold szetamd
  simp only [eqb_real, decide_eq_true_eq, lit0, lit1, sin_real]
  split_ifs with h1 h0
  · subst h1
    rw [Real.sinc_of_ne_zero one_ne_zero, div_one]
    have := Real.sin_sub (z + 1) z
    rw [show z + 1 - z = 1 by ring] at this
    rw [this]
  · subst h0; simp
  · rw [Real.sinc_of_ne_zero h0]

theorem sinc_mul_self (Δ : ℝ) : Real.sinc Δ * Δ = sin Δ := by
  by_cases h : Δ = 0
  · subst h; simp
  · rw [Real.sinc_of_ne_zero h]; field_simp

/-- for every `Δ` (no exception at `Δ = 1`, trivial at `Δ = 0`) -/
theorem dclenshaw_angle (sinp : Bool) (z Δ : ℝ) (cs : List ℝ) :
    DClenshaw sinp Δ (sin z) (cos z) (sin (z + Δ)) (cos (z + Δ)) cs * Δ
      = clenshaw sinp (sin (z + Δ)) (cos (z + Δ)) cs - clenshaw sinp (sin z) (cos z) cs := by
  apply dclenshaw_gen _ _ _ _ _ _ _ (Real.sin_sq_add_cos_sq z) (Real.sin_sq_add_cos_sq (z + Δ))
  rw [szetamd_angle, sinc_mul_self]
  have := Real.sin_sub (z + Δ) z
  rw [show z + Δ - z = Δ by ring] at this
  rw [this]

theorem dclen_continuous (Xa Xb D2 : ℝ → ℝ) (ha : Continuous Xa) (hb : Continuous Xb) (hd : Continuous D2) (cs : List ℝ) :
    Continuous (fun t => (dclen (Xa t) (Xb t) (D2 t) cs).1.1) ∧ Continuous (fun t => (dclen (Xa t) (Xb t) (D2 t) cs).1.2) ∧
    Continuous (fun t => (dclen (Xa t) (Xb t) (D2 t) cs).2.1) ∧ Continuous (fun t => (dclen (Xa t) (Xb t) (D2 t) cs).2.2) := by
  induction cs with
  | nil => simp only [dclen]; exact ⟨continuous_const, continuous_const, continuous_const, continuous_const⟩
  | cons c cs ih =>
    obtain ⟨h1, h2, h3, h4⟩ := ih
    simp only [dclen_cons]
    refine ⟨?_, ?_, h1, h2⟩
    · exact (((ha.mul h1).add ((hd.mul hb).mul h2)).sub h3).add continuous_const
    · exact ((hb.mul h1).add (ha.mul h2)).sub h4

/-- the value of `DClenshaw` on the angles `z`, `z + Δ` as a continuous function of `Δ` -/
theorem dclenshaw_continuous (sinp : Bool) (z : ℝ) (cs : List ℝ) :
    Continuous (fun Δ => DClenshaw sinp Δ (sin z) (cos z) (sin (z + Δ)) (cos (z + Δ)) cs) := by
  have hs : Continuous (fun Δ : ℝ => sin (z + Δ)) := Real.continuous_sin.comp (continuous_const.add continuous_id)
  have hc : Continuous (fun Δ : ℝ => cos (z + Δ)) := Real.continuous_cos.comp (continuous_const.add continuous_id)
  have hczp : Continuous (fun Δ : ℝ => cos (z + Δ) * cos z - sin (z + Δ) * sin z) := (hc.mul continuous_const).sub (hs.mul continuous_const)
  have hszp : Continuous (fun Δ : ℝ => sin (z + Δ) * cos z + cos (z + Δ) * sin z) := (hs.mul continuous_const).add (hc.mul continuous_const)
  have hczm : Continuous (fun Δ : ℝ => cos (z + Δ) * cos z + sin (z + Δ) * sin z) := (hc.mul continuous_const).add (hs.mul continuous_const)
  have hsinc := Real.continuous_sinc
  have hXa : Continuous (fun Δ : ℝ => 2 * (cos (z + Δ) * cos z - sin (z + Δ) * sin z) * (cos (z + Δ) * cos z + sin (z + Δ) * sin z)) :=
    (continuous_const.mul hczp).mul hczm
  have hXb : Continuous (fun Δ : ℝ => -(2 * (sin (z + Δ) * cos z + cos (z + Δ) * sin z) * Real.sinc Δ)) :=
    ((continuous_const.mul hszp).mul hsinc).neg
  have hD2 : Continuous (fun Δ : ℝ => Δ * Δ) := continuous_id.mul continuous_id
  obtain ⟨k1, k2, _, k4⟩ := dclen_continuous _ _ _ hXa hXb hD2 cs
  unfold DClenshaw
  simp only [szetamd_angle, lit0, lit1, lit2]
  cases sinp
  · simp only [Bool.false_eq_true, if_false]
    exact continuous_const.mul (((hczp.mul hczm).mul k2).add (((hszp.neg).mul hsinc).mul k1) |>.sub (continuous_const.mul k4))
  · simp only [if_true]
    exact continuous_const.mul (((hszp.mul hczm).mul k2).add ((hczp.mul hsinc).mul k1) |>.sub (continuous_const.mul k4))

/-- **confluent case**: `DClenshaw(sinp, 0, sin ζ, cos ζ, sin ζ, cos ζ, c)` is the derivative of the Clenshaw sum at `ζ` -/
theorem dclenshaw_hasDerivAt (sinp : Bool) (z : ℝ) (cs : List ℝ) :
    HasDerivAt (fun x => clenshaw sinp (sin x) (cos x) cs) (DClenshaw sinp 0 (sin z) (cos z) (sin z) (cos z) cs) z := by
  rw [hasDerivAt_iff_tendsto_slope_zero]
  have hG := (dclenshaw_continuous sinp z cs).tendsto 0
  simp only [add_zero] at hG
  refine (hG.mono_left nhdsWithin_le_nhds).congr' ?_
  filter_upwards [self_mem_nhdsWithin] with t ht
  have ht0 : t ≠ 0 := ht
  rw [smul_eq_mul, ← dclenshaw_angle sinp z t cs]
  field_simp

/-! ### `DConvert` -/

theorem dconvert_dd' (c : List ℝ) (r1 r2 z1 z2 : ℝ) (hr1 : 0 < r1) (hr2 : 0 < r2)
    (h1 : -π < z1 ∧ z1 ≤ π) (h2 : -π < z2 ∧ z2 ≤ π) :
    dconvert c (r1 * sin z1, r1 * cos z1) (r2 * sin z2, r2 * cos z2) * (z2 - z1) = serA c z2 - serA c z1 := by
  unfold dconvert serA
  rw [normalized_polar r1 z1 hr1, normalized_polar r2 z2 hr2]
  simp only
  rw [radians_unit z1 h1.1 h1.2, radians_unit z2 h2.1 h2.2]
  have h := dclenshaw_angle true z1 (z2 - z1) c
  rw [show z1 + (z2 - z1) = z2 by ring] at h
  simp only [lit1]
  linear_combination h

theorem dconvert_confluent' (c : List ℝ) (r1 r2 z : ℝ) (hr1 : 0 < r1) (hr2 : 0 < r2) :
    HasDerivAt (serA c) (dconvert c (r1 * sin z, r1 * cos z) (r2 * sin z, r2 * cos z)) z := by
  unfold dconvert
  rw [normalized_polar r1 z hr1, normalized_polar r2 z hr2]
  simp only [sub_self, lit1]
  exact (hasDerivAt_id z).add (dclenshaw_hasDerivAt true z c)

/-! ### `dmu/dpsi` (series mode): the divided difference of the series rectifying latitude with respect to the isometric latitude -/

/-- isometric latitude of a conformal latitude: `ψ = asinh(tan χ)` (`AuxAngle::lam`) -/
noncomputable def psiOf (χ : ℝ) : ℝ := Real.arsinh (Real.tan χ)

theorem lam_unit (χ : ℝ) : lam (sin χ, cos χ) = psiOf χ := by
  unfold lam psiOf; rw [tanA_unit]; rfl

theorem psiOf_injOn {x y : ℝ} (hx : |x| < π / 2) (hy : |y| < π / 2) (h : psiOf x = psiOf y) : x = y := by
  have ht : Real.tan x = Real.tan y := Real.arsinh_injective h
  obtain ⟨x1, x2⟩ := abs_lt.mp hx; obtain ⟨y1, y2⟩ := abs_lt.mp hy
  have := congrArg Real.arctan ht
  rwa [Real.arctan_tan x1 x2, Real.arctan_tan y1 y2] at this

theorem dlam_angles (x y : ℝ) (hx : |x| < π / 2) (hy : |y| < π / 2) :
    Dlam (Real.tan x) (Real.tan y) * (y - x) = psiOf y - psiOf x := by
  obtain ⟨x1, x2⟩ := abs_lt.mp hx; obtain ⟨y1, y2⟩ := abs_lt.mp hy
  have h := dlam_dd (Real.tan x) (Real.tan y)
  rwa [Real.arctan_tan x1 x2, Real.arctan_tan y1 y2] at h

theorem sc_tan (x : ℝ) (hx : |x| < π / 2) : sc (Real.tan x) = 1 / cos x := by
  obtain ⟨x1, x2⟩ := abs_lt.mp hx
  have hc : 0 < cos x := Real.cos_pos_of_mem_Ioo ⟨x1, x2⟩
  rw [sc_real, Real.tan_eq_sin_div_cos]
  have : 1 + (sin x / cos x) ^ 2 = (1 / cos x) ^ 2 := by
    have := Real.sin_sq_add_cos_sq x; field_simp; nlinarith
  rw [this, Real.sqrt_sq (by positivity)]

theorem abs_lt_pi_of_lt_half {x : ℝ} (hx : |x| < π / 2) : -π < x ∧ x ≤ π := by
  obtain ⟨x1, x2⟩ := abs_lt.mp hx
  have := Real.pi_pos
  constructor <;> linarith

/-- `DConvert/Dlam · (ψ₂ − ψ₁) = η(χ₂) − η(χ₁)` for the series `η = χ + Σ c_k sin((2k+2)χ)` of any coefficient list -/
theorem dconv_dlam_dd (c : List ℝ) (x y : ℝ) (hx : |x| < π / 2) (hy : |y| < π / 2) :
    dconvert c (sin x, cos x) (sin y, cos y) / Dlam (Real.tan x) (Real.tan y) * (psiOf y - psiOf x) = serA c y - serA c x := by
  by_cases hne : x = y
  · subst hne; simp
  have hD := dconvert_dd' c 1 1 x y one_pos one_pos (abs_lt_pi_of_lt_half hx) (abs_lt_pi_of_lt_half hy)
  simp only [one_mul] at hD
  have hL := dlam_angles x y hx hy
  have hyx : y - x ≠ 0 := sub_ne_zero.mpr (Ne.symm hne)
  have hψ : psiOf y - psiOf x ≠ 0 := by
    intro h; exact hne (psiOf_injOn hx hy (by linarith))
  have hLne : Dlam (Real.tan x) (Real.tan y) ≠ 0 := by
    intro h0; rw [h0, zero_mul] at hL; exact hψ hL.symm
  rw [← hD, ← hL]; field_simp

/-- `dmudpsi · (ψ₂ − ψ₁) = μ(χ₂) − μ(χ₁)` with `μ = χ + Σ c_k sin((2k+2)χ)` the χ→μ series -/
theorem dmudpsiS_dd (P : Params ℝ) (x y : ℝ) (hx : |x| < π / 2) (hy : |y| < π / 2) :
    dmudpsiS P (sin x, cos x) (sin y, cos y) * (psiOf y - psiOf x) = serA P.cMuChi y - serA P.cMuChi x := by
  unfold dmudpsiS
  rw [tanA_unit, tanA_unit]
  exact dconv_dlam_dd P.cMuChi x y hx hy

/-- on a parallel (`χ₁ = χ₂`): `dmudpsi = μ′(χ) cos χ` -/
theorem dmudpsiS_confluent (P : Params ℝ) (x : ℝ) (hx : |x| < π / 2) :
    ∃ m' : ℝ, HasDerivAt (serA P.cMuChi) m' x ∧ dmudpsiS P (sin x, cos x) (sin x, cos x) = m' * cos x := by
  refine ⟨dconvert P.cMuChi (sin x, cos x) (sin x, cos x), ?_, ?_⟩
  · have := dconvert_confluent' P.cMuChi 1 1 x one_pos one_pos
    simpa using this
  · unfold dmudpsiS
    rw [tanA_unit, dlam_confluent, ← sc_real, sc_tan x hx]
    obtain ⟨x1, x2⟩ := abs_lt.mp hx
    have hc : 0 < cos x := Real.cos_pos_of_mem_Ioo ⟨x1, x2⟩
    field_simp

/-! ### `MeanSinXi` (series) -/

theorem Dp0Dpsi_confluent_aux (x : ℝ) : Dp0Dpsi x x = sn x := by simp [Dp0Dpsi]

/-- spherical rhumb-area term `p₀(χ) = asinh(h(tan χ))`, `h(t) = t sn(t)/2` (`= log sec χ`) -/
noncomputable def p0Of (χ : ℝ) : ℝ := Real.arsinh (hfun (Real.tan χ))
/-- ellipsoidal correction `p(β) = Σ_l P_l cos((2l+2)β)` as the code sums it -/
noncomputable def pOf (pP : List ℝ) (β : ℝ) : ℝ := clenshaw false (sin β) (cos β) pP

theorem convertS_angle1 (c : List ℝ) (ζ : ℝ) (hd : |clenshaw true (sin ζ) (cos ζ) c| < π / 2) :
    convertS c (sin ζ, cos ζ) = (sin (serA c ζ), cos (serA c ζ)) := by
  have := convertS_angle c 1 ζ one_pos hd
  simpa using this

theorem cos_ne_zero_of_abs_lt {x : ℝ} (hx : |x| < π / 2) : cos x ≠ 0 := by
  obtain ⟨x1, x2⟩ := abs_lt.mp hx
  exact (Real.cos_pos_of_mem_Ioo ⟨x1, x2⟩).ne'

/-- the parametric latitude `MeanSinXi` forms from a conformal latitude: `β = B(Φ(χ))`, `Φ` the χ→φ series, `B` the φ→β series -/
noncomputable def betaVia (P : Params ℝ) (χ : ℝ) : ℝ := serA P.cBetaPhi (serA P.cPhiChi χ)

/-- hypotheses under which the two-step conversion χ → φ → β of `MeanSinXi` stays on the principal branch
    (corrections smaller than a right angle, `β ∈ (−π, π]`) — they hold with a margin of 10³ for `|f| ≤ 0.1` -/
structure BetaOK (P : Params ℝ) (χ : ℝ) : Prop where
  dphi : |clenshaw true (sin χ) (cos χ) P.cPhiChi| < π / 2
  dbeta : |clenshaw true (sin (serA P.cPhiChi χ)) (cos (serA P.cPhiChi χ)) P.cBetaPhi| < π / 2
  range : -π < betaVia P χ ∧ betaVia P χ ≤ π

theorem meanSinXi_series' (P : Params ℝ) (x y : ℝ) (hx : |x| < π / 2) (hy : |y| < π / 2) (bx : BetaOK P x) (by' : BetaOK P y) :
    meanSinXi P (sin x, cos x) (sin y, cos y) * (psiOf y - psiOf x) =
      (p0Of y - p0Of x) +
      DClenshaw false (betaVia P y - betaVia P x) (sin (betaVia P x)) (cos (betaVia P x)) (sin (betaVia P y)) (cos (betaVia P y)) P.pP
        * (serA P.cBetaChi y - serA P.cBetaChi x) := by
  unfold meanSinXi
  simp only [eqb_real, lit0, decide_eq_true_eq, if_neg (cos_ne_zero_of_abs_lt hx), if_neg (cos_ne_zero_of_abs_lt hy)]
  unfold meanSinXiReg
  simp only []
  rw [convertS_angle1 _ x bx.dphi, convertS_angle1 _ y by'.dphi, convertS_angle1 _ _ bx.dbeta, convertS_angle1 _ _ by'.dbeta,
    normalized_unit, normalized_unit]
  simp only []
  have rx := radians_unit _ bx.range.1 bx.range.2
  have ry := radians_unit _ by'.range.1 by'.range.2
  have h1 := dp0dpsi_dd (Real.tan x) (Real.tan y)
  have h2 := dconv_dlam_dd P.cBetaChi x y hx hy
  unfold betaVia at rx ry ⊢
  rw [rx, ry, tanA_unit, tanA_unit]
  unfold p0Of psiOf at *
  linear_combination h1 + (DClenshaw false (serA P.cBetaPhi (serA P.cPhiChi y) - serA P.cBetaPhi (serA P.cPhiChi x)) (sin (serA P.cBetaPhi (serA P.cPhiChi x))) (cos (serA P.cBetaPhi (serA P.cPhiChi x))) (sin (serA P.cBetaPhi (serA P.cPhiChi y))) (cos (serA P.cBetaPhi (serA P.cPhiChi y))) P.pP) * h2

/-- the divided difference of `p` that `MeanSinXi` uses: for every pair of angles -/
theorem dp_dd (pP : List ℝ) (b1 b2 : ℝ) :
    DClenshaw false (b2 - b1) (sin b1) (cos b1) (sin b2) (cos b2) pP * (b2 - b1) = pOf pP b2 - pOf pP b1 := by
  have := dclenshaw_angle false b1 (b2 - b1) pP
  rwa [show b1 + (b2 - b1) = b2 by ring] at this

/-! ### `Math::atan2d` over ℝ (octant logic proved in `Props/C16.lean`) -/

open GeoVerif.Props.C16 in
theorem angOps_real : (angOps : MathF.AngOps ℝ) = realOps := by
  unfold angOps realOps
  rw [MathF.AngOps.mk.injEq]
  refine ⟨rfl, rfl, ?_, rfl, rfl, rfl, ?_, ?_, ?_⟩
  · funext a; simp only [ltb_real, lit0]
  · funext a b; simp only [ltb_real, abs_real, decide_eq_true_eq, lit0]
  · simp only [lit_real]
  · simp only [lit_real]

theorem degree_real : (degree : ℝ) = π / 180 := by
  unfold degree; simp only [lit_real]; rfl

open GeoVerif.Props.C16 in
/-- `atan2d(y, x)` is the argument of `(x, y)` in degrees, in `(−180, 180]` -/
theorem atan2d_real (y x : ℝ) (h : ¬ (x = 0 ∧ y = 0)) : atan2d y x = argd y x := by
  unfold atan2d
  rw [angOps_real]
  have := (atan2d_octant x y h).2.2
  have e : ∀ a b : ℝ, RealLike.atan2 a b / (degree : ℝ) = argd a b := by
    intro a b; rw [degree_real]; unfold argd; simp only [atan2_real]; field_simp
  simp only [e]
  exact this

open GeoVerif.Props.C16 in
/-- a direction given in degrees by `argd` has the sine and cosine of the point -/
theorem argd_sin_cos (y x : ℝ) (h : ¬ (x = 0 ∧ y = 0)) :
    Real.sqrt (y ^ 2 + x ^ 2) * sin (argd y x * π / 180) = y ∧ Real.sqrt (y ^ 2 + x ^ 2) * cos (argd y x * π / 180) = x := by
  have hz : (⟨x, y⟩ : ℂ) ≠ 0 := by
    intro hc; apply h
    exact ⟨by simpa using congrArg Complex.re hc, by simpa using congrArg Complex.im hc⟩
  have hnorm : ‖(⟨x, y⟩ : ℂ)‖ = Real.sqrt (y ^ 2 + x ^ 2) := by
    rw [Complex.norm_def, Complex.normSq_apply]; congr 1; ring
  have hpos : 0 < Real.sqrt (y ^ 2 + x ^ 2) := by rw [← hnorm]; exact norm_pos_iff.mpr hz
  have e : argd y x * π / 180 = Complex.arg ⟨x, y⟩ := by unfold argd; field_simp
  rw [e, Complex.sin_arg, Complex.cos_arg hz, hnorm]
  constructor <;> field_simp

/-! ### `GenInverse` (series) -/

/-- hypotheses on a geographic latitude `φ`: the φ→χ correction is below a right angle and `χ` is not a pole -/
structure ChiOK (P : Params ℝ) (φ : ℝ) : Prop where
  d : |clenshaw true (sin φ) (cos φ) P.cChiPhi| < π / 2
  range : |serA P.cChiPhi φ| < π / 2

/-- what `GenInverse` computes, in terms of the series conformal latitudes of the end points -/
theorem genInverseS_unfold (P : Params ℝ) (φ1 φ2 lon12 : ℝ) (h1 : ChiOK P φ1) (h2 : ChiOK P φ2) :
    genInverseS P (sin φ1, cos φ1) (sin φ2, cos φ2) lon12 =
      (Real.sqrt ((lon12 * (π / 180)) ^ 2 + (psiOf (serA P.cChiPhi φ2) - psiOf (serA P.cChiPhi φ1)) ^ 2)
          * dmudpsiS P (sin (serA P.cChiPhi φ1), cos (serA P.cChiPhi φ1)) (sin (serA P.cChiPhi φ2), cos (serA P.cChiPhi φ2)) * P.rm,
       atan2d (lon12 * (π / 180)) (psiOf (serA P.cChiPhi φ2) - psiOf (serA P.cChiPhi φ1)),
       P.c2 * lon12 * meanSinXi P (sin (serA P.cChiPhi φ1), cos (serA P.cChiPhi φ1)) (sin (serA P.cChiPhi φ2), cos (serA P.cChiPhi φ2))) := by
  unfold genInverseS
  simp only []
  rw [convertS_angle1 _ φ1 h1.d, convertS_angle1 _ φ2 h2.d, lam_unit, lam_unit, degree_real]
  have c1 := cos_ne_zero_of_abs_lt h1.range
  have c2 := cos_ne_zero_of_abs_lt h2.range
  simp only [eqb_real, lit0, hypot_real, c1, c2, decide_false, Bool.or_self, Bool.false_eq_true, if_false]

open GeoVerif.Props.C16 in
/-- the identities that make the series inverse the *exact* rhumb inverse of the series auxiliary latitudes -/
theorem genInverseS_identities (P : Params ℝ) (φ1 φ2 lon12 : ℝ) (h1 : ChiOK P φ1) (h2 : ChiOK P φ2) :
    let r := genInverseS P (sin φ1, cos φ1) (sin φ2, cos φ2) lon12
    let χ1 := serA P.cChiPhi φ1
    let χ2 := serA P.cChiPhi φ2
    let lam12 := lon12 * (π / 180)
    let psi12 := psiOf χ2 - psiOf χ1
    let D := dmudpsiS P (sin χ1, cos χ1) (sin χ2, cos χ2)
    (¬ (psi12 = 0 ∧ lam12 = 0) → r.2.1 = argd lam12 psi12) ∧
    r.1 * cos (r.2.1 * π / 180) = P.rm * (serA P.cMuChi χ2 - serA P.cMuChi χ1) ∧
    r.1 * sin (r.2.1 * π / 180) = lam12 * D * P.rm ∧
    r.1 = Real.sqrt (lam12 ^ 2 + psi12 ^ 2) * D * P.rm ∧
    r.2.2 = P.c2 * lon12 * meanSinXi P (sin χ1, cos χ1) (sin χ2, cos χ2) := by
  intro r χ1 χ2 lam12 psi12 D
  have hr : r = (Real.sqrt (lam12 ^ 2 + psi12 ^ 2) * D * P.rm, atan2d lam12 psi12,
      P.c2 * lon12 * meanSinXi P (sin χ1, cos χ1) (sin χ2, cos χ2)) := genInverseS_unfold P φ1 φ2 lon12 h1 h2
  have hD : D * psi12 = serA P.cMuChi χ2 - serA P.cMuChi χ1 := dmudpsiS_dd P χ1 χ2 h1.range h2.range
  by_cases hz : psi12 = 0 ∧ lam12 = 0
  · -- coincident points: zero length
    obtain ⟨hp, hl⟩ := hz
    have hs : r.1 = 0 := by rw [hr]; simp [hp, hl]
    have hμ : serA P.cMuChi χ2 - serA P.cMuChi χ1 = 0 := by rw [← hD, hp, mul_zero]
    refine ⟨fun h => absurd ⟨hp, hl⟩ h, ?_, ?_, ?_, ?_⟩
    · rw [hs, hμ]; simp
    · rw [hs, hl]; simp
    · rw [hr]
    · rw [hr]
  · have haz : r.2.1 = argd lam12 psi12 := by rw [hr]; exact atan2d_real lam12 psi12 hz
    obtain ⟨hsin, hcos⟩ := argd_sin_cos lam12 psi12 hz
    refine ⟨fun _ => haz, ?_, ?_, ?_, ?_⟩
    · rw [haz]
      have : r.1 = Real.sqrt (lam12 ^ 2 + psi12 ^ 2) * D * P.rm := by rw [hr]
      rw [this, ← hD]; linear_combination (D * P.rm) * hcos
    · rw [haz]
      have : r.1 = Real.sqrt (lam12 ^ 2 + psi12 ^ 2) * D * P.rm := by rw [hr]
      rw [this]; linear_combination (D * P.rm) * hsin
    · rw [hr]
    · rw [hr]

/-! ### `Math::sincosd` on [−90, 90] and `AuxAngle::degrees()` over ℝ -/

theorem sqrt_half : Real.sqrt (1 / 2) = Real.sqrt 2 / 2 := by
  rw [show (1:ℝ) / 2 = 2 / 2 ^ 2 by norm_num, Real.sqrt_div (by norm_num), Real.sqrt_sq (by norm_num)]

theorem sincosd90_real (x : ℝ) (hx : |x| ≤ 90) : sincosd90 x = (sin (x * (π / 180)), cos (x * (π / 180))) := by
  have hpi := Real.pi_pos
  unfold sincosd90
  simp only [leb_real, ltb_real, eqb_real, abs_real, sin_real, cos_real, sqrt_real, degree_real, lit_real]
  push_cast
  by_cases h45 : |x| ≤ 45
  · simp only [h45, decide_true, if_true, beq_self_eq_true]
    by_cases e45 : 2 * |x| = 90
    · simp only [e45, decide_true, if_true]
      have hx45 : |x| = 45 := by linarith
      rcases abs_eq (by norm_num : (0:ℝ) ≤ 45) |>.mp hx45 with h | h
      · subst h
        have : (45:ℝ) * (π / 180) = π / 4 := by ring
        rw [this, Real.sin_pi_div_four, Real.cos_pi_div_four, sqrt_half]
        have : ¬ (π / 4 < 0) := by linarith
        simp [this]
      · subst h
        have : (-45:ℝ) * (π / 180) = -(π / 4) := by ring
        rw [this, Real.sin_neg, Real.cos_neg, Real.sin_pi_div_four, Real.cos_pi_div_four, sqrt_half]
        have : (-(π / 4) < 0) := by linarith
        simp [this]
    · simp only [e45, decide_false, Bool.false_eq_true, if_false]
      by_cases e30 : 3 * |x| = 90
      · simp only [e30, decide_true, if_true]
        have hx30 : |x| = 30 := by linarith
        rcases abs_eq (by norm_num : (0:ℝ) ≤ 30) |>.mp hx30 with h | h
        · subst h
          have : (30:ℝ) * (π / 180) = π / 6 := by ring
          rw [this, Real.sin_pi_div_six, Real.cos_pi_div_six]
          have : ¬ (π / 6 < 0) := by linarith
          simp [this]
        · subst h
          have : (-30:ℝ) * (π / 180) = -(π / 6) := by ring
          rw [this, Real.sin_neg, Real.cos_neg, Real.sin_pi_div_six, Real.cos_pi_div_six]
          have : (-(π / 6) < 0) := by linarith
          simp [this]
      · simp only [e30, decide_false, Bool.false_eq_true, if_false]
  · have h45' : 45 < |x| := not_le.mp h45
    simp only [h45, decide_false, Bool.false_eq_true, if_false]
    by_cases hpos : 0 < x
    · have hxa : |x| = x := abs_of_pos hpos
      rw [hxa] at h45' hx
      simp only [hpos, decide_true, if_true]
      have q10 : ((1:Int) == 0) = false := by decide
      have q11 : ((1:Int) == 1) = true := by decide
      simp only [q10, q11, Bool.false_eq_true, if_false, if_true]
      have hd : |x - 90| = 90 - x := by rw [abs_of_nonpos (by linarith)]; ring
      have hr : (x - 90) * (π / 180) = x * (π / 180) - π / 2 := by ring
      have e45 : ¬ (2 * |x - 90| = 90) := by rw [hd]; intro h; linarith
      simp only [e45, decide_false, Bool.false_eq_true, if_false]
      by_cases e30 : 3 * |x - 90| = 90
      · simp only [e30, decide_true, if_true]
        have hx60 : x = 60 := by rw [hd] at e30; linarith
        subst hx60
        have h1 : ((60:ℝ) - 90) * (π / 180) < 0 := by nlinarith
        have h2 : (60:ℝ) * (π / 180) = π / 3 := by ring
        simp only [h1, if_true]
        rw [h2, Real.sin_pi_div_three, Real.cos_pi_div_three]; simp
      · simp only [e30, decide_false, Bool.false_eq_true, if_false]
        rw [hr, Real.cos_sub_pi_div_two, Real.sin_sub_pi_div_two]; simp
    · have hneg : x < 0 := by
        rcases lt_trichotomy x 0 with h | h | h
        · exact h
        · subst h; simp at h45'; linarith
        · exact absurd h hpos
      have hxa : |x| = -x := abs_of_neg hneg
      rw [hxa] at h45' hx
      simp only [hpos, decide_false, Bool.false_eq_true, if_false]
      have q10 : ((-1:Int) == 0) = false := by decide
      have q11 : ((-1:Int) == 1) = false := by decide
      simp only [q10, q11, Bool.false_eq_true, if_false]
      have hd : |x + 90| = x + 90 := abs_of_nonneg (by linarith)
      have hr : (x + 90) * (π / 180) = x * (π / 180) + π / 2 := by ring
      have e45 : ¬ (2 * |x + 90| = 90) := by rw [hd]; intro h; linarith
      simp only [e45, decide_false, Bool.false_eq_true, if_false]
      by_cases e30 : 3 * |x + 90| = 90
      · simp only [e30, decide_true, if_true]
        have hx60 : x = -60 := by rw [hd] at e30; linarith
        subst hx60
        have h1 : ¬ (((-60:ℝ) + 90) * (π / 180) < 0) := by nlinarith
        have h2 : (-60:ℝ) * (π / 180) = -(π / 3) := by ring
        simp only [h1, if_false]
        rw [h2, Real.sin_neg, Real.cos_neg, Real.sin_pi_div_three, Real.cos_pi_div_three]; simp
      · simp only [e30, decide_false, Bool.false_eq_true, if_false]
        rw [hr, Real.cos_add_pi_div_two, Real.sin_add_pi_div_two]; simp

open GeoVerif.Props.C16 in
/-- `AuxAngle::degrees()` of a unit point -/
theorem degreesA_unit (μ : ℝ) (h1 : -π < μ) (h2 : μ ≤ π) : degreesA (sin μ, cos μ) = μ * 180 / π := by
  unfold degreesA
  have hne : ¬ (cos μ = 0 ∧ sin μ = 0) := by
    rintro ⟨hc, hs⟩; have := Real.sin_sq_add_cos_sq μ; rw [hc, hs] at this; norm_num at this
  rw [atan2d_real _ _ hne]; unfold argd; rw [arg_unit μ h1 h2]

/-! ### `GenDirect ∘ GenInverse` (series) -/

/-- the hypotheses of the closure theorem: ranges (principal branches), composition and reversion of the series -/
structure ClosureHyp (P : Params ℝ) (φ1 φ2 : ℝ) : Prop where
  chi1 : ChiOK P φ1
  chi2 : ChiOK P φ2
  cos1 : cos φ1 ≠ 0
  rm : P.rm ≠ 0
  mu1d : |clenshaw true (sin φ1) (cos φ1) P.cMuPhi| < π / 2
  mu1r : -π < serA P.cMuPhi φ1 ∧ serA P.cMuPhi φ1 ≤ π
  mu2r : |serA P.cMuPhi φ2| ≤ π / 2
  phid : |clenshaw true (sin (serA P.cMuPhi φ2)) (cos (serA P.cMuPhi φ2)) P.cPhiMu| < π / 2
  /-- composition: the χ→μ series after the φ→χ series is the φ→μ series (for the extracted tables: modulo n⁷, C15 `aux_compose`) -/
  comp1 : serA P.cMuChi (serA P.cChiPhi φ1) = serA P.cMuPhi φ1
  comp2 : serA P.cMuChi (serA P.cChiPhi φ2) = serA P.cMuPhi φ2
  /-- reversion: the μ→φ series inverts the φ→μ series at φ₂ (for the extracted tables: modulo n⁷, C15 `aux_revert`) -/
  rev : serA P.cPhiMu (serA P.cMuPhi φ2) = φ2
  dne : dmudpsiS P (sin (serA P.cChiPhi φ1), cos (serA P.cChiPhi φ1)) (sin (serA P.cChiPhi φ2), cos (serA P.cChiPhi φ2)) ≠ 0

theorem direct_inverse_closure' (P : Params ℝ) (φ1 φ2 lon12 eps2 : ℝ) (H : ClosureHyp P φ1 φ2) :
    let inv := genInverseS P (sin φ1, cos φ1) (sin φ2, cos φ2) lon12
    let L := lineInit P (sin φ1, cos φ1) (sin (inv.2.1 * π / 180)) (cos (inv.2.1 * π / 180)) eps2
    let rm2 := positionMuS P L inv.1
    let o := genPositionReg P L rm2.1 rm2.2
    rm2.2 = serA P.cMuPhi φ2 * 180 / π ∧ |rm2.2| ≤ 90 ∧ o.phi2 = (sin φ2, cos φ2) ∧ o.lon2x = lon12 ∧ o.S12 = inv.2.2 := by
  intro inv L rm2 o
  have hpi := Real.pi_pos
  obtain ⟨_, hA, hB, _, hS⟩ := genInverseS_identities P φ1 φ2 lon12 H.chi1 H.chi2
  set χ1 := serA P.cChiPhi φ1 with hχ1
  set χ2 := serA P.cChiPhi φ2 with hχ2
  set D := dmudpsiS P (sin χ1, cos χ1) (sin χ2, cos χ2) with hD
  -- the line
  have hLphi : L.phi1 = (sin φ1, cos φ1) := by
    simp only [L, lineInit, eqb_real, lit0, H.cos1, decide_false, Bool.false_eq_true, if_false]
  have hLchi : L.chi1 = (sin χ1, cos χ1) := by
    show convertS P.cChiPhi L.phi1 = _
    rw [hLphi, convertS_angle1 _ φ1 H.chi1.d]
  have hLmu : L.mu1 = serA P.cMuPhi φ1 * 180 / π := by
    show degreesA (convertS P.cMuPhi L.phi1) = _
    rw [hLphi, convertS_angle1 _ φ1 H.mu1d, degreesA_unit _ H.mu1r.1 H.mu1r.2]
  have hLs : L.salp = sin (inv.2.1 * π / 180) := rfl
  have hLc : L.calp = cos (inv.2.1 * π / 180) := rfl
  -- mu2
  have hr12 : rm2.1 = inv.1 / (P.rm * (π / 180)) := by
    show inv.1 / (P.rm * degree) = _; rw [degree_real]
  have hmu2 : rm2.2 = serA P.cMuPhi φ2 * 180 / π := by
    show L.mu1 + inv.1 / (P.rm * degree) * L.calp = _
    rw [degree_real, hLmu, hLc]
    have hrm := H.rm
    have : inv.1 / (P.rm * (π / 180)) * cos (inv.2.1 * π / 180) = (serA P.cMuChi χ2 - serA P.cMuChi χ1) * 180 / π := by
      rw [div_mul_eq_mul_div, hA]; field_simp
    rw [this, H.comp1, H.comp2]; ring
  have hle : |rm2.2| ≤ 90 := by
    rw [hmu2, abs_div, abs_mul, abs_of_pos hpi, abs_of_pos (by norm_num : (0:ℝ) < 180)]
    rw [div_le_iff₀ hpi]
    have := H.mu2r
    nlinarith
  have hsc : sincosd90 rm2.2 = (sin (serA P.cMuPhi φ2), cos (serA P.cMuPhi φ2)) := by
    rw [sincosd90_real _ hle, hmu2]
    have : serA P.cMuPhi φ2 * 180 / π * (π / 180) = serA P.cMuPhi φ2 := by field_simp
    rw [this]
  have hphi2 : o.phi2 = (sin φ2, cos φ2) := by
    show convertS P.cPhiMu (sincosd90 rm2.2) = _
    rw [hsc, convertS_angle1 _ _ H.phid, H.rev]
  have hchi2 : o.chi2 = (sin χ2, cos χ2) := by
    show convertS P.cChiPhi o.phi2 = _
    rw [hphi2, convertS_angle1 _ φ2 H.chi2.d]
  have hdm : dmudpsiS P L.chi1 o.chi2 = D := by rw [hLchi, hchi2]
  have hlon : o.lon2x = lon12 := by
    show rm2.1 * L.salp / dmudpsiS P L.chi1 o.chi2 = _
    rw [hdm, hr12, hLs]
    have hrm := H.rm; have hD0 : D ≠ 0 := H.dne
    have : inv.1 / (P.rm * (π / 180)) * sin (inv.2.1 * π / 180) = lon12 * D := by
      rw [div_mul_eq_mul_div, hB]; field_simp
    rw [this]; exact mul_div_cancel_right₀ _ hD0
  refine ⟨hmu2, hle, hphi2, hlon, ?_⟩
  show P.c2 * o.lon2x * meanSinXi P L.chi1 o.chi2 = _
  rw [hlon, hLchi, hchi2, hS]

/-! ### `MeanSinXi` on a parallel -/

theorem sn_tan (x : ℝ) (hx : |x| < π / 2) : sn (Real.tan x) = sin x := by
  rw [sn_real, sc_tan x hx, Real.tan_eq_sin_div_cos]
  have := cos_ne_zero_of_abs_lt hx
  field_simp

theorem meanSinXi_confluent' (P : Params ℝ) (x : ℝ) (hx : |x| < π / 2) (bx : BetaOK P x) :
    ∃ p' b' : ℝ, HasDerivAt (pOf P.pP) p' (betaVia P x) ∧ HasDerivAt (serA P.cBetaChi) b' x ∧
      meanSinXi P (sin x, cos x) (sin x, cos x) = sin x + p' * (b' * cos x) := by
  refine ⟨DClenshaw false 0 (sin (betaVia P x)) (cos (betaVia P x)) (sin (betaVia P x)) (cos (betaVia P x)) P.pP,
    dconvert P.cBetaChi (sin x, cos x) (sin x, cos x), dclenshaw_hasDerivAt false _ _, ?_, ?_⟩
  · have := dconvert_confluent' P.cBetaChi 1 1 x one_pos one_pos
    simpa using this
  · unfold meanSinXi
    simp only [eqb_real, lit0, decide_eq_true_eq, if_neg (cos_ne_zero_of_abs_lt hx)]
    unfold meanSinXiReg
    simp only []
    rw [convertS_angle1 _ x bx.dphi, convertS_angle1 _ _ bx.dbeta, normalized_unit]
    simp only [sub_self]
    rw [tanA_unit, Dp0Dpsi_confluent_aux, dlam_confluent, ← sc_real, sc_tan x hx, sn_tan x hx]
    have := cos_ne_zero_of_abs_lt hx
    unfold betaVia
    field_simp

/-! ### the sphere as an instance (for the non-vacuity examples of `Props/C09.lean`) -/

/-- all coefficient lists empty, unit radii -/
def sphereParams : Params ℝ := ⟨[], [], [], [], [], [], [], [], 1, 1⟩
theorem sphere_clenshaw (s c : ℝ) : clenshaw true s c [] = 0 := by simp [clenshaw, clen, lit0]
theorem sphere_serA (x : ℝ) : serA [] x = x := by unfold serA; rw [sphere_clenshaw]; ring

theorem sphere_dmudpsi (x : ℝ) (hx : |x| < π / 2) : dmudpsiS sphereParams (sin x, cos x) (sin x, cos x) = cos x := by
  obtain ⟨m', hd, he⟩ := dmudpsiS_confluent sphereParams x hx
  have hid : HasDerivAt (serA ([] : List ℝ)) 1 x := by
    have : serA ([] : List ℝ) = id := by funext y; exact sphere_serA y
    rw [this]; exact hasDerivAt_id x
  have : m' = 1 := hd.unique hid
  rw [he, this, one_mul]

end GeoVerif.Proofs.RhumbSeries
