import GeoVerif.Model.ErrContract
import GeoVerif.Model.UTMUPS
import GeoVerif.Model.MGRS
import GeoVerif.Model.GridCodes
/-! Helper lemmas for `Props/C13.lean` (NaN behaviour of the binary64 model, the leaf loop of `Node::Check`). -/
namespace GeoVerif.Proofs.ErrContract
open GeoVerif GeoVerif.ErrContract

theorem lt_nan_right (x : F64) : F64.lt x .nan = false := by cases x <;> rfl
theorem lt_nan_left (x : F64) : F64.lt .nan x = false := rfl
theorem isNaN_eq {x : F64} (h : x.isNaN = true) : x = .nan := by cases x <;> simp_all [F64.isNaN]

theorem f64_eq_self (x : F64) (h : x.isNaN = false) : F64.eq x x = true := by
  cases x with
  | nan => simp [F64.isNaN] at h
  | inf s => simp [F64.eq]
  | fin s m e =>
    simp only [F64.eq, Dy.eq, Dy.sub, Dy.add, Dy.neg, F64.toDy, Int.le_refl, if_true, Int.sub_self, Dy.shl]
    simp
    omega

/-- every index of the accepted prefix is a legal point index or the end marker -/
theorem leavesOK_bounds (np : Int) : ∀ (start : Bool) (l : Nat) (xs : List Int), leavesOK np start l xs = true →
    ∀ x ∈ xs, -1 ≤ x ∧ x < np ∨ x = -1
  | _, _, [], _ => by simp
  | start, l, x :: rest, h => by
    intro y hy
    simp only [leavesOK, Bool.and_eq_true] at h
    rcases List.mem_cons.mp hy with rfl | hy
    · cases start
      · simp at h; exact Or.inr h.1
      · simp at h
        left
        have := h.1
        by_cases hl : l = 0
        · simp [hl] at this; omega
        · simp [hl] at this; omega
    · exact leavesOK_bounds np _ _ rest h.2 y hy

theorem check_children (n : Node) (np ts : Int) (b : Nat) (h : n.check np ts b = true) (hge : n.index ≥ 0) :
    n.child0 < ts ∧ n.child1 < ts := by
  unfold Node.check at h
  simp only [Bool.and_eq_true, decide_eq_true_eq, hge, if_true] at h
  omega


theorem sub_one_inf (s : Bool) : (one - F64.inf s : F64) = .inf (!s) := by
  show F64.sub one (.inf s) = _
  rfl
/-- a product with a non-finite factor is not finite -/
theorem mul_nonfinite (a y : F64) (hy : y.isFinite = false) : (a * y).isFinite = false := by
  show (F64.mul a y).isFinite = false
  cases y with
  | nan => cases a <;> rfl
  | inf s => cases a with
    | nan => rfl
    | inf t => rfl
    | fin sa m e => simp only [F64.mul]; split <;> rfl
  | fin s m e => simp [F64.isFinite] at hy

end GeoVerif.Proofs.ErrContract
