import GeoVerif.Series.TMSeries
/-! Kernel evaluation of the reversion certificate `G ∘ F = id (mod n^{N+1})` (separate module so that the two certificates build in parallel) -/
namespace GeoVerif.Proofs.TMCert
open GeoVerif.Series.TMS
theorem revertGF : checkRevertGF = true := by decide +kernel
end GeoVerif.Proofs.TMCert
