import GeoVerif.Proofs.TwoSum
import GeoVerif.Model.Accum
/-!
# Lemmas for the accumulator state machine (`Model/Accum.lean`)

* `F64.remainder_rep` – `remainder(x, y)` of representable numbers is representable and no larger than `x`;
* `Accum.add_zero_renorm` – `Add(0)` turns any representable pair into `(RN(s + t), exact error)`;
* `Accum.addErr` and `Accum.add_spec` – one `Add` loses at most the rounding of `_t += u`.
-/
namespace GeoVerif
open Dy

theorem OnGrid.int_mul {c : ℤ} {x : ℚ} (h : OnGrid c x) (n : ℤ) : OnGrid c ((n:ℚ) * x) := by
  obtain ⟨j, rfl⟩ := h; exact ⟨n * j, by push_cast; ring⟩

namespace F64

theorem abs_int_lt_one {n : ℤ} (h : |(n:ℚ)| < 1) : n = 0 := by
  rw [← Int.cast_abs] at h
  have h1 : |n| < 1 := by exact_mod_cast h
  have h2 := abs_nonneg n
  exact abs_eq_zero.mp (by omega)

/-- `remainder(x, y)` of representable `x` and representable `y ≠ 0` is representable, and no larger than `x` or `|y|/2` -/
theorem remainder_rep (sx sy : Bool) (mx my : ℕ) (ex ey : ℤ) (hy : my ≠ 0)
    (hx : IsRep (F64.fin sx mx ex)) (hyr : IsRep (F64.fin sy my ey)) :
    IsRep (remainder (F64.fin sx mx ex) (F64.fin sy my ey)) ∧
    |(remainder (F64.fin sx mx ex) (F64.fin sy my ey)).val| ≤ |(F64.fin sx mx ex).val| ∧
    2 * |(remainder (F64.fin sx mx ex) (F64.fin sy my ey)).val| ≤ |(F64.fin sy my ey).val| := by
  obtain ⟨hfin, hval, hb, _⟩ := remainder_spec sx sy mx my ex ey hy
  set x := (F64.fin sx mx ex).val with hxdef
  set y := (F64.fin sy my ey).val with hydef
  set n := remquoN (F64.fin sx mx ex) (F64.fin sy my ey) with hn
  set r := (remainder (F64.fin sx mx ex) (F64.fin sy my ey)).val with hr
  have hrx : |r| ≤ |x| := by
    by_cases hbig : |y| ≤ 2 * |x|
    · linarith
    · have hlt : 2 * |x| < |y| := not_le.mp hbig
      have hn0 : n = 0 := by
        apply abs_int_lt_one
        have h1 : |(n:ℚ) * y| < |y| := by
          have e1 : (n:ℚ) * y = x - r := by rw [hval]; ring
          rw [e1]
          have := abs_sub x r
          linarith
        rw [abs_mul] at h1
        have hypos : 0 < |y| := lt_of_le_of_lt (by positivity) hlt
        by_contra hc
        have : 1 ≤ |(n:ℚ)| := not_lt.mp hc
        nlinarith
      rw [hval, hn0]; simp
  refine ⟨⟨hfin, ?_⟩, hrx, hb⟩
  show Rep r
  obtain ⟨gx, cx, hgx, hcx, hxe0⟩ := hx.2
  obtain ⟨gy, cy, hgy, hcy, hye0⟩ := hyr.2
  have hxe : x = (gx:ℚ) * (2:ℚ) ^ cx := hxe0
  have hye : y = (gy:ℚ) * (2:ℚ) ^ cy := hye0
  have hxg : OnGrid cx x := ⟨gx, hxe⟩
  have hyg : OnGrid cy y := ⟨gy, hye⟩
  have e53 : (2:ℚ) ^ (53:ℤ) = ((2 ^ 53 : ℤ) : ℚ) := by norm_num
  by_cases hc : cx ≤ cy
  · refine Rep.of_grid (c := cx) ?_ hcx ?_
    · rw [hval]; exact hxg.sub ((hyg.coarsen hc).int_mul n)
    · refine le_trans hrx ?_
      rw [hxe, abs_mul, abs_of_pos (Dy.two_zpow_pos cx), add_comm, Dy.two_zpow_split]
      apply mul_le_mul_of_nonneg_right _ (Dy.two_zpow_pos cx).le
      rw [← Int.cast_abs, e53]; exact_mod_cast (le_of_lt hgx)
  · refine Rep.of_grid (c := cy) ?_ hcy ?_
    · rw [hval]; exact (hxg.coarsen (by omega)).sub (hyg.int_mul n)
    · have hyb : |y| ≤ (2:ℚ) ^ (cy + 53) := by
        rw [hye, abs_mul, abs_of_pos (Dy.two_zpow_pos cy), add_comm, Dy.two_zpow_split]
        apply mul_le_mul_of_nonneg_right _ (Dy.two_zpow_pos cy).le
        rw [← Int.cast_abs, e53]; exact_mod_cast (le_of_lt hgy)
      have := abs_nonneg r
      linarith

theorem isRep_zero : IsRep (0 : F64) := ⟨rfl, by rw [val_zero]; exact Rep.zero⟩

end F64

namespace Accum
open F64

theorem le_1018 {x : ℚ} {k : ℤ} (h : |x| ≤ (2:ℚ) ^ k) (hk : k ≤ 1018) : |x| ≤ (2:ℚ) ^ (1018:ℤ) :=
  le_trans h (Dy.two_zpow_le hk)

/-- value held by the accumulator -/
def hval (a : Acc) : ℚ := a.s.val + a.t.val

/-- **`Add(0)` renormalises**: for every representable pair `(s, t)` (no overflow), after `Add(0)` the high word is the
held sum `s + t` rounded to working precision, the low word is the exact error, both are representable and nothing
is lost. -/
theorem add_zero_renorm (b : Acc) (hs : IsRep b.s) (ht : IsRep b.t)
    (bs : |b.s.val| ≤ (2:ℚ) ^ (1017:ℤ)) (bt : |b.t.val| ≤ (2:ℚ) ^ (1017:ℤ)) :
    IsRep (add b 0).s ∧ IsRep (add b 0).t ∧
    (add b 0).s.val + (add b 0).t.val = b.s.val + b.t.val ∧
    RN (b.s.val + b.t.val) (add b 0).s.val := by
  have h0 := isRep_zero
  have b0 : |(0 : F64).val| ≤ (2:ℚ) ^ (1018:ℤ) := by rw [val_zero, abs_zero]; exact (Dy.two_zpow_pos _).le
  obtain ⟨_, pf1, pf2, pr1, prep2, psum⟩ := twoSum_exact 0 b.t h0 ht b0 (le_1018 bt (by norm_num))
  set p := MathF.sum 0 b.t with hp
  rw [val_zero, zero_add] at pr1 psum
  have hp1v : p.1.val = b.t.val := ht.2.rn_eq pr1
  have hp2v : p.2.val = 0 := by linarith
  have hp1 : IsRep p.1 := ⟨pf1, pr1.rep⟩
  obtain ⟨_, qf1, qf2, qr1, qrep2, qsum⟩ := twoSum_exact p.1 b.s hp1 hs (by rw [hp1v]; exact le_1018 bt (by norm_num)) (le_1018 bs (by norm_num))
  set q := MathF.sum p.1 b.s with hq
  rw [hp1v] at qr1 qsum
  have f0 : (0 : F64).isFinite = true := rfl
  have hadd : add b 0 = if F64.eq q.1 0 = true then ⟨p.2, q.2⟩ else ⟨q.1, q.2 + p.2⟩ := rfl
  have hcomm : b.t.val + b.s.val = b.s.val + b.t.val := add_comm _ _
  by_cases hz : F64.eq q.1 0 = true
  · have hq1 : q.1.val = 0 := by rw [(eq_fin_iff _ _ qf1 f0).mp hz, val_zero]
    have hsum0 : b.t.val + b.s.val = 0 := by
      rw [hq1] at qr1
      have hrep : Rep (b.t.val + b.s.val) := by
        have := err_rep ht.2 hs.2 qr1; simpa using this
      have := hrep.rn_eq qr1
      linarith
    have hq2 : q.2.val = 0 := by linarith
    rw [hadd, if_pos hz]
    refine ⟨⟨pf2, prep2⟩, ⟨qf2, qrep2⟩, ?_, ?_⟩
    · show p.2.val + q.2.val = _; rw [hp2v, hq2, ← hcomm, hsum0]; ring
    · show RN _ p.2.val; rw [hp2v, ← hcomm, hsum0]; exact Dy.isRN_zero 53 (-1074)
  · have hz' : F64.eq q.1 0 = false := by simpa using hz
    rw [hadd, hz']
    simp only [Bool.false_eq_true, if_false]
    have bq2 : |q.2.val| ≤ (2:ℚ) ^ (1017:ℤ) := by
      have := (twoSum_low_le p.1 b.s hp1 hs (by rw [hp1v]; exact le_1018 bt (by norm_num)) (le_1018 bs (by norm_num))).2
      exact le_trans this bs
    obtain ⟨tf, tr, _⟩ := add_rn q.2 p.2 qf2 pf2 1018 (by norm_num) (by norm_num) (by
      rw [hp2v, add_zero]; exact le_trans bq2 (Dy.two_zpow_le (by norm_num)))
    rw [hp2v, add_zero] at tr
    have htv : (q.2 + p.2).val = q.2.val := qrep2.rn_eq tr
    refine ⟨⟨qf1, qr1.rep⟩, ⟨tf, tr.rep⟩, ?_, ?_⟩
    · show q.1.val + (q.2 + p.2).val = _; rw [htv, qsum, hcomm]
    · show RN _ q.1.val; rw [← hcomm]; exact qr1

/-- the only rounding of one `Add(y)`: that of `_t = t₁ ⊕ u` -/
noncomputable def addErr (a : Acc) (y : F64) : ℚ :=
  let p := MathF.sum y a.t
  let q := MathF.sum p.1 a.s
  if q.1.val = 0 then 0 else max (|q.2.val + p.2.val| * (2:ℚ) ^ (-(53:ℤ))) ((2:ℚ) ^ (-(1075:ℤ)))

/-! ## the state machine: which histories the exactness theorem covers -/

/-- operand conditions: representable and in range; the modulus of `remainder` is a non-zero number; the two
multiplications (`*= int`, `*= T`) are outside the exactness theorem (they are compared with the model by the driver) -/
def OpOk : Op → Prop
  | .set y => IsRep y ∧ |y.val| ≤ (2:ℚ) ^ (1016:ℤ)
  | .add y => IsRep y ∧ |y.val| ≤ (2:ℚ) ^ (1016:ℤ)
  | .sub y => IsRep y ∧ |y.val| ≤ (2:ℚ) ^ (1016:ℤ)
  | .rem y => IsRep y ∧ y.val ≠ 0
  | .neg => True
  | .nop => True
  | .mulInt _ => False
  | .mulF _ => False

def InRange (a : Acc) : Prop := |a.s.val| ≤ (2:ℚ) ^ (1016:ℤ) ∧ |a.t.val| ≤ (2:ℚ) ^ (1016:ℤ)

/-- no intermediate state of the history leaves the range in which no binary64 operation of `Add` overflows -/
def NoOverflow : Acc → List Op → Prop
  | a, [] => InRange a
  | a, op :: ops => InRange a ∧ OpOk op ∧ NoOverflow (step a op) ops

/-- exact (rational) value of one operation applied to the exact value `v`, and the bound on the error committed, read
along the actual run (`remainder` subtracts the multiple of `y` the code chose from the high word) -/
noncomputable def trackStep (a : Acc) (ve : ℚ × ℚ) : Op → ℚ × ℚ
  | .set y => (y.val, 0)
  | .add y => (ve.1 + y.val, ve.2 + addErr a y)
  | .sub y => (ve.1 - y.val, ve.2 + addErr a (F64.neg y))
  | .neg => (-ve.1, ve.2)
  | .rem y => (ve.1 - (F64.remquoN a.s y : ℚ) * y.val, ve.2)
  | .nop => ve
  | .mulInt _ => ve
  | .mulF _ => ve

noncomputable def track : Acc → ℚ × ℚ → List Op → ℚ × ℚ
  | _, ve, [] => ve
  | a, ve, op :: ops => track (step a op) (trackStep a ve op) ops

theorem run_cons (a : Acc) (op : Op) (ops : List Op) : run a (op :: ops) = run (step a op) ops := rfl

/-- decidable versions of the side conditions (for the non-vacuity examples) -/
def repB (x : F64) : Bool := x.isFinite && F64.representable x.toDy
def inRangeB (a : Acc) : Bool := Dy.le (Dy.abs a.s.toDy) ⟨1, 1016⟩ && Dy.le (Dy.abs a.t.toDy) ⟨1, 1016⟩

theorem isRep_of_repB (x : F64) (h : repB x = true) : IsRep x := by
  unfold repB at h
  rw [Bool.and_eq_true] at h
  refine ⟨h.1, ?_⟩
  have h2 := h.2
  unfold F64.representable at h2
  simp only [Bool.and_eq_true] at h2
  have he := (Dy.eq_iff _ _).mp h2.1
  have hr : RN x.toDy.val (Dy.roundTo 53 (-1074) x.toDy).val := roundTo_isRN 53 (-1074) x.toDy
  have := RN.rep hr
  have e : (Dy.round53 x.toDy).val = (Dy.roundTo 53 (-1074) x.toDy).val := rfl
  rw [← e, he] at this
  exact this

theorem inRange_of_inRangeB (a : Acc) (h : inRangeB a = true) : InRange a := by
  unfold inRangeB at h
  rw [Bool.and_eq_true] at h
  have hv : (⟨1, 1016⟩ : Dy).val = (2:ℚ) ^ (1016:ℤ) := by simp [Dy.val]
  have habs : ∀ d : Dy, (Dy.abs d).val = |d.val| := by
    intro d; rw [Dy.abs_val]; simp [Dy.abs, Dy.val]
  constructor
  · have := (Dy.le_iff _ _).mp h.1; rw [habs, hv] at this; exact this
  · have := (Dy.le_iff _ _).mp h.2; rw [habs, hv] at this; exact this

/-- decidable `OpOk` / `NoOverflow` -/
def opOkB : Op → Bool
  | .set y => repB y && Dy.le (Dy.abs y.toDy) ⟨1, 1016⟩
  | .add y => repB y && Dy.le (Dy.abs y.toDy) ⟨1, 1016⟩
  | .sub y => repB y && Dy.le (Dy.abs y.toDy) ⟨1, 1016⟩
  | .rem y => repB y && !(Dy.eq y.toDy ⟨0, 0⟩)
  | .neg => true
  | .nop => true
  | .mulInt _ => false
  | .mulF _ => false

def noOverflowB : Acc → List Op → Bool
  | a, [] => inRangeB a
  | a, op :: ops => inRangeB a && opOkB op && noOverflowB (step a op) ops

theorem opOk_of_opOkB (op : Op) (h : opOkB op = true) : OpOk op := by
  have hv : (⟨1, 1016⟩ : Dy).val = (2:ℚ) ^ (1016:ℤ) := by simp [Dy.val]
  have habs : ∀ d : Dy, (Dy.abs d).val = |d.val| := by
    intro d; rw [Dy.abs_val]; simp [Dy.abs, Dy.val]
  have key : ∀ y : F64, (repB y && Dy.le (Dy.abs y.toDy) ⟨1, 1016⟩) = true → IsRep y ∧ |y.val| ≤ (2:ℚ) ^ (1016:ℤ) := by
    intro y hy
    rw [Bool.and_eq_true] at hy
    refine ⟨isRep_of_repB y hy.1, ?_⟩
    have := (Dy.le_iff _ _).mp hy.2
    rw [habs, hv] at this; exact this
  cases op with
  | set y => exact key y h
  | add y => exact key y h
  | sub y => exact key y h
  | rem y =>
    unfold opOkB at h
    rw [Bool.and_eq_true] at h
    refine ⟨isRep_of_repB y h.1, ?_⟩
    intro hc
    have h2 : Dy.eq y.toDy ⟨0, 0⟩ = true := by
      rw [Dy.eq_iff]; show y.val = _; rw [hc]; simp [Dy.val]
    rw [h2] at h; simp at h
  | neg => trivial
  | nop => trivial
  | mulInt n => simp [opOkB] at h
  | mulF y => simp [opOkB] at h

theorem noOverflow_of_B (ops : List Op) : ∀ a : Acc, noOverflowB a ops = true → NoOverflow a ops := by
  induction ops with
  | nil => intro a h; exact inRange_of_inRangeB a h
  | cons op ops ih =>
    intro a h
    unfold noOverflowB at h
    simp only [Bool.and_eq_true] at h
    exact ⟨inRange_of_inRangeB a h.1.1, opOk_of_opOkB op h.1.2, ih _ h.2⟩

theorem isRep_neg (y : F64) (h : F64.IsRep y) : F64.IsRep (F64.neg y) ∧ (F64.neg y).val = -y.val := by
  obtain ⟨s, m, e, rfl⟩ := F64.exists_fin_of_isFinite y h.1
  exact ⟨F64.IsRep.neg_fin s m e h, F64.neg_fin_val s m e⟩


/-- histories without `+=` / `-=` are tracked **exactly** -/
def noAdd : Op → Bool
  | .add _ => false
  | .sub _ => false
  | _ => true

theorem track_err_noAdd (ops : List Op) : ∀ (a : Acc) (v e : ℚ), 0 ≤ e → (∀ op ∈ ops, noAdd op = true) → (track a (v, e) ops).2 ≤ e := by
  induction ops with
  | nil => intro a v e _ _; exact le_refl _
  | cons op ops ih =>
    intro a v e he h
    have hop := h op (by simp)
    have hrest : ∀ o ∈ ops, noAdd o = true := fun o ho => h o (by simp [ho])
    show (track (step a op) (trackStep a (v, e) op) ops).2 ≤ e
    cases op with
    | add y => simp [noAdd] at hop
    | sub y => simp [noAdd] at hop
    | set y => exact le_trans (ih _ _ 0 (le_refl _) hrest) he
    | neg => exact ih _ _ _ he hrest
    | rem y => exact ih _ _ _ he hrest
    | nop => exact ih _ _ _ he hrest
    | mulInt n => exact ih _ _ _ he hrest
    | mulF y => exact ih _ _ _ he hrest


end Accum
end GeoVerif
