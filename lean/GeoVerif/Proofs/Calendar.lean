import GeoVerif.Model.Calendar
/-!
Lemmas for the calendar theorems of `Props/C10.lean`: the truncating divisions of the C++ code agree with floor
division on the ranges that occur for dates from 0001-01-01 on, and the linear-arithmetic cores (discharged by `omega`
after a case split over the twelve months and the two calendars).
-/
namespace GeoVerif.Calendar

/-- floor-division reading of `dayRaw` -/
def dayE (y m d : Int) : Int :=
  let y1 := y + (m + 9) / 12 - 1
  let m1 := (m + 9) % 12
  (1461 * y1) / 4 + (if gregYMD y m d then (y1 / 100) / 4 - y1 / 100 + 2 else 0) + (153 * m1 + 2) / 5 + d - 1 - 305

/-- floor-division reading of `dateRaw` -/
def dateE (s : Int) : Int × Int × Int :=
  let greg := gregS s
  let s := s + 305
  let s := if greg then s - 2 else s
  let c := if greg then (4 * s + 3) / 146097 else 0
  let s := if greg then s - (c * 146097) / 4 else s
  let y := (4 * s + 3) / 1461
  let s := s - (1461 * y) / 4
  let y := y + c * 100
  let m := (5 * s + 2) / 153
  let s := s - (153 * m + 2) / 5
  let d := s + 1
  (y + (m + 2) / 12, (m + 2) % 12 + 1, d)

theorem dayRaw_eq (y m d : Int) (hy : 1 ≤ y) (hm : 1 ≤ m) : dayRaw y m d = dayE y m d := by
  unfold dayRaw dayE
  simp (disch := omega) only [Int.tdiv_eq_ediv_of_nonneg, Int.tmod_eq_emod_of_nonneg]

theorem dateRaw_eq (s : Int) (hs : 1 ≤ s) : dateRaw s = dateE s := by
  unfold dateRaw dateE
  by_cases hg : gregS s = true
  · have hg' : s ≥ 639799 := by simpa [gregS] using hg
    simp (disch := omega) only [hg, if_true, Int.tdiv_eq_ediv_of_nonneg, Int.tmod_eq_emod_of_nonneg]
  · have hg' : ¬ s ≥ 639799 := by simpa [gregS] using hg
    simp (disch := omega) only [hg, if_false, Int.tdiv_eq_ediv_of_nonneg, Int.tmod_eq_emod_of_nonneg, Bool.false_eq_true]

theorem month_cases (m : Int) (h1 : 1 ≤ m) (h2 : m ≤ 12) :
    m = 1 ∨ m = 2 ∨ m = 3 ∨ m = 4 ∨ m = 5 ∨ m = 6 ∨ m = 7 ∨ m = 8 ∨ m = 9 ∨ m = 10 ∨ m = 11 ∨ m = 12 := by omega

theorem leap_iff (y : Int) : leap y = true ↔
    ((y ≤ 1752 ∧ y % 4 = 0) ∨ (¬ y ≤ 1752 ∧ y % 4 = 0 ∧ (y % 100 ≠ 0 ∨ y % 400 = 0))) := by
  unfold leap
  by_cases h : y ≤ 1752
  · simp [h]
  · simp [h]

theorem monthLength_cases (y m : Int) :
    monthLength y m =
      if m = 2 then (if (y ≤ 1752 ∧ y % 4 = 0) ∨ (¬ y ≤ 1752 ∧ y % 4 = 0 ∧ (y % 100 ≠ 0 ∨ y % 400 = 0)) then 29 else 28)
      else if m = 4 ∨ m = 6 ∨ m = 9 ∨ m = 11 then 30 else 31 := by
  unfold monthLength
  by_cases hl : leap y = true
  · rw [if_pos ((leap_iff y).1 hl)]; simp [hl]
  · rw [if_neg (fun h => hl ((leap_iff y).2 h))]; simp [hl]


theorem centuryCore (C t : Int) (_hC : 0 ≤ C) (ht0 : 0 ≤ t) (ht : t ≤ 36523 ∨ (t = 36524 ∧ C % 4 = 3)) :
    (4 * ((146097 * C) / 4 + t) + 3) / 146097 = C := by omega

/-- year / month / day from the day count `t` since March 1 of (shifted) year 0, Julian rule -/
theorem julCore (y m d t : Int) (hm0 : 0 ≤ m) (hm : m ≤ 11) (hd : 1 ≤ d)
    (hlen : (m ≤ 10 ∧ d ≤ (153 * (m+1) + 2) / 5 - (153 * m + 2) / 5) ∨ (m = 11 ∧ d ≤ 28) ∨ (m = 11 ∧ d ≤ 29 ∧ (y+1) % 4 = 0))
    (ht : t = (1461 * y) / 4 + (153 * m + 2) / 5 + d - 1) :
    (4 * t + 3) / 1461 = y ∧ (5 * (t - (1461 * y) / 4) + 2) / 153 = m := by
  have : m = 0 ∨ m = 1 ∨ m = 2 ∨ m = 3 ∨ m = 4 ∨ m = 5 ∨ m = 6 ∨ m = 7 ∨ m = 8 ∨ m = 9 ∨ m = 10 ∨ m = 11 := by omega
  rcases this with h|h|h|h|h|h|h|h|h|h|h|h <;> subst h <;> subst ht <;> omega

theorem dateE_jul (s y m d : Int) (hg : ¬ s ≥ 639799) (hm0 : 0 ≤ m) (hm : m ≤ 11) (hd : 1 ≤ d)
    (hlen : (m ≤ 10 ∧ d ≤ (153 * (m+1) + 2) / 5 - (153 * m + 2) / 5) ∨ (m = 11 ∧ d ≤ 28) ∨ (m = 11 ∧ d ≤ 29 ∧ (y+1) % 4 = 0))
    (hs : s + 305 = (1461 * y) / 4 + (153 * m + 2) / 5 + d - 1) :
    dateE s = (y + (m + 2) / 12, (m + 2) % 12 + 1, d) := by
  obtain ⟨h1, h2⟩ := julCore y m d (s + 305) hm0 hm hd hlen hs
  unfold dateE gregS
  simp only [decide_eq_true_eq, hg, if_false, h1, h2, Int.zero_mul, Int.add_zero]
  simp only [Prod.mk.injEq, true_and]; omega

theorem dateE_greg (s C R m d : Int) (hg : s ≥ 639799) (hC : 0 ≤ C) (hR0 : 0 ≤ R) (hR : R ≤ 99) (hm0 : 0 ≤ m) (hm : m ≤ 11) (hd : 1 ≤ d)
    (hlen : (m ≤ 10 ∧ d ≤ (153 * (m+1) + 2) / 5 - (153 * m + 2) / 5) ∨ (m = 11 ∧ d ≤ 28) ∨
            (m = 11 ∧ d ≤ 29 ∧ (R+1) % 4 = 0 ∧ (R = 99 → C % 4 = 3)))
    (hs : s + 305 - 2 = (146097 * C) / 4 + ((1461 * R) / 4 + (153 * m + 2) / 5 + d - 1)) :
    dateE s = (R + C * 100 + (m + 2) / 12, (m + 2) % 12 + 1, d) := by
  have hc : (4 * (s + 305 - 2) + 3) / 146097 = C := by
    rw [hs]; apply centuryCore C _ hC <;> omega
  have ht : s + 305 - 2 - (C * 146097) / 4 = (1461 * R) / 4 + (153 * m + 2) / 5 + d - 1 := by omega
  obtain ⟨h1, h2⟩ := julCore R m d (s + 305 - 2 - (C * 146097) / 4) hm0 hm hd (by omega) ht
  unfold dateE gregS
  simp only [decide_eq_true_eq, hg, if_true, hc, h1, h2]
  simp only [Prod.mk.injEq, true_and]; omega

theorem gregIdentity (Y : Int) :
    (1461 * Y) / 4 + ((Y / 100) / 4 - Y / 100) = (146097 * (Y / 100)) / 4 + (1461 * (Y % 100)) / 4 := by
  have h1 : (1461 * Y) / 4 = 36525 * (Y / 100) + (1461 * (Y % 100)) / 4 := by omega
  have h2 : (146097 * (Y / 100)) / 4 = 36524 * (Y / 100) + (Y / 100) / 4 := by omega
  omega


theorem dayE_greg_ge (y m d : Int) (hy : 1 ≤ y) (hm1 : 1 ≤ m) (hm2 : m ≤ 12) (hd1 : 1 ≤ d) (hd2 : d ≤ 31)
    (hg : 100 * (100 * y + m) + d ≥ 17520914) :
    (1461 * (y + (m + 9) / 12 - 1)) / 4 + (((y + (m + 9) / 12 - 1) / 100) / 4 - (y + (m + 9) / 12 - 1) / 100 + 2)
        + (153 * ((m + 9) % 12) + 2) / 5 + d - 1 - 305 ≥ 639799 := by
  have hI := gregIdentity (y + (m + 9) / 12 - 1)
  by_cases h52 : y = 1752
  · subst h52
    rcases month_cases m hm1 hm2 with h|h|h|h|h|h|h|h|h|h|h|h <;> subst h <;> omega
  · have hy' : y ≥ 1753 := by omega
    have he : (y + (m + 9) / 12 - 1) / 100 ≥ 17 := by omega
    have hfg : 4 * ((146097 * ((y + (m + 9) / 12 - 1) / 100)) / 4 + (1461 * ((y + (m + 9) / 12 - 1) % 100)) / 4)
        ≥ 1461 * (y + (m + 9) / 12 - 1) - 3 * ((y + (m + 9) / 12 - 1) / 100) - 6 := by omega
    rcases month_cases m hm1 hm2 with h|h|h|h|h|h|h|h|h|h|h|h <;> subst h <;> omega

theorem dateE_dayE (y m d : Int) (h : Valid y m d) : dateE (dayE y m d) = (y, m, d) := by
  obtain ⟨hy, hm1, hm2, hd1, hd2, hx⟩ := h
  rw [monthLength_cases] at hd2
  by_cases hg : 100 * (100 * y + m) + d ≥ 17520914
  · have hE : dayE y m d = (1461 * (y + (m + 9) / 12 - 1)) / 4 + (((y + (m + 9) / 12 - 1) / 100) / 4 - (y + (m + 9) / 12 - 1) / 100 + 2)
        + (153 * ((m + 9) % 12) + 2) / 5 + d - 1 - 305 := by
      unfold dayE gregYMD; simp only [decide_eq_true_eq, hg, if_true]
    have hge := dayE_greg_ge y m d hy hm1 hm2 hd1 (by split at hd2 <;> (try split at hd2) <;> omega) hg
    have hI := gregIdentity (y + (m + 9) / 12 - 1)
    rcases month_cases m hm1 hm2 with h|h|h|h|h|h|h|h|h|h|h|h <;>
    · rw [dateE_greg (dayE y m d) ((y + (m + 9) / 12 - 1) / 100) ((y + (m + 9) / 12 - 1) % 100) ((m + 9) % 12) d
        (by rw [hE]; exact hge) (by omega) (by omega) (by omega) (by omega) (by omega) hd1 (by split at hd2 <;> omega) (by rw [hE]; omega)]
      simp only [Prod.mk.injEq, and_true]; omega
  · have hE : dayE y m d = (1461 * (y + (m + 9) / 12 - 1)) / 4
        + (153 * ((m + 9) % 12) + 2) / 5 + d - 1 - 305 := by
      unfold dayE gregYMD; simp only [decide_eq_true_eq, hg, if_false, Int.add_zero]
    have hlt : ¬ dayE y m d ≥ 639799 := by
      rw [hE]
      rcases month_cases m hm1 hm2 with h|h|h|h|h|h|h|h|h|h|h|h <;> subst h <;> omega
    rcases month_cases m hm1 hm2 with h|h|h|h|h|h|h|h|h|h|h|h <;>
    · have hlen : ((m + 9) % 12 ≤ 10 ∧ d ≤ (153 * ((m + 9) % 12 + 1) + 2) / 5 - (153 * ((m + 9) % 12) + 2) / 5) ∨ ((m + 9) % 12 = 11 ∧ d ≤ 28) ∨
          ((m + 9) % 12 = 11 ∧ d ≤ 29 ∧ ((y + (m + 9) / 12 - 1) + 1) % 4 = 0) := by split at hd2 <;> omega
      have hs : dayE y m d + 305 = (1461 * (y + (m + 9) / 12 - 1)) / 4 + (153 * ((m + 9) % 12) + 2) / 5 + d - 1 := by rw [hE]; omega
      have := dateE_jul (dayE y m d) (y + (m + 9) / 12 - 1) ((m + 9) % 12) d hlt (by omega) (by omega) hd1 hlen hs
      rw [this]
      simp only [Prod.mk.injEq, and_true]; omega


theorem dayE_cases (y m d : Int) :
    dayE y m d = (1461 * (y + (m + 9) / 12 - 1)) / 4
      + (if 100 * (100 * y + m) + d ≥ 17520914 then ((y + (m + 9) / 12 - 1) / 100) / 4 - (y + (m + 9) / 12 - 1) / 100 + 2 else 0)
      + (153 * ((m + 9) % 12) + 2) / 5 + d - 1 - 305 := by
  unfold dayE gregYMD
  by_cases hg : 100 * (100 * y + m) + d ≥ 17520914
  · simp only [decide_eq_true_eq, hg, if_true]
  · simp only [decide_eq_true_eq, hg, if_false]

theorem valid_d31 (y m d : Int) (h : Valid y m d) : d ≤ 31 := by
  obtain ⟨_, _, _, _, hd2, _⟩ := h
  rw [monthLength_cases] at hd2
  split at hd2 <;> (try split at hd2) <;> omega

theorem dayE_jul_lt (y m d : Int) (h : Valid y m d) (hg : ¬ 100 * (100 * y + m) + d ≥ 17520914) : dayE y m d < 639799 ∧ 1 ≤ dayE y m d := by
  have hd31 := valid_d31 y m d h
  obtain ⟨hy, hm1, hm2, hd1, hd2, hx⟩ := h
  rw [dayE_cases, if_neg hg]
  rcases month_cases m hm1 hm2 with h|h|h|h|h|h|h|h|h|h|h|h <;> subst h <;> omega

theorem dayE_greg_ge' (y m d : Int) (h : Valid y m d) (hg : 100 * (100 * y + m) + d ≥ 17520914) : 639799 ≤ dayE y m d := by
  have hd31 := valid_d31 y m d h
  obtain ⟨hy, hm1, hm2, hd1, hd2, hx⟩ := h
  rw [dayE_cases, if_pos hg]
  exact dayE_greg_ge y m d hy hm1 hm2 hd1 hd31 hg

theorem dayE_pos (y m d : Int) (h : Valid y m d) : 1 ≤ dayE y m d := by
  by_cases hg : 100 * (100 * y + m) + d ≥ 17520914
  · have := dayE_greg_ge' y m d h hg; omega
  · exact (dayE_jul_lt y m d h hg).2

theorem dayRaw_pos (y m d : Int) (h : Valid y m d) : 1 ≤ dayRaw y m d := by
  rw [dayRaw_eq y m d h.1 h.2.1]; exact dayE_pos y m d h

theorem dateRaw_dayRaw (y m d : Int) (h : Valid y m d) : dateRaw (dayRaw y m d) = (y, m, d) := by
  have hp := dayRaw_pos y m d h
  rw [dateRaw_eq _ hp, dayRaw_eq y m d h.1 h.2.1]; exact dateE_dayE y m d h

theorem gregS_dayRaw (y m d : Int) (h : Valid y m d) : gregS (dayRaw y m d) = gregYMD y m d := by
  rw [dayRaw_eq y m d h.1 h.2.1]
  unfold gregS gregYMD
  by_cases hg : 100 * (100 * y + m) + d ≥ 17520914
  · have := dayE_greg_ge' y m d h hg; simp [hg, this]
  · have := (dayE_jul_lt y m d h hg).1
    have h2 : ¬ dayE y m d ≥ 639799 := by omega
    simp [hg, h2]

theorem dayE_le (y m d : Int) (h : Valid y m d) (hy : y ≤ 200000) : dayE y m d ≤ 74000000 := by
  have hd31 := valid_d31 y m d h
  obtain ⟨hy1, hm1, hm2, hd1, hd2, hx⟩ := h
  rw [dayE_cases]
  rcases month_cases m hm1 hm2 with h|h|h|h|h|h|h|h|h|h|h|h <;> subst h <;> split <;> omega

theorem dayChecked_of_valid (y m d : Int) (h : Valid y m d) (hy : y ≤ 200000) : dayChecked y m d = some (dayRaw y m d) := by
  have hd31 := valid_d31 y m d h
  have hp := dayRaw_pos y m d h
  have hle : dayRaw y m d ≤ 74000000 := by rw [dayRaw_eq y m d h.1 h.2.1]; exact dayE_le y m d h hy
  have hrt := dateRaw_dayRaw y m d h
  obtain ⟨hy1, hm1, hm2, hd1, hd2, hx⟩ := h
  have hg1 : dayGuard y m d = true := by unfold dayGuard; simp only [decide_eq_true_eq]; omega
  have hg2 : dateGuard (dayRaw y m d) = true := by unfold dateGuard; simp only [decide_eq_true_eq]; omega
  unfold dayChecked day date
  simp only [hg1, hg2, if_true, hrt]
  have : dayRaw y m d > 0 := by omega
  simp [this]


/-! ## the successor structure: `day` steps by one along `nextDate`, hence `date` inverts `day` on every `s ≥ 1` -/

theorem nextDate_valid (y m d : Int) (h : Valid y m d) :
    Valid (nextDate y m d).1 (nextDate y m d).2.1 (nextDate y m d).2.2 := by
  obtain ⟨hy, hm1, hm2, hd1, hd2, hx⟩ := h
  unfold nextDate
  by_cases h1 : y = 1752 ∧ m = 9 ∧ d = 2
  · rw [if_pos h1]; decide
  · rw [if_neg h1]
    by_cases h2 : d < monthLength y m
    · rw [if_pos h2]; show Valid y m (d + 1); exact ⟨hy, hm1, hm2, by omega, by omega, by omega⟩
    · rw [if_neg h2]
      by_cases h3 : m < 12
      · rw [if_pos h3]
        show Valid y (m + 1) 1
        refine ⟨hy, by omega, by omega, by omega, ?_, by omega⟩
        show 1 ≤ monthLength y (m + 1)
        rw [monthLength_cases]; split <;> (try split) <;> omega
      · rw [if_neg h3]
        show Valid (y + 1) 1 1
        refine ⟨by omega, by omega, by omega, by omega, ?_, by omega⟩
        show 1 ≤ monthLength (y + 1) 1
        rw [monthLength_cases]; split <;> (try split) <;> omega

theorem yearStep (y : Int) :
    ((1461 * y) / 4 = (1461 * (y - 1)) / 4 + 365 ∧ y % 4 ≠ 0 ∨ (1461 * y) / 4 = (1461 * (y - 1)) / 4 + 366 ∧ y % 4 = 0) ∧
    (y / 100 = (y - 1) / 100 ∧ y % 100 ≠ 0 ∨ y / 100 = (y - 1) / 100 + 1 ∧ y % 100 = 0) ∧
    (y / 100 / 4 = (y - 1) / 100 / 4 ∧ y % 400 ≠ 0 ∨ y / 100 / 4 = (y - 1) / 100 / 4 + 1 ∧ y % 400 = 0) := by
  refine ⟨?_, by omega, by omega⟩
  have h1 : (1461 * y) / 4 = 1461 * (y / 4) + (1461 * (y % 4)) / 4 := by omega
  have h2 : (1461 * (y - 1)) / 4 = 1461 * ((y - 1) / 4) + (1461 * ((y - 1) % 4)) / 4 := by omega
  have : y % 4 = 0 ∨ y % 4 = 1 ∨ y % 4 = 2 ∨ y % 4 = 3 := by omega
  rcases this with h|h|h|h <;> omega

set_option maxHeartbeats 2000000 in
theorem dayE_next_month (y m d : Int) (hy : 1 ≤ y) (hm1 : 1 ≤ m) (h3 : m < 12) (hm2' : m ≠ 2) (hd1 : 1 ≤ d)
    (hd : d = if m = 4 ∨ m = 6 ∨ m = 9 ∨ m = 11 then 30 else 31) (hx : ¬ (y = 1752 ∧ m = 9 ∧ 3 ≤ d ∧ d ≤ 13)) :
    dayE y (m + 1) 1 = dayE y m d + 1 := by
  rw [dayE_cases, dayE_cases]
  have : m = 1 ∨ m = 3 ∨ m = 4 ∨ m = 5 ∨ m = 6 ∨ m = 7 ∨ m = 8 ∨ m = 9 ∨ m = 10 ∨ m = 11 := by omega
  rcases this with h|h|h|h|h|h|h|h|h|h <;> subst h <;>
    simp only [Int.reduceAdd, Int.reduceDiv, Int.reduceMod, Int.add_zero, Int.reduceMul, Int.add_sub_cancel] <;>
    simp (config := {decide := true}) only [if_true, if_false] at hd <;> subst hd <;>
    split <;> split <;> omega

set_option maxHeartbeats 1000000 in
theorem dayE_next (y m d : Int) (h : Valid y m d) :
    dayE (nextDate y m d).1 (nextDate y m d).2.1 (nextDate y m d).2.2 = dayE y m d + 1 := by
  obtain ⟨hy, hm1, hm2, hd1, hd2, hx⟩ := h
  unfold nextDate
  by_cases h1 : y = 1752 ∧ m = 9 ∧ d = 2
  · rw [if_pos h1]; obtain ⟨rfl, rfl, rfl⟩ := h1; decide
  · rw [if_neg h1]
    rw [monthLength_cases] at hd2
    by_cases h2 : d < monthLength y m
    · rw [if_pos h2]
      rw [monthLength_cases] at h2
      show dayE y m (d + 1) = dayE y m d + 1
      rw [dayE_cases, dayE_cases]
      rcases month_cases m hm1 hm2 with h|h|h|h|h|h|h|h|h|h|h|h <;> subst h <;> split <;> split <;> omega
    · rw [if_neg h2]
      rw [monthLength_cases] at h2
      by_cases h3 : m < 12
      · rw [if_pos h3]
        show dayE y (m + 1) 1 = dayE y m d + 1
        by_cases hm2' : m = 2
        · subst hm2'
          rw [dayE_cases, dayE_cases]
          obtain ⟨ha, hb, hc⟩ := yearStep y
          simp only [Int.reduceAdd, Int.reduceDiv, Int.reduceMod, Int.add_zero, Int.reduceMul, Int.add_sub_cancel]
          simp only [if_true] at hd2 h2
          have hgf : (100 * (100 * y + 3) + 1 ≥ 17520914) ↔ (100 * (100 * y + 2) + d ≥ 17520914) := by omega
          by_cases hg : 100 * (100 * y + 2) + d ≥ 17520914
          · rw [if_pos (hgf.2 hg), if_pos hg]
            have hy53 : y ≥ 1753 := by omega
            rcases ha with ⟨ha, ha'⟩|⟨ha, ha'⟩ <;> rcases hb with ⟨hb, hb'⟩|⟨hb, hb'⟩ <;> rcases hc with ⟨hc, hc'⟩|⟨hc, hc'⟩ <;>
              split at hd2 <;> split at h2 <;> omega
          · rw [if_neg (fun h => hg (hgf.1 h)), if_neg hg]
            have hy52 : y ≤ 1752 := by omega
            rcases ha with ⟨ha, ha'⟩|⟨ha, ha'⟩ <;> split at hd2 <;> split at h2 <;> omega
        · rw [if_neg hm2'] at hd2 h2
          exact dayE_next_month y m d hy hm1 h3 hm2' hd1 (by omega) hx
      · rw [if_neg h3]
        show dayE (y + 1) 1 1 = dayE y m d + 1
        have : m = 12 := by omega
        subst this
        rw [dayE_cases, dayE_cases]
        simp only [Int.reduceAdd, Int.reduceDiv, Int.reduceMod, Int.add_zero, Int.reduceMul, Int.add_sub_cancel]
        split <;> split <;> omega

/-- every day number from 1 on is the day number of a date of the documented calendar (induction along `nextDate`) -/
theorem exists_valid (n : Nat) : ∃ y m d, Valid y m d ∧ dayE y m d = (n : Int) + 1 := by
  induction n with
  | zero => exact ⟨1, 1, 1, by decide, by decide⟩
  | succ n ih =>
    obtain ⟨y, m, d, hv, he⟩ := ih
    exact ⟨_, _, _, nextDate_valid y m d hv, by rw [dayE_next y m d hv, he]; omega⟩

/-- `date` is the inverse of `day` on all of `s ≥ 1`: its result is a date of the documented calendar whose day number is `s` -/
theorem dayRaw_dateRaw (s : Int) (hs : 1 ≤ s) :
    Valid (dateRaw s).1 (dateRaw s).2.1 (dateRaw s).2.2 ∧ dayRaw (dateRaw s).1 (dateRaw s).2.1 (dateRaw s).2.2 = s := by
  obtain ⟨y, m, d, hv, he⟩ := exists_valid (s - 1).toNat
  have hs' : dayRaw y m d = s := by rw [dayRaw_eq y m d hv.1 hv.2.1, he]; omega
  have hd := dateRaw_dayRaw y m d hv
  rw [hs'] at hd
  rw [hd]
  exact ⟨hv, hs'⟩

/-- consecutive day numbers are consecutive dates -/
theorem dateRaw_succ (s : Int) (hs : 1 ≤ s) :
    dateRaw (s + 1) = nextDate (dateRaw s).1 (dateRaw s).2.1 (dateRaw s).2.2 := by
  obtain ⟨hv, he⟩ := dayRaw_dateRaw s hs
  have hn := nextDate_valid _ _ _ hv
  have h1 := dayE_next _ _ _ hv
  rw [← dayRaw_eq _ _ _ hn.1 hn.2.1, ← dayRaw_eq _ _ _ hv.1 hv.2.1, he] at h1
  have := dateRaw_dayRaw _ _ _ hn
  rw [h1] at this
  exact this

/-- `day(…, check = true)` accepts nothing but dates of the documented calendar -/
theorem dayChecked_sound (y m d s : Int) (h : dayChecked y m d = some s) : Valid y m d ∧ s = dayRaw y m d := by
  unfold dayChecked day date at h
  by_cases hg1 : dayGuard y m d = true
  · simp only [hg1, if_true] at h
    by_cases hg2 : dateGuard (dayRaw y m d) = true
    · simp only [hg2, if_true] at h
      split at h
      · rename_i hc
        obtain ⟨hpos, h1, h2, h3⟩ := hc
        have hs : s = dayRaw y m d := by simpa using h.symm
        have hv := (dayRaw_dateRaw (dayRaw y m d) (by omega)).1
        rw [← h1, ← h2, ← h3] at hv
        exact ⟨hv, hs⟩
      · simp at h
    · simp [hg2] at h
  · simp [hg1] at h

/-! ## order: `date` / `day` are strictly monotone for the lexicographic order of (y, m, d) -/

/-- the lexicographic order of (y, m, d) as one integer (valid dates have m ≤ 12, d ≤ 31) -/
def dateKey (v : Int × Int × Int) : Int := 10000 * v.1 + 100 * v.2.1 + v.2.2

theorem nextDate_key (y m d : Int) (h : Valid y m d) : dateKey (y, m, d) < dateKey (nextDate y m d) := by
  have hd31 := valid_d31 y m d h
  obtain ⟨hy, hm1, hm2, hd1, hd2, hx⟩ := h
  unfold nextDate dateKey
  split
  · rename_i h1; obtain ⟨rfl, rfl, rfl⟩ := h1; decide
  · split
    · show 10000 * y + 100 * m + d < 10000 * y + 100 * m + (d + 1); omega
    · split
      · show 10000 * y + 100 * m + d < 10000 * y + 100 * (m + 1) + 1; omega
      · show 10000 * y + 100 * m + d < 10000 * (y + 1) + 100 * 1 + 1; omega

theorem dateRaw_key_add (s : Int) (hs : 1 ≤ s) (n : Nat) : dateKey (dateRaw s) < dateKey (dateRaw (s + n + 1)) := by
  induction n with
  | zero =>
    have hv := (dayRaw_dateRaw s hs).1
    have := nextDate_key _ _ _ hv
    rw [← dateRaw_succ s hs] at this
    simpa using this
  | succ n ih =>
    have hv := (dayRaw_dateRaw (s + n + 1) (by omega)).1
    have := nextDate_key _ _ _ hv
    rw [← dateRaw_succ (s + n + 1) (by omega)] at this
    change dateKey (dateRaw (s + n + 1)) < _ at this
    have e : s + (n + 1 : Nat) + 1 = s + n + 1 + 1 := by omega
    rw [e]; omega

/-- `date` is strictly increasing in the lexicographic order of (y, m, d) on day numbers from 1 on -/
theorem dateRaw_strictMono (s t : Int) (hs : 1 ≤ s) (hst : s < t) : dateKey (dateRaw s) < dateKey (dateRaw t) := by
  have := dateRaw_key_add s hs (t - s - 1).toNat
  have e : s + ((t - s - 1).toNat : Int) + 1 = t := by omega
  rwa [e] at this

/-- `day` orders valid dates as the calendar does -/
theorem dayRaw_lt_iff (y m d y' m' d' : Int) (h : Valid y m d) (h' : Valid y' m' d') :
    dayRaw y m d < dayRaw y' m' d' ↔ dateKey (y, m, d) < dateKey (y', m', d') := by
  have p := dayRaw_pos y m d h
  have p' := dayRaw_pos y' m' d' h'
  have r := dateRaw_dayRaw y m d h
  have r' := dateRaw_dayRaw y' m' d' h'
  constructor
  · intro hlt
    have := dateRaw_strictMono _ _ p hlt
    rwa [r, r'] at this
  · intro hk
    by_cases hlt : dayRaw y m d < dayRaw y' m' d'
    · exact hlt
    · exfalso
      by_cases heq : dayRaw y m d = dayRaw y' m' d'
      · rw [heq, r'] at r; rw [r] at hk; omega
      · have := dateRaw_strictMono _ _ p' (by omega : dayRaw y' m' d' < dayRaw y m d)
        rw [r, r'] at this; omega

/-! ## `fractionalyear`: the fraction lies in [0, 1) -/

theorem valid_jan1 (y : Int) (hy : 1 ≤ y) : Valid y 1 1 := by
  refine ⟨hy, by omega, by omega, by omega, ?_, by omega⟩
  rw [monthLength_cases]; simp
theorem fracYear_range (y m d : Int) (h : Valid y m d) (hy : y ≤ 199999) :
    ∃ n den, fracYear y m d = some (y, n, den) ∧ 0 ≤ n ∧ n < den := by
  have hd31 := valid_d31 y m d h
  have v0 := valid_jan1 y h.1
  have v1 := valid_jan1 (y + 1) (by have := h.1; omega)
  have hc := dayChecked_of_valid y m d h (by omega)
  obtain ⟨hy1, hm1, hm2, hd1, hd2, hx⟩ := h
  have g0 : dayGuard y 1 1 = true := by unfold dayGuard; simp only [decide_eq_true_eq]; omega
  have g1 : dayGuard (y + 1) 1 1 = true := by unfold dayGuard; simp only [decide_eq_true_eq]; omega
  have hv : Valid y m d := ⟨hy1, hm1, hm2, hd1, hd2, hx⟩
  have lo : dayRaw y 1 1 ≤ dayRaw y m d := by
    by_cases e : dayRaw y m d < dayRaw y 1 1
    · have := (dayRaw_lt_iff y m d y 1 1 hv v0).1 e; unfold dateKey at this; simp only at this; omega
    · omega
  have hi : dayRaw y m d < dayRaw (y + 1) 1 1 := by
    apply (dayRaw_lt_iff y m d (y + 1) 1 1 hv v1).2; unfold dateKey; simp only; omega
  refine ⟨dayRaw y m d - dayRaw y 1 1, dayRaw (y + 1) 1 1 - dayRaw y 1 1, ?_, by omega, by omega⟩
  unfold fracYear day
  simp only [hc, g0, g1, if_true]

end GeoVerif.Calendar
