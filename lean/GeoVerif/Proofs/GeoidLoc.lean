import GeoVerif.Model.Geoid
import GeoVerif.Proofs.F64Div
import GeoVerif.Props.C16
/-!
# The floating-point cell location of `Geoid::height` stays inside the raster

`ix = ⌊lon·rnd(w/360)⌋` (two roundings) followed by the wrap `ix ± w`.  From the monotonicity of correct rounding:
`rnd(w/360) ≤ rnd(w/256) = w/256` and `|rnd(lon·r)| ≤ rnd(180·w/256) = 45w/64 < w`, so `−w ≤ ix < w` before the wrap.
-/
namespace GeoVerif
open Dy

theorem IsRN.of_fits (p : ℕ) (hp : 1 ≤ p) (emin : ℤ) (g s : ℤ) (hg : |g| ≤ 2 ^ p) (hs : emin ≤ s) :
    IsRN p emin ((g:ℚ) * (2:ℚ) ^ s) ((g:ℚ) * (2:ℚ) ^ s) := by
  have h := roundTo_isRN p emin ⟨g, s⟩
  have e := roundTo_val_of_fits p hp emin ⟨g, s⟩ g s hg hs rfl
  rw [e] at h; exact h

namespace Geoid

theorem ofInt_fin (n : ℤ) : F64.ofInt n = .fin (decide (n < 0)) n.natAbs 0 := rfl

theorem val_ofInt (n : ℤ) : (F64.ofInt n).val = n := by
  unfold F64.val; unfold F64.ofInt; rw [F64.toDy_ofDy]; simp [Dy.val]

/-- the column index computed by `locF` is in `[0, w)` for every raster width `2 ≤ w ≤ 2^31` -/
theorem locF_ix_range (f : File) (h2 : 2 ≤ f.w) (hmax : f.w ≤ 2 ^ 31) (lat lon : F64) (ix iy : ℤ) (fx fy : F64)
    (h : locF f lat lon = some (ix, iy, fx, fy)) : 0 ≤ ix ∧ ix < f.w := by
  unfold locF at h
  simp only [] at h
  by_cases hnan : ((MathF.latFix lat).isNaN || (MathF.angNormalize lon).isNaN) = true
  · rw [if_pos hnan] at h; exact absurd h (by simp)
  · rw [if_neg hnan] at h
    have hlonN : (MathF.angNormalize lon).isNaN = false := by
      cases hh : (MathF.angNormalize lon).isNaN <;> simp_all
    -- lon is finite, so is its normalisation, in [−180, 180]
    have hlf : lon.isFinite = true := by
      by_contra hc
      have := Props.C16.angNormalize_nonfinite lon (by simpa using hc)
      rw [this] at hlonN; exact absurd hlonN (by decide)
    obtain ⟨sl, ml, el, hl⟩ := F64.exists_fin_of_isFinite lon hlf
    obtain ⟨hnf, _, hnb, _⟩ := Props.C16.angNormalize_spec sl ml el
    rw [← hl] at hnf hnb
    obtain ⟨sn, mn, en, hn⟩ := F64.exists_fin_of_isFinite _ hnf
    set L := MathF.angNormalize lon with hL
    -- rlonres
    have hw0 : (0:ℚ) ≤ (f.w:ℚ) := by exact_mod_cast (by omega : (0:ℤ) ≤ f.w)
    have htd : F64.ofInt Gen.MathC.td = .fin false 360 0 := rfl
    obtain ⟨r1, hr1, hf1⟩ := F64.div_fin (decide (f.w < 0)) false f.w.natAbs 360 0 0 (by norm_num)
    rw [← ofInt_fin, ← htd] at hr1 hf1
    have hv360 : (F64.ofInt Gen.MathC.td).val = 360 := by rw [htd, F64.val_fin]; simp
    rw [val_ofInt, hv360] at hr1
    have hwabs : |f.w| ≤ 2 ^ 53 := abs_le.mpr ⟨by omega, by omega⟩
    have g1 := IsRN.of_fits 53 (by norm_num) (-1074) f.w (-8) hwabs (by norm_num)
    have e8 : (2:ℚ) ^ (-8:ℤ) = 1 / 256 := by norm_num
    rw [e8] at g1
    have r1hi : r1 ≤ (f.w:ℚ) * (1 / 256) :=
      IsRN.mono (by norm_num) hr1 g1 (by rw [div_eq_mul_inv]; apply mul_le_mul_of_nonneg_left _ hw0; norm_num)
    have r1lo : 0 ≤ r1 := IsRN.nonneg hr1 (by positivity)
    have hwq : (f.w:ℚ) ≤ 2 ^ 31 := by exact_mod_cast hmax
    have e31 : (2:ℚ) ^ 31 = 2147483648 := by norm_num
    rw [e31] at hwq
    have r1fin : |r1| < (2:ℚ) ^ (1024:ℤ) := by
      have : (2:ℚ) ^ (31:ℤ) < (2:ℚ) ^ (1024:ℤ) := Dy.two_zpow_lt_iff.mpr (by norm_num)
      have e : (2:ℚ) ^ (31:ℤ) = 2147483648 := by norm_num
      rw [e] at this
      rw [abs_lt]
      generalize (2:ℚ) ^ (1024:ℤ) = B at *
      constructor <;> linarith
    obtain ⟨hf1a, hf1v⟩ := hf1 r1fin
    set R := F64.ofInt f.w / F64.ofInt Gen.MathC.td with hR
    obtain ⟨sr, mr, er, hRf⟩ := F64.exists_fin_of_isFinite R hf1a
    -- fx = L * R
    obtain ⟨r2, hr2, hf2⟩ := F64.mul_fin_isRN sn sr mn mr en er
    rw [← hn, ← hRf] at hr2 hf2
    rw [hf1v] at hr2
    have hwabs2 : |45 * f.w| ≤ 2 ^ 53 := abs_le.mpr ⟨by omega, by omega⟩
    have g2 := IsRN.of_fits 53 (by norm_num) (-1074) (45 * f.w) (-6) hwabs2 (by norm_num)
    have e6 : (2:ℚ) ^ (-6:ℤ) = 1 / 64 := by norm_num
    rw [e6] at g2
    push_cast at g2
    have hLb := abs_le.mp hnb
    have r2hi : r2 ≤ 45 * (f.w:ℚ) * (1 / 64) := IsRN.mono (by norm_num) hr2 g2 (by nlinarith)
    have r2lo : -(45 * (f.w:ℚ) * (1 / 64)) ≤ r2 := by
      have := IsRN.mono (by norm_num) g2.neg hr2 (by nlinarith)
      linarith
    have r2fin : |r2| < (2:ℚ) ^ (1024:ℤ) := by
      have : (2:ℚ) ^ (31:ℤ) < (2:ℚ) ^ (1024:ℤ) := Dy.two_zpow_lt_iff.mpr (by norm_num)
      have e : (2:ℚ) ^ (31:ℤ) = 2147483648 := by norm_num
      rw [e] at this
      rw [abs_lt]
      generalize (2:ℚ) ^ (1024:ℤ) = B at *
      constructor <;> linarith
    obtain ⟨_, hf2v⟩ := hf2 r2fin
    -- the floor
    have hfl : fl (L * R) = Dy.floor (L * R).toDy := by unfold fl; rw [F64.floor_toDy_floor]
    obtain ⟨q1, q2⟩ := Dy.floor_spec (L * R).toDy
    have hv : (L * R).toDy.val = r2 := hf2v
    rw [hv, ← hfl] at q1 q2
    have hw2 : (2:ℚ) ≤ (f.w:ℚ) := by exact_mod_cast h2
    have b1 : -(f.w) ≤ fl (L * R) := by
      have : ((-(f.w) - 1 : ℤ) : ℚ) < ((fl (L * R) : ℤ) : ℚ) := by push_cast; linarith
      have : -(f.w) - 1 < fl (L * R) := by exact_mod_cast this
      omega
    have b2 : fl (L * R) < f.w := by
      have : ((fl (L * R) : ℤ) : ℚ) < ((f.w : ℤ) : ℚ) := by linarith
      exact_mod_cast this
    -- read off ix
    simp only [Option.some.injEq, Prod.mk.injEq] at h
    obtain ⟨hix, _⟩ := h
    rw [← hix]
    split_ifs <;> omega

end Geoid
end GeoVerif
