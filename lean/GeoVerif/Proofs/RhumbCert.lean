import GeoVerif.Series.RhumbCert
/-! kernel evaluation of the rhumb-area certificate (its own module: rebuilt only when the extracted tables change) -/
namespace GeoVerif.Proofs.RhumbCert
theorem rhumb_area_table : GeoVerif.Series.RhumbCert.checkRhumbArea = true := by decide +kernel
end GeoVerif.Proofs.RhumbCert
