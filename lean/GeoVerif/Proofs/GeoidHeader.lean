import GeoVerif.Model.GeoidHeader
import Mathlib.Tactic.Ring
import Mathlib.Tactic.Linarith
import Mathlib.Tactic.SplitIfs
import Mathlib.Tactic.NormNum
/-!
# Lemmas about the byte-level model of the PGM header parser (`Model/GeoidHeader.lean`)
-/
namespace GeoVerif.GeoidHeader
open GeoVerif

def hdrOf (raw : Raw) (ds : Nat) : Header :=
  { offset := raw.st.offset, scale := raw.st.scale, maxerror := raw.st.maxerror, rmserror := raw.st.rmserror,
    description := raw.st.description, datetime := raw.st.datetime, w := raw.w, h := raw.h, datastart := ds }

theorem validate_ok_iff (raw : Raw) (len : Nat) (H : Header) :
    validate raw len = .ok H ↔
      raw.maxval = pixelMax ∧ F64.eq raw.st.offset Decimal.maxFinite = false ∧ F64.eq raw.st.scale 0 = false ∧
      F64.lt raw.st.scale 0 = false ∧ 2 ≤ raw.w ∧ 2 ≤ raw.h ∧ raw.w % 2 = 0 ∧ raw.h % 2 = 1 ∧ raw.w ≤ 2 ^ 30 ∧ raw.h ≤ 2 ^ 30 ∧
      ∃ p, raw.tell = some p ∧ lengthOKCoded (p + 1) raw.w raw.h len = true ∧ H = hdrOf raw (p + 1) := by
  cases ht : raw.tell with
  | none =>
    simp only [validate, ht]
    split_ifs <;> simp_all
  | some p =>
    simp only [validate, ht, hdrOf]
    split_ifs with h1 h2 h3 h4 h5 h6 h7 h8 h9
    all_goals simp_all
    all_goals first | omega | (constructor <;> intro h <;> simp_all <;> omega)

set_option maxHeartbeats 2000000 in
theorem validate_error_iff (raw : Raw) (len : Nat) :
    (validate raw len = .error .maxvalValue ↔ raw.maxval ≠ pixelMax) ∧
    (validate raw len = .error .offsetUnset ↔ raw.maxval = pixelMax ∧ F64.eq raw.st.offset Decimal.maxFinite = true) ∧
    (validate raw len = .error .scaleUnset ↔ raw.maxval = pixelMax ∧ F64.eq raw.st.offset Decimal.maxFinite = false ∧ F64.eq raw.st.scale 0 = true) ∧
    (validate raw len = .error .scaleNeg ↔ raw.maxval = pixelMax ∧ F64.eq raw.st.offset Decimal.maxFinite = false ∧ F64.eq raw.st.scale 0 = false ∧
        F64.lt raw.st.scale 0 = true) ∧
    (validate raw len = .error .tooSmall ↔ raw.maxval = pixelMax ∧ F64.eq raw.st.offset Decimal.maxFinite = false ∧ F64.eq raw.st.scale 0 = false ∧
        F64.lt raw.st.scale 0 = false ∧ (raw.h < 2 ∨ raw.w < 2)) ∧
    (validate raw len = .error .widthOdd ↔ raw.maxval = pixelMax ∧ F64.eq raw.st.offset Decimal.maxFinite = false ∧ F64.eq raw.st.scale 0 = false ∧
        F64.lt raw.st.scale 0 = false ∧ 2 ≤ raw.h ∧ 2 ≤ raw.w ∧ raw.w % 2 = 1) ∧
    (validate raw len = .error .heightEven ↔ raw.maxval = pixelMax ∧ F64.eq raw.st.offset Decimal.maxFinite = false ∧ F64.eq raw.st.scale 0 = false ∧
        F64.lt raw.st.scale 0 = false ∧ 2 ≤ raw.h ∧ 2 ≤ raw.w ∧ raw.w % 2 = 0 ∧ raw.h % 2 = 0) ∧
    (validate raw len = .error .tooLarge ↔ raw.maxval = pixelMax ∧ F64.eq raw.st.offset Decimal.maxFinite = false ∧ F64.eq raw.st.scale 0 = false ∧
        F64.lt raw.st.scale 0 = false ∧ 2 ≤ raw.h ∧ 2 ≤ raw.w ∧ raw.w % 2 = 0 ∧ raw.h % 2 = 1 ∧ (2 ^ 30 < raw.w ∨ 2 ^ 30 < raw.h)) ∧
    (validate raw len = .error .wrongLength ↔ raw.maxval = pixelMax ∧ F64.eq raw.st.offset Decimal.maxFinite = false ∧ F64.eq raw.st.scale 0 = false ∧
        F64.lt raw.st.scale 0 = false ∧ 2 ≤ raw.h ∧ 2 ≤ raw.w ∧ raw.w % 2 = 0 ∧ raw.h % 2 = 1 ∧ raw.w ≤ 2 ^ 30 ∧ raw.h ≤ 2 ^ 30 ∧
        (raw.tell = none ∨ ∃ p, raw.tell = some p ∧ lengthOKCoded (p + 1) raw.w raw.h len = false)) ∧
    (∀ e, validate raw len = .error e → e ∈ [Err.maxvalValue, .offsetUnset, .scaleUnset, .scaleNeg, .tooSmall, .widthOdd, .heightEven, .tooLarge, .wrongLength]) := by
  cases ht : raw.tell with
  | none =>
    simp only [validate, ht]
    split_ifs <;> simp_all <;> omega
  | some p =>
    simp only [validate, ht]
    split_ifs <;> simp_all <;> omega

/-- for dimensions of type `int` and realistic positions the 64-bit arithmetic of the length test does not wrap -/
theorem lengthOKCoded_iff (ds : Nat) (w h : Int) (len : Nat) (hw : 0 ≤ w ∧ w < 2 ^ 31) (hh : 0 ≤ h ∧ h < 2 ^ 31)
    (hds : ds < 2 ^ 62) (hlen : len < 2 ^ 64) :
    lengthOKCoded ds w h len = true ↔ ds + 2 * w.toNat * h.toNat = len := by
  obtain ⟨W, rfl⟩ := Int.eq_ofNat_of_zero_le hw.1
  obtain ⟨Hh, rfl⟩ := Int.eq_ofNat_of_zero_le hh.1
  have hW : W < 2 ^ 31 := by omega
  have hH : Hh < 2 ^ 31 := by omega
  have hWH : W * Hh < 2 ^ 62 := by
    calc W * Hh < 2 ^ 31 * 2 ^ 31 := Nat.mul_lt_mul'' hW hH
      _ = 2 ^ 62 := by norm_num
  unfold lengthOKCoded two64 pixelSize
  have e1 : ((W : Int) % ((2 ^ 64 : Nat) : Int)).toNat = W := by
    rw [Int.emod_eq_of_lt (by omega) (by push_cast; omega)]; simp
  have e2 : ((Hh : Int) % ((2 ^ 64 : Nat) : Int)).toNat = Hh := by
    rw [Int.emod_eq_of_lt (by omega) (by push_cast; omega)]; simp
  rw [e1, e2]
  have e3 : 2 * W % 2 ^ 64 = 2 * W := Nat.mod_eq_of_lt (by omega)
  rw [e3]
  have e4 : 2 * W * Hh = 2 * (W * Hh) := by ring
  have e5 : 2 * W * Hh % 2 ^ 64 = 2 * W * Hh := Nat.mod_eq_of_lt (by omega)
  rw [e5]
  have e6 : (ds + 2 * W * Hh) % 2 ^ 64 = ds + 2 * W * Hh := Nat.mod_eq_of_lt (by omega)
  rw [e6, Nat.mod_eq_of_lt hlen]
  simp

/-! ## the scanner consumes its input monotonically; what it returns is in the range of the C++ types -/

theorem dropWhile_length_le {α} (p : α → Bool) (l : List α) : (l.dropWhile p).length ≤ l.length :=
  (List.dropWhile_suffix p).length_le

theorem scanDigits_length (v n : Nat) (r : Bytes) : (scanDigits v n r).rest.length ≤ r.length := by
  induction r generalizing v n with
  | nil => simp [scanDigits]
  | cons c r ih =>
    unfold scanDigits
    split
    · exact Nat.le_trans (ih _ _) (by simp)
    · simp

theorem skipws_length (r : Bytes) : (skipws r).length ≤ r.length := dropWhile_length_le _ _

theorem stripSign_length (r : Bytes) : (stripSign r).2.length ≤ r.length := by
  unfold stripSign; split <;> simp

theorem numGetInt_ok_range (r : Bytes) (x : Int) (h : (numGetInt r).1 = .ok x) : -(2:Int) ^ 31 ≤ x ∧ x ≤ 2 ^ 31 - 1 := by
  unfold numGetInt at h
  simp only [] at h
  split_ifs at h with h0 h1 h2 h3
  all_goals simp at h
  all_goals (subst h; omega)

theorem sizeLine_range (s : Bytes) (w hh : Int) (h : sizeLine s = some (w, hh)) :
    (-(2:Int) ^ 31 ≤ w ∧ w ≤ 2 ^ 31 - 1) ∧ (-(2:Int) ^ 31 ≤ hh ∧ hh ≤ 2 ^ 31 - 1) := by
  unfold sizeLine at h
  split at h
  · rename_i w' hw
    split at h
    · rename_i h' hh'
      simp at h
      obtain ⟨rfl, rfl⟩ := h
      exact ⟨numGetInt_ok_range _ _ hw, numGetInt_ok_range _ _ hh'⟩
    · simp at h
  · simp at h

theorem numGetUnsigned_length (r : Bytes) : (numGetUnsigned r).2.length ≤ r.length := by
  unfold numGetUnsigned
  have h2 := skipws_length r
  have h3 := stripSign_length (skipws r)
  have h1 := scanDigits_length 0 0 (stripSign (skipws r)).2
  simp only []
  split_ifs <;> simp only [List.length_nil] <;> omega

theorem readMaxval_props (st : HState) (w h : Int) (consumed : Nat) (r : Bytes) (raw : Raw)
    (hr : readMaxval st w h consumed r = .ok raw) :
    raw.w = w ∧ raw.h = h ∧ raw.st = st ∧ ∀ p, raw.tell = some p → p < consumed + r.length := by
  unfold readMaxval at hr
  split at hr
  · rename_i mv hu
    simp at hr
    subst hr
    refine ⟨rfl, rfl, rfl, ?_⟩
    intro p hp
    simp only [] at hp
    split_ifs at hp with he
    simp at hp
    have hl := numGetUnsigned_length r
    have : (numGetUnsigned r).2.length ≠ 0 := by
      intro h0; apply he; simp [List.length_eq_zero_iff.mp h0]
    omega
  · simp at hr

theorem getline_length (r s r' : Bytes) (h : getline r = some (s, r')) : r'.length < r.length := by
  unfold getline at h
  split_ifs at h with hne
  simp at h
  obtain ⟨_, rfl⟩ := h
  have h1 : (List.dropWhile (fun x => x != 10) r).length ≤ r.length := dropWhile_length_le _ _
  cases hd : List.dropWhile (fun x => x != 10) r with
  | nil =>
    cases r with
    | nil => simp at hne
    | cons a t => simp
  | cons a t =>
    rw [hd] at h1
    simp at h1 ⊢
    omega

theorem loop_props (cubic : Bool) (total : Nat) (fuel : Nat) (st : HState) (r : Bytes) (raw : Raw)
    (hr : r.length ≤ total) (h : loop cubic total fuel st r = .ok raw) :
    (∃ s, sizeLine s = some (raw.w, raw.h)) ∧ ∀ p, raw.tell = some p → p < total := by
  induction fuel generalizing st r with
  | zero => simp [loop] at h
  | succ n ih =>
    unfold loop at h
    split at h
    · simp at h
    · rename_i s r' hg
      have hl := getline_length r s r' hg
      split at h
      · exact ih st r' (by omega) h
      · rename_i c t
        split_ifs at h with hc
        · split at h
          · simp at h
          · rename_i st' hp
            exact ih st' r' (by omega) h
        · split at h
          · simp at h
          · rename_i w hh hs
            obtain ⟨e1, e2, _, e4⟩ := readMaxval_props _ _ _ _ _ _ h
            refine ⟨⟨_, by rw [e1, e2]; exact hs⟩, ?_⟩
            intro p hp
            have := e4 p hp
            omega

/-- what a successful scan returns: dimensions in the range of `int`, stream position inside the input -/
theorem scan_props (cubic : Bool) (file : Bytes) (raw : Raw) (h : scan cubic file = .ok raw) :
    ((-(2:Int) ^ 31 ≤ raw.w ∧ raw.w ≤ 2 ^ 31 - 1) ∧ (-(2:Int) ^ 31 ≤ raw.h ∧ raw.h ≤ 2 ^ 31 - 1)) ∧
    ∀ p, raw.tell = some p → p < file.length := by
  unfold scan at h
  split at h
  · simp at h
  · rename_i s r hg
    split_ifs at h
    have hl := getline_length _ _ _ hg
    obtain ⟨⟨s', hs'⟩, h2⟩ := loop_props cubic file.length _ _ r raw (by omega) h
    exact ⟨sizeLine_range _ _ _ hs', h2⟩

/-! ## structure of the scan; the last occurrence of a key counts -/

/-- what the loop does with one line that is empty or starts with `#` -/
def procLine (cubic : Bool) (st : HState) (l : Bytes) : Except Err HState :=
  match l with
  | [] => .ok st
  | _ :: _ => procComment cubic st l

def joinLines (ls : List Bytes) : Bytes := ls.flatMap (· ++ [10])

theorem getline_append (l rest : Bytes) (hl : 10 ∉ l) : getline (l ++ 10 :: rest) = some (l, rest) := by
  unfold getline
  have hne : (l ++ 10 :: rest).isEmpty = false := by cases l <;> simp
  rw [hne]
  simp only [Bool.false_eq_true, if_false]
  have h1 : ∀ (l : Bytes), 10 ∉ l → List.takeWhile (· != 10) (l ++ 10 :: rest) = l ∧ List.dropWhile (· != 10) (l ++ 10 :: rest) = 10 :: rest := by
    intro l hl
    induction l with
    | nil => simp
    | cons a t ih =>
      have ha : a ≠ 10 := fun h => hl (by simp [h])
      have ht : 10 ∉ t := fun h => hl (by simp [h])
      obtain ⟨i1, i2⟩ := ih ht
      simp [ha, i1, i2]
  obtain ⟨e1, e2⟩ := h1 l hl
  rw [e1, e2]; simp

/-- the loop over a block of comment / empty lines is the fold of `procLine` -/
theorem loop_comments (cubic : Bool) (total : Nat) (ls : List Bytes)
    (hls : ∀ l ∈ ls, 10 ∉ l ∧ (l = [] ∨ ∃ t, l = 35 :: t)) (st : HState) (tail : Bytes) (k : Nat) :
    loop cubic total (ls.length + k) st (joinLines ls ++ tail) =
      match ls.foldlM (procLine cubic) st with
      | .error e => .error e
      | .ok st' => loop cubic total k st' tail := by
  induction ls generalizing st with
  | nil => simp [joinLines]; rfl
  | cons l ls ih =>
    obtain ⟨h10, hform⟩ := hls l (by simp)
    have hrest : ∀ l' ∈ ls, 10 ∉ l' ∧ (l' = [] ∨ ∃ t, l' = 35 :: t) := fun l' h' => hls l' (by simp [h'])
    have e : joinLines (l :: ls) ++ tail = l ++ 10 :: (joinLines ls ++ tail) := by simp [joinLines]
    rw [e]
    have hf : (l :: ls).length + k = (ls.length + k) + 1 := by simp; omega
    rw [hf]
    conv_lhs => unfold loop
    rw [getline_append l _ h10]
    simp only [List.foldlM_cons]
    rcases hform with rfl | ⟨t, rfl⟩
    · simp only [procLine, bind, Except.bind]
      exact ih hrest st
    · simp only [procLine, if_true, bind, Except.bind]
      cases hp : procComment cubic st (35 :: t) with
      | error e => rfl
      | ok st' => exact ih hrest st'

/-- the raster-size line ends the loop -/
theorem loop_size (cubic : Bool) (total : Nat) (sz rest : Bytes) (h10 : 10 ∉ sz) (c : Nat) (t : Bytes) (hsz : sz = c :: t) (hc : c ≠ 35)
    (st : HState) (k : Nat) :
    loop cubic total (k + 1) st (sz ++ 10 :: rest) =
      match sizeLine sz with
      | none => .error .rasterSize
      | some (w, h) => readMaxval st w h (total - rest.length) rest := by
  conv_lhs => unfold loop
  rw [getline_append sz _ h10]
  subst hsz
  simp only [hc, if_false]
  rfl


/-- **structure of the scan**: for a file that consists of the magic line, a block of empty / `#` lines, a line that is
    neither (the raster-size line) and the rest, the scanner is the fold of `procLine` over the block, then `sizeLine`,
    then `readMaxval` on the rest -/
theorem scan_structured (cubic : Bool) (ls : List Bytes) (hls : ∀ l ∈ ls, 10 ∉ l ∧ (l = [] ∨ ∃ t, l = 35 :: t))
    (sz rest : Bytes) (h10 : 10 ∉ sz) (c : Nat) (t : Bytes) (hsz : sz = c :: t) (hc : c ≠ 35) :
    scan cubic (magic ++ 10 :: (joinLines ls ++ (sz ++ 10 :: rest))) =
      match ls.foldlM (procLine cubic) HState.init with
      | .error e => .error e
      | .ok st =>
        match sizeLine sz with
        | none => .error .rasterSize
        | some (w, h) => readMaxval st w h (magic.length + 1 + (joinLines ls).length + sz.length + 1) rest := by
  unfold scan
  rw [getline_append magic _ (by decide)]
  simp only [bne_self_eq_false, Bool.false_eq_true, if_false]
  have hlen : (joinLines ls).length ≥ ls.length := by
    clear hls
    induction ls with
    | nil => simp [joinLines]
    | cons l ls ih => simp [joinLines] at ih ⊢; omega
  have hf : (joinLines ls ++ (sz ++ 10 :: rest)).length + 1 = ls.length + (((joinLines ls).length - ls.length) + sz.length + 1 + rest.length + 1) := by
    simp; omega
  rw [hf, loop_comments cubic _ ls hls]
  cases hfold : ls.foldlM (procLine cubic) HState.init with
  | error e => rfl
  | ok st =>
    simp only []
    rw [loop_size cubic _ sz rest h10 c t hsz hc]
    have : (magic ++ 10 :: (joinLines ls ++ (sz ++ 10 :: rest))).length - rest.length = magic.length + 1 + (joinLines ls).length + sz.length + 1 := by
      simp; omega
    rw [this]

/-- the key of a comment line and the text after it, as `procComment` tokenises the line -/
def lineKey (s : Bytes) : Option (Bytes × Bytes) :=
  match readToken s with
  | none => none
  | some (cid, r1) => if cid != [35] then none else readToken r1

/-- the value a line assigns to `_offset` (`none`: it does not assign one) -/
def offsetOf (s : Bytes) : Option F64 :=
  match lineKey s with
  | some (k, rest) => if k == keyOffset then (match (numGetFloat rest).1 with | .ok v => some v | _ => none) else none
  | none => none

def scaleOf (s : Bytes) : Option F64 :=
  match lineKey s with
  | some (k, rest) => if k == keyScale then (match (numGetFloat rest).1 with | .ok v => some v | _ => none) else none
  | none => none

theorem beq_bytes {a b : Bytes} (h : (a == b) = true) : a = b := by simpa using h

theorem procComment_offset_scale (cubic : Bool) (st st' : HState) (s : Bytes) (h : procComment cubic st s = .ok st') :
    st'.offset = (offsetOf s).getD st.offset ∧ st'.scale = (scaleOf s).getD st.scale := by
  unfold procComment at h
  unfold offsetOf scaleOf lineKey
  cases hr : readToken s with
  | none => simp [hr] at h ⊢; subst h; simp
  | some p =>
    obtain ⟨cid, r1⟩ := p
    simp only [hr] at h ⊢
    by_cases hcid : (cid != [35]) = true
    · simp [hcid] at h ⊢; subst h; simp
    · simp only [hcid, Bool.false_eq_true, if_false] at h ⊢
      cases hr2 : readToken r1 with
      | none => simp [hr2] at h ⊢; subst h; simp
      | some q =>
        obtain ⟨key, rest⟩ := q
        simp only [hr2] at h ⊢
        by_cases k1 : (key == keyDescription) = true
        · have := beq_bytes k1; subst this
          simp only [k1, if_true] at h
          have d1 : (keyDescription == keyOffset) = false := by decide
          have d2 : (keyDescription == keyScale) = false := by decide
          simp only [d1, d2, Bool.false_eq_true, if_false, Option.getD_none]
          injection h with h; subst h
          cases textAfterKey rest <;> simp
        simp only [k1, Bool.false_eq_true, if_false] at h
        by_cases k2 : (key == keyDateTime) = true
        · have := beq_bytes k2; subst this
          simp only [k2, if_true] at h
          have d1 : (keyDateTime == keyOffset) = false := by decide
          have d2 : (keyDateTime == keyScale) = false := by decide
          simp only [d1, d2, Bool.false_eq_true, if_false, Option.getD_none]
          injection h with h; subst h
          cases textAfterKey rest <;> simp
        simp only [k2, Bool.false_eq_true, if_false] at h
        by_cases k3 : (key == keyOffset) = true
        · have := beq_bytes k3; subst this
          simp only [k3, if_true] at h
          have d2 : (keyOffset == keyScale) = false := by decide
          simp only [d2, Bool.false_eq_true, if_false, Option.getD_none, beq_self_eq_true, if_true]
          cases hv : (numGetFloat rest).1 with
          | ok v => simp only [hv] at h; injection h with h; subst h; simp
          | untouched => simp [hv] at h
          | fail x => simp [hv] at h
        simp only [k3, Bool.false_eq_true, if_false] at h ⊢
        by_cases k4 : (key == keyScale) = true
        · have := beq_bytes k4; subst this
          simp only [k4, if_true] at h
          simp only [beq_self_eq_true, if_true, Option.getD_none]
          cases hv : (numGetFloat rest).1 with
          | ok v => simp only [hv] at h; injection h with h; subst h; simp
          | untouched => simp [hv] at h
          | fail x => simp [hv] at h
        simp only [k4, Bool.false_eq_true, if_false, Option.getD_none] at h ⊢
        split_ifs at h <;> (injection h with h; subst h; simp)

theorem procLine_offset_scale (cubic : Bool) (st st' : HState) (l : Bytes) (h : procLine cubic st l = .ok st') :
    st'.offset = (offsetOf l).getD st.offset ∧ st'.scale = (scaleOf l).getD st.scale := by
  cases l with
  | nil =>
    simp [procLine] at h; subst h
    have e1 : offsetOf [] = none := by decide
    have e2 : scaleOf [] = none := by decide
    simp [e1, e2]
  | cons c t => exact procComment_offset_scale cubic st st' _ h

/-- **the last occurrence counts**: after the block of comment lines, `_offset` (`_scale`) is the value of the last
    line that assigns it, or the initial value -/
theorem fold_offset_scale_last (cubic : Bool) (ls : List Bytes) (st st' : HState) (h : ls.foldlM (procLine cubic) st = .ok st') :
    st'.offset = ((ls.filterMap offsetOf).getLast?).getD st.offset ∧ st'.scale = ((ls.filterMap scaleOf).getLast?).getD st.scale := by
  induction ls generalizing st with
  | nil => simp at h; injection h with h; subst h; simp
  | cons l ls ih =>
    simp only [List.foldlM_cons, bind, Except.bind] at h
    cases hp : procLine cubic st l with
    | error e => simp [hp] at h
    | ok st1 =>
      simp only [hp] at h
      obtain ⟨i1, i2⟩ := ih st1 h
      obtain ⟨p1, p2⟩ := procLine_offset_scale cubic st st1 l hp
      constructor
      · rw [i1, p1]
        cases ho : offsetOf l with
        | none => simp [ho]
        | some v =>
          simp only [List.filterMap_cons, ho, Option.getD_some]
          cases hl : (List.filterMap offsetOf ls).getLast? with
          | none =>
            have : List.filterMap offsetOf ls = [] := by simpa using hl
            simp [this]
          | some u =>
            have hne : List.filterMap offsetOf ls ≠ [] := by intro hh; simp [hh] at hl
            rw [List.getLast?_cons_of_ne_nil hne] <;> simp [hl]
      · rw [i2, p2]
        cases ho : scaleOf l with
        | none => simp [ho]
        | some v =>
          simp only [List.filterMap_cons, ho, Option.getD_some]
          cases hl : (List.filterMap scaleOf ls).getLast? with
          | none =>
            have : List.filterMap scaleOf ls = [] := by simpa using hl
            simp [this]
          | some u =>
            have hne : List.filterMap scaleOf ls ≠ [] := by intro hh; simp [hh] at hl
            rw [List.getLast?_cons_of_ne_nil hne] <;> simp [hl]

/-! ## printed numbers are read back -/

/-- decimal digits of `n`, most significant first (no leading zeros) -/
def dec (n : Nat) : Bytes := if n < 10 then [48 + n] else dec (n / 10) ++ [48 + n % 10]
termination_by n
decreasing_by omega

def digitsVal (ds : Bytes) (v : Nat) : Nat := ds.foldl (fun a d => a * 10 + (d - 48)) v

theorem scanDigits_digits (ds : Bytes) (hds : ∀ d ∈ ds, isdigit d = true) (v k : Nat) (rest : Bytes) :
    scanDigits v k (ds ++ rest) = scanDigits (digitsVal ds v) (k + ds.length) rest := by
  induction ds generalizing v k with
  | nil => simp [digitsVal]
  | cons d ds ih =>
    have hd : isdigit d = true := hds d (by simp)
    have := ih (fun x hx => hds x (by simp [hx])) (v * 10 + (d - 48)) (k + 1)
    simp only [List.cons_append, scanDigits, hd, if_true, digitsVal, List.foldl_cons, List.length_cons] at this ⊢
    rw [this]; congr 1; omega

theorem scanDigits_stop (v k : Nat) (rest : Bytes) (h : ∀ c t, rest = c :: t → isdigit c = false) :
    scanDigits v k rest = ⟨v, k, rest⟩ := by
  cases rest with
  | nil => rfl
  | cons c t => simp [scanDigits, h c t rfl]

theorem dec_digits (n : Nat) : ∀ d ∈ dec n, isdigit d = true := by
  induction n using Nat.strong_induction_on with
  | _ n ih =>
    unfold dec
    split
    · intro d hd; simp at hd; subst hd; simp [isdigit]; omega
    · intro d hd
      simp at hd
      rcases hd with hd | hd
      · exact ih (n / 10) (by omega) d hd
      · subst hd; simp [isdigit]; omega

theorem dec_val (n v : Nat) : digitsVal (dec n) v = v * 10 ^ (dec n).length + n := by
  induction n using Nat.strong_induction_on generalizing v with
  | _ n ih =>
    unfold dec
    split
    · simp [digitsVal]
    · simp only [digitsVal, List.foldl_append, List.foldl_cons, List.foldl_nil, List.length_append, List.length_cons, List.length_nil]
      have := ih (n / 10) (by omega) v
      unfold digitsVal at this
      rw [this]
      have e : 48 + n % 10 - 48 = n % 10 := by omega
      rw [e, Nat.pow_succ]
      have := Nat.div_add_mod n 10
      nlinarith

theorem dec_ne_nil (n : Nat) : dec n ≠ [] := by
  unfold dec; split <;> simp

theorem dec_head_digit (n : Nat) : ∃ c t, dec n = c :: t ∧ isdigit c = true := by
  cases h : dec n with
  | nil => exact absurd h (dec_ne_nil n)
  | cons c t => exact ⟨c, t, rfl, dec_digits n c (by rw [h]; simp)⟩

/-- reading back a printed number: `scanDigits` over `dec n` followed by a non-digit -/
theorem scanDigits_dec (n : Nat) (rest : Bytes) (h : ∀ c t, rest = c :: t → isdigit c = false) :
    scanDigits 0 0 (dec n ++ rest) = ⟨n, (dec n).length, rest⟩ := by
  rw [scanDigits_digits _ (dec_digits n), dec_val, scanDigits_stop _ _ _ h]; simp

/-! ## the canonical file of every admissible size -/

deriving instance DecidableEq for F64
deriving instance DecidableEq for HState
deriving instance DecidableEq for Except

/-- the two comment lines of the canonical file -/
def offsetLine : Bytes := str "# Offset -108"
def scaleLine : Bytes := str "# Scale 0.003"
/-- the state after them: offset −108, scale 0.003 (correctly rounded) -/
def stCanon : HState := { HState.init with offset := F64.fin true 108 0, scale := F64.fin false 6917529027641082 (-61) }

theorem canon_fold (cubic : Bool) : [offsetLine, scaleLine].foldlM (procLine cubic) HState.init = .ok stCanon := by
  cases cubic <;> decide +kernel

/-- the raster-size line `w h` is read back -/
theorem sizeLine_dec (w h : Nat) (hw : w < 2 ^ 31) (hh : h < 2 ^ 31) : sizeLine (dec w ++ 32 :: dec h) = some ((w : Int), (h : Int)) := by
  obtain ⟨c, t, hc, hd⟩ := dec_head_digit w
  obtain ⟨c', t', hc', hd'⟩ := dec_head_digit h
  have hsp : ∀ x : Nat, isdigit x = true → isspace x = false := by
    intro x hx; simp [isdigit, isspace] at hx ⊢; omega
  have hsg : ∀ x : Nat, isdigit x = true → x ≠ 45 ∧ x ≠ 43 := by
    intro x hx; simp [isdigit] at hx; omega
  -- first number
  have sk1 : skipws (dec w ++ 32 :: dec h) = dec w ++ 32 :: dec h := by
    rw [hc]; simp [skipws, hsp c hd]
  have ss1 : stripSign (dec w ++ 32 :: dec h) = (false, dec w ++ 32 :: dec h) := by
    rw [hc]
    obtain ⟨n1, n2⟩ := hsg c hd
    unfold stripSign
    split
    · rename_i q heq; simp at heq; omega
    · rename_i q heq; simp at heq; omega
    · rfl
  have sd1 : scanDigits 0 0 (dec w ++ 32 :: dec h) = ⟨w, (dec w).length, 32 :: dec h⟩ :=
    scanDigits_dec w _ (by intro c t h; simp at h; rw [← h.1]; decide)
  have ne1 : (dec w ++ 32 :: dec h).isEmpty = false := by rw [hc]; rfl
  have cnt1 : (dec w).length ≠ 0 := by rw [hc]; simp
  have g1 : numGetInt (dec w ++ 32 :: dec h) = (.ok (w : Int), 32 :: dec h) := by
    unfold numGetInt
    simp only [sk1, ne1, ss1, sd1, Bool.false_eq_true, if_false, cnt1]
    rw [if_neg (by omega), if_neg (by omega)]
  -- second number
  have sk2 : skipws (32 :: dec h) = dec h := by
    rw [hc']
    have : isspace 32 = true := by decide
    simp [skipws, List.dropWhile, this, hsp c' hd']
  have ss2 : stripSign (dec h) = (false, dec h) := by
    rw [hc']
    obtain ⟨n1, n2⟩ := hsg c' hd'
    unfold stripSign
    split
    · rename_i q heq; simp at heq; omega
    · rename_i q heq; simp at heq; omega
    · rfl
  have sd2 : scanDigits 0 0 (dec h) = ⟨h, (dec h).length, []⟩ := by
    have := scanDigits_dec h [] (by intro c t h; cases h)
    simpa using this
  have ne2 : (dec h).isEmpty = false := by rw [hc']; rfl
  have cnt2 : (dec h).length ≠ 0 := by rw [hc']; simp
  have g2 : (numGetInt (32 :: dec h)).1 = .ok (h : Int) := by
    unfold numGetInt
    simp only [sk2, ne2, ss2, sd2, Bool.false_eq_true, if_false, cnt2]
    rw [if_neg (by omega), if_neg (by omega)]
  unfold sizeLine
  rw [g1]
  simp only [g2]

/-- the maxval token `65535` followed by a line feed and any data -/
theorem readMaxval_canon (st : HState) (w h : Int) (consumed : Nat) (data : Bytes) :
    readMaxval st w h consumed (str "65535" ++ 10 :: data) = .ok { st, w, h, maxval := 65535, tell := some (consumed + 5) } := by
  have e5 : str "65535" = [54, 53, 53, 51, 53] := by decide
  have sd : scanDigits 0 0 (str "65535" ++ 10 :: data) = ⟨65535, 5, 10 :: data⟩ := by
    rw [e5]; simp [scanDigits, isdigit]
  have sk : skipws (str "65535" ++ 10 :: data) = str "65535" ++ 10 :: data := by
    have : str "65535" = [54, 53, 53, 51, 53] := by decide
    rw [this]; rfl
  have ss : stripSign (str "65535" ++ 10 :: data) = (false, str "65535" ++ 10 :: data) := by
    have : str "65535" = [54, 53, 53, 51, 53] := by decide
    rw [this]; rfl
  have ne : (str "65535" ++ 10 :: data).isEmpty = false := by
    have : str "65535" = [54, 53, 53, 51, 53] := by decide
    rw [this]; rfl
  have g : numGetUnsigned (str "65535" ++ 10 :: data) = (.ok 65535, 10 :: data) := by
    unfold numGetUnsigned
    simp only [sk, ne, ss, sd, Bool.false_eq_true, if_false]
    norm_num
  unfold readMaxval
  rw [g]
  have l5 : (str "65535").length = 5 := by decide
  simp [l5]


theorem dec_length_le (k n : Nat) (hk : 1 ≤ k) (h : n < 10 ^ k) : (dec n).length ≤ k := by
  induction k generalizing n with
  | zero => omega
  | succ k ih =>
    unfold dec
    split
    · simp
    · rename_i h10
      by_cases hk0 : k = 0
      · subst hk0; simp at h; omega
      · have : n / 10 < 10 ^ k := by
          rw [Nat.pow_succ] at h
          exact Nat.div_lt_of_lt_mul (by omega)
        have := ih (n / 10) (by omega) this
        simp; omega

/-- the canonical file: magic, `# Offset -108`, `# Scale 0.003`, `w h`, `65535`, one line feed, the data -/
def canonFile (w h : Nat) (data : Bytes) : Bytes :=
  magic ++ 10 :: (joinLines [offsetLine, scaleLine] ++ ((dec w ++ 32 :: dec h) ++ 10 :: (str "65535" ++ 10 :: data)))

/-- length of its header (everything before the data) -/
def canonHeaderLen (w h : Nat) : Nat := 39 + (dec w).length + (dec h).length

theorem joinLines_two (a b : Bytes) : joinLines [a, b] = a ++ 10 :: (b ++ [10]) := by simp [joinLines]

theorem canonFile_length (w h : Nat) (data : Bytes) : (canonFile w h data).length = canonHeaderLen w h + data.length := by
  have m : magic.length = 2 := by decide
  have o : offsetLine.length = 13 := by decide
  have s : scaleLine.length = 13 := by decide
  have f : (str "65535").length = 5 := by decide
  unfold canonFile canonHeaderLen
  rw [joinLines_two]
  simp only [List.length_append, List.length_cons, List.length_nil, m, o, s, f]
  omega

theorem canonical_scan (cubic : Bool) (w h : Nat) (hw : w < 2 ^ 31) (hh : h < 2 ^ 31) (data : Bytes) :
    scan cubic (canonFile w h data) =
      .ok { st := stCanon, w := w, h := h, maxval := 65535, tell := some (canonHeaderLen w h - 1) } := by
  obtain ⟨c, t, hc, hd⟩ := dec_head_digit w
  have h10 : 10 ∉ dec w ++ 32 :: dec h := by
    intro hm
    rcases List.mem_append.mp hm with hm | hm
    · have := dec_digits w 10 hm; simp [isdigit] at this
    · rcases List.mem_cons.mp hm with hm | hm
      · omega
      · have := dec_digits h 10 hm; simp [isdigit] at this
  have hc35 : c ≠ 35 := by intro e; subst e; simp [isdigit] at hd
  have hls : ∀ l ∈ [offsetLine, scaleLine], 10 ∉ l ∧ (l = [] ∨ ∃ t, l = 35 :: t) := by
    intro l hl
    simp at hl
    rcases hl with rfl | rfl
    · exact ⟨by decide, Or.inr ⟨offsetLine.tail, by decide⟩⟩
    · exact ⟨by decide, Or.inr ⟨scaleLine.tail, by decide⟩⟩
  unfold canonFile
  rw [scan_structured cubic [offsetLine, scaleLine] hls (dec w ++ 32 :: dec h) _ h10 c (t ++ 32 :: dec h) (by rw [hc]; rfl) hc35]
  rw [canon_fold cubic]
  simp only [sizeLine_dec w h hw hh]
  rw [readMaxval_canon]
  have m : magic.length = 2 := by decide
  have o : offsetLine.length = 13 := by decide
  have s : scaleLine.length = 13 := by decide
  rw [joinLines_two]
  simp only [canonHeaderLen, List.length_append, List.length_cons, List.length_nil, m, o, s]
  have e : 2 + 1 + (13 + (13 + (0 + 1) + 1)) + ((dec w).length + ((dec h).length + 1)) + 1 + 5 = 39 + (dec w).length + (dec h).length - 1 := by omega
  rw [e]


/-- **every canonical file of every size**: for every even width in [2, 2^31), every odd height in [3, 2^31) and every
    data section, the file `P5 / # Offset -108 / # Scale 0.003 / w h / 65535 / data` is
    * rejected with "Raster size too large" when the width or the height exceeds 2^30 (whatever its length),
    * otherwise accepted if and only if its length is exactly `header + 2·w·h` (unbounded arithmetic: also beyond 2^32)
      — with the announced width, height, offset, scale and `datastart = header length`,
    * and rejected with "File has the wrong length" for any other length -/
theorem canonical_file (cubic : Bool) (w h : Nat) (hw2 : 2 ≤ w) (hwe : w % 2 = 0) (hwm : w < 2 ^ 31)
    (hh3 : 3 ≤ h) (hho : h % 2 = 1) (hhm : h < 2 ^ 31) (data : Bytes) (len : Nat) (hlen : len < 2 ^ 64) :
    (2 ^ 30 < w ∨ 2 ^ 30 < h → parse cubic (canonFile w h data) len = .error .tooLarge) ∧
    (w ≤ 2 ^ 30 → h ≤ 2 ^ 30 → len = canonHeaderLen w h + 2 * w * h →
      parse cubic (canonFile w h data) len = .ok
        { offset := F64.fin true 108 0, scale := F64.fin false 6917529027641082 (-61), maxerror := HState.init.maxerror,
          rmserror := HState.init.rmserror, description := HState.init.description, datetime := HState.init.datetime,
          w := w, h := h, datastart := canonHeaderLen w h }) ∧
    (w ≤ 2 ^ 30 → h ≤ 2 ^ 30 → len ≠ canonHeaderLen w h + 2 * w * h → parse cubic (canonFile w h data) len = .error .wrongLength) := by
  have hs := canonical_scan cubic w h hwm hhm data
  have hl10w := dec_length_le 10 w (by norm_num) (by omega)
  have hl10h := dec_length_le 10 h (by norm_num) (by omega)
  have hpos : 1 ≤ canonHeaderLen w h := by unfold canonHeaderLen; omega
  have hcoded := lengthOKCoded_iff (canonHeaderLen w h - 1 + 1) (w : Int) (h : Int) len ⟨by omega, by omega⟩ ⟨by omega, by omega⟩
    (by unfold canonHeaderLen; omega) hlen
  simp only [Int.toNat_natCast] at hcoded
  have e1 : canonHeaderLen w h - 1 + 1 = canonHeaderLen w h := by omega
  have o1 : F64.eq stCanon.offset Decimal.maxFinite = false := by decide +kernel
  have o2 : F64.eq stCanon.scale 0 = false := by decide +kernel
  have o3 : F64.lt stCanon.scale 0 = false := by decide +kernel
  have d1 : (2:Int) ≤ (w:Int) := by omega
  have d2 : (2:Int) ≤ (h:Int) := by omega
  have d3 : (w:Int) % 2 = 0 := by omega
  have d4 : (h:Int) % 2 = 1 := by omega
  refine ⟨?_, ?_, ?_⟩
  · intro hbig
    unfold parse
    rw [hs]
    simp only []
    rw [(validate_error_iff _ len).2.2.2.2.2.2.2.1]
    refine ⟨rfl, o1, o2, o3, d2, d1, d3, d4, ?_⟩
    rcases hbig with hb | hb
    · left; show (2:Int) ^ 30 < (w:Int); omega
    · right; show (2:Int) ^ 30 < (h:Int); omega
  · intro hw30 hh30 hlen'
    have d5 : (w:Int) ≤ 2 ^ 30 := by omega
    have d6 : (h:Int) ≤ 2 ^ 30 := by omega
    unfold parse
    rw [hs]
    simp only []
    rw [validate_ok_iff]
    refine ⟨rfl, o1, o2, o3, d1, d2, d3, d4, d5, d6, canonHeaderLen w h - 1, rfl, ?_, ?_⟩
    · exact hcoded.mpr (by rw [e1]; omega)
    · simp [hdrOf, stCanon, e1]
  · intro hw30 hh30 hne
    have d5 : (w:Int) ≤ 2 ^ 30 := by omega
    have d6 : (h:Int) ≤ 2 ^ 30 := by omega
    unfold parse
    rw [hs]
    simp only []
    rw [(validate_error_iff _ len).2.2.2.2.2.2.2.2.1]
    refine ⟨rfl, o1, o2, o3, d2, d1, d3, d4, d5, d6, Or.inr ⟨canonHeaderLen w h - 1, rfl, ?_⟩⟩
    cases hc : lengthOKCoded (canonHeaderLen w h - 1 + 1) (w : Int) (h : Int) len with
    | false => rfl
    | true => exact absurd (by have := hcoded.mp hc; rw [e1] at this; omega) hne

end GeoVerif.GeoidHeader
