import GeoVerif.Model.GeoidHeader
import Mathlib.Tactic.Ring
import Mathlib.Tactic.Linarith
import Mathlib.Tactic.SplitIfs
import Mathlib.Tactic.NormNum
/-!
# Lemmas about the byte-level model of the PGM header parser (`Model/GeoidHeader.lean`)
-/
namespace GeoVerif.GeoidHeader
open GeoVerif

def hdrOf (raw : Raw) (ds : Nat) : Header :=
  { offset := raw.st.offset, scale := raw.st.scale, maxerror := raw.st.maxerror, rmserror := raw.st.rmserror,
    description := raw.st.description, datetime := raw.st.datetime, w := raw.w, h := raw.h, datastart := ds }

theorem validate_ok_iff (raw : Raw) (len : Nat) (H : Header) :
    validate raw len = .ok H ↔
      raw.maxval = pixelMax ∧ F64.eq raw.st.offset Decimal.maxFinite = false ∧ F64.eq raw.st.scale 0 = false ∧
      F64.lt raw.st.scale 0 = false ∧ 2 ≤ raw.w ∧ 2 ≤ raw.h ∧ raw.w % 2 = 0 ∧ raw.h % 2 = 1 ∧
      ∃ p, raw.tell = some p ∧ lengthOKCoded (p + 1) raw.w raw.h len = true ∧ H = hdrOf raw (p + 1) := by
  cases ht : raw.tell with
  | none =>
    simp only [validate, ht]
    split_ifs <;> simp_all
  | some p =>
    simp only [validate, ht, hdrOf]
    split_ifs with h1 h2 h3 h4 h5 h6 h7 h8
    all_goals simp_all
    all_goals first | omega | (constructor <;> intro h <;> simp_all <;> omega)

theorem validate_error_iff (raw : Raw) (len : Nat) :
    (validate raw len = .error .maxvalValue ↔ raw.maxval ≠ pixelMax) ∧
    (validate raw len = .error .offsetUnset ↔ raw.maxval = pixelMax ∧ F64.eq raw.st.offset Decimal.maxFinite = true) ∧
    (validate raw len = .error .scaleUnset ↔ raw.maxval = pixelMax ∧ F64.eq raw.st.offset Decimal.maxFinite = false ∧ F64.eq raw.st.scale 0 = true) ∧
    (validate raw len = .error .scaleNeg ↔ raw.maxval = pixelMax ∧ F64.eq raw.st.offset Decimal.maxFinite = false ∧ F64.eq raw.st.scale 0 = false ∧
        F64.lt raw.st.scale 0 = true) ∧
    (validate raw len = .error .tooSmall ↔ raw.maxval = pixelMax ∧ F64.eq raw.st.offset Decimal.maxFinite = false ∧ F64.eq raw.st.scale 0 = false ∧
        F64.lt raw.st.scale 0 = false ∧ (raw.h < 2 ∨ raw.w < 2)) ∧
    (validate raw len = .error .widthOdd ↔ raw.maxval = pixelMax ∧ F64.eq raw.st.offset Decimal.maxFinite = false ∧ F64.eq raw.st.scale 0 = false ∧
        F64.lt raw.st.scale 0 = false ∧ 2 ≤ raw.h ∧ 2 ≤ raw.w ∧ raw.w % 2 = 1) ∧
    (validate raw len = .error .heightEven ↔ raw.maxval = pixelMax ∧ F64.eq raw.st.offset Decimal.maxFinite = false ∧ F64.eq raw.st.scale 0 = false ∧
        F64.lt raw.st.scale 0 = false ∧ 2 ≤ raw.h ∧ 2 ≤ raw.w ∧ raw.w % 2 = 0 ∧ raw.h % 2 = 0) ∧
    (validate raw len = .error .wrongLength ↔ raw.maxval = pixelMax ∧ F64.eq raw.st.offset Decimal.maxFinite = false ∧ F64.eq raw.st.scale 0 = false ∧
        F64.lt raw.st.scale 0 = false ∧ 2 ≤ raw.h ∧ 2 ≤ raw.w ∧ raw.w % 2 = 0 ∧ raw.h % 2 = 1 ∧
        (raw.tell = none ∨ ∃ p, raw.tell = some p ∧ lengthOKCoded (p + 1) raw.w raw.h len = false)) ∧
    (∀ e, validate raw len = .error e → e ∈ [Err.maxvalValue, .offsetUnset, .scaleUnset, .scaleNeg, .tooSmall, .widthOdd, .heightEven, .wrongLength]) := by
  cases ht : raw.tell with
  | none =>
    simp only [validate, ht]
    split_ifs <;> simp_all <;> omega
  | some p =>
    simp only [validate, ht]
    split_ifs <;> simp_all <;> omega

/-- for dimensions of type `int` and realistic positions the 64-bit arithmetic of the length test does not wrap -/
theorem lengthOKCoded_iff (ds : Nat) (w h : Int) (len : Nat) (hw : 0 ≤ w ∧ w < 2 ^ 31) (hh : 0 ≤ h ∧ h < 2 ^ 31)
    (hds : ds < 2 ^ 62) (hlen : len < 2 ^ 64) :
    lengthOKCoded ds w h len = true ↔ ds + 2 * w.toNat * h.toNat = len := by
  obtain ⟨W, rfl⟩ := Int.eq_ofNat_of_zero_le hw.1
  obtain ⟨Hh, rfl⟩ := Int.eq_ofNat_of_zero_le hh.1
  have hW : W < 2 ^ 31 := by omega
  have hH : Hh < 2 ^ 31 := by omega
  have hWH : W * Hh < 2 ^ 62 := by
    calc W * Hh < 2 ^ 31 * 2 ^ 31 := Nat.mul_lt_mul'' hW hH
      _ = 2 ^ 62 := by norm_num
  unfold lengthOKCoded two64 pixelSize
  have e1 : ((W : Int) % ((2 ^ 64 : Nat) : Int)).toNat = W := by
    rw [Int.emod_eq_of_lt (by omega) (by push_cast; omega)]; simp
  have e2 : ((Hh : Int) % ((2 ^ 64 : Nat) : Int)).toNat = Hh := by
    rw [Int.emod_eq_of_lt (by omega) (by push_cast; omega)]; simp
  rw [e1, e2]
  have e3 : 2 * W % 2 ^ 64 = 2 * W := Nat.mod_eq_of_lt (by omega)
  rw [e3]
  have e4 : 2 * W * Hh = 2 * (W * Hh) := by ring
  have e5 : 2 * W * Hh % 2 ^ 64 = 2 * W * Hh := Nat.mod_eq_of_lt (by omega)
  rw [e5]
  have e6 : (ds + 2 * W * Hh) % 2 ^ 64 = ds + 2 * W * Hh := Nat.mod_eq_of_lt (by omega)
  rw [e6, Nat.mod_eq_of_lt hlen]
  simp

/-! ## the scanner consumes its input monotonically; what it returns is in the range of the C++ types -/

theorem dropWhile_length_le {α} (p : α → Bool) (l : List α) : (l.dropWhile p).length ≤ l.length :=
  (List.dropWhile_suffix p).length_le

theorem scanDigits_length (v n : Nat) (r : Bytes) : (scanDigits v n r).rest.length ≤ r.length := by
  induction r generalizing v n with
  | nil => simp [scanDigits]
  | cons c r ih =>
    unfold scanDigits
    split
    · exact Nat.le_trans (ih _ _) (by simp)
    · simp

theorem skipws_length (r : Bytes) : (skipws r).length ≤ r.length := dropWhile_length_le _ _

theorem stripSign_length (r : Bytes) : (stripSign r).2.length ≤ r.length := by
  unfold stripSign; split <;> simp

theorem numGetInt_ok_range (r : Bytes) (x : Int) (h : (numGetInt r).1 = .ok x) : -(2:Int) ^ 31 ≤ x ∧ x ≤ 2 ^ 31 - 1 := by
  unfold numGetInt at h
  simp only [] at h
  split_ifs at h with h0 h1 h2 h3
  all_goals simp at h
  all_goals (subst h; omega)

theorem sizeLine_range (s : Bytes) (w hh : Int) (h : sizeLine s = some (w, hh)) :
    (-(2:Int) ^ 31 ≤ w ∧ w ≤ 2 ^ 31 - 1) ∧ (-(2:Int) ^ 31 ≤ hh ∧ hh ≤ 2 ^ 31 - 1) := by
  unfold sizeLine at h
  split at h
  · rename_i w' hw
    split at h
    · rename_i h' hh'
      simp at h
      obtain ⟨rfl, rfl⟩ := h
      exact ⟨numGetInt_ok_range _ _ hw, numGetInt_ok_range _ _ hh'⟩
    · simp at h
  · simp at h

theorem numGetUnsigned_length (r : Bytes) : (numGetUnsigned r).2.length ≤ r.length := by
  unfold numGetUnsigned
  have h2 := skipws_length r
  have h3 := stripSign_length (skipws r)
  have h1 := scanDigits_length 0 0 (stripSign (skipws r)).2
  simp only []
  split_ifs <;> simp only [List.length_nil] <;> omega

theorem readMaxval_props (st : HState) (w h : Int) (consumed : Nat) (r : Bytes) (raw : Raw)
    (hr : readMaxval st w h consumed r = .ok raw) :
    raw.w = w ∧ raw.h = h ∧ raw.st = st ∧ ∀ p, raw.tell = some p → p < consumed + r.length := by
  unfold readMaxval at hr
  split at hr
  · rename_i mv hu
    simp at hr
    subst hr
    refine ⟨rfl, rfl, rfl, ?_⟩
    intro p hp
    simp only [] at hp
    split_ifs at hp with he
    simp at hp
    have hl := numGetUnsigned_length r
    have : (numGetUnsigned r).2.length ≠ 0 := by
      intro h0; apply he; simp [List.length_eq_zero_iff.mp h0]
    omega
  · simp at hr

theorem getline_length (r s r' : Bytes) (h : getline r = some (s, r')) : r'.length < r.length := by
  unfold getline at h
  split_ifs at h with hne
  simp at h
  obtain ⟨_, rfl⟩ := h
  have h1 : (List.dropWhile (fun x => x != 10) r).length ≤ r.length := dropWhile_length_le _ _
  cases hd : List.dropWhile (fun x => x != 10) r with
  | nil =>
    cases r with
    | nil => simp at hne
    | cons a t => simp
  | cons a t =>
    rw [hd] at h1
    simp at h1 ⊢
    omega

theorem loop_props (cubic : Bool) (total : Nat) (fuel : Nat) (st : HState) (r : Bytes) (raw : Raw)
    (hr : r.length ≤ total) (h : loop cubic total fuel st r = .ok raw) :
    (∃ s, sizeLine s = some (raw.w, raw.h)) ∧ ∀ p, raw.tell = some p → p < total := by
  induction fuel generalizing st r with
  | zero => simp [loop] at h
  | succ n ih =>
    unfold loop at h
    split at h
    · simp at h
    · rename_i s r' hg
      have hl := getline_length r s r' hg
      split at h
      · exact ih st r' (by omega) h
      · rename_i c t
        split_ifs at h with hc
        · split at h
          · simp at h
          · rename_i st' hp
            exact ih st' r' (by omega) h
        · split at h
          · simp at h
          · rename_i w hh hs
            obtain ⟨e1, e2, _, e4⟩ := readMaxval_props _ _ _ _ _ _ h
            refine ⟨⟨_, by rw [e1, e2]; exact hs⟩, ?_⟩
            intro p hp
            have := e4 p hp
            omega

/-- what a successful scan returns: dimensions in the range of `int`, stream position inside the input -/
theorem scan_props (cubic : Bool) (file : Bytes) (raw : Raw) (h : scan cubic file = .ok raw) :
    ((-(2:Int) ^ 31 ≤ raw.w ∧ raw.w ≤ 2 ^ 31 - 1) ∧ (-(2:Int) ^ 31 ≤ raw.h ∧ raw.h ≤ 2 ^ 31 - 1)) ∧
    ∀ p, raw.tell = some p → p < file.length := by
  unfold scan at h
  split at h
  · simp at h
  · rename_i s r hg
    split_ifs at h
    have hl := getline_length _ _ _ hg
    obtain ⟨⟨s', hs'⟩, h2⟩ := loop_props cubic file.length _ _ r raw (by omega) h
    exact ⟨sizeLine_range _ _ _ hs', h2⟩

/-! ## structure of the scan; the last occurrence of a key counts -/

/-- what the loop does with one line that is empty or starts with `#` -/
def procLine (cubic : Bool) (st : HState) (l : Bytes) : Except Err HState :=
  match l with
  | [] => .ok st
  | _ :: _ => procComment cubic st l

def joinLines (ls : List Bytes) : Bytes := ls.flatMap (· ++ [10])

theorem getline_append (l rest : Bytes) (hl : 10 ∉ l) : getline (l ++ 10 :: rest) = some (l, rest) := by
  unfold getline
  have hne : (l ++ 10 :: rest).isEmpty = false := by cases l <;> simp
  rw [hne]
  simp only [Bool.false_eq_true, if_false]
  have h1 : ∀ (l : Bytes), 10 ∉ l → List.takeWhile (· != 10) (l ++ 10 :: rest) = l ∧ List.dropWhile (· != 10) (l ++ 10 :: rest) = 10 :: rest := by
    intro l hl
    induction l with
    | nil => simp
    | cons a t ih =>
      have ha : a ≠ 10 := fun h => hl (by simp [h])
      have ht : 10 ∉ t := fun h => hl (by simp [h])
      obtain ⟨i1, i2⟩ := ih ht
      simp [ha, i1, i2]
  obtain ⟨e1, e2⟩ := h1 l hl
  rw [e1, e2]; simp

/-- the loop over a block of comment / empty lines is the fold of `procLine` -/
theorem loop_comments (cubic : Bool) (total : Nat) (ls : List Bytes)
    (hls : ∀ l ∈ ls, 10 ∉ l ∧ (l = [] ∨ ∃ t, l = 35 :: t)) (st : HState) (tail : Bytes) (k : Nat) :
    loop cubic total (ls.length + k) st (joinLines ls ++ tail) =
      match ls.foldlM (procLine cubic) st with
      | .error e => .error e
      | .ok st' => loop cubic total k st' tail := by
  induction ls generalizing st with
  | nil => simp [joinLines]; rfl
  | cons l ls ih =>
    obtain ⟨h10, hform⟩ := hls l (by simp)
    have hrest : ∀ l' ∈ ls, 10 ∉ l' ∧ (l' = [] ∨ ∃ t, l' = 35 :: t) := fun l' h' => hls l' (by simp [h'])
    have e : joinLines (l :: ls) ++ tail = l ++ 10 :: (joinLines ls ++ tail) := by simp [joinLines]
    rw [e]
    have hf : (l :: ls).length + k = (ls.length + k) + 1 := by simp; omega
    rw [hf]
    conv_lhs => unfold loop
    rw [getline_append l _ h10]
    simp only [List.foldlM_cons]
    rcases hform with rfl | ⟨t, rfl⟩
    · simp only [procLine, bind, Except.bind]
      exact ih hrest st
    · simp only [procLine, if_true, bind, Except.bind]
      cases hp : procComment cubic st (35 :: t) with
      | error e => rfl
      | ok st' => exact ih hrest st'

/-- the raster-size line ends the loop -/
theorem loop_size (cubic : Bool) (total : Nat) (sz rest : Bytes) (h10 : 10 ∉ sz) (c : Nat) (t : Bytes) (hsz : sz = c :: t) (hc : c ≠ 35)
    (st : HState) (k : Nat) :
    loop cubic total (k + 1) st (sz ++ 10 :: rest) =
      match sizeLine sz with
      | none => .error .rasterSize
      | some (w, h) => readMaxval st w h (total - rest.length) rest := by
  conv_lhs => unfold loop
  rw [getline_append sz _ h10]
  subst hsz
  simp only [hc, if_false]
  rfl


/-- **structure of the scan**: for a file that consists of the magic line, a block of empty / `#` lines, a line that is
    neither (the raster-size line) and the rest, the scanner is the fold of `procLine` over the block, then `sizeLine`,
    then `readMaxval` on the rest -/
theorem scan_structured (cubic : Bool) (ls : List Bytes) (hls : ∀ l ∈ ls, 10 ∉ l ∧ (l = [] ∨ ∃ t, l = 35 :: t))
    (sz rest : Bytes) (h10 : 10 ∉ sz) (c : Nat) (t : Bytes) (hsz : sz = c :: t) (hc : c ≠ 35) :
    scan cubic (magic ++ 10 :: (joinLines ls ++ (sz ++ 10 :: rest))) =
      match ls.foldlM (procLine cubic) HState.init with
      | .error e => .error e
      | .ok st =>
        match sizeLine sz with
        | none => .error .rasterSize
        | some (w, h) => readMaxval st w h (magic.length + 1 + (joinLines ls).length + sz.length + 1) rest := by
  unfold scan
  rw [getline_append magic _ (by decide)]
  simp only [bne_self_eq_false, Bool.false_eq_true, if_false]
  have hlen : (joinLines ls).length ≥ ls.length := by
    clear hls
    induction ls with
    | nil => simp [joinLines]
    | cons l ls ih => simp [joinLines] at ih ⊢; omega
  have hf : (joinLines ls ++ (sz ++ 10 :: rest)).length + 1 = ls.length + (((joinLines ls).length - ls.length) + sz.length + 1 + rest.length + 1) := by
    simp; omega
  rw [hf, loop_comments cubic _ ls hls]
  cases hfold : ls.foldlM (procLine cubic) HState.init with
  | error e => rfl
  | ok st =>
    simp only []
    rw [loop_size cubic _ sz rest h10 c t hsz hc]
    have : (magic ++ 10 :: (joinLines ls ++ (sz ++ 10 :: rest))).length - rest.length = magic.length + 1 + (joinLines ls).length + sz.length + 1 := by
      simp; omega
    rw [this]

/-- the key of a comment line and the text after it, as `procComment` tokenises the line -/
def lineKey (s : Bytes) : Option (Bytes × Bytes) :=
  match readToken s with
  | none => none
  | some (cid, r1) => if cid != [35] then none else readToken r1

/-- the value a line assigns to `_offset` (`none`: it does not assign one) -/
def offsetOf (s : Bytes) : Option F64 :=
  match lineKey s with
  | some (k, rest) => if k == keyOffset then (match (numGetFloat rest).1 with | .ok v => some v | _ => none) else none
  | none => none

def scaleOf (s : Bytes) : Option F64 :=
  match lineKey s with
  | some (k, rest) => if k == keyScale then (match (numGetFloat rest).1 with | .ok v => some v | _ => none) else none
  | none => none

theorem beq_bytes {a b : Bytes} (h : (a == b) = true) : a = b := by simpa using h

theorem procComment_offset_scale (cubic : Bool) (st st' : HState) (s : Bytes) (h : procComment cubic st s = .ok st') :
    st'.offset = (offsetOf s).getD st.offset ∧ st'.scale = (scaleOf s).getD st.scale := by
  unfold procComment at h
  unfold offsetOf scaleOf lineKey
  cases hr : readToken s with
  | none => simp [hr] at h ⊢; subst h; simp
  | some p =>
    obtain ⟨cid, r1⟩ := p
    simp only [hr] at h ⊢
    by_cases hcid : (cid != [35]) = true
    · simp [hcid] at h ⊢; subst h; simp
    · simp only [hcid, Bool.false_eq_true, if_false] at h ⊢
      cases hr2 : readToken r1 with
      | none => simp [hr2] at h ⊢; subst h; simp
      | some q =>
        obtain ⟨key, rest⟩ := q
        simp only [hr2] at h ⊢
        by_cases k1 : (key == keyDescription) = true
        · have := beq_bytes k1; subst this
          simp only [k1, if_true] at h
          have d1 : (keyDescription == keyOffset) = false := by decide
          have d2 : (keyDescription == keyScale) = false := by decide
          simp only [d1, d2, Bool.false_eq_true, if_false, Option.getD_none]
          injection h with h; subst h
          cases textAfterKey rest <;> simp
        simp only [k1, Bool.false_eq_true, if_false] at h
        by_cases k2 : (key == keyDateTime) = true
        · have := beq_bytes k2; subst this
          simp only [k2, if_true] at h
          have d1 : (keyDateTime == keyOffset) = false := by decide
          have d2 : (keyDateTime == keyScale) = false := by decide
          simp only [d1, d2, Bool.false_eq_true, if_false, Option.getD_none]
          injection h with h; subst h
          cases textAfterKey rest <;> simp
        simp only [k2, Bool.false_eq_true, if_false] at h
        by_cases k3 : (key == keyOffset) = true
        · have := beq_bytes k3; subst this
          simp only [k3, if_true] at h
          have d2 : (keyOffset == keyScale) = false := by decide
          simp only [d2, Bool.false_eq_true, if_false, Option.getD_none, beq_self_eq_true, if_true]
          cases hv : (numGetFloat rest).1 with
          | ok v => simp only [hv] at h; injection h with h; subst h; simp
          | untouched => simp [hv] at h
          | fail x => simp [hv] at h
        simp only [k3, Bool.false_eq_true, if_false] at h ⊢
        by_cases k4 : (key == keyScale) = true
        · have := beq_bytes k4; subst this
          simp only [k4, if_true] at h
          simp only [beq_self_eq_true, if_true, Option.getD_none]
          cases hv : (numGetFloat rest).1 with
          | ok v => simp only [hv] at h; injection h with h; subst h; simp
          | untouched => simp [hv] at h
          | fail x => simp [hv] at h
        simp only [k4, Bool.false_eq_true, if_false, Option.getD_none] at h ⊢
        split_ifs at h <;> (injection h with h; subst h; simp)

theorem procLine_offset_scale (cubic : Bool) (st st' : HState) (l : Bytes) (h : procLine cubic st l = .ok st') :
    st'.offset = (offsetOf l).getD st.offset ∧ st'.scale = (scaleOf l).getD st.scale := by
  cases l with
  | nil =>
    simp [procLine] at h; subst h
    have e1 : offsetOf [] = none := by decide
    have e2 : scaleOf [] = none := by decide
    simp [e1, e2]
  | cons c t => exact procComment_offset_scale cubic st st' _ h

/-- **the last occurrence counts**: after the block of comment lines, `_offset` (`_scale`) is the value of the last
    line that assigns it, or the initial value -/
theorem fold_offset_scale_last (cubic : Bool) (ls : List Bytes) (st st' : HState) (h : ls.foldlM (procLine cubic) st = .ok st') :
    st'.offset = ((ls.filterMap offsetOf).getLast?).getD st.offset ∧ st'.scale = ((ls.filterMap scaleOf).getLast?).getD st.scale := by
  induction ls generalizing st with
  | nil => simp at h; injection h with h; subst h; simp
  | cons l ls ih =>
    simp only [List.foldlM_cons, bind, Except.bind] at h
    cases hp : procLine cubic st l with
    | error e => simp [hp] at h
    | ok st1 =>
      simp only [hp] at h
      obtain ⟨i1, i2⟩ := ih st1 h
      obtain ⟨p1, p2⟩ := procLine_offset_scale cubic st st1 l hp
      constructor
      · rw [i1, p1]
        cases ho : offsetOf l with
        | none => simp [ho]
        | some v =>
          simp only [List.filterMap_cons, ho, Option.getD_some]
          cases hl : (List.filterMap offsetOf ls).getLast? with
          | none =>
            have : List.filterMap offsetOf ls = [] := by simpa using hl
            simp [this]
          | some u =>
            have hne : List.filterMap offsetOf ls ≠ [] := by intro hh; simp [hh] at hl
            rw [List.getLast?_cons_of_ne_nil hne] <;> simp [hl]
      · rw [i2, p2]
        cases ho : scaleOf l with
        | none => simp [ho]
        | some v =>
          simp only [List.filterMap_cons, ho, Option.getD_some]
          cases hl : (List.filterMap scaleOf ls).getLast? with
          | none =>
            have : List.filterMap scaleOf ls = [] := by simpa using hl
            simp [this]
          | some u =>
            have hne : List.filterMap scaleOf ls ≠ [] := by intro hh; simp [hh] at hl
            rw [List.getLast?_cons_of_ne_nil hne] <;> simp [hl]

end GeoVerif.GeoidHeader
