import GeoVerif.Proofs.OSGBScale
import GeoVerif.Proofs.OSGBInt
import GeoVerif.Proofs.GridHelpers
/-!
# `OSGB::GridReference(string)`: the floating accumulation is exact down to 1 m; re-encoding the centre
-/
namespace GeoVerif.OSGBReverse
open GeoVerif GeoVerif.Grid GeoVerif.Grid.OSGB F64 OSGBInt OSGBScale Gen.Grid

/-- finite, with an integer value of magnitude `≤ 2^50` -/
def IntVal (a : F64) (n : ℤ) : Prop := HasVal a (n:ℚ) ∧ |n| ≤ 2 ^ 50

theorem cast_small {n : ℤ} (h : |n| ≤ 2 ^ 50) : |(n:ℚ)| ≤ 2 ^ 52 := by
  have h1 : |(n:ℚ)| ≤ ((2 ^ 50 : ℤ) : ℚ) := by exact_mod_cast h
  have h2 : ((2 ^ 50 : ℤ) : ℚ) ≤ 2 ^ 52 := by norm_num
  linarith

theorem intVal_ofInt (n : ℤ) (h : |n| ≤ 2 ^ 50) : IntVal (F64.ofInt n) n := ⟨hasVal_ofInt n, h⟩

theorem intVal_add {a b : F64} {n m : ℤ} (ha : IntVal a n) (hb : IntVal b m) (h : |n + m| ≤ 2 ^ 50) : IntVal (a + b) (n + m) := by
  obtain ⟨sa, ma, ea, rfl, ea'⟩ := ha.1.fin
  obtain ⟨sb, mb, eb, rfl, eb'⟩ := hb.1.fin
  obtain ⟨r, hr, hf⟩ := add_fin_isRN sa sb ma mb ea eb
  rw [ea', eb'] at hr
  have e := hr.eq_of_fits (n + m) 0 (le_trans h (by norm_num)) (by norm_num) (by push_cast; ring)
  rw [e] at hf
  have hs : |(n:ℚ) + (m:ℚ)| ≤ 2 ^ 52 := by have := cast_small h; push_cast at this; exact this
  refine ⟨?_, h⟩
  have := hf (big_of_le hs)
  push_cast; exact this

theorem intVal_mul {a b : F64} {n m : ℤ} (ha : IntVal a n) (hb : IntVal b m) (h : |n * m| ≤ 2 ^ 50) : IntVal (a * b) (n * m) := by
  have hs : |(n:ℚ) * (m:ℚ)| ≤ 2 ^ 52 := by have := cast_small h; push_cast at this; exact this
  have := hasVal_mul_exact ha.1 hb.1 (n * m) 0 (le_trans h (by norm_num)) (by norm_num) (by push_cast; ring) hs
  exact ⟨by push_cast; exact this, h⟩

theorem intVal_div10 {a : F64} {w : ℤ} (ha : IntVal a (10 * w)) : IntVal (a / F64.ofInt osgb_base) w := by
  have hb : HasVal (F64.ofInt osgb_base) (10:ℚ) := by simpa [osgb_base] using hasVal_ofInt osgb_base
  have hw : |w| ≤ 2 ^ 50 := by
    have := ha.2
    rw [abs_le] at this ⊢
    constructor <;> omega
  obtain ⟨r, hr, hf⟩ := GridHelpers.hasVal_div_rn ha.1 hb (by norm_num)
  have hq : ((10 * w : ℤ) : ℚ) / 10 = (w:ℚ) := by push_cast; field_simp
  rw [hq] at hr
  have e := hr.eq_of_fits w 0 (le_trans hw (by norm_num)) (by norm_num) (by norm_num)
  rw [e] at hf
  exact ⟨hf (big_of_le (cast_small hw)), hw⟩

theorem digitsVal_cons (d : ℕ) (ds : List ℕ) : digitsVal (d :: ds) = d * 10 ^ ds.length + digitsVal ds := by
  unfold digitsVal
  rw [List.foldl_cons, foldl_digits_shift]
  simp [digitsVal]

theorem digitsVal_lt (ds : List ℕ) (h : ∀ d ∈ ds, d < 10) : digitsVal ds < 10 ^ ds.length := by
  induction ds with
  | nil => simp [digitsVal]
  | cons d ds ih =>
    rw [digitsVal_cons, List.length_cons, Nat.pow_succ]
    have h1 := h d (by simp)
    have h2 := ih (fun x hx => h x (by simp [hx]))
    have : d * 10 ^ ds.length ≤ 9 * 10 ^ ds.length := Nat.mul_le_mul_right _ (by omega)
    omega

/-- **the accumulation loop is exact down to 1 m**: with the unit at `10^k` (`|l| ≤ k ≤ 5`), integer coordinates and
decimal digits, processing the digit pairs `l` leaves the unit at `10^(k−|l|)` and adds `digitsVal·10^(k−|l|)` — no rounding -/
theorem loop_exact (l : List (ℕ × ℕ)) (hl : ∀ d ∈ l, d.1 < 10 ∧ d.2 < 10) (st : F64 × F64 × F64) (k : ℕ) (X Y : ℤ)
    (hk : l.length ≤ k) (hk5 : k ≤ 5) (hX : |X| + 10 ^ (k + 1) ≤ 2 ^ 41) (hY : |Y| + 10 ^ (k + 1) ≤ 2 ^ 41)
    (hu : IntVal st.2.2 (10 ^ k)) (hx : IntVal st.1 X) (hy : IntVal st.2.1 Y) :
    IntVal (l.foldl revStep st).2.2 (10 ^ (k - l.length)) ∧
    IntVal (l.foldl revStep st).1 (X + digitsVal (l.map Prod.fst) * 10 ^ (k - l.length)) ∧
    IntVal (l.foldl revStep st).2.1 (Y + digitsVal (l.map Prod.snd) * 10 ^ (k - l.length)) := by
  induction l generalizing st k X Y with
  | nil => simpa [digitsVal] using ⟨hu, hx, hy⟩
  | cons d ds ih =>
    obtain ⟨d1, d2⟩ := hl d (by simp)
    rw [List.length_cons] at hk
    obtain ⟨k', rfl⟩ : ∃ k', k = k' + 1 := ⟨k - 1, by omega⟩
    rw [List.foldl_cons]
    have hu' : IntVal (st.2.2 / F64.ofInt osgb_base) (10 ^ k') := by
      apply intVal_div10
      rw [show (10:ℤ) * 10 ^ k' = 10 ^ (k' + 1) by rw [pow_succ]; ring]
      exact hu
    have hpw : (10:ℤ) ^ k' ≤ 10 ^ 4 := pow_le_pow_right₀ (by norm_num) (by omega)
    have hpos : (0:ℤ) < 10 ^ k' := by positivity
    have e1 : (10:ℤ) ^ (k' + 1 + 1) = 100 * 10 ^ k' := by rw [pow_succ, pow_succ]; ring
    have e2 : (10:ℤ) ^ (k' + 1) = 10 * 10 ^ k' := by rw [pow_succ]; ring
    rw [e1] at hX hY
    have step1 : ∀ (a : F64) (A : ℤ) (j : ℕ), j < 10 → |A| + 100 * 10 ^ k' ≤ 2 ^ 41 → IntVal a A →
        IntVal (a + st.2.2 / F64.ofInt osgb_base * F64.ofInt j) (A + j * 10 ^ k') ∧ |A + j * 10 ^ k'| + 10 ^ (k' + 1) ≤ 2 ^ 41 := by
      intro a A j hj hA ha
      have hj0 : (0:ℤ) ≤ j := by positivity
      have hj9 : (j:ℤ) ≤ 9 := by exact_mod_cast (by omega : j ≤ 9)
      have hprod0 : (0:ℤ) ≤ 10 ^ k' * j := by positivity
      have hprod : (10:ℤ) ^ k' * j ≤ 9 * 10 ^ k' := by nlinarith
      have hm := intVal_mul hu' (intVal_ofInt j (by rw [abs_of_nonneg hj0]; omega)) (by rw [abs_of_nonneg hprod0]; omega)
      have hab : |A + 10 ^ k' * j| ≤ |A| + 9 * 10 ^ k' := by
        have := abs_add_le A (10 ^ k' * j)
        rw [abs_of_nonneg hprod0] at this
        omega
      have hadd := intVal_add ha hm (by omega)
      rw [show A + (j:ℤ) * 10 ^ k' = A + 10 ^ k' * j by ring]
      refine ⟨hadd, ?_⟩
      rw [e2]; omega
    obtain ⟨hx', bx⟩ := step1 st.1 X d.1 d1 hX hx
    obtain ⟨hy', by'⟩ := step1 st.2.1 Y d.2 d2 hY hy
    have := ih (fun x hx => hl x (by simp [hx])) (revStep st d) k' (X + d.1 * 10 ^ k') (Y + d.2 * 10 ^ k')
      (by omega) (by omega) bx by' hu' hx' hy'
    obtain ⟨r1, r2, r3⟩ := this
    have hkk : k' + 1 - (ds.length + 1) = k' - ds.length := by omega
    rw [List.length_cons, hkk]
    refine ⟨r1, ?_, ?_⟩
    · have e : (X + (d.1:ℤ) * 10 ^ k' + (digitsVal (ds.map Prod.fst) : ℤ) * 10 ^ (k' - ds.length)) =
          X + (digitsVal ((d :: ds).map Prod.fst) : ℤ) * 10 ^ (k' - ds.length) := by
        rw [List.map_cons, digitsVal_cons, List.length_map]
        have : (10:ℤ) ^ k' = 10 ^ ds.length * 10 ^ (k' - ds.length) := by
          rw [← pow_add, show ds.length + (k' - ds.length) = k' by omega]
        push_cast
        rw [this]; ring
      rw [← e]; exact r2
    · have e : (Y + (d.2:ℤ) * 10 ^ k' + (digitsVal (ds.map Prod.snd) : ℤ) * 10 ^ (k' - ds.length)) =
          Y + (digitsVal ((d :: ds).map Prod.snd) : ℤ) * 10 ^ (k' - ds.length) := by
        rw [List.map_cons, digitsVal_cons, List.length_map]
        have : (10:ℤ) ^ k' = 10 ^ ds.length * 10 ^ (k' - ds.length) := by
          rw [← pow_add, show ds.length + (k' - ds.length) = k' by omega]
        push_cast
        rw [this]; ring
      rw [← e]; exact r3

theorem map_fst_zip' (a b : List ℕ) (h : a.length = b.length) : (a.zip b).map Prod.fst = a := by
  induction a generalizing b with
  | nil => rfl
  | cons x xs ih =>
    cases b with
    | nil => simp at h
    | cons y ys => simp [List.zip_cons_cons, ih ys (by simpa using h)]

theorem map_snd_zip' (a b : List ℕ) (h : a.length = b.length) : (a.zip b).map Prod.snd = b := by
  induction a generalizing b with
  | nil => cases b with
    | nil => rfl
    | cons y ys => simp at h
  | cons x xs ih =>
    cases b with
    | nil => simp at h
    | cons y ys => simp [List.zip_cons_cons, ih ys (by simpa using h)]

/-- the decoded digits are `< 10` and there are `prec` of them in each field -/
theorem dec_digits (s : List ℕ) (d : Dec) (h : decodeInt s = .ok d) :
    d.xd.length = d.prec ∧ d.yd.length = d.prec ∧ (∀ k ∈ d.xd, k < 10) ∧ (∀ k ∈ d.yd, k < 10) ∧
    -10 ≤ d.xh ∧ d.xh < 15 ∧ -5 ≤ d.yh ∧ d.yh < 20 := by
  obtain ⟨i, j, hlen, hp, hi, hj, hxh, hyh, hx, hy⟩ := decodeInt_ok s d h
  obtain ⟨_, i25, _⟩ := lookup_some_spec letters _ i hi
  obtain ⟨_, j25, _⟩ := lookup_some_spec letters _ j hj
  have l25 : letters.length = 25 := by decide
  rw [l25] at i25 j25
  obtain ⟨a, b, c, e⟩ := letterStep_range i j i25 j25
  obtain ⟨ex, bx⟩ := readDigits_spec _ _ hx
  obtain ⟨ey, by_⟩ := readDigits_spec _ _ hy
  have lx := congrArg List.length ex
  have ly := congrArg List.length ey
  rw [List.length_map, List.length_take, List.length_drop] at lx
  rw [List.length_map, List.length_drop] at ly
  rw [hxh, hyh]
  exact ⟨by omega, by omega, bx, by_, a, b, c, e⟩

/-- **`ReadGridReference` is exact down to 1 m** (`prec ≤ 5`): south-west corner `10^5·xh + X·10^(5−p)` and centre
`+ 10^(5−p)/2`, as binary64 values, for every decoded square -/
theorem reverseVal_exact (d : Dec) (hp : d.prec ≤ 5) (hlx : d.xd.length = d.prec) (hly : d.yd.length = d.prec)
    (hdx : ∀ k ∈ d.xd, k < 10) (hdy : ∀ k ∈ d.yd, k < 10) (hxh : |d.xh| ≤ 100) (hyh : |d.yh| ≤ 100) (cp : Bool) :
    HasVal (reverseVal d cp).1 ((100000 * d.xh + digitsVal d.xd * 10 ^ (5 - d.prec) : ℤ) + (if cp then (10:ℚ) ^ (5 - d.prec) / 2 else 0)) ∧
    HasVal (reverseVal d cp).2 ((100000 * d.yh + digitsVal d.yd * 10 ^ (5 - d.prec) : ℤ) + (if cp then (10:ℚ) ^ (5 - d.prec) / 2 else 0)) := by
  have hT : IntVal (F64.ofInt osgb_tile) (10 ^ 5) := by
    show IntVal (F64.ofInt (100000:ℤ)) (10 ^ 5)
    rw [show (10:ℤ) ^ 5 = 100000 by norm_num]
    exact intVal_ofInt 100000 (by norm_num)
  have bxh := abs_le.mp hxh
  have byh := abs_le.mp hyh
  have hx0 : IntVal (F64.ofInt osgb_tile * F64.ofInt d.xh) (100000 * d.xh) := by
    have := intVal_mul hT (intVal_ofInt d.xh (le_trans hxh (by norm_num))) (by rw [abs_le]; constructor <;> omega)
    rw [show (10:ℤ) ^ 5 * d.xh = 100000 * d.xh by norm_num] at this; exact this
  have hy0 : IntVal (F64.ofInt osgb_tile * F64.ofInt d.yh) (100000 * d.yh) := by
    have := intVal_mul hT (intVal_ofInt d.yh (le_trans hyh (by norm_num))) (by rw [abs_le]; constructor <;> omega)
    rw [show (10:ℤ) ^ 5 * d.yh = 100000 * d.yh by norm_num] at this; exact this
  have hzl : (d.xd.zip d.yd).length = d.prec := by rw [List.length_zip, hlx, hly]; omega
  have hl : ∀ q ∈ d.xd.zip d.yd, q.1 < 10 ∧ q.2 < 10 := by
    intro q hq
    obtain ⟨a, b⟩ := List.of_mem_zip hq
    exact ⟨hdx _ a, hdy _ b⟩
  have hb1 : |100000 * d.xh| + 10 ^ (5 + 1) ≤ (2:ℤ) ^ 41 := by
    have : |100000 * d.xh| ≤ 10000000 := by rw [abs_le]; constructor <;> omega
    omega
  have hb2 : |100000 * d.yh| + 10 ^ (5 + 1) ≤ (2:ℤ) ^ 41 := by
    have : |100000 * d.yh| ≤ 10000000 := by rw [abs_le]; constructor <;> omega
    omega
  obtain ⟨ru, rx, ry⟩ := loop_exact (d.xd.zip d.yd) hl
    (F64.ofInt osgb_tile * F64.ofInt d.xh, F64.ofInt osgb_tile * F64.ofInt d.yh, F64.ofInt osgb_tile) 5
    (100000 * d.xh) (100000 * d.yh) (by omega) (le_refl _) hb1 hb2 hT hx0 hy0
  rw [hzl, map_fst_zip' _ _ (by omega)] at rx
  rw [hzl, map_snd_zip' _ _ (by omega)] at ry
  rw [hzl] at ru
  unfold reverseVal
  simp only []
  set st := (d.xd.zip d.yd).foldl revStep
    (F64.ofInt osgb_tile * F64.ofInt d.xh, F64.ofInt osgb_tile * F64.ofInt d.yh, F64.ofInt osgb_tile) with hst
  cases cp with
  | false =>
    simp only [Bool.false_eq_true, if_false, add_zero]
    exact ⟨rx.1, ry.1⟩
  | true =>
    simp only [if_true]
    -- unit / 2 = 10^k / 2 exactly, and the sums are exact (half-integers)
    have h2 : HasVal (2 : F64) 2 := ⟨rfl, by show (F64.fin false 2 0).val = 2; rw [val_fin]; simp⟩
    set k := 5 - d.prec with hk
    have hk5 : k ≤ 5 := by omega
    have hpw : (10:ℤ) ^ k ≤ 10 ^ 5 := pow_le_pow_right₀ (by norm_num) hk5
    have hpwq : (10:ℚ) ^ k ≤ 10 ^ 5 := pow_le_pow_right₀ (by norm_num) hk5
    have hpos : (0:ℚ) < (10:ℚ) ^ k := by positivity
    have hposz : (0:ℤ) < (10:ℤ) ^ k := by positivity
    obtain ⟨r, hr, hf⟩ := GridHelpers.hasVal_div_rn ru.1 h2 (by norm_num)
    have hhalf : HasVal (st.2.2 / 2) ((10:ℚ) ^ k / 2) := by
      have e := hr.eq_of_fits (10 ^ k) (-1) (by rw [abs_of_pos (by positivity)]; omega) (by norm_num)
        (by push_cast; rw [zpow_neg]; norm_num; ring)
      rw [e] at hf
      have h52 : (10:ℚ) ^ 5 ≤ 2 ^ 52 := by norm_num
      have hsm : |(((10 ^ k : ℤ)) : ℚ) / 2| ≤ 2 ^ 52 := by
        push_cast
        rw [abs_of_pos (by positivity)]
        linarith
      have := hf (big_of_le hsm)
      push_cast at this; exact this
    have sumh : ∀ (a : F64) (A : ℤ), IntVal a A → |A| ≤ 2 ^ 40 → HasVal (a + st.2.2 / 2) ((A:ℚ) + (10:ℚ) ^ k / 2) := by
      intro a A ha hA
      obtain ⟨sa, ma, ea, rfl, ea'⟩ := ha.1.fin
      obtain ⟨sb, mb, eb, hb, eb'⟩ := hhalf.fin
      rw [hb]
      obtain ⟨r, hr, hf⟩ := add_fin_isRN sa sb ma mb ea eb
      rw [ea', eb'] at hr
      have hAb := abs_le.mp hA
      have e := hr.eq_of_fits (2 * A + 10 ^ k) (-1) (by rw [abs_le]; constructor <;> omega) (by norm_num)
        (by push_cast; rw [zpow_neg]; norm_num; ring)
      rw [e] at hf
      have hAq : |(A:ℚ)| ≤ 2 ^ 40 := by exact_mod_cast hA
      have hAqb := abs_le.mp hAq
      exact hf (big_of_le (by
        rw [abs_le]
        have : (2:ℚ) ^ 40 + 10 ^ 5 ≤ 2 ^ 52 := by norm_num
        constructor <;> linarith))
    have bX : |100000 * d.xh + (digitsVal d.xd : ℤ) * 10 ^ k| ≤ 2 ^ 40 := by
      have h1 := digitsVal_lt d.xd hdx
      rw [hlx] at h1
      have h2 : ((digitsVal d.xd : ℕ) : ℤ) < 10 ^ d.prec := by exact_mod_cast h1
      have h3 : (10:ℤ) ^ d.prec * 10 ^ k = 10 ^ 5 := by rw [← pow_add, hk, show d.prec + (5 - d.prec) = 5 by omega]
      have h4 : (0:ℤ) ≤ (digitsVal d.xd : ℤ) * 10 ^ k := by positivity
      have h5 : ((digitsVal d.xd : ℕ) : ℤ) * 10 ^ k ≤ 10 ^ 5 := by
        have : ((digitsVal d.xd : ℕ) : ℤ) * 10 ^ k ≤ 10 ^ d.prec * 10 ^ k := by
          apply mul_le_mul_of_nonneg_right (le_of_lt h2) (by positivity)
        rw [h3] at this; exact this
      rw [abs_le]; constructor <;> omega
    have bY : |100000 * d.yh + (digitsVal d.yd : ℤ) * 10 ^ k| ≤ 2 ^ 40 := by
      have h1 := digitsVal_lt d.yd hdy
      rw [hly] at h1
      have h2 : ((digitsVal d.yd : ℕ) : ℤ) < 10 ^ d.prec := by exact_mod_cast h1
      have h3 : (10:ℤ) ^ d.prec * 10 ^ k = 10 ^ 5 := by rw [← pow_add, hk, show d.prec + (5 - d.prec) = 5 by omega]
      have h4 : (0:ℤ) ≤ (digitsVal d.yd : ℤ) * 10 ^ k := by positivity
      have h5 : ((digitsVal d.yd : ℕ) : ℤ) * 10 ^ k ≤ 10 ^ 5 := by
        have : ((digitsVal d.yd : ℕ) : ℤ) * 10 ^ k ≤ 10 ^ d.prec * 10 ^ k := by
          apply mul_le_mul_of_nonneg_right (le_of_lt h2) (by positivity)
        rw [h3] at this; exact this
      rw [abs_le]; constructor <;> omega
    exact ⟨sumh _ _ rx bX, sumh _ _ ry bY⟩

/-- **encoding a centre**: for the centre `10^5·h + (D + ½)·10^(5−p)` of a square at precision `p ≤ 5` (`0 ≤ D < 10^p`), as
any finite binary64 value, the floating part of `GridReference` returns exactly tile `h`, index `D` -/
theorem scaleCoord_centre {x : F64} (h : ℤ) (D p : ℕ) (hp : p ≤ 5) (hh : |h| ≤ 50) (hD : D < 10 ^ p)
    (hx : HasVal x ((100000 * h + D * 10 ^ (5 - p) : ℤ) + (10:ℚ) ^ (5 - p) / 2)) :
    scaleCoord x p = ⟨h, D, 0⟩ := by
  set k := 5 - p with hk
  set v : ℚ := (100000 * h + D * 10 ^ k : ℤ) + (10:ℚ) ^ k / 2 with hv
  have hkp : p + k = 5 := by omega
  have hpk : (10:ℚ) ^ p * (10:ℚ) ^ k = 100000 := by rw [← pow_add, hkp]; norm_num
  have hpkz : (10:ℤ) ^ p * (10:ℤ) ^ k = 100000 := by rw [← pow_add, hkp]; norm_num
  have hkpos : (0:ℚ) < (10:ℚ) ^ k := by positivity
  have hkposz : (0:ℤ) < (10:ℤ) ^ k := by positivity
  have hk1 : (1:ℚ) ≤ (10:ℚ) ^ k := one_le_pow₀ (by norm_num)
  have hkle : (10:ℤ) ^ k ≤ 100000 := by
    have : (10:ℤ) ^ k ≤ 10 ^ 5 := pow_le_pow_right₀ (by norm_num) (by omega)
    omega
  have hDq : (D:ℚ) + 1 ≤ (10:ℚ) ^ p := by exact_mod_cast hD
  have hDz : (D:ℤ) + 1 ≤ (10:ℤ) ^ p := by exact_mod_cast hD
  have hD0 : (0:ℚ) ≤ (D:ℚ) := by positivity
  -- offset
  have hoff : v - 100000 * (h:ℚ) = ((D:ℚ) + 1 / 2) * (10:ℚ) ^ k := by rw [hv]; push_cast; ring
  have hoff0 : (1:ℚ) / 2 ≤ v - 100000 * (h:ℚ) := by rw [hoff]; nlinarith
  have hoff1 : v - 100000 * (h:ℚ) ≤ 100000 - 1 / 2 := by
    rw [hoff]
    have : ((D:ℚ) + 1 / 2) * (10:ℚ) ^ k ≤ ((10:ℚ) ^ p - 1 / 2) * (10:ℚ) ^ k := by
      apply mul_le_mul_of_nonneg_right (by linarith) hkpos.le
    have e : ((10:ℚ) ^ p - 1 / 2) * (10:ℚ) ^ k = 100000 - (10:ℚ) ^ k / 2 := by rw [sub_mul, hpk]; ring
    rw [e] at this; linarith
  have hb100 := abs_le.mp hh
  have hhq1 : (-50:ℚ) ≤ (h:ℚ) := by exact_mod_cast hb100.1
  have hhq2 : (h:ℚ) ≤ 50 := by exact_mod_cast hb100.2
  have hb : |v| ≤ 10 ^ 7 := by rw [abs_le]; constructor <;> norm_num <;> linarith
  have hn1 : (h:ℚ) ≤ v / 100000 := by rw [le_div_iff₀ (by norm_num)]; linarith
  have hn2 : v / 100000 < (h:ℚ) + 1 := by rw [div_lt_iff₀ (by norm_num)]; linarith
  -- grid
  have hDk : (D:ℤ) * 10 ^ k < 100000 := by
    have : (D:ℤ) * 10 ^ k < 10 ^ p * 10 ^ k := by
      apply mul_lt_mul_of_pos_right (by omega) hkposz
    omega
  have hDk0 : (0:ℤ) ≤ (D:ℤ) * 10 ^ k := by positivity
  have hg : OnGrid v := by
    refine ⟨2 * (100000 * h + D * 10 ^ k) + 10 ^ k, -1, by norm_num, by norm_num, ?_, ?_⟩
    · rw [abs_lt]; constructor <;> omega
    · rw [hv]; push_cast; rw [zpow_neg]; norm_num; ring
  have spec := scaleCoord_spec_val hx hg p (by omega) hb h hn1 hn2
  simp only [] at spec
  rcases spec with ⟨hm1, hU, _⟩ | ⟨hh', t', hrel, _, _, pv, hd, _⟩
  · exfalso
    rw [hm1] at hoff1
    push_cast at hoff1
    rcases hU with hU | ⟨h37, _⟩
    · have hC : (2:ℚ) ^ (-(1075:ℤ)) < (2:ℚ) ^ (-(20:ℤ)) := Dy.two_zpow_lt_iff.mpr (by norm_num)
      have e20 : (2:ℚ) ^ (-(20:ℤ)) = 1 / 1048576 := by rw [zpow_neg]; norm_num
      rw [e20] at hC
      have : (1:ℚ) / 200000 ≤ -(v / 100000) := by
        rw [neg_div', le_div_iff₀ (by norm_num)]; linarith
      linarith
    · have h37' : (2:ℚ) ^ (-(37:ℤ)) < 1 / 2 := by
        have : (2:ℚ) ^ (-(37:ℤ)) < (2:ℚ) ^ (-(1:ℤ)) := Dy.two_zpow_lt_iff.mpr (by norm_num)
        have e1 : (2:ℚ) ^ (-(1:ℤ)) = 1 / 2 := by rw [zpow_neg]; norm_num
        rw [e1] at this; exact this
      have hvle : v ≤ -(1 / 2) := by linarith
      generalize (2:ℚ) ^ (-(37:ℤ)) = A at h37 h37'
      linarith
  · have ht : t' = ((D:ℚ) + 1 / 2) * (10:ℚ) ^ k := by
      rcases hrel with ⟨e, _⟩ | ⟨hm1, _, hr, _⟩
      · rw [e, hoff]
      · have hz : v + 100000 = (((2 * D + 1) * 10 ^ k : ℤ) : ℚ) * (2:ℚ) ^ (-1:ℤ) := by
          have := hoff
          rw [hm1] at this
          push_cast at this ⊢
          rw [zpow_neg]; norm_num
          linarith
        have hfit := hr.eq_of_fits ((2 * D + 1) * 10 ^ k) (-1) (by
          rw [abs_of_nonneg (by positivity)]
          have : (2 * (D:ℤ) + 1) * 10 ^ k ≤ 2 * (10 ^ p * 10 ^ k) := by nlinarith
          omega) (by norm_num) hz
        rw [hfit]
        have := hoff
        rw [hm1] at this
        push_cast at this
        linarith
    obtain ⟨a, b⟩ := hd hp
    have hfl : ⌊t' / (10:ℚ) ^ (5 - p)⌋ = (D:ℤ) := by
      rw [ht, ← hk, mul_div_assoc, div_self (ne_of_gt hkpos), mul_one, Int.floor_eq_iff]
      push_cast
      constructor <;> linarith
    cases hsc : scaleCoord x p with
    | mk h0 i1 i2 =>
      rw [hsc] at hh' a b
      simp only [] at hh' a b
      rw [hh', a, b, hfl]

end GeoVerif.OSGBReverse
