import GeoVerif.Model.Conic
import GeoVerif.Model.ConicKernels
import GeoVerif.Spec.RealInst
import GeoVerif.Proofs.Conic
import Mathlib.Tactic.Ring
import Mathlib.Tactic.LinearCombination
import Mathlib.Tactic.FieldSimp
import Mathlib.Tactic.Positivity
import Mathlib.Tactic.NormNum
import Mathlib.Tactic.Linarith
/-!
# The divided-difference helpers of the conic classes over ℝ (proofs; the property theorems of `Props/C11.lean` restate them)
-/
namespace GeoVerif.Proofs.ConicDD
open GeoVerif GeoVerif.Conic GeoVerif.Proofs.Conic

/-- `Dhyp` is the divided difference of `hyp x = √(1+x²)` -/
theorem Dhyp_dd (x y : ℝ) (hxy : x ≠ y) : Dhyp x y (hyp x) (hyp y) = (hyp x - hyp y) / (x - y) := by
  have hx := hyp_sq x; have hy := hyp_sq y
  have px := hyp_pos x; have py := hyp_pos y
  have h1 : hyp x + hyp y ≠ 0 := by positivity
  have h2 : x - y ≠ 0 := sub_ne_zero.mpr hxy
  unfold Dhyp
  rw [div_eq_div_iff h1 h2]
  linear_combination hy - hx

/-- at `x = y` it is the derivative `x/hyp x` -/
theorem Dhyp_diag (x : ℝ) : Dhyp x x (hyp x) (hyp x) = x / hyp x := by
  have px := hyp_pos x
  unfold Dhyp
  field_simp

/-- `Dsn` is the divided difference of `sn x = x/√(1+x²)` (both headers) -/
theorem Dsn_dd (x y : ℝ) (hxy : x ≠ y) : Dsn x y (x / hyp x) (y / hyp y) = (x / hyp x - y / hyp y) / (x - y) := by
  have hx := hyp_sq x; have hy := hyp_sq y
  have px := hyp_pos x; have py := hyp_pos y
  have h2 : x - y ≠ 0 := sub_ne_zero.mpr hxy
  unfold Dsn
  simp only [ltb_real, eqb_real, zero_real, one_real, sq_real]
  by_cases ht : 0 < x * y
  · simp only [ht, decide_true, if_true]
    have hx0 : x ≠ 0 := fun h => by simp [h] at ht
    have hy0 : y ≠ 0 := fun h => by simp [h] at ht
    have hs : x / hyp x + y / hyp y ≠ 0 := by
      rcases mul_pos_iff.mp ht with ⟨hxp, hyp'⟩ | ⟨hxn, hyn⟩
      · have : 0 < x / hyp x + y / hyp y := by positivity
        exact this.ne'
      · have h1 : x / hyp x < 0 := div_neg_of_neg_of_pos hxn px
        have h2' : y / hyp y < 0 := div_neg_of_neg_of_pos hyn py
        linarith
    rw [div_eq_div_iff hs h2]
    have e1 : x / hyp x * (y / hyp y) / (x * y) = 1 / (hyp x * hyp y) := by field_simp
    rw [e1]
    have hxx : hyp x ≠ 0 := px.ne'
    have hyy : hyp y ≠ 0 := py.ne'
    field_simp
    ring_nf
    rw [hx, hy]
    ring
  · simp only [ht, decide_false, Bool.false_eq_true, if_false, h2, Bool.not_false, if_true]

/-- over the reals `Dlog1p` is the divided difference of `log(1 + ·)` on `(−1, ∞)` -/
theorem Dlog1p_dd (x y : ℝ) (hx : -1 < x) (hy : -1 < y) (hxy : x ≠ y) :
    Dlog1p x y = (Real.log (1 + x) - Real.log (1 + y)) / (x - y) := by
  have px : (0 : ℝ) < 1 + x := by linarith
  have py : (0 : ℝ) < 1 + y := by linarith
  unfold Dlog1p
  simp only [ltb_real, eqb_real, zero_real, one_real, log1p_real]
  by_cases hlt : x - y < 0
  · simp only [hlt, decide_true, if_true]
    have hne : -(x - y) ≠ 0 := by linarith
    simp only [hne, decide_false, Bool.not_false, if_true]
    have e : 1 + -(x - y) / (1 + x) = (1 + y) / (1 + x) := by field_simp; ring
    rw [e, Real.log_div py.ne' px.ne']
    have h2 : x - y ≠ 0 := hlt.ne
    field_simp
    ring
  · simp only [hlt, decide_false, Bool.false_eq_true, if_false]
    have h2 : x - y ≠ 0 := sub_ne_zero.mpr hxy
    simp only [h2, decide_false, Bool.not_false, if_true]
    have e : 1 + (x - y) / (1 + y) = (1 + x) / (1 + y) := by field_simp; ring
    rw [e, Real.log_div px.ne' py.ne']

/-- `Dexp` is the divided difference of `exp` -/
theorem Dexp_dd (x y : ℝ) (hxy : x ≠ y) : Dexp x y = (Real.exp x - Real.exp y) / (x - y) := by
  have h2 : x - y ≠ 0 := sub_ne_zero.mpr hxy
  have ht : (x - y) / 2 ≠ 0 := by
    intro h; apply h2; linarith
  unfold Dexp
  simp only [eqb_real, zero_real, one_real, two_real, sinh_real, exp_real, ht, decide_false, Bool.not_false, if_true]
  rw [Real.sinh_eq]
  have e1 : Real.exp x = Real.exp ((x + y) / 2) * Real.exp ((x - y) / 2) := by rw [← Real.exp_add]; congr 1; ring
  have e2 : Real.exp y = Real.exp ((x + y) / 2) * Real.exp (-((x - y) / 2)) := by rw [← Real.exp_add]; congr 1; ring
  rw [e1, e2]
  field_simp

/-- `Dsinh` is the divided difference of `sinh` (given `sinh` and `cosh` of both arguments) -/
theorem Dsinh_dd (x y : ℝ) (hxy : x ≠ y) :
    Dsinh x y (Real.sinh x) (Real.sinh y) (Real.cosh x) (Real.cosh y) = (Real.sinh x - Real.sinh y) / (x - y) := by
  have h2 : x - y ≠ 0 := sub_ne_zero.mpr hxy
  have ht : (x - y) / 2 ≠ 0 := by
    intro h; apply h2; linarith
  unfold Dsinh
  simp only [eqb_real, zero_real, one_real, two_real, sinh_real, sqrt_real, ht, decide_false, Bool.not_false, if_true]
  set u := (x + y) / 2 with hu
  set v := (x - y) / 2 with hv
  have ex : x = u + v := by rw [hu, hv]; ring
  have ey : y = u - v := by rw [hu, hv]; ring
  have hc : Real.sinh x * Real.sinh y + Real.cosh x * Real.cosh y = Real.cosh (2 * u) := by
    have : 2 * u = x + y := by rw [hu]; ring
    rw [this, Real.cosh_add]; ring
  have hsq : (Real.sinh x * Real.sinh y + Real.cosh x * Real.cosh y + 1) / 2 = Real.cosh u ^ 2 := by
    rw [hc, Real.cosh_two_mul]
    have := Real.cosh_sq u
    linear_combination (-1 / 2 : ℝ) * this
  rw [hsq, Real.sqrt_sq (Real.cosh_pos u).le]
  have hd : Real.sinh x - Real.sinh y = 2 * Real.sinh v * Real.cosh u := by
    rw [ex, ey, Real.sinh_add, Real.sinh_sub]; ring
  have hxy2 : x - y = 2 * v := by rw [hv]; ring
  rw [hd, hxy2]
  field_simp

/-- the hyperbolic cosine the code passes is `hyp (sinh x)` -/
theorem hyp_sinh (x : ℝ) : hyp (Real.sinh x) = Real.cosh x := by
  rw [hyp_real]
  have h := Real.cosh_sq x
  have : 1 + Real.sinh x ^ 2 = Real.cosh x ^ 2 := by linarith
  rw [this, Real.sqrt_sq (Real.cosh_pos x).le]

/-- `arsinh x − arsinh y = arsinh (x hyp y − y hyp x)` -/
theorem arsinh_sub (x y : ℝ) : Real.arsinh x - Real.arsinh y = Real.arsinh (x * hyp y - y * hyp x) := by
  have h : Real.sinh (Real.arsinh x - Real.arsinh y) = x * hyp y - y * hyp x := by
    rw [Real.sinh_sub, Real.sinh_arsinh, Real.sinh_arsinh, Real.cosh_arsinh, Real.cosh_arsinh, hyp_real, hyp_real]
    ring
  rw [← h, Real.arsinh_sinh]

/-- `Dasinh` is the divided difference of `arsinh` -/
theorem Dasinh_dd (x y : ℝ) (hxy : x ≠ y) :
    Dasinh x y (hyp x) (hyp y) = (Real.arsinh x - Real.arsinh y) / (x - y) := by
  have hx := hyp_sq x; have hy := hyp_sq y
  have px := hyp_pos x; have py := hyp_pos y
  have h2 : x - y ≠ 0 := sub_ne_zero.mpr hxy
  unfold Dasinh
  simp only [eqb_real, ltb_real, zero_real, one_real, asinh_real, h2, decide_false, Bool.not_false, if_true]
  rw [arsinh_sub]
  by_cases ht : 0 < x * y
  · simp only [ht, decide_true, if_true]
    have hs : x * hyp y + y * hyp x ≠ 0 := by
      rcases mul_pos_iff.mp ht with ⟨hxp, hyp'⟩ | ⟨hxn, hyn⟩
      · have : 0 < x * hyp y + y * hyp x := by positivity
        exact this.ne'
      · have h1 : x * hyp y < 0 := mul_neg_of_neg_of_pos hxn py
        have h2' : y * hyp x < 0 := mul_neg_of_neg_of_pos hyn px
        linarith
    have e : (x - y) * (x + y) / (x * hyp y + y * hyp x) = x * hyp y - y * hyp x := by
      rw [div_eq_iff hs]
      ring_nf
      rw [hx, hy]
      ring
    rw [e]
  · simp only [ht, decide_false, Bool.false_eq_true, if_false]

/-- at `x = y`: the derivative `1/hyp x` -/
theorem Dasinh_diag (x : ℝ) : Dasinh x x (hyp x) (hyp x) = 1 / hyp x := by
  simp [Dasinh, eqb_real, zero_real, one_real]

/-- subtraction formula of `atanh u = ½ log((1+u)/(1−u))` on `(−1, 1)` -/
theorem atanh_sub (a b : ℝ) (ha : |a| < 1) (hb : |b| < 1) :
    Real.log ((1 + (a - b) / (1 - a * b)) / (1 - (a - b) / (1 - a * b))) =
      Real.log ((1 + a) / (1 - a)) - Real.log ((1 + b) / (1 - b)) := by
  obtain ⟨ha1, ha2⟩ := abs_lt.mp ha
  obtain ⟨hb1, hb2⟩ := abs_lt.mp hb
  have p1 : 0 < 1 + a := by linarith
  have p2 : 0 < 1 - a := by linarith
  have p3 : 0 < 1 + b := by linarith
  have p4 : 0 < 1 - b := by linarith
  have hab : 0 < 1 - a * b := by nlinarith [mul_pos p2 p3, mul_pos p1 p4]
  have n1 : 1 + (a - b) / (1 - a * b) = (1 + a) * (1 - b) / (1 - a * b) := by field_simp; ring
  have n2 : 1 - (a - b) / (1 - a * b) = (1 - a) * (1 + b) / (1 - a * b) := by field_simp; ring
  have e : (1 + a) * (1 - b) / (1 - a * b) / ((1 - a) * (1 + b) / (1 - a * b)) = ((1 + a) / (1 - a)) / ((1 + b) / (1 - b)) := by
    field_simp
  rw [n1, n2, e, Real.log_div (by positivity) (by positivity)]

/-- `Deatanhe` (oblate, `es = e > 0`, `_e2 = e²`) is the divided difference of `x ↦ e·atanh(e x)` where `|e x| < 1` -/
theorem Deatanhe_dd_oblate (es x y : ℝ) (hes : 0 < es) (hx : |es * x| < 1) (hy : |es * y| < 1) (hxy : x ≠ y) :
    Deatanhe (es ^ 2) es x y = (eatanhe x es - eatanhe y es) / (x - y) := by
  have h2 : x - y ≠ 0 := sub_ne_zero.mpr hxy
  unfold Deatanhe eatanhe
  simp only [eqb_real, ltb_real, zero_real, one_real, atanh_real, h2, hes, decide_false, decide_true, Bool.not_false, if_true]
  by_cases hneg : x * y < 0
  · simp only [hneg, decide_true, if_true]
  · simp only [hneg, decide_false, Bool.false_eq_true, if_false]
    have earg : es * ((x - y) / (1 - es ^ 2 * x * y)) = (es * x - es * y) / (1 - es * x * (es * y)) := by
      have : 1 - es ^ 2 * x * y = 1 - es * x * (es * y) := by ring
      rw [this]; ring
    rw [earg, atanh_sub (es * x) (es * y) hx hy]
    ring

/-- `Deatanhe` (prolate or spherical, `es = −√(−e²) ≤ 0`, `_e2 = −es²`) is the divided difference of `x ↦ −es·atan(es x)` for **every** pair
    `x ≠ y`: since 36a144d the code takes the straight difference when `x·y < 0`, and for `x·y ≥ 0` the addition formula of the arctangent
    is on its principal branch -/
theorem Deatanhe_dd_prolate (es x y : ℝ) (hes : es ≤ 0) (hxy : x ≠ y) :
    Deatanhe (-(es ^ 2)) es x y = (eatanhe x es - eatanhe y es) / (x - y) := by
  have h2 : x - y ≠ 0 := sub_ne_zero.mpr hxy
  have hn : ¬ (0 < es) := not_lt.mpr hes
  unfold Deatanhe eatanhe
  simp only [eqb_real, ltb_real, zero_real, one_real, atan_real, h2, hn, decide_false, Bool.not_false, if_true,
    Bool.false_eq_true, if_false]
  by_cases hneg : x * y < 0
  · simp only [hneg, decide_true, if_true]
  · simp only [hneg, decide_false, Bool.false_eq_true, if_false]
    have hnn : 0 ≤ x * y := not_lt.mp hneg
    have hprod : -1 < es * x * (es * y) := by
      have : es * x * (es * y) = es ^ 2 * (x * y) := by ring
      rw [this]; have : 0 ≤ es ^ 2 * (x * y) := by positivity
      linarith
    have hadd : Real.arctan (es * x) - Real.arctan (es * y) = Real.arctan ((es * x - es * y) / (1 + es * x * (es * y))) := by
      have h := Real.arctan_add (x := es * x) (y := -(es * y)) (by nlinarith)
      rw [Real.arctan_neg] at h
      have e : (es * x + -(es * y)) / (1 - es * x * -(es * y)) = (es * x - es * y) / (1 + es * x * (es * y)) := by
        congr 1 <;> ring
      rw [e] at h
      linarith
    have earg : es * ((x - y) / (1 - -(es ^ 2) * x * y)) = (es * x - es * y) / (1 + es * x * (es * y)) := by
      have : 1 - -(es ^ 2) * x * y = 1 + es * x * (es * y) := by ring
      rw [this]; ring
    rw [earg, ← hadd]
    ring

/-- the coded `dpsi` of `Forward` is `ψ − ψ0` -/
theorem lcc_dpsi (tchi tchi0 : ℝ) :
    Dasinh tchi tchi0 (hyp tchi) (hyp tchi0) * (tchi - tchi0) = Real.arsinh tchi - Real.arsinh tchi0 := by
  by_cases h : tchi = tchi0
  · rw [h]; simp
  · rw [Dasinh_dd _ _ h]
    have : tchi - tchi0 ≠ 0 := sub_ne_zero.mpr h
    field_simp

/-- `sn x = x/hyp x` is injective -/
theorem sn_injective (x y : ℝ) (h : x / hyp x = y / hyp y) : x = y := by
  have hx := hyp_sq x; have hy := hyp_sq y
  have px := hyp_pos x; have py := hyp_pos y
  have h1 : x * hyp y = y * hyp x := by
    field_simp at h; linarith
  have h2 : x ^ 2 = y ^ 2 := by
    have : (x * hyp y) ^ 2 = (y * hyp x) ^ 2 := by rw [h1]
    rw [mul_pow, mul_pow, hx, hy] at this
    linarith
  rcases sq_eq_sq_iff_eq_or_eq_neg.mp h2 with h3 | h3
  · exact h3
  · have hh : hyp x = hyp y := by
      have : hyp x ^ 2 = hyp y ^ 2 := by rw [hx, hy, h2]
      exact (pow_left_inj₀ px.le py.le (by norm_num)).mp this
    rw [hh, h3] at h1
    have : y * hyp y = 0 := by linarith
    have hy0 : y = 0 := by
      rcases mul_eq_zero.mp this with h' | h'
      · exact h'
      · exact absurd h' py.ne'
    rw [h3, hy0]; simp

/-- `tbet²/(1 + scbet) = scbet − 1` -/
theorem sq_over_one_add_hyp (t : ℝ) : RealLike.sq t / (1 + hyp t) = hyp t - 1 := by
  have h := hyp_sq t; have p := hyp_pos t
  simp only [sq_real]
  have : (1 : ℝ) + hyp t ≠ 0 := by positivity
  field_simp
  linear_combination -h

/-- `atanh` (as `½ log((1+u)/(1−u))`) is odd on `(−1, 1)` -/
theorem atanh_odd (u : ℝ) (hu : |u| < 1) : Real.log ((1 + -u) / (1 - -u)) / 2 = -(Real.log ((1 + u) / (1 - u)) / 2) := by
  obtain ⟨h1, h2⟩ := abs_lt.mp hu
  have p1 : 0 < 1 + u := by linarith
  have p2 : 0 < 1 - u := by linarith
  have e : (1 + -u) / (1 - -u) = ((1 + u) / (1 - u))⁻¹ := by
    rw [inv_div]; congr 1 <;> ring
  rw [e, Real.log_inv]; ring

/-- `Datanhee` (oblate) is the divided difference of `atanhee x = atanh(e x)/e` -/
theorem Datanhee_dd_oblate (f e x y : ℝ) (hf : 0 < f) (he : 0 < e) (hx : |e * x| < 1) (hy : |e * y| < 1) (hxy : x ≠ y) :
    Datanhee f (e ^ 2) e x y = (atanhee f e x - atanhee f e y) / (x - y) := by
  have h2 : x - y ≠ 0 := sub_ne_zero.mpr hxy
  unfold Datanhee atanhee
  simp only [eqb_real, ltb_real, zero_real, one_real, atanh_real, hf, h2, decide_true, decide_false, if_true, Bool.false_eq_true, if_false]
  by_cases hneg : x * y < 0
  · simp only [hneg, decide_true, if_true]
  · simp only [hneg, decide_false, Bool.false_eq_true, if_false]
    have earg : e * ((x - y) / (1 - e ^ 2 * x * y)) = (e * x - e * y) / (1 - e * x * (e * y)) := by
      have : 1 - e ^ 2 * x * y = 1 - e * x * (e * y) := by ring
      rw [this]; ring
    rw [earg, atanh_sub (e * x) (e * y) hx hy]
    have hene : e ≠ 0 := he.ne'
    field_simp

end GeoVerif.Proofs.ConicDD
