import GeoVerif.Proofs.AuxCert1
import GeoVerif.Proofs.AuxCert2
import GeoVerif.Proofs.AuxCert3
import GeoVerif.Proofs.AuxCert4
import GeoVerif.Proofs.AuxCert5
import GeoVerif.Proofs.AuxCert6
import GeoVerif.Proofs.AuxCert7
import GeoVerif.Proofs.AuxCert8
import GeoVerif.Proofs.AuxCert9
import GeoVerif.Proofs.AuxComp01
import GeoVerif.Proofs.AuxComp02
import GeoVerif.Proofs.AuxComp03
import GeoVerif.Proofs.AuxComp04
import GeoVerif.Proofs.AuxComp05
import GeoVerif.Proofs.AuxComp06
import GeoVerif.Proofs.AuxComp07
import GeoVerif.Proofs.AuxComp08
import GeoVerif.Proofs.AuxComp09
import GeoVerif.Proofs.AuxComp10
import GeoVerif.Proofs.AuxComp11
import GeoVerif.Proofs.AuxComp12
import GeoVerif.Proofs.AuxComp13
import GeoVerif.Proofs.AuxComp14
import GeoVerif.Proofs.AuxComp15
import GeoVerif.Proofs.AuxComp16
import GeoVerif.Proofs.AuxComp17
import GeoVerif.Proofs.AuxComp18
import GeoVerif.Proofs.AuxComp19
import Mathlib.Tactic.IntervalCases
/-! All 120 ordered triples of distinct auxiliary latitudes: C[c←a] = C[c←b] ∘ C[b←a] modulo n^(L+1), assembled from the
per-triple kernel certificates of `AuxCert1 … 9` and `AuxComp01 … 19`. -/
namespace GeoVerif.Proofs.AuxCert
open GeoVerif.Series.Aux

-- the certificates are used as opaque facts below: never unfold the checker when comparing statements
attribute [local irreducible] checkCompose

/-- the 120 ordered triples `(c, b, a)` of distinct latitudes -/
def triples : List (Nat × Nat × Nat) :=
  [(0, 1, 2), (0, 1, 3), (0, 1, 4), (0, 1, 5), (0, 2, 1), (0, 2, 3), (0, 2, 4), (0, 2, 5), (0, 3, 1), (0, 3, 2), (0, 3, 4), (0, 3, 5), (0, 4, 1), (0, 4, 2), (0, 4, 3), (0, 4, 5), (0, 5, 1), (0, 5, 2), (0, 5, 3), (0, 5, 4), (1, 0, 2), (1, 0, 3), (1, 0, 4), (1, 0, 5), (1, 2, 0), (1, 2, 3), (1, 2, 4), (1, 2, 5), (1, 3, 0), (1, 3, 2), (1, 3, 4), (1, 3, 5), (1, 4, 0), (1, 4, 2), (1, 4, 3), (1, 4, 5), (1, 5, 0), (1, 5, 2), (1, 5, 3), (1, 5, 4), (2, 0, 1), (2, 0, 3), (2, 0, 4), (2, 0, 5), (2, 1, 0), (2, 1, 3), (2, 1, 4), (2, 1, 5), (2, 3, 0), (2, 3, 1), (2, 3, 4), (2, 3, 5), (2, 4, 0), (2, 4, 1), (2, 4, 3), (2, 4, 5), (2, 5, 0), (2, 5, 1), (2, 5, 3), (2, 5, 4), (3, 0, 1), (3, 0, 2), (3, 0, 4), (3, 0, 5), (3, 1, 0), (3, 1, 2), (3, 1, 4), (3, 1, 5), (3, 2, 0), (3, 2, 1), (3, 2, 4), (3, 2, 5), (3, 4, 0), (3, 4, 1), (3, 4, 2), (3, 4, 5), (3, 5, 0), (3, 5, 1), (3, 5, 2), (3, 5, 4), (4, 0, 1), (4, 0, 2), (4, 0, 3), (4, 0, 5), (4, 1, 0), (4, 1, 2), (4, 1, 3), (4, 1, 5), (4, 2, 0), (4, 2, 1), (4, 2, 3), (4, 2, 5), (4, 3, 0), (4, 3, 1), (4, 3, 2), (4, 3, 5), (4, 5, 0), (4, 5, 1), (4, 5, 2), (4, 5, 3), (5, 0, 1), (5, 0, 2), (5, 0, 3), (5, 0, 4), (5, 1, 0), (5, 1, 2), (5, 1, 3), (5, 1, 4), (5, 2, 0), (5, 2, 1), (5, 2, 3), (5, 2, 4), (5, 3, 0), (5, 3, 1), (5, 3, 2), (5, 3, 4), (5, 4, 0), (5, 4, 1), (5, 4, 2), (5, 4, 3)]

theorem compose_all : (triples.all fun t => checkCompose t.1 t.2.1 t.2.2) = true := by
  simp only [triples, List.all_cons, List.all_nil, Bool.and_self,
    compose_0_1_2, compose_0_1_3, compose_0_1_4, compose_0_1_5, compose_0_2_1, compose_0_2_3, compose_0_2_4, compose_0_2_5,
    compose_0_3_1, compose_0_3_2, compose_0_3_4, compose_0_3_5, compose_0_4_1, compose_0_4_2, compose_0_4_3, compose_0_4_5,
    compose_0_5_1, compose_0_5_2, compose_0_5_3, compose_0_5_4, compose_1_0_2, compose_1_0_3, compose_1_0_4, compose_1_0_5,
    compose_1_2_0, compose_1_2_3, compose_1_2_4, compose_1_2_5, compose_1_3_0, compose_1_3_2, compose_1_3_4, compose_1_3_5,
    compose_1_4_0, compose_1_4_2, compose_1_4_3, compose_1_4_5, compose_1_5_0, compose_1_5_2, compose_1_5_3, compose_1_5_4,
    compose_2_0_1, compose_2_0_3, compose_2_0_4, compose_2_0_5, compose_2_1_0, compose_2_1_3, compose_2_1_4, compose_2_1_5,
    compose_2_3_0, compose_2_3_1, compose_2_3_4, compose_2_3_5, compose_2_4_0, compose_2_4_1, compose_2_4_3, compose_2_4_5,
    compose_2_5_0, compose_2_5_1, compose_2_5_3, compose_2_5_4, compose_3_0_1, compose_3_0_2, compose_3_0_4, compose_3_0_5,
    compose_3_1_0, compose_3_1_2, compose_3_1_4, compose_3_1_5, compose_3_2_0, compose_3_2_1, compose_3_2_4, compose_3_2_5,
    compose_3_4_0, compose_3_4_1, compose_3_4_2, compose_3_4_5, compose_3_5_0, compose_3_5_1, compose_3_5_2, compose_3_5_4,
    compose_4_0_1, compose_4_0_2, compose_4_0_3, compose_4_0_5, compose_4_1_0, compose_4_1_2, compose_4_1_3, compose_4_1_5,
    compose_4_2_0, compose_4_2_1, compose_4_2_3, compose_4_2_5, compose_4_3_0, compose_4_3_1, compose_4_3_2, compose_4_3_5,
    compose_4_5_0, compose_4_5_1, compose_4_5_2, compose_4_5_3, compose_5_0_1, compose_5_0_2, compose_5_0_3, compose_5_0_4,
    compose_5_1_0, compose_5_1_2, compose_5_1_3, compose_5_1_4, compose_5_2_0, compose_5_2_1, compose_5_2_3, compose_5_2_4,
    compose_5_3_0, compose_5_3_1, compose_5_3_2, compose_5_3_4, compose_5_4_0, compose_5_4_1, compose_5_4_2, compose_5_4_3]

theorem compose_of_distinct (c b a : Nat) (hc : c < 6) (hb : b < 6) (ha : a < 6) (h1 : c ≠ b) (h2 : b ≠ a) (h3 : a ≠ c) :
    checkCompose c b a = true := by
  have hm : (c, b, a) ∈ triples := by
    interval_cases c <;> interval_cases b <;> interval_cases a <;> first | decide | (exfalso; omega)
  exact List.all_eq_true.mp compose_all _ hm

end GeoVerif.Proofs.AuxCert
