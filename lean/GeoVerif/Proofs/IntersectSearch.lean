import GeoVerif.Proofs.IntersectComp
/-!
# `Intersect`: what the search loops guarantee for every kernel (lemmas for `Props/C17.lean`)
-/
namespace GeoVerif.IntersectSearch
open GeoVerif GeoVerif.IntersectFix

/-! ## `Basic` -/

theorem basicLoop_spec (sph : XP ℝ → XP ℝ) (tol : ℝ) : ∀ (fuel : Nat) (q : XP ℝ) (n : Nat),
    (basicLoop sph tol fuel q n).2 ≤ n + fuel ∧ n ≤ (basicLoop sph tol fuel q n).2 ∧
    ((basicLoop sph tol fuel q n).2 < n + fuel →
      (basicLoop sph tol fuel q n).1.c ≠ 0 ∨
      ∃ q', (basicLoop sph tol fuel q n).1 = XP.add q' (sph q') ∧ dist0 (sph q') ≤ tol) := by
  intro fuel
  induction fuel with
  | zero => intro q n; simp [basicLoop]
  | succ k ih =>
    intro q n
    simp only [basicLoop]
    by_cases hstop : ((XP.add q (sph q)).c != 0 || !RealLike.ltb tol (dist0 (sph q))) = true
    · rw [if_pos hstop]
      refine ⟨by simp, by simp, ?_⟩
      intro _
      simp only [Bool.or_eq_true, bne_iff_ne, ne_eq, Bool.not_eq_true', ltb_real, decide_eq_false_iff_not, not_lt] at hstop
      rcases hstop with h | h
      · exact Or.inl h
      · exact Or.inr ⟨q, rfl, h⟩
    · rw [if_neg hstop]
      obtain ⟨h1, h2, h3⟩ := ih (XP.add q (sph q)) (n + 1)
      refine ⟨by omega, by omega, ?_⟩
      intro hlt
      exact h3 (by omega)

/-! ## `ClosestInt` -/

/-- what `Basic` contributes at start `s`, centred with respect to `p0` -/
noncomputable def ans (basic : XP ℝ → XP ℝ) (p0 s : XP ℝ) : XP ℝ := fixc p0 (basic s)

/-- loop invariant of `ClosestInt` (before the early exit) -/
structure CInv (C : Consts ℝ) (basic : XP ℝ → XP ℝ) (p0 : XP ℝ) (first : Bool) (pr : List (XP ℝ)) (o : Out ℝ) : Prop where
  first_none : first = true → o.q = none ∧ o.visited = [] ∧ pr = []
  none_first : o.q = none → first = true
  isans : ∀ b, o.q = some b → ∃ s ∈ o.visited, b = ans basic p0 s
  far : ∀ b, o.q = some b → C.t1 ≤ dist b p0
  min : ∀ s ∈ o.visited, ∃ b, o.q = some b ∧ dist b p0 ≤ dist (ans basic p0 s) p0 + C.delta

/-- what holds of the result -/
structure CPost (C : Consts ℝ) (basic : XP ℝ → XP ℝ) (p0 : XP ℝ) (o' : Out ℝ) : Prop where
  isans : ∀ b, o'.q = some b → ∃ s ∈ o'.visited, b = ans basic p0 s
  min : ∀ s ∈ o'.visited, ∃ b, o'.q = some b ∧ dist b p0 ≤ dist (ans basic p0 s) p0 + C.delta

theorem skipped_nil (thr : ℝ) (s : XP ℝ) : skipped ([] : List (XP ℝ)) thr s = false := rfl

theorem closestLoop_spec (C : Consts ℝ) (hδ : 0 ≤ C.delta) (basic : XP ℝ → XP ℝ) (p0 : XP ℝ) :
    ∀ (rest : List (XP ℝ)) (first : Bool) (pr : List (XP ℝ)) (o : Out ℝ), CInv C basic p0 first pr o →
      CPost C basic p0 (closestLoop C basic p0 first rest pr o) ∧
      (∀ s ∈ (closestLoop C basic p0 first rest pr o).visited, s ∈ o.visited ∨ s ∈ rest) ∧
      (∀ s ∈ o.visited, s ∈ (closestLoop C basic p0 first rest pr o).visited) ∧
      ((o.q ≠ none ∨ (first = true ∧ rest ≠ [])) → (closestLoop C basic p0 first rest pr o).q ≠ none) := by
  intro rest
  induction rest with
  | nil =>
    intro first pr o h
    simp only [closestLoop]
    refine ⟨⟨h.isans, h.min⟩, fun s hs => Or.inl hs, fun s hs => hs, ?_⟩
    rintro (h1 | ⟨_, h2⟩)
    · exact h1
    · exact absurd rfl h2
  | cons s rest ih =>
    intro first pr o h
    simp only [closestLoop]
    by_cases hsk : skipped pr (closestThr C) s = true
    · rw [if_pos hsk]
      have hf : first = false := by
        cases first with
        | false => rfl
        | true => obtain ⟨_, _, hpr⟩ := h.first_none rfl; rw [hpr, skipped_nil] at hsk; cases hsk
      have hq : o.q ≠ none := by
        intro hn; have := h.none_first hn; rw [hf] at this; cases this
      have h' : CInv C basic p0 false pr o := ⟨(fun hc => by cases hc), fun hn => absurd hn hq, h.isans, h.far, h.min⟩
      obtain ⟨a, b, c, d⟩ := ih false pr o h'
      exact ⟨a, fun t ht => (b t ht).imp id (List.mem_cons_of_mem _), c, fun _ => d (Or.inl hq)⟩
    · rw [if_neg hsk]
      have hqa : fixc p0 (basic s) = ans basic p0 s := rfl
      generalize fixc p0 (basic s) = qx at hqa
      by_cases heq : eqO C.delta o.q qx = true
      · -- the answer is in the class of the best point so far: ignored
        rw [if_pos heq]
        obtain ⟨b, hb, hbe⟩ : ∃ b, o.q = some b ∧ ceq C.delta b qx = true := by
          cases hq : o.q with
          | none => rw [hq] at heq; simp [eqO] at heq
          | some b => rw [hq] at heq; exact ⟨b, rfl, heq⟩
        have h' : CInv C basic p0 false pr { o with visited := o.visited ++ [s] } := by
          refine ⟨(fun hc => by cases hc), fun hn => ?_, ?_, h.far, ?_⟩
          · simp only at hn; rw [hb] at hn; cases hn
          · intro b' hb'
            obtain ⟨t, ht, e⟩ := h.isans b' hb'
            exact ⟨t, List.mem_append_left _ ht, e⟩
          · intro t ht
            rcases List.mem_append.mp ht with ht | ht
            · exact h.min t ht
            · simp only [List.mem_singleton] at ht; subst ht
              refine ⟨b, hb, ?_⟩
              rw [ceq_iff] at hbe
              have := dist_triangle b qx p0
              rw [← hqa]; linarith
        obtain ⟨a, b', c, d⟩ := ih false pr _ h'
        refine ⟨a, fun t ht => ?_, fun t ht => c t (List.mem_append_left _ ht), fun _ => d (Or.inl (by simp [hb]))⟩
        rcases b' t ht with h1 | h1
        · rcases List.mem_append.mp h1 with h2 | h2
          · exact Or.inl h2
          · simp only [List.mem_singleton] at h2; exact Or.inr (by simp [h2])
        · exact Or.inr (List.mem_cons_of_mem _ h1)
      · rw [if_neg heq]
        by_cases hbr : RealLike.ltb (dist qx p0) C.t1 = true
        · -- early exit
          rw [if_pos hbr]
          simp only [ltb_real, decide_eq_true_eq] at hbr
          refine ⟨⟨?_, ?_⟩, ?_, ?_, fun _ => by simp⟩
          · intro b hb; simp only [Option.some.injEq] at hb; subst hb
            exact ⟨s, by simp, hqa⟩
          · intro t ht
            refine ⟨qx, rfl, ?_⟩
            simp only [List.mem_append, List.mem_singleton] at ht
            rcases ht with ht | ht
            · obtain ⟨b, hb, hm⟩ := h.min t ht
              have := h.far b hb
              linarith
            · subst ht; rw [← hqa]; linarith
          · intro t ht
            simp only [List.mem_append, List.mem_singleton] at ht
            rcases ht with ht | ht
            · exact Or.inl ht
            · exact Or.inr (by simp [ht])
          · intro t ht; simp [ht]
        · rw [if_neg hbr]
          simp only [ltb_real, decide_eq_true_eq, not_lt] at hbr
          by_cases hup : (first || ltO p0 qx o.q) = true
          · -- new best point
            rw [if_pos hup]
            have h' : CInv C basic p0 false (qx :: pr) { q := some qx, visited := o.visited ++ [s], nchange := o.nchange + 1 } := by
              refine ⟨(fun hc => by cases hc), (fun hn => by cases hn), ?_, ?_, ?_⟩
              · intro b hb; simp only [Option.some.injEq] at hb; subst hb; exact ⟨s, by simp, hqa⟩
              · intro b hb; simp only [Option.some.injEq] at hb; subst hb; exact hbr
              · intro t ht
                refine ⟨qx, rfl, ?_⟩
                simp only [List.mem_append, List.mem_singleton] at ht
                rcases ht with ht | ht
                · obtain ⟨b, hb, hm⟩ := h.min t ht
                  simp only [Bool.or_eq_true] at hup
                  rcases hup with hf | hl
                  · obtain ⟨_, hv, _⟩ := h.first_none hf; rw [hv] at ht; cases ht
                  · rw [hb] at hl; simp only [ltO, ltb_real, decide_eq_true_eq] at hl; linarith
                · subst ht; rw [← hqa]; linarith
            obtain ⟨a, b', c, d⟩ := ih false (qx :: pr) _ h'
            refine ⟨a, fun t ht => ?_, fun t ht => c t (List.mem_append_left _ ht), fun _ => d (Or.inl (by simp))⟩
            rcases b' t ht with h1 | h1
            · rcases List.mem_append.mp h1 with h2 | h2
              · exact Or.inl h2
              · simp only [List.mem_singleton] at h2; exact Or.inr (by simp [h2])
            · exact Or.inr (List.mem_cons_of_mem _ h1)
          · -- not better than the best point so far
            rw [if_neg hup]
            simp only [Bool.or_eq_true, not_or, Bool.not_eq_true] at hup
            obtain ⟨hf, hl⟩ := hup
            obtain ⟨b, hb⟩ : ∃ b, o.q = some b := by
              cases hq : o.q with
              | none => have := h.none_first hq; rw [hf] at this; cases this
              | some b => exact ⟨b, rfl⟩
            rw [hb] at hl; simp only [ltO, ltb_real, decide_eq_false_iff_not, not_lt] at hl
            have h' : CInv C basic p0 false (qx :: pr) { o with visited := o.visited ++ [s] } := by
              refine ⟨(fun hc => by cases hc), fun hn => ?_, ?_, h.far, ?_⟩
              · simp only at hn; rw [hb] at hn; cases hn
              · intro b' hb'
                obtain ⟨t, ht, e⟩ := h.isans b' hb'
                exact ⟨t, List.mem_append_left _ ht, e⟩
              · intro t ht
                rcases List.mem_append.mp ht with ht | ht
                · exact h.min t ht
                · simp only [List.mem_singleton] at ht; subst ht
                  exact ⟨b, hb, by rw [← hqa]; linarith⟩
            obtain ⟨a, b', c, d⟩ := ih false (qx :: pr) _ h'
            refine ⟨a, fun t ht => ?_, fun t ht => c t (List.mem_append_left _ ht), fun _ => d (Or.inl (by simp [hb]))⟩
            rcases b' t ht with h1 | h1
            · rcases List.mem_append.mp h1 with h2 | h2
              · exact Or.inl h2
              · simp only [List.mem_singleton] at h2; exact Or.inr (by simp [h2])
            · exact Or.inr (List.mem_cons_of_mem _ h1)

theorem closestInt_spec (C : Consts ℝ) (hδ : 0 ≤ C.delta) (basic : XP ℝ → XP ℝ) (p0 : XP ℝ) :
    CPost C basic p0 (closestInt C basic p0) ∧ (∀ s ∈ (closestInt C basic p0).visited, s ∈ closestStarts C p0) ∧
    (closestStarts C p0 ≠ [] → (closestInt C basic p0).q ≠ none) := by
  have h0 : CInv C basic p0 true [] { q := none, visited := [], nchange := 0 } :=
    ⟨fun _ => ⟨rfl, rfl, rfl⟩, fun _ => rfl, (fun b hb => by cases hb), (fun b hb => by cases hb), (fun s hs => by cases hs)⟩
  obtain ⟨a, b, _, d⟩ := closestLoop_spec C hδ basic p0 (closestStarts C p0) true [] _ h0
  refine ⟨a, fun s hs => ?_, fun hne => d (Or.inr ⟨rfl, hne⟩)⟩
  rcases b s hs with h | h
  · cases h
  · exact h

/-! ## `NextInt` -/

theorem isNaN_real (v : ℝ) : isNaN v = false := by simp [isNaN]

theorem better_q (o : NOut ℝ) (a : XP ℝ) :
    ((better o a).q = a ∧ dist0 a < dist0 o.q) ∨ ((better o a).q = o.q ∧ dist0 o.q ≤ dist0 a) := by
  unfold better
  by_cases h : RealLike.ltb (dist0 a) (dist0 o.q) = true
  · rw [if_pos h]; simp only [ltb_real, decide_eq_true_eq] at h; exact Or.inl ⟨rfl, h⟩
  · rw [if_neg h]; simp only [ltb_real, decide_eq_true_eq, not_lt] at h; exact Or.inr ⟨rfl, h⟩
theorem better_visited (o : NOut ℝ) (a : XP ℝ) : (better o a).visited = o.visited := by unfold better; split <;> rfl
theorem better_nan (o : NOut ℝ) (a : XP ℝ) : (better o a).nan = o.nan := by unfold better; split <;> rfl
theorem better_le (o : NOut ℝ) (a : XP ℝ) : dist0 (better o a).q ≤ dist0 o.q ∧ dist0 (better o a).q ≤ dist0 a := by
  rcases better_q o a with ⟨h1, h2⟩ | ⟨h1, h2⟩ <;> rw [h1] <;> constructor <;> linarith

/-- loop invariant of `NextInt`; `q0` is the initial best point `(inf, 0)` -/
structure NInv (C : Consts ℝ) (basic : XP ℝ → XP ℝ) (conj : ℝ → ℝ) (q0 : XP ℝ) (o : NOut ℝ) : Prop where
  src : o.q = q0 ∨ ∃ s ∈ o.visited, o.q ∈ candsOf C basic conj s
  min : ∀ s ∈ o.visited, ∀ a ∈ candsOf C basic conj s, dist0 o.q ≤ dist0 a
  le0 : dist0 o.q ≤ dist0 q0
  nonan : o.nan = false

theorem nextLoop_spec (C : Consts ℝ) (basic : XP ℝ → XP ℝ) (conj : ℝ → ℝ) (q0 : XP ℝ) :
    ∀ (rest pr : List (XP ℝ)) (o : NOut ℝ), NInv C basic conj q0 o →
      NInv C basic conj q0 (nextLoop C basic conj rest pr o) ∧
      (∀ s ∈ (nextLoop C basic conj rest pr o).visited, s ∈ o.visited ∨ s ∈ rest) := by
  intro rest
  induction rest with
  | nil => intro pr o h; simp only [nextLoop]; exact ⟨h, fun s hs => Or.inl hs⟩
  | cons s rest ih =>
    intro pr o h
    simp only [nextLoop]
    by_cases hsk : skipped pr (nextThr C) s = true
    · rw [if_pos hsk]
      obtain ⟨a, b⟩ := ih pr o h
      exact ⟨a, fun t ht => (b t ht).imp id (List.mem_cons_of_mem _)⟩
    · rw [if_neg hsk, isNaN_real]
      simp only [Bool.false_eq_true, if_false]
      have sub : ∀ (o' : NOut ℝ) (pr' : List (XP ℝ)), o'.visited = o.visited ++ [s] → NInv C basic conj q0 o' →
          NInv C basic conj q0 (nextLoop C basic conj rest pr' o') ∧
          (∀ t ∈ (nextLoop C basic conj rest pr' o').visited, t ∈ o.visited ∨ t ∈ s :: rest) := by
        intro o' pr' hv h'
        obtain ⟨a, b⟩ := ih pr' o' h'
        refine ⟨a, fun t ht => ?_⟩
        rcases b t ht with h1 | h1
        · rw [hv] at h1
          rcases List.mem_append.mp h1 with h2 | h2
          · exact Or.inl h2
          · simp only [List.mem_singleton] at h2; exact Or.inr (by simp [h2])
        · exact Or.inr (List.mem_cons_of_mem _ h1)
      have hc : candsOf C basic conj s =
          (if ((fixc (mk0 zero zero) (basic s)).c == 0 && ceq C.delta (mk0 zero zero) (fixc (mk0 zero zero) (basic s))) then []
           else if ((fixc (mk0 zero zero) (basic s)).c != 0 && ceq C.delta (mk0 zero zero) (fixc (mk0 zero zero) (basic s))) then
             [conjCand C conj (fixc (mk0 zero zero) (basic s)).c (-1), conjCand C conj (fixc (mk0 zero zero) (basic s)).c 1]
           else [fixc (mk0 zero zero) (basic s)]) := rfl
      generalize fixc (mk0 zero zero) (basic s) = qx at hc
      by_cases h1 : (qx.c == 0 && ceq C.delta (mk0 zero zero) qx) = true
      · -- the origin class: ignored
        rw [if_pos h1] at hc ⊢
        apply sub _ _ rfl
        refine ⟨?_, ?_, h.le0, h.nonan⟩
        · rcases h.src with e | ⟨t, ht, e⟩
          · exact Or.inl e
          · exact Or.inr ⟨t, List.mem_append_left _ ht, e⟩
        · intro t ht a ha
          rcases List.mem_append.mp ht with ht | ht
          · exact h.min t ht a ha
          · simp only [List.mem_singleton] at ht; subst ht; rw [hc] at ha; cases ha
      · rw [if_neg h1] at hc ⊢
        by_cases h2 : (qx.c != 0 && ceq C.delta (mk0 zero zero) qx) = true
        · -- coincident lines at the origin: the two conjugate points
          rw [if_pos h2] at hc ⊢
          apply sub _ _ (by rw [better_visited, better_visited])
          set o1 : NOut ℝ := { o with visited := o.visited ++ [s] } with ho1
          set ca := conjCand C conj qx.c (-1)
          set cb := conjCand C conj qx.c 1
          have l1' := better_le o1 ca
          have l2' := better_le (better o1 ca) cb
          refine ⟨?_, ?_, by have := h.le0; show dist0 (better (better o1 ca) cb).q ≤ _; linarith [l1'.1, l2'.1, (show dist0 o1.q = dist0 o.q from rfl)], by rw [better_nan, better_nan]; exact h.nonan⟩
          · rcases better_q (better o1 ca) cb with ⟨e, _⟩ | ⟨e, _⟩
            · right; refine ⟨s, by rw [better_visited, better_visited]; simp [ho1], ?_⟩
              rw [e, hc]; simp
            · rcases better_q o1 ca with ⟨e', _⟩ | ⟨e', _⟩
              · right; refine ⟨s, by rw [better_visited, better_visited]; simp [ho1], ?_⟩
                rw [e, e', hc]; simp
              · rw [e, e']
                rcases h.src with e0 | ⟨t, ht, e0⟩
                · exact Or.inl e0
                · right; exact ⟨t, by rw [better_visited, better_visited]; exact List.mem_append_left _ ht, e0⟩
          · intro t ht a ha
            rw [better_visited, better_visited] at ht
            rcases List.mem_append.mp ht with ht | ht
            · have := h.min t ht a ha
              have e : dist0 o1.q = dist0 o.q := rfl
              linarith [l1'.1, l2'.1]
            · simp only [List.mem_singleton] at ht; subst ht
              rw [hc] at ha
              simp only [List.mem_cons, List.not_mem_nil, or_false] at ha
              rcases ha with ha | ha
              · rw [ha]; linarith [l1'.2, l2'.1]
              · rw [ha]; exact l2'.2
        · -- an ordinary candidate
          rw [if_neg h2] at hc ⊢
          apply sub _ _ (by rw [better_visited])
          set o1 : NOut ℝ := { o with visited := o.visited ++ [s] } with ho1
          have l1' := better_le o1 qx
          refine ⟨?_, ?_, by have := h.le0; have e : dist0 o1.q = dist0 o.q := rfl; linarith [l1'.1], by rw [better_nan]; exact h.nonan⟩
          · rcases better_q o1 qx with ⟨e, _⟩ | ⟨e, _⟩
            · right; refine ⟨s, by rw [better_visited]; simp [ho1], ?_⟩
              rw [e, hc]; simp
            · rw [e]
              rcases h.src with e0 | ⟨t, ht, e0⟩
              · exact Or.inl e0
              · right; exact ⟨t, by rw [better_visited]; exact List.mem_append_left _ ht, e0⟩
          · intro t ht a ha
            rw [better_visited] at ht
            rcases List.mem_append.mp ht with ht | ht
            · have := h.min t ht a ha
              have e : dist0 o1.q = dist0 o.q := rfl
              linarith [l1'.1]
            · simp only [List.mem_singleton] at ht; subst ht
              rw [hc] at ha
              simp only [List.mem_cons, List.not_mem_nil, or_false] at ha
              rw [ha]; exact l1'.2

theorem nextInt_spec (C : Consts ℝ) (basic : XP ℝ → XP ℝ) (conj : ℝ → ℝ) (big : ℝ) :
    NInv C basic conj (mk0 big zero) (nextInt C basic conj big) ∧
    (∀ s ∈ (nextInt C basic conj big).visited, s ∈ nextStarts C) := by
  have h0 : NInv C basic conj (mk0 big zero) { q := mk0 big zero, visited := [], nchange := 0, nan := false } :=
    ⟨Or.inl rfl, (fun s hs => by cases hs), le_refl _, rfl⟩
  obtain ⟨a, b⟩ := nextLoop_spec C basic conj (mk0 big zero) (nextStarts C) [] _ h0
  refine ⟨a, fun s hs => ?_⟩
  rcases b s hs with h | h
  · cases h
  · exact h

/-! ## `SegmentInt` -/

theorem cornerLoop_inv (C : Consts ℝ) (basic : XP ℝ → XP ℝ) (sx sy : ℝ) (q : XP ℝ) :
    ∀ (rest : List (XP ℝ)) (st : Int × Option (XP ℝ) × List (XP ℝ)),
      (∀ qx, st.2.1 = some qx → st.1 = segmentmode sx sy qx) →
      ∀ qx, (cornerLoop C basic sx sy q rest st).2.1 = some qx → (cornerLoop C basic sx sy q rest st).1 = segmentmode sx sy qx := by
  intro rest
  induction rest with
  | nil => intro st h; simpa [cornerLoop] using h
  | cons t rest ih =>
    intro st h
    obtain ⟨m, qo, vis⟩ := st
    simp only [cornerLoop]
    split
    · exact h
    · split
      · apply ih; intro qx hq; simp only [Option.some.injEq] at hq; subst hq; rfl
      · exact ih _ h

theorem segmentInt_segmode (C : Consts ℝ) (basic : XP ℝ → XP ℝ) (sx sy : ℝ) (o : SOut ℝ)
    (h : segmentInt C basic sx sy = some o) : o.segmode = segmentmode sx sy o.q := by
  unfold segmentInt at h
  simp only at h
  split at h
  · cases h
  · rename_i q0 _
    split at h
    · split at h
      · rename_i qx vis heq
        simp only [Option.some.injEq] at h; subst h
        have := cornerLoop_inv C basic sx sy (fixsegment sx sy q0) (corners sx sy) (1, none, []) (by intro qx hq; cases hq) qx (by rw [heq])
        rw [heq] at this
        exact this
      · simp only [Option.some.injEq] at h; subst h; rfl
    · simp only [Option.some.injEq] at h; subst h; rfl

/-! ## `AllInt0` : sorted, within `maxdist`, duplicate-free -/

theorem allInt0_sorted (C : Consts ℝ) (basic : XP ℝ → XP ℝ) (conj2 : ℝ → ℝ → ℝ) (maxdist : ℝ) (p0 : XP ℝ) (m fuel : Nat) :
    (allInt0 C basic conj2 maxdist p0 m fuel).res.Pairwise (fun a b => dist a p0 ≤ dist b p0) :=
  sortBy_sorted (fun a => dist a p0) (rlt_key_le p0) (rlt_false_key_le p0) _

theorem allInt0_within (C : Consts ℝ) (basic : XP ℝ → XP ℝ) (conj2 : ℝ → ℝ → ℝ) (maxdist : ℝ) (p0 : XP ℝ) (m fuel : Nat) :
    ∀ r ∈ (allInt0 C basic conj2 maxdist p0 m fuel).res, dist r p0 ≤ maxdist := by
  intro r hr
  unfold allInt0 at hr
  simp only at hr
  rw [mem_sortBy, List.mem_filter] at hr
  simpa using hr.2

theorem conjLoop_mem (C : Consts ℝ) (conj2 : ℝ → ℝ → ℝ) (p0 q : XP ℝ) (c0 : Int) (s0 maxdistx : ℝ) (sgn : Int) :
    ∀ (fuel : Nat) (sa : ℝ) (acc : List (XP ℝ)), ∀ e ∈ (conjLoop C conj2 p0 q c0 s0 maxdistx sgn fuel sa acc).1,
      e ∈ acc ∨ ∃ sa', e = XP.add q (mk0 sa' (ofC c0 * sa')) := by
  intro fuel
  induction fuel with
  | zero => intro sa acc e he; simp only [conjLoop] at he; exact Or.inl he
  | succ k ih =>
    intro sa acc e he
    simp only [conjLoop] at he
    split at he
    · rcases ih _ _ e he with h | h
      · rcases List.mem_append.mp h with h | h
        · exact Or.inl h
        · simp only [List.mem_singleton] at h; exact Or.inr ⟨_, h⟩
      · exact Or.inr h
    · rcases List.mem_append.mp he with h | h
      · exact Or.inl h
      · simp only [List.mem_singleton] at h; exact Or.inr ⟨_, h⟩

/-- invariant of the set of intersections found -/
structure AInv (δ : ℝ) (S : XP ℝ → Prop) (st : AState ℝ) : Prop where
  sorted : st.r.Pairwise (fun a b => clt δ a b = true)
  inS : ∀ e ∈ st.r, S e

theorem foldl_setInsert_inv {δ : ℝ} {S : XP ℝ → Prop}
    (htr : ∀ p q r, S p → S q → S r → clt δ p q = true → clt δ q r = true → clt δ p r = true) :
    ∀ (added r : List (XP ℝ)), (∀ e ∈ added, S e) → r.Pairwise (fun a b => clt δ a b = true) → (∀ e ∈ r, S e) →
      (added.foldl (setInsert (clt δ)) r).Pairwise (fun a b => clt δ a b = true) ∧ ∀ e ∈ added.foldl (setInsert (clt δ)) r, S e := by
  intro added
  induction added with
  | nil => intro r _ h1 h2; exact ⟨h1, h2⟩
  | cons a t ih =>
    intro r ha h1 h2
    simp only [List.foldl_cons]
    apply ih
    · exact fun e he => ha e (List.mem_cons_of_mem _ he)
    · exact setInsert_pairwise htr h2 (ha a (by simp)) h1
    · intro e he
      rcases mem_setInsert he with h | h
      · rw [h]; exact ha a (by simp)
      · exact h2 e h

theorem allLoop_inv (C : Consts ℝ) (basic : XP ℝ → XP ℝ) (conj2 : ℝ → ℝ → ℝ) (p0 : XP ℝ) (maxdistx d3 : ℝ) (fuel : Nat)
    (S : XP ℝ → Prop)
    (htr : ∀ p q r, S p → S q → S r → clt C.delta p q = true → clt C.delta q r = true → clt C.delta p r = true)
    (hb : ∀ s, S (basic s)) (hf : ∀ s, (basic s).c ≠ 0 → S (fixc p0 (basic s)))
    (hc : ∀ s sa, (basic s).c ≠ 0 → S (XP.add (fixc p0 (basic s)) (mk0 sa (ofC (basic s).c * sa)))) :
    ∀ (rest : List (XP ℝ)) (st : AState ℝ), AInv C.delta S st → AInv C.delta S (allLoop C basic conj2 p0 maxdistx d3 fuel rest st) := by
  intro rest
  induction rest with
  | nil => intro st h; simpa [allLoop] using h
  | cons s rest ih =>
    intro st h
    simp only [allLoop]
    split
    · exact ih st h
    · split
      · exact ih _ ⟨h.sorted, h.inS⟩
      · split
        · rename_i hcne
          have hcne' : (basic s).c ≠ 0 := by simpa using hcne
          apply ih
          have hr1s : (st.r.filter fun qp => !ceq C.delta (fixcoincident p0 qp (basic s).c) (fixc p0 (basic s))).Pairwise (fun a b => clt C.delta a b = true) :=
            h.sorted.sublist List.filter_sublist
          have hr1m : ∀ e ∈ st.r.filter (fun qp => !ceq C.delta (fixcoincident p0 qp (basic s).c) (fixc p0 (basic s))), S e :=
            fun e he => h.inS e (List.mem_filter.mp he).1
          have hadd : ∀ e ∈ (conjLoop C conj2 p0 (fixc p0 (basic s)) (basic s).c (fixc p0 (basic s)).x maxdistx (-1) fuel zero []).1 ++
              (conjLoop C conj2 p0 (fixc p0 (basic s)) (basic s).c (fixc p0 (basic s)).x maxdistx 1 fuel zero []).1 ++ [fixc p0 (basic s)], S e := by
            intro e he
            simp only [List.mem_append, List.mem_singleton] at he
            rcases he with (he | he) | he
            · rcases conjLoop_mem _ _ _ _ _ _ _ _ _ _ _ e he with h' | ⟨sa, h'⟩
              · cases h'
              · rw [h']; exact hc s sa hcne'
            · rcases conjLoop_mem _ _ _ _ _ _ _ _ _ _ _ e he with h' | ⟨sa, h'⟩
              · cases h'
              · rw [h']; exact hc s sa hcne'
            · rw [he]; exact hf s hcne'
          obtain ⟨a, b⟩ := foldl_setInsert_inv htr _ _ hadd hr1s hr1m
          exact ⟨a, b⟩
        · apply ih
          refine ⟨setInsert_pairwise htr h.inS (hb s) h.sorted, ?_⟩
          intro e he
          rcases mem_setInsert he with h' | h'
          · rw [h']; exact hb s
          · exact h.inS e h'

theorem allInt0_nodup (C : Consts ℝ) (basic : XP ℝ → XP ℝ) (conj2 : ℝ → ℝ → ℝ) (maxdist : ℝ) (p0 : XP ℝ) (m fuel : Nat)
    (S : XP ℝ → Prop)
    (htr : ∀ p q r, S p → S q → S r → clt C.delta p q = true → clt C.delta q r = true → clt C.delta p r = true)
    (hb : ∀ s, S (basic s)) (hf : ∀ s, (basic s).c ≠ 0 → S (fixc p0 (basic s)))
    (hc : ∀ s sa, (basic s).c ≠ 0 → S (XP.add (fixc p0 (basic s)) (mk0 sa (ofC (basic s).c * sa)))) :
    (allInt0 C basic conj2 maxdist p0 m fuel).res.Pairwise (fun a b => ceq C.delta a b = false) := by
  unfold allInt0
  simp only
  apply pairwise_sortBy (fun a b hab => by rw [ceq_symm]; exact hab)
  have h := allLoop_inv C basic conj2 p0 (maxdist + C.delta) ((maxdist + C.delta) / RealLike.ofNat m) fuel S htr hb hf hc
    (allStarts p0 ((maxdist + C.delta) / RealLike.ofNat m) m) { r := [], cs := [], c0 := 0, pr := [], visited := [], exhausted := false }
    ⟨List.Pairwise.nil, fun e he => by cases he⟩
  exact (h.sorted.sublist List.filter_sublist).imp (fun hab => clt_not_ceq _ _ _ hab)

end GeoVerif.IntersectSearch
