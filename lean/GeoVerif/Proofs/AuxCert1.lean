import GeoVerif.Series.AuxSeries
/-! Kernel-checked certificates about the series tables of `AuxLatitude.cpp` (re-extracted into `Gen/AuxSeries.lean` on every
run).  Split over several modules (`AuxCert1 … AuxCert9`) so that lake checks them in parallel; each `decide +kernel`
takes 10–15 s.  Numbering of the latitudes: 0 φ, 1 β, 2 θ, 3 μ, 4 χ, 5 ξ. -/
namespace GeoVerif.Proofs.AuxCert
open GeoVerif.Series.Aux

theorem revert_0_1 : checkRevert 0 1 = true := by decide +kernel
theorem revert_2_3 : checkRevert 2 3 = true := by decide +kernel
theorem compose_4_0_2 : checkCompose 4 0 2 = true := by decide +kernel

end GeoVerif.Proofs.AuxCert
