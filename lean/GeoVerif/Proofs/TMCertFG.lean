import GeoVerif.Series.TMSeries
/-! Kernel evaluation of the reversion certificate `F ∘ G = id (mod n^{N+1})` -/
namespace GeoVerif.Proofs.TMCert
open GeoVerif.Series.TMS
theorem revertFG : checkRevertFG = true := by decide +kernel
end GeoVerif.Proofs.TMCert
