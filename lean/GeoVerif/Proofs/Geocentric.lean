import GeoVerif.Model.Geocentric
import GeoVerif.Spec.RealInst
import GeoVerif.Proofs.Vermeille
import Mathlib.Tactic.Ring
import Mathlib.Tactic.LinearCombination
import Mathlib.Tactic.FieldSimp
import Mathlib.Tactic.Positivity
import Mathlib.Tactic.NormNum
/-!
# Lemmas about the executed model `Model/Geocentric.lean` read over ℝ (used by `Props/C07.lean`)

* `vermU`: Cardano branch, trigonometric branch, degenerate `S = 0`;
* `vermK`: the pair `(k1, k2)` solves Vermeille's quartic in every sub-case of the general branch, oblate and prolate.
-/
namespace GeoVerif.GeocentricProofs
open GeoVerif GeoVerif.Geocentric GeoVerif.Vermeille

theorem cbrt_nonneg (x : ℝ) (hx : 0 ≤ x) : (RealLike.cbrt x : ℝ) = x ^ ((1:ℝ)/3) := by
  show (if 0 ≤ x then x ^ ((1 : ℝ) / 3) else -((-x) ^ ((1 : ℝ) / 3))) = _
  rw [if_pos hx]

theorem rpow_third_cube (x : ℝ) (hx : 0 ≤ x) : (x ^ ((1:ℝ)/3)) ^ 3 = x := by
  rw [← Real.rpow_natCast, ← Real.rpow_mul hx]; norm_num

theorem cube_rpow_third (x : ℝ) (hx : 0 ≤ x) : (x ^ 3) ^ ((1:ℝ)/3) = x := by
  rw [← Real.rpow_natCast, ← Real.rpow_mul hx]; norm_num

/-- the real cube root of a cube, either sign (`cbrt(-8) = -2`) -/
theorem cbrt_cube (r : ℝ) : (RealLike.cbrt (r ^ 3) : ℝ) = r := by
  show (if 0 ≤ r ^ 3 then (r ^ 3) ^ ((1 : ℝ) / 3) else -((-(r ^ 3)) ^ ((1 : ℝ) / 3))) = r
  by_cases hr : 0 ≤ r
  · rw [if_pos (pow_nonneg hr 3), cube_rpow_third r hr]
  · have hr' : r < 0 := not_le.mp hr
    have h3 : r ^ 3 < 0 := by
      have : 0 < (-r) ^ 3 := pow_pos (by linarith) 3
      have e : (-r) ^ 3 = -(r ^ 3) := by ring
      linarith
    rw [if_neg (not_le.mpr h3)]
    have e : -(r ^ 3) = (-r) ^ 3 := by ring
    rw [e, cube_rpow_third (-r) (by linarith)]; ring

/-- `vermU` unfolded over ℝ -/
theorem vermU_real (S r : ℝ) :
    vermU S r =
      if 0 ≤ S * (2 * r ^ 3 + S) then
        r + (RealLike.cbrt (S + r ^ 3 + (if S + r ^ 3 < 0 then -Real.sqrt (S * (2 * r ^ 3 + S)) else Real.sqrt (S * (2 * r ^ 3 + S))))
          + (if (RealLike.cbrt (S + r ^ 3 + (if S + r ^ 3 < 0 then -Real.sqrt (S * (2 * r ^ 3 + S)) else Real.sqrt (S * (2 * r ^ 3 + S)))) : ℝ) = 0 then 0
             else r ^ 2 / RealLike.cbrt (S + r ^ 3 + (if S + r ^ 3 < 0 then -Real.sqrt (S * (2 * r ^ 3 + S)) else Real.sqrt (S * (2 * r ^ 3 + S))))))
      else r + 2 * r * Real.cos (Complex.arg ⟨-(S + r ^ 3), Real.sqrt (-(S * (2 * r ^ 3 + S)))⟩ / 3) := by
  unfold vermU
  simp only [sq_real, sqrt_real, cos_real, leb_real, ltb_real, eqb_real, lit_real, ofNat_real, decide_eq_true_eq]
  push_cast
  have e1 : r * r ^ 2 = r ^ 3 := by ring
  rw [e1]
  rfl

/-- degenerate cubic (`S = 0`, a point on the axis or in the equatorial plane): the code returns the root `u = 3r` -/
theorem vermU_zero (r : ℝ) : vermU 0 r = 3 * r := by
  rw [vermU_real]
  simp only [zero_mul, le_refl, if_true, zero_add, Real.sqrt_zero, neg_zero, ite_self, add_zero]
  rw [cbrt_cube]
  by_cases hr : r = 0
  · simp [hr]
  · rw [if_neg hr]; field_simp; ring

/-- **trigonometric branch** of `vermU`: for `S > 0` and a negative discriminant (then `r < 0`) the result is the root of
`u³ − 3r u² = 2S` in `(3r, 0)` -/
theorem vermU_trig (S r : ℝ) (hS : 0 < S) (hdisc : S * (2 * r ^ 3 + S) < 0) :
    (vermU S r) ^ 3 - 3 * r * (vermU S r) ^ 2 = 2 * S ∧ 3 * r < vermU S r ∧ vermU S r < 0 := by
  have h3 : 2 * r ^ 3 + S < 0 := by
    by_contra hc
    have := mul_nonneg hS.le (not_lt.mp hc); linarith
  have hr3 : r ^ 3 < 0 := by linarith
  have hr : r < 0 := by
    by_contra hc
    have : 0 ≤ r ^ 3 := pow_nonneg (not_lt.mp hc) 3; linarith
  set D := Real.sqrt (-(S * (2 * r ^ 3 + S))) with hD
  have hDpos : 0 < D := Real.sqrt_pos.mpr (by linarith)
  have hD2 : D ^ 2 = -(S * (2 * r ^ 3 + S)) := Real.sq_sqrt (by linarith)
  set z : ℂ := ⟨-(S + r ^ 3), D⟩ with hz
  have hzim : z.im = D := rfl
  have hzre : z.re = -(S + r ^ 3) := rfl
  have hz0 : z ≠ 0 := by
    intro h
    have := congrArg Complex.im h
    rw [hzim] at this; simp at this; exact hDpos.ne' this
  have hnorm : ‖z‖ = -(r ^ 3) := by
    rw [Complex.norm_eq_sqrt_sq_add_sq, hzre, hzim]
    have : (-(S + r ^ 3)) ^ 2 + D ^ 2 = (-(r ^ 3)) ^ 2 := by rw [hD2]; ring
    rw [this, Real.sqrt_sq (by linarith)]
  set θ := Complex.arg z with hθ
  have hcos : Real.cos θ * r ^ 3 = S + r ^ 3 := by
    rw [hθ, Complex.cos_arg hz0, hnorm, hzre, neg_div_neg_eq, div_mul_cancel₀ _ hr3.ne]
  have hsin : 0 < Real.sin θ := by
    rw [hθ, Complex.sin_arg, hnorm, hzim]; exact div_pos hDpos (by linarith)
  have hθ0 : 0 < θ := by
    have h0 : 0 ≤ θ := Complex.arg_nonneg_iff.mpr (by rw [hzim]; exact hDpos.le)
    rcases h0.lt_or_eq with h | h
    · exact h
    · rw [← h, Real.sin_zero] at hsin; exact absurd hsin (lt_irrefl _)
  have hθπ : θ ≤ Real.pi := Complex.arg_le_pi z
  have hu : vermU S r = r + 2 * r * Real.cos (θ / 3) := by
    rw [vermU_real, if_neg (not_le.mpr hdisc)]
  rw [hu]
  have hpi := Real.pi_pos
  have hc1 : Real.cos (θ / 3) < 1 := by
    have hle := Real.cos_le_one (θ / 3)
    rcases hle.lt_or_eq with h | h
    · exact h
    · have := (Real.cos_eq_one_iff_of_lt_of_lt (by linarith) (by linarith)).mp h
      linarith
  have hc0 : 0 < Real.cos (θ / 3) := Real.cos_pos_of_mem_Ioo ⟨by linarith, by linarith⟩
  refine ⟨vermeille_cubic_trig r S θ hcos, ?_, ?_⟩
  · nlinarith
  · nlinarith

/-- Cardano branch of `vermU`: for `S > 0` and a non-negative discriminant the result is a positive root of
`u³ − 3r u² = 2S`, and `u > 3r` -/
theorem vermU_cardano (S r : ℝ) (hS : 0 < S) (hdisc : 0 ≤ S * (2 * r ^ 3 + S)) :
    (vermU S r) ^ 3 - 3 * r * (vermU S r) ^ 2 = 2 * S ∧ 0 < vermU S r ∧ 3 * r < vermU S r := by
  have h3 : 0 ≤ 2 * r ^ 3 + S := by
    by_contra hc
    have := mul_neg_of_pos_of_neg hS (not_le.mp hc); linarith
  have hT30 : 0 < S + r ^ 3 := by linarith
  set D := Real.sqrt (S * (2 * r ^ 3 + S)) with hD
  have hD0 : 0 ≤ D := Real.sqrt_nonneg _
  have hD2 : D ^ 2 = S * (2 * r ^ 3 + S) := Real.sq_sqrt hdisc
  have hT3 : 0 < S + r ^ 3 + D := by linarith
  set T := (S + r ^ 3 + D) ^ ((1:ℝ)/3) with hTdef
  have hTpos : 0 < T := Real.rpow_pos_of_pos hT3 _
  have hTc : T ^ 3 = S + r ^ 3 + D := rpow_third_cube _ hT3.le
  have hu : vermU S r = r + (T + r ^ 2 / T) := by
    rw [vermU_real, if_pos hdisc, if_neg (not_lt.mpr hT30.le), ← hD, cbrt_nonneg _ hT3.le, ← hTdef, if_neg hTpos.ne']
  rw [hu]
  have hcub := vermeille_cubic r S D T hTc hD2 hTpos.ne'
  have hupos : 0 < r + (T + r ^ 2 / T) := by
    by_cases hr : 0 ≤ r
    · have : 0 ≤ r ^ 2 / T := by positivity
      linarith
    · have hr := not_le.mp hr
      have h1 : T + r ^ 2 / T + 2 * r = (T + r) ^ 2 / T := by field_simp; ring
      have h2 : 0 ≤ (T + r) ^ 2 / T := by positivity
      linarith
  refine ⟨hcub, hupos, ?_⟩
  set u := r + (T + r ^ 2 / T) with hudef
  have : u ^ 2 * (u - 3 * r) = 2 * S := by linear_combination hcub
  have hu2 : 0 < u ^ 2 := by positivity
  by_contra hc
  have hc := not_lt.mp hc
  have : u ^ 2 * (u - 3 * r) ≤ 0 := mul_nonpos_of_nonneg_of_nonpos hu2.le (by linarith)
  linarith

/-- both branches: for `S > 0` the computed `u` is a root of the resolvent cubic with `u > 3r` -/
theorem vermU_root (S r : ℝ) (hS : 0 < S) :
    (vermU S r) ^ 3 - 3 * r * (vermU S r) ^ 2 = 2 * S ∧ 3 * r < vermU S r := by
  by_cases hdisc : 0 ≤ S * (2 * r ^ 3 + S)
  · obtain ⟨h1, _, h3⟩ := vermU_cardano S r hS hdisc; exact ⟨h1, h3⟩
  · obtain ⟨h1, h2, _⟩ := vermU_trig S r hS (not_le.mp hdisc); exact ⟨h1, h2⟩

/-- Vermeille's `k` as computed by `vermK` (before the oblate/prolate relabelling), `e2 = f(2 − f)` -/
noncomputable def vermKk (e2 p q r : ℝ) : ℝ :=
  let u := vermU (e2 ^ 2 * p * q / 4) r
  let v := Real.sqrt (u ^ 2 + e2 ^ 2 * q)
  let uv := if u < 0 then e2 ^ 2 * q / (v - u) else u + v
  let w := max 0 (|e2| * (uv - q) / (2 * v))
  uv / (Real.sqrt (uv + w ^ 2) + w)

theorem vermK_real (a f p q r : ℝ) (prolate : Bool) :
    vermK (⟨a, f⟩ : Ell ℝ) p q r prolate =
      (if prolate then vermKk (f * (2 - f)) p q r - f * (2 - f) else vermKk (f * (2 - f)) p q r,
       if prolate then vermKk (f * (2 - f)) p q r else vermKk (f * (2 - f)) p q r + f * (2 - f)) := by
  unfold vermK vermKk
  simp only [e4a, e2a, e2, sq_real, sqrt_real, ltb_real, lit_real, ofNat_real, abs_real, decide_eq_true_eq]
  push_cast
  rfl

/-- `uv = u + v` whichever way it is computed -/
theorem uv_eq (u v c : ℝ) (hv : 0 < v) (hv2 : v ^ 2 = u ^ 2 + c) :
    (if u < 0 then c / (v - u) else u + v) = u + v := by
  by_cases hu : u < 0
  · rw [if_pos hu]
    have : 0 < v - u := by linarith
    rw [div_eq_iff this.ne']; linear_combination -hv2
  · rw [if_neg hu]

/-- **Vermeille's `k`, general position** (`p, q > 0`; both signs of the discriminant): `k > 0` is the root of
`p/(k + |e²|)² + q/k² = 1` -/
theorem vermKk_general (e2 p q : ℝ) (he : e2 ≠ 0) (hp : 0 < p) (hq : 0 < q) :
    0 < vermKk e2 p q ((p + q - e2 ^ 2) / 6) ∧
    p / (vermKk e2 p q ((p + q - e2 ^ 2) / 6) + |e2|) ^ 2 + q / (vermKk e2 p q ((p + q - e2 ^ 2) / 6)) ^ 2 = 1 := by
  set e := |e2| with hedef
  have hepos : 0 < e := abs_pos.mpr he
  have hee : e2 ^ 2 = e ^ 2 := (sq_abs e2).symm
  set r := (p + q - e2 ^ 2) / 6 with hr
  set S := e2 ^ 2 * p * q / 4 with hSdef
  have hS : 0 < S := by rw [hSdef]; positivity
  obtain ⟨hcub, hu3r⟩ := vermU_root S r hS
  set u := vermU S r with hu
  have hv2pos : 0 < u ^ 2 + e2 ^ 2 * q := by positivity
  set v := Real.sqrt (u ^ 2 + e2 ^ 2 * q) with hv
  have hvpos : 0 < v := Real.sqrt_pos.mpr hv2pos
  have hv2 : v ^ 2 = u ^ 2 + e2 ^ 2 * q := Real.sq_sqrt hv2pos.le
  have hps : e2 ^ 2 * (q - u) ^ 2 = (e2 ^ 2 - 2 * u + 6 * r) * v ^ 2 := by
    rw [hv2]; linear_combination 2 * hcub
  have hlt : (u - q) ^ 2 < v ^ 2 := by
    have h1 : (e2 ^ 2 - 2 * u + 6 * r) * v ^ 2 < e2 ^ 2 * v ^ 2 := by
      apply mul_lt_mul_of_pos_right _ (by positivity); linarith
    have h2 : e2 ^ 2 * (u - q) ^ 2 < e2 ^ 2 * v ^ 2 := by
      have : (u - q) ^ 2 = (q - u) ^ 2 := by ring
      rw [this, hps]; exact h1
    exact lt_of_mul_lt_mul_left h2 (by positivity)
  have huvq : 0 < u + v - q := by
    have := abs_lt_of_sq_lt_sq hlt hvpos.le
    have := (abs_lt.mp this).1; linarith
  set w := e * (u + v - q) / (2 * v) with hw
  have hwpos : 0 < w := by rw [hw]; positivity
  have huv : 0 < u + v := by linarith
  obtain ⟨hk2, hkpos⟩ := vermeille_k (u + v) w huv hwpos.le
  set k := (u + v) / (Real.sqrt (u + v + w ^ 2) + w) with hk
  have hkk : vermKk e2 p q r = k := by
    unfold vermKk
    simp only []
    rw [← hSdef, ← hu, ← hv, uv_eq u v (e2 ^ 2 * q) hvpos hv2, ← hedef, ← hw, max_eq_right hwpos.le]
  rw [hkk]
  refine ⟨hkpos, ?_⟩
  have h4 : 2 * v * w = e * (u + v - q) := by rw [hw]; field_simp
  have hcub' : u ^ 3 - 3 * ((p + q - e ^ 2) / 6) * u ^ 2 = e ^ 2 * p * q / 2 := by
    rw [← hee, ← hr]; linear_combination hcub
  have hv2' : v ^ 2 = u ^ 2 + e ^ 2 * q := by rw [← hee]; exact hv2
  have hQ := vermeille_quartic p q e u v w k hcub' hv2' h4 hk2 hvpos.ne'
  have hk2pos : 0 < k + e := by linarith
  field_simp
  linear_combination -hQ

/-- **Vermeille's `k` on the axis of the swapped problem** (`p = 0`, `q > 0`: oblate — a point of the rotation axis;
prolate — a point of the equatorial plane): `k = √q` -/
theorem vermKk_p0 (e2 q : ℝ) (he : e2 ≠ 0) (hq : 0 < q) :
    vermKk e2 0 q ((0 + q - e2 ^ 2) / 6) = Real.sqrt q := by
  have he2 : 0 < e2 ^ 2 := by positivity
  unfold vermKk
  simp only []
  rw [show e2 ^ 2 * 0 * q / 4 = 0 by ring, vermU_zero]
  set u := 3 * ((0 + q - e2 ^ 2) / 6) with hu
  have hsq : u ^ 2 + e2 ^ 2 * q = ((q + e2 ^ 2) / 2) ^ 2 := by rw [hu]; ring
  have hv : Real.sqrt (u ^ 2 + e2 ^ 2 * q) = (q + e2 ^ 2) / 2 := by
    rw [hsq, Real.sqrt_sq (by positivity)]
  rw [hv]
  have hvpos : 0 < (q + e2 ^ 2) / 2 := by positivity
  rw [uv_eq u ((q + e2 ^ 2) / 2) (e2 ^ 2 * q) hvpos (by rw [hu]; ring)]
  have huv : u + (q + e2 ^ 2) / 2 = q := by rw [hu]; ring
  rw [huv]
  simp only [sub_self, mul_zero, zero_div, max_self]
  have hs := Real.sq_sqrt hq.le
  have hspos : 0 < Real.sqrt q := Real.sqrt_pos.mpr hq
  rw [show q + (0:ℝ) ^ 2 = q by ring, add_zero, div_eq_iff hspos.ne']
  linear_combination -hs

/-- **Vermeille's `k` in the plane `q = 0` outside the singular disc** (`r > 0`, i.e. `p > e⁴`): `k = √p − |e²|` -/
theorem vermKk_q0 (e2 p : ℝ) (he : e2 ≠ 0) (hr : 0 < (p + 0 - e2 ^ 2) / 6) :
    vermKk e2 p 0 ((p + 0 - e2 ^ 2) / 6) = Real.sqrt p - |e2| := by
  have he2 : 0 < e2 ^ 2 := by positivity
  have hp : e2 ^ 2 < p := by linarith
  have hppos : 0 < p := by linarith
  have hepos : 0 < |e2| := abs_pos.mpr he
  unfold vermKk
  simp only []
  rw [show e2 ^ 2 * p * 0 / 4 = 0 by ring, vermU_zero]
  set r := (p + 0 - e2 ^ 2) / 6 with hrdef
  have hv : Real.sqrt ((3 * r) ^ 2 + e2 ^ 2 * 0) = 3 * r := by
    rw [mul_zero, add_zero, Real.sqrt_sq (by linarith)]
  rw [hv, if_neg (by linarith)]
  have hw : |e2| * (3 * r + 3 * r - 0) / (2 * (3 * r)) = |e2| := by field_simp; ring
  rw [hw, max_eq_right hepos.le]
  have h6 : 3 * r + 3 * r + |e2| ^ 2 = p := by rw [sq_abs, hrdef]; ring
  rw [h6]
  have hs := Real.sq_sqrt hppos.le
  have hspos : 0 < Real.sqrt p := Real.sqrt_pos.mpr hppos
  rw [div_eq_iff (by positivity)]
  have : 3 * r + 3 * r = p - |e2| ^ 2 := by linarith
  rw [this]; linear_combination -hs

/-- **Vermeille's `k`: every case the general branch of `IntReverse` is entered with** — `p, q ≥ 0`, not
(`e⁴q = 0` and `r ≤ 0`): `k > 0` and `p/(k + |e²|)² + q/k² = 1` (with the convention `0/0 = 0` when `q = 0`) -/
theorem vermKk_spec (e2 p q : ℝ) (he : e2 ≠ 0) (hp : 0 ≤ p) (hq : 0 ≤ q)
    (hbr : ¬ (e2 ^ 2 * q = 0 ∧ (p + q - e2 ^ 2) / 6 ≤ 0)) :
    0 < vermKk e2 p q ((p + q - e2 ^ 2) / 6) ∧
    p / (vermKk e2 p q ((p + q - e2 ^ 2) / 6) + |e2|) ^ 2 + q / (vermKk e2 p q ((p + q - e2 ^ 2) / 6)) ^ 2 = 1 := by
  have hepos : 0 < |e2| := abs_pos.mpr he
  rcases hq.lt_or_eq with hq' | hq'
  · rcases hp.lt_or_eq with hp' | hp'
    · exact vermKk_general e2 p q he hp' hq'
    · subst hp'
      rw [vermKk_p0 e2 q he hq']
      have hspos : 0 < Real.sqrt q := Real.sqrt_pos.mpr hq'
      refine ⟨hspos, ?_⟩
      rw [Real.sq_sqrt hq'.le, zero_div, zero_add, div_self hq'.ne']
  · subst hq'
    have hr : 0 < (p + 0 - e2 ^ 2) / 6 := by
      by_contra hc; exact hbr ⟨by ring, not_lt.mp hc⟩
    rw [vermKk_q0 e2 p he hr]
    have he2 : 0 < e2 ^ 2 := by positivity
    have hpp : e2 ^ 2 < p := by linarith
    have hppos : 0 < p := by linarith
    have hlt : |e2| < Real.sqrt p := by
      rw [Real.lt_sqrt hepos.le, sq_abs]; exact hpp
    refine ⟨by linarith, ?_⟩
    rw [sub_add_cancel, Real.sq_sqrt hppos.le, zero_div, add_zero, div_self hppos.ne']

end GeoVerif.GeocentricProofs
