import GeoVerif.Model.Geocentric
import GeoVerif.Spec.RealInst
import GeoVerif.Proofs.Vermeille
import Mathlib.Tactic.Ring
import Mathlib.Tactic.LinearCombination
import Mathlib.Tactic.FieldSimp
import Mathlib.Tactic.Positivity
import Mathlib.Tactic.NormNum
/-!
# Lemmas about the executed model `Model/Geocentric.lean` read over ℝ (used by `Props/C07.lean`)

* `vermU`: Cardano branch, trigonometric branch, degenerate `S = 0`;
* `vermK`: the pair `(k1, k2)` solves Vermeille's quartic in every sub-case of the general branch, oblate and prolate.
-/
namespace GeoVerif.GeocentricProofs
open GeoVerif GeoVerif.Geocentric GeoVerif.Vermeille

theorem cbrt_nonneg (x : ℝ) (hx : 0 ≤ x) : (RealLike.cbrt x : ℝ) = x ^ ((1:ℝ)/3) := by
  show (if 0 ≤ x then x ^ ((1 : ℝ) / 3) else -((-x) ^ ((1 : ℝ) / 3))) = _
  rw [if_pos hx]

theorem rpow_third_cube (x : ℝ) (hx : 0 ≤ x) : (x ^ ((1:ℝ)/3)) ^ 3 = x := by
  rw [← Real.rpow_natCast, ← Real.rpow_mul hx]; norm_num

theorem cube_rpow_third (x : ℝ) (hx : 0 ≤ x) : (x ^ 3) ^ ((1:ℝ)/3) = x := by
  rw [← Real.rpow_natCast, ← Real.rpow_mul hx]; norm_num

/-- the real cube root of a cube, either sign (`cbrt(-8) = -2`) -/
theorem cbrt_cube (r : ℝ) : (RealLike.cbrt (r ^ 3) : ℝ) = r := by
  show (if 0 ≤ r ^ 3 then (r ^ 3) ^ ((1 : ℝ) / 3) else -((-(r ^ 3)) ^ ((1 : ℝ) / 3))) = r
  by_cases hr : 0 ≤ r
  · rw [if_pos (pow_nonneg hr 3), cube_rpow_third r hr]
  · have hr' : r < 0 := not_le.mp hr
    have h3 : r ^ 3 < 0 := by
      have : 0 < (-r) ^ 3 := pow_pos (by linarith) 3
      have e : (-r) ^ 3 = -(r ^ 3) := by ring
      linarith
    rw [if_neg (not_le.mpr h3)]
    have e : -(r ^ 3) = (-r) ^ 3 := by ring
    rw [e, cube_rpow_third (-r) (by linarith)]; ring

/-- `vermU` unfolded over ℝ -/
theorem vermU_real (S r : ℝ) :
    vermU S r =
      if 0 ≤ S * (2 * r ^ 3 + S) then
        r + (RealLike.cbrt (S + r ^ 3 + (if S + r ^ 3 < 0 then -Real.sqrt (S * (2 * r ^ 3 + S)) else Real.sqrt (S * (2 * r ^ 3 + S))))
          + (if (RealLike.cbrt (S + r ^ 3 + (if S + r ^ 3 < 0 then -Real.sqrt (S * (2 * r ^ 3 + S)) else Real.sqrt (S * (2 * r ^ 3 + S)))) : ℝ) = 0 then 0
             else r ^ 2 / RealLike.cbrt (S + r ^ 3 + (if S + r ^ 3 < 0 then -Real.sqrt (S * (2 * r ^ 3 + S)) else Real.sqrt (S * (2 * r ^ 3 + S))))))
      else r + 2 * r * Real.cos (Complex.arg ⟨-(S + r ^ 3), Real.sqrt (-(S * (2 * r ^ 3 + S)))⟩ / 3) := by
  unfold vermU
  simp only [sq_real, sqrt_real, cos_real, leb_real, ltb_real, eqb_real, lit_real, ofNat_real, decide_eq_true_eq]
  push_cast
  have e1 : r * r ^ 2 = r ^ 3 := by ring
  rw [e1]
  rfl

/-- degenerate cubic (`S = 0`, a point on the axis or in the equatorial plane): the code returns the root `u = 3r` -/
theorem vermU_zero (r : ℝ) : vermU 0 r = 3 * r := by
  rw [vermU_real]
  simp only [zero_mul, le_refl, if_true, zero_add, Real.sqrt_zero, neg_zero, ite_self, add_zero]
  rw [cbrt_cube]
  by_cases hr : r = 0
  · simp [hr]
  · rw [if_neg hr]; field_simp; ring

/-- **trigonometric branch** of `vermU`: for `S > 0` and a negative discriminant (then `r < 0`) the result is the root of
`u³ − 3r u² = 2S` in `(3r, 0)` -/
theorem vermU_trig (S r : ℝ) (hS : 0 < S) (hdisc : S * (2 * r ^ 3 + S) < 0) :
    (vermU S r) ^ 3 - 3 * r * (vermU S r) ^ 2 = 2 * S ∧ 3 * r < vermU S r ∧ vermU S r < 0 := by
  have h3 : 2 * r ^ 3 + S < 0 := by
    by_contra hc
    have := mul_nonneg hS.le (not_lt.mp hc); linarith
  have hr3 : r ^ 3 < 0 := by linarith
  have hr : r < 0 := by
    by_contra hc
    have : 0 ≤ r ^ 3 := pow_nonneg (not_lt.mp hc) 3; linarith
  set D := Real.sqrt (-(S * (2 * r ^ 3 + S))) with hD
  have hDpos : 0 < D := Real.sqrt_pos.mpr (by linarith)
  have hD2 : D ^ 2 = -(S * (2 * r ^ 3 + S)) := Real.sq_sqrt (by linarith)
  set z : ℂ := ⟨-(S + r ^ 3), D⟩ with hz
  have hzim : z.im = D := rfl
  have hzre : z.re = -(S + r ^ 3) := rfl
  have hz0 : z ≠ 0 := by
    intro h
    have := congrArg Complex.im h
    rw [hzim] at this; simp at this; exact hDpos.ne' this
  have hnorm : ‖z‖ = -(r ^ 3) := by
    rw [Complex.norm_eq_sqrt_sq_add_sq, hzre, hzim]
    have : (-(S + r ^ 3)) ^ 2 + D ^ 2 = (-(r ^ 3)) ^ 2 := by rw [hD2]; ring
    rw [this, Real.sqrt_sq (by linarith)]
  set θ := Complex.arg z with hθ
  have hcos : Real.cos θ * r ^ 3 = S + r ^ 3 := by
    rw [hθ, Complex.cos_arg hz0, hnorm, hzre, neg_div_neg_eq, div_mul_cancel₀ _ hr3.ne]
  have hsin : 0 < Real.sin θ := by
    rw [hθ, Complex.sin_arg, hnorm, hzim]; exact div_pos hDpos (by linarith)
  have hθ0 : 0 < θ := by
    have h0 : 0 ≤ θ := Complex.arg_nonneg_iff.mpr (by rw [hzim]; exact hDpos.le)
    rcases h0.lt_or_eq with h | h
    · exact h
    · rw [← h, Real.sin_zero] at hsin; exact absurd hsin (lt_irrefl _)
  have hθπ : θ ≤ Real.pi := Complex.arg_le_pi z
  have hu : vermU S r = r + 2 * r * Real.cos (θ / 3) := by
    rw [vermU_real, if_neg (not_le.mpr hdisc)]
  rw [hu]
  have hpi := Real.pi_pos
  have hc1 : Real.cos (θ / 3) < 1 := by
    have hle := Real.cos_le_one (θ / 3)
    rcases hle.lt_or_eq with h | h
    · exact h
    · have := (Real.cos_eq_one_iff_of_lt_of_lt (by linarith) (by linarith)).mp h
      linarith
  have hc0 : 0 < Real.cos (θ / 3) := Real.cos_pos_of_mem_Ioo ⟨by linarith, by linarith⟩
  refine ⟨vermeille_cubic_trig r S θ hcos, ?_, ?_⟩
  · nlinarith
  · nlinarith

/-- Cardano branch of `vermU`: for `S > 0` and a non-negative discriminant the result is a positive root of
`u³ − 3r u² = 2S`, and `u > 3r` -/
theorem vermU_cardano (S r : ℝ) (hS : 0 < S) (hdisc : 0 ≤ S * (2 * r ^ 3 + S)) :
    (vermU S r) ^ 3 - 3 * r * (vermU S r) ^ 2 = 2 * S ∧ 0 < vermU S r ∧ 3 * r < vermU S r := by
  have h3 : 0 ≤ 2 * r ^ 3 + S := by
    by_contra hc
    have := mul_neg_of_pos_of_neg hS (not_le.mp hc); linarith
  have hT30 : 0 < S + r ^ 3 := by linarith
  set D := Real.sqrt (S * (2 * r ^ 3 + S)) with hD
  have hD0 : 0 ≤ D := Real.sqrt_nonneg _
  have hD2 : D ^ 2 = S * (2 * r ^ 3 + S) := Real.sq_sqrt hdisc
  have hT3 : 0 < S + r ^ 3 + D := by linarith
  set T := (S + r ^ 3 + D) ^ ((1:ℝ)/3) with hTdef
  have hTpos : 0 < T := Real.rpow_pos_of_pos hT3 _
  have hTc : T ^ 3 = S + r ^ 3 + D := rpow_third_cube _ hT3.le
  have hu : vermU S r = r + (T + r ^ 2 / T) := by
    rw [vermU_real, if_pos hdisc, if_neg (not_lt.mpr hT30.le), ← hD, cbrt_nonneg _ hT3.le, ← hTdef, if_neg hTpos.ne']
  rw [hu]
  have hcub := vermeille_cubic r S D T hTc hD2 hTpos.ne'
  have hupos : 0 < r + (T + r ^ 2 / T) := by
    by_cases hr : 0 ≤ r
    · have : 0 ≤ r ^ 2 / T := by positivity
      linarith
    · have hr := not_le.mp hr
      have h1 : T + r ^ 2 / T + 2 * r = (T + r) ^ 2 / T := by field_simp; ring
      have h2 : 0 ≤ (T + r) ^ 2 / T := by positivity
      linarith
  refine ⟨hcub, hupos, ?_⟩
  set u := r + (T + r ^ 2 / T) with hudef
  have : u ^ 2 * (u - 3 * r) = 2 * S := by linear_combination hcub
  have hu2 : 0 < u ^ 2 := by positivity
  by_contra hc
  have hc := not_lt.mp hc
  have : u ^ 2 * (u - 3 * r) ≤ 0 := mul_nonpos_of_nonneg_of_nonpos hu2.le (by linarith)
  linarith

/-- both branches: for `S > 0` the computed `u` is a root of the resolvent cubic with `u > 3r` -/
theorem vermU_root (S r : ℝ) (hS : 0 < S) :
    (vermU S r) ^ 3 - 3 * r * (vermU S r) ^ 2 = 2 * S ∧ 3 * r < vermU S r := by
  by_cases hdisc : 0 ≤ S * (2 * r ^ 3 + S)
  · obtain ⟨h1, _, h3⟩ := vermU_cardano S r hS hdisc; exact ⟨h1, h3⟩
  · obtain ⟨h1, h2, _⟩ := vermU_trig S r hS (not_le.mp hdisc); exact ⟨h1, h2⟩

/-- Vermeille's `k` as computed by `vermK` (before the oblate/prolate relabelling), `e2 = f(2 − f)` -/
noncomputable def vermKk (e2 p q r : ℝ) : ℝ :=
  let u := vermU (e2 ^ 2 * p * q / 4) r
  let v := Real.sqrt (u ^ 2 + e2 ^ 2 * q)
  let uv := if u < 0 then e2 ^ 2 * q / (v - u) else u + v
  let w := max 0 (|e2| * (uv - q) / (2 * v))
  uv / (Real.sqrt (uv + w ^ 2) + w)

theorem vermK_real (a f p q r : ℝ) (prolate : Bool) :
    vermK (⟨a, f⟩ : Ell ℝ) p q r prolate =
      (if prolate then vermKk (f * (2 - f)) p q r - f * (2 - f) else vermKk (f * (2 - f)) p q r,
       if prolate then vermKk (f * (2 - f)) p q r else vermKk (f * (2 - f)) p q r + f * (2 - f)) := by
  unfold vermK vermKk
  simp only [e4a, e2a, e2, sq_real, sqrt_real, ltb_real, lit_real, ofNat_real, abs_real, decide_eq_true_eq]
  push_cast
  rfl

/-- `uv = u + v` whichever way it is computed -/
theorem uv_eq (u v c : ℝ) (hv : 0 < v) (hv2 : v ^ 2 = u ^ 2 + c) :
    (if u < 0 then c / (v - u) else u + v) = u + v := by
  by_cases hu : u < 0
  · rw [if_pos hu]
    have : 0 < v - u := by linarith
    rw [div_eq_iff this.ne']; linear_combination -hv2
  · rw [if_neg hu]

/-- **Vermeille's `k`, general position** (`p, q > 0`; both signs of the discriminant): `k > 0` is the root of
`p/(k + |e²|)² + q/k² = 1` -/
theorem vermKk_general (e2 p q : ℝ) (he : e2 ≠ 0) (hp : 0 < p) (hq : 0 < q) :
    0 < vermKk e2 p q ((p + q - e2 ^ 2) / 6) ∧
    p / (vermKk e2 p q ((p + q - e2 ^ 2) / 6) + |e2|) ^ 2 + q / (vermKk e2 p q ((p + q - e2 ^ 2) / 6)) ^ 2 = 1 := by
  set e := |e2| with hedef
  have hepos : 0 < e := abs_pos.mpr he
  have hee : e2 ^ 2 = e ^ 2 := (sq_abs e2).symm
  set r := (p + q - e2 ^ 2) / 6 with hr
  set S := e2 ^ 2 * p * q / 4 with hSdef
  have hS : 0 < S := by rw [hSdef]; positivity
  obtain ⟨hcub, hu3r⟩ := vermU_root S r hS
  set u := vermU S r with hu
  have hv2pos : 0 < u ^ 2 + e2 ^ 2 * q := by positivity
  set v := Real.sqrt (u ^ 2 + e2 ^ 2 * q) with hv
  have hvpos : 0 < v := Real.sqrt_pos.mpr hv2pos
  have hv2 : v ^ 2 = u ^ 2 + e2 ^ 2 * q := Real.sq_sqrt hv2pos.le
  have hps : e2 ^ 2 * (q - u) ^ 2 = (e2 ^ 2 - 2 * u + 6 * r) * v ^ 2 := by
    rw [hv2]; linear_combination 2 * hcub
  have hlt : (u - q) ^ 2 < v ^ 2 := by
    have h1 : (e2 ^ 2 - 2 * u + 6 * r) * v ^ 2 < e2 ^ 2 * v ^ 2 := by
      apply mul_lt_mul_of_pos_right _ (by positivity); linarith
    have h2 : e2 ^ 2 * (u - q) ^ 2 < e2 ^ 2 * v ^ 2 := by
      have : (u - q) ^ 2 = (q - u) ^ 2 := by ring
      rw [this, hps]; exact h1
    exact lt_of_mul_lt_mul_left h2 (by positivity)
  have huvq : 0 < u + v - q := by
    have := abs_lt_of_sq_lt_sq hlt hvpos.le
    have := (abs_lt.mp this).1; linarith
  set w := e * (u + v - q) / (2 * v) with hw
  have hwpos : 0 < w := by rw [hw]; positivity
  have huv : 0 < u + v := by linarith
  obtain ⟨hk2, hkpos⟩ := vermeille_k (u + v) w huv hwpos.le
  set k := (u + v) / (Real.sqrt (u + v + w ^ 2) + w) with hk
  have hkk : vermKk e2 p q r = k := by
    unfold vermKk
    simp only []
    rw [← hSdef, ← hu, ← hv, uv_eq u v (e2 ^ 2 * q) hvpos hv2, ← hedef, ← hw, max_eq_right hwpos.le]
  rw [hkk]
  refine ⟨hkpos, ?_⟩
  have h4 : 2 * v * w = e * (u + v - q) := by rw [hw]; field_simp
  have hcub' : u ^ 3 - 3 * ((p + q - e ^ 2) / 6) * u ^ 2 = e ^ 2 * p * q / 2 := by
    rw [← hee, ← hr]; linear_combination hcub
  have hv2' : v ^ 2 = u ^ 2 + e ^ 2 * q := by rw [← hee]; exact hv2
  have hQ := vermeille_quartic p q e u v w k hcub' hv2' h4 hk2 hvpos.ne'
  have hk2pos : 0 < k + e := by linarith
  field_simp
  linear_combination -hQ

/-- **Vermeille's `k` on the axis of the swapped problem** (`p = 0`, `q > 0`: oblate — a point of the rotation axis;
prolate — a point of the equatorial plane): `k = √q` -/
theorem vermKk_p0 (e2 q : ℝ) (he : e2 ≠ 0) (hq : 0 < q) :
    vermKk e2 0 q ((0 + q - e2 ^ 2) / 6) = Real.sqrt q := by
  have he2 : 0 < e2 ^ 2 := by positivity
  unfold vermKk
  simp only []
  rw [show e2 ^ 2 * 0 * q / 4 = 0 by ring, vermU_zero]
  set u := 3 * ((0 + q - e2 ^ 2) / 6) with hu
  have hsq : u ^ 2 + e2 ^ 2 * q = ((q + e2 ^ 2) / 2) ^ 2 := by rw [hu]; ring
  have hv : Real.sqrt (u ^ 2 + e2 ^ 2 * q) = (q + e2 ^ 2) / 2 := by
    rw [hsq, Real.sqrt_sq (by positivity)]
  rw [hv]
  have hvpos : 0 < (q + e2 ^ 2) / 2 := by positivity
  rw [uv_eq u ((q + e2 ^ 2) / 2) (e2 ^ 2 * q) hvpos (by rw [hu]; ring)]
  have huv : u + (q + e2 ^ 2) / 2 = q := by rw [hu]; ring
  rw [huv]
  simp only [sub_self, mul_zero, zero_div, max_self]
  have hs := Real.sq_sqrt hq.le
  have hspos : 0 < Real.sqrt q := Real.sqrt_pos.mpr hq
  rw [show q + (0:ℝ) ^ 2 = q by ring, add_zero, div_eq_iff hspos.ne']
  linear_combination -hs

/-- **Vermeille's `k` in the plane `q = 0` outside the singular disc** (`r > 0`, i.e. `p > e⁴`): `k = √p − |e²|` -/
theorem vermKk_q0 (e2 p : ℝ) (he : e2 ≠ 0) (hr : 0 < (p + 0 - e2 ^ 2) / 6) :
    vermKk e2 p 0 ((p + 0 - e2 ^ 2) / 6) = Real.sqrt p - |e2| := by
  have he2 : 0 < e2 ^ 2 := by positivity
  have hp : e2 ^ 2 < p := by linarith
  have hppos : 0 < p := by linarith
  have hepos : 0 < |e2| := abs_pos.mpr he
  unfold vermKk
  simp only []
  rw [show e2 ^ 2 * p * 0 / 4 = 0 by ring, vermU_zero]
  set r := (p + 0 - e2 ^ 2) / 6 with hrdef
  have hv : Real.sqrt ((3 * r) ^ 2 + e2 ^ 2 * 0) = 3 * r := by
    rw [mul_zero, add_zero, Real.sqrt_sq (by linarith)]
  rw [hv, if_neg (by linarith)]
  have hw : |e2| * (3 * r + 3 * r - 0) / (2 * (3 * r)) = |e2| := by field_simp; ring
  rw [hw, max_eq_right hepos.le]
  have h6 : 3 * r + 3 * r + |e2| ^ 2 = p := by rw [sq_abs, hrdef]; ring
  rw [h6]
  have hs := Real.sq_sqrt hppos.le
  have hspos : 0 < Real.sqrt p := Real.sqrt_pos.mpr hppos
  rw [div_eq_iff (by positivity)]
  have : 3 * r + 3 * r = p - |e2| ^ 2 := by linarith
  rw [this]; linear_combination -hs

/-- **Vermeille's `k`: every case the general branch of `IntReverse` is entered with** — `p, q ≥ 0`, not
(`e⁴q = 0` and `r ≤ 0`): `k > 0` and `p/(k + |e²|)² + q/k² = 1` (with the convention `0/0 = 0` when `q = 0`) -/
theorem vermKk_spec (e2 p q : ℝ) (he : e2 ≠ 0) (hp : 0 ≤ p) (hq : 0 ≤ q)
    (hbr : ¬ (e2 ^ 2 * q = 0 ∧ (p + q - e2 ^ 2) / 6 ≤ 0)) :
    0 < vermKk e2 p q ((p + q - e2 ^ 2) / 6) ∧
    p / (vermKk e2 p q ((p + q - e2 ^ 2) / 6) + |e2|) ^ 2 + q / (vermKk e2 p q ((p + q - e2 ^ 2) / 6)) ^ 2 = 1 := by
  have hepos : 0 < |e2| := abs_pos.mpr he
  rcases hq.lt_or_eq with hq' | hq'
  · rcases hp.lt_or_eq with hp' | hp'
    · exact vermKk_general e2 p q he hp' hq'
    · subst hp'
      rw [vermKk_p0 e2 q he hq']
      have hspos : 0 < Real.sqrt q := Real.sqrt_pos.mpr hq'
      refine ⟨hspos, ?_⟩
      rw [Real.sq_sqrt hq'.le, zero_div, zero_add, div_self hq'.ne']
  · subst hq'
    have hr : 0 < (p + 0 - e2 ^ 2) / 6 := by
      by_contra hc; exact hbr ⟨by ring, not_lt.mp hc⟩
    rw [vermKk_q0 e2 p he hr]
    have he2 : 0 < e2 ^ 2 := by positivity
    have hpp : e2 ^ 2 < p := by linarith
    have hppos : 0 < p := by linarith
    have hlt : |e2| < Real.sqrt p := by
      rw [Real.lt_sqrt hepos.le, sq_abs]; exact hpp
    refine ⟨by linarith, ?_⟩
    rw [sub_add_cancel, Real.sq_sqrt hppos.le, zero_div, add_zero, div_self hppos.ne']

/-! ## The meridian-plane relations every branch of `IntReverse` has to establish -/

/-- `Geocentric::IntForward` over ℝ -/
theorem forward_real (a f s c sl cl h : ℝ) :
    forward (⟨a, f⟩ : Ell ℝ) s c sl cl h =
      ((a / Real.sqrt (1 - f * (2 - f) * s ^ 2) + h) * c * cl,
       (a / Real.sqrt (1 - f * (2 - f) * s ^ 2) + h) * c * sl,
       ((1 - f) ^ 2 * (a / Real.sqrt (1 - f * (2 - f) * s ^ 2)) + h) * s) := by
  simp only [forward, e2, e2m, lit_real, sq_real, sqrt_real]
  push_cast
  rfl

/-- what a branch of the reverse conversion establishes in the meridian half-plane `(R, Z)`, `R ≥ 0`:
`(s, c)` is a unit vector with `c ≥ 0`, the forward image of `(s, c, h)` is `(R, Z)`, and the point lies on the same
side of the axis and of the equatorial plane as its foot point (`N + h ≥ 0`, `(1 − e²)N + h ≥ 0`, `N` the prime-vertical
radius of curvature) -/
structure Merid (a f s c h R Z : ℝ) : Prop where
  unit : s ^ 2 + c ^ 2 = 1
  cpos : 0 ≤ c
  clR : (a / Real.sqrt (1 - f * (2 - f) * s ^ 2) + h) * c = R
  clZ : ((1 - f) ^ 2 * (a / Real.sqrt (1 - f * (2 - f) * s ^ 2)) + h) * s = Z
  sideR : 0 ≤ a / Real.sqrt (1 - f * (2 - f) * s ^ 2) + h
  sideZ : 0 ≤ (1 - f) ^ 2 * (a / Real.sqrt (1 - f * (2 - f) * s ^ 2)) + h

/-- the longitude part of `IntReverse` -/
theorem lon_part (X Y : ℝ) :
    let R := Real.sqrt (X ^ 2 + Y ^ 2)
    let slam := if R = 0 then 0 else Y / R
    let clam := if R = 0 then 1 else X / R
    slam ^ 2 + clam ^ 2 = 1 ∧ R * clam = X ∧ R * slam = Y := by
  intro R slam clam
  have hR2 : R ^ 2 = X ^ 2 + Y ^ 2 := Real.sq_sqrt (by positivity)
  by_cases hR : R = 0
  · have h0 : X ^ 2 + Y ^ 2 = 0 := by rw [← hR2, hR]; ring
    have hX : X = 0 := by nlinarith [sq_nonneg X, sq_nonneg Y]
    have hY : Y = 0 := by nlinarith [sq_nonneg X, sq_nonneg Y]
    simp only [slam, clam, if_pos hR, hR, hX, hY]
    norm_num
  · simp only [slam, clam, if_neg hR]
    refine ⟨?_, ?_, ?_⟩
    · field_simp; linarith
    · field_simp
    · field_simp

/-- general branch: from a positive solution `(k1, k2 = k1 + e²)` of Vermeille's quartic -/
theorem merid_general (a f R Z k1 k2 : ℝ) (ha : 0 < a) (hR : 0 ≤ R) (hk1 : 0 < k1) (hk2 : 0 < k2)
    (hk : k2 = k1 + f * (2 - f))
    (hq : (R / a) ^ 2 / k2 ^ 2 + (1 - f) ^ 2 * (Z / a) ^ 2 / k1 ^ 2 = 1) (hpos : R ≠ 0 ∨ Z ≠ 0) :
    Merid a f ((Z / k1) / Real.sqrt ((Z / k1) ^ 2 + (R / k2) ^ 2)) ((R / k2) / Real.sqrt ((Z / k1) ^ 2 + (R / k2) ^ 2))
      ((1 - (1 - f) ^ 2 / k1) * Real.sqrt ((k1 * R / k2) ^ 2 + Z ^ 2)) R Z := by
  set e2 := f * (2 - f) with he2
  have he2m : (1 - f) ^ 2 = 1 - e2 := by rw [he2]; ring
  have hH2pos : 0 < (Z / k1) ^ 2 + (R / k2) ^ 2 := by
    rcases hpos with h0 | h0
    · have : 0 < (R / k2) ^ 2 := by positivity
      positivity
    · have : 0 < (Z / k1) ^ 2 := by positivity
      positivity
  set H := Real.sqrt ((Z / k1) ^ 2 + (R / k2) ^ 2) with hHdef
  have hHpos : 0 < H := Real.sqrt_pos.mpr hH2pos
  have hH2 : H ^ 2 = (Z / k1) ^ 2 + (R / k2) ^ 2 := Real.sq_sqrt hH2pos.le
  have hq' : (R / k2) ^ 2 + (1 - e2) * (Z / k1) ^ 2 = a ^ 2 := by
    rw [he2m] at hq
    have := hq; field_simp at this ⊢; linarith
  have h1 : 1 - e2 * ((Z / k1) / H) ^ 2 = (a / H) ^ 2 := by
    field_simp
    have : H ^ 2 - e2 * (Z / k1) ^ 2 = a ^ 2 := by rw [hH2]; linarith
    field_simp at this; linarith
  have hn : a / Real.sqrt (1 - e2 * ((Z / k1) / H) ^ 2) = H := by
    rw [h1, Real.sqrt_sq (by positivity)]; field_simp
  have h2 : Real.sqrt ((k1 * R / k2) ^ 2 + Z ^ 2) = k1 * H := by
    have : (k1 * R / k2) ^ 2 + Z ^ 2 = (k1 * H) ^ 2 := by
      rw [mul_pow, hH2]; field_simp; ring
    rw [this, Real.sqrt_sq (by positivity)]
  have hh : (1 - (1 - f) ^ 2 / k1) * Real.sqrt ((k1 * R / k2) ^ 2 + Z ^ 2) = (k1 - (1 - e2)) * H := by
    rw [h2, he2m]; field_simp
  refine ⟨?_, by positivity, ?_, ?_, ?_, ?_⟩
  · rw [div_pow (Z / k1) H, div_pow (R / k2) H, ← add_div, ← hH2, div_self (by positivity)]
  · rw [hn, hh]
    have : H + (k1 - (1 - e2)) * H = k2 * H := by rw [hk]; ring
    rw [this]; field_simp
  · rw [hn, hh, he2m]
    have : (1 - e2) * H + (k1 - (1 - e2)) * H = k1 * H := by ring
    rw [this]; field_simp
  · rw [hn, hh]
    have : H + (k1 - (1 - e2)) * H = k2 * H := by rw [hk]; ring
    rw [this]; positivity
  · rw [hn, hh, he2m]
    have : (1 - e2) * H + (k1 - (1 - e2)) * H = k1 * H := by ring
    rw [this]; positivity

/-- sphere branch (`f = 0`), the centre included (it is sent to the north pole at `h = −a`) -/
theorem merid_sphere (a R Z : ℝ) (hR : 0 ≤ R) :
    let h0 := Real.sqrt (R ^ 2 + Z ^ 2)
    let zz := if h0 = 0 then 1 else Z
    let H := Real.sqrt (zz ^ 2 + R ^ 2)
    Merid a 0 (zz / H) (R / H) (h0 - a) R Z := by
  intro h0 zz H
  have hh2 : h0 ^ 2 = R ^ 2 + Z ^ 2 := Real.sq_sqrt (by positivity)
  have hh0 : 0 ≤ h0 := Real.sqrt_nonneg _
  have hn : ∀ s : ℝ, a / Real.sqrt (1 - 0 * (2 - 0) * s ^ 2) = a := by
    intro s; rw [show 1 - (0:ℝ) * (2 - 0) * s ^ 2 = 1 by ring, Real.sqrt_one, div_one]
  by_cases hz : h0 = 0
  · have h0' : R ^ 2 + Z ^ 2 = 0 := by rw [← hh2, hz]; ring
    have hR0 : R = 0 := by nlinarith [sq_nonneg R, sq_nonneg Z]
    have hZ0 : Z = 0 := by nlinarith [sq_nonneg R, sq_nonneg Z]
    have hzz : zz = 1 := by simp only [zz, if_pos hz]
    have hH : H = 1 := by simp only [H, hzz, hR0]; norm_num
    rw [hzz, hH, hR0, hZ0, hz]
    refine ⟨by norm_num, by norm_num, ?_, ?_, ?_, ?_⟩ <;> rw [hn] <;> norm_num
  · have hzz : zz = Z := by simp only [zz, if_neg hz]
    have hH : H = h0 := by
      simp only [H, hzz]
      rw [show Z ^ 2 + R ^ 2 = R ^ 2 + Z ^ 2 by ring]
    have hpos : 0 < h0 := lt_of_le_of_ne hh0 (Ne.symm hz)
    rw [hzz, hH]
    refine ⟨?_, by positivity, ?_, ?_, ?_, ?_⟩
    · rw [div_pow, div_pow, ← add_div, hh2, add_comm, div_self (by rw [← hh2]; positivity)]
    · rw [hn]; field_simp; ring
    · rw [hn]; field_simp; ring
    · rw [hn]; linarith
    · rw [hn]; linarith

/-- inside the singular disc, oblate (`0 < f < 1`, `Z = 0`, `R ≤ a e²`): the limiting formulas give a pre-image -/
theorem merid_disc_oblate (a f R : ℝ) (ha : 0 < a) (hf0 : 0 < f) (hf : f < 1) (hR : 0 ≤ R)
    (hp : (R / a) ^ 2 ≤ (f * (2 - f)) ^ 2) :
    let zz := Real.sqrt (((f * (2 - f)) ^ 2 - (R / a) ^ 2) / (1 - f) ^ 2)
    let xx := Real.sqrt ((R / a) ^ 2)
    let H := Real.sqrt (zz ^ 2 + xx ^ 2)
    Merid a f (zz / H) (xx / H) (-(a * (1 - f) ^ 2 * H / |f * (2 - f)|)) R 0 := by
  intro zz xx H
  set e2 := f * (2 - f) with he2
  have he2pos : 0 < e2 := by rw [he2]; nlinarith
  have he2m : (1 - f) ^ 2 = 1 - e2 := by rw [he2]; ring
  have hmpos : 0 < (1 - f) ^ 2 := pow_pos (by linarith) 2
  have hzz2 : zz ^ 2 = (e2 ^ 2 - (R / a) ^ 2) / (1 - f) ^ 2 :=
    Real.sq_sqrt (div_nonneg (by linarith) hmpos.le)
  have hxx : xx = R / a := Real.sqrt_sq (by positivity)
  have hH2 : H ^ 2 = zz ^ 2 + xx ^ 2 := Real.sq_sqrt (by positivity)
  have hH2pos : 0 < zz ^ 2 + xx ^ 2 := by
    rw [hzz2, hxx]
    by_cases h0 : R = 0
    · rw [h0]; simp only [zero_div, ne_eq, OfNat.ofNat_ne_zero, not_false_eq_true, zero_pow, sub_zero, add_zero]; positivity
    · have : 0 < (R / a) ^ 2 := by positivity
      have : 0 ≤ (e2 ^ 2 - (R / a) ^ 2) / (1 - f) ^ 2 := div_nonneg (by linarith) hmpos.le
      linarith
  have hHpos : 0 < H := Real.sqrt_pos.mpr hH2pos
  -- 1 − e² sin²φ = e⁴/H²
  have h1 : 1 - e2 * (zz / H) ^ 2 = (e2 / H) ^ 2 := by
    rw [div_pow, div_pow, hH2]
    have hne : zz ^ 2 + xx ^ 2 ≠ 0 := hH2pos.ne'
    field_simp
    rw [hzz2, hxx, he2m]
    have h1e : (1 - e2) ≠ 0 := by rw [← he2m]; exact hmpos.ne'
    field_simp; ring
  have hn : a / Real.sqrt (1 - e2 * (zz / H) ^ 2) = a * H / e2 := by
    rw [h1, Real.sqrt_sq (by positivity)]; field_simp
  rw [abs_of_pos he2pos]
  have hsum : a * H / e2 + -(a * (1 - f) ^ 2 * H / e2) = a * H := by rw [he2m]; field_simp; ring
  have hsumZ : (1 - f) ^ 2 * (a * H / e2) + -(a * (1 - f) ^ 2 * H / e2) = 0 := by ring
  refine ⟨?_, by positivity, ?_, ?_, ?_, ?_⟩
  · rw [div_pow, div_pow, ← add_div, ← hH2, div_self (by positivity)]
  · rw [hn, hsum, hxx]; field_simp
  · rw [hn, hsumZ, zero_mul]
  · rw [hn, hsum]; positivity
  · rw [hn, hsumZ]

/-- inside the singular segment, prolate (`f < 0`, `R = 0`, `|Z| ≤ a|e²|/(1 − f)`): the limiting formulas give a pre-image -/
theorem merid_segment_prolate (a f Z : ℝ) (ha : 0 < a) (hf0 : f < 0)
    (hp : (1 - f) ^ 2 * (Z / a) ^ 2 ≤ (f * (2 - f)) ^ 2) :
    let zz := Real.sqrt ((1 - f) ^ 2 * (Z / a) ^ 2 / (1 - f) ^ 2)
    let xx := Real.sqrt ((f * (2 - f)) ^ 2 - (1 - f) ^ 2 * (Z / a) ^ 2)
    let H := Real.sqrt (zz ^ 2 + xx ^ 2)
    Merid a f (if Z < 0 then -(zz / H) else zz / H) (xx / H) (-(a * 1 * H / |f * (2 - f)|)) 0 Z := by
  intro zz xx H
  set e2 := f * (2 - f) with he2
  have he2neg : e2 < 0 := by rw [he2]; nlinarith
  have he2m : (1 - f) ^ 2 = 1 - e2 := by rw [he2]; ring
  have hmpos : 0 < (1 - f) ^ 2 := pow_pos (by linarith) 2
  have hzz : zz = |Z| / a := by
    have e : (1 - f) ^ 2 * (Z / a) ^ 2 / (1 - f) ^ 2 = (Z / a) ^ 2 := mul_div_cancel_left₀ _ hmpos.ne'
    simp only [zz]
    rw [e, Real.sqrt_sq_eq_abs, abs_div, abs_of_pos ha]
  have hzz2 : zz ^ 2 = (Z / a) ^ 2 := by rw [hzz, div_pow, sq_abs, div_pow]
  have hxx2 : xx ^ 2 = e2 ^ 2 - (1 - f) ^ 2 * (Z / a) ^ 2 := Real.sq_sqrt (by linarith)
  have hH2 : H ^ 2 = zz ^ 2 + xx ^ 2 := Real.sq_sqrt (by positivity)
  have hH2pos : 0 < zz ^ 2 + xx ^ 2 := by
    rw [hzz2, hxx2]
    by_cases h0 : Z = 0
    · have : 0 < e2 ^ 2 := by nlinarith
      rw [h0]; simpa using this
    · have : 0 < (Z / a) ^ 2 := by positivity
      linarith
  have hHpos : 0 < H := Real.sqrt_pos.mpr hH2pos
  have h1' : ∀ s : ℝ, s ^ 2 = (zz / H) ^ 2 → 1 - e2 * s ^ 2 = (e2 / H) ^ 2 := by
    intro s hs
    rw [hs, div_pow, div_pow, hH2]
    have hne : zz ^ 2 + xx ^ 2 ≠ 0 := hH2pos.ne'
    field_simp
    rw [hxx2, hzz2, he2m]; ring
  have hn : ∀ s : ℝ, s ^ 2 = (zz / H) ^ 2 → a / Real.sqrt (1 - e2 * s ^ 2) = a * H / (-e2) := by
    intro s hs
    rw [h1' s hs, Real.sqrt_sq_eq_abs, abs_div, abs_of_neg he2neg, abs_of_pos hHpos]; field_simp
  rw [abs_of_neg he2neg]
  have hsq : (if Z < 0 then -(zz / H) else zz / H) ^ 2 = (zz / H) ^ 2 := by
    split_ifs <;> ring
  have hsum : a * H / (-e2) + -(a * 1 * H / (-e2)) = 0 := by ring
  have hsumZ : (1 - f) ^ 2 * (a * H / (-e2)) + -(a * 1 * H / (-e2)) = a * H := by
    have hne : e2 ≠ 0 := he2neg.ne
    rw [he2m]; field_simp; ring
  refine ⟨?_, by positivity, ?_, ?_, ?_, ?_⟩
  · rw [hsq, div_pow, div_pow, ← add_div, ← hH2, div_self (by positivity)]
  · rw [hn _ hsq, hsum, zero_mul]
  · rw [hn _ hsq, hsumZ]
    by_cases hZ : Z < 0
    · rw [if_pos hZ, hzz, abs_of_neg hZ]; field_simp
    · rw [if_neg hZ, hzz, abs_of_nonneg (not_lt.mp hZ)]; field_simp
  · rw [hn _ hsq, hsum]
  · rw [hn _ hsq, hsumZ]; positivity

/-! ## `reverse` unfolded over ℝ, branch by branch -/

noncomputable def revFar (X Y Z : ℝ) : Rev ℝ :=
  let R := Real.sqrt ((X / 2) ^ 2 + (Y / 2) ^ 2)
  let H := Real.sqrt ((Z / 2) ^ 2 + R ^ 2)
  ⟨Z / 2 / H, R / H, if R = 0 then 0 else Y / 2 / R, if R = 0 then 1 else X / 2 / R, Real.sqrt (Real.sqrt (X ^ 2 + Y ^ 2) ^ 2 + Z ^ 2)⟩

noncomputable def revSphere (a R Z slam clam : ℝ) : Rev ℝ :=
  let h0 := Real.sqrt (R ^ 2 + Z ^ 2)
  let zz := if h0 = 0 then 1 else Z
  let H := Real.sqrt (zz ^ 2 + R ^ 2)
  ⟨zz / H, R / H, slam, clam, h0 - a⟩

noncomputable def revGeneral (f R Z slam clam : ℝ) (kk : ℝ × ℝ) : Rev ℝ :=
  let H := Real.sqrt ((Z / kk.1) ^ 2 + (R / kk.2) ^ 2)
  ⟨Z / kk.1 / H, R / kk.2 / H, slam, clam, (1 - (1 - f) ^ 2 / kk.1) * Real.sqrt ((kk.1 * R / kk.2) ^ 2 + Z ^ 2)⟩

noncomputable def revSing (a f p Z slam clam : ℝ) : Rev ℝ :=
  let zz := Real.sqrt ((if f < 0 then p else (f * (2 - f)) ^ 2 - p) / (1 - f) ^ 2)
  let xx := Real.sqrt (if f < 0 then (f * (2 - f)) ^ 2 - p else p)
  let H := Real.sqrt (zz ^ 2 + xx ^ 2)
  ⟨if Z < 0 then -(zz / H) else zz / H, xx / H, slam, clam, -(a * (if f < 0 then 1 else (1 - f) ^ 2) * H / |f * (2 - f)|)⟩

theorem cond_iff (A B : Prop) [Decidable A] [Decidable B] : ((!(decide A && decide B)) = true) ↔ ¬(A ∧ B) := by
  by_cases hA : A <;> by_cases hB : B <;> simp [hA, hB]

/-- the branch structure of `Geocentric::IntReverse` (the model `reverse`) over ℝ -/
theorem reverse_real (a f maxrad X Y Z : ℝ) :
    reverse (⟨a, f⟩ : Ell ℝ) maxrad X Y Z =
      let R := Real.sqrt (X ^ 2 + Y ^ 2)
      let slam := if R = 0 then 0 else Y / R
      let clam := if R = 0 then 1 else X / R
      let p0 := (R / a) ^ 2
      let q0 := (1 - f) ^ 2 * (Z / a) ^ 2
      let r := (p0 + q0 - (f * (2 - f)) ^ 2) / 6
      let p := if f < 0 then q0 else p0
      let q := if f < 0 then p0 else q0
      if maxrad < Real.sqrt (R ^ 2 + Z ^ 2) then revFar X Y Z
      else if (f * (2 - f)) ^ 2 = 0 then revSphere a R Z slam clam
      else if (!(decide ((f * (2 - f)) ^ 2 * q = 0) && decide (r ≤ 0))) = true then
        revGeneral f R Z slam clam (vermK ⟨a, f⟩ p q r (decide (f < 0)))
      else revSing a f p Z slam clam := by
  unfold reverse
  simp only [e4a, e2m, e2a, e2, sq_real, sqrt_real, hypot_real, ltb_real, leb_real, eqb_real, lit_real, ofNat_real, abs_real,
    decide_eq_true_eq]
  push_cast
  rfl

/-- **every branch of `IntReverse` below the far-field threshold** establishes the meridian relations `Merid` for
`(R, Z) = (√(X² + Y²), Z)`, and the longitude pair is `(Y/R, X/R)` (or `(0, 1)` on the axis) -/
theorem reverse_facts (a f maxrad X Y Z : ℝ) (ha : 0 < a) (hf : f < 1)
    (hmax : ¬ maxrad < Real.sqrt (Real.sqrt (X ^ 2 + Y ^ 2) ^ 2 + Z ^ 2)) :
    Merid a f (reverse (⟨a, f⟩ : Ell ℝ) maxrad X Y Z).sphi (reverse (⟨a, f⟩ : Ell ℝ) maxrad X Y Z).cphi
      (reverse (⟨a, f⟩ : Ell ℝ) maxrad X Y Z).h (Real.sqrt (X ^ 2 + Y ^ 2)) Z ∧
    (reverse (⟨a, f⟩ : Ell ℝ) maxrad X Y Z).slam = (if Real.sqrt (X ^ 2 + Y ^ 2) = 0 then 0 else Y / Real.sqrt (X ^ 2 + Y ^ 2)) ∧
    (reverse (⟨a, f⟩ : Ell ℝ) maxrad X Y Z).clam = (if Real.sqrt (X ^ 2 + Y ^ 2) = 0 then 1 else X / Real.sqrt (X ^ 2 + Y ^ 2)) := by
  rw [reverse_real]
  simp only []
  rw [if_neg hmax]
  set R := Real.sqrt (X ^ 2 + Y ^ 2) with hRdef
  have hR : 0 ≤ R := Real.sqrt_nonneg _
  have hmpos : 0 < (1 - f) ^ 2 := pow_pos (by linarith) 2
  by_cases he : (f * (2 - f)) ^ 2 = 0
  · rw [if_pos he]
    have hf0 : f = 0 := by
      have h := pow_eq_zero_iff (two_ne_zero) |>.mp he
      rcases mul_eq_zero.mp h with h | h
      · exact h
      · exfalso; linarith
    subst hf0
    exact ⟨merid_sphere a R Z hR, rfl, rfl⟩
  · rw [if_neg he]
    have he2 : f * (2 - f) ≠ 0 := fun h => he (by rw [h]; ring)
    have he4pos : 0 < (f * (2 - f)) ^ 2 := by positivity
    set p0 := (R / a) ^ 2 with hp0
    set q0 := (1 - f) ^ 2 * (Z / a) ^ 2 with hq0
    have hp0n : 0 ≤ p0 := by rw [hp0]; positivity
    have hq0n : 0 ≤ q0 := by rw [hq0]; positivity
    by_cases hbr : ((f * (2 - f)) ^ 2 * (if f < 0 then p0 else q0) = 0 ∧ (p0 + q0 - (f * (2 - f)) ^ 2) / 6 ≤ 0)
    · -- the limiting formulas
      rw [if_neg (fun h => ((cond_iff _ _).mp h) hbr)]
      obtain ⟨hq, hr⟩ := hbr
      have hq' : (if f < 0 then p0 else q0) = 0 := by
        rcases mul_eq_zero.mp hq with h | h
        · exact absurd h he4pos.ne'
        · exact h
      by_cases hneg : f < 0
      · rw [if_pos hneg] at hq'
        simp only [revSing, if_pos hneg]
        have hR0 : R = 0 := by
          have : R / a = 0 := by
            rw [hp0] at hq'; exact pow_eq_zero_iff (two_ne_zero) |>.mp hq'
          rcases div_eq_zero_iff.mp this with h | h
          · exact h
          · exact absurd h ha.ne'
        have hp : (1 - f) ^ 2 * (Z / a) ^ 2 ≤ (f * (2 - f)) ^ 2 := by rw [← hq0]; linarith
        have hm := merid_segment_prolate a f Z ha hneg hp
        rw [hR0]
        exact ⟨hm, trivial, trivial⟩
      · rw [if_neg hneg] at hq'
        simp only [revSing, if_neg hneg]
        have hf0 : 0 < f := by
          rcases (not_lt.mp hneg).lt_or_eq with h | h
          · exact h
          · exfalso; apply he2; rw [← h]; ring
        have hZ0 : Z = 0 := by
          rw [hq0] at hq'
          rcases mul_eq_zero.mp hq' with h | h
          · exact absurd h hmpos.ne'
          · have : Z / a = 0 := pow_eq_zero_iff (two_ne_zero) |>.mp h
            rcases div_eq_zero_iff.mp this with h | h
            · exact h
            · exact absurd h ha.ne'
        have hp : (R / a) ^ 2 ≤ (f * (2 - f)) ^ 2 := by rw [← hp0]; linarith
        have hm := merid_disc_oblate a f R ha hf0 hf hR hp
        rw [hZ0, if_neg (lt_irrefl 0)]
        exact ⟨hm, trivial, trivial⟩
    · -- Vermeille's general formulas
      rw [if_pos ((cond_iff _ _).mpr hbr), vermK_real]
      have hpos : R ≠ 0 ∨ Z ≠ 0 := by
        by_contra hc
        obtain ⟨h1, h2⟩ := not_or.mp hc
        have h1 := not_not.mp h1
        have h2 := not_not.mp h2
        apply hbr
        have hp00 : p0 = 0 := by rw [hp0, h1]; simp
        have hq00 : q0 = 0 := by rw [hq0, h2]; simp
        refine ⟨by rw [hp00, hq00]; simp, ?_⟩
        rw [hp00, hq00]; linarith
      by_cases hneg : f < 0
      · simp only [if_pos hneg, decide_eq_true hneg, if_true, revGeneral]
        rw [if_pos hneg] at hbr
        have hbr' : ¬ ((f * (2 - f)) ^ 2 * p0 = 0 ∧ (q0 + p0 - (f * (2 - f)) ^ 2) / 6 ≤ 0) := by
          rw [add_comm q0 p0]; exact hbr
        obtain ⟨hk, hquart⟩ := vermKk_spec (f * (2 - f)) q0 p0 he2 hq0n hp0n hbr'
        rw [add_comm q0 p0] at hk hquart
        set k := vermKk (f * (2 - f)) q0 p0 ((p0 + q0 - (f * (2 - f)) ^ 2) / 6) with hkdef
        have he2neg : f * (2 - f) < 0 := by nlinarith
        rw [abs_of_neg he2neg] at hquart
        have hk1 : 0 < k - f * (2 - f) := by linarith
        have hq : (R / a) ^ 2 / k ^ 2 + (1 - f) ^ 2 * (Z / a) ^ 2 / (k - f * (2 - f)) ^ 2 = 1 := by
          rw [← hp0, ← hq0]
          have : k + -(f * (2 - f)) = k - f * (2 - f) := by ring
          rw [this] at hquart; linarith
        exact ⟨merid_general a f R Z (k - f * (2 - f)) k ha hR hk1 hk (by ring) hq hpos, trivial, trivial⟩
      · have hf0 : 0 < f := by
          rcases (not_lt.mp hneg).lt_or_eq with h | h
          · exact h
          · exfalso; apply he2; rw [← h]; ring
        simp only [if_neg hneg, decide_eq_false hneg, Bool.false_eq_true, if_false, revGeneral]
        rw [if_neg hneg] at hbr
        obtain ⟨hk, hquart⟩ := vermKk_spec (f * (2 - f)) p0 q0 he2 hp0n hq0n hbr
        set k := vermKk (f * (2 - f)) p0 q0 ((p0 + q0 - (f * (2 - f)) ^ 2) / 6) with hkdef
        have he2pos : 0 < f * (2 - f) := by nlinarith
        rw [abs_of_pos he2pos] at hquart
        have hk2 : 0 < k + f * (2 - f) := by linarith
        have hq : (R / a) ^ 2 / (k + f * (2 - f)) ^ 2 + (1 - f) ^ 2 * (Z / a) ^ 2 / k ^ 2 = 1 := by
          rw [← hp0, ← hq0]; exact hquart
        exact ⟨merid_general a f R Z k (k + f * (2 - f)) ha hR hk hk2 rfl hq hpos, trivial, trivial⟩

/-- the far-field branch (`|P| > maxrad ≥ 0`): geocentric direction and `h = |P|` -/
theorem reverse_far_facts (a f maxrad X Y Z : ℝ) (hmr : 0 ≤ maxrad)
    (hmax : maxrad < Real.sqrt (Real.sqrt (X ^ 2 + Y ^ 2) ^ 2 + Z ^ 2)) :
    let rv := reverse (⟨a, f⟩ : Ell ℝ) maxrad X Y Z
    rv.sphi ^ 2 + rv.cphi ^ 2 = 1 ∧ 0 ≤ rv.cphi ∧ rv.slam ^ 2 + rv.clam ^ 2 = 1 ∧
    rv.h = Real.sqrt (X ^ 2 + Y ^ 2 + Z ^ 2) ∧
    rv.h * (rv.cphi * rv.clam) = X ∧ rv.h * (rv.cphi * rv.slam) = Y ∧ rv.h * rv.sphi = Z := by
  intro rv
  have hrv : rv = revFar X Y Z := by
    show reverse (⟨a, f⟩ : Ell ℝ) maxrad X Y Z = _
    rw [reverse_real]; simp only []; rw [if_pos hmax]
  rw [hrv]
  simp only [revFar]
  obtain ⟨hu, hcx, hcy⟩ := lon_part (X / 2) (Y / 2)
  set R' := Real.sqrt ((X / 2) ^ 2 + (Y / 2) ^ 2) with hR'
  have hR'0 : 0 ≤ R' := Real.sqrt_nonneg _
  have hR'2 : R' ^ 2 = (X / 2) ^ 2 + (Y / 2) ^ 2 := Real.sq_sqrt (by positivity)
  have hin : Real.sqrt (X ^ 2 + Y ^ 2) ^ 2 + Z ^ 2 = X ^ 2 + Y ^ 2 + Z ^ 2 := by
    rw [Real.sq_sqrt (by positivity)]
  rw [hin] at hmax ⊢
  set h0 := Real.sqrt (X ^ 2 + Y ^ 2 + Z ^ 2) with hh0
  have hh0pos : 0 < h0 := lt_of_le_of_lt hmr hmax
  have hh02 : h0 ^ 2 = X ^ 2 + Y ^ 2 + Z ^ 2 := Real.sq_sqrt (by positivity)
  have hHeq : Real.sqrt ((Z / 2) ^ 2 + R' ^ 2) = h0 / 2 := by
    have : (Z / 2) ^ 2 + R' ^ 2 = (h0 / 2) ^ 2 := by rw [hR'2, div_pow h0, hh02]; ring
    rw [this, Real.sqrt_sq (by positivity)]
  rw [hHeq]
  set sl := (if R' = 0 then 0 else Y / 2 / R') with hsl
  set cl := (if R' = 0 then 1 else X / 2 / R') with hcl
  refine ⟨?_, by positivity, hu, rfl, ?_, ?_, ?_⟩
  · rw [div_pow (Z / 2), div_pow R', ← add_div, hR'2, div_pow h0, hh02]
    have : X ^ 2 + Y ^ 2 + Z ^ 2 ≠ 0 := by rw [← hh02]; positivity
    field_simp; ring
  · have : h0 * (R' / (h0 / 2) * cl) = 2 * (R' * cl) := by field_simp
    rw [this, hcx]; ring
  · have : h0 * (R' / (h0 / 2) * sl) = 2 * (R' * sl) := by field_simp
    rw [this, hcy]; ring
  · field_simp

/-! ## The foot point is the nearest point of the ellipsoid; size of the surface point -/

/-- the prime-vertical radius `N = a/√(1 − e² s²)` of a unit pair: `N > 0` and `N²(c² + (1−f)² s²) = a²` -/
theorem primeVertical (a f s c : ℝ) (ha : 0 < a) (hf : f < 1) (hu : s ^ 2 + c ^ 2 = 1) :
    0 < a / Real.sqrt (1 - f * (2 - f) * s ^ 2) ∧
    (a / Real.sqrt (1 - f * (2 - f) * s ^ 2)) ^ 2 * (c ^ 2 + (1 - f) ^ 2 * s ^ 2) = a ^ 2 := by
  have hm : 0 < (1 - f) ^ 2 := pow_pos (by linarith) 2
  have hs1 : s ^ 2 ≤ 1 := by nlinarith [sq_nonneg c]
  have e : 1 - f * (2 - f) * s ^ 2 = c ^ 2 + (1 - f) ^ 2 * s ^ 2 := by linear_combination (-1 : ℝ) * hu
  have hpos : 0 < c ^ 2 + (1 - f) ^ 2 * s ^ 2 := by
    by_cases hs : s = 0
    · have : c ^ 2 = 1 := by rw [hs] at hu; linarith
      rw [hs, this]; norm_num
    · have : 0 < s ^ 2 := by positivity
      have : 0 < (1 - f) ^ 2 * s ^ 2 := by positivity
      nlinarith [sq_nonneg c]
  rw [e]
  have hsq := Real.sq_sqrt hpos.le
  have hspos : 0 < Real.sqrt (c ^ 2 + (1 - f) ^ 2 * s ^ 2) := Real.sqrt_pos.mpr hpos
  refine ⟨by positivity, ?_⟩
  rw [div_pow, hsq]; field_simp

/-- **the foot point of the normal is the nearest point of the ellipsoid** when the point lies on the same side of the
axis and of the equatorial plane as its foot (`N + h ≥ 0`, `mN + h ≥ 0`, `m = (1−f)²`): for every `(x, y, z)` of the
ellipsoid `(x² + y²) m + z² = a² m` the squared distance is at least `h²`.  The excess is
`(N+h)/N · ((x−X₀)² + (y−Y₀)²) + (mN+h)/(mN) · (z−Z₀)²`. -/
theorem foot_nearest (a m N s c sl cl h x y z : ℝ) (hm : 0 < m) (hN : 0 < N)
    (hu : s ^ 2 + c ^ 2 = 1) (hl : sl ^ 2 + cl ^ 2 = 1) (hA : N ^ 2 * (c ^ 2 + m * s ^ 2) = a ^ 2)
    (hQ : (x ^ 2 + y ^ 2) * m + z ^ 2 = a ^ 2 * m) (hsR : 0 ≤ N + h) (hsZ : 0 ≤ m * N + h) :
    h ^ 2 ≤ ((N + h) * c * cl - x) ^ 2 + ((N + h) * c * sl - y) ^ 2 + ((m * N + h) * s - z) ^ 2 := by
  have id : N * m * (((N + h) * c * cl - x) ^ 2 + ((N + h) * c * sl - y) ^ 2 + ((m * N + h) * s - z) ^ 2 - h ^ 2) =
      m * (N + h) * ((x - N * c * cl) ^ 2 + (y - N * c * sl) ^ 2) + (m * N + h) * (z - m * N * s) ^ 2 := by
    linear_combination (N * h ^ 2 * m) * hu + (N * c ^ 2 * h * m * (N + h)) * hl + (h * m) * hA + (-h) * hQ
  have hrhs : 0 ≤ m * (N + h) * ((x - N * c * cl) ^ 2 + (y - N * c * sl) ^ 2) + (m * N + h) * (z - m * N * s) ^ 2 := by
    have h1 : 0 ≤ m * (N + h) := mul_nonneg hm.le hsR
    positivity
  have hNm : 0 < N * m := by positivity
  have : 0 ≤ N * m * (((N + h) * c * cl - x) ^ 2 + ((N + h) * c * sl - y) ^ 2 + ((m * N + h) * s - z) ^ 2 - h ^ 2) := by
    rw [id]; exact hrhs
  have := nonneg_of_mul_nonneg_right this hNm
  linarith

/-- the surface point `(N c, (1−f)² N s)` is no farther from the centre than the larger semi-axis -/
theorem surface_norm_le (a f N s c : ℝ) (hf : f < 1)
    (hA : N ^ 2 * (c ^ 2 + (1 - f) ^ 2 * s ^ 2) = a ^ 2) :
    (N * c) ^ 2 + ((1 - f) ^ 2 * N * s) ^ 2 ≤ (a * max 1 (1 - f)) ^ 2 := by
  have h1f : 0 < 1 - f := by linarith
  by_cases hc : 1 - f ≤ 1
  · rw [max_eq_left hc, mul_one, ← hA]
    have : (1 - f) ^ 2 ≤ 1 := by nlinarith
    have h2 : ((1 - f) ^ 2) ^ 2 ≤ (1 - f) ^ 2 := by nlinarith [sq_nonneg (1 - f)]
    have : ((1 - f) ^ 2) ^ 2 * (N * s) ^ 2 ≤ (1 - f) ^ 2 * (N * s) ^ 2 := mul_le_mul_of_nonneg_right h2 (sq_nonneg _)
    nlinarith
  · have hc := not_le.mp hc
    rw [max_eq_right hc.le, mul_pow a, ← hA]
    have h2 : 1 ≤ (1 - f) ^ 2 := by nlinarith
    have : (N * c) ^ 2 ≤ (1 - f) ^ 2 * (N * c) ^ 2 := by nlinarith [sq_nonneg (N * c)]
    nlinarith

/-- 2-D excess identity in the meridian plane -/
theorem merid_excess (a m N s c h x z : ℝ)
    (hu : s ^ 2 + c ^ 2 = 1) (hA : N ^ 2 * (c ^ 2 + m * s ^ 2) = a ^ 2)
    (hQ : x ^ 2 * m + z ^ 2 = a ^ 2 * m) :
    N * m * (((N + h) * c - x) ^ 2 + ((m * N + h) * s - z) ^ 2 - h ^ 2) =
      m * (N + h) * (x - N * c) ^ 2 + (m * N + h) * (z - m * N * s) ^ 2 := by
  linear_combination (N * h ^ 2 * m) * hu + (h * m) * hA + (-h) * hQ

/-- two `Merid` representations of the same meridian point, the first strictly on the near side: they coincide -/
theorem merid_unique (a f s c h s' c' h' R Z : ℝ) (ha : 0 < a) (hf : f < 1)
    (h1 : Merid a f s c h R Z) (h2 : Merid a f s' c' h' R Z)
    (hsR : 0 < a / Real.sqrt (1 - f * (2 - f) * s ^ 2) + h)
    (hsZ : 0 < (1 - f) ^ 2 * (a / Real.sqrt (1 - f * (2 - f) * s ^ 2)) + h) :
    s' = s ∧ c' = c ∧ h' = h := by
  have hm : 0 < (1 - f) ^ 2 := pow_pos (by linarith) 2
  obtain ⟨hN, hA⟩ := primeVertical a f s c ha hf h1.unit
  obtain ⟨hN', hA'⟩ := primeVertical a f s' c' ha hf h2.unit
  set N := a / Real.sqrt (1 - f * (2 - f) * s ^ 2) with hNd
  set N' := a / Real.sqrt (1 - f * (2 - f) * s' ^ 2) with hNd'
  set m := (1 - f) ^ 2 with hmd
  have c1R := h1.clR; have c1Z := h1.clZ; have c2R := h2.clR; have c2Z := h2.clZ
  -- the foot points are on the ellipse
  have hQ : (N * c) ^ 2 * m + (m * N * s) ^ 2 = a ^ 2 * m := by linear_combination m * hA
  have hQ' : (N' * c') ^ 2 * m + (m * N' * s') ^ 2 = a ^ 2 * m := by linear_combination m * hA'
  -- excess of the primed foot seen from the unprimed representation, and conversely
  have e1 := merid_excess a m N s c h (N' * c') (m * N' * s') h1.unit hA hQ'
  have e2 := merid_excess a m N' s' c' h' (N * c) (m * N * s) h2.unit hA' hQ
  -- distances: P − Q0' = h'(c', s'),  P − Q0 = h (c, s)
  have d1 : ((N + h) * c - N' * c') ^ 2 + ((m * N + h) * s - m * N' * s') ^ 2 = h' ^ 2 := by
    rw [c1R, c1Z, ← c2R, ← c2Z]; linear_combination (h' ^ 2) * h2.unit
  have d2 : ((N' + h') * c' - N * c) ^ 2 + ((m * N' + h') * s' - m * N * s) ^ 2 = h ^ 2 := by
    rw [c2R, c2Z, ← c1R, ← c1Z]; linear_combination (h ^ 2) * h1.unit
  rw [d1] at e1; rw [d2] at e2
  have p1 : 0 ≤ m * (N + h) * (N' * c' - N * c) ^ 2 + (m * N + h) * (m * N' * s' - m * N * s) ^ 2 := by
    have : 0 < m * (N + h) := mul_pos hm hsR
    positivity
  have p2 : 0 ≤ m * (N' + h') * (N * c - N' * c') ^ 2 + (m * N' + h') * (m * N * s - m * N' * s') ^ 2 := by
    have : 0 ≤ m * (N' + h') := mul_nonneg hm.le h2.sideR
    have := h2.sideZ
    positivity
  have hNm : 0 < N * m := by positivity
  have hNm' : 0 < N' * m := by positivity
  have g1 : 0 ≤ h' ^ 2 - h ^ 2 := by
    have : 0 ≤ N * m * (h' ^ 2 - h ^ 2) := by rw [e1]; exact p1
    exact nonneg_of_mul_nonneg_right this hNm
  have g2 : 0 ≤ h ^ 2 - h' ^ 2 := by
    have : 0 ≤ N' * m * (h ^ 2 - h' ^ 2) := by rw [e2]; exact p2
    exact nonneg_of_mul_nonneg_right this hNm'
  have hh : h' ^ 2 = h ^ 2 := by linarith
  -- so the excess vanishes: the foot points coincide
  have z1 : m * (N + h) * (N' * c' - N * c) ^ 2 + (m * N + h) * (m * N' * s' - m * N * s) ^ 2 = 0 := by
    rw [← e1, hh]; ring
  have hcpos : 0 < m * (N + h) := mul_pos hm hsR
  have t1 : 0 ≤ m * (N + h) * (N' * c' - N * c) ^ 2 := by positivity
  have t2 : 0 ≤ (m * N + h) * (m * N' * s' - m * N * s) ^ 2 := by positivity
  have q1 : (N' * c' - N * c) ^ 2 = 0 := by
    have : m * (N + h) * (N' * c' - N * c) ^ 2 = 0 := by linarith
    rcases mul_eq_zero.mp this with h0 | h0
    · exact absurd h0 hcpos.ne'
    · exact h0
  have q2 : (m * N' * s' - m * N * s) ^ 2 = 0 := by
    have : (m * N + h) * (m * N' * s' - m * N * s) ^ 2 = 0 := by linarith
    rcases mul_eq_zero.mp this with h0 | h0
    · exact absurd h0 hsZ.ne'
    · exact h0
  have r1 : N' * c' = N * c := by have := pow_eq_zero_iff (two_ne_zero) |>.mp q1; linarith
  have r2 : N' * s' = N * s := by
    have := pow_eq_zero_iff (two_ne_zero) |>.mp q2
    have : m * (N' * s' - N * s) = 0 := by linarith
    rcases mul_eq_zero.mp this with h0 | h0
    · exact absurd h0 hm.ne'
    · linarith
  have hNN : N' ^ 2 = N ^ 2 := by
    have e : N' ^ 2 = (N' * s') ^ 2 + (N' * c') ^ 2 := by linear_combination (-(N' ^ 2)) * h2.unit
    rw [e, r1, r2]; linear_combination (N ^ 2) * h1.unit
  have hNeq : N' = N := by
    have hz : (N' - N) * (N' + N) = 0 := by linear_combination hNN
    rcases mul_eq_zero.mp hz with h0 | h0
    · linarith
    · exfalso; linarith
  have hs : s' = s := by
    rw [hNeq] at r2; exact mul_left_cancel₀ hN.ne' r2
  have hc : c' = c := by
    rw [hNeq] at r1; exact mul_left_cancel₀ hN.ne' r1
  refine ⟨hs, hc, ?_⟩
  -- h' (c, s) = h (c, s)
  rw [hs] at c2R c2Z
  rw [hc] at c2R
  have k1 : (h' - h) * c = 0 := by linear_combination c2R - c1R
  have k2 : (h' - h) * s = 0 := by linear_combination c2Z - c1Z
  have : (h' - h) ^ 2 = 0 := by
    have : (h' - h) ^ 2 * (s ^ 2 + c ^ 2) = 0 := by
      have a1 : ((h' - h) * c) ^ 2 = 0 := by rw [k1]; ring
      have a2 : ((h' - h) * s) ^ 2 = 0 := by rw [k2]; ring
      linear_combination a1 + a2
    rw [h1.unit, mul_one] at this; exact this
  have := pow_eq_zero_iff (two_ne_zero) |>.mp this
  linarith

theorem nested_norm (X Y Z : ℝ) : Real.sqrt (Real.sqrt (X ^ 2 + Y ^ 2) ^ 2 + Z ^ 2) = Real.sqrt (X ^ 2 + Y ^ 2 + Z ^ 2) := by
  rw [Real.sq_sqrt (by positivity)]

theorem deg_rad (x : ℝ) : x * 180 / Real.pi * Real.pi / 180 = x := by
  have := Real.pi_ne_zero
  field_simp

end GeoVerif.GeocentricProofs
