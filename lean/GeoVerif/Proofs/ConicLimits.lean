import GeoVerif.Proofs.ConicSeries
import Mathlib.Analysis.SpecialFunctions.Log.Deriv
/-!
# The series of `AlbersEqualArea` converge to their closed forms (`atanhee`, `atanhxm1`, `DDatanhee1`; oblate ellipsoid) — `HasSum` statements
built on Mathlib's `Real.hasSum_log_sub_log_of_abs_lt_one`
-/
namespace GeoVerif.Proofs.ConicSeries
open GeoVerif GeoVerif.Conic GeoVerif.Proofs.Conic Finset

/-- Taylor series of `atanhee` on an oblate ellipsoid: `atanh(e s)/e = Σ_l (e²)^l s^(2l+1)/(2l+1)` for `|e s| < 1` -/
theorem atanhee_hasSum (f e s : ℝ) (hf : 0 < f) (he : 0 < e) (hs : |e * s| < 1) :
    HasSum (fun l : ℕ => (e ^ 2) ^ l * s ^ (2 * l + 1) / ((2 * l + 1 : ℕ) : ℝ)) (atanhee f e s) := by
  have h := Real.hasSum_log_sub_log_of_abs_lt_one hs
  have h2 := h.mul_left (1 / (2 * e))
  obtain ⟨h1, h1'⟩ := abs_lt.mp hs
  have hval : 1 / (2 * e) * (Real.log (1 + e * s) - Real.log (1 - e * s)) = atanhee f e s := by
    unfold atanhee
    simp only [ltb_real, zero_real, hf, decide_true, if_true, atanh_real]
    rw [Real.log_div (by linarith) (by linarith)]
    field_simp
  rw [hval] at h2
  have hfun : (fun l : ℕ => (e ^ 2) ^ l * s ^ (2 * l + 1) / ((2 * l + 1 : ℕ) : ℝ)) =
      (fun i : ℕ => 1 / (2 * e) * (2 * (1 / (2 * (i : ℝ) + 1)) * (e * s) ^ (2 * i + 1))) := by
    funext l
    have hene : e ≠ 0 := he.ne'
    push_cast
    rw [mul_pow, ← pow_mul, pow_succ e (2 * l)]
    field_simp
  rw [hfun]; exact h2

/-- **the series of `atanhxm1` converges to its closed form**: for `0 < x < 1`, `Σ_{k ≥ 1} x^k/(2k+1) = atanh(√x)/√x − 1` (the Horner loop
    evaluates the partial sums `axPoly x n`) -/
theorem atanhxm1_hasSum (x : ℝ) (hx0 : 0 < x) (hx1 : x < 1) :
    HasSum (fun k : ℕ => axCoef (k + 1) * x ^ (k + 1)) (Real.log ((1 + Real.sqrt x) / (1 - Real.sqrt x)) / 2 / Real.sqrt x - 1) := by
  have hs0 : 0 < Real.sqrt x := Real.sqrt_pos.mpr hx0
  have hs1 : Real.sqrt x < 1 := by
    have := Real.sqrt_lt_sqrt hx0.le hx1; rwa [Real.sqrt_one] at this
  have hsq : Real.sqrt x ^ 2 = x := Real.sq_sqrt hx0.le
  have h := atanhee_hasSum 1 (Real.sqrt x) 1 one_pos hs0 (by rw [mul_one, abs_of_pos hs0]; exact hs1)
  have hv : atanhee 1 (Real.sqrt x) 1 = Real.log ((1 + Real.sqrt x) / (1 - Real.sqrt x)) / 2 / Real.sqrt x := by
    unfold atanhee
    simp only [ltb_real, zero_real, one_pos, decide_true, if_true, atanh_real, mul_one]
  rw [hv, hsq] at h
  have h' := (hasSum_nat_add_iff' 1).mpr h
  simp only [Finset.sum_range_one] at h'
  have hfun : (fun k : ℕ => axCoef (k + 1) * x ^ (k + 1)) = (fun n : ℕ => x ^ (n + 1) * (1 : ℝ) ^ (2 * (n + 1) + 1) / ((2 * (n + 1) + 1 : ℕ) : ℝ)) := by
    funext k
    simp only [axCoef, Nat.succ_ne_zero, if_false, one_pow]
    ring
  rw [hfun]
  have hval : Real.log ((1 + Real.sqrt x) / (1 - Real.sqrt x)) / 2 / Real.sqrt x - 1 =
      Real.log ((1 + Real.sqrt x) / (1 - Real.sqrt x)) / 2 / Real.sqrt x - x ^ 0 * (1 : ℝ) ^ (2 * 0 + 1) / ((2 * 0 + 1 : ℕ) : ℝ) := by norm_num
  rw [hval]; exact h'

/-- **the series of `DDatanhee1` converges to the second divided difference of `atanhee`** (oblate ellipsoid, nodes `1, x, y` distinct in `[−1, 1]`):
    `Σ_l e2^l c[l]/(2l+1) = ((A(1) − A(y))/(1 − y) − (A(1) − A(x))/(1 − x))/(y − x)`; the loop returns a partial sum `dd1Sum e2 x y L` of it -/
theorem dd1_hasSum (f e x y : ℝ) (hf : 0 < f) (he : 0 < e) (he1 : e < 1) (hx : |x| ≤ 1) (hy : |y| ≤ 1)
    (hxy : x ≠ y) (hx1 : x ≠ 1) (hy1 : y ≠ 1) :
    HasSum (fun l : ℕ => (e ^ 2) ^ l * dd1C x y l / ((2 * l + 1 : ℕ) : ℝ))
      (((atanhee f e 1 - atanhee f e y) / (1 - y) - (atanhee f e 1 - atanhee f e x) / (1 - x)) / (y - x)) := by
  have hb : ∀ s : ℝ, |s| ≤ 1 → |e * s| < 1 := by
    intro s hs
    rw [abs_mul, abs_of_pos he]
    calc e * |s| ≤ e * 1 := by exact mul_le_mul_of_nonneg_left hs he.le
      _ < 1 := by linarith
  have h1 := atanhee_hasSum f e 1 hf he (hb 1 (by simp))
  have hX := atanhee_hasSum f e x hf he (hb x hx)
  have hY := atanhee_hasSum f e y hf he (hb y hy)
  have hc := ((((h1.sub hY).div_const (1 - y)).sub ((h1.sub hX).div_const (1 - x))).div_const (y - x))
  have hfun : (fun l : ℕ => (e ^ 2) ^ l * dd1C x y l / ((2 * l + 1 : ℕ) : ℝ)) =
      (fun l : ℕ => (((e ^ 2) ^ l * (1 : ℝ) ^ (2 * l + 1) / ((2 * l + 1 : ℕ) : ℝ) - (e ^ 2) ^ l * y ^ (2 * l + 1) / ((2 * l + 1 : ℕ) : ℝ)) / (1 - y) -
          ((e ^ 2) ^ l * (1 : ℝ) ^ (2 * l + 1) / ((2 * l + 1 : ℕ) : ℝ) - (e ^ 2) ^ l * x ^ (2 * l + 1) / ((2 * l + 1 : ℕ) : ℝ)) / (1 - x)) / (y - x)) := by
    funext l
    rw [dd1C_is_dd x y l hxy hx1 hy1, one_pow]
    have h2 : (1 : ℝ) - y ≠ 0 := sub_ne_zero.mpr (Ne.symm hy1)
    have h3 : (1 : ℝ) - x ≠ 0 := sub_ne_zero.mpr (Ne.symm hx1)
    have h4 : y - x ≠ 0 := sub_ne_zero.mpr (Ne.symm hxy)
    have h5 : (((2 * l + 1 : ℕ) : ℝ)) ≠ 0 := by positivity
    field_simp
  rw [hfun]; exact hc

/-- the partial sums of that series are the values `dd1Sum` the loop can return -/
theorem dd1Sum_eq_sum (e2 x y : ℝ) (L : ℕ) :
    dd1Sum e2 x y L = ∑ l ∈ range (L + 1), e2 ^ l * dd1C x y l / ((2 * l + 1 : ℕ) : ℝ) := by
  induction L with
  | zero => simp [dd1Sum, dd1C]
  | succ L ih => rw [dd1Sum, ih, Finset.sum_range_succ (n := L + 1)]

end GeoVerif.Proofs.ConicSeries
