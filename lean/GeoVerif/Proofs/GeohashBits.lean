import GeoVerif.Model.GridCodes
/-!
# Geohash bit plumbing: chunks of 5, (de)interleaving, bits of a number (core Lean only)
-/
namespace GeoVerif.GeohashBits
open GeoVerif.Grid GeoVerif.Grid.Geohash

/-- accumulate big-endian bits onto `acc` -/
def accBits (acc : Nat) (l : List Bool) : Nat := l.foldl (fun acc b => 2 * acc + (if b then 1 else 0)) acc

theorem bitsToNat_eq (l : List Bool) : bitsToNat l = accBits 0 l := rfl

/-- one decoder step: bits go alternately to `ulon` (`j = 0`) and `ulat` -/
def step (acc : Nat × Nat × Nat) (b : Bool) : Nat × Nat × Nat :=
  if acc.2.2 = 0 then (2 * acc.1 + (if b then 1 else 0), acc.2.1, 1) else (acc.1, 2 * acc.2.1 + (if b then 1 else 0), 0)

theorem bits5_roundtrip : ∀ a b c d e : Bool, bitsFrom (bitsToNat [a, b, c, d, e]) 4 5 = [a, b, c, d, e] ∧ bitsToNat [a, b, c, d, e] < 32 := by
  decide

theorem lookup32 : ∀ k < 32, lookup uc (chr lc k).toNat = some k := by decide

theorem go_chunks (chunks : List (List Bool)) (h : ∀ ch ∈ chunks, ch.length = 5) (x y j : Nat) :
    decodeInt.go (toBytes (chunks.map fun ch => chr lc (bitsToNat ch))) x y j = .ok (chunks.flatten.foldl step (x, y, j)) := by
  induction chunks generalizing x y j with
  | nil => simp [toBytes, decodeInt.go]
  | cons ch rest ih =>
    have h5 := h ch (by simp)
    match ch, h5 with
    | [a, b, c, d, e], _ =>
      obtain ⟨r1, r2⟩ := bits5_roundtrip a b c d e
      simp only [List.map_cons, toBytes] at ih ⊢
      unfold decodeInt.go
      rw [lookup32 _ r2]
      simp only [r1]
      have hstep : (fun (acc : Nat × Nat × Nat) (b : Bool) =>
            if acc.2.snd = 0 then (2 * acc.fst + if b = true then 1 else 0, acc.2.fst, 1)
            else (acc.fst, 2 * acc.2.fst + if b = true then 1 else 0, 0)) = step := rfl
      rw [hstep, ih (fun c hc => h c (by simp [hc]))]
      simp only [List.flatten_cons, List.foldl_append]

theorem chunks5_spec (l : List Bool) :
    (∀ ch ∈ chunks5 l, ch.length = 5) ∧ (l.length % 5 = 0 → (chunks5 l).flatten = l) := by
  match l with
  | a :: b :: c :: d :: e :: rest =>
    obtain ⟨h1, h2⟩ := chunks5_spec rest
    simp only [chunks5]
    constructor
    · intro ch hch
      rcases List.mem_cons.mp hch with rfl | h
      · rfl
      · exact h1 ch h
    · intro hl
      simp only [List.length_cons] at hl
      simp only [List.flatten_cons, List.cons_append, List.nil_append]
      rw [h2 (by omega)]
  | [] => simp [chunks5]
  | [_] => simp [chunks5]
  | [_, _] => simp [chunks5]
  | [_, _, _] => simp [chunks5]
  | [_, _, _, _] => simp [chunks5]

theorem accBits_cons (acc : Nat) (b : Bool) (l : List Bool) :
    accBits acc (b :: l) = accBits (2 * acc + (if b then 1 else 0)) l := rfl

/-- de-interleaving: feeding the first `n` bits of `interleave A B` to the decoder steps gives the first
`⌈n/2⌉` bits of `A` and the first `⌊n/2⌋` bits of `B` -/
theorem deinterleave (A B : List Bool) (hAB : A.length = B.length) (n : Nat) (hn : n ≤ 2 * A.length) (x y : Nat) :
    ((interleave A B).take n).foldl step (x, y, 0) =
      (accBits x (A.take ((n + 1) / 2)), accBits y (B.take (n / 2)), n % 2) := by
  induction A generalizing B n x y with
  | nil =>
    have : n = 0 := by simpa using hn
    subst this
    simp [accBits]
  | cons a as ih =>
    match B, hAB with
    | b :: bs, hAB =>
      match n, hn with
      | 0, _ => simp [accBits]
      | 1, _ => simp [interleave, step, accBits]
      | k + 2, hk =>
        have e1 : (k + 2 + 1) / 2 = (k + 1) / 2 + 1 := by omega
        have e2 : (k + 2) / 2 = k / 2 + 1 := by omega
        have e3 : (k + 2) % 2 = k % 2 := by omega
        simp only [interleave, List.take_succ_cons, List.foldl_cons, e1, e2, e3, accBits_cons]
        have hs : step (step (x, y, 0) a) b = (2 * x + (if a then 1 else 0), 2 * y + (if b then 1 else 0), 0) := by
          simp [step]
        rw [hs]
        exact ih bs (by simpa using hAB) k (by simp at hk; omega) _ _

theorem bitsFrom_length (u top n : Nat) : (bitsFrom u top n).length = n := by
  induction n generalizing top with
  | zero => rfl
  | succ n ih => simp [bitsFrom, ih]

theorem bitsFrom_take (u top n k : Nat) (hk : k ≤ n) : (bitsFrom u top n).take k = bitsFrom u top k := by
  induction k generalizing top n with
  | zero => simp [bitsFrom]
  | succ k ih =>
    match n, hk with
    | n + 1, hk => simp only [bitsFrom, List.take_succ_cons]; rw [ih _ _ (by omega)]

/-- the number spelled by `k` bits of `u` from bit `top` downwards -/
theorem accBits_bitsFrom (u : Nat) (k top acc : Nat) (hk : k ≤ top + 1) :
    accBits acc (bitsFrom u top k) = acc * 2 ^ k + (u / 2 ^ (top + 1 - k)) % 2 ^ k := by
  induction k generalizing top acc with
  | zero => simp [bitsFrom, accBits, Nat.mod_one]
  | succ k ih =>
    simp only [bitsFrom, accBits_cons]
    match top, hk with
    | 0, hk =>
      have : k = 0 := by omega
      subst this
      simp [bitsFrom, accBits, Nat.testBit_eq_decide_div_mod_eq]
      by_cases h : u % 2 = 1 <;> simp [h] <;> omega
    | t + 1, hk =>
      rw [show t + 1 - 1 = t by omega, ih t _ (by omega)]
      have e : t + 1 + 1 - (k + 1) = t + 1 - k := by omega
      rw [e]
      obtain ⟨v, hv⟩ : ∃ v, v = u / 2 ^ (t + 1 - k) := ⟨_, rfl⟩
      rw [← hv]
      have hbit : (if u.testBit (t + 1) then 1 else 0) = v / 2 ^ k % 2 := by
        rw [Nat.testBit_eq_decide_div_mod_eq, hv, Nat.div_div_eq_div_mul, ← Nat.pow_add,
          show t + 1 - k + k = t + 1 by omega]
        by_cases h : u / 2 ^ (t + 1) % 2 = 1
        · simp [h]
        · simp [h]; omega
      rw [hbit, Nat.mod_pow_succ (x := v), Nat.pow_succ]
      generalize v / 2 ^ k % 2 = bb
      generalize v % 2 ^ k = rr
      generalize 2 ^ k = P
      rw [Nat.add_mul, Nat.mul_comm P bb]
      have : 2 * acc * P = acc * (P * 2) := by
        rw [Nat.mul_comm 2 acc, Nat.mul_assoc, Nat.mul_comm 2 P]
      omega

theorem interleave_length (A B : List Bool) (h : A.length = B.length) : (interleave A B).length = 2 * A.length := by
  induction A generalizing B with
  | nil => match B, h with | [], _ => rfl
  | cons a as ih =>
    match B, h with
    | b :: bs, h =>
      simp only [interleave, List.length_cons]
      rw [ih bs (by simpa using h)]; omega

theorem chunks5_length (l : List Bool) : (chunks5 l).length = l.length / 5 := by
  match l with
  | a :: b :: c :: d :: e :: rest =>
    simp only [chunks5, List.length_cons]
    rw [chunks5_length rest]; omega
  | [] => simp [chunks5]
  | [_] => simp [chunks5]
  | [_, _] => simp [chunks5]
  | [_, _, _] => simp [chunks5]
  | [_, _, _, _] => simp [chunks5]

/-- the decoder loop on an encoder output -/
theorem go_encodeInt (ulon ulat len : Nat) (hlen : len ≤ 18) :
    (toBytes (encodeInt ulon ulat len)).length = len ∧
    decodeInt.go (toBytes (encodeInt ulon ulat len)) 0 0 0 =
      .ok (ulon / 2 ^ (46 - (5 * len + 1) / 2) % 2 ^ ((5 * len + 1) / 2),
           ulat / 2 ^ (46 - 5 * len / 2) % 2 ^ (5 * len / 2), 5 * len % 2) := by
  have hA : (bitsFrom ulon 45 45).length = 45 := bitsFrom_length _ _ _
  have hB : (bitsFrom ulat 45 45).length = 45 := bitsFrom_length _ _ _
  have hS := interleave_length (bitsFrom ulon 45 45) (bitsFrom ulat 45 45) (by rw [hA, hB])
  rw [hA] at hS
  have hl : ((interleave (bitsFrom ulon 45 45) (bitsFrom ulat 45 45)).take (5 * len)).length = 5 * len := by
    rw [List.length_take, hS]; omega
  obtain ⟨c1, c2⟩ := chunks5_spec ((interleave (bitsFrom ulon 45 45) (bitsFrom ulat 45 45)).take (5 * len))
  have c2' := c2 (by rw [hl]; omega)
  unfold encodeInt
  simp only []
  constructor
  · simp only [toBytes, List.length_map, chunks5_length, hl]; omega
  · rw [go_chunks _ c1, c2', deinterleave _ _ (by rw [hA, hB]) _ (by rw [hA]; omega),
      bitsFrom_take _ _ _ _ (by omega), bitsFrom_take _ _ _ _ (by omega),
      accBits_bitsFrom _ _ _ _ (by omega), accBits_bitsFrom _ _ _ _ (by omega)]
    simp only [Nat.zero_mul, Nat.zero_add]
end GeoVerif.GeohashBits
